/-
C02 (companion) - the vertex / chip ORDER functions of the wrapper placers (breadth_first.py,
rcm.py, hilbert.py): every vertex order lists every vertex exactly once, every chip order lists
every working chip exactly once, for all netlists, machines and set iteration orders; hence the
breadth-first, Hilbert and RCM placers succeed under the unit-demand hypotheses.
Lemmas: RigModel/Lemmas/C02Orders*.lean.
-/
import RigModel.Lemmas.C02OrdersTop
import RigModel.Lemmas.C02OrdersRcm
import RigModel.Lemmas.C02OrdersRcmTerm
import RigModel.Props.C02
set_option linter.unusedSimpArgs false
set_option linter.unusedVariables false
set_option linter.unusedSectionVars false

namespace Rig.C02Orders
open Rig.C02 (aget aset keys Chip Machine Vtx VR Constraint Placement seqPlace prepareLoop needOf total UnitDem
  NonNegCap NonNegVR mem_chips_iff)

section generic
variable {α : Type} [DecidableEq α]

/-- **breadth_first_vertex_order lists every vertex exactly once** - for every netlist (nets over
unknown vertices, self loops, repeated sinks, isolated vertices, disconnected graphs) and every
outcome of the set iterations and `set.pop()` calls. -/
theorem bfsOrder_perm (vs : List α) (nets : List (Net α)) (pops : List α) (iters : List (List α))
    (order : List α) (h : bfsOrder vs nets pops iters = .ok order) :
    order.Nodup ∧ (∀ v, v ∈ order ↔ v ∈ vs) ∧ (vs.Nodup → order.Perm vs) := by
  have hp : order.Perm (dedupL vs) := by
    unfold bfsOrder at h
    split at h
    · rename_i h0
      have : vs = [] := List.eq_nil_of_length_eq_zero h0
      subst this
      split at h
      · injection h with h; subst h; exact List.Perm.refl _
      · simp at h
    · exact bfsLoop_perm _ _ (nodup_dedupL vs) _ _ _ (by simp [BfsInv]) h
  refine ⟨hp.nodup_iff.2 (nodup_dedupL vs), fun v => by rw [hp.mem_iff, mem_dedupL], fun hnd => ?_⟩
  rw [dedupL_of_nodup vs hnd] at hp; exact hp

/-- **breadth_first_vertex_order terminates**: the `while` loop runs at most once per vertex. -/
theorem bfsOrder_terminates (vs : List α) (nets : List (Net α)) (pops : List α) (iters : List (List α)) :
    bfsOrder vs nets pops iters ≠ .error .fuel := by
  unfold bfsOrder
  split
  · split <;> simp
  · exact bfsLoop_no_fuel _ _ (nodup_dedupL vs) _ _ (by simp [BfsInv]) (by simp)

/-- **rcm_vertex_order never repeats a vertex and misses none** (no hypothesis on the nets);
what it lists besides the vertices are end points of nets. -/
theorem rcmVertexOrder_covers (vs : List α) (nets : List (Net α)) (pops : List α) (iters : List (List α))
    (order : List α) (h : rcmVertexOrder vs nets pops iters = .ok order) :
    order.Nodup ∧ (∀ v ∈ vs, v ∈ order) ∧
      (∀ v ∈ order, v ∈ vs ∨ ∃ n ∈ nets, v = n.src ∨ v ∈ n.sinks) :=
  rcmVertexOrder_spec vs nets pops iters order h

/-- **rcm_vertex_order lists every vertex exactly once** when the nets connect known vertices. -/
theorem rcmVertexOrder_perm (vs : List α) (nets : List (Net α)) (pops : List α) (iters : List (List α))
    (order : List α) (hnets : ∀ n ∈ nets, n.src ∈ vs ∧ ∀ s ∈ n.sinks, s ∈ vs)
    (h : rcmVertexOrder vs nets pops iters = .ok order) :
    order.Nodup ∧ (∀ v, v ∈ order ↔ v ∈ vs) ∧ (vs.Nodup → order.Perm vs) := by
  obtain ⟨h1, h2, h3⟩ := rcmVertexOrder_spec vs nets pops iters order h
  have hm : ∀ v, v ∈ order ↔ v ∈ vs := by
    intro v
    refine ⟨fun hv => ?_, h2 v⟩
    rcases h3 v hv with h' | ⟨n, hn, rfl | h'⟩
    · exact h'
    · exact (hnets n hn).1
    · exact (hnets n hn).2 v h'
  exact ⟨h1, hm, fun hnd => (List.perm_ext_iff_of_nodup h1 hnd).2 hm⟩

/-- **rcm_vertex_order terminates** - for EVERY netlist (disconnected graphs, isolated vertices,
self loops, zero weights, nets over unknown vertices) and every outcome of the set iterations and
`set.pop()` calls, the fuel the model gives the three `while` loops of rcm.py is never used up:
`_dfs` gets `1 + sum of the sizes of the inner neighbour dictionaries` iterations (every iteration
pops one element; elements are pushed only when a vertex is visited for the first time),
`_get_connected_subgraphs` one iteration per distinct vertex, `_cuthill_mckee` one iteration per
vertex of the subgraph (each subgraph is the depth-first closure of a vertex in a symmetric table,
hence connected, so every layer before the last one is non-empty). -/
theorem rcmVertexOrder_terminates (vs : List α) (nets : List (Net α)) (pops : List α) (iters : List (List α)) :
    rcmVertexOrder vs nets pops iters ≠ .error .fuel := by
  intro h
  have := rcmVertexOrder_total vs nets pops iters _ h
  simp at this

/-- **rcm_vertex_order raises no Python error**: the `KeyError` (`vertices_degrees[v]` for a vertex
outside the subgraph) and the `ValueError` (`min()` of an empty set) that `_cuthill_mckee` can
raise when called on its own are unreachable inside `rcm_vertex_order`; the model's only failure is
the rejection of an impossible oracle stream. -/
theorem rcmVertexOrder_no_python_error (vs : List α) (nets : List (Net α)) (pops : List α) (iters : List (List α))
    (e : OErr) (h : rcmVertexOrder vs nets pops iters = .error e) : e = .badOracle :=
  rcmVertexOrder_total vs nets pops iters e h

/-- the loops themselves, for ANY fuel at least the stated bound (the bound is what matters, not
the particular fuel the model passes): `_dfs` ends within `len(to_visit) + sum of the sizes of the
inner dictionaries of the unvisited vertices` iterations -/
theorem dfs_terminates (vn : VN α) (fuel : Nat) (st vis : List α) (h : st.length + dfsW vn vis ≤ fuel) :
    ∃ r, dfsLoop vn fuel st vis = .ok r := dfsLoop_ok vn fuel st vis h

/-- ... `_get_connected_subgraphs`: one iteration per remaining vertex -/
theorem connectedSubgraphs_terminates (vn : VN α) (fuel : Nat) (rem pops : List α) (acc : List (List α))
    (h : rem.length ≤ fuel) : subgraphsLoop vn fuel rem pops acc ≠ .error .fuel :=
  subgraphsLoop_no_fuel vn fuel rem pops acc h

/-- ... `_cuthill_mckee` on a CONNECTED subgraph: `len(vertices) - len(cm_order)` iterations -/
theorem cuthillMckee_terminates (vn : VN α) (sg : List α) (hc : Conn vn sg) (fuel : Nat) (s : CmSt α)
    (I : CmInv2 vn sg s) (h : sg.length ≤ s.order.length + fuel) : cmLoop vn sg fuel s ≠ .error .fuel := by
  intro he
  have := cmLoop_total vn sg hc fuel s I h _ he
  simp at this

/-- every subgraph `_get_connected_subgraphs` returns is connected (what `_cuthill_mckee` asks for
in its docstring) -/
theorem connectedSubgraphs_connected (vs : List α) (nets : List (Net α)) (pops pops' : List α)
    (sgs : List (List α))
    (h : connectedSubgraphs (getVerticesNeighbours nets) vs pops = .ok (sgs, pops')) :
    ∀ sg ∈ sgs, Conn (getVerticesNeighbours nets) sg :=
  subgraphsLoop_conn _ (getVN_sym nets) _ _ _ _ _ _ (by simp) h

/-- the decidable check the harness runs on the implementation's vertex orders is the statement
"lists every vertex exactly once" -/
theorem isPermOf_iff (order vs : List α) :
    isPermOf order vs = true ↔ order.Nodup ∧ ∀ v, v ∈ order ↔ v ∈ vs := isPermOf_iff' order vs

end generic

/-- **rcm_chip_order lists every working chip exactly once** - for every machine (dead chips,
dead links) and every outcome of the set iterations. -/
theorem rcmChipOrder_perm (m : Machine) (deadLinks : List (Nat × Nat × Nat)) (pops : List Chip)
    (iters : List (List Chip)) (co : List Chip) (h : rcmChipOrder m deadLinks pops iters = .ok co) :
    co.Perm m.chips := by
  unfold rcmChipOrder at h
  refine (rcmVertexOrder_perm m.chips _ pops iters co ?_ h).2.2 (chips_nodup m)
  intro n hn
  obtain ⟨c, hc, rfl⟩ := List.mem_map.1 hn
  refine ⟨hc, fun s hs => ?_⟩
  simp only [chipNet, List.mem_filterMap] at hs
  obtain ⟨l, _, hs⟩ := hs
  split at hs
  · simp at hs
  · split at hs
    · rename_i hok
      injection hs with hs; subst hs
      exact (mem_chips_iff m _).2 hok
    · simp at hs

/-- **rcm_chip_order terminates and raises no Python error** - for every machine (any size, dead
chips, dead links) and every outcome of the set iterations. -/
theorem rcmChipOrder_terminates (m : Machine) (deadLinks : List (Nat × Nat × Nat)) (pops : List Chip)
    (iters : List (List Chip)) : rcmChipOrder m deadLinks pops iters ≠ .error .fuel :=
  rcmVertexOrder_terminates _ _ _ _

theorem rcmChipOrder_no_python_error (m : Machine) (deadLinks : List (Nat × Nat × Nat)) (pops : List Chip)
    (iters : List (List Chip)) (e : OErr) (h : rcmChipOrder m deadLinks pops iters = .error e) :
    e = .badOracle :=
  rcmVertexOrder_no_python_error _ _ _ _ e h

/-- the hypothesis of `cuthillMckee_terminates` is necessary (the warning in the docstring): on the
disconnected graph {1 - 2, 3}, once the component of 3 is exhausted (`previous_layer` empty) the
loop `while len(cm_order) < len(vertices)` never ends - the model runs out of ANY fuel. -/
theorem cuthillMckee_diverges_disconnected (fuel : Nat) :
    cmLoop (getVerticesNeighbours [⟨1, [2], 4⟩]) [1, 2, 3] fuel
      { visited := [3], order := [3], prev := [], iters := List.replicate (2 * fuel) ([] : List Nat) }
      = .error .fuel := by
  induction fuel with
  | zero => decide
  | succ n ih =>
    have e : List.replicate (2 * (n + 1)) ([] : List Nat) = [] :: [] :: List.replicate (2 * n) [] := by
      rw [show 2 * (n + 1) = (2 * n + 1) + 1 by omega, List.replicate_succ, List.replicate_succ]
    rw [e]
    simp only [cmLoop, cmStep, takeIter, isOrderOf, List.flatMap_nil, dedupL, List.filter_nil, sortBy,
      List.append_nil]
    simpa [sortBy] using ih

/-! ### the wrapper placers as compositions, and their termination -/

/-- failure of a wrapper placer: in its order function or in the sequential placer -/
inductive PErr where
  | order (e : OErr)
  | place (e : Rig.C02.Err)
  deriving DecidableEq, Repr

/-- `rcm.place(vertices_resources, nets, machine, constraints)`:
`sequential_place(..., rcm_vertex_order(vertices_resources, nets), rcm_chip_order(machine))` -/
def rcmPlace (vr : VR) (cs : List Constraint) (m : Machine) (nets : List (Net Vtx))
    (deadLinks : List (Nat × Nat × Nat)) (pops : List Vtx) (iters : List (List Vtx)) (cpops : List Chip)
    (citers : List (List Chip)) : Except PErr Placement :=
  match rcmVertexOrder (keys vr) nets pops iters with
  | .error e => .error (.order e)
  | .ok vo =>
    match rcmChipOrder m deadLinks cpops citers with
    | .error e => .error (.order e)
    | .ok co =>
      match seqPlace vr cs m (some vo) (some co) with
      | .error e => .error (.place e)
      | .ok p => .ok p

/-- `breadth_first.place(...)`: `sequential_place(..., breadth_first_vertex_order(...), chip_order)` -/
def bfsPlace (vr : VR) (cs : List Constraint) (m : Machine) (nets : List (Net Vtx)) (pops : List Vtx)
    (iters : List (List Vtx)) (chipOrder : Option (List Chip)) : Except PErr Placement :=
  match bfsOrder (keys vr) nets pops iters with
  | .error e => .error (.order e)
  | .ok vo =>
    match seqPlace vr cs m (some vo) chipOrder with
    | .error e => .error (.place e)
    | .ok p => .ok p

/-- `hilbert.place(..., breadth_first)`: the vertex order is the breadth-first one or the
dictionary order, the chip order `hilbert_chip_order(machine)` -/
def hilbertPlace (vr : VR) (cs : List Constraint) (m : Machine) (nets : List (Net Vtx)) (pops : List Vtx)
    (iters : List (List Vtx)) (breadthFirst : Bool) : Except PErr Placement :=
  let co := toChips (hilbertChipOrder m.w m.h)
  if breadthFirst then
    match bfsOrder (keys vr) nets pops iters with
    | .error e => .error (.order e)
    | .ok vo =>
      match seqPlace vr cs m (some vo) (some co) with
      | .error e => .error (.place e)
      | .ok p => .ok p
  else
    match seqPlace vr cs m none (some co) with
    | .error e => .error (.place e)
    | .ok p => .ok p

/-- **The RCM placer terminates** - `rcmVertexOrder_terminates`, `rcmChipOrder_terminates` and
`seqPlace_terminates` composed: for every problem, machine and oracle no loop of `rcm.place` runs
out of its step bound. -/
theorem rcmPlace_terminates (vr : VR) (cs : List Constraint) (m : Machine) (nets : List (Net Vtx))
    (deadLinks : List (Nat × Nat × Nat)) (pops : List Vtx) (iters : List (List Vtx)) (cpops : List Chip)
    (citers : List (List Chip)) :
    rcmPlace vr cs m nets deadLinks pops iters cpops citers ≠ .error (.order .fuel) ∧
    rcmPlace vr cs m nets deadLinks pops iters cpops citers ≠ .error (.place .fuel) := by
  unfold rcmPlace
  have h1 := rcmVertexOrder_terminates (keys vr) nets pops iters
  have h2 := rcmChipOrder_terminates m deadLinks cpops citers
  cases hv : rcmVertexOrder (keys vr) nets pops iters with
  | error e =>
    have : e ≠ .fuel := fun he => h1 (by rw [hv, he])
    constructor <;> simp [this]
  | ok vo =>
    cases hc : rcmChipOrder m deadLinks cpops citers with
    | error e =>
      have : e ≠ .fuel := fun he => h2 (by rw [hc, he])
      constructor <;> simp [this]
    | ok co =>
      have h3 := Rig.C02.seqPlace_terminates vr cs m (some vo) (some co)
      cases hs : seqPlace vr cs m (some vo) (some co) with
      | error e =>
        have : e ≠ .fuel := fun he => h3 (by rw [hs, he])
        constructor <;> simp [hs, this]
      | ok p => constructor <;> simp [hs]

/-- **The breadth-first placer terminates.** -/
theorem bfsPlace_terminates (vr : VR) (cs : List Constraint) (m : Machine) (nets : List (Net Vtx))
    (pops : List Vtx) (iters : List (List Vtx)) (chipOrder : Option (List Chip)) :
    bfsPlace vr cs m nets pops iters chipOrder ≠ .error (.order .fuel) ∧
    bfsPlace vr cs m nets pops iters chipOrder ≠ .error (.place .fuel) := by
  unfold bfsPlace
  have h1 := bfsOrder_terminates (keys vr) nets pops iters
  cases hv : bfsOrder (keys vr) nets pops iters with
  | error e =>
    have : e ≠ .fuel := fun he => h1 (by rw [hv, he])
    constructor <;> simp [this]
  | ok vo =>
    have h3 := Rig.C02.seqPlace_terminates vr cs m (some vo) chipOrder
    cases hs : seqPlace vr cs m (some vo) chipOrder with
    | error e =>
      have : e ≠ .fuel := fun he => h3 (by rw [hs, he])
      constructor <;> simp [hs, this]
    | ok p => constructor <;> simp [hs]

/-- **The Hilbert placer terminates** (both modes; `hilbert(level)` itself is a structurally
recursive generator of depth `level`). -/
theorem hilbertPlace_terminates (vr : VR) (cs : List Constraint) (m : Machine) (nets : List (Net Vtx))
    (pops : List Vtx) (iters : List (List Vtx)) (breadthFirst : Bool) :
    hilbertPlace vr cs m nets pops iters breadthFirst ≠ .error (.order .fuel) ∧
    hilbertPlace vr cs m nets pops iters breadthFirst ≠ .error (.place .fuel) := by
  unfold hilbertPlace
  have h1 := bfsOrder_terminates (keys vr) nets pops iters
  cases breadthFirst with
  | true =>
    simp only [if_true]
    cases hv : bfsOrder (keys vr) nets pops iters with
    | error e =>
      have : e ≠ .fuel := fun he => h1 (by rw [hv, he])
      constructor <;> simp [this]
    | ok vo =>
      have h3 := Rig.C02.seqPlace_terminates vr cs m (some vo) (some (toChips (hilbertChipOrder m.w m.h)))
      cases hs : seqPlace vr cs m (some vo) (some (toChips (hilbertChipOrder m.w m.h))) with
      | error e =>
        have : e ≠ .fuel := fun he => h3 (by rw [hs, he])
        constructor <;> simp [hs, this]
      | ok p => constructor <;> simp [hs]
  | false =>
    simp only [Bool.false_eq_true, if_false]
    have h3 := Rig.C02.seqPlace_terminates vr cs m none (some (toChips (hilbertChipOrder m.w m.h)))
    cases hs : seqPlace vr cs m none (some (toChips (hilbertChipOrder m.w m.h))) with
    | error e =>
      have : e ≠ .fuel := fun he => h3 (by rw [hs, he])
      constructor <;> simp [hs, this]
    | ok p => constructor <;> simp [hs]

/-- **The Hilbert L-system fills its square**: started at any position with any axis heading and
either handedness, the curve of level `n` (with its starting point) visits every point of the
2^n x 2^n square spanned by the heading and the "left" direction exactly once, and ends at the far
end of the first side with the heading it started with.  Induction on the level. -/
theorem hilbert_curve_fills_square (n : Nat) (a : Int) (s : HState) (ha : a = 1 ∨ a = -1) (hd : unitDir s) :
    (hil n a s).2 = endOf s (2 ^ n) ∧ (s.pos :: (hil n a s).1).Nodup ∧
      ∀ q, q ∈ s.pos :: (hil n a s).1 ↔ inSq s a (2 ^ n) q :=
  let S := hil_spec n a s ha hd
  ⟨S.fin, S.nodup, S.mem⟩

/-- **`hilbert(level)` is a duplicate-free enumeration of the square [0, 2^level)²** -/
theorem hilbert_perm_square (k : Nat) :
    (hilbert k).Nodup ∧ ∀ q : Int × Int, q ∈ hilbert k ↔ 0 ≤ q.1 ∧ q.1 < 2 ^ k ∧ 0 ≤ q.2 ∧ q.2 < 2 ^ k :=
  ⟨hilbert_nodup k, mem_hilbert k⟩

/-- the level chosen for a machine: the least `k` with `max(w, h) ≤ 2^k` -/
theorem levels_spec (n : Nat) : n ≤ 2 ^ levels n ∧ (levels n = 0 ∨ 2 ^ (levels n - 1) < n) := by
  refine ⟨le_two_pow_levels n, ?_⟩
  unfold levels
  split
  · exact Or.inl rfl
  · right
    have := Nat.log2_self_le (n := n - 1) (by omega)
    simp only [Nat.add_sub_cancel]
    omega

/-! ### the Hilbert level -/

/-- **The level `hilbert_chip_order` must choose is the least `k` with `n ≤ 2^k`** (the integer
meaning of `int(ceil(log(n, 2.0)))`), for EVERY `n ≥ 1`. -/
theorem hilbertLevel_least (n : Nat) (hn : 1 ≤ n) :
    n ≤ 2 ^ levels n ∧ ∀ k, n ≤ 2 ^ k → levels n ≤ k := by
  obtain ⟨h1, h2⟩ := levels_spec n
  refine ⟨h1, fun k hk => ?_⟩
  rcases h2 with h0 | hlt
  · omega
  · have : 2 ^ (levels n - 1) < 2 ^ k := Nat.lt_of_lt_of_le hlt hk
    have := (Nat.pow_lt_pow_iff_right (by omega : 1 < 2)).1 this
    omega

/-- ... and it is the only such number -/
theorem hilbertLevel_unique (n k : Nat) (hn : 1 ≤ n) :
    levels n = k ↔ (n ≤ 2 ^ k ∧ ∀ j, n ≤ 2 ^ j → k ≤ j) := by
  obtain ⟨h1, h2⟩ := hilbertLevel_least n hn
  constructor
  · rintro rfl; exact ⟨h1, h2⟩
  · rintro ⟨k1, k2⟩
    have a := h2 k k1
    have b := k2 _ h1
    omega

/-- the two models of the level (this file's `levels`, Model/C02's `clog2`) are one function -/
theorem clog2_eq_levels (n : Nat) : Rig.C02.clog2 n = levels n := rfl

/-- **`hilbert(L)` covers a `w x h` machine exactly when `max(w, h) ≤ 2^L`** - for every `L`, `w`,
`h`: any level at least `hilbertLevel` covers (a float evaluation of the level that comes out too
LARGE is harmless), every smaller level misses a chip (one that comes out too SMALL is not). -/
theorem hilbert_level_covers_iff (L w h : Nat) (hw : 1 ≤ w) (hh : 1 ≤ h) :
    (∀ x y, x < w → y < h → (x, y) ∈ toChips (hilbert L)) ↔ max w h ≤ 2 ^ L := by
  have hpow : ((2 ^ L : Nat) : Int) = (2 : Int) ^ L := by norm_cast
  constructor
  · intro hall
    have a := hall (w - 1) 0 (by omega) (by omega)
    have b := hall 0 (h - 1) (by omega) (by omega)
    rw [mem_toChips, mem_hilbert] at a b
    simp only at a b
    rw [← hpow] at a b
    omega
  · intro hle x y hx hy
    rw [mem_toChips, mem_hilbert]
    simp only
    rw [← hpow]
    omega

/-- **hilbert_chip_order with the exact level covers every machine, and no smaller level does** -/
theorem hilbert_covers_all (w h : Nat) (hw : 1 ≤ w) (hh : 1 ≤ h) :
    (∀ x y, x < w → y < h → (x, y) ∈ toChips (hilbertChipOrder w h)) ∧
    ∀ L, L < levels (max w h) → ¬ ∀ x y, x < w → y < h → (x, y) ∈ toChips (hilbert L) := by
  obtain ⟨h1, h2⟩ := hilbertLevel_least (max w h) (by omega)
  refine ⟨(hilbert_level_covers_iff _ w h hw hh).2 h1, fun L hL hall => ?_⟩
  have := h2 L ((hilbert_level_covers_iff L w h hw hh).1 hall)
  omega

/-- **hilbert_chip_order lists every working chip of the machine exactly once** (besides points
outside the machine, which the sequential placer skips). -/
theorem hilbertChipOrder_covers (m : Machine) :
    ((toChips (hilbertChipOrder m.w m.h)).filter m.ok).Perm m.chips := hilbertChips_perm m

/-- the decidable check the harness runs on the implementation's chip orders is the statement
"restricted to the machine, the order is a rearrangement of the machine's chips" -/
theorem coversOnce_iff (m : Machine) (co : List (Int × Int)) :
    coversOnce m co = true ↔ ((toChips co).filter m.ok).Perm m.chips := by
  rw [List.perm_iff_count]
  simp only [coversOnce, List.all_eq_true, beq_iff_eq, mem_chips_iff]
  have hc : ∀ c, List.count c m.chips = if m.ok c = true then 1 else 0 := by
    intro c
    split
    · rename_i h
      exact List.count_eq_one_of_mem (chips_nodup m) ((mem_chips_iff m c).2 h)
    · rename_i h
      exact List.count_eq_zero_of_not_mem (fun hm => h ((mem_chips_iff m c).1 hm))
  have hf : ∀ c, m.ok c = false → List.count c ((toChips co).filter m.ok) = 0 := by
    intro c hok
    apply List.count_eq_zero_of_not_mem
    intro hm; rw [(List.mem_filter.1 hm).2] at hok; simp at hok
  constructor
  · intro h c
    rw [hc c]
    cases hok : m.ok c with
    | true => rw [List.count_filter hok]; simp [h c hok]
    | false => simp [hf c hok]
  · intro h c hok
    have := h c
    rw [hc c, List.count_filter hok] at this
    simpa [hok] using this

/-! ### the wrapper placers succeed under the unit-demand hypotheses -/

/-- the sequential placer succeeds when its vertex order is a rearrangement of the vertices and
its chip order, restricted to the machine, a rearrangement of the machine's chips -/
theorem seqPlace_complete_of_perm (vr : VR) (cs : List Constraint) (m m' : Machine) (fixed : Placement)
    (vertexOrder : Option (List Vtx)) (chipOrder : Option (List Chip)) (r0 : Nat)
    (hnodup : (keys vr).Nodup) (hcap : NonNegCap m)
    (hnosame : ∀ vs, Constraint.same vs ∉ cs)
    (hunit : ∀ v d, (v, d) ∈ vr → UnitDem r0 d)
    (hprep : prepareLoop vr cs m [] = .ok (m', fixed))
    (hvo : ∀ vo, vertexOrder = some vo → vo.Perm (keys vr))
    (hco : ((chipOrder.getD m'.chips).filter m'.ok).Perm m'.chips)
    (hwork : ∃ c, m'.ok c = true)
    (hsuff : needOf fixed vr r0 (keys vr) ≤ total m' m'.chips r0) :
    ∃ p, seqPlace vr cs m vertexOrder chipOrder = .ok p := by
  have hvp : (vertexOrder.getD (keys vr)).Perm (keys vr) := by
    cases vertexOrder with
    | none => exact List.Perm.refl _
    | some vo => exact hvo vo rfl
  apply Rig.C02.seqPlace_complete_unit vr cs m m' fixed vertexOrder chipOrder r0 hnodup hcap hnosame hunit hprep
  · intro v hv; exact hvp.mem_iff.1 hv
  · exact hco.nodup_iff.2 (chips_nodup m')
  · intro e
    obtain ⟨c, hc⟩ := hwork
    have := hco.mem_iff.2 ((mem_chips_iff m' c).2 hc)
    rw [e] at this; simp at this
  · rw [needOf_perm fixed vr r0 hvp, total_perm m' r0 hco]; exact hsuff

private theorem ok_after_prepare {vr : VR} {cs : List Constraint} {m m' : Machine} {fixed : Placement} {r0 : Nat}
    (hnodup : (keys vr).Nodup) (hcap : NonNegCap m) (hunit : ∀ v d, (v, d) ∈ vr → UnitDem r0 d)
    (hprep : prepareLoop vr cs m [] = .ok (m', fixed)) : m'.w = m.w ∧ m'.h = m.h ∧ m'.dead = m.dead := by
  have hnn : NonNegVR vr := by
    intro v d hvd i
    have hu := hunit v d hvd
    by_cases e : i = r0
    · subst e; rcases hu.2 with h | h <;> omega
    · rw [hu.1 i e]; omega
  have I := Rig.C02.Inv.prepare hnodup hnn cs _ m [] m' fixed (Rig.C02.Inv.init vr m hcap) hprep
  exact ⟨I.w, I.h, I.dead⟩

/-- **The breadth-first placer succeeds under the unit-demand hypotheses** - for every netlist and
every outcome of the set iterations inside `breadth_first_vertex_order`; the optional chip order
must list every working chip exactly once (documented precondition; automatic for the default). -/
theorem bfsPlace_complete_unit (vr : VR) (cs : List Constraint) (m m' : Machine) (fixed : Placement)
    (nets : List (Net Vtx)) (pops : List Vtx) (iters : List (List Vtx)) (vo : List Vtx)
    (chipOrder : Option (List Chip)) (r0 : Nat)
    (hvo : bfsOrder (keys vr) nets pops iters = .ok vo)
    (hnodup : (keys vr).Nodup) (hcap : NonNegCap m)
    (hnosame : ∀ vs, Constraint.same vs ∉ cs)
    (hunit : ∀ v d, (v, d) ∈ vr → UnitDem r0 d)
    (hprep : prepareLoop vr cs m [] = .ok (m', fixed))
    (hco : ∀ co, chipOrder = some co → (co.filter m'.ok).Perm m'.chips)
    (hwork : ∃ c, m'.ok c = true)
    (hsuff : needOf fixed vr r0 (keys vr) ≤ total m' m'.chips r0) :
    ∃ p, seqPlace vr cs m (some vo) chipOrder = .ok p := by
  apply seqPlace_complete_of_perm vr cs m m' fixed (some vo) chipOrder r0 hnodup hcap hnosame hunit hprep
    _ _ hwork hsuff
  · intro vo' e; injection e with e; subst e
    exact (bfsOrder_perm _ _ _ _ _ hvo).2.2 hnodup
  · cases chipOrder with
    | some co => exact hco co rfl
    | none =>
      simp only [Option.getD_none]
      rw [List.filter_eq_self.2 (fun c hc => (mem_chips_iff m' c).1 hc)]

/-- **The Hilbert placer succeeds under the unit-demand hypotheses** - in both modes (vertices in
breadth-first order or in dictionary order), for every machine size. -/
theorem hilbertPlace_complete_unit (vr : VR) (cs : List Constraint) (m m' : Machine) (fixed : Placement)
    (vertexOrder : Option (List Vtx)) (r0 : Nat)
    (hvo : ∀ vo, vertexOrder = some vo → ∃ nets pops iters, bfsOrder (keys vr) nets pops iters = .ok vo)
    (hnodup : (keys vr).Nodup) (hcap : NonNegCap m)
    (hnosame : ∀ vs, Constraint.same vs ∉ cs)
    (hunit : ∀ v d, (v, d) ∈ vr → UnitDem r0 d)
    (hprep : prepareLoop vr cs m [] = .ok (m', fixed))
    (hwork : ∃ c, m'.ok c = true)
    (hsuff : needOf fixed vr r0 (keys vr) ≤ total m' m'.chips r0) :
    ∃ p, seqPlace vr cs m vertexOrder (some (toChips (hilbertChipOrder m.w m.h))) = .ok p := by
  obtain ⟨hw, hh, hd⟩ := ok_after_prepare hnodup hcap hunit hprep
  apply seqPlace_complete_of_perm vr cs m m' fixed vertexOrder _ r0 hnodup hcap hnosame hunit hprep
    _ _ hwork hsuff
  · intro vo e
    obtain ⟨nets, pops, iters, h⟩ := hvo vo e
    exact (bfsOrder_perm _ _ _ _ _ h).2.2 hnodup
  · simp only [Option.getD_some]
    rw [← hw, ← hh]
    exact hilbertChips_perm m'

/-- **The RCM placer succeeds under the unit-demand hypotheses** - for every netlist over the
vertices, every machine (dead chips, dead links) and every outcome of the set iterations, whenever
the two order functions return. -/
theorem rcmPlace_complete_unit (vr : VR) (cs : List Constraint) (m m' : Machine) (fixed : Placement)
    (nets : List (Net Vtx)) (pops : List Vtx) (iters : List (List Vtx)) (vo : List Vtx)
    (deadLinks : List (Nat × Nat × Nat)) (cpops : List Chip) (citers : List (List Chip)) (co : List Chip)
    (r0 : Nat)
    (hnets : ∀ n ∈ nets, n.src ∈ keys vr ∧ ∀ s ∈ n.sinks, s ∈ keys vr)
    (hvo : rcmVertexOrder (keys vr) nets pops iters = .ok vo)
    (hcoo : rcmChipOrder m deadLinks cpops citers = .ok co)
    (hnodup : (keys vr).Nodup) (hcap : NonNegCap m)
    (hnosame : ∀ vs, Constraint.same vs ∉ cs)
    (hunit : ∀ v d, (v, d) ∈ vr → UnitDem r0 d)
    (hprep : prepareLoop vr cs m [] = .ok (m', fixed))
    (hwork : ∃ c, m'.ok c = true)
    (hsuff : needOf fixed vr r0 (keys vr) ≤ total m' m'.chips r0) :
    ∃ p, seqPlace vr cs m (some vo) (some co) = .ok p := by
  obtain ⟨hw, hh, hd⟩ := ok_after_prepare hnodup hcap hunit hprep
  apply seqPlace_complete_of_perm vr cs m m' fixed (some vo) (some co) r0 hnodup hcap hnosame hunit hprep
    _ _ hwork hsuff
  · intro vo' e; injection e with e; subst e
    exact (rcmVertexOrder_perm _ _ _ _ _ hnets hvo).2.2 hnodup
  · simp only [Option.getD_some]
    have hp : co.Perm m'.chips := by
      rw [chips_congr hw hh hd]; exact rcmChipOrder_perm m deadLinks cpops citers co hcoo
    rw [List.filter_eq_self.2 (fun c hc => (mem_chips_iff m' c).1 (hp.mem_iff.1 hc))]
    exact hp

/-! ### non-vacuity -/
section example_
open Rig.C02.Vtx

/-- two components, an isolated vertex, a self loop, a repeated sink, a net over an unknown vertex:
the oracle streams below are accepted, and the order is what the implementation computes -/
example : bfsOrder [o 3, o 1, o 2, o 7] [⟨o 1, [o 2, o 2, o 9], 4⟩, ⟨o 3, [o 3], 0⟩] [o 1, o 7, o 3]
    [[o 9, o 1, o 2], [o 2, o 1, o 9], [], [o 3]] = .ok [o 1, o 2, o 7, o 3] := by decide

example : rcmVertexOrder [o 3, o 1, o 2, o 7] [⟨o 1, [o 2, o 2], 4⟩, ⟨o 2, [o 3], 2⟩, ⟨o 7, [o 7], 0⟩] [o 7, o 2]
    [[o 7], [o 7], [o 1, o 3, o 2], [o 3, o 2, o 1], [o 3], [o 2], [o 2], [o 1]] = .ok [o 7, o 1, o 2, o 3] := by
  decide

example : rcmChipOrder { w := 2, h := 1, res := [], exc := [], dead := [] } [(0, 0, 3)] [(0, 0)]
    [[(0, 0), (1, 0)], [(1, 0), (0, 0)], [(1, 0)], [(0, 0)]] = .ok [(0, 0), (1, 0)] := by decide

example : hilbert 1 = [(0, 0), (0, 1), (1, 1), (1, 0)] := by decide
example : toChips (hilbertChipOrder 3 2) =
    [(0, 0), (1, 0), (1, 1), (0, 1), (0, 2), (0, 3), (1, 3), (1, 2), (2, 2), (2, 3), (3, 3), (3, 2), (3, 1), (2, 1),
     (2, 0), (3, 0)] := by decide

end example_

end Rig.C02Orders
