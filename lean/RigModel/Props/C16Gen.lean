/-
C16 - translator tie: the scalar converters `float_to_fp(signed, n_bits, n_frac)(value)` and
`fp_to_float(n_frac)(value)` (rig/type_casts.py) are regenerated from the source into `Gen/PyFun.lean` - the outer
function and the closure it returns as ONE definition of both parameter lists.  The generated definitions are
parametric in the semantics of Python floats (`F : PyFloatOps φ`: `2.0 ** n`, `float(k)`, `*`, `int(x)`); here `F`
is instantiated with the IEEE-754 double model of Model/C16.lean (`pow2f`, `intToDouble`, `mulScale`, `truncScaled`
- that model's trusted base) and the result is proved equal to the model functions `floatToFp` / `fpToFloat` the C16
theorems are about: the integer bounds `max_v` / `min_v`, the order of the operations and of the possible
OverflowErrors, and the final clamp are those of the source as it is written now.
-/
import RigModel.Model.C16
import RigModel.Gen.PyFun
set_option linter.unusedSimpArgs false
set_option linter.unusedVariables false
set_option linter.unusedTactic false
set_option linter.unreachableTactic false

namespace Rig.C16
open Rig.Gen

/-- a Python float value of the translated code: the scale `2.0 ** n` (`none` = 0.0 after silent underflow) or a
double -/
inductive FV where
  | scale (s : Option Int)
  | val (x : FloatR)
  deriving Repr, DecidableEq

/-- the float semantics of Model/C16 as the operations the generated definitions call.  The only multiplication the
translated code performs is "double times power of two" (`mulScale`); other operand shapes do not occur. -/
def dyOps : PyFun.PyFloatOps FV where
  pow2 n := match pow2f n with
    | .ok s => .ok (.scale s)
    | .error _ => .error "OverflowError"
  ofInt k := match intToDouble k with
    | .ok d => .ok (.val (.fin d))
    | .error _ => .error "OverflowError"
  mul a b := match a, b with
    | .scale s, .val (.fin x) => .val (mulScale x s)
    | .val (.fin x), .scale s => .val (mulScale x s)
    | _, _ => .val (.fin ⟨0, 0⟩)
  toInt v := match v with
    | .val (.fin d) => .ok (truncScaled d.m d.e)
    | .val (.inf _) => .error "OverflowError"
    | .scale none => .ok 0
    | .scale (some j) => .ok (truncScaled 1 j)
  ilog2 _ := .error "unmodelled"        -- `int(log(k, 2))` is not used by type_casts.py

/-- the model's outcome as the Python outcome -/
def errPy {α β : Type} (f : α → β) : Except Err α → Except String β
  | .ok v => .ok (f v)
  | .error .valueError => .error "ValueError"
  | .error .assertion => .error "AssertionError"
  | .error .domain => .error "domain"
  | .error _ => .error "OverflowError"

/-- `fp_to_float(n_frac)(value)` as written in the source = the model's `fpToFloat`, for every `n_frac` and every
integer value (including both OverflowErrors and their order) -/
theorem gen_fp_to_float (frac k : Int) :
    PyFun.fp_to_float dyOps frac k = errPy (fun r => FV.val r) (fpToFloat frac k) := by
  unfold PyFun.fp_to_float fpToFloat
  simp only [dyOps, bind, Except.bind, pure, Except.pure]
  cases h1 : pow2f (-frac) with
  | error e =>
    have : e = .overflowPow := by
      unfold pow2f at h1; split at h1 <;> (try split at h1) <;> simp at h1; exact h1.symm
    subst this; rfl
  | ok s =>
    cases h2 : intToDouble k with
    | error e =>
      have : e = .overflowFloat := by
        unfold intToDouble at h2; dsimp only at h2; split at h2 <;> simp at h2; exact h2.symm
      subst this; rfl
    | ok d => rfl

theorem magLt_zero (k : Int) (b : Nat) : magLt 0 k b = true := by
  unfold magLt
  split <;> simp [Nat.two_pow_pos]

theorem trunc_zero (k : Int) : truncScaled 0 k = 0 := by
  unfold truncScaled num
  split <;> simp

theorem shl_one (n : Nat) : (1 : Int) <<< n = 2 ^ n := by
  rw [Int.shiftLeft_eq]; simp

/-- the integer bounds computed by the outer function: `max_v`, `min_v` of the format -/
theorem bounds_eq (fmt : Fmt) :
    (if fmt.signed = true then
        ((1 : Int) <<< ((fmt.bits : Int) - 1).toNat - 1, -((1 : Int) <<< ((fmt.bits : Int) - 1).toNat - 1) - 1)
      else ((1 : Int) <<< ((fmt.bits : Int)).toNat - 1, (0 : Int))) = (fmt.maxV, fmt.minV) := by
  have e1 : ((fmt.bits : Int) - 1).toNat = fmt.bits - 1 := by omega
  have e2 : ((fmt.bits : Int)).toNat = fmt.bits := by omega
  rw [e1, e2, shl_one, shl_one]
  cases h : fmt.signed <;> simp [Fmt.maxV, Fmt.minV, h]

/-- the final clamp, however `min` / `max` order their arguments -/
macro "clamp_eq" : tactic => `(tactic|
  first | rfl | (simp only [errPy, id, Except.ok.injEq]; omega) | (simp [errPy]; omega))

/-- `float_to_fp(signed, n_bits, n_frac)(value)` as written in the source = the model's `floatToFp` on a double
`v = m * 2^e`, when `1 << (n_bits - 1)` is defined (a signed format has at least one bit - Python raises ValueError
for the negative shift otherwise, which the translator does not model) and neither the scale `2.0 ** n_frac` nor the
product falls below the normal exponent range (`-1074 <= n_frac`, `-1074 <= e + n_frac`: no subnormal rounding) -/
theorem gen_float_to_fp (fmt : Fmt) (v : Dy) (hb : fmt.signed = true → 1 ≤ fmt.bits) (hf : -1074 ≤ fmt.frac)
    (he : -1074 ≤ v.e + fmt.frac) :
    PyFun.float_to_fp dyOps fmt.signed (fmt.bits : Int) fmt.frac (FV.val (.fin v)) = errPy id (floatToFp fmt v) := by
  unfold PyFun.float_to_fp floatToFp
  have hsb : (fmt.signed && fmt.bits == 0) = false := by
    cases hs : fmt.signed
    · rfl
    · have := hb hs
      simp; omega
  simp only [hsb, Bool.false_eq_true, if_false, dyOps, pow2f]
  by_cases h1 : 1024 ≤ fmt.frac
  · simp only [h1, if_true]; rfl
  have h2 : ¬ (fmt.frac < -1074) := by omega
  simp only [h1, h2, if_false, mulScale, toDouble]
  by_cases hm : v.m = 0
  · simp only [hm, if_true, magLt_zero, Bool.not_true, Bool.false_eq_true, if_false, trunc_zero, bounds_eq]
    clamp_eq
  · simp only [hm, if_false]
    by_cases hmag : magLt v.m (v.e + fmt.frac) 1024 = true
    · simp only [hmag, Bool.not_true, Bool.false_eq_true, if_false, he, if_true]
      simp only [bounds_eq]
      clamp_eq
    · have hmag' : magLt v.m (v.e + fmt.frac) 1024 = false := by simpa using hmag
      simp only [hmag', Bool.not_false, if_true]
      rfl

/-! ### `NumpyFloatToFixConverter.__init__`: the integer attributes -/

/-- `NumpyFloatToFixConverter.__init__` as written in the source: ValueError exactly for the widths the model
refuses (`npBits`, regenerated from the source as well), otherwise `max_value` / `min_value` are the format's
`maxV` / `minV` and `n_frac` is stored (the attributes `bytes_per_element` and `dtype` are not integers and not
translated) -/
theorem gen_np_init (a b c : Int) (fmt : Fmt) :
    PyFun.NumpyFloatToFixConverter_init a b c fmt.signed (fmt.bits : Int) fmt.frac
      = if Rig.Gen.TypeCasts.npBits.contains fmt.bits then .ok (fmt.maxV, fmt.minV, fmt.frac)
        else .error "ValueError" := by
  unfold PyFun.NumpyFloatToFixConverter_init
  have hmem : (([8, 16, 32, 64] : List Int).contains (fmt.bits : Int)) = Rig.Gen.TypeCasts.npBits.contains fmt.bits := by
    rw [Bool.eq_iff_iff]
    simp only [Rig.Gen.TypeCasts.npBits, List.contains_eq_mem, List.mem_cons, List.mem_nil_iff, or_false,
      decide_eq_true_eq]
    omega
  rw [hmem]
  by_cases h : Rig.Gen.TypeCasts.npBits.contains fmt.bits = true
  · simp only [h, not_true_eq_false, if_false, if_true]
    have e1 : ((fmt.bits : Int) - 1).toNat = fmt.bits - 1 := by omega
    have e2 : ((fmt.bits : Int)).toNat = fmt.bits := by omega
    rw [e1, e2]
    cases hs : fmt.signed <;> simp [Fmt.maxV, Fmt.minV, hs]
  · simp only [h, not_false_eq_true, if_true, Bool.false_eq_true, if_false]

/-! ### the whole domain: underflowing scales and subnormal products -/

theorem tdiv_small (m : Int) (d : Nat) (h : m.natAbs < d) : Int.tdiv m (d : Int) = 0 := by
  apply Int.natAbs_eq_zero.mp
  rw [Int.natAbs_tdiv]
  simp
  exact Nat.div_eq_of_lt h

/-- a value of magnitude below 1 truncates to 0 -/
theorem trunc_small (m k : Int) (hk : k < 0) (h : m.natAbs < 2 ^ (-k).toNat) : truncScaled m k = 0 := by
  unfold truncScaled num den
  have : ¬ (0 ≤ k) := by omega
  simp only [this, if_false]
  have := tdiv_small m (2 ^ (-k).toNat) h
  simpa using this

/-- a 53-bit significand with an exponent below -53 is below 1 in magnitude -/
theorem sig_small (m k : Int) (hm : m.natAbs ≤ 2 ^ 53) (hk : k < -53) : m.natAbs < 2 ^ (-k).toNat := by
  have h1 : (2 : Nat) ^ 53 < 2 ^ (-k).toNat := Nat.pow_lt_pow_right (by decide) (by omega)
  omega

theorem magLt_small (m k : Int) (b : Nat) (hk : k < 0) (h : m.natAbs < 2 ^ (-k).toNat) : magLt m k b = true := by
  unfold magLt
  have : ¬ (0 ≤ k) := by omega
  simp only [this, if_false, decide_eq_true_eq]
  have h1 : (2 : Nat) ^ (-k).toNat ≤ 2 ^ (b + (-k).toNat) := Nat.pow_le_pow_right (by decide) (by omega)
  omega

theorem rne_bound (n : Int) (s : Nat) : (rne n s).natAbs ≤ n.natAbs + 1 := by
  unfold rne
  have hq : (n / (2 : Int) ^ s).natAbs ≤ n.natAbs := Int.natAbs_ediv_le_natAbs n _
  dsimp only
  split
  · omega
  · split
    · omega
    · split <;> omega

/-- `float_to_fp(signed, n_bits, n_frac)(value)` as written in the source = the model's `floatToFp` for EVERY finite
double `v = m * 2^e` (`|m| <= 2^53`, `-1074 <= e <= 971`: every finite double has such a representation) and every `n_frac`,
including scales that underflow to 0.0 and products in the subnormal range (both sides then give 0) - only
`1 << (n_bits - 1)` must be defined (a signed format has at least one bit) -/
theorem gen_float_to_fp_all (fmt : Fmt) (v : Dy) (hb : fmt.signed = true → 1 ≤ fmt.bits)
    (hm : v.m.natAbs ≤ 2 ^ 53) (hev : v.e ≤ 971) (hel : -1074 ≤ v.e) :
    PyFun.float_to_fp dyOps fmt.signed (fmt.bits : Int) fmt.frac (FV.val (.fin v)) = errPy id (floatToFp fmt v) := by
  by_cases hn : -1074 ≤ fmt.frac ∧ -1074 ≤ v.e + fmt.frac
  · exact gen_float_to_fp fmt v hb hn.1 hn.2
  -- the product is below 2^-1074 * 2^53 in magnitude: 0 on both sides
  have hk : v.e + fmt.frac < -53 := by omega
  have hs := sig_small v.m (v.e + fmt.frac) hm hk
  have hmag : magLt v.m (v.e + fmt.frac) 1024 = true := magLt_small _ _ _ (by omega) hs
  have ht : truncScaled v.m (v.e + fmt.frac) = 0 := trunc_small _ _ (by omega) hs
  unfold PyFun.float_to_fp floatToFp
  have hsb : (fmt.signed && fmt.bits == 0) = false := by
    cases hsg : fmt.signed
    · rfl
    · have := hb hsg
      simp; omega
  have h1 : ¬ (1024 ≤ fmt.frac) := by omega
  simp only [hsb, Bool.false_eq_true, if_false, dyOps, pow2f, h1, hmag, Bool.not_true, ht, bounds_eq]
  by_cases hf : fmt.frac < -1074
  · simp only [hf, if_true, mulScale, truncScaled, num, den]
    clamp_eq
  · simp only [hf, if_false, mulScale, toDouble, hmag, Bool.not_true, Bool.false_eq_true]
    by_cases hm0 : v.m = 0
    · simp only [hm0, if_true, trunc_zero]; clamp_eq
    · have he : ¬ (-1074 ≤ v.e + fmt.frac) := by omega
      simp only [hm0, he, if_false]
      have hr := rne_bound v.m (-1074 - (v.e + fmt.frac)).toNat
      have hb2 : (rne v.m (-1074 - (v.e + fmt.frac)).toNat).natAbs < 2 ^ (-(-1074 : Int)).toNat := by
        have e1 : (-(-1074 : Int)).toNat = 1074 := rfl
        rw [e1]
        have h54 : (2 : Nat) ^ 53 + 1 ≤ 2 ^ 54 := by decide
        have hlt : (2 : Nat) ^ 54 < 2 ^ 1074 := Nat.pow_lt_pow_right (by decide) (by decide)
        omega
      rw [trunc_small _ (-1074) (by decide) hb2]
      clamp_eq

end Rig.C16
