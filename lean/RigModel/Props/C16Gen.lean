/-
C16 - translator tie: the scalar converters `float_to_fp(signed, n_bits, n_frac)(value)` and
`fp_to_float(n_frac)(value)` (rig/type_casts.py) are regenerated from the source into `Gen/PyFun.lean` - the outer
function and the closure it returns as ONE definition of both parameter lists.  The generated definitions are
parametric in the semantics of Python floats (`F : PyFloatOps φ`: `2.0 ** n`, `float(k)`, `*`, `int(x)`); here `F`
is instantiated with the IEEE-754 double model of Model/C16.lean (`pow2f`, `intToDouble`, `mulScale`, `truncScaled`
- that model's trusted base) and the result is proved equal to the model functions `floatToFp` / `fpToFloat` the C16
theorems are about: the integer bounds `max_v` / `min_v`, the order of the operations and of the possible
OverflowErrors, and the final clamp are those of the source as it is written now.
-/
import RigModel.Model.C16
import RigModel.Gen.PyFun
set_option linter.unusedSimpArgs false
set_option linter.unusedVariables false
set_option linter.unusedTactic false
set_option linter.unreachableTactic false

namespace Rig.C16
open Rig.Gen

/-- a Python float value of the translated code: the scale `2.0 ** n` (`none` = 0.0 after silent underflow) or a
double -/
inductive FV where
  | scale (s : Option Int)
  | val (x : FloatR)
  deriving Repr, DecidableEq

/-- the float semantics of Model/C16 as the operations the generated definitions call.  The only multiplication the
translated code performs is "double times power of two" (`mulScale`); other operand shapes do not occur. -/
def dyOps : PyFun.PyFloatOps FV where
  pow2 n := match pow2f n with
    | .ok s => .ok (.scale s)
    | .error _ => .error "OverflowError"
  ofInt k := match intToDouble k with
    | .ok d => .ok (.val (.fin d))
    | .error _ => .error "OverflowError"
  mul a b := match a, b with
    | .scale s, .val (.fin x) => .val (mulScale x s)
    | .val (.fin x), .scale s => .val (mulScale x s)
    | _, _ => .val (.fin ⟨0, 0⟩)
  toInt v := match v with
    | .val (.fin d) => .ok (truncScaled d.m d.e)
    | .val (.inf _) => .error "OverflowError"
    | .scale none => .ok 0
    | .scale (some j) => .ok (truncScaled 1 j)

/-- the model's outcome as the Python outcome -/
def errPy {α β : Type} (f : α → β) : Except Err α → Except String β
  | .ok v => .ok (f v)
  | .error .valueError => .error "ValueError"
  | .error .assertion => .error "AssertionError"
  | .error .domain => .error "domain"
  | .error _ => .error "OverflowError"

/-- `fp_to_float(n_frac)(value)` as written in the source = the model's `fpToFloat`, for every `n_frac` and every
integer value (including both OverflowErrors and their order) -/
theorem gen_fp_to_float (frac k : Int) :
    PyFun.fp_to_float dyOps frac k = errPy (fun r => FV.val r) (fpToFloat frac k) := by
  unfold PyFun.fp_to_float fpToFloat
  simp only [dyOps, bind, Except.bind, pure, Except.pure]
  cases h1 : pow2f (-frac) with
  | error e =>
    have : e = .overflowPow := by
      unfold pow2f at h1; split at h1 <;> (try split at h1) <;> simp at h1; exact h1.symm
    subst this; rfl
  | ok s =>
    cases h2 : intToDouble k with
    | error e =>
      have : e = .overflowFloat := by
        unfold intToDouble at h2; dsimp only at h2; split at h2 <;> simp at h2; exact h2.symm
      subst this; rfl
    | ok d => rfl

theorem magLt_zero (k : Int) (b : Nat) : magLt 0 k b = true := by
  unfold magLt
  split <;> simp [Nat.two_pow_pos]

theorem trunc_zero (k : Int) : truncScaled 0 k = 0 := by
  unfold truncScaled num
  split <;> simp

theorem shl_one (n : Nat) : (1 : Int) <<< n = 2 ^ n := by
  rw [Int.shiftLeft_eq]; simp

/-- the integer bounds computed by the outer function: `max_v`, `min_v` of the format -/
theorem bounds_eq (fmt : Fmt) :
    (if fmt.signed = true then
        ((1 : Int) <<< ((fmt.bits : Int) - 1).toNat - 1, -((1 : Int) <<< ((fmt.bits : Int) - 1).toNat - 1) - 1)
      else ((1 : Int) <<< ((fmt.bits : Int)).toNat - 1, (0 : Int))) = (fmt.maxV, fmt.minV) := by
  have e1 : ((fmt.bits : Int) - 1).toNat = fmt.bits - 1 := by omega
  have e2 : ((fmt.bits : Int)).toNat = fmt.bits := by omega
  rw [e1, e2, shl_one, shl_one]
  cases h : fmt.signed <;> simp [Fmt.maxV, Fmt.minV, h]

/-- `float_to_fp(signed, n_bits, n_frac)(value)` as written in the source = the model's `floatToFp` on a double
`v = m * 2^e`, when `1 << (n_bits - 1)` is defined (a signed format has at least one bit - Python raises ValueError
for the negative shift otherwise, which the translator does not model) and neither the scale `2.0 ** n_frac` nor the
product falls below the normal exponent range (`-1074 <= n_frac`, `-1074 <= e + n_frac`: no subnormal rounding) -/
theorem gen_float_to_fp (fmt : Fmt) (v : Dy) (hb : fmt.signed = true → 1 ≤ fmt.bits) (hf : -1074 ≤ fmt.frac)
    (he : -1074 ≤ v.e + fmt.frac) :
    PyFun.float_to_fp dyOps fmt.signed (fmt.bits : Int) fmt.frac (FV.val (.fin v)) = errPy id (floatToFp fmt v) := by
  unfold PyFun.float_to_fp floatToFp
  have hsb : (fmt.signed && fmt.bits == 0) = false := by
    cases hs : fmt.signed
    · rfl
    · have := hb hs
      simp; omega
  simp only [hsb, Bool.false_eq_true, if_false, dyOps, pow2f]
  by_cases h1 : 1024 ≤ fmt.frac
  · simp only [h1, if_true]; rfl
  have h2 : ¬ (fmt.frac < -1074) := by omega
  simp only [h1, h2, if_false, mulScale, toDouble]
  by_cases hm : v.m = 0
  · simp only [hm, if_true, magLt_zero, Bool.not_true, Bool.false_eq_true, if_false, trunc_zero, bounds_eq]
    rfl
  · simp only [hm, if_false]
    by_cases hmag : magLt v.m (v.e + fmt.frac) 1024 = true
    · simp only [hmag, Bool.not_true, Bool.false_eq_true, if_false, he, if_true]
      simp only [bounds_eq]
      rfl
    · have hmag' : magLt v.m (v.e + fmt.frac) 1024 = false := by simpa using hmag
      simp only [hmag', Bool.not_false, if_true]
      rfl

end Rig.C16
