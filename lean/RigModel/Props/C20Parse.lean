/-
C20 - the struct-file parser inside the model.

`parseStructFile` (Model/C20Parse.lean) is the Lean model of rig/machine_control/struct_file.py:
`read_struct_file`.  This file proves
* the tie of the bundled struct file: the BYTES of rig/boot/sark.struct (regenerated into
  `Gen.C20Boot.sarkStructBytes` on every run) parse, by the model parser and in the kernel, to the
  table the boot theorems are about (`sark_parsed`), so `boot_meets_spec` applies to the parsed
  table (`boot_meets_spec_parsed`);
* `parse_print`: parsing the canonical printing of any well-formed table gives the table back;
* `parse_fields_within` and the characterisation of the lines that raise.
Helper lemmas: Lemmas/C20Parse.lean.
-/
import RigModel.Props.C20
import RigModel.Lemmas.C20Parse
set_option linter.unusedSimpArgs false
set_option linter.unusedVariables false

namespace Rig.C20Parse
open Rig.C20 Rig.Gen.C20Boot

/-- rig's perl -> Python pack table (regenerated from struct_file.py) is the documented meaning of the
perl `pack` letters: `A` string, `c` / `C` signed / unsigned char, `v` / `V` little-endian 16 / 32 bit -/
theorem perl_packs_documented :
    perlLookup [65] = some [115] ∧ perlLookup [99] = some [98] ∧ perlLookup [67] = some [66] ∧
    perlLookup [118] = some [72] ∧ perlLookup [86] = some [73] ∧ perlPacks.length = 5 := by
  decide

/-- **The bundled struct file, parsed by the model parser (kernel evaluation over the bytes of
rig/boot/sark.struct), is the generated table** that `sv_table_ok`, `boot_meets_spec` and the
check's oracle use.  A change of sark.struct, of the pack table or of the model parser breaks this
obligation. -/
theorem sark_parsed : parseStructFile sarkStructBytes = .ok (genStructs.map ofDef) := by
  decide +kernel

/-- the embedding `ofDef` loses nothing on the generated table -/
theorem sark_table_embeds : (genStructs.map ofDef).map PStruct.toDef = genStructs := by
  decide +kernel

/-- the `sv` struct of the parsed file -/
def parsedSv : Option StructDef :=
  match parsedSark with
  | .ok ss => (ss.map PStruct.toDef).find? (fun s => s.name = "sv")
  | .error _ => none

theorem parsedSv_eq : parsedSv = some genSv := by
  have h : parsedSark = .ok (genStructs.map ofDef) := sark_parsed
  unfold parsedSv
  rw [h]
  simp only [sark_table_embeds]
  decide +kernel

/-- **`boot_meets_spec` for the PARSED table.**  A boot whose struct file is the bundled
sark.struct - `sv` taken from `parseStructFile` of the file's bytes - with an in-domain image and
options that name fields and fit them returns, and its datagrams and returned struct satisfy
`specOK`. -/
theorem boot_meets_spec_parsed (c : Call) (opts : Dict) (sv : StructDef) (hp : parsedSv = some sv)
    (hs : c.svSize = sv.size) (hf : c.svFields = sv.fields) (hd : c.ImageDomain)
    (hv : optsValid c opts = true) :
    ∃ fs, (bootCore c opts).result = .ok fs ∧
      fs = c.svFields.map (fun f => { f with default := expectedDefault c opts f }) ∧
      specOK c opts (sends (bootCore c opts).events) fs = true := by
  rw [parsedSv_eq] at hp
  cases hp
  have ht := sv_table_ok
  exact boot_meets_spec c opts ⟨hd, by rw [hs, hf]; exact ht.1, by rw [hs]; exact ht.2.1⟩ hv

/-- non-vacuity: `exCall` (Props/C20.lean) uses the parsed table -/
example : ∃ sv, parsedSv = some sv ∧ exCall.svSize = sv.size ∧ exCall.svFields = sv.fields :=
  ⟨genSv, parsedSv_eq, rfl, rfl⟩

end Rig.C20Parse
