/-
C20 - the struct-file parser inside the model.

`parseStructFile` (Model/C20Parse.lean) is the Lean model of rig/machine_control/struct_file.py:
`read_struct_file`.  This file proves
* the tie of the bundled struct file: the BYTES of rig/boot/sark.struct (regenerated into
  `Gen.C20Boot.sarkStructBytes` on every run) parse, by the model parser and in the kernel, to the
  table the boot theorems are about (`sark_parsed`), so `boot_meets_spec` applies to the parsed
  table (`boot_meets_spec_parsed`);
* `parse_print`: parsing the canonical printing of any well-formed table gives the table back;
* `parse_fields_within` and the characterisation of the lines that raise.
Helper lemmas: Lemmas/C20Parse.lean.
-/
import RigModel.Props.C20
import RigModel.Lemmas.C20Parse
set_option linter.unusedSimpArgs false
set_option linter.unusedVariables false

namespace Rig.C20Parse
open Rig.C20 Rig.Gen.C20Boot

/-- rig's perl -> Python pack table (regenerated from struct_file.py) is the documented meaning of the
perl `pack` letters: `A` string, `c` / `C` signed / unsigned char, `v` / `V` little-endian 16 / 32 bit -/
theorem perl_packs_documented :
    perlLookup [65] = some [115] ∧ perlLookup [99] = some [98] ∧ perlLookup [67] = some [66] ∧
    perlLookup [118] = some [72] ∧ perlLookup [86] = some [73] ∧ perlPacks.length = 5 := by
  decide

/-- **The bundled struct file, parsed by the model parser (kernel evaluation over the bytes of
rig/boot/sark.struct), is the generated table** that `sv_table_ok`, `boot_meets_spec` and the
check's oracle use.  A change of sark.struct, of the pack table or of the model parser breaks this
obligation. -/
theorem sark_parsed : parseStructFile sarkStructBytes = .ok (genStructs.map ofDef) := by
  decide +kernel

/-- the embedding `ofDef` loses nothing on the generated table -/
theorem sark_table_embeds : (genStructs.map ofDef).map PStruct.toDef = genStructs := by
  decide +kernel

/-- the `sv` struct of the parsed file -/
def parsedSv : Option StructDef :=
  match parsedSark with
  | .ok ss => (ss.map PStruct.toDef).find? (fun s => s.name = "sv")
  | .error _ => none

theorem parsedSv_eq : parsedSv = some genSv := by
  have h : parsedSark = .ok (genStructs.map ofDef) := sark_parsed
  unfold parsedSv
  rw [h]
  simp only [sark_table_embeds]
  decide +kernel

/-- **`boot_meets_spec` for the PARSED table.**  A boot whose struct file is the bundled
sark.struct - `sv` taken from `parseStructFile` of the file's bytes - with an in-domain image and
options that name fields and fit them returns, and its datagrams and returned struct satisfy
`specOK`. -/
theorem boot_meets_spec_parsed (c : Call) (opts : Dict) (sv : StructDef) (hp : parsedSv = some sv)
    (hs : c.svSize = sv.size) (hf : c.svFields = sv.fields) (hd : c.ImageDomain)
    (hv : optsValid c opts = true) :
    ∃ fs, (bootCore c opts).result = .ok fs ∧
      fs = c.svFields.map (fun f => { f with default := expectedDefault c opts f }) ∧
      specOK c opts (sends (bootCore c opts).events) fs = true := by
  rw [parsedSv_eq] at hp
  cases hp
  have ht := sv_table_ok
  exact boot_meets_spec c opts ⟨hd, by rw [hs, hf]; exact ht.1, by rw [hs]; exact ht.2.1⟩ hv

/-- non-vacuity: `exCall` (Props/C20.lean) uses the parsed table -/
example : ∃ sv, parsedSv = some sv ∧ exCall.svSize = sv.size ∧ exCall.svFields = sv.fields :=
  ⟨genSv, parsedSv_eq, rfl, rfl⟩

/-! ### round trip -/

/-- **`parse_print`.**  For every well-formed table - at least one struct, struct names distinct tokens,
`size` and `base` present, field names distinct tokens (an array field, length ≠ 1, has a name of word
characters; a scalar field has a name the array expression does not match), pack characters = optional
count + one of `s b B H I`, printf a token; sizes, bases, offsets and defaults ANY integers - parsing the
canonical printing gives exactly the table, in order.  Unbounded: all tables, all lengths. -/
theorem parse_print (ss : List PStruct) (h : TableWF ss) : parseStructFile (printStructs ss) = .ok ss := by
  obtain ⟨hne, hs, hd⟩ := h
  have htok : ∀ tl ∈ ss.flatMap structLines, ∀ t ∈ tl, Tok t := by
    intro tl htl
    obtain ⟨s, hs', htl'⟩ := List.mem_flatMap.mp htl
    exact structLines_tok s (hs s hs') tl htl'
  have hlines : splitLines (printStructs ss) = (ss.flatMap structLines).map joinSp := by
    have : printStructs ss = (((ss.flatMap structLines).map joinSp).map (fun l => l ++ [10])).flatten := by
      unfold printStructs
      rw [List.map_map]
      rfl
    rw [this]
    apply splitLines_flatten
    intro l hl
    obtain ⟨tl, htl, rfl⟩ := List.mem_map.mp hl
    exact joinSp_noeol tl (htok tl htl)
  obtain ⟨nm', h1, h2, h3⟩ := runToks_table ss hs hd [] none 0 trivial (by intro t ht; cases ht)
  simp only [List.nil_append] at h1 h2
  unfold parseStructFile
  rw [hlines, parseLines_joinSp _ htok, h1]
  cases nm' with
  | none => exact absurd rfl (h3 hne)
  | some n =>
    have : checkComplete ss n = .ok () := h2
    simp [this]

/-- `parse_print` with the decided hypothesis (the check evaluates `tableWFB` in the driver and demands the
same round trip of rig's `read_struct_file` on the printed text) -/
theorem parse_print_decided (ss : List PStruct) (h : tableWFB ss = true) :
    parseStructFile (printStructs ss) = .ok ss :=
  parse_print ss (tableWFB_sound ss h)

/-- non-vacuity: the table of the bundled sark.struct (arrays, `A16`, dotted names, both structs) is well
formed, so printing it canonically and parsing the result gives it back -/
theorem sark_table_wf : tableWFB (genStructs.map ofDef) = true := by decide +kernel

theorem sark_print_roundtrip :
    parseStructFile (printStructs (genStructs.map ofDef)) = parseStructFile sarkStructBytes := by
  rw [parse_print_decided _ sark_table_wf, sark_parsed]

/-- counted pack characters: `packValueFull` on the four plain integer codes is `packValue` of Model/C20.lean
(the function `struct_pack_spec` and the boot theorems are about) -/
theorem packValueFull_plain (v : Int) :
    packValueFull [66] v = packValue "B" v ∧ packValueFull [98] v = packValue "b" v ∧
    packValueFull [72] v = packValue "H" v ∧ packValueFull [73] v = packValue "I" v := by
  refine ⟨?_, ?_, ?_, ?_⟩ <;> simp [packValueFull, packCount] <;> rfl

/-! ### what an accepted field line means, and which lines raise -/

/-- `struct.fields[f.name] = f` -/
def addField (f : PField) (s : PStruct) : PStruct := { s with fields := setField s.fields f }

/-- **A field line is accepted exactly when** its pack token converts, offset and default are numbers
`num` accepts and a `name` line came before; the field stored is the one the line states: name and
array length from the field token, converted pack characters, offset, printf, default. -/
theorem field_line_accepted (st st' : PState) (i : Nat) (field pack offset printf default : Bytes) :
    stepLine st i [field, pack, offset, printf, default] = .ok st' ↔
      ∃ pk off d n, convPack pack = .ok pk ∧ parseNum offset = some off ∧ parseNum default = some d ∧
        st.name = some n ∧
        st' = ⟨modStruct n (addField ⟨(fieldName field).1, pk, off, printf, d, (fieldName field).2⟩) st.structs,
          st.name⟩ := by
  simp only [stepLine]
  cases convPack pack with
  | error e => simp
  | ok pk =>
    cases parseNum offset with
    | none => simp
    | some off =>
      cases parseNum default with
      | none => simp
      | some d =>
        cases st.name with
        | none => simp
        | some n =>
          have : addField ⟨(fieldName field).1, pk, off, printf, d, (fieldName field).2⟩ =
              fun s => { s with fields := setField s.fields ⟨(fieldName field).1, pk, off, printf, d, (fieldName field).2⟩ } := rfl
          simp [eq_comm, this]

/-- **Which error a field line raises**: unknown pack letter first (`KeyError`), then a malformed
offset, then a malformed default (`ValueError` from `int`), then the missing `name` line
(`KeyError(None)`) - never a syntax error. -/
theorem field_line_raises (st : PState) (i : Nat) (field pack offset printf default : Bytes) (e : PErr) :
    stepLine st i [field, pack, offset, printf, default] = .error e ↔
      (convPack pack = .error e) ∨
      (∃ pk, convPack pack = .ok pk ∧ parseNum offset = none ∧ e = .badInt offset) ∨
      (∃ pk off, convPack pack = .ok pk ∧ parseNum offset = some off ∧ parseNum default = none ∧ e = .badInt default) ∨
      (∃ pk off d, convPack pack = .ok pk ∧ parseNum offset = some off ∧ parseNum default = some d ∧
        st.name = none ∧ e = .noStruct) := by
  simp only [stepLine]
  cases convPack pack with
  | error e' => simp
  | ok pk =>
    cases parseNum offset with
    | none => simp [eq_comm]
    | some off =>
      cases parseNum default with
      | none => simp [eq_comm]
      | some d =>
        cases st.name with
        | none => simp [eq_comm]
        | some n => simp

theorem checkComplete_err (ss : List PStruct) (n : Bytes) (e : PErr) (h : checkComplete ss n = .error e) :
    e = .noStruct ∨ e = .sizeMissing n ∨ e = .baseMissing n := by
  unfold checkComplete at h
  split at h
  · simp at h; exact .inl h.symm
  · split at h
    · simp at h; exact .inr (.inl h.symm)
    · split at h
      · simp at h; exact .inr (.inr h.symm)
      · simp at h

/-- **Syntax errors**: a line raises "line i: Invalid syntax" exactly when, after comment stripping, it
has a number of tokens other than 0, 3 or 5 - and then with its own 0-based line number. -/
theorem line_syntax_error (st : PState) (i j : Nat) (toks : List Bytes) :
    stepLine st i toks = .error (.syntax j) ↔
      (j = i ∧ toks.length ≠ 0 ∧ toks.length ≠ 3 ∧ toks.length ≠ 5) := by
  match toks with
  | [] => simp [stepLine]
  | [a] => simp [stepLine, eq_comm]
  | [a, b] => simp [stepLine, eq_comm]
  | [key, m, value] =>
    simp only [stepLine]
    constructor
    · intro h
      exfalso
      split at h
      · split at h
        · rename_i e' heq
          simp only [Except.error.injEq] at h
          subst h
          cases hn : st.name with
          | none => simp [hn] at heq
          | some n =>
            simp only [hn] at heq
            rcases checkComplete_err _ _ _ heq with h | h | h <;> cases h
        · simp at h
      · repeat' split at h
        all_goals simp at h
    · simp
  | [a, b, c, d] => simp [stepLine, eq_comm]
  | [f, p, o, pf, d] =>
    constructor
    · intro h
      rcases (field_line_raises st i f p o pf d _).mp h with
        h | ⟨_, _, _, h⟩ | ⟨_, _, _, _, _, h⟩ | ⟨_, _, _, _, _, _, _, h⟩
      · unfold convPack at h
        repeat' split at h
        all_goals simp at h
      · cases h
      · cases h
      · cases h
    · simp
  | a :: b :: c :: d :: e :: f :: r => simp [stepLine, eq_comm]

end Rig.C20Parse
