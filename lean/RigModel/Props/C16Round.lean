/-
C16 (companion) - the IEEE facts of the dyadic model proved inside the model: `round53`
(the model of int -> double conversion) is round-to-nearest, ties-to-even, to 53 significant
bits; it is monotone, idempotent, odd, the identity on |k| <= 2^53; `Exact53` is characterised
exactly (at most 53 significant bits, any magnitude).  Helper lemmas: Lemmas/C16Round.lean.
-/
import Mathlib.Tactic.NormNum
import RigModel.Lemmas.C16Round
set_option linter.unusedSimpArgs false
set_option linter.unusedVariables false

namespace Rig.C16

/-- **Exactness beyond 2^53:** an integer with at most 53 significant bits (`m * 2^j`,
`|m| <= 2^53`) converts to a double without rounding, whatever its magnitude. -/
theorem exact53_of_trailing_zeros (m : Int) (j : Nat) (hm : m.natAbs ≤ 2 ^ 53) :
    Exact53 (m * 2 ^ j) := by
  unfold Exact53
  apply round53Val_of_dvd
  have hm' : |m| ≤ 2 ^ 53 := by rw [Int.abs_eq_natAbs]; exact_mod_cast hm
  generalize hk : m * 2 ^ j = k
  have habs : |k| = |m| * 2 ^ j := by
    rw [← hk, abs_mul, abs_of_pos (by positivity : (0 : Int) < 2 ^ j)]
  have hj : (0 : Int) < 2 ^ j := by positivity
  rcases Nat.eq_zero_or_pos (ulpExp k) with hs | hs
  · rw [hs]; simp
  · obtain ⟨h1, h2⟩ := binade k hs
    generalize ulpExp k = s at *
    rcases le_or_gt s j with hle | hlt
    · rw [← hk]; exact Dvd.dvd.mul_left (pow_dvd_pow 2 hle) m
    · have hp : (2 : Int) ^ (52 + s) ≤ 2 ^ (53 + j) := by
        rw [pow_add, pow_add]
        calc (2 : Int) ^ 52 * 2 ^ s ≤ |k| := h1
          _ = |m| * 2 ^ j := habs
          _ ≤ 2 ^ 53 * 2 ^ j := Int.mul_le_mul_of_nonneg_right hm' (by omega)
      have hsj : 52 + s ≤ 53 + j := (pow_le_pow_iff_right₀ (by norm_num : (1 : Int) < 2)).mp hp
      have es : s = j + 1 := by omega
      subst es
      have e2 : (2 : Int) ^ (j + 1) = 2 * 2 ^ j := by rw [pow_succ]; ring
      rw [e2, habs] at h1
      have hge : (2 : Int) ^ 53 ≤ |m| := by
        by_contra hc
        have : |m| * 2 ^ j < 2 ^ 53 * 2 ^ j := Int.mul_lt_mul_of_pos_right (by omega) hj
        have e3 : (2 : Int) ^ 52 * (2 * 2 ^ j) = 2 ^ 53 * 2 ^ j := by ring
        omega
      have hme : |m| = 2 ^ 53 := by omega
      rw [e2, ← hk]
      rcases abs_cases m with ⟨ha, _⟩ | ⟨ha, _⟩
      · exact ⟨2 ^ 52, by rw [← ha, hme]; ring⟩
      · exact ⟨-2 ^ 52, by
          have : m = -2 ^ 53 := by omega
          rw [this]; ring⟩

/-- **`Exact53` characterised:** exactly the integers with at most 53 significant bits. -/
theorem exact53_iff (k : Int) :
    Exact53 k ↔ ∃ (m : Int) (j : Nat), m.natAbs ≤ 2 ^ 53 ∧ k = m * 2 ^ j := by
  constructor
  · intro h
    unfold Exact53 at h
    refine ⟨(round53 k).m, ulpExp k, ?_, ?_⟩
    · have := round53_m_le k
      rw [Int.abs_eq_natAbs] at this
      exact_mod_cast this
    · rw [round53_m, ← round53Val_eq, h]
  · rintro ⟨m, j, hm, rfl⟩
    exact exact53_of_trailing_zeros m j hm

/-- `float(k)` is odd: `float(-k) = -float(k)` -/
theorem round53_neg (k : Int) : round53Val (-k) = -round53Val k := round53Val_neg k

/-- **Idempotent:** the rounded value is itself exact. -/
theorem round53_idem (k : Int) : Exact53 (round53Val k) := by
  rw [round53Val_eq, ← round53_m]
  apply exact53_of_trailing_zeros
  have := round53_m_le k
  rw [Int.abs_eq_natAbs] at this
  exact_mod_cast this

/-- **Identity up to 2^53** (restates `exact53_of_small` through the characterisation). -/
theorem round53_id_small (k : Int) (h : |k| ≤ 2 ^ 53) : round53Val k = k := by
  have := exact53_of_trailing_zeros k 0 (by rw [Int.abs_eq_natAbs] at h; exact_mod_cast h)
  simpa [Exact53] using this

private theorem round53_mono_nonneg {k k' : Int} (h0 : 0 ≤ k) (h : k ≤ k') :
    round53Val k ≤ round53Val k' := by
  have hle : ulpExp k ≤ ulpExp k' := by
    unfold ulpExp
    have : bitLen k.natAbs ≤ bitLen k'.natAbs := bitLen_mono (by omega)
    omega
  rcases Nat.eq_or_lt_of_le hle with he | hlt
  · rw [round53Val_eq, round53Val_eq, he]
    exact Int.mul_le_mul_of_nonneg_right (rne_mono k k' _ h) (by positivity)
  · -- different binades: k < 2^L <= 2^(L'-1) <= k'
    have hs' : 0 < ulpExp k' := by omega
    obtain ⟨b1, _⟩ := binade k' hs'
    rw [abs_of_nonneg (by omega)] at b1
    have lo : (2 : Int) ^ 52 * 2 ^ ulpExp k' ≤ round53Val k' := by
      rw [round53Val_eq]
      exact Int.mul_le_mul_of_nonneg_right (rne_ge_of_grid_le b1) (by positivity)
    have hk := natAbs_lt_pow k
    rw [abs_of_nonneg h0] at hk
    have hsL : ulpExp k ≤ bitLen k.natAbs := by unfold ulpExp; omega
    have eL : (2 : Int) ^ bitLen k.natAbs = 2 ^ (bitLen k.natAbs - ulpExp k) * 2 ^ ulpExp k := by
      rw [← pow_add]; congr 1; omega
    have hi : round53Val k ≤ 2 ^ bitLen k.natAbs := by
      rw [round53Val_eq, eL]
      apply Int.mul_le_mul_of_nonneg_right _ (by positivity)
      apply rne_le_of_grid_ge
      rw [← eL]; omega
    have hLL : bitLen k.natAbs ≤ 52 + ulpExp k' := by unfold ulpExp at hlt ⊢; omega
    have : (2 : Int) ^ bitLen k.natAbs ≤ 2 ^ (52 + ulpExp k') :=
      pow_le_pow_right₀ (by norm_num) hLL
    rw [pow_add] at this
    omega

/-- **Monotone:** `k <= k'` implies `float(k) <= float(k')`. -/
theorem round53_mono (k k' : Int) (h : k ≤ k') : round53Val k ≤ round53Val k' := by
  rcases le_or_gt 0 k with h0 | h0
  · exact round53_mono_nonneg h0 h
  · rcases le_or_gt 0 k' with h1 | h1
    · have a := round53Val_nonneg h1
      have b := round53Val_nonneg (show 0 ≤ -k by omega)
      rw [round53Val_neg] at b
      omega
    · have := round53_mono_nonneg (show 0 ≤ -k' by omega) (show -k' ≤ -k by omega)
      rw [round53Val_neg, round53Val_neg] at this
      omega

/-- **Round to nearest, ties to even, 53 significant bits (ulp form).**  With
`ulp = 2^(bitLen |k| - 53)` (1 up to 53 bits): the result is a multiple `q * ulp` with
`|k - result| <= ulp / 2`, at a tie `q` is even, `|q| <= 2^53`, and when rounding happens
(`ulp > 1`) `|q| >= 2^52`, i.e. `ulp` is the spacing of doubles in the binade of `k`. -/
theorem round53_nearest_even (k : Int) :
    round53Val k = (round53 k).m * 2 ^ ulpExp k ∧
    2 * |k - round53Val k| ≤ 2 ^ ulpExp k ∧
    (2 * |k - round53Val k| = 2 ^ ulpExp k → (round53 k).m % 2 = 0) ∧
    |(round53 k).m| ≤ 2 ^ 53 ∧
    (0 < ulpExp k → 2 ^ 52 ≤ |(round53 k).m|) := by
  obtain ⟨a1, a2, a3⟩ := rne_isRne k (ulpExp k)
  refine ⟨round53Val_eq k, ?_, ?_, round53_m_le k, round53_m_ge k⟩
  · rw [round53Val_eq]
    rcases abs_cases (k - rne k (ulpExp k) * 2 ^ ulpExp k) with ⟨h, _⟩ | ⟨h, _⟩ <;> omega
  · rw [round53Val_eq, round53_m]
    intro hh
    apply a3
    rcases abs_cases (k - rne k (ulpExp k) * 2 ^ ulpExp k) with ⟨h, _⟩ | ⟨h, _⟩ <;> omega

/-- no multiple of the ulp is closer, and one equally close means the chosen significand is even -/
theorem round53_nearest_on_grid (k t : Int) :
    |k - round53Val k| ≤ |k - t * 2 ^ ulpExp k| ∧
    (t ≠ (round53 k).m → |k - t * 2 ^ ulpExp k| = |k - round53Val k| → (round53 k).m % 2 = 0) :=
  round53_grid k t

/-- **`round53` is IEEE round-to-nearest, ties-to-even among ALL 53-bit dyadics** (any exponent):
no `y = m * 2^e` with `|m| <= 2^53` is closer to `k` than `round53Val k`, and if a different one is
equally close then the significand chosen by `round53` is even. -/
theorem round53_nearest_all (k : Int) (y : Dy) (hy : y.m.natAbs ≤ 2 ^ 53) :
    |(k : ℚ) - (round53Val k : ℚ)| ≤ |(k : ℚ) - y.toRat| ∧
    (|(k : ℚ) - y.toRat| = |(k : ℚ) - (round53Val k : ℚ)| → y.toRat ≠ (round53Val k : ℚ) →
      (round53 k).m % 2 = 0) := by
  rcases Nat.eq_zero_or_pos (ulpExp k) with hs | hs
  · have hR : round53Val k = k := by
      rw [round53Val_eq, hs, rne_zero]; simp
    rw [hR]
    simp only [sub_self, abs_zero]
    refine ⟨abs_nonneg _, ?_⟩
    intro e1 e2
    exfalso; apply e2
    have := abs_eq_zero.mp e1
    linarith
  · rcases lt_trichotomy k 0 with hk | hk | hk
    · have hs' : 0 < ulpExp (-k) := by rw [ulpExp_neg]; exact hs
      have hy' : (⟨-y.m, y.e⟩ : Dy).m.natAbs ≤ 2 ^ 53 := by simpa using hy
      obtain ⟨a, b⟩ := nearest_pos (-k) (by omega) hs' ⟨-y.m, y.e⟩ hy'
      have ey : (⟨-y.m, y.e⟩ : Dy).toRat = -y.toRat := by unfold Dy.toRat; push_cast; ring
      rw [ey, round53Val_neg] at a b
      have e1 : ((-k : Int) : ℚ) - ((-round53Val k : Int) : ℚ) = -((k : ℚ) - (round53Val k : ℚ)) := by
        push_cast; ring
      have e2 : ((-k : Int) : ℚ) - -y.toRat = -((k : ℚ) - y.toRat) := by push_cast; ring
      rw [e1, e2, abs_neg, abs_neg] at a b
      refine ⟨a, ?_⟩
      intro h1 h2
      have := b h1 (by
        intro hc; apply h2
        have : ((-round53Val k : Int) : ℚ) = -(round53Val k : ℚ) := by push_cast; ring
        rw [this] at hc; linarith)
      rw [round53_m_neg] at this
      omega
    · subst hk
      exfalso
      unfold ulpExp bitLen at hs; simp at hs
    · exact nearest_pos k hk hs y hy

/-! non-vacuity / concrete ties: 2^53+1 is a tie rounded down to the even 2^52 * 2, 2^53+3 is a
tie rounded up to the even (2^52+2) * 2, and a 64-bit value with trailing zeros is exact -/
example : round53Val (2 ^ 53 + 1) = 2 ^ 53 ∧ round53Val (2 ^ 53 + 3) = 2 ^ 53 + 4 ∧
    ulpExp (2 ^ 53 + 1) = 1 ∧ Exact53 ((2 ^ 53 - 1) * 2 ^ 10) ∧ ¬ Exact53 (2 ^ 63 - 1) ∧
    round53Val (2 ^ 63 - 1) = 2 ^ 63 := by decide +kernel

/-- the tie clause of `round53_nearest_all` is not vacuous: `2^53 + 2 = (2^52+1) * 2` is as close to
`2^53 + 1` as the result `2^53` and different from it -/
example : (⟨2 ^ 52 + 1, 1⟩ : Dy).m.natAbs ≤ 2 ^ 53 ∧
    |(((2 ^ 53 + 1 : Int)) : ℚ) - (⟨2 ^ 52 + 1, 1⟩ : Dy).toRat| =
      |(((2 ^ 53 + 1 : Int)) : ℚ) - (round53Val (2 ^ 53 + 1) : ℚ)| ∧
    (⟨2 ^ 52 + 1, 1⟩ : Dy).toRat ≠ (round53Val (2 ^ 53 + 1) : ℚ) := by
  have h : round53Val (2 ^ 53 + 1) = 2 ^ 53 := by decide +kernel
  rw [h]
  refine ⟨by decide, ?_, ?_⟩ <;> norm_num [Dy.toRat]

end Rig.C16
