/-
C16 - fixed-point conversion saturates, is monotone and inverts exactly.
Property theorems about the model RigModel/Model/C16.lean (helper lemmas in Lemmas/C16.lean).
The specification predicates (`SpecFp`, `SpecFix`, `SpecMono`, `Exact53`) are the ones the
harness evaluates on the implementation's outputs.
-/
import RigModel.Lemmas.C16
set_option linter.unusedSimpArgs false
set_option linter.unusedVariables false

namespace Rig.C16
open Rig.Gen.TypeCasts

/-- the generated dtype table covers exactly the accepted widths, signed -> intN, unsigned -> uintN -/
theorem dtypes_cover :
    npBits = [8, 16, 32, 64] ∧
    dtypeTable.map (fun t => (t.1, t.2.1)) = npBits.flatMap (fun b => [(false, b), (true, b)]) ∧
    (∀ t ∈ dtypeTable, t.2.2 = (if t.1 then "int" else "uint") ++ toString t.2.1) := by
  decide

/-- the clamp used by the code -/
def clamp (fmt : Fmt) (t : Int) : Int := max (min fmt.maxV t) fmt.minV

/-- the exact scaled value lies in the finite range of doubles -/
def FiniteScaled (fmt : Fmt) (v : Dy) : Prop := magLt v.m (v.e + fmt.frac) 1024 = true

/-- the format is one `float_to_fp` accepts -/
def Fmt.Ok (fmt : Fmt) : Prop := ¬ (fmt.signed = true ∧ fmt.bits = 0) ∧ fmt.frac < 1024

theorem fp_total (fmt : Fmt) (v : Dy) (hf : fmt.Ok) (hv : FiniteScaled fmt v) :
    floatToFp fmt v = .ok (clamp fmt (truncScaled v.m (v.e + fmt.frac))) := by
  obtain ⟨h1, h2⟩ := hf
  unfold FiniteScaled at hv
  unfold floatToFp clamp
  have a : (fmt.signed && fmt.bits == 0) = false := by
    cases hs : fmt.signed <;> simp_all
  have b : ¬ (1024 ≤ fmt.frac) := by omega
  simp [a, b, hv]

theorem fp_ok_inv {fmt : Fmt} {v : Dy} {r : Int} (h : floatToFp fmt v = .ok r) :
    fmt.Ok ∧ FiniteScaled fmt v ∧ r = clamp fmt (truncScaled v.m (v.e + fmt.frac)) := by
  unfold floatToFp at h
  split at h
  · cases h
  · split at h
    · cases h
    · split at h
      · cases h
      · rename_i a b c
        injection h with h
        refine ⟨⟨?_, by omega⟩, ?_, h.symm⟩
        · intro ⟨x, y⟩; simp [x, y] at a
        · unfold FiniteScaled; simpa using c

theorem clamp_spec (fmt : Fmt) (v : Dy) (t : Int)
    (ht : IsTrunc t (scaledNum fmt v) (scaledDen fmt v)) : SpecFp fmt v (clamp fmt t) := by
  have hd : 0 < scaledDen fmt v := den_pos _
  have hM := maxV_nonneg fmt
  have hm := minV_nonpos fmt
  obtain ⟨a, b⟩ := ht
  unfold SpecFp clamp
  simp only
  generalize scaledNum fmt v = n at *
  generalize scaledDen fmt v = d at *
  generalize fmt.maxV = M at *
  generalize fmt.minV = m at *
  split
  · rename_i h
    have hn : 0 ≤ n := by nlinarith
    obtain ⟨x1, x2⟩ := a hn
    have : M + 1 < t + 1 := by nlinarith
    omega
  · split
    · rename_i h1 h
      have hn : n < 0 := by nlinarith
      obtain ⟨x1, x2⟩ := b hn
      have : t - 1 < m - 1 := by nlinarith
      omega
    · rename_i h1 h2
      rw [not_le] at h1 h2
      have : m ≤ t ∧ t ≤ M := by
        rcases lt_or_ge n 0 with hn | hn
        · obtain ⟨x1, x2⟩ := b hn
          have : m - 1 < t := by nlinarith
          have : t - 1 < 0 := by nlinarith
          omega
        · obtain ⟨x1, x2⟩ := a hn
          have : t < M + 1 := by nlinarith
          have : 0 < t + 1 := by nlinarith
          omega
      have e : max (min M t) m = t := by omega
      rw [e]; exact ⟨a, b⟩

/-- **Saturation formula.** -/
theorem fp_sat (fmt : Fmt) (v : Dy) (r : Int) (h : floatToFp fmt v = .ok r) : SpecFp fmt v r := by
  obtain ⟨_, _, rfl⟩ := fp_ok_inv h
  exact clamp_spec fmt v _ (tdiv_isTrunc _ _ (den_pos _))

theorem spec_unique (fmt : Fmt) (v : Dy) (r r' : Int) (h : SpecFp fmt v r) (h' : SpecFp fmt v r') : r = r' := by
  unfold SpecFp at h h'
  simp only at h h'
  split at h
  · rename_i c; rw [if_pos c] at h'; omega
  · rename_i c; rw [if_neg c] at h'
    split at h
    · rename_i c2; rw [if_pos c2] at h'; omega
    · rename_i c2; rw [if_neg c2] at h'
      exact isTrunc_unique (den_pos _) h h'

theorem spec_range (fmt : Fmt) (v : Dy) (r : Int) (h : SpecFp fmt v r) : fmt.minV ≤ r ∧ r ≤ fmt.maxV := by
  have := spec_unique fmt v r _ h (clamp_spec fmt v _ (tdiv_isTrunc _ _ (den_pos _)))
  have hM := maxV_nonneg fmt
  have hm := minV_nonpos fmt
  rw [this]; unfold clamp; omega

theorem fp_range (fmt : Fmt) (v : Dy) (r : Int) (h : floatToFp fmt v = .ok r) :
    fmt.minV ≤ r ∧ r ≤ fmt.maxV := spec_range fmt v r (fp_sat fmt v r h)

/-- **Within one LSB.** -/
theorem fp_lsb (fmt : Fmt) (v : Dy) (r : Int) (h : floatToFp fmt v = .ok r)
    (hlo : fmt.minV * scaledDen fmt v ≤ scaledNum fmt v)
    (hhi : scaledNum fmt v ≤ fmt.maxV * scaledDen fmt v) :
    -(scaledDen fmt v) < scaledNum fmt v - r * scaledDen fmt v ∧
      scaledNum fmt v - r * scaledDen fmt v < scaledDen fmt v := by
  have hs := fp_sat fmt v r h
  have hd : 0 < scaledDen fmt v := den_pos _
  unfold SpecFp at hs
  simp only at hs
  rw [if_neg (by nlinarith), if_neg (by nlinarith)] at hs
  obtain ⟨a, b⟩ := hs
  rcases lt_or_ge (scaledNum fmt v) 0 with hn | hn
  · obtain ⟨x1, x2⟩ := b hn
    constructor <;> nlinarith
  · obtain ⟨x1, x2⟩ := a hn
    constructor <;> nlinarith

/-- **Monotone.** -/
theorem fp_mono (fmt : Fmt) (v w : Dy) (r r' : Int) (hle : Dy.le v w)
    (h : floatToFp fmt v = .ok r) (h' : floatToFp fmt w = .ok r') : r ≤ r' := by
  obtain ⟨_, _, rfl⟩ := fp_ok_inv h
  obtain ⟨_, _, rfl⟩ := fp_ok_inv h'
  have t1 := tdiv_isTrunc (num v.m (v.e + fmt.frac)) _ (den_pos (v.e + fmt.frac))
  have t2 := tdiv_isTrunc (num w.m (w.e + fmt.frac)) _ (den_pos (w.e + fmt.frac))
  have := isTrunc_mono (den_pos _) (den_pos _) ((cross_iff_le v w fmt.frac).mpr hle) t1 t2
  unfold clamp truncScaled
  omega

theorem exact53_of_small (k : Int) (h : k.natAbs ≤ 2 ^ 53) : Exact53 k := by
  unfold Exact53 round53Val
  rcases Nat.lt_or_ge k.natAbs (2 ^ 53) with h1 | h1
  · rw [round53_small k h1]; simp
  · have : k.natAbs = 2 ^ 53 := by omega
    rcases Int.natAbs_eq k with e | e <;> rw [this] at e <;> rw [e] <;> decide


/-- `2.0**(-n_frac)` exists, and `k` and `k * 2^-frac` are finite as doubles (no overflow in `fp_to_float`) -/
def InverseDomain (fmt : Fmt) (k : Int) : Prop :=
  -1024 < fmt.frac ∧ magLt k 0 1024 = true ∧ magLt k (-fmt.frac) 1024 = true

theorem tdiv_one' (a : Int) : a.tdiv 1 = a := by simp

/-- **Inverse.** every in-range fixed-point value that a double holds exactly survives
`fp_to_float` followed by `float_to_fp` unchanged. -/
theorem fp_inverse (fmt : Fmt) (k : Int) (hf : fmt.Ok) (hlo : fmt.minV ≤ k) (hhi : k ≤ fmt.maxV)
    (hex : Exact53 k) (hdom : InverseDomain fmt k) :
    ∃ d, fpToFloat fmt.frac k = .ok (.fin d) ∧ floatToFp fmt d = .ok k := by
  obtain ⟨hfl, hk0, hkf⟩ := hdom
  unfold Exact53 round53Val at hex
  have hfr : fmt.frac < 1024 := hf.2
  -- value of round53 k
  have hse : 0 ≤ (round53 k).e := by unfold round53; dsimp only; omega
  generalize hr : round53 k = r at hex hse
  have hq : (r.m : ℚ) * (2 : ℚ) ^ r.e = (k : ℚ) := by
    have : ((r.m * 2 ^ r.e.toNat : Int) : ℚ) = (k : ℚ) := by rw [hex]
    rw [← this]; push_cast
    rw [← zpow_natCast (2 : ℚ) r.e.toNat, Int.toNat_of_nonneg hse]
  have habs : |(r.m : ℚ)| * (2 : ℚ) ^ r.e = |(k : ℚ)| := by
    rw [← hq, abs_mul, abs_of_pos (show (0 : ℚ) < (2 : ℚ) ^ r.e by positivity)]
  have m1 : magLt r.m r.e 1024 = true := by
    rw [magLt_iff, habs]; have := (magLt_iff k 0 1024).mp hk0; simpa using this
  have m2 : magLt r.m (r.e + -fmt.frac) 1024 = true := by
    rw [magLt_iff, zpow_add₀ (by norm_num), ← mul_assoc, habs]
    exact (magLt_iff k (-fmt.frac) 1024).mp hkf
  have e1 : fpToFloat fmt.frac k = .ok (toDouble r.m (r.e + -fmt.frac)) := by
    unfold fpToFloat pow2f intToDouble
    have a : ¬ (1024 ≤ -fmt.frac) := by omega
    have b : ¬ (-fmt.frac < -1074) := by omega
    simp only [a, b, if_false, hr, m1, if_true, bind, Except.bind, pure, Except.pure, mulScale]
  by_cases hm : r.m = 0
  · -- k = 0
    have hk : k = 0 := by rw [← hex, hm]; simp
    refine ⟨⟨0, 0⟩, ?_, ?_⟩
    · rw [e1]; unfold toDouble; simp [hm]
    · have hv : FiniteScaled fmt ⟨0, 0⟩ := by
        unfold FiniteScaled; rw [magLt_iff]; simp
      rw [fp_total fmt _ hf hv, hk]
      have : truncScaled 0 (0 + fmt.frac) = 0 := by
        unfold truncScaled num; split <;> simp
      simp only [this]
      have : clamp fmt 0 = 0 := by unfold clamp; omega
      rw [this]
  · refine ⟨⟨r.m, r.e + -fmt.frac⟩, ?_, ?_⟩
    · rw [e1]; unfold toDouble
      have c : -1074 ≤ r.e + -fmt.frac := by omega
      simp [hm, m2, c]
    · have hv : FiniteScaled fmt ⟨r.m, r.e + -fmt.frac⟩ := by
        unfold FiniteScaled
        have : r.e + -fmt.frac + fmt.frac = r.e := by omega
        simp only [this, m1]
      rw [fp_total fmt _ hf hv]
      have e : r.e + -fmt.frac + fmt.frac = r.e := by omega
      have : truncScaled r.m (r.e + -fmt.frac + fmt.frac) = k := by
        simp only [e]
        unfold truncScaled num den
        simp only [hse, if_true, tdiv_one', hex]
      simp only [this]
      have : clamp fmt k = k := by unfold clamp; omega
      rw [this]

instance (f : Fmt) : Decidable f.Ok := by unfold Fmt.Ok; infer_instance
instance (f : Fmt) (k : Int) : Decidable (InverseDomain f k) := by unfold InverseDomain; infer_instance

example : (⟨true, 64, 32⟩ : Fmt).Ok ∧ (⟨true, 64, 32⟩ : Fmt).minV ≤ 2 ^ 40 + 1 ∧
    (2 ^ 40 + 1 : Int) ≤ (⟨true, 64, 32⟩ : Fmt).maxV ∧ Exact53 (2 ^ 40 + 1) ∧
    InverseDomain ⟨true, 64, 32⟩ (2 ^ 40 + 1) := by decide +kernel

/-- beyond 53 significant bits the round trip is impossible: `2^53 + 1` in the signed 64-bit
integer format comes back as `2^53` (known finding `inverse-beyond-2^53`) -/
theorem inverse_counterexample :
    (fpToFloat 0 (2 ^ 53 + 1) >>= fun x => match x with
      | .fin d => floatToFp ⟨true, 64, 0⟩ d
      | .inf _ => .error .overflowInt) = .ok (2 ^ 53) ∧
    (⟨true, 64, 0⟩ : Fmt).minV ≤ 2 ^ 53 + 1 ∧ (2 ^ 53 + 1 : Int) ≤ (⟨true, 64, 0⟩ : Fmt).maxV ∧
    ¬ Exact53 (2 ^ 53 + 1) := by decide +kernel

/-- integer value of a dyadic bound with non-negative exponent -/
def Dy.intVal (b : Dy) : Int := b.m * 2 ^ b.e.toNat

theorem num_den_int (b : Dy) (hb : 0 ≤ b.e) : num b.m b.e = b.intVal ∧ den b.e = 1 := by
  unfold num den Dy.intVal; simp [hb]

theorem le_int_iff (d b : Dy) (hb : 0 ≤ b.e) : Dy.le d b ↔ num d.m d.e ≤ b.intVal * den d.e := by
  have := cross_iff_le d b 0
  simp only [Int.add_zero] at this
  rw [(num_den_int b hb).1, (num_den_int b hb).2, Int.mul_one] at this
  exact this.symm

theorem int_le_iff (d b : Dy) (hb : 0 ≤ b.e) : Dy.le b d ↔ b.intVal * den d.e ≤ num d.m d.e := by
  have := cross_iff_le b d 0
  simp only [Int.add_zero] at this
  rw [(num_den_int b hb).1, (num_den_int b hb).2, Int.mul_one] at this
  exact this.symm

theorem int_le_int (a b : Dy) (ha : 0 ≤ a.e) (hb : 0 ≤ b.e) : Dy.le a b ↔ a.intVal ≤ b.intVal := by
  rw [le_int_iff a b hb, (num_den_int a ha).1, (num_den_int a ha).2, Int.mul_one]

theorem trunc_int (b : Dy) (hb : 0 ≤ b.e) : truncScaled b.m b.e = b.intVal := by
  unfold truncScaled; rw [(num_den_int b hb).1, (num_den_int b hb).2]; simp

/-- clipping between integer bounds then truncating = truncating then clamping -/
theorem clip_trunc (d lo hi : Dy) (hlo : 0 ≤ lo.e) (hhi : 0 ≤ hi.e)
    (hL0 : lo.intVal ≤ 0) (hH0 : 0 ≤ hi.intVal) :
    truncScaled (minD (maxD d lo) hi).m (minD (maxD d lo) hi).e
      = max (min hi.intVal (truncScaled d.m d.e)) lo.intVal := by
  have hd := den_pos d.e
  have ht := tdiv_isTrunc (num d.m d.e) (den d.e) hd
  obtain ⟨a, b⟩ := ht
  have hlh : Dy.le lo hi := (int_le_int lo hi hlo hhi).mpr (by omega)
  unfold maxD
  by_cases h1 : Dy.le d lo
  · simp only [h1, if_true]
    unfold minD; simp only [hlh, if_true]
    rw [trunc_int lo hlo]
    rw [le_int_iff d lo hlo] at h1
    have : truncScaled d.m d.e ≤ lo.intVal := by
      unfold truncScaled
      rcases lt_or_ge (num d.m d.e) 0 with hn | hn
      · obtain ⟨x1, x2⟩ := b hn
        have : (num d.m d.e).tdiv (den d.e) - 1 < lo.intVal := by nlinarith
        omega
      · obtain ⟨x1, x2⟩ := a hn
        nlinarith
    omega
  · simp only [h1, if_false]
    unfold minD
    rw [le_int_iff d lo hlo, not_le] at h1
    have hge : lo.intVal ≤ truncScaled d.m d.e := by
      unfold truncScaled
      rcases lt_or_ge (num d.m d.e) 0 with hn | hn
      · obtain ⟨x1, x2⟩ := b hn
        have : lo.intVal < (num d.m d.e).tdiv (den d.e) := by nlinarith
        omega
      · obtain ⟨x1, x2⟩ := a hn
        have : 0 < (num d.m d.e).tdiv (den d.e) + 1 := by nlinarith
        omega
    by_cases h2 : Dy.le d hi
    · simp only [h2, if_true]
      rw [le_int_iff d hi hhi] at h2
      have : truncScaled d.m d.e ≤ hi.intVal := by
        unfold truncScaled
        rcases lt_or_ge (num d.m d.e) 0 with hn | hn
        · obtain ⟨x1, x2⟩ := b hn
          have : (num d.m d.e).tdiv (den d.e) - 1 < 0 := by nlinarith
          omega
        · obtain ⟨x1, x2⟩ := a hn
          nlinarith
      omega
    · simp only [h2, if_false]
      rw [trunc_int hi hhi]
      rw [le_int_iff d hi hhi, not_le] at h2
      have : hi.intVal ≤ truncScaled d.m d.e := by
        unfold truncScaled
        have hn : 0 ≤ num d.m d.e := by nlinarith
        obtain ⟨x1, x2⟩ := a hn
        have : hi.intVal < (num d.m d.e).tdiv (den d.e) + 1 := by nlinarith
        omega
      omega


/-- the clip bounds of the array converter as doubles: exact at the lower end; at the upper end
exact for 8/16/32 bits and rounded UP by one for 64 bits -/
theorem np_bounds (fmt : Fmt) (hb : npBits.contains fmt.bits = true) :
    0 ≤ (round53 fmt.minV).e ∧ 0 ≤ (round53 fmt.maxV).e ∧ (round53 fmt.minV).intVal = fmt.minV ∧
    (if fmt.bits = 64 then (round53 fmt.maxV).intVal = fmt.maxV + 1
      else (round53 fmt.maxV).intVal = fmt.maxV) := by
  obtain ⟨s, b, f⟩ := fmt
  have hb' : b = 8 ∨ b = 16 ∨ b = 32 ∨ b = 64 := by
    have : npBits = [8, 16, 32, 64] := by decide
    rw [this] at hb; simpa using hb
  have e1 : Fmt.maxV ⟨s, b, f⟩ = Fmt.maxV ⟨s, b, 0⟩ := rfl
  have e2 : Fmt.minV ⟨s, b, f⟩ = Fmt.minV ⟨s, b, 0⟩ := rfl
  rw [e1, e2]
  show _ ∧ _ ∧ _ ∧ (if b = 64 then _ else _)
  rcases hb' with rfl | rfl | rfl | rfl <;> cases s <;> decide +kernel

/-- a double: 53-bit significand -/
def IsDouble (v : Dy) : Prop := v.m.natAbs ≤ 2 ^ 53
instance (v : Dy) : Decidable (IsDouble v) := by unfold IsDouble; infer_instance

theorem isTrunc_zero {m D : Int} (h : |m| < D) : IsTrunc 0 m D := by
  have := abs_lt.mp h
  constructor <;> intro _ <;> constructor <;> omega

theorem rne_abs_le (m : Int) (s : Nat) : |rne m s| ≤ |m| + 1 := by
  unfold rne
  simp only
  have hD : (0 : Int) < 2 ^ s := by positivity
  generalize (2 : Int) ^ s = D at *
  have h1 : m / D * D ≤ m := Int.ediv_mul_le m (by omega)
  have h2 : m < (m / D + 1) * D := Int.lt_ediv_add_one_mul_self m hD
  have hq : |m / D| ≤ |m| := by
    rw [abs_le]
    rcases lt_or_ge m 0 with hm | hm
    · rw [abs_of_neg hm]; constructor <;> nlinarith
    · rw [abs_of_nonneg hm]; constructor <;> nlinarith
  have hq1 : |m / D + 1| ≤ |m| + 1 := by
    have := abs_add_le (m / D) 1
    simp at this; omega
  split
  · omega
  · split
    · exact hq1
    · split
      · omega
      · exact hq1

theorem pow1074 : (2 : Int) ^ 53 + 1 < 2 ^ 1074 := by
  have : (2 : Int) ^ 1074 = 2 ^ 54 * 2 ^ 1020 := by rw [← pow_add]
  have h : (1 : Int) ≤ 2 ^ 1020 := one_le_pow₀ (by norm_num)
  rw [this]
  generalize (2 : Int) ^ 1020 = X at h
  norm_num
  omega

/-- the scaled double used by the array path truncates to the same integer as the exact
scaled value (underflow rounds to something still below 1 in magnitude) -/
theorem toDouble_trunc (m k : Int) (hfin : magLt m k 1024 = true) (hm : m.natAbs ≤ 2 ^ 53) :
    ∃ d, toDouble m k = .fin d ∧ truncScaled d.m d.e = truncScaled m k := by
  unfold toDouble
  by_cases h0 : m = 0
  · refine ⟨⟨0, 0⟩, by simp [h0], ?_⟩
    subst h0; unfold truncScaled num; simp
  · simp only [h0, if_false, hfin, Bool.not_true]
    by_cases hk : -1074 ≤ k
    · exact ⟨⟨m, k⟩, by simp [hk], rfl⟩
    · refine ⟨⟨rne m (-1074 - k).toNat, -1074⟩, by simp [hk], ?_⟩
      have habs : |m| ≤ 2 ^ 53 := by
        rw [Int.abs_eq_natAbs]; exact_mod_cast hm
      have hr := rne_abs_le m (-1074 - k).toNat
      have e1 : truncScaled (rne m (-1074 - k).toNat) (-1074) = 0 := by
        unfold truncScaled
        refine isTrunc_unique (den_pos _) (tdiv_isTrunc _ _ (den_pos _)) (isTrunc_zero ?_)
        have : num (rne m (-1074 - k).toNat) (-1074) = rne m (-1074 - k).toNat := by unfold num; simp
        rw [this]
        have : den (-1074) = 2 ^ 1074 := by unfold den; simp
        rw [this]
        have := pow1074; omega
      have e2 : truncScaled m k = 0 := by
        unfold truncScaled
        refine isTrunc_unique (den_pos _) (tdiv_isTrunc _ _ (den_pos _)) (isTrunc_zero ?_)
        have hk' : ¬ (0 ≤ k) := by omega
        have : num m k = m := by unfold num; simp [hk']
        rw [this]
        have : den k = 2 ^ (-k).toNat := by unfold den; simp [hk']
        rw [this]
        have h1 : (2 : Int) ^ 1074 ≤ 2 ^ (-k).toNat := pow_le_pow_right₀ (by norm_num) (by omega)
        have := pow1074; omega
      rw [e1, e2]


/-- the part of `NumpyFloatToFixConverter.__call__` after the scaling -/
def npBody (rep : Bool) (fmt : Fmt) (x : FloatR) : Cast :=
  let hi := round53 fmt.maxV
  let saturated := rep && x.ge hi
  let c := clipF x (round53 fmt.minV) hi
  let c := if saturated then ⟨0, 0⟩ else c
  let t := truncScaled c.m c.e
  let cast := if fmt.minV ≤ t ∧ t ≤ fmt.maxV then Cast.val t else Cast.unspecified
  if saturated then .val fmt.maxV else cast

theorem npBody_pinned (fmt : Fmt) (d : Dy) (hb : npBits.contains fmt.bits = true)
    (hle : fmt.bits = 64 → truncScaled d.m d.e ≤ fmt.maxV) :
    npBody false fmt (.fin d) = .val (clamp fmt (truncScaled d.m d.e)) := by
  obtain ⟨b1, b2, b3, b4⟩ := np_bounds fmt hb
  have hM := maxV_nonneg fmt
  have hm := minV_nonpos fmt
  unfold npBody
  simp only [Bool.false_and, Bool.false_eq_true, if_false, clipF]
  rw [clip_trunc d _ _ b1 b2 (by omega) (by split at b4 <;> omega), b3]
  unfold clamp
  generalize truncScaled d.m d.e = t at *
  split at b4
  · rename_i h64
    have := hle h64
    rw [b4]
    have e : max (min (fmt.maxV + 1) t) fmt.minV = max (min fmt.maxV t) fmt.minV := by omega
    rw [e, if_pos (by omega)]
  · rw [b4, if_pos (by omega)]

theorem npBody_repaired (fmt : Fmt) (d : Dy) (hb : npBits.contains fmt.bits = true) :
    npBody true fmt (.fin d) = .val (clamp fmt (truncScaled d.m d.e)) := by
  obtain ⟨b1, b2, b3, b4⟩ := np_bounds fmt hb
  have hM := maxV_nonneg fmt
  have hm := minV_nonpos fmt
  have hH : fmt.maxV ≤ (round53 fmt.maxV).intVal ∧ (round53 fmt.maxV).intVal ≤ fmt.maxV + 1 := by
    split at b4 <;> omega
  have hd := den_pos d.e
  obtain ⟨a, b⟩ := tdiv_isTrunc (num d.m d.e) (den d.e) hd
  unfold npBody
  simp only [Bool.true_and, FloatR.ge, clipF]
  by_cases hs : Dy.le (round53 fmt.maxV) d
  · simp only [hs, decide_true, if_true]
    rw [int_le_iff d _ b2] at hs
    have hn : 0 ≤ num d.m d.e := by nlinarith
    obtain ⟨x1, x2⟩ := a hn
    have : (round53 fmt.maxV).intVal < truncScaled d.m d.e + 1 := by unfold truncScaled; nlinarith
    unfold clamp
    have e : max (min fmt.maxV (truncScaled d.m d.e)) fmt.minV = fmt.maxV := by omega
    rw [e]
  · simp only [hs, decide_false, Bool.false_eq_true, if_false]
    rw [clip_trunc d _ _ b1 b2 (by omega) (by omega), b3]
    rw [int_le_iff d _ b2, not_le] at hs
    have hlt : truncScaled d.m d.e < (round53 fmt.maxV).intVal := by
      unfold truncScaled
      rcases lt_or_ge (num d.m d.e) 0 with hn | hn
      · obtain ⟨x1, x2⟩ := b hn
        have : (num d.m d.e).tdiv (den d.e) - 1 < 0 := by nlinarith
        have hpos : 0 < (round53 fmt.maxV).intVal := by
          by_contra hc
          have : (round53 fmt.maxV).intVal * den d.e ≤ 0 := by nlinarith
          have h0 : fmt.maxV = 0 := by omega
          -- maxV = 0 is impossible for the widths in npBits
          obtain ⟨s, bb, f⟩ := fmt
          have hb' : bb = 8 ∨ bb = 16 ∨ bb = 32 ∨ bb = 64 := by
            have : npBits = [8, 16, 32, 64] := by decide
            rw [this] at hb; simpa using hb
          rcases hb' with rfl | rfl | rfl | rfl <;> cases s <;> simp [Fmt.maxV] at h0
        omega
      · obtain ⟨x1, x2⟩ := a hn
        nlinarith
    unfold clamp
    generalize truncScaled d.m d.e = t at *
    have e : max (min (round53 fmt.maxV).intVal t) fmt.minV = max (min fmt.maxV t) fmt.minV := by omega
    rw [e, if_pos (by omega)]


theorem npBody_pinned_overflow (fmt : Fmt) (d : Dy) (hb : npBits.contains fmt.bits = true)
    (h64 : fmt.bits = 64) (hgt : fmt.maxV < truncScaled d.m d.e) :
    npBody false fmt (.fin d) = .unspecified := by
  obtain ⟨b1, b2, b3, b4⟩ := np_bounds fmt hb
  have hM := maxV_nonneg fmt
  have hm := minV_nonpos fmt
  rw [if_pos h64] at b4
  unfold npBody
  simp only [Bool.false_and, Bool.false_eq_true, if_false, clipF]
  rw [clip_trunc d _ _ b1 b2 (by omega) (by omega), b3, b4]
  generalize truncScaled d.m d.e = t at *
  have e : max (min (fmt.maxV + 1) t) fmt.minV = fmt.maxV + 1 := by omega
  rw [e, if_neg (by omega)]

/-- hypotheses of the array theorems: an accepted width, `2.0**n_frac` exists and is not 0.0,
the scaled value is finite, the input is a double -/
structure ArrayDomain (fmt : Fmt) (v : Dy) : Prop where
  width : npBits.contains fmt.bits = true
  fracHi : fmt.frac < 1024
  fracLo : -1074 ≤ fmt.frac
  finite : FiniteScaled fmt v
  double : IsDouble v

theorem ArrayDomain.fmtOk {fmt : Fmt} {v : Dy} (h : ArrayDomain fmt v) : fmt.Ok := by
  refine ⟨?_, h.fracHi⟩
  intro ⟨_, h0⟩
  have := h.width
  rw [h0] at this
  revert this; decide

theorem np_unfold (rep : Bool) (fmt : Fmt) (v : Dy) (h : ArrayDomain fmt v) :
    npFloatToFixG rep fmt v = .ok (npBody rep fmt (toDouble v.m (v.e + fmt.frac))) := by
  have a : ¬ (1024 ≤ fmt.frac) := by have := h.fracHi; omega
  have b : ¬ (fmt.frac < -1074) := by have := h.fracLo; omega
  unfold npFloatToFixG npBody pow2f
  simp only [h.width, Bool.not_true, Bool.false_eq_true, if_false, a, b, bind, Except.bind, pure,
    Except.pure, mulScale]
  rfl

/-- **Array = scalar (8, 16 and 32 bits).** The NumPy converter (scale, clip in floating point,
cast) returns, for every element, exactly what `float_to_fp` returns. -/
theorem array_eq_scalar (fmt : Fmt) (v : Dy) (h : ArrayDomain fmt v) (hb : fmt.bits ≠ 64) :
    npFloatToFix fmt v = (floatToFp fmt v).map Cast.val := by
  obtain ⟨d, hd, ht⟩ := toDouble_trunc v.m (v.e + fmt.frac) h.finite h.double
  rw [fp_total fmt v h.fmtOk h.finite]
  unfold npFloatToFix
  rw [np_unfold false fmt v h, hd, npBody_pinned fmt d h.width (fun h64 => absurd h64 hb), ht]
  rfl

/-- **Array = scalar, 64 bits, pinned code:** holds for every element whose truncated scaled
value does not exceed the maximum, i.e. strictly below the rounded clip bound `float(2^63-1) = 2^63`. -/
theorem array64_eq_scalar_below_bound (fmt : Fmt) (v : Dy) (h : ArrayDomain fmt v)
    (hlt : truncScaled v.m (v.e + fmt.frac) ≤ fmt.maxV) :
    npFloatToFix fmt v = (floatToFp fmt v).map Cast.val := by
  obtain ⟨d, hd, ht⟩ := toDouble_trunc v.m (v.e + fmt.frac) h.finite h.double
  rw [fp_total fmt v h.fmtOk h.finite]
  unfold npFloatToFix
  rw [np_unfold false fmt v h, hd, npBody_pinned fmt d h.width (fun _ => by rw [ht]; exact hlt), ht]
  rfl

/-- **The 64-bit saturation defect of the pinned code (F9):** every element whose scaled value
reaches `max + 1` is clipped to `float(max) = max + 1` and then cast out of range (observed
on x86-64: `-2^63` for int64, `0` for uint64), while `float_to_fp` saturates at `max`. -/
theorem array64_defect_all (fmt : Fmt) (v : Dy) (h : ArrayDomain fmt v) (h64 : fmt.bits = 64)
    (hgt : fmt.maxV < truncScaled v.m (v.e + fmt.frac)) :
    npFloatToFix fmt v = .ok .unspecified ∧ floatToFp fmt v = .ok fmt.maxV := by
  obtain ⟨d, hd, ht⟩ := toDouble_trunc v.m (v.e + fmt.frac) h.finite h.double
  constructor
  · unfold npFloatToFix
    rw [np_unfold false fmt v h, hd, npBody_pinned_overflow fmt d h.width h64 (by rw [ht]; exact hgt)]
  · rw [fp_total fmt v h.fmtOk h.finite]
    have hm := minV_nonpos fmt
    have hM := maxV_nonneg fmt
    unfold clamp
    have e : max (min fmt.maxV (truncScaled v.m (v.e + fmt.frac))) fmt.minV = fmt.maxV := by omega
    rw [e]

/-- concrete instance: 1e30-like value `2^100` in the signed and unsigned 64-bit integer formats -/
theorem array64_defect :
    npFloatToFix ⟨true, 64, 0⟩ ⟨1, 100⟩ = .ok .unspecified ∧
    floatToFp ⟨true, 64, 0⟩ ⟨1, 100⟩ = .ok (2 ^ 63 - 1) ∧
    npFloatToFix ⟨false, 64, 0⟩ ⟨1, 100⟩ = .ok .unspecified ∧
    floatToFp ⟨false, 64, 0⟩ ⟨1, 100⟩ = .ok (2 ^ 64 - 1) := by decide +kernel

/-- **Array = scalar for every supported width (8, 16, 32, 64) for the repaired code**
(fixes/c16-saturate-64bit.diff). -/
theorem array_eq_scalar_repaired (fmt : Fmt) (v : Dy) (h : ArrayDomain fmt v) :
    npFloatToFixRepaired fmt v = (floatToFp fmt v).map Cast.val := by
  obtain ⟨d, hd, ht⟩ := toDouble_trunc v.m (v.e + fmt.frac) h.finite h.double
  rw [fp_total fmt v h.fmtOk h.finite]
  unfold npFloatToFixRepaired
  rw [np_unfold true fmt v h, hd, npBody_repaired fmt d h.width, ht]
  rfl

instance (fmt : Fmt) (v : Dy) : Decidable (FiniteScaled fmt v) := by unfold FiniteScaled; infer_instance
example : ArrayDomain ⟨true, 16, 5⟩ ⟨-12345, -7⟩ ∧ (⟨true, 16, 5⟩ : Fmt).bits ≠ 64 :=
  ⟨⟨by decide, by decide, by decide, by decide +kernel, by decide⟩, by decide⟩
example : ArrayDomain ⟨true, 64, 0⟩ ⟨1, 100⟩ ∧
    (⟨true, 64, 0⟩ : Fmt).maxV < truncScaled 1 (100 + 0) :=
  ⟨⟨by decide, by decide, by decide, by decide +kernel, by decide⟩, by decide +kernel⟩


end Rig.C16
