/-
C16 - fixed-point conversion saturates, is monotone and inverts exactly.
-/
import RigModel.Model.C16
set_option linter.unusedSimpArgs false
set_option linter.unusedVariables false

namespace Rig.C16
open Rig.Gen.TypeCasts

/-- the generated dtype table covers exactly the accepted widths, signed -> intN, unsigned -> uintN -/
theorem dtypes_cover :
    npBits = [8, 16, 32, 64] ∧
    dtypeTable.map (fun t => (t.1, t.2.1)) = npBits.flatMap (fun b => [(false, b), (true, b)]) ∧
    (∀ t ∈ dtypeTable, t.2.2 = (if t.1 then "int" else "uint") ++ toString t.2.1) := by
  decide

end Rig.C16
