/-
C16 - fixed-point conversion saturates, is monotone and inverts exactly.
Property theorems about the model RigModel/Model/C16.lean (helper lemmas in Lemmas/C16.lean).
The specification predicates (`SpecFp`, `SpecFix`, `SpecMono`, `Exact53`) are the ones the
harness evaluates on the implementation's outputs.
-/
import RigModel.Lemmas.C16
set_option linter.unusedSimpArgs false
set_option linter.unusedVariables false

namespace Rig.C16
open Rig.Gen.TypeCasts

/-- the generated dtype table covers exactly the accepted widths, signed -> intN, unsigned -> uintN -/
theorem dtypes_cover :
    npBits = [8, 16, 32, 64] ∧
    dtypeTable.map (fun t => (t.1, t.2.1)) = npBits.flatMap (fun b => [(false, b), (true, b)]) ∧
    (∀ t ∈ dtypeTable, t.2.2 = (if t.1 then "int" else "uint") ++ toString t.2.1) := by
  decide

/-- the clamp used by the code -/
def clamp (fmt : Fmt) (t : Int) : Int := max (min fmt.maxV t) fmt.minV

/-- the exact scaled value lies in the finite range of doubles -/
def FiniteScaled (fmt : Fmt) (v : Dy) : Prop := magLt v.m (v.e + fmt.frac) 1024 = true

/-- the format is one `float_to_fp` accepts -/
def Fmt.Ok (fmt : Fmt) : Prop := ¬ (fmt.signed = true ∧ fmt.bits = 0) ∧ fmt.frac < 1024

theorem fp_total (fmt : Fmt) (v : Dy) (hf : fmt.Ok) (hv : FiniteScaled fmt v) :
    floatToFp fmt v = .ok (clamp fmt (truncScaled v.m (v.e + fmt.frac))) := by
  obtain ⟨h1, h2⟩ := hf
  unfold FiniteScaled at hv
  unfold floatToFp clamp
  have a : (fmt.signed && fmt.bits == 0) = false := by
    cases hs : fmt.signed <;> simp_all
  have b : ¬ (1024 ≤ fmt.frac) := by omega
  simp [a, b, hv]

theorem fp_ok_inv {fmt : Fmt} {v : Dy} {r : Int} (h : floatToFp fmt v = .ok r) :
    fmt.Ok ∧ FiniteScaled fmt v ∧ r = clamp fmt (truncScaled v.m (v.e + fmt.frac)) := by
  unfold floatToFp at h
  split at h
  · cases h
  · split at h
    · cases h
    · split at h
      · cases h
      · rename_i a b c
        injection h with h
        refine ⟨⟨?_, by omega⟩, ?_, h.symm⟩
        · intro ⟨x, y⟩; simp [x, y] at a
        · unfold FiniteScaled; simpa using c

theorem clamp_spec (fmt : Fmt) (v : Dy) (t : Int)
    (ht : IsTrunc t (scaledNum fmt v) (scaledDen fmt v)) : SpecFp fmt v (clamp fmt t) := by
  have hd : 0 < scaledDen fmt v := den_pos _
  have hM := maxV_nonneg fmt
  have hm := minV_nonpos fmt
  obtain ⟨a, b⟩ := ht
  unfold SpecFp clamp
  simp only
  generalize scaledNum fmt v = n at *
  generalize scaledDen fmt v = d at *
  generalize fmt.maxV = M at *
  generalize fmt.minV = m at *
  split
  · rename_i h
    have hn : 0 ≤ n := by nlinarith
    obtain ⟨x1, x2⟩ := a hn
    have : M + 1 < t + 1 := by nlinarith
    omega
  · split
    · rename_i h1 h
      have hn : n < 0 := by nlinarith
      obtain ⟨x1, x2⟩ := b hn
      have : t - 1 < m - 1 := by nlinarith
      omega
    · rename_i h1 h2
      rw [not_le] at h1 h2
      have : m ≤ t ∧ t ≤ M := by
        rcases lt_or_ge n 0 with hn | hn
        · obtain ⟨x1, x2⟩ := b hn
          have : m - 1 < t := by nlinarith
          have : t - 1 < 0 := by nlinarith
          omega
        · obtain ⟨x1, x2⟩ := a hn
          have : t < M + 1 := by nlinarith
          have : 0 < t + 1 := by nlinarith
          omega
      have e : max (min M t) m = t := by omega
      rw [e]; exact ⟨a, b⟩

/-- **Saturation formula.** -/
theorem fp_sat (fmt : Fmt) (v : Dy) (r : Int) (h : floatToFp fmt v = .ok r) : SpecFp fmt v r := by
  obtain ⟨_, _, rfl⟩ := fp_ok_inv h
  exact clamp_spec fmt v _ (tdiv_isTrunc _ _ (den_pos _))

theorem spec_unique (fmt : Fmt) (v : Dy) (r r' : Int) (h : SpecFp fmt v r) (h' : SpecFp fmt v r') : r = r' := by
  unfold SpecFp at h h'
  simp only at h h'
  split at h
  · rename_i c; rw [if_pos c] at h'; omega
  · rename_i c; rw [if_neg c] at h'
    split at h
    · rename_i c2; rw [if_pos c2] at h'; omega
    · rename_i c2; rw [if_neg c2] at h'
      exact isTrunc_unique (den_pos _) h h'

theorem spec_range (fmt : Fmt) (v : Dy) (r : Int) (h : SpecFp fmt v r) : fmt.minV ≤ r ∧ r ≤ fmt.maxV := by
  have := spec_unique fmt v r _ h (clamp_spec fmt v _ (tdiv_isTrunc _ _ (den_pos _)))
  have hM := maxV_nonneg fmt
  have hm := minV_nonpos fmt
  rw [this]; unfold clamp; omega

theorem fp_range (fmt : Fmt) (v : Dy) (r : Int) (h : floatToFp fmt v = .ok r) :
    fmt.minV ≤ r ∧ r ≤ fmt.maxV := spec_range fmt v r (fp_sat fmt v r h)

/-- **Within one LSB.** -/
theorem fp_lsb (fmt : Fmt) (v : Dy) (r : Int) (h : floatToFp fmt v = .ok r)
    (hlo : fmt.minV * scaledDen fmt v ≤ scaledNum fmt v)
    (hhi : scaledNum fmt v ≤ fmt.maxV * scaledDen fmt v) :
    -(scaledDen fmt v) < scaledNum fmt v - r * scaledDen fmt v ∧
      scaledNum fmt v - r * scaledDen fmt v < scaledDen fmt v := by
  have hs := fp_sat fmt v r h
  have hd : 0 < scaledDen fmt v := den_pos _
  unfold SpecFp at hs
  simp only at hs
  rw [if_neg (by nlinarith), if_neg (by nlinarith)] at hs
  obtain ⟨a, b⟩ := hs
  rcases lt_or_ge (scaledNum fmt v) 0 with hn | hn
  · obtain ⟨x1, x2⟩ := b hn
    constructor <;> nlinarith
  · obtain ⟨x1, x2⟩ := a hn
    constructor <;> nlinarith

/-- **Monotone.** -/
theorem fp_mono (fmt : Fmt) (v w : Dy) (r r' : Int) (hle : Dy.le v w)
    (h : floatToFp fmt v = .ok r) (h' : floatToFp fmt w = .ok r') : r ≤ r' := by
  obtain ⟨_, _, rfl⟩ := fp_ok_inv h
  obtain ⟨_, _, rfl⟩ := fp_ok_inv h'
  have t1 := tdiv_isTrunc (num v.m (v.e + fmt.frac)) _ (den_pos (v.e + fmt.frac))
  have t2 := tdiv_isTrunc (num w.m (w.e + fmt.frac)) _ (den_pos (w.e + fmt.frac))
  have := isTrunc_mono (den_pos _) (den_pos _) ((cross_iff_le v w fmt.frac).mpr hle) t1 t2
  unfold clamp truncScaled
  omega

theorem exact53_of_small (k : Int) (h : k.natAbs ≤ 2 ^ 53) : Exact53 k := by
  unfold Exact53 round53Val
  rcases Nat.lt_or_ge k.natAbs (2 ^ 53) with h1 | h1
  · rw [round53_small k h1]; simp
  · have : k.natAbs = 2 ^ 53 := by omega
    rcases Int.natAbs_eq k with e | e <;> rw [this] at e <;> rw [e] <;> decide


/-- `2.0**(-n_frac)` exists, and `k` and `k * 2^-frac` are finite as doubles (no overflow in `fp_to_float`) -/
def InverseDomain (fmt : Fmt) (k : Int) : Prop :=
  -1024 < fmt.frac ∧ magLt k 0 1024 = true ∧ magLt k (-fmt.frac) 1024 = true

theorem tdiv_one' (a : Int) : a.tdiv 1 = a := by simp

/-- **Inverse.** every in-range fixed-point value that a double holds exactly survives
`fp_to_float` followed by `float_to_fp` unchanged. -/
theorem fp_inverse (fmt : Fmt) (k : Int) (hf : fmt.Ok) (hlo : fmt.minV ≤ k) (hhi : k ≤ fmt.maxV)
    (hex : Exact53 k) (hdom : InverseDomain fmt k) :
    ∃ d, fpToFloat fmt.frac k = .ok (.fin d) ∧ floatToFp fmt d = .ok k := by
  obtain ⟨hfl, hk0, hkf⟩ := hdom
  unfold Exact53 round53Val at hex
  have hfr : fmt.frac < 1024 := hf.2
  -- value of round53 k
  have hse : 0 ≤ (round53 k).e := by unfold round53; dsimp only; omega
  generalize hr : round53 k = r at hex hse
  have hq : (r.m : ℚ) * (2 : ℚ) ^ r.e = (k : ℚ) := by
    have : ((r.m * 2 ^ r.e.toNat : Int) : ℚ) = (k : ℚ) := by rw [hex]
    rw [← this]; push_cast
    rw [← zpow_natCast (2 : ℚ) r.e.toNat, Int.toNat_of_nonneg hse]
  have habs : |(r.m : ℚ)| * (2 : ℚ) ^ r.e = |(k : ℚ)| := by
    rw [← hq, abs_mul, abs_of_pos (show (0 : ℚ) < (2 : ℚ) ^ r.e by positivity)]
  have m1 : magLt r.m r.e 1024 = true := by
    rw [magLt_iff, habs]; have := (magLt_iff k 0 1024).mp hk0; simpa using this
  have m2 : magLt r.m (r.e + -fmt.frac) 1024 = true := by
    rw [magLt_iff, zpow_add₀ (by norm_num), ← mul_assoc, habs]
    exact (magLt_iff k (-fmt.frac) 1024).mp hkf
  have e1 : fpToFloat fmt.frac k = .ok (toDouble r.m (r.e + -fmt.frac)) := by
    unfold fpToFloat pow2f intToDouble
    have a : ¬ (1024 ≤ -fmt.frac) := by omega
    have b : ¬ (-fmt.frac < -1074) := by omega
    simp only [a, b, if_false, hr, m1, if_true, bind, Except.bind, pure, Except.pure, mulScale]
  by_cases hm : r.m = 0
  · -- k = 0
    have hk : k = 0 := by rw [← hex, hm]; simp
    refine ⟨⟨0, 0⟩, ?_, ?_⟩
    · rw [e1]; unfold toDouble; simp [hm]
    · have hv : FiniteScaled fmt ⟨0, 0⟩ := by
        unfold FiniteScaled; rw [magLt_iff]; simp
      rw [fp_total fmt _ hf hv, hk]
      have : truncScaled 0 (0 + fmt.frac) = 0 := by
        unfold truncScaled num; split <;> simp
      simp only [this]
      have : clamp fmt 0 = 0 := by unfold clamp; omega
      rw [this]
  · refine ⟨⟨r.m, r.e + -fmt.frac⟩, ?_, ?_⟩
    · rw [e1]; unfold toDouble
      have c : -1074 ≤ r.e + -fmt.frac := by omega
      simp [hm, m2, c]
    · have hv : FiniteScaled fmt ⟨r.m, r.e + -fmt.frac⟩ := by
        unfold FiniteScaled
        have : r.e + -fmt.frac + fmt.frac = r.e := by omega
        simp only [this, m1]
      rw [fp_total fmt _ hf hv]
      have e : r.e + -fmt.frac + fmt.frac = r.e := by omega
      have : truncScaled r.m (r.e + -fmt.frac + fmt.frac) = k := by
        simp only [e]
        unfold truncScaled num den
        simp only [hse, if_true, tdiv_one', hex]
      simp only [this]
      have : clamp fmt k = k := by unfold clamp; omega
      rw [this]

instance (f : Fmt) : Decidable f.Ok := by unfold Fmt.Ok; infer_instance
instance (f : Fmt) (k : Int) : Decidable (InverseDomain f k) := by unfold InverseDomain; infer_instance

example : (⟨true, 64, 32⟩ : Fmt).Ok ∧ (⟨true, 64, 32⟩ : Fmt).minV ≤ 2 ^ 40 + 1 ∧
    (2 ^ 40 + 1 : Int) ≤ (⟨true, 64, 32⟩ : Fmt).maxV ∧ Exact53 (2 ^ 40 + 1) ∧
    InverseDomain ⟨true, 64, 32⟩ (2 ^ 40 + 1) := by decide +kernel

/-- beyond 53 significant bits the round trip is impossible: `2^53 + 1` in the signed 64-bit
integer format comes back as `2^53` (known finding `inverse-beyond-2^53`) -/
theorem inverse_counterexample :
    (fpToFloat 0 (2 ^ 53 + 1) >>= fun x => match x with
      | .fin d => floatToFp ⟨true, 64, 0⟩ d
      | .inf _ => .error .overflowInt) = .ok (2 ^ 53) ∧
    (⟨true, 64, 0⟩ : Fmt).minV ≤ 2 ^ 53 + 1 ∧ (2 ^ 53 + 1 : Int) ≤ (⟨true, 64, 0⟩ : Fmt).maxV ∧
    ¬ Exact53 (2 ^ 53 + 1) := by decide +kernel

end Rig.C16
