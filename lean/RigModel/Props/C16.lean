/-
C16 - fixed-point conversion saturates, is monotone and inverts exactly.
Property theorems about the model RigModel/Model/C16.lean.  Helper lemmas and the definitions of
the hypotheses (`Fmt.Ok`, `FiniteScaled`, `InverseDomain`, `IsDouble`, `ArrayDomain`, `FixOk`,
`clamp`) are in Lemmas/C16.lean.  The specification predicates (`SpecFp`, `SpecFix`, `SpecMono`,
`Exact53`, in the model file) are the ones the harness evaluates on the implementation's outputs.

What the argument is:  every theorem is about the REAL NUMBER the argument denotes, the exact dyadic
rational `v.toRat = m * 2^e` (`specFp_iff_rat` reads the rule over the rationals) - not about the
Python / NumPy type that carries it.  A python float, a NumPy float16 / float32 / float64 scalar, an
exactly representable int or Fraction, or an element of an array of any float dtype that denote the same
number must convert to the same result (the harness sends the exact (m, e) of whatever object it passes;
`IsDouble` / `|m| < 2^p` only bound the significand).  Likewise the integer arguments of the to-float
direction are the integers the word denotes, whatever NumPy integer type holds it.

Reading guide:  v = (m, e) is the double m * 2^e;  scaledNum / scaledDen is the exact scaled value
v * 2^n_frac as a fraction;  `floatToFp` = float_to_fp, `npFloatToFix` = NumpyFloatToFixConverter
(pinned code), `npFloatToFixRepaired` (after fixes/c16-saturate-64bit.diff), `floatToFix` =
deprecated float_to_fix, `fixToFloat` = deprecated fix_to_float, `fpToFloat` = fp_to_float.
-/
import RigModel.Lemmas.C16
set_option linter.unusedSimpArgs false
set_option linter.unusedVariables false

namespace Rig.C16
open Rig.Gen.TypeCasts

/-- the generated dtype table covers exactly the accepted widths, signed -> intN, unsigned -> uintN -/
theorem dtypes_cover :
    npBits = [8, 16, 32, 64] ∧
    dtypeTable.map (fun t => (t.1, t.2.1)) = npBits.flatMap (fun b => [(false, b), (true, b)]) ∧
    (∀ t ∈ dtypeTable, t.2.2 = (if t.1 then "int" else "uint") ++ toString t.2.1) := by
  decide

theorem fp_total (fmt : Fmt) (v : Dy) (hf : fmt.Ok) (hv : FiniteScaled fmt v) :
    floatToFp fmt v = .ok (clamp fmt (truncScaled v.m (v.e + fmt.frac))) := by
  obtain ⟨h1, h2⟩ := hf
  unfold FiniteScaled at hv
  unfold floatToFp clamp
  have a : (fmt.signed && fmt.bits == 0) = false := by
    cases hs : fmt.signed <;> simp_all
  have b : ¬ (1024 ≤ fmt.frac) := by omega
  simp [a, b, hv]

/-- **Saturation formula.** -/
theorem fp_sat (fmt : Fmt) (v : Dy) (r : Int) (h : floatToFp fmt v = .ok r) : SpecFp fmt v r := by
  obtain ⟨_, _, rfl⟩ := fp_ok_inv h
  exact clamp_spec fmt v _ (tdiv_isTrunc _ _ (den_pos _))

theorem spec_unique (fmt : Fmt) (v : Dy) (r r' : Int) (h : SpecFp fmt v r) (h' : SpecFp fmt v r') : r = r' := by
  unfold SpecFp at h h'
  simp only at h h'
  split at h
  · rename_i c; rw [if_pos c] at h'; omega
  · rename_i c; rw [if_neg c] at h'
    split at h
    · rename_i c2; rw [if_pos c2] at h'; omega
    · rename_i c2; rw [if_neg c2] at h'
      exact isTrunc_unique (den_pos _) h h'

theorem spec_range (fmt : Fmt) (v : Dy) (r : Int) (h : SpecFp fmt v r) : fmt.minV ≤ r ∧ r ≤ fmt.maxV := by
  have := spec_unique fmt v r _ h (clamp_spec fmt v _ (tdiv_isTrunc _ _ (den_pos _)))
  have hM := maxV_nonneg fmt
  have hm := minV_nonpos fmt
  rw [this]; unfold clamp; omega

theorem fp_range (fmt : Fmt) (v : Dy) (r : Int) (h : floatToFp fmt v = .ok r) :
    fmt.minV ≤ r ∧ r ≤ fmt.maxV := spec_range fmt v r (fp_sat fmt v r h)

/-- **Within one LSB.** -/
theorem fp_lsb (fmt : Fmt) (v : Dy) (r : Int) (h : floatToFp fmt v = .ok r)
    (hlo : fmt.minV * scaledDen fmt v ≤ scaledNum fmt v)
    (hhi : scaledNum fmt v ≤ fmt.maxV * scaledDen fmt v) :
    -(scaledDen fmt v) < scaledNum fmt v - r * scaledDen fmt v ∧
      scaledNum fmt v - r * scaledDen fmt v < scaledDen fmt v := by
  have hs := fp_sat fmt v r h
  have hd : 0 < scaledDen fmt v := den_pos _
  unfold SpecFp at hs
  simp only at hs
  rw [if_neg (by nlinarith), if_neg (by nlinarith)] at hs
  obtain ⟨a, b⟩ := hs
  rcases lt_or_ge (scaledNum fmt v) 0 with hn | hn
  · obtain ⟨x1, x2⟩ := b hn
    constructor <;> nlinarith
  · obtain ⟨x1, x2⟩ := a hn
    constructor <;> nlinarith

/-- **Monotone.** -/
theorem fp_mono (fmt : Fmt) (v w : Dy) (r r' : Int) (hle : Dy.le v w)
    (h : floatToFp fmt v = .ok r) (h' : floatToFp fmt w = .ok r') : r ≤ r' := by
  obtain ⟨_, _, rfl⟩ := fp_ok_inv h
  obtain ⟨_, _, rfl⟩ := fp_ok_inv h'
  have t1 := tdiv_isTrunc (num v.m (v.e + fmt.frac)) _ (den_pos (v.e + fmt.frac))
  have t2 := tdiv_isTrunc (num w.m (w.e + fmt.frac)) _ (den_pos (w.e + fmt.frac))
  have := isTrunc_mono (den_pos _) (den_pos _) ((cross_iff_le v w fmt.frac).mpr hle) t1 t2
  unfold clamp truncScaled
  omega

theorem exact53_of_small (k : Int) (h : k.natAbs ≤ 2 ^ 53) : Exact53 k := by
  unfold Exact53 round53Val
  rcases Nat.lt_or_ge k.natAbs (2 ^ 53) with h1 | h1
  · rw [round53_small k h1]; simp
  · have : k.natAbs = 2 ^ 53 := by omega
    rcases Int.natAbs_eq k with e | e <;> rw [this] at e <;> rw [e] <;> decide

/-- **Inverse.** every in-range fixed-point value that a double holds exactly survives
`fp_to_float` followed by `float_to_fp` unchanged. -/
theorem fp_inverse (fmt : Fmt) (k : Int) (hf : fmt.Ok) (hlo : fmt.minV ≤ k) (hhi : k ≤ fmt.maxV)
    (hex : Exact53 k) (hdom : InverseDomain fmt k) :
    ∃ d, fpToFloat fmt.frac k = .ok (.fin d) ∧ floatToFp fmt d = .ok k := by
  obtain ⟨hfl, hk0, hkf⟩ := hdom
  unfold Exact53 round53Val at hex
  have hfr : fmt.frac < 1024 := hf.2
  -- value of round53 k
  have hse : 0 ≤ (round53 k).e := by unfold round53; dsimp only; omega
  generalize hr : round53 k = r at hex hse
  have hq : (r.m : ℚ) * (2 : ℚ) ^ r.e = (k : ℚ) := by
    have : ((r.m * 2 ^ r.e.toNat : Int) : ℚ) = (k : ℚ) := by rw [hex]
    rw [← this]; push_cast
    rw [← zpow_natCast (2 : ℚ) r.e.toNat, Int.toNat_of_nonneg hse]
  have habs : |(r.m : ℚ)| * (2 : ℚ) ^ r.e = |(k : ℚ)| := by
    rw [← hq, abs_mul, abs_of_pos (show (0 : ℚ) < (2 : ℚ) ^ r.e by positivity)]
  have m1 : magLt r.m r.e 1024 = true := by
    rw [magLt_iff, habs]; have := (magLt_iff k 0 1024).mp hk0; simpa using this
  have m2 : magLt r.m (r.e + -fmt.frac) 1024 = true := by
    rw [magLt_iff, zpow_add₀ (by norm_num), ← mul_assoc, habs]
    exact (magLt_iff k (-fmt.frac) 1024).mp hkf
  have e1 : fpToFloat fmt.frac k = .ok (toDouble r.m (r.e + -fmt.frac)) := by
    unfold fpToFloat pow2f intToDouble
    have a : ¬ (1024 ≤ -fmt.frac) := by omega
    have b : ¬ (-fmt.frac < -1074) := by omega
    simp only [a, b, if_false, hr, m1, if_true, bind, Except.bind, pure, Except.pure, mulScale]
  by_cases hm : r.m = 0
  · -- k = 0
    have hk : k = 0 := by rw [← hex, hm]; simp
    refine ⟨⟨0, 0⟩, ?_, ?_⟩
    · rw [e1]; unfold toDouble; simp [hm]
    · have hv : FiniteScaled fmt ⟨0, 0⟩ := by
        unfold FiniteScaled; rw [magLt_iff]; simp
      rw [fp_total fmt _ hf hv, hk]
      have : truncScaled 0 (0 + fmt.frac) = 0 := by
        unfold truncScaled num; split <;> simp
      simp only [this]
      have : clamp fmt 0 = 0 := by unfold clamp; omega
      rw [this]
  · refine ⟨⟨r.m, r.e + -fmt.frac⟩, ?_, ?_⟩
    · rw [e1]; unfold toDouble
      have c : -1074 ≤ r.e + -fmt.frac := by omega
      simp [hm, m2, c]
    · have hv : FiniteScaled fmt ⟨r.m, r.e + -fmt.frac⟩ := by
        unfold FiniteScaled
        have : r.e + -fmt.frac + fmt.frac = r.e := by omega
        simp only [this, m1]
      rw [fp_total fmt _ hf hv]
      have e : r.e + -fmt.frac + fmt.frac = r.e := by omega
      have : truncScaled r.m (r.e + -fmt.frac + fmt.frac) = k := by
        simp only [e]
        unfold truncScaled num den
        simp only [hse, if_true, tdiv_one', hex]
      simp only [this]
      have : clamp fmt k = k := by unfold clamp; omega
      rw [this]

example : (⟨true, 64, 32⟩ : Fmt).Ok ∧ (⟨true, 64, 32⟩ : Fmt).minV ≤ 2 ^ 40 + 1 ∧
    (2 ^ 40 + 1 : Int) ≤ (⟨true, 64, 32⟩ : Fmt).maxV ∧ Exact53 (2 ^ 40 + 1) ∧
    InverseDomain ⟨true, 64, 32⟩ (2 ^ 40 + 1) := by decide +kernel

/-- beyond 53 significant bits the round trip is impossible: `2^53 + 1` in the signed 64-bit
integer format comes back as `2^53` (known finding `inverse-beyond-2^53`) -/
theorem inverse_counterexample :
    (fpToFloat 0 (2 ^ 53 + 1) >>= fun x => match x with
      | .fin d => floatToFp ⟨true, 64, 0⟩ d
      | .inf _ => .error .overflowInt) = .ok (2 ^ 53) ∧
    (⟨true, 64, 0⟩ : Fmt).minV ≤ 2 ^ 53 + 1 ∧ (2 ^ 53 + 1 : Int) ≤ (⟨true, 64, 0⟩ : Fmt).maxV ∧
    ¬ Exact53 (2 ^ 53 + 1) := by decide +kernel

/-- **Array = scalar (8, 16 and 32 bits).** The NumPy converter (scale, clip in floating point,
cast) returns, for every element, exactly what `float_to_fp` returns. -/
theorem array_eq_scalar (fmt : Fmt) (v : Dy) (h : ArrayDomain fmt v) (hb : fmt.bits ≠ 64) :
    npFloatToFix fmt v = (floatToFp fmt v).map Cast.val := by
  obtain ⟨d, hd, ht⟩ := toDouble_trunc v.m (v.e + fmt.frac) h.finite h.double
  rw [fp_total fmt v h.fmtOk h.finite]
  unfold npFloatToFix
  rw [np_unfold false fmt v h, hd, npBody_pinned fmt d h.width (fun h64 => absurd h64 hb), ht]
  rfl

/-- **Array = scalar, 64 bits, pinned code:** holds for every element whose truncated scaled
value does not exceed the maximum, i.e. strictly below the rounded clip bound `float(2^63-1) = 2^63`. -/
theorem array64_eq_scalar_below_bound (fmt : Fmt) (v : Dy) (h : ArrayDomain fmt v)
    (hlt : truncScaled v.m (v.e + fmt.frac) ≤ fmt.maxV) :
    npFloatToFix fmt v = (floatToFp fmt v).map Cast.val := by
  obtain ⟨d, hd, ht⟩ := toDouble_trunc v.m (v.e + fmt.frac) h.finite h.double
  rw [fp_total fmt v h.fmtOk h.finite]
  unfold npFloatToFix
  rw [np_unfold false fmt v h, hd, npBody_pinned fmt d h.width (fun _ => by rw [ht]; exact hlt), ht]
  rfl

/-- **The 64-bit saturation defect of the pinned code (F9):** every element whose scaled value
reaches `max + 1` is clipped to `float(max) = max + 1` and then cast out of range (observed
on x86-64: `-2^63` for int64, `0` for uint64), while `float_to_fp` saturates at `max`. -/
theorem array64_defect_all (fmt : Fmt) (v : Dy) (h : ArrayDomain fmt v) (h64 : fmt.bits = 64)
    (hgt : fmt.maxV < truncScaled v.m (v.e + fmt.frac)) :
    npFloatToFix fmt v = .ok .unspecified ∧ floatToFp fmt v = .ok fmt.maxV := by
  obtain ⟨d, hd, ht⟩ := toDouble_trunc v.m (v.e + fmt.frac) h.finite h.double
  constructor
  · unfold npFloatToFix
    rw [np_unfold false fmt v h, hd, npBody_pinned_overflow fmt d h.width h64 (by rw [ht]; exact hgt)]
  · rw [fp_total fmt v h.fmtOk h.finite]
    have hm := minV_nonpos fmt
    have hM := maxV_nonneg fmt
    unfold clamp
    have e : max (min fmt.maxV (truncScaled v.m (v.e + fmt.frac))) fmt.minV = fmt.maxV := by omega
    rw [e]

/-- concrete instance: 1e30-like value `2^100` in the signed and unsigned 64-bit integer formats -/
theorem array64_defect :
    npFloatToFix ⟨true, 64, 0⟩ ⟨1, 100⟩ = .ok .unspecified ∧
    floatToFp ⟨true, 64, 0⟩ ⟨1, 100⟩ = .ok (2 ^ 63 - 1) ∧
    npFloatToFix ⟨false, 64, 0⟩ ⟨1, 100⟩ = .ok .unspecified ∧
    floatToFp ⟨false, 64, 0⟩ ⟨1, 100⟩ = .ok (2 ^ 64 - 1) := by decide +kernel

/-- **Array = scalar for every supported width (8, 16, 32, 64) for the repaired code**
(fixes/c16-saturate-64bit.diff). -/
theorem array_eq_scalar_repaired (fmt : Fmt) (v : Dy) (h : ArrayDomain fmt v) :
    npFloatToFixRepaired fmt v = (floatToFp fmt v).map Cast.val := by
  obtain ⟨d, hd, ht⟩ := toDouble_trunc v.m (v.e + fmt.frac) h.finite h.double
  rw [fp_total fmt v h.fmtOk h.finite]
  unfold npFloatToFixRepaired
  rw [np_unfold true fmt v h, hd, npBody_repaired fmt d h.width, ht]
  rfl

/-- **The deprecated converter never trips its assertion** and returns an unsigned word. -/
theorem deprecated_no_assert (rep : Bool) (fmt : Fmt) (v : Dy) (h : FixOk fmt) :
    ∃ w, floatToFixG rep fmt v = .ok w ∧ 0 ≤ w ∧ w < 2 ^ fmt.bits := by
  have hp : (0 : Int) < 2 ^ fmt.bits := by positivity
  exact ⟨_, fix_closed rep fmt v h, Int.emod_nonneg _ (by omega), Int.emod_lt_of_pos _ hp⟩

/-- **Deprecated = two's complement.** Whenever the float bound of `validate_fp_params` is exact
(at most 53 integer bits), `float_to_fix` returns `float_to_fp` modulo `2^n_bits`. -/
theorem deprecated_twos_complement (fmt : Fmt) (v : Dy) (h : FixOk fmt) (h53 : nInt fmt ≤ 53)
    (hv : FiniteScaled fmt v) :
    floatToFix fmt v = (floatToFp fmt v).map (· % 2 ^ fmt.bits) := by
  obtain ⟨f1, f2, f3, f4⟩ := bound_facts (nInt fmt)
  obtain ⟨e1, e2⟩ := maxV_eq fmt h.bits1
  rw [fp_total fmt v h.fmtOk hv]
  unfold floatToFix
  rw [fix_closed false fmt v h]
  simp only [Bool.false_eq_true, if_false]
  rw [f4 h53, ← e1]
  rfl

/-- for the repaired code the same holds for every width the constructor accepts
(`FixOk`: n_int <= 1023; from n_int = 1024 on `validate_fp_params` raises OverflowError) -/
theorem deprecated_twos_complement_repaired (fmt : Fmt) (v : Dy) (h : FixOk fmt)
    (hv : FiniteScaled fmt v) :
    floatToFixRepaired fmt v = (floatToFp fmt v).map (· % 2 ^ fmt.bits) := by
  obtain ⟨f1, f2, f3, f4⟩ := bound_facts (nInt fmt)
  obtain ⟨e1, e2⟩ := maxV_eq fmt h.bits1
  have hm := minV_nonpos fmt
  have hM := maxV_nonneg fmt
  rw [fp_total fmt v h.fmtOk hv]
  unfold floatToFixRepaired
  rw [fix_closed true fmt v h]
  simp only [if_true]
  unfold clamp
  generalize truncScaled v.m (v.e + fmt.frac) = T
  have : min (max (min (round53 (2 ^ nInt fmt - 1)).intVal T) fmt.minV) fmt.maxV
      = max (min fmt.maxV T) fmt.minV := by omega
  rw [this]; rfl

/-- the defect of the pinned deprecated converter (F9): a large value in the signed 64-bit format
comes out as the word `2^63` (= -2^63) although `float_to_fp` saturates at `2^63 - 1` -/
theorem deprecated64_defect :
    floatToFix ⟨true, 64, 0⟩ ⟨1, 100⟩ = .ok (2 ^ 63) ∧
    floatToFp ⟨true, 64, 0⟩ ⟨1, 100⟩ = .ok (2 ^ 63 - 1) ∧
    floatToFix ⟨false, 64, 0⟩ ⟨1, 100⟩ = .ok 0 ∧
    floatToFp ⟨false, 64, 0⟩ ⟨1, 100⟩ = .ok (2 ^ 64 - 1) ∧
    ¬ SpecFix ⟨true, 64, 0⟩ ⟨1, 100⟩ (2 ^ 63) := by decide +kernel

/-- the deprecated constructors beyond the accepted range: OverflowError (n_int >= 1024) -/
theorem deprecated_wide_rejected :
    validate ⟨false, 1024, 0⟩ = .error .overflowFloat ∧ validate ⟨true, 1025, 3⟩ = .error .overflowFloat ∧
    (validate ⟨true, 1024, 1023⟩).toBool = true ∧ (validate ⟨false, 1023, 0⟩).toBool = true := by
  decide +kernel

/-- wide formats satisfy the hypotheses (128-bit S63.64, 1023-bit unsigned) -/
example : FixOk ⟨true, 128, 64⟩ ∧ FixOk ⟨false, 1023, 1000⟩ ∧ FiniteScaled ⟨true, 128, 64⟩ ⟨1, 100⟩ :=
  ⟨⟨by decide, by decide, by decide, by decide⟩, ⟨by decide, by decide, by decide, by decide⟩, by decide +kernel⟩

example : FixOk ⟨true, 16, 5⟩ ∧ nInt ⟨true, 16, 5⟩ ≤ 53 ∧ FiniteScaled ⟨true, 16, 5⟩ ⟨-12345, -7⟩ :=
  ⟨⟨by decide, by decide, by decide, by decide⟩, by decide, by decide +kernel⟩

/-- **Deprecated `fix_to_float` = `fp_to_float` on the two's-complement reading of the word.** -/
theorem fix_to_float_eq (fmt : Fmt) (w : Nat) (h : FixOk fmt) (hw : w < 2 ^ fmt.bits) :
    fixToFloat fmt w = fpToFloat fmt.frac (ofWord fmt w) := by
  have hb := h.bits1
  have hv : (if (fmt.signed && w.testBit (fmt.bits - 1)) = true then (w : Int) - 2 ^ fmt.bits else w)
      = ofWord fmt w := by
    unfold ofWord
    have hs : fmt.bits - 1 + 1 = fmt.bits := by omega
    by_cases hge : 2 ^ (fmt.bits - 1) ≤ w
    · have ht : w.testBit (fmt.bits - 1) = true :=
        Nat.testBit_of_two_pow_le_and_two_pow_add_one_gt hge (by rw [hs]; exact hw)
      have hge' : (2 : Int) ^ (fmt.bits - 1) ≤ (w : Int) := by exact_mod_cast hge
      cases fmt.signed <;> simp [ht, hge']
    · have ht : w.testBit (fmt.bits - 1) = false := Nat.testBit_lt_two_pow (by omega)
      have hge' : ¬ (2 : Int) ^ (fmt.bits - 1) ≤ (w : Int) := by
        intro hc; apply hge; exact_mod_cast hc
      cases fmt.signed <;> simp [ht, hge']
  have a : ¬ (1024 ≤ -fmt.frac) := by have := h.frac0; omega
  have b : ¬ (-fmt.frac < -1074) := by
    have h1 := h.fracLe; have hb := h.bitsLe
    cases hs : fmt.signed <;> simp [hs] at h1 hb <;> omega
  unfold fixToFloat fpToFloat pow2f
  rw [validate_ok fmt h]
  simp only [bind, Except.bind, a, b, if_false, hv, mulScale]
  simp only [Int.sub_eq_add_neg]

example : FixOk ⟨true, 8, 4⟩ ∧ (0xf8 : Nat) < 2 ^ (⟨true, 8, 4⟩ : Fmt).bits ∧
    fixToFloat ⟨true, 8, 4⟩ 0xf8 = .ok (.fin ⟨-8, -4⟩) :=
  ⟨⟨by decide, by decide, by decide, by decide⟩, by decide, by decide +kernel⟩

/-- **The executable rule `SpecFp` read over the rationals:** with `x = v * 2^n_frac`,
`r = max` when `x >= max + 1`, `r = min` when `x <= min - 1`, otherwise `r` is `x` truncated
toward zero (`r <= x < r + 1` for `x >= 0`, `r - 1 < x <= r` for `x < 0`). -/
theorem specFp_iff_rat (fmt : Fmt) (v : Dy) (r : Int) :
    SpecFp fmt v r ↔
      (let x := scaledRat fmt v
       if ((fmt.maxV + 1 : Int) : ℚ) ≤ x then r = fmt.maxV
       else if x ≤ ((fmt.minV - 1 : Int) : ℚ) then r = fmt.minV
       else (0 ≤ x → (r : ℚ) ≤ x ∧ x < ((r + 1 : Int) : ℚ)) ∧ (x < 0 → ((r - 1 : Int) : ℚ) < x ∧ x ≤ (r : ℚ))) := by
  have hd : 0 < scaledDen fmt v := den_pos (v.e + fmt.frac)
  have hn := scaledNum_rat fmt v
  unfold SpecFp IsTrunc
  simp only
  have z1 : (0 ≤ scaledNum fmt v) ↔ (0 : ℚ) ≤ scaledRat fmt v := by
    have := cast_cmp_le 0 _ _ _ hd hn; simpa using this
  have z2 : (scaledNum fmt v < 0) ↔ scaledRat fmt v < (0 : ℚ) := by
    have := cast_cmp_lt' 0 _ _ _ hd hn; simpa using this
  simp only [cast_cmp_le _ _ _ _ hd hn, cast_cmp_le' _ _ _ _ hd hn, cast_cmp_lt' _ _ _ _ hd hn,
    cast_cmp_lt _ _ _ _ hd hn, z1, z2]

/-! non-vacuity of the hypotheses of fp_sat / fp_range / fp_lsb / fp_mono: concrete conversions in
the S3.4 format (0.5 -> 8, -0.51 -> -8, 100 -> 127) that are in range resp. ordered -/
example : floatToFp ⟨true, 8, 4⟩ ⟨1, -1⟩ = .ok 8 ∧ floatToFp ⟨true, 8, 4⟩ ⟨-131, -8⟩ = .ok (-8) ∧
    floatToFp ⟨true, 8, 4⟩ ⟨25, 2⟩ = .ok 127 ∧ Dy.le ⟨-131, -8⟩ ⟨1, -1⟩ ∧
    (⟨true, 8, 4⟩ : Fmt).minV * scaledDen ⟨true, 8, 4⟩ ⟨-131, -8⟩ ≤ scaledNum ⟨true, 8, 4⟩ ⟨-131, -8⟩ ∧
    scaledNum ⟨true, 8, 4⟩ ⟨-131, -8⟩ ≤ (⟨true, 8, 4⟩ : Fmt).maxV * scaledDen ⟨true, 8, 4⟩ ⟨-131, -8⟩ ∧
    (⟨true, 8, 4⟩ : Fmt).Ok ∧ FiniteScaled ⟨true, 8, 4⟩ ⟨-131, -8⟩ := by decide +kernel

end Rig.C16
