/-
C19 - SpiNN-5 board geometry functions agree with the board tiling.
-/
import RigModel.Model.C19
set_option linter.unusedSimpArgs false
set_option linter.unusedVariables false

namespace Rig.C19
open Rig.Gen.Spinn5

/-- the generated offset table is 12 x 12 -/
theorem table_shape : ethOffset.length = 12 ∧ ∀ row ∈ ethOffset, row.length = 12 := by
  decide

end Rig.C19
