/-
C19 - SpiNN-5 board geometry functions agree with the board tiling.

Property theorems only; proofs are by reference to RigModel/Lemmas/C19.lean.
The independent description (hand-written in RigModel/Model/C19.lean):
  board    `InBoard b`  :  0 ≤ x,y ≤ 7, x - y ≤ 4, y - x ≤ 3           (48 chips)
  lattice  `IsEth p`    :  p ∈ {(0,0), (4,8), (8,4)} + 12 Z²
  `IsEthAt root e`      :  e - root is a lattice point
  `OnBoard root e c`    :  e is an Ethernet chip and c - e is a board chip
The tables `ethOffset`, `fpgaLinks`, `ethTriple`, `links` are regenerated from
rig/geometry.py and rig/links.py on every run (RigModel/Gen/Spinn5.lean).
-/
import RigModel.Lemmas.C19
set_option linter.unusedSimpArgs false
set_option linter.unusedVariables false

namespace Rig.C19
open Rig.Gen.Spinn5

/-! ## The generated tables against the independent description (finite, `decide`) -/

/-- the generated offset table is 12 x 12 -/
theorem table_shape : ethOffset.length = 12 ∧ ∀ row ∈ ethOffset, row.length = 12 := by
  decide

/-- every one of the 144 cells: the offset leads to a lattice point and its negation is a
board chip -/
theorem table_cells (i j : Int) (hi : 0 ≤ i ∧ i < 12) (hj : 0 ≤ j ∧ j < 12) :
    ∃ d, offAt i j = .ok d ∧ IsEth (i + d.1, j + d.2) ∧ InBoard (-d.1, -d.2) :=
  offAt_spec i j hi.1 hi.2 hj.1 hj.2

/-- the hand-written board has 48 chips; `boardChips` enumerates it -/
theorem board_has_48_chips : boardChips.length = 48 ∧ ∀ b, b ∈ boardChips ↔ InBoard b :=
  ⟨boardChips_length, mem_boardChips⟩

/-- `Links`: values 0..5, `to_vector` is the documented direction, `opposite` is `(l+3)%6`
and reverses the vector -/
theorem links_documented : links.map (·.2.1) = [0, 1, 2, 3, 4, 5] ∧
    (∀ l ∈ [(0 : Int), 1, 2, 3, 4, 5], linkVec l = dirVec l) ∧
    (∀ e ∈ links, e.2.2.2 = (e.2.1 + 3) % 6 ∧ linkVec e.2.2.2 = some (-e.2.2.1.1, -e.2.2.1.2)) :=
  links_ok

/-- the literal iterated by `spinn5_eth_coords` is the lattice basis (in any order) -/
theorem eth_triple_documented : ethTriple.Perm [(0, 0), (4, 8), (8, 4)] := ethTriple_perm

/-! ## The tiling of the plane is exact (no table involved in uniqueness) -/

/-- a chip lies on at most one board, for every root -/
theorem tile_unique (root e e' c : Pt) (h1 : OnBoard root e c) (h2 : OnBoard root e' c) : e = e' :=
  onBoard_unique root e e' c h1 h2

/-- `spinn5_chip_coord` returns the chip's offset `b` from an Ethernet chip whose board
contains the chip: "the reported on-board coordinate is its offset from that chip" -/
theorem chip_coord_is_offset (x y rx ry : Int) :
    ∃ b, chipCoord x y rx ry = .ok b ∧ OnBoard (rx, ry) (x - b.1, y - b.2) (x, y) :=
  chip_coord_plane x y rx ry

/-- every chip lies on some board, for every root -/
theorem tile_cover (root c : Pt) : ∃ e, OnBoard root e c := by
  obtain ⟨b, _, h⟩ := chip_coord_plane c.1 c.2 root.1 root.2
  exact ⟨_, h⟩

/-! ## spinn5_local_eth_coord / spinn5_chip_coord -/

/-- **Main.** For all chips, roots and positive widths/heights (ragged included) both
functions succeed and satisfy the specification `SpecLocal`. -/
theorem local_eth_spec (x y w h rx ry : Int) (hw : 0 < w) (hh : 0 < h) :
    ∃ e b, localEthCoord x y w h rx ry = .ok e ∧ chipCoord x y rx ry = .ok b ∧
      SpecLocal (rx, ry) (x, y) w h e b :=
  local_eth_spec' x y w h rx ry hw hh

/-- the specification determines both answers (so it is a complete oracle) -/
theorem spec_local_unique (root c : Pt) (w h : Int) (e b e' b' : Pt)
    (h1 : SpecLocal root c w h e b) (h2 : SpecLocal root c w h e' b') : e = e' ∧ b = b' :=
  spec_local_unique' root c w h e b e' b' h1 h2

/-- the oracle used on `spinn5_local_eth_coord` alone: some board chip `b` makes `SpecLocal` true
(by `spec_local_unique` it is the one `spinn5_chip_coord` must report) -/
theorem spec_local_e_iff (root c : Pt) (w h : Int) (e : Pt) :
    SpecLocalE root c w h e ↔ ∃ b, SpecLocal root c w h e b := by
  constructor
  · rintro ⟨b, _, hs⟩; exact ⟨b, hs⟩
  · rintro ⟨b, hs⟩; exact ⟨b, (mem_boardChips b).2 hs.1, hs⟩

/-- **Torus statement** (`w`, `h` positive multiples of 12): the reported chip is an
Ethernet chip of the machine and chip = Ethernet chip + on-board coordinate on the torus. -/
theorem local_eth_torus (root c : Pt) (w h : Int) (e b : Pt) (hw : 0 < w) (hh : 0 < h)
    (hw12 : w % 12 = 0) (hh12 : h % 12 = 0) (hs : SpecLocal root c w h e b) :
    IsEthAt root e ∧ 0 ≤ e.1 ∧ e.1 < w ∧ 0 ≤ e.2 ∧ e.2 < h ∧ InBoard b ∧
      (e.1 + b.1) % w = c.1 % w ∧ (e.2 + b.2) % h = c.2 % h :=
  local_eth_torus' root c w h e b hw hh hw12 hh12 hs

/-- ... and it is the only Ethernet chip of the machine whose board contains the chip. -/
theorem local_eth_torus_unique (root c : Pt) (w h : Int) (e b e' b' : Pt) (hw : 0 < w) (hh : 0 < h)
    (hw12 : w % 12 = 0) (hh12 : h % 12 = 0) (hs : SpecLocal root c w h e b)
    (he' : IsEthAt root e') (hx : 0 ≤ e'.1 ∧ e'.1 < w) (hy : 0 ≤ e'.2 ∧ e'.2 < h) (hb' : InBoard b')
    (c1 : (e'.1 + b'.1) % w = c.1 % w) (c2 : (e'.2 + b'.2) % h = c.2 % h) : e' = e ∧ b' = b :=
  local_eth_torus_unique' root c w h e b e' b' hw hh hw12 hh12 hs he' hx hy hb' c1 c2

/-- **Ragged sizes**: whenever the board's Ethernet chip lies inside the machine the
answer is that chip itself (no reduction happens); otherwise it is reduced mod `w`, `h`
(that is `SpecLocal`). -/
theorem local_eth_no_wrap (root c : Pt) (w h : Int) (e b : Pt) (hs : SpecLocal root c w h e b)
    (hx : 0 ≤ c.1 - b.1 ∧ c.1 - b.1 < w) (hy : 0 ≤ c.2 - b.2 ∧ c.2 - b.2 < h) :
    e = (c.1 - b.1, c.2 - b.2) ∧ OnBoard root e c := by
  have he := local_eth_no_wrap' root c w h e b hs hx hy
  subst he
  refine ⟨rfl, hs.2.1, ?_⟩
  have e1 : c.1 - (c.1 - b.1) = b.1 := by omega
  have e2 : c.2 - (c.2 - b.2) = b.2 := by omega
  simp only [e1, e2]
  exact hs.1

/-! ## spinn5_eth_coords -/

/-- **Main.** For all widths, heights (ragged, zero and negative included) and all roots a
point is listed iff it lies in the machine and is a lattice point for this root. -/
theorem eth_coords_mem (width height rx ry : Int) (p : Pt) :
    p ∈ ethCoords width height rx ry ↔
      0 ≤ p.1 ∧ p.1 < width ∧ 0 ≤ p.2 ∧ p.2 < height ∧ IsEthAt (rx, ry) p :=
  eth_coords_mem' width height rx ry p

/-- no point is listed twice -/
theorem eth_coords_nodup (width height rx ry : Int) : (ethCoords width height rx ry).Nodup :=
  eth_coords_nodup' width height rx ry

/-- the (bounded, executable) oracle predicate says exactly that -/
theorem spec_eth_coords_iff (root : Pt) (width height : Int) (l : List Pt) :
    SpecEthCoords root width height l ↔
      l.Nodup ∧ ∀ p, p ∈ l ↔ 0 ≤ p.1 ∧ p.1 < width ∧ 0 ≤ p.2 ∧ p.2 < height ∧ IsEthAt root p := by
  constructor
  · rintro ⟨h1, h2, h3⟩
    refine ⟨h1, fun p => ⟨h2 p, fun ⟨a, b, c, d, e⟩ => h3 p ((mem_grid _ _ _).2 ⟨a, b, c, d⟩) e⟩⟩
  · rintro ⟨h1, h2⟩
    refine ⟨h1, fun p hp => (h2 p).1 hp, fun p hp he => (h2 p).2 ?_⟩
    obtain ⟨a, b, c, d⟩ := (mem_grid _ _ _).1 hp
    exact ⟨a, b, c, d, he⟩

/-- the model's list satisfies the oracle predicate -/
theorem eth_coords_spec (width height rx ry : Int) :
    SpecEthCoords (rx, ry) width height (ethCoords width height rx ry) :=
  (spec_eth_coords_iff _ _ _ _).2 ⟨eth_coords_nodup _ _ _ _, eth_coords_mem _ _ _ _⟩

/-- only the root modulo 12 matters (the source reduces `root_x` twice and `root_y` never:
the result is the same list up to order) -/
theorem eth_coords_root_mod12 (width height rx ry rx' ry' : Int)
    (hx : (rx - rx') % 12 = 0) (hy : (ry - ry') % 12 = 0) :
    (ethCoords width height rx ry).Perm (ethCoords width height rx' ry') := by
  rw [List.perm_ext_iff_of_nodup (eth_coords_nodup _ _ _ _) (eth_coords_nodup _ _ _ _)]
  intro p
  rw [eth_coords_mem, eth_coords_mem]
  simp only [IsEthAt, IsEth]
  omega

/-- a machine of whole triads lists exactly three Ethernet chips per 12 x 12 block, i.e. one
per board (`w/12 · h/12` triads of three boards) -/
theorem eth_coords_one_per_board (w h rx ry : Int) (hw : w % 12 = 0) (hh : h % 12 = 0) :
    (ethCoords w h rx ry).length = (w / 12).toNat * ((h / 12).toNat * 3) :=
  eth_coords_length' w h rx ry hw hh

/-- the three functions agree: on a machine of whole triads the local Ethernet chip of
every chip is one of the listed Ethernet chips -/
theorem local_eth_mem_eth_coords (x y w h rx ry : Int) (e : Pt) (hw : 0 < w) (hh : 0 < h)
    (hw12 : w % 12 = 0) (hh12 : h % 12 = 0) (he : localEthCoord x y w h rx ry = .ok e) :
    e ∈ ethCoords w h rx ry := by
  obtain ⟨e', b, h1, _, hs⟩ := local_eth_spec x y w h rx ry hw hh
  rw [he] at h1
  cases h1
  obtain ⟨a1, a2, a3, a4, a5, _⟩ := local_eth_torus _ _ _ _ _ _ hw hh hw12 hh12 hs
  exact (eth_coords_mem _ _ _ _ _).2 ⟨a2, a3, a4, a5, a1⟩

/-! ## spinn5_fpga_link -/

/-- the table on a board chip: an entry exists iff the neighbour in that direction is not a
board chip; no entry for link numbers outside 0..5 (48 x 6 `decide`) -/
theorem fpga_table_edges (b : Pt) (hb : InBoard b) (l : Int) :
    match dirVec l with
    | some v => ((fpgaLinks.lookup (b.1, b.2, l)).isSome ↔ ¬ InBoard (b.1 + v.1, b.2 + v.2))
    | none => fpgaLinks.lookup (b.1, b.2, l) = none :=
  fpga_table_cell b hb l

/-- the numbering: 48 entries, keys and values pairwise distinct, values in {0,1,2} x {0..15}
(hence a bijection between the board's outgoing links and the 3 x 16 FPGA links), keys on the board -/
theorem fpga_table_numbering :
    (fpgaLinks.map (·.2)).Nodup ∧ (fpgaLinks.map (·.1)).Nodup ∧
    (∀ v ∈ fpgaLinks.map (·.2), v.1 < 3 ∧ v.2 < 16) ∧ fpgaLinks.length = 48 ∧
    (∀ e ∈ fpgaLinks, InBoard (e.1.1, e.1.2.1) ∧ 0 ≤ e.1.2.2 ∧ e.1.2.2 < 6) :=
  ⟨fpga_values_ok.1, fpga_values_ok.2.1, fpga_values_ok.2.2.1, fpga_values_ok.2.2.2, fpga_keys_ok⟩

/-- for all chips, links and roots the function succeeds and satisfies the oracle predicate -/
theorem fpga_link_spec (x y l rx ry : Int) :
    ∃ r, fpgaLink x y l rx ry = .ok r ∧ SpecFpga (rx, ry) (x, y) l r :=
  fpga_link_spec' x y l rx ry

/-- **Main.** A link (0..5) is reported as an FPGA link exactly when the chip and its
neighbour in that direction are not on one board - for every chip and every root. -/
theorem fpga_link_iff_leaves_board (x y l rx ry : Int) (v : Pt) (hv : dirVec l = some v) :
    ∃ r, fpgaLink x y l rx ry = .ok r ∧
      (r.isSome ↔ ¬ ∃ e, OnBoard (rx, ry) e (x, y) ∧ OnBoard (rx, ry) e (x + v.1, y + v.2)) :=
  fpga_link_iff_leaves' x y l rx ry v hv

/-- on the board of Ethernet chip `e` the function is the table -/
theorem fpga_link_on_board (rx ry : Int) (e b : Pt) (he : IsEthAt (rx, ry) e) (hb : InBoard b) (l : Int) :
    fpgaLink (e.1 + b.1) (e.2 + b.2) l rx ry = .ok (fpgaLinks.lookup (b.1, b.2, l)) := by
  obtain ⟨d, hd, hed, hbd⟩ := cell_spec (e.1 + b.1) (e.2 + b.2) rx ry
  have hE : IsEthAt (rx, ry) (e.1 + b.1 - b.1, e.2 + b.2 - b.2) := by
    have e1 : e.1 + b.1 - b.1 = e.1 := by omega
    have e2 : e.2 + b.2 - b.2 = e.2 := by omega
    rw [e1, e2]; exact he
  have := tile_unique_aux (rx, ry) (e.1 + b.1, e.2 + b.2) (-d.1, -d.2) b hbd hb
    (by simpa only [Int.sub_neg] using hed) hE
  simp only [fpgaLink, chipCoord, hd, bind, Except.bind]
  rw [← this]

/-- **Distinct numbers.** Two links of one board with the same (FPGA, link number) are the
same link of the same chip. -/
theorem fpga_link_distinct (x y l x' y' l' rx ry : Int) (n : Nat × Nat)
    (h1 : fpgaLink x y l rx ry = .ok (some n)) (h2 : fpgaLink x' y' l' rx ry = .ok (some n))
    (hsame : ∃ e, OnBoard (rx, ry) e (x, y) ∧ OnBoard (rx, ry) e (x', y')) :
    x = x' ∧ y = y' ∧ l = l' :=
  fpga_link_distinct' x y l x' y' l' rx ry n h1 h2 hsame

/-- the whole-board oracle predicate holds for the table (with `fpga_link_on_board`: for the
model's answers on every board of every machine) -/
theorem fpga_board_spec :
    SpecFpgaBoard (boardChips.flatMap fun b =>
      [(0 : Int), 1, 2, 3, 4, 5].map fun l => fpgaLinks.lookup (b.1, b.2, l)) := by
  decide +kernel

/-! ## standard_system_dimensions -/

/-- **Main.** For `n = 3k`, `k ≥ 1` boards the result is `(12·k/h, 12·h)` satisfying `SpecStdDims`:
`h` is the largest divisor of `k` with `h² ≤ k`. -/
theorem std_dims_spec (n : Nat) (h3 : n % 3 = 0) (hn : 3 ≤ n) :
    ∃ w h : Nat, stdDims (n : Int) = .ok ((w : Int), (h : Int)) ∧ SpecStdDims n w h :=
  std_dims_spec' n h3 hn

/-- `SpecStdDims` means squarest: every other factorisation of the triads into
`a x b`, `b ≤ a`, is at least as wide and at most as tall; and the system has 48 chips per board -/
theorem std_dims_squarest (n w h : Nat) (hs : SpecStdDims n w h) (h3 : n % 3 = 0) (hn : 3 ≤ n) :
    (∀ a b : Nat, a * b = n / 3 → b ≤ a → b ≤ h / 12 ∧ w / 12 ≤ a) ∧ w * h = 48 * n :=
  ⟨fun a b hab hba => std_dims_squarest' n w h hs hn a b hab hba, std_dims_chips n w h hs h3⟩

/-- the cheap form of the oracle used for huge board counts is the same predicate -/
theorem spec_std_dims_fast_iff (n w h : Nat) : SpecStdDimsFast n w h ↔ SpecStdDims n w h :=
  spec_std_dims_fast_iff' n w h

/-- special cases and errors: 0 ↦ (0,0), 1 ↦ (8,8), other non-multiples of 3 and negative
counts raise ValueError -/
theorem std_dims_errors :
    stdDims 0 = .ok (0, 0) ∧ stdDims 1 = .ok (8, 8) ∧
    (∀ n : Int, n % 3 ≠ 0 → n ≠ 1 → stdDims n = .error .valueError) ∧
    (∀ n : Int, n < 0 → stdDims n = .error .valueError) :=
  std_dims_errors'

/-! ## Non-vacuity: the hypotheses are satisfiable by non-trivial instances, and the
totalised definitions do not make the statements true for the wrong reason -/

-- a chip next to a board corner, non-zero root, 24 x 12 machine: Ethernet chip wraps around
example : localEthCoord 1 7 24 12 5 6 = .ok (21, 2) ∧ chipCoord 1 7 5 6 = .ok (4, 5) ∧
    SpecLocal (5, 6) (1, 7) 24 12 (21, 2) (4, 5) := by decide
-- SpecLocal is not trivially true
example : ¬ SpecLocal (5, 6) (1, 7) 24 12 (9, 2) (4, 5) ∧ ¬ SpecLocal (5, 6) (1, 7) 24 12 (21, 2) (4, 4) := by decide
example : ¬ SpecLocal (0, 0) (5, 0) 12 12 (0, 0) (5, 0) := by decide
-- OnBoard: (5,0) is not on the board of (0,0) (x - y = 5), it is on the board of (4,-4)
example : ¬ OnBoard (0, 0) (0, 0) (5, 0) ∧ OnBoard (0, 0) (4, -4) (5, 0) := by decide
-- a single 8 x 8 board (ragged): every board chip's Ethernet chip is (0,0) without reduction
example : localEthCoord 7 7 8 8 0 0 = .ok (0, 0) ∧ localEthCoord 4 0 8 8 0 0 = .ok (0, 0) := by decide
-- eth_coords with a root: the source's un-reduced root_y
example : (ethCoords 24 12 5 30).Perm [(5, 6), (9, 2), (13, 10), (17, 6), (21, 2), (1, 10)] := by decide +kernel
example : SpecEthCoords (5, 30) 24 12 [(5, 6), (9, 2), (13, 10), (17, 6), (21, 2), (1, 10)] := by decide +kernel
example : ¬ SpecEthCoords (5, 30) 24 12 [(5, 6), (9, 2), (13, 10), (17, 6), (21, 2)] := by decide +kernel
example : ¬ SpecEthCoords (5, 30) 24 12 [(5, 6), (9, 2), (13, 10), (17, 6), (21, 2), (1, 10), (0, 0)] := by decide +kernel
-- FPGA links: (0,0) west leaves the board, (0,0) east does not
-- (stated without the concrete numbers, which the property does not fix)
example : (fpgaLink 0 0 3 0 0).toOption.bind id ≠ none ∧ fpgaLink 0 0 0 0 0 = .ok none ∧
    fpgaLink 12 12 3 0 0 = fpgaLink 0 0 3 0 0 ∧ fpgaLink 5 6 3 5 6 = fpgaLink 0 0 3 0 0 ∧
    fpgaLink 0 0 4 0 0 ≠ fpgaLink 0 0 3 0 0 := by decide
example : dirVec 3 = some (-1, 0) ∧ SpecFpga (0, 0) (0, 0) 3 (some (1, 1)) ∧ ¬ SpecFpga (0, 0) (0, 0) 3 none ∧
    ¬ SpecFpga (0, 0) (0, 0) 0 (some (1, 1)) := by decide
example : ∃ e, OnBoard (0, 0) e (1, 1) ∧ OnBoard (0, 0) e (7, 7) := ⟨(0, 0), by decide⟩
-- dimensions
example : stdDims 24 = .ok (48, 24) ∧ SpecStdDims 24 48 24 ∧ ¬ SpecStdDims 24 96 12 ∧ ¬ SpecStdDims 24 24 48 ∧
    ¬ SpecStdDims 24 48 12 := by decide +kernel
example : SpecStdDimsFast 24 48 24 ∧ ¬ SpecStdDimsFast 24 96 12 ∧ ¬ SpecStdDimsFast 24 24 48 := by decide +kernel
example : stdDims 3 = .ok (12, 12) ∧ stdDims 1200 = .ok (240, 240) ∧ stdDims 21 = .ok (84, 12) := by decide +kernel

end Rig.C19
