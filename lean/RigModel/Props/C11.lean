/-
C11 - hexagonal mesh and torus path functions return true shortest paths.
-/
import RigModel.Model.C11
set_option linter.unusedSimpArgs false
set_option linter.unusedVariables false

namespace Rig.C11
open Rig.Gen.Links

/-- **Link tables.** The tables generated from rig/links.py agree with the hexagonal neighbourhood:
six links 0..5, `to_vector` is the specification's vector, `from_vector` inverts it, the opposite
link has the negated vector and `opposite` is an involution. -/
theorem links_consistent :
    allLinks = [0, 1, 2, 3, 4, 5] ∧
    (∀ l, l < 6 → toVector l = specVec l) ∧
    (∀ l, l < 6 → ∀ v, toVector l = some v → fromVector v.1 v.2 = some l) ∧
    (∀ l, l < 6 → ∀ v, toVector l = some v → toVector (opposite l) = some (-v.1, -v.2)) ∧
    (∀ l, l < 6 → opposite (opposite l) = l ∧ opposite l < 6 ∧ opposite l ≠ l) ∧
    hexSteps = (List.range 6).filterMap specVec := by
  decide

end Rig.C11
