/-
C11 - hexagonal mesh and torus path functions return true shortest paths.
-/
import RigModel.Model.C11
import RigModel.Lemmas.C11
set_option linter.unusedSimpArgs false
set_option linter.unusedVariables false

namespace Rig.C11
open Rig.Gen.Links

/-- **Link tables.** The tables generated from rig/links.py agree with the hexagonal neighbourhood:
six links 0..5, `to_vector` is the specification's vector, `from_vector` inverts it, the opposite
link has the negated vector and `opposite` is an involution. -/
theorem links_consistent :
    allLinks = [0, 1, 2, 3, 4, 5] ∧
    (∀ l, l < 6 → toVector l = specVec l) ∧
    (∀ l, l < 6 → ∀ v, toVector l = some v → fromVector v.1 v.2 = some l) ∧
    (∀ l, l < 6 → ∀ v, toVector l = some v → toVector (opposite l) = some (-v.1, -v.2)) ∧
    (∀ l, l < 6 → opposite (opposite l) = l ∧ opposite l < 6 ∧ opposite l ≠ l) ∧
    hexSteps = (List.range 6).filterMap specVec := by
  decide

/-- **Lipschitz.** The hexagonal norm changes by at most one over each of the six unit steps. -/
theorem hexLen_unit_step (x y : Int) (d : P2) (h : d ∈ hexSteps) :
    hexLen (x + d.1) (y + d.2) ≤ hexLen x y + 1 ∧ hexLen x y ≤ hexLen (x + d.1) (y + d.2) + 1 :=
  hexLen_lipschitz x y h

theorem meshLen_eq_hexLen (s d : V3) :
    meshLen s d = hexLen ((proj d).1 - (proj s).1) ((proj d).2 - (proj s).2) := by
  simp only [meshLen, hexLen, proj]
  repeat' split
  all_goals omega

/-- **Mesh length = graph distance**, for all three-axis representations of source and destination:
there is a walk of exactly `meshLen` hops between the two chips and no walk is shorter. -/
theorem meshLen_eq_dist (s d : V3) :
    0 ≤ meshLen s d ∧ IsDist none none (proj s) (proj d) (meshLen s d).toNat := by
  rw [meshLen_eq_hexLen]
  refine ⟨hexLen_nonneg _ _, ?_, ?_⟩
  · have := reach_mesh_upper (proj s) ((proj d).1 - (proj s).1) ((proj d).2 - (proj s).2)
    have e : ((proj s).1 + ((proj d).1 - (proj s).1), (proj s).2 + ((proj d).2 - (proj s).2)) = proj d := by
      ext <;> simp <;> omega
    rwa [e] at this
  · intro m r
    have := reach_mesh_lower r
    omega

/-- **Torus length = graph distance** in the `w × h` hexagonal torus, for every width and height ≥ 1
(including 1 and 2) and all three-axis representations. -/
theorem torusLen_eq_dist (s d : V3) (w h : Int) (hw : 1 ≤ w) (hh : 1 ≤ h) :
    ∃ n : Nat, torusLen s d w h = .ok (n : Int) ∧
      IsDist (some w) (some h) (projT s w h) (projT d w h) n := by
  have hw' : 0 < w := by omega
  have hh' : 0 < h := by omega
  obtain ⟨h0, hd⟩ := torus_dist (proj s) (proj d) w h hw' hh'
  refine ⟨_, ?_, hd⟩
  have : ¬ (w = 0 ∨ h = 0) := by omega
  simp only [torusLen, this, if_false, torusLenCore_eq s d w h hw' hh']
  congr 1
  omega

/-- zero width or height is the only error and it is a ZeroDivisionError -/
theorem torusLen_error (s d : V3) (w h : Int) :
    (∃ e, torusLen s d w h = .error e) ↔ (w = 0 ∨ h = 0) := by
  simp only [torusLen]
  split <;> simp_all

/-- non-vacuity: on the 1 x 2 torus the two chips are one hop apart -/
example : torusLen ⟨0, 0, 0⟩ ⟨0, 1, 0⟩ 1 2 = .ok 1 := by rfl

/-- **minimise_xyz** keeps the 2-D displacement, makes the median component zero, and the
resulting `|x|+|y|+|z|` is the hexagonal norm (= graph distance) of the displacement. -/
theorem minimise_xyz_spec (v : V3) :
    proj (minimiseXyz v) = proj v ∧ Minimal (minimiseXyz v) ∧
    absSum (minimiseXyz v) = hexLen (proj v).1 (proj v).2 :=
  minimise_spec v

/-- `to_xyz` addresses the same chip -/
theorem toXyz_proj (p : P2) : proj (toXyz p) = p := by simp [proj, toXyz]

/-- **Mesh vector.** `shortest_mesh_path` has exactly `shortest_mesh_path_length` hops and leads from
the source chip to the destination chip. -/
theorem meshPath_ok (s d : V3) :
    absSum (meshPath s d) = meshLen s d ∧
    ((proj s).1 + (proj (meshPath s d)).1, (proj s).2 + (proj (meshPath s d)).2) = proj d := by
  obtain ⟨hp, _, ha⟩ := minimise_spec ⟨d.x - s.x, d.y - s.y, d.z - s.z⟩
  simp only [meshPath]
  rw [ha, hp, meshLen_eq_hexLen]
  simp only [proj]
  refine ⟨by congr 1 <;> omega, by ext <;> simp <;> omega⟩

/-- **Torus vector**, for every outcome of the four `random.random()` tie-break draws (`k_i / den`)
and every spiral count `random.randint` can return: the vector has exactly
`shortest_torus_path_length` hops and lands on the destination modulo (w, h). -/
theorem torusPath_ok (s d : V3) (w h : Int) (hw : 1 ≤ w) (hh : 1 ≤ h) (den k0 k1 k2 k3 t : Nat)
    (h0 : k0 < den) (h1 : k1 < den) (h2 : k2 < den) (h3 : k3 < den) :
    ∃ v, torusPath s d w h den k0 k1 k2 k3 t = .ok v ∧
      torusLen s d w h = .ok (absSum v) ∧
      ((proj s).1 + (proj v).1 - (proj d).1) % w = 0 ∧
      ((proj s).2 + (proj v).2 - (proj d).2) % h = 0 := by
  have := torusPathCore_ok s d w h (by omega) (by omega) den k0 k1 k2 k3 t h0 h1 h2 h3
  have hz : ¬ (w = 0 ∨ h = 0) := by omega
  refine ⟨_, by simp only [torusPath, hz, if_false], ?_, this.2.1, this.2.2⟩
  simp only [torusLen, hz, if_false, this.1]

/-- every spiral count between 0 and the maximum is a possible outcome of the model's `randint` -/
theorem randint_surjective (lo hi r : Int) (h1 : lo ≤ r) (h2 : r ≤ hi) :
    ∃ t : Nat, randint lo hi t = r := by
  refine ⟨(r - lo).toNat, ?_⟩
  simp only [randint]
  have : ((r - lo).toNat : Int) = r - lo := by omega
  rw [this, Int.emod_eq_of_lt (by omega) (by omega)]; omega

/-- non-vacuity: 5 x 1 torus, a spiral is drawn -/
example : torusPath ⟨0, 0, 0⟩ ⟨3, 0, 0⟩ 5 1 4 0 0 3 3 1 = .ok ⟨-1, 0, 1⟩ := by rfl

/-- **Longest dimension first**, for every outcome of the three `random.random()` draws (i.e. every
legal dimension order, ties included), any start, with or without wrap-around on either axis:
the call returns (no KeyError) a path of exactly `|x|+|y|+|z|` hops in which every hop leads from the
previous chip through the link it is labelled with, ending at `start + vector` (modulo width/height). -/
theorem ldf_walk (v : V3) (start : P2) (w h : Option Int) (den k0 k1 k2 : Nat)
    (h0 : k0 < den) (h1 : k1 < den) (h2 : k2 < den) :
    ∃ path, ldf v start w h den k0 k1 k2 = .ok path ∧ ldfOk v start w h path = true :=
  ldf_ok v start w h den k0 k1 k2 h0 h1 h2

/-- what `ldfOk` means: a walk of the graph with `|x|+|y|+|z|` hops whose end is congruent to start + vector -/
theorem ldfOk_meaning (v : V3) (start : P2) (w h : Option Int) (path : List (Nat × P2))
    (hok : ldfOk v start w h path = true) :
    Reach w h path.length start (lastPos start path) ∧ (path.length : Int) = absSum v ∧
    congr? (lastPos start path).1 (start.1 + v.x - v.z) w = true ∧
    congr? (lastPos start path).2 (start.2 + v.y - v.z) h = true := by
  simp only [ldfOk, Bool.and_eq_true, beq_iff_eq] at hok
  obtain ⟨⟨⟨h1, h2⟩, h3⟩, h4⟩ := hok
  exact ⟨walkOk_reach w h start path h1, h2, h3, h4⟩

/-- non-vacuity: a tie between two dimensions on a 3 x 3 torus, wrapping on both axes -/
example : ldf ⟨2, -2, 0⟩ (2, 0) (some 3) (some 3) 2 1 1 0 =
    .ok [(0, (0, 0)), (0, (1, 0)), (5, (1, 2)), (5, (1, 1))] := by rfl

/-- **Concentric hexagons.** For every radius and centre the generated list is duplicate-free,
contains exactly the chips within hexagonal (= graph) distance `radius` of the centre, lists them
nearest ring first, and has `1 + 3 r (r + 1)` elements. -/
theorem hexagons_exact (radius : Nat) (c : P2) :
    (concentricHexagons radius c).Nodup ∧
    (∀ p, p ∈ concentricHexagons radius c ↔ hexDist c p ≤ radius) ∧
    (concentricHexagons radius c).Pairwise (fun a b => hexDist c a ≤ hexDist c b) ∧
    (concentricHexagons radius c).length = 1 + 3 * radius * (radius + 1) := by
  obtain ⟨hm, hn, hp, hl⟩ := rings_spec c radius 1 c (by omega) (by ext <;> simp)
  simp only [concentricHexagons, Int.toNat_natCast]
  refine ⟨?_, fun p => ?_, ?_, ?_⟩
  · rw [List.nodup_cons]
    refine ⟨fun hc => ?_, hn⟩
    obtain ⟨r, h1, _, h3⟩ := (hm c).1 hc
    rw [hexDist_self] at h3; omega
  · rw [List.mem_cons, hm]
    constructor
    · rintro (rfl | ⟨r, h1, h2, h3⟩)
      · rw [hexDist_self]; omega
      · omega
    · intro h
      by_cases h0 : hexDist c p = 0
      · left; exact hexDist_eq_zero c p h0
      · right
        obtain ⟨r, hr⟩ := Int.eq_ofNat_of_zero_le (hexDist_nonneg c p)
        exact ⟨r, by omega, by omega, hr⟩
  · rw [List.pairwise_cons]
    refine ⟨fun b _ => ?_, hp⟩
    rw [hexDist_self]; exact hexDist_nonneg c b
  · have h1 := sumRings_closed radius 1
    have h2 : 3 * radius * (radius + 1) = 3 * (radius * radius) + 3 * radius := by
      rw [Nat.mul_add, Nat.mul_assoc]; omega
    rw [List.length_cons, hl, h2]
    simp only [Nat.mul_one] at h1
    omega

/-- a negative radius yields just the centre (the loop body never runs) -/
theorem hexagons_negative (radius : Int) (c : P2) (h : radius < 0) : concentricHexagons radius c = [c] := by
  have : radius.toNat = 0 := by omega
  simp [concentricHexagons, this, rings]

/-- the hexagonal distance used above is the graph distance of the mesh -/
theorem hexDist_is_graph_distance (c p : P2) : IsDist none none c p (hexDist c p).toNat := by
  have := (meshLen_eq_dist ⟨c.1, c.2, 0⟩ ⟨p.1, p.2, 0⟩).2
  rw [meshLen_eq_hexLen] at this
  simpa [proj, hexDist] using this

example : concentricHexagons 1 (0, 0) = [(0, 0), (0, -1), (1, 0), (1, 1), (0, 1), (-1, 0), (-1, -1)] := by rfl

/-- **from_vector across wrap-around.** On any torus with width and height ≥ 3 (the documented domain of
`Links.from_vector`), for every chip and every link, the raw coordinate difference to the neighbour the
link leads to - including differences of magnitude w-1 / h-1 across the wrap - is mapped back to that link. -/
theorem fromVector_wrap (w h : Int) (hw : 3 ≤ w) (hh : 3 ≤ h) (a : P2)
    (hx : 0 ≤ a.1 ∧ a.1 < w) (hy : 0 ≤ a.2 ∧ a.2 < h) (l : Nat) (d : P2) (hl : specVec l = some d) :
    fromVector ((a.1 + d.1) % w - a.1) ((a.2 + d.2) % h - a.2) = some l := by
  obtain ⟨r1, r2, hlk⟩ := specVec_range hl
  rw [fromVector_norm, normWrap_step a.1 d.1 w hx.1 hx.2 hw r1, normWrap_step a.2 d.2 h hy.1 hy.2 hh r2]
  exact hlk

/-- **Graph-search oracle = graph distance.** The decidable test and the level search that the driver
runs on the implementation's reported lengths decide exactly `IsDist`. -/
theorem oracle_distIs_iff (w h : Option Int) (a b : P2) (n : Nat) :
    distIs w h a b n = true ↔ IsDist w h a b n := distIs_iff w h a b n

theorem oracle_levelOf_isDist (w h : Option Int) (a p : P2) (n r : Nat)
    (hr : levelOf p (ballsFrom w h n [a]) 0 = some r) : IsDist w h a p r :=
  levelOf_isDist w h a p n r hr

/-- **links_between** returns (never KeyError) exactly the links that, by the hexagonal neighbourhood,
lead from `a` to `b` with wrap-around and are working on the machine. -/
theorem linksBetween_exact (a b : P2) (m : Mach) :
    linksBetween a b m = some (specLinksBetween a b m) := linksBetween_spec a b m

theorem specLinksBetween_mem (a b : P2) (m : Mach) (l : Nat) :
    l ∈ specLinksBetween a b m ↔
      l < 6 ∧ ∃ d, specVec l = some d ∧ stepTo (some m.w) (some m.h) a d = b ∧ m.hasLink a l = true := by
  simp only [specLinksBetween, List.mem_filter, List.mem_range]
  constructor
  · rintro ⟨h1, h2⟩
    refine ⟨h1, ?_⟩
    cases hs : specVec l with
    | none => simp [hs] at h2
    | some d => simp only [hs, Bool.and_eq_true, beq_iff_eq] at h2; exact ⟨d, rfl, h2.1, h2.2⟩
  · rintro ⟨h1, d, hs, h2, h3⟩
    exact ⟨h1, by simp [hs, h2, h3]⟩

/-- **Opposite link returns.** On a torus with positive width and height, taking link `l` from an in-range
chip and then the opposite link from the chip reached leads back. -/
theorem opposite_returns (w h : Int) (hw : 0 < w) (hh : 0 < h) (a : P2)
    (hx : 0 ≤ a.1 ∧ a.1 < w) (hy : 0 ≤ a.2 ∧ a.2 < h) (l : Nat) (d : P2) (hl : specVec l = some d) :
    ∃ d', specVec (opposite l) = some d' ∧
      stepTo (some w) (some h) (stepTo (some w) (some h) a d) d' = a := by
  have hl6 : l < 6 := by
    match l, hl with
    | 0, _ | 1, _ | 2, _ | 3, _ | 4, _ | 5, _ => omega
    | (n + 6), h => simp [specVec] at h
  obtain ⟨_, h1, _, h3, _, _⟩ := links_consistent
  have ho := h3 l hl6 d (by rw [h1 l hl6]; exact hl)
  rw [h1 (opposite l) (by have := Nat.mod_lt (l + 3) (show 0 < 6 by omega); simpa [opposite] using this)] at ho
  refine ⟨_, ho, ?_⟩
  rw [stepTo_some hw hh, stepTo_some hw hh]
  simp only
  rw [Int.emod_add_emod, Int.emod_add_emod]
  ext
  · simp only; rw [show a.1 + d.1 + -d.1 = a.1 by omega, Int.emod_eq_of_lt hx.1 hx.2]
  · simp only; rw [show a.2 + d.2 + -d.2 = a.2 by omega, Int.emod_eq_of_lt hy.1 hy.2]

/-- **The torus vector, walked longest-dimension-first, is a shortest route.** For every outcome of all
seven random draws and every spiral count: walking the vector returned by `shortest_torus_path` from the
source chip visits adjacent chips through the labelled links, takes exactly `shortest_torus_path_length`
hops (the graph distance, by `torusLen_eq_dist`) and ends exactly on the destination chip. -/
theorem torus_vector_walk (s d : V3) (w h : Int) (hw : 1 ≤ w) (hh : 1 ≤ h)
    (den k0 k1 k2 k3 t : Nat) (h0 : k0 < den) (h1 : k1 < den) (h2 : k2 < den) (h3 : k3 < den)
    (den' j0 j1 j2 : Nat) (g0 : j0 < den') (g1 : j1 < den') (g2 : j2 < den') :
    ∃ v path, torusPath s d w h den k0 k1 k2 k3 t = .ok v ∧
      ldf v (projT s w h) (some w) (some h) den' j0 j1 j2 = .ok path ∧
      torusLen s d w h = .ok (path.length : Int) ∧
      walkOk (some w) (some h) (projT s w h) path = true ∧
      lastPos (projT s w h) path = projT d w h ∧
      Reach (some w) (some h) path.length (projT s w h) (projT d w h) := by
  obtain ⟨v, path, a1, a2, a3, a4, a5⟩ :=
    torus_walk_compose s d w h hw hh den k0 k1 k2 k3 t h0 h1 h2 h3 den' j0 j1 j2 g0 g1 g2
  refine ⟨v, path, a1, a2, a3, a4, a5, ?_⟩
  have := walkOk_reach (some w) (some h) (projT s w h) path a4
  rwa [a5] at this

end Rig.C11
