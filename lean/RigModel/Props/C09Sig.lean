/-
C09 (companion) - send_signal, count_cores_in_state, wait_for_cores_to_reach_state.

Model: RigModel/Model/C09Sig.lean running against the machine specification of Model/C09.lean.
All theorems hold for ALL machines, core states, app ids below 256, clock functions and machine
evolutions (`Env`); the enumerations and the signal -> message type table are the generated ones
(RigModel/Gen/LoadSig.lean, regenerated from rig/machine_control/consts.py on every run).
-/
import RigModel.Lemmas.C09Sig
set_option linter.unusedSimpArgs false
set_option linter.unusedVariables false

namespace Rig.C09Sig
open Rig.C09 Rig.Gen.Load Rig.Gen.LoadSig Rig.Gen.Scp

/-! ### send_signal -/

/-- every member of `AppSignal` has an entry in `consts.signal_types`: `KeyError` cannot happen -/
theorem signal_types_total : ∀ e ∈ appSignals, (signalTypes.lookup e.2).isSome = true := by decide

/-- the names of an enumeration are distinct, so a name resolves to the value listed with it -/
theorem resolve_name (s : String) (v : Nat) :
    (resolve appSignals (.name s) = .ok v → (s, v) ∈ appSignals) ∧
    (resolve appStates (.name s) = .ok v → (s, v) ∈ appStates) := by
  constructor <;>
  · intro h
    simp only [resolve] at h
    split at h
    · rename_i e he
      cases h
      have hm := List.mem_of_find?_eq_some he
      have hs := List.find?_some he
      simp only [beq_iff_eq] at hs
      rw [← hs]; exact hm
    · cases h

/-- a number resolves to itself, and only if it is the value of a member -/
theorem resolve_val (enum : List (String × Nat)) (n v : Nat) (h : resolve enum (.val n) = .ok v) :
    v = n ∧ ∃ s, (s, n) ∈ enum := by
  simp only [resolve] at h
  split at h
  · rename_i hany
    cases h
    simp only [List.any_eq_true, beq_iff_eq] at hany
    obtain ⟨e, he, rfl⟩ := hany
    exact ⟨rfl, e.1, he⟩
  · cases h

/-- **argument packing of `send_signal`.**  For every argument (a name or a number) and every app
id below 256:
* if the argument denotes a member `sig` of `AppSignal`, exactly one request is built: SCP command
  `signal` to (255, 255, 0) - "all chips" -, `arg1` = the message type `consts.signal_types` lists
  for `sig`, `arg2` = signal code in bits 23:16 (`arg2 / 65536 = sig`), app mask `0xff` in bits 15:8,
  app id in bits 7:0, `arg3 = 0x0000ffff`, no data; `KeyError` is impossible;
* otherwise `ValueError` is raised and nothing is sent. -/
theorem signal_packing_exact (a : Arg) (appId : Nat) (ha : appId < 256) :
    (∀ sig, resolve appSignals a = .ok sig →
      ∃ ty, signalTypes.lookup sig = some ty ∧ sendSignalReq a appId = .ok (signalReq sig ty appId) ∧
        (signalReq sig ty appId).x = 255 ∧ (signalReq sig ty appId).y = 255 ∧ (signalReq sig ty appId).p = 0 ∧
        (signalReq sig ty appId).cmd = cmdSignal ∧ (signalReq sig ty appId).arg1 = ty ∧
        (signalReq sig ty appId).arg2 / 65536 = sig ∧ (signalReq sig ty appId).arg2 / 256 % 256 = 255 ∧
        (signalReq sig ty appId).arg2 % 256 = appId ∧ (signalReq sig ty appId).arg3 = 65535 ∧
        (signalReq sig ty appId).data = []) ∧
    (∀ e, resolve appSignals a = .error e →
      sendSignalReq a appId = .error .valueError ∧
      ∀ mc s, sendSignal mc s a appId = (s, .error .valueError)) := by
  constructor
  · intro sig hr
    have hmem : ∃ s, (s, sig) ∈ appSignals := by
      cases a with
      | name s => exact ⟨s, (resolve_name s sig).1 hr⟩
      | val n => obtain ⟨rfl, h⟩ := resolve_val _ _ _ hr; exact h
    obtain ⟨s, hs⟩ := hmem
    have hsome := signal_types_total (s, sig) hs
    obtain ⟨ty, hty⟩ := Option.isSome_iff_exists.mp hsome
    refine ⟨ty, hty, by simp only [sendSignalReq, hr, hty], rfl, rfl, rfl, rfl, rfl, ?_, ?_, ?_, rfl, rfl⟩ <;>
      (simp only [signalReq, signal_arg2 sig appId ha]; omega)
  · intro e hr
    have he : e = .valueError := by
      cases a with
      | name s => simp only [resolve] at hr; split at hr <;> cases hr; rfl
      | val n => simp only [resolve] at hr; split at hr <;> cases hr; rfl
    subst he
    have h1 : sendSignalReq a appId = .error .valueError := by simp only [sendSignalReq, hr]
    exact ⟨h1, fun mc s => by simp only [sendSignal, h1]⟩

/-- **the start signal of the loader is `send_signal("start", app_id)`**: the request
`load_application` sends after a successful load (`startReq`, Model/C09.lean) is the one
`send_signal` builds for the name "start" and for the member `AppSignal.start`; the machine
specification reads it as: signal `start`, app mask 0xff, this app id. -/
theorem start_signal_is_send_signal (appId : Nat) (ha : appId < 256) :
    sendSignalReq (.name "start") appId = .ok (startReq appId) ∧
    sendSignalReq (.val sigStart) appId = .ok (startReq appId) ∧
    decode (startReq appId) = .signal sigStart 255 appId :=
  ⟨by simp only [sendSignalReq]; rfl, by simp only [sendSignalReq]; rfl, decode_start appId ha⟩

/-! ### count_cores_in_state -/

/-- **argument packing and reply decoding of `count_cores_in_state`**, one state: for a member
`st` of `AppState` (name or number) the request is read by the machine specification as "count the
cores in state `st`, app mask 0xff, this app id" (`arg1` = the message type
`consts.diagnostic_signal_types` lists for `count`), the value returned is the `arg1` of the reply =
the number of cores of the machine in that state under the app id; the machine is unchanged. -/
theorem count_packing_exact (mc : MCfg) (s : Sim) (a : Arg) (st appId : Nat) (ha : appId < 256)
    (hr : resolve appStates a = .ok st) :
    decode (countReq st appId) = .count st 255 appId ∧
    diagSignalTypes.lookup diagCount = some (countReq st appId).arg1 ∧
    (countCores mc s (.one a) appId).2 = .ok (cnt mc s.m.core [st] appId) ∧
    (countCores mc s (.one a) appId).1.m = s.m ∧
    (countCores mc s (.one a) appId).1.trace =
      (countReq st appId, Reply.count (cnt mc s.m.core [st] appId)) :: s.trace := by
  have h := countCores_ok mc s (.one a) [st] appId ha (.one a st hr)
  refine ⟨decode_count st appId (resolve_states_lt a st hr) ha, rfl, ?_, ?_, ?_⟩
  · rw [h]
  · rw [h]
  · rw [h]; simp [countEntries, cnt, cnt1]

/-- **an iterable of states yields the sum**: when every listed state is a member of `AppState`,
one count request per state is sent in order, the result is the sum of the per-state counts, the
machine is unchanged. -/
theorem count_cores_sum (mc : MCfg) (s : Sim) (l : List Arg) (sts : List Nat) (appId : Nat) (ha : appId < 256)
    (hr : List.Forall₂ (fun a st => resolve appStates a = .ok st) l sts) :
    (countCores mc s (.many l) appId).2 = .ok (cnt mc s.m.core sts appId) ∧
    (countCores mc s (.many l) appId).1.m = s.m ∧
    (countCores mc s (.many l) appId).1.trace =
      (sts.map fun st => (countReq st appId,
        Reply.count ((allCores mc.chips).countP fun c => matchesApp (s.m.core c.1 c.2.1 c.2.2) st appId))).reverse
        ++ s.trace := by
  have h := countCores_ok mc s (.many l) sts appId ha (.many l sts hr)
  rw [h]
  exact ⟨rfl, rfl, rfl⟩

/-- **an invalid state raises `ValueError`** after exactly the requests of the valid states
before it; nothing after it is sent. -/
theorem count_cores_invalid (mc : MCfg) (s : Sim) (pre : List Arg) (sts : List Nat) (a : Arg) (post : List Arg)
    (appId : Nat) (ha : appId < 256) (e : Err)
    (hr : List.Forall₂ (fun a st => resolve appStates a = .ok st) pre sts) (he : resolve appStates a = .error e) :
    (countCores mc s (.many (pre ++ a :: post)) appId).2 = .error .valueError ∧
    (countCores mc s (.many (pre ++ a :: post)) appId).1.trace.length = s.trace.length + pre.length := by
  have hv : e = .valueError := by
    cases a with
    | name s => simp only [resolve] at he; split at he <;> cases he; rfl
    | val n => simp only [resolve] at he; split at he <;> cases he; rfl
  subst hv
  simp only [countCores, countMany_err mc appId ha pre sts hr a _ post he s 0]
  refine ⟨trivial, ?_⟩
  simp only [countEntries, List.length_append, List.length_reverse, List.length_map, hr.length_eq]
  omega

/-! ### wait_for_cores_to_reach_state -/

/-- **the value returned is the last count, taken at the first poll that stops.**  With every
listed state a member of `AppState`: if `wait_for_cores_to_reach_state` returns `n` then there is a
poll `k` (within the fuel; `k` sleeps were made) such that `n` is the number of cores in the states
under the app id in the machine state at that poll - which is the final machine state -, the loop's
stopping condition holds at poll `k` (count reached, or timeout given and the clock read after the
poll is past `clock 0 + timeout`), and it holds at no earlier poll.  In particular a result below
the requested count means the deadline had passed. -/
theorem wait_returns_count (mc : MCfg) (env : Env) (st : StateArg) (sts : List Nat) (target appId : Nat)
    (timeout : Option Nat) (fuel : Nat) (s : Sim) (ha : appId < 256) (hr : Resolved st sts) (n : Nat)
    (hdone : (waitForCores mc env st target appId timeout fuel s).2.1 = .done n) :
    ∃ k, k < fuel ∧ (waitForCores mc env st target appId timeout fuel s).2.2 = k ∧
      n = cnt mc (coresAt env s.m.core k) sts appId ∧
      (waitForCores mc env st target appId timeout fuel s).1.m.core = coresAt env s.m.core k ∧
      n = cnt mc (waitForCores mc env st target appId timeout fuel s).1.m.core sts appId ∧
      stops env.clock timeout target k n = true ∧
      (∀ i, i < k → stops env.clock timeout target i (cnt mc (coresAt env s.m.core i) sts appId) = false) ∧
      (n < target → ∃ t, timeout = some t ∧ env.clock (k + 1) > env.clock 0 + t) := by
  let P : Nat → Bool := fun i => stops env.clock timeout target i (cnt mc (coresAt env s.m.core i) sts appId)
  by_cases hex : ∃ j, j < fuel ∧ P j = true
  · obtain ⟨j, hj, hp, hbefore⟩ := least_below P fuel hex
    have h := waitLoop_stop mc env st sts target appId timeout ha hr s.m.core fuel 0 j s rfl (Nat.zero_le _)
      (by omega) (fun i _ h2 => hbefore i h2) hp
    simp only [waitForCores] at hdone ⊢
    obtain ⟨h1, h2, h3, _⟩ := h
    rw [h1] at hdone
    cases hdone
    refine ⟨j, hj, h2, rfl, h3, by rw [h3], hp, hbefore, fun hlt => ?_⟩
    have hp' : stops env.clock timeout target j (cnt mc (coresAt env s.m.core j) sts appId) = true := hp
    simp only [stops, Bool.or_eq_true, decide_eq_true_eq] at hp'
    rcases hp' with h | h
    · omega
    · cases timeout with
      | none => simp at h
      | some t => exact ⟨t, rfl, by simpa using h⟩
  · exfalso
    have hno : ∀ i, 0 ≤ i → i < 0 + fuel → P i = false := by
      intro i _ hi
      cases h : P i with
      | false => rfl
      | true => exact absurd ⟨i, by omega, h⟩ hex
    have h := waitLoop_nostop mc env st sts target appId timeout ha hr s.m.core fuel 0 s rfl hno
    simp only [waitForCores] at hdone
    rw [h.1] at hdone
    cases hdone

/-- **termination.**  With every listed state a member of `AppState`:
(a) if some poll within the fuel satisfies the stopping condition the call returns (a count, never
    an exception) - so it terminates as soon as the count is reached or the clock passes the deadline;
(b) *clock progress*: with a timeout `t` and a clock that advances by at least one unit between
    consecutive readings, `t + 1` polls suffice whatever the machine does: the call returns after at
    most `t` sleeps;
(c) without a timeout, if the count is never reached the loop does not end (out of fuel for every
    fuel) - the behaviour the docstring warns about. -/
theorem wait_terminates_under_clock_progress (mc : MCfg) (env : Env) (st : StateArg) (sts : List Nat)
    (target appId : Nat) (timeout : Option Nat) (fuel : Nat) (s : Sim) (ha : appId < 256) (hr : Resolved st sts) :
    (∀ j, j < fuel → stops env.clock timeout target j (cnt mc (coresAt env s.m.core j) sts appId) = true →
      ∃ n, (waitForCores mc env st target appId timeout fuel s).2.1 = .done n ∧
        (waitForCores mc env st target appId timeout fuel s).2.2 ≤ j) ∧
    (∀ t, timeout = some t → (∀ i, env.clock i + 1 ≤ env.clock (i + 1)) → t < fuel →
      ∃ n, (waitForCores mc env st target appId timeout fuel s).2.1 = .done n ∧
        (waitForCores mc env st target appId timeout fuel s).2.2 ≤ t) ∧
    (timeout = none → (∀ i, cnt mc (coresAt env s.m.core i) sts appId < target) →
      (waitForCores mc env st target appId timeout fuel s).2.1 = .outOfFuel) := by
  let P : Nat → Bool := fun i => stops env.clock timeout target i (cnt mc (coresAt env s.m.core i) sts appId)
  have ha' : ∀ j, j < fuel → P j = true →
      ∃ n, (waitForCores mc env st target appId timeout fuel s).2.1 = .done n ∧
        (waitForCores mc env st target appId timeout fuel s).2.2 ≤ j := by
    intro j hj hp
    obtain ⟨j', hj', hp', hbefore⟩ := least_below P (j + 1) ⟨j, by omega, hp⟩
    have h := waitLoop_stop mc env st sts target appId timeout ha hr s.m.core fuel 0 j' s rfl (Nat.zero_le _)
      (by omega) (fun i _ h2 => hbefore i h2) hp'
    exact ⟨_, h.1, by simp only [waitForCores]; rw [h.2.1]; omega⟩
  refine ⟨ha', fun t ht hclk htf => ?_, fun hnone hnever => ?_⟩
  · apply ha' t htf
    have hmono : ∀ i, env.clock 0 + i ≤ env.clock i := by
      intro i
      induction i with
      | zero => omega
      | succ i ih => have := hclk i; omega
    have := hmono (t + 1)
    simp only [P, stops, ht, Bool.or_eq_true, decide_eq_true_eq]
    right; omega
  · have hno : ∀ i, 0 ≤ i → i < 0 + fuel → P i = false := by
      intro i _ _
      have := hnever i
      simp only [P, stops, hnone, Bool.or_false, decide_eq_false_iff_not]
      omega
    exact (waitLoop_nostop mc env st sts target appId timeout ha hr s.m.core fuel 0 s rfl hno).1

/-! ### instances (non-vacuity) -/

/-- the states "wait" and `AppState.run` resolve; "nosuch" and 12 do not -/
example : Resolved (.many [.name "wait", .val 7]) [stWait, stRun] :=
  .many _ _ (.cons rfl (.cons rfl .nil))
example : resolve appStates (.name "nosuch") = .error .valueError ∧
    resolve appStates (.val 12) = .error .valueError := ⟨rfl, rfl⟩
example : resolve appSignals (.name "sync0") = .ok 4 ∧ signalTypes.lookup 4 = some 0 := ⟨rfl, rfl⟩

/-- one chip (0, 0), all cores idle except core 5 waiting under app id 31 -/
def mcS : MCfg := { chips := [(0, 0)], missed := fun _ _ _ => false, sdramSys := 1610612736, vcpuBase := fun _ _ => 3842011136 }
def initS : Sim :=
  { m := { core := fun x y p => if x = 0 ∧ y = 0 ∧ p = 5 then ⟨stWait, 31, [9]⟩ else ⟨stIdle, 0, []⟩,
           rx := { idx := 0, pid := 0, nBlocks := 0, got := 0, next := 0, regs := [], data := [], ok := false },
           fills := 0 }, nn := 0, trace := [] }

/-- a clock that advances by one; during the second sleep core 1 of chip (0, 0) reaches `wait` -/
def envE : Env :=
  { clock := fun i => 100 + i,
    evolve := fun k core x y p => if k = 1 ∧ x = 0 ∧ y = 0 ∧ p = 1 then ⟨stWait, 30, []⟩ else core x y p }

/-- a run that returns because the count is reached (third poll, two sleeps), one that returns
below the count because the deadline passed, and one that would wait forever -/
example : (waitForCores mcS envE (.one (.name "wait")) 1 30 none 10 initS).2 = (.done 1, 2) := by
  decide +kernel
example : (waitForCores mcS envE (.one (.name "wait")) 2 30 (some 3) 10 initS).2 = (.done 1, 3) := by
  decide +kernel
example : (waitForCores mcS envE (.one (.name "wait")) 2 30 none 10 initS).2.1 = .outOfFuel := by
  decide +kernel

end Rig.C09Sig
