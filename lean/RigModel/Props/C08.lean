/-
C08 - bit-field keys are collision-free.  Property theorems about the model
`RigModel/Model/C08.lean` of rig/bitfield.py; proofs by reference to `RigModel/Lemmas/C08*.lean`.

`Reachable L st`: `st` is the field tree after some history of `add_field` / `__call__` /
`assign_fields` (successful or raising half-way) on a `BitField(L)`, with *arbitrary*
instance values at every step (more general than the instances the code can create).
-/
import RigModel.Lemmas.C08Starts
set_option linter.unusedSimpArgs false
set_option linter.unusedVariables false

namespace Rig.C08
open Rig.Gen.BitfieldConsts

/-- translator obligation: `_Field.__init__(max_value=1)` -/
theorem max_value_default : MAX_VALUE_DEFAULT = 1 := by decide

/-! ### the invariant over every history -/

theorem inv_init (L : Nat) : Inv ⟨L, []⟩ :=
  ⟨List.Pairwise.nil, by simp, List.Pairwise.nil, by simp [SpecInRange], by simp [SpecWide], by simp⟩

theorem inv_addField {st st' : State} {fv : Reqs} {ident : Ident} {length : Option Int} {startAt : Option Nat}
    {tags : List String} (hinv : Inv st) (h : addField st fv ident length startAt tags = .ok st') :
    Inv st' ∧ st'.length = st.length :=
  addField_inv max_value_default hinv h

theorem inv_call {st st' : State} {fv fv' : Reqs} {kw : List (Ident × Int)} (hinv : Inv st)
    (h : call st fv kw = .ok (st', fv')) : Inv st' ∧ st'.length = st.length :=
  call_inv hinv h

/-- also for the state left behind by an `assign_fields` that raised -/
theorem inv_assignFields {st : State} (hinv : Inv st) :
    Inv (assignFieldsP st).1 ∧ (assignFieldsP st).1.length = st.length :=
  assignFieldsP_inv hinv

inductive Reachable (L : Nat) : State → Prop
  | init : Reachable L ⟨L, []⟩
  | add {st st' fv ident length startAt tags} :
      Reachable L st → addField st fv ident length startAt tags = .ok st' → Reachable L st'
  | call {st st' fv fv' kw} : Reachable L st → call st fv kw = .ok (st', fv') → Reachable L st'
  | assign {st} : Reachable L st → Reachable L (assignFieldsP st).1
  /-- model-only: before an `assign_fields`, any set of `max_value`s may be marked as "the floating-point length has
  a spare bit" (the driver marks those the implementation shows; the mark only counts from `SPARE_FROM` on) -/
  | spare {st} (g : Nat → Bool) : Reachable L st → Reachable L { st with entries := markSpare g st.entries }

theorem reachable_inv {L : Nat} {st : State} (h : Reachable L st) : Inv st ∧ st.length = L := by
  induction h with
  | init => exact ⟨inv_init L, rfl⟩
  | add _ h ih => obtain ⟨a, b⟩ := inv_addField ih.1 h; exact ⟨a, b.trans ih.2⟩
  | call _ h ih => obtain ⟨a, b⟩ := inv_call ih.1 h; exact ⟨a, b.trans ih.2⟩
  | assign _ ih => obtain ⟨a, b⟩ := inv_assignFields ih.1; exact ⟨a, b.trans ih.2⟩
  | spare g _ ih => exact ⟨inv_markSpare g ih.1, ih.2⟩

/-! ### clause 1: co-presentable fields are disjoint and inside the bit field -/

/-- **assign_disjoint.** After any history (in particular after `assign_fields`), any two fields that can be
present together and have a position occupy disjoint, non-empty bit ranges inside `[0, L)`. -/
theorem assign_disjoint {L : Nat} {st : State} (h : Reachable L st) :
    SpecDisjoint st.entries ∧ SpecInRange L st.entries := by
  obtain ⟨hi, hl⟩ := reachable_inv h
  exact ⟨hi.disjoint, hl ▸ hi.inRange⟩

/-- the same for two fields present in one instance (enabled by the same values) -/
theorem enabled_disjoint {L : Nat} {st : State} (h : Reachable L st) {fv : Reqs} {e e' : Entry}
    (he : e ∈ enabledFields st.entries fv) (he' : e' ∈ enabledFields st.entries fv) :
    e = e' ∨ EntryDisjoint e e' := by
  have hi := (reachable_inv h).1
  simp only [enabledFields, List.mem_filter] at he he'
  rcases pairwise_mem hi.disjoint he.1 he'.1 with h | h | h
  · exact Or.inl h
  · exact Or.inr (h (compatible_of_enabled he.2 he'.2))
  · right
    intro l s l' s' h1 h2 h3 h4
    exact (h (compatible_of_enabled he'.2 he.2) l' s' l s h3 h4 h1 h2).symm

/-- the scope rule: fields that can be present together have different names (so `get_field` is unambiguous) -/
theorem scope_unique {L : Nat} {st : State} (h : Reachable L st) : SpecUnique st.entries :=
  (reachable_inv h).1.unique

/-! ### clause 2: wide enough -/

/-- **wide_enough.** Every length covers the largest value ever given to the field ... -/
theorem wide_enough {L : Nat} {st : State} (h : Reachable L st) : SpecWide st.entries :=
  (reachable_inv h).1.wide

/-- ... and `__call__` rejects a value that does not fit a field whose length is known. -/
theorem call_rejects_wide {st st' : State} {fv fv' : Reqs} {kw : List (Ident × Int)}
    (h : call st fv kw = .ok (st', fv')) :
    ∀ iv ∈ fv', ∃ e, getField st.entries iv.1 fv' = some e ∧ ∀ len, e.field.length = some len → iv.2 < 2 ^ len :=
  call_values_checked h

/-- **auto_length_covers.** The length `assign_fields` chooses for a field without a given length - the exact bit
length of `max_value`, or (only for `max_value ≥ SPARE_FROM = 2^44`, where the implementation's double-precision
logarithm may round up) one bit more - always covers `max_value`, and is never more than one bit above the exact
bit length.  The correspondence demands exactly this of the implementation: equal to the exact bit length below
2^44, and one of the two values from there on (a narrower field is reported by the `wide` oracle). -/
theorem auto_length_covers (f : Field) (h : f.length = none) :
    f.maxValue < 2 ^ f.chosenLen ∧ autoLen f.maxValue ≤ f.chosenLen ∧ f.chosenLen ≤ autoLen f.maxValue + 1 ∧
      (f.maxValue < SPARE_FROM → f.chosenLen = autoLen f.maxValue) := by
  refine ⟨chosenLen_wide_of_none h, ?_, ?_, ?_⟩ <;>
    (unfold Field.chosenLen; rw [h]; simp only; split)
  · omega
  · omega
  · omega
  · omega
  · rename_i hsp
    intro hlt
    simp only [Bool.and_eq_true, decide_eq_true_eq] at hsp
    omega
  · intro _; rfl

/-- **assign_keeps_starts.** `assign_fields` - also one that raises half-way - never moves a field that has a start
position: field by field the tree afterwards is the tree before, with every given `start_at` unchanged.  Together with
`assign_disjoint` / `wide_enough`: if `assign_fields` returns, the explicitly positioned fields that can be present
together did not overlap with the lengths chosen for them - overlapping explicit definitions are never silently
relocated, they make `assign_fields` raise. -/
theorem assign_keeps_starts (st : State) : startsKeptB st.entries (assignFieldsP st).1.entries = true :=
  assignRunP_keeps _ st

/-- what `startsKeptB` says about one field -/
theorem startsKeptB_getElem : ∀ {pre post : List Entry}, startsKeptB pre post = true →
    pre.length = post.length ∧ ∀ n (h : n < pre.length) (h' : n < post.length) s,
      pre[n].field.startAt = some s → post[n].field.startAt = some s ∧ post[n].path = pre[n].path ∧ post[n].ident = pre[n].ident := by
  intro pre
  induction pre with
  | nil =>
    intro post h
    cases post with
    | nil => exact ⟨rfl, fun n hn => absurd hn (by simp)⟩
    | cons b bs => simp [startsKeptB] at h
  | cons a as ih =>
    intro post h
    cases post with
    | nil => simp [startsKeptB] at h
    | cons b bs =>
      simp only [startsKeptB, Bool.and_eq_true, beq_iff_eq] at h
      obtain ⟨⟨⟨hp, hi⟩, hs⟩, ht⟩ := h
      obtain ⟨hlen, hrest⟩ := ih ht
      refine ⟨by simp [hlen], ?_⟩
      intro n hn hn' s hsn
      cases n with
      | zero =>
        simp only [List.getElem_cons_zero] at hsn ⊢
        rw [hsn] at hs
        exact ⟨by simpa using hs, hp.symm, hi.symm⟩
      | succ n =>
        simp only [List.getElem_cons_succ] at hsn ⊢
        exact hrest n (by simpa using hn) (by simpa using hn') s hsn

/-! ### explicit definitions that overlap or overflow are rejected -/

/-- **reject_explicit** (overflow / empty): rejected by `add_field`. -/
theorem reject_explicit_overflow (st : State) (fv : Reqs) (ident : Ident) (l : Int) (s : Nat) (tags : List String)
    (h : l ≤ 0 ∨ s + l.toNat > st.length) :
    addField st fv ident (some l) (some s) tags = .error .valueError := by
  unfold addField
  by_cases h0 : l ≤ 0
  · simp [badLength, h0]
  · have : s + l.toNat > st.length := by omega
    simp [badLength, h0, doesNotFit, orOne, this]

/-- **reject_explicit** (overlap): an explicit definition overlapping a positioned field that can be present with it
is rejected by `add_field`; one whose length is only known later can never be *assigned* overlapping
(`assign_disjoint` holds for the state after every `assign_fields`). -/
theorem reject_explicit {st : State} {fv : Reqs} (ident : Ident) (l : Int) (s : Nat) (tags : List String)
    {x : Entry} (hx : x ∈ st.entries) (hp : x.potential fv = true) {l' s' : Nat}
    (hl' : x.field.length = some l') (hs' : x.field.startAt = some s')
    (hov : ¬ Disjoint s l.toNat s' l') :
    addField st fv ident (some l) (some s) tags = .error .valueError := by
  unfold addField
  simp only [Option.map_some]
  by_cases h0 : l ≤ 0
  · simp [badLength, h0]
  · by_cases h1 : doesNotFit st.length (some l.toNat) (some s) = true
    · simp [badLength, h0, h1]
    · have : overlapsExisting st.entries fv (some l.toNat) (some s) = true := by
        simp only [overlapsExisting, List.any_eq_true]
        refine ⟨x, by simp [potentialFields, List.mem_filter, hx, hp], ?_⟩
        simp only [hs', hl', orOne, overlaps, Bool.and_eq_true, decide_eq_true_eq]
        unfold Disjoint at hov
        refine ⟨decide_eq_true ?_, ?_⟩ <;> omega
      simp [badLength, h0, h1, this]

/-! ### keys and masks

`ValuesFit st.entries fv`: every present field of the instance `fv` that has a value and a length holds a
value below `2^length`.  `__call__` checks this for every field whose length is known (`call_rejects_wide`);
for lengths fixed later it follows from `value ≤ max_value` and `wide_enough` (`valuesFit_of_le_max`). -/

theorem valuesFit_of_le_max {es : List Entry} {fv : Reqs} (hw : SpecWide es)
    (hle : ∀ e ∈ enabledFields es fv, ∀ x, fv.lookup e.ident = some x → x ≤ e.field.maxValue) : ValuesFit es fv := by
  intro e he x l hx hl
  have h1 := hle e he x hx
  have h2 := hw e (List.mem_filter.mp he).1 l hl
  omega

/-- **readback.** For every present field of an instance, the value is read back from `get_value()` at the
position and length that `get_location_and_length` reports. -/
theorem readback {L : Nat} {st : State} (h : Reachable L st) {fv : Reqs} (hfit : ValuesFit st.entries fv) {key : Nat}
    (hk : getValue st.entries fv none none = .ok key) {e : Entry} (he : e ∈ enabledFields st.entries fv)
    {x s l : Nat} (hx : fv.lookup e.ident = some x) (hloc : getLocationAndLength st.entries fv e.ident = .ok (s, l)) :
    ReadBack key s l x := by
  have hi := (reachable_inv h).1
  -- the field that get_location_and_length looks up is e
  unfold getLocationAndLength at hloc
  cases hg : getField st.entries e.ident fv with
  | none => simp [hg] at hloc
  | some e' =>
    obtain ⟨h1, h2, h3⟩ := getField_some hg
    have he0 := List.mem_filter.mp he
    have := eq_of_enabled_same_ident hi.unique h1 he0.1 h2 h3 he0.2
    subst this
    simp only [hg] at hloc
    cases hl : e'.field.length <;> cases hs : e'.field.startAt <;> simp [hl, hs] at hloc
    obtain ⟨rfl, rfl⟩ := hloc
    exact readback_lemma hi.disjoint hfit hk he hx hl hs

/-- **mask_exact.** `get_mask()` has exactly the bits of the present fields ... -/
theorem mask_exact {es : List Entry} {fv : Reqs} {m : Nat} (h : getMask es fv none none = .ok m) (j : Nat) :
    m.testBit j = true ↔ ∃ e ∈ enabledFields es fv, ∃ l s,
      e.field.length = some l ∧ e.field.startAt = some s ∧ s ≤ j ∧ j < s + l := by
  rw [getMask_all h, testBit_unionBits]

/-- ... and `get_mask(tag=t)` exactly the bits of the present fields carrying the tag. -/
theorem mask_exact_tag {es : List Entry} {fv : Reqs} {t : String} {m : Nat}
    (h : getMask es fv (some t) none = .ok m) (j : Nat) :
    m.testBit j = true ↔ ∃ e ∈ enabledFields es fv, t ∈ e.field.tags ∧ ∃ l s,
      e.field.length = some l ∧ e.field.startAt = some s ∧ s ≤ j ∧ j < s + l := by
  rw [getMask_tag h, testBit_unionBits]
  simp only [List.mem_filter, List.contains_iff_mem]
  constructor
  · rintro ⟨e, ⟨he, ht⟩, r⟩; exact ⟨e, he, ht, r⟩
  · rintro ⟨e, he, ht, r⟩; exact ⟨e, ⟨he, ht⟩, r⟩

/-- **orthogonal.** Two instances that give different values to a field present in both produce key/mask pairs
that do not match each other (neither key matches the other pair, and `key & mask' ≠ key' & mask`). -/
theorem orthogonal {L : Nat} {st : State} (h : Reachable L st) {fv fv' : Reqs} {k m k' m' : Nat}
    (hfit : ValuesFit st.entries fv) (hfit' : ValuesFit st.entries fv')
    (hk : getValue st.entries fv none none = .ok k) (hm : getMask st.entries fv none none = .ok m)
    (hk' : getValue st.entries fv' none none = .ok k') (hm' : getMask st.entries fv' none none = .ok m')
    {e : Entry} (he : e ∈ enabledFields st.entries fv) (he' : e ∈ enabledFields st.entries fv') {x x' : Nat}
    (hx : fv.lookup e.ident = some x) (hx' : fv'.lookup e.ident = some x') (hne : x ≠ x') :
    k &&& m' ≠ k' &&& m ∧ ¬ Matches k k' m' ∧ ¬ Matches k' k m :=
  orthogonal_lemma (reachable_inv h).1.disjoint hfit hfit' hk hm hk' hm' he he' hx hx' hne

/-! ### the second invariant: structure of the tree and tag closure -/

theorem inv2_init (L : Nat) : Inv2 ⟨L, []⟩ :=
  ⟨by intro pi hpi; simp [shape] at hpi, by intro e he; simp at he⟩

theorem reachable_inv2 {L : Nat} {st : State} (h : Reachable L st) : Inv2 st := by
  induction h with
  | init => exact inv2_init L
  | add hr h ih => exact addField_inv2 (reachable_inv hr).1 ih h
  | call _ h ih => exact call_inv2 ih h
  | assign _ ih => exact assignFieldsP_inv2 ih
  | spare g _ ih => exact inv2_markSpare g ih

/-- **tree_structure.** Over every history: every child key of the tree is a non-empty tuple of (identifier, value)
pairs whose identifiers are fields of the parent node (so inner nodes are never empty and a field's requirements
name fields that are present with it). -/
theorem tree_structure {L : Nat} {st : State} (h : Reachable L st) : Struct st.entries :=
  (reachable_inv2 h).struct

/-- **tag_closed.** Over every history: every field named in the requirements of a tagged field (and present with
it) carries the tag - `get_mask(tag=t)` / `get_value(tag=t)` always include the fields a tagged field depends on. -/
theorem tag_closed {L : Nat} {st : State} (h : Reachable L st) : SpecTagClosed st.entries :=
  (reachable_inv2 h).tagClosed

/-- the same in terms of `get_field`: for a present field `e` with tag `t`, every identifier of `e`'s requirements
resolves (in the same instance) to a field carrying `t` -/
theorem tag_closed_getField {L : Nat} {st : State} (h : Reachable L st) {fv : Reqs} {e : Entry}
    (he : e ∈ enabledFields st.entries fv) {t : String} (ht : t ∈ e.field.tags) {i : Ident} {v : Nat}
    (hiv : (i, v) ∈ e.reqs) : ∃ p, getField st.entries i fv = some p ∧ t ∈ p.field.tags := by
  have hi := (reachable_inv h).1
  have hi2 := reachable_inv2 h
  obtain ⟨he1, he2⟩ := List.mem_filter.mp he
  obtain ⟨y, hy, hyi, hye⟩ := parent_exists hi2.struct hi.selfc he1 hiv
  have hfv : ∀ iv ∈ e.reqs, fv.lookup iv.1 = some iv.2 := (enabled_iff fv e).mp he2
  have hyfv : y.enabled fv = true := by
    rw [enabled_iff]; intro jw hjw
    exact hfv jw (lookup_mem ((enabled_iff _ _).mp hye jw hjw))
  cases hg : getField st.entries i fv with
  | none =>
    unfold getField at hg
    rw [List.find?_eq_none] at hg
    have := hg y hy
    simp [hyi, hyfv] at this
  | some p =>
    obtain ⟨h1, h2, h3⟩ := getField_some hg
    have := eq_of_enabled_same_ident hi.unique h1 hy (h2.trans hyi.symm) h3 hyfv
    subst this
    exact ⟨p, rfl, hi2.tagClosed e he1 p hy ⟨v, hyi ▸ hiv⟩ hye t ht⟩

/-! ### after a successful `assign_fields` every field has a position and a length -/

/-- **all_fixed_after_assign.** -/
theorem all_fixed_after_assign {L : Nat} {st st' : State} (h : Reachable L st)
    (ha : assignFields st = .ok st') : AllFixed st'.entries :=
  allFixed_of_assign (reachable_inv h).1 (reachable_inv2 h).struct ha

/-- hence every getter of every instance whose present fields all have values succeeds -/
theorem getMask_ok_after_assign {L : Nat} {st st' : State} (h : Reachable L st)
    (ha : assignFields st = .ok st') (fv : Reqs) : ∃ m, getMask st'.entries fv none none = .ok m := by
  have hf := all_fixed_after_assign h ha
  unfold getMask selectFields
  simp only
  split
  · rename_i hany
    simp only [List.any_eq_true, Bool.not_eq_true'] at hany
    obtain ⟨e, he, hfalse⟩ := hany
    have := hf e (List.mem_filter.mp he).1
    rw [this] at hfalse; exact absurd hfalse (by simp)
  · exact ⟨_, rfl⟩

/-! ### histories with their instances

`ReachableI L st insts`: `st` is the tree and `insts` the `field_values` dicts of all `BitField` instances created
so far (the root instance `{}` first), exactly as the code creates them: `__call__` on an existing instance
appends one.  `add_field` is allowed with arbitrary values (more general than the code). -/

inductive ReachableI (L : Nat) : State → List Reqs → Prop
  | init : ReachableI L ⟨L, []⟩ [[]]
  | add {st st' insts fv ident length startAt tags} :
      ReachableI L st insts → addField st fv ident length startAt tags = .ok st' → ReachableI L st' insts
  | call {st st' insts fv fv' kw} : ReachableI L st insts → fv ∈ insts → call st fv kw = .ok (st', fv') →
      ReachableI L st' (insts ++ [fv'])
  | assign {st insts} : ReachableI L st insts → ReachableI L (assignFieldsP st).1 insts
  | spare {st insts} (g : Nat → Bool) : ReachableI L st insts →
      ReachableI L { st with entries := markSpare g st.entries } insts

theorem reachableI_reachable {L : Nat} {st : State} {insts : List Reqs} (h : ReachableI L st insts) :
    Reachable L st := by
  induction h with
  | init => exact Reachable.init
  | add _ h ih => exact Reachable.add ih h
  | call _ _ h ih => exact Reachable.call ih h
  | assign _ ih => exact Reachable.assign ih
  | spare g _ ih => exact Reachable.spare g ih

/-- **instance invariant**: every value of every instance names a field present in that instance and is at most
that field's `max_value` -/
theorem reachableI_instOK {L : Nat} {st : State} {insts : List Reqs} (h : ReachableI L st insts) :
    ∀ fv ∈ insts, InstOK st.entries fv := by
  induction h with
  | init => intro fv hfv; simp at hfv; subst hfv; intro iv hiv; simp at hiv
  | add _ h ih => exact fun fv hfv => addField_instOK h (ih fv hfv)
  | call hr _ h ih =>
    obtain ⟨hnew, hold⟩ := call_instOK (reachable_inv (reachableI_reachable hr)).1 h
    intro fv hfv
    rcases List.mem_append.mp hfv with hfv | hfv
    · exact hold fv (ih fv hfv)
    · simp at hfv; subst hfv; exact hnew
  | assign _ ih => exact fun fv hfv => assignFieldsP_instOK (ih fv hfv)
  | spare g _ ih => exact fun fv hfv => instOK_markSpare g (ih fv hfv)

/-- **values_fit.** Over every history, every value of every instance fits the length of the field holding it
(whenever that length is known): the `ValuesFit` hypothesis of `readback` / `orthogonal` holds for every instance
the code can create. -/
theorem values_fit {L : Nat} {st : State} {insts : List Reqs} (h : ReachableI L st insts) {fv : Reqs}
    (hfv : fv ∈ insts) : ValuesFit st.entries fv :=
  valuesFit_of_instOK (reachable_inv (reachableI_reachable h)).1 (reachableI_instOK h fv hfv)

/-- the decidable forms evaluated by the oracle on the implementation's instances are the predicates above -/
theorem instOKB_iff (es : List Entry) (fv : Reqs) : instOKB es fv = true ↔ InstOK es fv := by
  simp only [instOKB, InstOK, ValOK, List.all_eq_true, List.any_eq_true, Bool.and_eq_true, beq_iff_eq,
    decide_eq_true_eq, and_assoc]

theorem valuesFitB_iff (es : List Entry) (fv : Reqs) : valuesFitB es fv = true ↔ ValuesFit es fv := by
  simp only [valuesFitB, ValuesFit, List.all_eq_true]
  constructor
  · intro h e he x l hx hl
    have := h e he
    simpa [hx, hl] using this
  · intro h e he
    cases hx : fv.lookup e.ident <;> cases hl : e.field.length <;> simp
    exact h e he _ _ hx hl

/-- **readback_instance.** `readback` for every instance of every history, without side condition. -/
theorem readback_instance {L : Nat} {st : State} {insts : List Reqs} (h : ReachableI L st insts) {fv : Reqs}
    (hfv : fv ∈ insts) {key : Nat} (hk : getValue st.entries fv none none = .ok key) {e : Entry}
    (he : e ∈ enabledFields st.entries fv) {x s l : Nat} (hx : fv.lookup e.ident = some x)
    (hloc : getLocationAndLength st.entries fv e.ident = .ok (s, l)) : ReadBack key s l x :=
  readback (reachableI_reachable h) (values_fit h hfv) hk he hx hloc

/-- **instances_differ_on_common.** Two instances of one history whose dicts differ (as mappings) differ on a
field that is present in both.  (For arbitrary dicts this needs "every key names a present field":
`{zz: 1}` and `{}` differ on no field.) -/
theorem instances_differ_on_common {L : Nat} {st : State} {insts : List Reqs} (h : ReachableI L st insts)
    {fv fv' : Reqs} (hfv : fv ∈ insts) (hfv' : fv' ∈ insts) (hne : ∃ i, fv.lookup i ≠ fv'.lookup i) :
    ∃ e, e ∈ enabledFields st.entries fv ∧ e ∈ enabledFields st.entries fv' ∧
      fv.lookup e.ident ≠ fv'.lookup e.ident := by
  have hi := reachableI_instOK h
  obtain ⟨e, he, h1, h2, h3⟩ := differ_on_common (reachable_inv2 (reachableI_reachable h)).struct
    (fun iv hiv => by obtain ⟨e, he, a, b, _⟩ := hi fv hfv iv hiv; exact ⟨e, he, a, b⟩)
    (fun iv hiv => by obtain ⟨e, he, a, b, _⟩ := hi fv' hfv' iv hiv; exact ⟨e, he, a, b⟩) hne
  exact ⟨e, List.mem_filter.mpr ⟨he, h1⟩, List.mem_filter.mpr ⟨he, h2⟩, h3⟩

/-- **orthogonal_instances.** Any two *different* complete value assignments (instances of one history for which
`get_value()` succeeds) produce key/mask pairs that do not match each other - no side condition. -/
theorem orthogonal_instances {L : Nat} {st : State} {insts : List Reqs} (h : ReachableI L st insts)
    {fv fv' : Reqs} (hfv : fv ∈ insts) (hfv' : fv' ∈ insts) {k m k' m' : Nat}
    (hk : getValue st.entries fv none none = .ok k) (hm : getMask st.entries fv none none = .ok m)
    (hk' : getValue st.entries fv' none none = .ok k') (hm' : getMask st.entries fv' none none = .ok m')
    (hne : ∃ i, fv.lookup i ≠ fv'.lookup i) :
    k &&& m' ≠ k' &&& m ∧ ¬ Matches k k' m' ∧ ¬ Matches k' k m :=
  orthogonal_complete_lemma (reachable_inv (reachableI_reachable h)).1
    (reachable_inv2 (reachableI_reachable h)).struct (reachableI_instOK h fv hfv) (reachableI_instOK h fv' hfv')
    hk hm hk' hm' hne

/-! ### completeness for nested scopes

`SCAN_SLACK = 1` is the repaired scan bound `range(0, self.length - length + 1)` of `_assign_field`; the constant is
regenerated from the source on every run.  With the unrepaired bound (0) the statement is false (`BitField(8)`,
one 8-bit field).  Without `Nested` it is false as well (known finding complete-floating-cross-scope). -/

/-- **complete_floating_chains.** After any history that positioned nothing explicitly, if scopes are nested
(fields that can be present together lie on one root-to-leaf chain of nodes) and along every such chain the widths
(given length, else the length `assign_fields` will choose from `max_value`) sum to at most the bit-field length,
`assign_fields` succeeds. -/
theorem complete_floating_chains (hs : SCAN_SLACK = 1) {L : Nat} {st : State} (h : Reachable L st)
    (hF : ∀ e ∈ st.entries, e.field.startAt = none) (hn : Nested st.entries)
    (hchain : ∀ e ∈ st.entries, ((st.entries.filter fun y => y.path.isPrefixOf e.path).map (·.width)).sum ≤ L) :
    ∃ st', assignFields st = .ok st' := by
  obtain ⟨hinv, hlen⟩ := reachable_inv h
  have hnone : (assignFieldsP st).2 = none := by
    refine complete_floating_lemma hs hinv (reachable_inv2 h).struct hF hn ?_
    intro x hx
    simp only [skel, List.mem_map] at hx
    obtain ⟨e, he, rfl⟩ := hx
    have := hchain e he
    rw [hlen]
    refine Nat.le_trans (Nat.le_of_eq ?_) this
    simp only [segSum, skel, List.filter_map, List.map_map]
    rfl
  unfold assignFields
  generalize assignFieldsP st = r at hnone
  obtain ⟨st', oe⟩ := r
  simp only at hnone
  subst hnone
  exact ⟨st', rfl⟩

theorem compatibleB_iff (r r' : Reqs) : compatibleB r r' = true ↔ compatible r r' := by
  simp only [compatibleB, compatible, List.all_eq_true, Bool.or_eq_true, Bool.not_eq_true', beq_eq_false_iff_ne,
    beq_iff_eq, Prod.forall]
  constructor
  · intro h i v v' hv hv'
    rcases h i v hv i v' hv' with h | h
    · exact absurd rfl h
    · exact h
  · intro h i v hv j v' hv'
    by_cases hij : i = j
    · subst hij; exact Or.inr (h i v v' hv hv')
    · exact Or.inl hij

theorem pairwiseB_iff (r : Entry → Entry → Bool) (es : List Entry) :
    pairwiseB r es = true ↔ es.Pairwise fun a b => r a b = true := by
  induction es with
  | nil => simp [pairwiseB]
  | cons e es ih => simp [pairwiseB, ih, List.all_eq_true]

theorem nested_of_nestedB {es : List Entry} (h : nestedB es = true) : Nested es := by
  unfold nestedB at h
  rw [pairwiseB_iff] at h
  intro e he e' he' hc
  have key : ∀ a b : Entry, compatible a.reqs b.reqs →
      (!compatibleB a.reqs b.reqs || a.path.isPrefixOf b.path || b.path.isPrefixOf a.path) = true →
      a.path <+: b.path ∨ b.path <+: a.path := by
    intro a b hab hr
    have : compatibleB a.reqs b.reqs = true := (compatibleB_iff _ _).mpr hab
    simp only [this, Bool.not_true, Bool.false_or, Bool.or_eq_true, isPrefixOf_iff] at hr
    exact hr
  rcases pairwise_mem h he he' with rfl | h1 | h1
  · exact Or.inl (List.prefix_refl _)
  · exact key e e' hc h1
  · exact (key e' e (compatible_symm hc) h1).symm

theorem filter_mem_sublists (p : Entry → Bool) (es : List Entry) : es.filter p ∈ sublists es := by
  induction es with
  | nil => simp [sublists]
  | cons e es ih =>
    simp only [sublists, List.filter_cons, List.mem_append, List.mem_map]
    split
    · exact Or.inr ⟨_, ih, rfl⟩
    · exact Or.inl ih

theorem pairwiseB_of_forall {r : Entry → Entry → Bool} {l : List Entry} (h : ∀ a ∈ l, ∀ b ∈ l, r a b = true) :
    pairwiseB r l = true := by
  induction l with
  | nil => rfl
  | cons e es ih =>
    simp only [pairwiseB, Bool.and_eq_true, List.all_eq_true]
    exact ⟨fun b hb => h e List.mem_cons_self b (List.mem_cons_of_mem _ hb),
      ih (fun a ha b hb => h a (List.mem_cons_of_mem _ ha) b (List.mem_cons_of_mem _ hb))⟩

/-- **complete_floating.** The completeness clause in the form the oracle evaluates (`floatingFitsB`: nothing is
positioned and the widths of every set of fields that can be present together sum to at most the length) for nested
scopes (`nestedB`): `assign_fields` succeeds. -/
theorem complete_floating (hs : SCAN_SLACK = 1) {L : Nat} {st : State} (h : Reachable L st)
    (hfit : floatingFitsB L st.entries = true) (hn : nestedB st.entries = true) :
    ∃ st', assignFields st = .ok st' := by
  have hinv := (reachable_inv h).1
  simp only [floatingFitsB, Bool.and_eq_true, List.all_eq_true, Option.isNone_iff_eq_none, Bool.or_eq_true,
    Bool.not_eq_true', decide_eq_true_eq] at hfit
  obtain ⟨hF, hsub⟩ := hfit
  refine complete_floating_chains hs h hF (nested_of_nestedB hn) ?_
  intro e he
  rcases hsub _ (filter_mem_sublists (fun y => y.path.isPrefixOf e.path) st.entries) with hbad | hgood
  · exfalso
    have : pairwiseB (fun a b => compatibleB a.reqs b.reqs)
        (st.entries.filter fun y => y.path.isPrefixOf e.path) = true := by
      refine pairwiseB_of_forall ?_
      intro a ha b hb
      rw [compatibleB_iff]
      simp only [List.mem_filter, isPrefixOf_iff] at ha hb
      have sub : ∀ y : Entry, y.path <+: e.path → ∀ iv ∈ y.reqs, iv ∈ e.reqs := by
        intro y hy iv hiv
        simp only [Entry.reqs, List.mem_flatten] at hiv ⊢
        obtain ⟨k, hk, hivk⟩ := hiv
        exact ⟨k, hy.subset hk, hivk⟩
      intro i v v' hv hv'
      exact hinv.selfc e he i v v' (sub a ha.2 _ hv) (sub b hb.2 _ hv')
    rw [this] at hbad; cases hbad
  · exact hgood

/-! non-vacuity: a reachable state with two scopes, after assignment -/
example : ∃ st, Reachable 8 st ∧ st.entries.length = 1 ∧ allFixedB st.entries = true := by
  refine ⟨_, Reachable.assign (Reachable.add (fv := []) (ident := "a") (length := some 3) (startAt := none)
    (tags := []) Reachable.init rfl), ?_, ?_⟩ <;> decide

/-- non-vacuity of the key theorems: a 3-bit field `a` placed behind an explicit 2-bit field `b`; the instance a=5, b=2
has key 0b10110 and mask 0b11111, and its values fit -/
example : ∃ st fv, Reachable 8 st ∧ getValue st.entries fv none none = .ok 22 ∧ getMask st.entries fv none none = .ok 31 ∧
    ValuesFit st.entries fv := by
  refine ⟨_, [("a", 5), ("b", 2)], Reachable.assign (Reachable.add (fv := []) (ident := "b") (length := some 2)
    (startAt := some 0) (tags := []) (Reachable.add (fv := []) (ident := "a") (length := some 3) (startAt := none)
    (tags := ["t"]) Reachable.init rfl) rfl), by rfl, by rfl, ?_⟩
  intro e he x l hx hl
  have : e ∈ [(⟨[], "a", ⟨some 3, some 2, ["t"], 1, false⟩⟩ : Entry), ⟨[], "b", ⟨some 2, some 0, [], 1, false⟩⟩] := by
    have hd : enabledFields (assignFieldsP ⟨8, [⟨[], "a", ⟨some 3, none, ["t"], 1, false⟩⟩, ⟨[], "b", ⟨some 2, some 0, [], 1, false⟩⟩]⟩).1.entries
        [("a", 5), ("b", 2)] = [⟨[], "a", ⟨some 3, some 2, ["t"], 1, false⟩⟩, ⟨[], "b", ⟨some 2, some 0, [], 1, false⟩⟩] := by decide
    exact hd ▸ he
  simp only [List.mem_cons, List.mem_nil_iff, or_false] at this
  rcases this with rfl | rfl
  · simp [List.lookup] at hx hl; subst hx hl; decide
  · simp [List.lookup] at hx hl; subst hx hl; decide

/-- non-vacuity of `tag_closed` / `tree_structure`: a tagged field `b` in the scope a=0 passes its tag to `a` -/
example : ∃ st, Reachable 8 st ∧
    (st.entries.map fun e => (e.ident, e.path, e.field.tags)) = [("a", [], ["t"]), ("b", [[("a", 0)]], ["t"])] := by
  refine ⟨_, Reachable.add (fv := [("a", 0)]) (ident := "b") (length := none) (startAt := none) (tags := ["t"])
    (Reachable.add (fv := []) (ident := "a") (length := none) (startAt := none) (tags := []) Reachable.init rfl) rfl, ?_⟩
  decide

/-- non-vacuity of the instance theorems: two different complete instances (a=1 with b=2 in its scope, and a=0) of
one history, both with keys -/
example : ∃ st insts fv fv', ReachableI 8 st insts ∧ fv ∈ insts ∧ fv' ∈ insts ∧
    getValue st.entries fv none none = .ok 6 ∧ getValue st.entries fv' none none = .ok 0 ∧
    getMask st.entries fv none none = .ok 7 ∧ getMask st.entries fv' none none = .ok 4 ∧
    (∃ i, fv.lookup i ≠ fv'.lookup i) := by
  refine ⟨_, _, [("b", 2), ("a", 1)], [("a", 0)],
    ReachableI.call (fv := []) (kw := [("a", 0)])
      (ReachableI.assign
        (ReachableI.call (fv := [("a", 1)]) (kw := [("b", 2)])
          (ReachableI.add (fv := [("a", 1)]) (ident := "b") (length := some 2) (startAt := none) (tags := [])
            (ReachableI.call (fv := []) (kw := [("a", 1)])
              (ReachableI.add (fv := []) (ident := "a") (length := some 1) (startAt := none) (tags := [])
                ReachableI.init rfl)
              (by simp) rfl) rfl)
          (by simp) rfl))
      (by simp) rfl, by simp, by simp, by rfl, by rfl, by rfl, by rfl, ⟨"a", by decide⟩⟩

/-- non-vacuity of the completeness theorems: a 2-bit field `a` with a 3-bit field `b` in scope a=1 and a 1-bit field
`c` in scope a=0, nothing positioned, nested, in a 5-bit bit field (a 4-bit one does not fit) -/
example : ∃ st, Reachable 5 st ∧ st.entries.length = 3 ∧ floatingFitsB 5 st.entries = true ∧
    nestedB st.entries = true ∧ floatingFitsB 4 st.entries = false := by
  refine ⟨_, Reachable.add (fv := [("a", 0)]) (ident := "c") (length := some 1) (startAt := none) (tags := [])
    (Reachable.add (fv := [("a", 1)]) (ident := "b") (length := some 3) (startAt := none) (tags := [])
      (Reachable.add (fv := []) (ident := "a") (length := some 2) (startAt := none) (tags := [])
        Reachable.init rfl) rfl) rfl, ?_, ?_, ?_, ?_⟩ <;> decide

/-- non-vacuity of the spare-bit rule: for max_value 2^48 - 1 (where CPython's `int(log(v, 2)) + 1` gives 49) the marked
field gets 49 bits, the unmarked one the exact 48; below 2^44 the mark has no effect -/
example : Field.chosenLen ⟨none, none, [], 2 ^ 48 - 1, true⟩ = 49 ∧ Field.chosenLen ⟨none, none, [], 2 ^ 48 - 1, false⟩ = 48 ∧
    Field.chosenLen ⟨none, none, [], 2 ^ 31 - 1, true⟩ = 31 := by
  refine ⟨?_, ?_, ?_⟩ <;> decide +kernel

end Rig.C08
