/-
C08 - bit-field keys are collision-free.  Property theorems.
-/
import RigModel.Model.C08
set_option linter.unusedSimpArgs false
set_option linter.unusedVariables false

namespace Rig.C08

end Rig.C08
