/-
C08 - bit-field keys are collision-free.  Property theorems about the model
`RigModel/Model/C08.lean` of rig/bitfield.py; proofs by reference to `RigModel/Lemmas/C08*.lean`.

`Reachable L st`: `st` is the field tree after some history of `add_field` / `__call__` /
`assign_fields` (successful or raising half-way) on a `BitField(L)`, with *arbitrary*
instance values at every step (more general than the instances the code can create).
-/
import RigModel.Lemmas.C08Key
set_option linter.unusedSimpArgs false
set_option linter.unusedVariables false

namespace Rig.C08
open Rig.Gen.BitfieldConsts

/-- translator obligation: `_Field.__init__(max_value=1)` -/
theorem max_value_default : MAX_VALUE_DEFAULT = 1 := by decide

/-! ### the invariant over every history -/

theorem inv_init (L : Nat) : Inv ⟨L, []⟩ :=
  ⟨List.Pairwise.nil, by simp, List.Pairwise.nil, by simp [SpecInRange], by simp [SpecWide], by simp⟩

theorem inv_addField {st st' : State} {fv : Reqs} {ident : Ident} {length : Option Int} {startAt : Option Nat}
    {tags : List String} (hinv : Inv st) (h : addField st fv ident length startAt tags = .ok st') :
    Inv st' ∧ st'.length = st.length :=
  addField_inv max_value_default hinv h

theorem inv_call {st st' : State} {fv fv' : Reqs} {kw : List (Ident × Int)} (hinv : Inv st)
    (h : call st fv kw = .ok (st', fv')) : Inv st' ∧ st'.length = st.length :=
  call_inv hinv h

/-- also for the state left behind by an `assign_fields` that raised -/
theorem inv_assignFields {st : State} (hinv : Inv st) :
    Inv (assignFieldsP st).1 ∧ (assignFieldsP st).1.length = st.length :=
  assignFieldsP_inv hinv

inductive Reachable (L : Nat) : State → Prop
  | init : Reachable L ⟨L, []⟩
  | add {st st' fv ident length startAt tags} :
      Reachable L st → addField st fv ident length startAt tags = .ok st' → Reachable L st'
  | call {st st' fv fv' kw} : Reachable L st → call st fv kw = .ok (st', fv') → Reachable L st'
  | assign {st} : Reachable L st → Reachable L (assignFieldsP st).1

theorem reachable_inv {L : Nat} {st : State} (h : Reachable L st) : Inv st ∧ st.length = L := by
  induction h with
  | init => exact ⟨inv_init L, rfl⟩
  | add _ h ih => obtain ⟨a, b⟩ := inv_addField ih.1 h; exact ⟨a, b.trans ih.2⟩
  | call _ h ih => obtain ⟨a, b⟩ := inv_call ih.1 h; exact ⟨a, b.trans ih.2⟩
  | assign _ ih => obtain ⟨a, b⟩ := inv_assignFields ih.1; exact ⟨a, b.trans ih.2⟩

/-! ### clause 1: co-presentable fields are disjoint and inside the bit field -/

/-- **assign_disjoint.** After any history (in particular after `assign_fields`), any two fields that can be
present together and have a position occupy disjoint, non-empty bit ranges inside `[0, L)`. -/
theorem assign_disjoint {L : Nat} {st : State} (h : Reachable L st) :
    SpecDisjoint st.entries ∧ SpecInRange L st.entries := by
  obtain ⟨hi, hl⟩ := reachable_inv h
  exact ⟨hi.disjoint, hl ▸ hi.inRange⟩

/-- the same for two fields present in one instance (enabled by the same values) -/
theorem enabled_disjoint {L : Nat} {st : State} (h : Reachable L st) {fv : Reqs} {e e' : Entry}
    (he : e ∈ enabledFields st.entries fv) (he' : e' ∈ enabledFields st.entries fv) :
    e = e' ∨ EntryDisjoint e e' := by
  have hi := (reachable_inv h).1
  simp only [enabledFields, List.mem_filter] at he he'
  rcases pairwise_mem hi.disjoint he.1 he'.1 with h | h | h
  · exact Or.inl h
  · exact Or.inr (h (compatible_of_enabled he.2 he'.2))
  · right
    intro l s l' s' h1 h2 h3 h4
    exact (h (compatible_of_enabled he'.2 he.2) l' s' l s h3 h4 h1 h2).symm

/-- the scope rule: fields that can be present together have different names (so `get_field` is unambiguous) -/
theorem scope_unique {L : Nat} {st : State} (h : Reachable L st) : SpecUnique st.entries :=
  (reachable_inv h).1.unique

/-! ### clause 2: wide enough -/

/-- **wide_enough.** Every length covers the largest value ever given to the field ... -/
theorem wide_enough {L : Nat} {st : State} (h : Reachable L st) : SpecWide st.entries :=
  (reachable_inv h).1.wide

/-- ... and `__call__` rejects a value that does not fit a field whose length is known. -/
theorem call_rejects_wide {st st' : State} {fv fv' : Reqs} {kw : List (Ident × Int)}
    (h : call st fv kw = .ok (st', fv')) :
    ∀ iv ∈ fv', ∃ e, getField st.entries iv.1 fv' = some e ∧ ∀ len, e.field.length = some len → iv.2 < 2 ^ len :=
  call_values_checked h

/-! ### explicit definitions that overlap or overflow are rejected -/

/-- **reject_explicit** (overflow / empty): rejected by `add_field`. -/
theorem reject_explicit_overflow (st : State) (fv : Reqs) (ident : Ident) (l : Int) (s : Nat) (tags : List String)
    (h : l ≤ 0 ∨ s + l.toNat > st.length) :
    addField st fv ident (some l) (some s) tags = .error .valueError := by
  unfold addField
  by_cases h0 : l ≤ 0
  · simp [badLength, h0]
  · have : s + l.toNat > st.length := by omega
    simp [badLength, h0, doesNotFit, orOne, this]

/-- **reject_explicit** (overlap): an explicit definition overlapping a positioned field that can be present with it
is rejected by `add_field`; one whose length is only known later can never be *assigned* overlapping
(`assign_disjoint` holds for the state after every `assign_fields`). -/
theorem reject_explicit {st : State} {fv : Reqs} (ident : Ident) (l : Int) (s : Nat) (tags : List String)
    {x : Entry} (hx : x ∈ st.entries) (hp : x.potential fv = true) {l' s' : Nat}
    (hl' : x.field.length = some l') (hs' : x.field.startAt = some s')
    (hov : ¬ Disjoint s l.toNat s' l') :
    addField st fv ident (some l) (some s) tags = .error .valueError := by
  unfold addField
  simp only [Option.map_some]
  by_cases h0 : l ≤ 0
  · simp [badLength, h0]
  · by_cases h1 : doesNotFit st.length (some l.toNat) (some s) = true
    · simp [badLength, h0, h1]
    · have : overlapsExisting st.entries fv (some l.toNat) (some s) = true := by
        simp only [overlapsExisting, List.any_eq_true]
        refine ⟨x, by simp [potentialFields, List.mem_filter, hx, hp], ?_⟩
        simp only [hs', hl', orOne, overlaps, Bool.and_eq_true, decide_eq_true_eq]
        unfold Disjoint at hov
        refine ⟨decide_eq_true ?_, ?_⟩ <;> omega
      simp [badLength, h0, h1, this]

/-! ### keys and masks

`ValuesFit st.entries fv`: every present field of the instance `fv` that has a value and a length holds a
value below `2^length`.  `__call__` checks this for every field whose length is known (`call_rejects_wide`);
for lengths fixed later it follows from `value ≤ max_value` and `wide_enough` (`valuesFit_of_le_max`). -/

theorem valuesFit_of_le_max {es : List Entry} {fv : Reqs} (hw : SpecWide es)
    (hle : ∀ e ∈ enabledFields es fv, ∀ x, fv.lookup e.ident = some x → x ≤ e.field.maxValue) : ValuesFit es fv := by
  intro e he x l hx hl
  have h1 := hle e he x hx
  have h2 := hw e (List.mem_filter.mp he).1 l hl
  omega

/-- **readback.** For every present field of an instance, the value is read back from `get_value()` at the
position and length that `get_location_and_length` reports. -/
theorem readback {L : Nat} {st : State} (h : Reachable L st) {fv : Reqs} (hfit : ValuesFit st.entries fv) {key : Nat}
    (hk : getValue st.entries fv none none = .ok key) {e : Entry} (he : e ∈ enabledFields st.entries fv)
    {x s l : Nat} (hx : fv.lookup e.ident = some x) (hloc : getLocationAndLength st.entries fv e.ident = .ok (s, l)) :
    ReadBack key s l x := by
  have hi := (reachable_inv h).1
  -- the field that get_location_and_length looks up is e
  unfold getLocationAndLength at hloc
  cases hg : getField st.entries e.ident fv with
  | none => simp [hg] at hloc
  | some e' =>
    obtain ⟨h1, h2, h3⟩ := getField_some hg
    have he0 := List.mem_filter.mp he
    have := eq_of_enabled_same_ident hi.unique h1 he0.1 h2 h3 he0.2
    subst this
    simp only [hg] at hloc
    cases hl : e'.field.length <;> cases hs : e'.field.startAt <;> simp [hl, hs] at hloc
    obtain ⟨rfl, rfl⟩ := hloc
    exact readback_lemma hi.disjoint hfit hk he hx hl hs

/-- **mask_exact.** `get_mask()` has exactly the bits of the present fields ... -/
theorem mask_exact {es : List Entry} {fv : Reqs} {m : Nat} (h : getMask es fv none none = .ok m) (j : Nat) :
    m.testBit j = true ↔ ∃ e ∈ enabledFields es fv, ∃ l s,
      e.field.length = some l ∧ e.field.startAt = some s ∧ s ≤ j ∧ j < s + l := by
  rw [getMask_all h, testBit_unionBits]

/-- ... and `get_mask(tag=t)` exactly the bits of the present fields carrying the tag. -/
theorem mask_exact_tag {es : List Entry} {fv : Reqs} {t : String} {m : Nat}
    (h : getMask es fv (some t) none = .ok m) (j : Nat) :
    m.testBit j = true ↔ ∃ e ∈ enabledFields es fv, t ∈ e.field.tags ∧ ∃ l s,
      e.field.length = some l ∧ e.field.startAt = some s ∧ s ≤ j ∧ j < s + l := by
  rw [getMask_tag h, testBit_unionBits]
  simp only [List.mem_filter, List.contains_iff_mem]
  constructor
  · rintro ⟨e, ⟨he, ht⟩, r⟩; exact ⟨e, he, ht, r⟩
  · rintro ⟨e, he, ht, r⟩; exact ⟨e, ⟨he, ht⟩, r⟩

/-- **orthogonal.** Two instances that give different values to a field present in both produce key/mask pairs
that do not match each other (neither key matches the other pair, and `key & mask' ≠ key' & mask`). -/
theorem orthogonal {L : Nat} {st : State} (h : Reachable L st) {fv fv' : Reqs} {k m k' m' : Nat}
    (hfit : ValuesFit st.entries fv) (hfit' : ValuesFit st.entries fv')
    (hk : getValue st.entries fv none none = .ok k) (hm : getMask st.entries fv none none = .ok m)
    (hk' : getValue st.entries fv' none none = .ok k') (hm' : getMask st.entries fv' none none = .ok m')
    {e : Entry} (he : e ∈ enabledFields st.entries fv) (he' : e ∈ enabledFields st.entries fv') {x x' : Nat}
    (hx : fv.lookup e.ident = some x) (hx' : fv'.lookup e.ident = some x') (hne : x ≠ x') :
    k &&& m' ≠ k' &&& m ∧ ¬ Matches k k' m' ∧ ¬ Matches k' k m :=
  orthogonal_lemma (reachable_inv h).1.disjoint hfit hfit' hk hm hk' hm' he he' hx hx' hne

/-! non-vacuity: a reachable state with two scopes, after assignment -/
example : ∃ st, Reachable 8 st ∧ st.entries.length = 1 ∧ allFixedB st.entries = true := by
  refine ⟨_, Reachable.assign (Reachable.add (fv := []) (ident := "a") (length := some 3) (startAt := none)
    (tags := []) Reachable.init rfl), ?_, ?_⟩ <;> decide

/-- non-vacuity of the key theorems: a 3-bit field `a` placed behind an explicit 2-bit field `b`; the instance a=5, b=2
has key 0b10110 and mask 0b11111, and its values fit -/
example : ∃ st fv, Reachable 8 st ∧ getValue st.entries fv none none = .ok 22 ∧ getMask st.entries fv none none = .ok 31 ∧
    ValuesFit st.entries fv := by
  refine ⟨_, [("a", 5), ("b", 2)], Reachable.assign (Reachable.add (fv := []) (ident := "b") (length := some 2)
    (startAt := some 0) (tags := []) (Reachable.add (fv := []) (ident := "a") (length := some 3) (startAt := none)
    (tags := ["t"]) Reachable.init rfl) rfl), by rfl, by rfl, ?_⟩
  intro e he x l hx hl
  have : e ∈ [(⟨[], "a", ⟨some 3, some 2, ["t"], 1⟩⟩ : Entry), ⟨[], "b", ⟨some 2, some 0, [], 1⟩⟩] := by
    have hd : enabledFields (assignFieldsP ⟨8, [⟨[], "a", ⟨some 3, none, ["t"], 1⟩⟩, ⟨[], "b", ⟨some 2, some 0, [], 1⟩⟩]⟩).1.entries
        [("a", 5), ("b", 2)] = [⟨[], "a", ⟨some 3, some 2, ["t"], 1⟩⟩, ⟨[], "b", ⟨some 2, some 0, [], 1⟩⟩] := by decide
    exact hd ▸ he
  simp only [List.mem_cons, List.mem_nil_iff, or_false] at this
  rcases this with rfl | rfl
  · simp [List.lookup] at hx hl; subst hx hl; decide
  · simp [List.lookup] at hx hl; subst hx hl; decide

end Rig.C08
