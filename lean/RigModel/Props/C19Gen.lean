/-
C19 - translator tie: the bodies of `spinn5_local_eth_coord`, `spinn5_chip_coord` and
`spinn5_fpga_link` (rig/geometry.py) are regenerated from the source into `Gen/PyFun.lean`;
they are proved equal to the model functions the C19 theorems are about.  Second round: the generator
`spinn5_eth_coords` (three nested `for` loops, every loop body a generated definition of its own) and
`standard_system_dimensions` (early returns, `raise`, `int(sqrt(..))`, a `for` loop over a reversed range that is
left by `break` and whose variable is read afterwards).
-/
import RigModel.Model.C19
import RigModel.Gen.PyFun
import RigModel.Lemmas.PyLoops
import Mathlib.Tactic.SplitIfs
import Mathlib.Tactic.Ring
set_option linter.unusedTactic false
set_option linter.unreachableTactic false
set_option linter.unusedSimpArgs false
set_option linter.unusedVariables false

namespace Rig.C19
open Rig.Gen Rig.Gen.Spinn5 Rig.PyLoops

/-- every in-range cell lookup of the model is the plain `getD` lookup of the generated code -/
private def cellEq (i j : Nat) : Bool :=
  match offAt i j with
  | .ok d => decide (d = (ethOffset.getD j []).getD i ((0 : Int), (0 : Int)))
  | .error _ => false

private theorem cells_eq : ∀ i < 12, ∀ j < 12, cellEq i j = true := by decide +kernel

private theorem offAt_getD (i j : Int) (hi : 0 ≤ i) (hi' : i < 12) (hj : 0 ≤ j) (hj' : j < 12) :
    offAt i j = .ok ((ethOffset.getD j.toNat []).getD i.toNat ((0 : Int), (0 : Int))) := by
  have h := cells_eq i.toNat (by omega) j.toNat (by omega)
  have e1 : ((i.toNat : Nat) : Int) = i := Int.toNat_of_nonneg hi
  have e2 : ((j.toNat : Nat) : Int) = j := Int.toNat_of_nonneg hj
  unfold cellEq at h
  rw [e1, e2] at h
  split at h
  · rename_i d hd
    rw [hd]
    simpa using h
  · simp at h

private theorem fmod12 (a : Int) : 0 ≤ Int.fmod a 12 ∧ Int.fmod a 12 < 12 := by
  rw [Int.fmod_eq_emod_of_nonneg a (by decide)]
  omega

/-- `spinn5_chip_coord` as written in the source = the model (the model's IndexError is unreachable) -/
theorem gen_chip_coord (x y rx ry : Int) :
    chipCoord x y rx ry = .ok (PyFun.spinn5_chip_coord x y rx ry) := by
  have hx := fmod12 (x - rx)
  have hy := fmod12 (y - ry)
  simp only [chipCoord, pymod, offAt_getD _ _ hx.1 hx.2 hy.1 hy.2, bind, Except.bind,
    PyFun.spinn5_chip_coord]

/-- `spinn5_local_eth_coord` as written in the source = the model, for non-zero width and height
(Python raises ZeroDivisionError otherwise) -/
theorem gen_local_eth_coord (x y w h rx ry : Int) (hw : w ≠ 0) (hh : h ≠ 0) :
    localEthCoord x y w h rx ry = .ok (PyFun.spinn5_local_eth_coord x y w h rx ry) := by
  have hx := fmod12 (x - rx)
  have hy := fmod12 (y - ry)
  simp only [localEthCoord, pymod, offAt_getD _ _ hx.1 hx.2 hy.1 hy.2, bind, Except.bind, hw, hh,
    if_false, PyFun.spinn5_local_eth_coord]

/-- `spinn5_fpga_link` as written in the source = the model -/
theorem gen_fpga_link (x y link rx ry : Int) :
    fpgaLink x y link rx ry = .ok (PyFun.spinn5_fpga_link x y link rx ry) := by
  simp only [fpgaLink, gen_chip_coord, bind, Except.bind, PyFun.spinn5_fpga_link]

/-! ### `spinn5_eth_coords` (generator, three nested loops) -/

theorem flatMap_ite_eq_filterMap {α β : Type} (l : List α) (c : α → Prop) [DecidablePred c] (g : α → β) :
    l.flatMap (fun a => if c a then [g a] else []) = l.filterMap (fun a => if c a then some (g a) else none) := by
  induction l with
  | nil => rfl
  | cons a t ih =>
    rw [List.flatMap_cons, List.filterMap_cons, ih]
    by_cases h : c a <;> simp [h]

/-- innermost loop body: appends the point when it lies inside the machine -/
theorem eth_loop3 (width height rx ry w h x y : Int) (o : List Pt) (d : Pt) :
    PyFun.spinn5_eth_coords_loop3 width height rx ry w h x y o d
      = o ++ (if pymod (x + d.1 + rx) w < width ∧ pymod (y + d.2 + ry) h < height
              then [(pymod (x + d.1 + rx) w, pymod (y + d.2 + ry) h)] else []) := by
  unfold PyFun.spinn5_eth_coords_loop3 pymod
  dsimp only
  split_ifs <;> first | (simp; done) | (exfalso; simp_all; done) | (exfalso; omega)

theorem eth_loop2 (width height rx ry w h x : Int) (o : List Pt) (y : Int) :
    PyFun.spinn5_eth_coords_loop2 width height rx ry w h x o y
      = o ++ ethTriple.filterMap (fun d =>
          if pymod (x + d.1 + rx) w < width ∧ pymod (y + d.2 + ry) h < height
          then some (pymod (x + d.1 + rx) w, pymod (y + d.2 + ry) h) else none) := by
  unfold PyFun.spinn5_eth_coords_loop2
  dsimp only
  rw [foldl_append_flatMap _ _ (eth_loop3 width height rx ry w h x y), flatMap_ite_eq_filterMap]
  rfl

theorem range12_eq (w : Int) : PyFun.pyRange 0 w 12 = range12 w := by
  rw [pyRange_pos _ _ _ (by decide), range12]
  have e : (w - 0 + 12 - 1) / 12 = (w + 11) / 12 := by congr 1; omega
  rw [e]
  apply List.map_congr_left
  intro a _
  omega

theorem eth_loop1 (width height rx ry w h : Int) (o : List Pt) (x : Int) :
    PyFun.spinn5_eth_coords_loop1 width height rx ry w h o x
      = o ++ (range12 h).flatMap (fun y => ethTriple.filterMap (fun d =>
          if pymod (x + d.1 + rx) w < width ∧ pymod (y + d.2 + ry) h < height
          then some (pymod (x + d.1 + rx) w, pymod (y + d.2 + ry) h) else none)) := by
  unfold PyFun.spinn5_eth_coords_loop1
  dsimp only
  rw [foldl_append_flatMap _ _ (eth_loop2 width height rx ry w h x), range12_eq]

theorem fdiv12 (a : Int) : Int.fdiv a 12 = a / 12 := Int.fdiv_eq_ediv_of_nonneg a (by decide)

/-- `spinn5_eth_coords` as written in the source = the model (the list of yielded points, in order) -/
theorem gen_eth_coords (width height rx ry : Int) :
    PyFun.spinn5_eth_coords width height rx ry = ethCoords width height rx ry := by
  unfold PyFun.spinn5_eth_coords ethCoords
  dsimp only
  rw [foldl_append_flatMap _ _ (eth_loop1 _ _ _ _ _ _), range12_eq, List.nil_append]
  simp only [fdiv12, pymod]
  rfl

/-! ### `standard_system_dimensions` (a `for` loop left by `break`, its variable read afterwards) -/

/-- the model's outcome as the Python outcome: value / name of the exception -/
def excStr {α : Type} : Except Err α → Except String α
  | .ok v => .ok v
  | .error .zeroDivision => .error "ZeroDivisionError"
  | .error .indexError => .error "IndexError"
  | .error .valueError => .error "ValueError"

/-- `reversed(range(1, s + 1))` -/
theorem down_succ (s : Nat) :
    (PyFun.pyRange1 1 (((s + 1 : Nat) : Int) + 1)).reverse = ((s + 1 : Nat) : Int) :: (PyFun.pyRange1 1 ((s : Int) + 1)).reverse := by
  simp only [pyRange1_eq]
  have e1 : (((s + 1 : Nat) : Int) + 1 - 1).toNat = s + 1 := by omega
  have e2 : ((s : Int) + 1 - 1).toNat = s := by omega
  rw [e1, e2, List.range_succ, List.map_append, List.reverse_append]
  simp only [List.map_cons, List.map_nil, List.reverse_cons, List.reverse_nil, List.nil_append, List.cons_append]
  congr 1
  omega

/-- once the loop is left, the remaining elements are skipped -/
theorem std_loop1_done (n h : Int) (l : List Int) :
    l.foldl (PyFun.standard_system_dimensions_loop1 n) (true, h) = (true, h) := by
  induction l with
  | nil => rfl
  | cons a t ih => rw [List.foldl_cons]; simpa [PyFun.standard_system_dimensions_loop1] using ih

theorem fmod_natCast (a b : Nat) : Int.fmod (a : Int) (b : Int) = ((a % b : Nat) : Int) := by
  rw [Int.fmod_eq_emod_of_nonneg _ (by omega)]; exact (Int.natCast_mod a b).symm

/-- one iteration of the search loop -/
theorem std_loop1_step (n : Int) (k : Nat) (hk : Int.fdiv n 3 = (k : Int)) (h0 : Int) (m : Nat) :
    PyFun.standard_system_dimensions_loop1 n (false, h0) (m : Int)
      = if k % m = 0 then (true, (m : Int)) else (false, (m : Int)) := by
  unfold PyFun.standard_system_dimensions_loop1
  dsimp only
  rw [hk, fmod_natCast]
  simp only [Bool.false_eq_true, if_false]
  split_ifs <;> first | rfl | (exfalso; omega)

/-- the search loop finds what the model's `searchDown` finds -/
theorem std_loop1_search (n : Int) (k : Nat) (hk : Int.fdiv n 3 = (k : Int)) :
    ∀ (s : Nat) (h0 : Int), 0 < s →
      ((PyFun.pyRange1 1 ((s : Int) + 1)).reverse.foldl (PyFun.standard_system_dimensions_loop1 n) (false, h0)).2
        = ((searchDown k s : Nat) : Int)
  | 0, _, hs => by omega
  | s + 1, h0, _ => by
    rw [down_succ, List.foldl_cons, std_loop1_step n k hk, searchDown]
    by_cases hd : k % (s + 1) = 0
    · rw [if_pos hd, if_pos hd]
      exact congrArg Prod.snd (std_loop1_done n _ _)
    · rw [if_neg hd, if_neg hd]
      by_cases hs : s = 0
      · subst hs
        exact absurd (Nat.mod_one k) hd
      · exact std_loop1_search n k hk s _ (by omega)

theorem searchDown_pos (k : Nat) : ∀ s, 0 < s → 0 < searchDown k s
  | 0, h => by omega
  | s + 1, _ => by
    rw [searchDown]
    split
    · omega
    · rename_i hd
      by_cases hs : s = 0
      · subst hs; exact absurd (Nat.mod_one k) hd
      · exact searchDown_pos k s (by omega)

/-- `standard_system_dimensions` as written in the source = the model (the integer square root being
Python's `int(sqrt(k))`, see the translator's ASSUMPTION) -/
theorem gen_std_dims (n : Int) : PyFun.standard_system_dimensions n = excStr (stdDims n) := by
  unfold PyFun.standard_system_dimensions stdDims
  by_cases h0 : n = 0
  · simp only [h0, if_true]; rfl
  by_cases h1 : n = 1
  · simp only [h1, if_true]; rfl
  simp only [h0, h1, if_false, pymod]
  by_cases h3 : Int.fmod n 3 ≠ 0
  · simp only [h3, if_true, ne_eq, not_false_eq_true]; rfl
  simp only [h3, if_false, ne_eq, not_true_eq_false, not_false_eq_true]
  rw [Int.fmod_eq_emod_of_nonneg _ (by decide)] at h3
  by_cases hn : n < 0
  · have : Int.fdiv n 3 < 0 := by rw [Int.fdiv_eq_ediv_of_nonneg _ (by decide)]; omega
    simp only [PyFun.pyIsqrt, this, hn, if_true]; rfl
  have hk : Int.fdiv n 3 = ((n / 3).toNat : Int) := by rw [Int.fdiv_eq_ediv_of_nonneg _ (by decide)]; omega
  have hk1 : 1 ≤ (n / 3).toNat := by omega
  have hpos : ¬ (Int.fdiv n 3 < 0) := by omega
  simp only [PyFun.pyIsqrt, hpos, hn, if_false]
  generalize hkk : (n / 3).toNat = k at *
  have e : (Int.fdiv n 3).toNat = k := by omega
  rw [e]
  have hs : 0 < Nat.sqrt k := Nat.sqrt_pos.mpr (by omega)
  have hne : ((PyFun.pyRange1 1 ((Nat.sqrt k : Int) + 1)).reverse).isEmpty = false := by
    obtain ⟨s, hs'⟩ : ∃ s, Nat.sqrt k = s + 1 := ⟨Nat.sqrt k - 1, by omega⟩
    rw [hs', down_succ]; rfl
  have hsearch := std_loop1_search n k (by omega) (Nat.sqrt k) 0 hs
  simp only [hne, Bool.false_eq_true, if_false]
  generalize hr : List.foldl (PyFun.standard_system_dimensions_loop1 n) (false, (0 : Int)) (PyFun.pyRange1 1 (↑k.sqrt + 1)).reverse = r at *
  obtain ⟨b, h⟩ := r
  simp only at hsearch
  subst hsearch
  simp only [excStr]
  have hsd : 0 < searchDown k (Nat.sqrt k) := searchDown_pos k _ hs
  rw [hk]
  refine congrArg Except.ok (Prod.ext ?_ ?_)
  · show (k : Int).fdiv _ * 12 = _
    rw [Int.fdiv_eq_ediv_of_nonneg _ (by omega)]; push_cast; ring
  · show ((searchDown k k.sqrt : Nat) : Int) * 12 = _
    push_cast; ring
/-- sanity: one board is 8 x 8 chips, 5 boards are refused -/
example : PyFun.standard_system_dimensions 1 = .ok (8, 8) ∧ PyFun.standard_system_dimensions 5 = .error "ValueError" := by
  constructor <;> decide

end Rig.C19
