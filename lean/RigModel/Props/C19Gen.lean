/-
C19 - translator tie: the bodies of `spinn5_local_eth_coord`, `spinn5_chip_coord` and
`spinn5_fpga_link` (rig/geometry.py) are regenerated from the source into `Gen/PyFun.lean`;
they are proved equal to the model functions the C19 theorems are about.
-/
import RigModel.Model.C19
import RigModel.Gen.PyFun
set_option linter.unusedSimpArgs false
set_option linter.unusedVariables false

namespace Rig.C19
open Rig.Gen Rig.Gen.Spinn5

/-- every in-range cell lookup of the model is the plain `getD` lookup of the generated code -/
private def cellEq (i j : Nat) : Bool :=
  match offAt i j with
  | .ok d => decide (d = (ethOffset.getD j []).getD i ((0 : Int), (0 : Int)))
  | .error _ => false

private theorem cells_eq : ∀ i < 12, ∀ j < 12, cellEq i j = true := by decide +kernel

private theorem offAt_getD (i j : Int) (hi : 0 ≤ i) (hi' : i < 12) (hj : 0 ≤ j) (hj' : j < 12) :
    offAt i j = .ok ((ethOffset.getD j.toNat []).getD i.toNat ((0 : Int), (0 : Int))) := by
  have h := cells_eq i.toNat (by omega) j.toNat (by omega)
  have e1 : ((i.toNat : Nat) : Int) = i := Int.toNat_of_nonneg hi
  have e2 : ((j.toNat : Nat) : Int) = j := Int.toNat_of_nonneg hj
  unfold cellEq at h
  rw [e1, e2] at h
  split at h
  · rename_i d hd
    rw [hd]
    simpa using h
  · simp at h

private theorem fmod12 (a : Int) : 0 ≤ Int.fmod a 12 ∧ Int.fmod a 12 < 12 := by
  rw [Int.fmod_eq_emod_of_nonneg a (by decide)]
  omega

/-- `spinn5_chip_coord` as written in the source = the model (the model's IndexError is unreachable) -/
theorem gen_chip_coord (x y rx ry : Int) :
    chipCoord x y rx ry = .ok (PyFun.spinn5_chip_coord x y rx ry) := by
  have hx := fmod12 (x - rx)
  have hy := fmod12 (y - ry)
  simp only [chipCoord, pymod, offAt_getD _ _ hx.1 hx.2 hy.1 hy.2, bind, Except.bind,
    PyFun.spinn5_chip_coord]

/-- `spinn5_local_eth_coord` as written in the source = the model, for non-zero width and height
(Python raises ZeroDivisionError otherwise) -/
theorem gen_local_eth_coord (x y w h rx ry : Int) (hw : w ≠ 0) (hh : h ≠ 0) :
    localEthCoord x y w h rx ry = .ok (PyFun.spinn5_local_eth_coord x y w h rx ry) := by
  have hx := fmod12 (x - rx)
  have hy := fmod12 (y - ry)
  simp only [localEthCoord, pymod, offAt_getD _ _ hx.1 hx.2 hy.1 hy.2, bind, Except.bind, hw, hh,
    if_false, PyFun.spinn5_local_eth_coord]

/-- `spinn5_fpga_link` as written in the source = the model -/
theorem gen_fpga_link (x y link rx ry : Int) :
    fpgaLink x y link rx ry = .ok (PyFun.spinn5_fpga_link x y link rx ry) := by
  simp only [fpgaLink, gen_chip_coord, bind, Except.bind, PyFun.spinn5_fpga_link]

end Rig.C19
