/-
C05 - fuel independence of the uniform-fuel model `allocateF` (one `fuel` for every `while` loop, what the
generated `allocate` does): a run in which no loop is cut off gives the model's answer, and every fuel from
some bound on cuts off no loop.
-/
import RigModel.Props.C05GenDefs
set_option linter.unusedSimpArgs false
set_option linter.unusedVariables false

namespace Rig.C05

/-! ### the proposal loop -/

/-- a proposal loop that is not cut off gives the same answer with any other fuel that does not cut it off -/
theorem proposeLoop_det (a cap d : Int) (g l : List Slice) :
    ∀ (f1 f2 : Nat) (p : Int), proposeLoop a cap d g l f1 p ≠ .error .fuel → proposeLoop a cap d g l f2 p ≠ .error .fuel →
      proposeLoop a cap d g l f1 p = proposeLoop a cap d g l f2 p := by
  intro f1
  induction f1 with
  | zero => intro f2 p h1 _; exact absurd rfl h1
  | succ f1 ih =>
    intro f2 p h1 h2
    cases f2 with
    | zero => exact absurd rfl h2
    | succ f2 =>
      rw [proposeLoop_succ] at h1 h2
      rw [proposeLoop_succ, proposeLoop_succ]
      by_cases hc : align p a + d > cap
      · simp only [hc, if_true]
      · simp only [hc, if_false] at h1 h2 ⊢
        by_cases hb : (scan ⟨align p a, align p a + d⟩ l (scan ⟨align p a, align p a + d⟩ g (p, false))).2 = true
        · simp only [hb, if_true] at h1 h2 ⊢
          exact ih _ _ h1 h2
        · rw [if_neg hb, if_neg hb]

/-- a proposal loop that is not cut off gives the same answer with more fuel -/
theorem proposeLoop_mono (a cap d : Int) (g l : List Slice) :
    ∀ (f f' : Nat) (p : Int), f ≤ f' → proposeLoop a cap d g l f p ≠ .error .fuel →
      proposeLoop a cap d g l f' p = proposeLoop a cap d g l f p := by
  intro f
  induction f with
  | zero => intro f' p _ h1; exact absurd rfl h1
  | succ f ih =>
    intro f' p hle h1
    obtain ⟨f'', rfl⟩ : ∃ f'', f' = f'' + 1 := ⟨f' - 1, by omega⟩
    rw [proposeLoop_succ] at h1
    rw [proposeLoop_succ, proposeLoop_succ]
    by_cases hc : align p a + d > cap
    · simp only [hc, if_true]
    · simp only [hc, if_false] at h1 ⊢
      by_cases hb : (scan ⟨align p a, align p a + d⟩ l (scan ⟨align p a, align p a + d⟩ g (p, false))).2 = true
      · simp only [hb, if_true] at h1 ⊢
        exact ih _ _ (by omega) h1
      · rw [if_neg hb, if_neg hb]

/-! ### one request -/

/-- one request with an outside fuel: cut off, or the model's answer -/
theorem allocOneF_det (inp : Input) (hA : ∀ res, 1 ≤ alignment inp.constraints res) (fuel : Nat)
    (xy : Chip) (v : Vertex) (res : Res) (d : Int) (ptrs : Ptrs) (hd : 0 ≤ d) :
    allocOneF fuel inp xy v res d ptrs = .error .fuel ∨
      allocOneF fuel inp xy v res d ptrs = allocOne inp xy v res d ptrs := by
  have ha0 : alignment inp.constraints res ≠ 0 := by have := hA res; omega
  by_cases hk : inp.machine.chipResources.any (·.1 == res) = true
  swap
  · right
    have hk' : inp.machine.chipResources.any (·.1 == res) = false := Bool.eq_false_iff.mpr hk
    simp [allocOneF, allocOne, hk']
  cases hmg : inp.machine.get xy with
  | none => right; simp [allocOneF, allocOne, hk, ha0, hmg]
  | some caps =>
    cases hc : caps.lookup res with
    | none => right; simp [allocOneF, allocOne, hk, ha0, hmg, hc]
    | some cap =>
      have hm : proposeLoop (alignment inp.constraints res) cap d (globalRes inp.constraints res)
          (localRes inp.constraints xy res) (fuelFor cap (ptrs res)) (ptrs res) ≠ .error .fuel :=
        propose_no_fuel (hA res) hd _ _ (Nat.le_refl _)
      by_cases hf : proposeLoop (alignment inp.constraints res) cap d (globalRes inp.constraints res)
          (localRes inp.constraints xy res) fuel (ptrs res) = .error .fuel
      · left; simp [allocOneF, hk, ha0, hmg, hc, hf]
      · right
        have e := proposeLoop_det _ _ _ _ _ fuel (fuelFor cap (ptrs res)) (ptrs res) hf hm
        simp [allocOneF, allocOne, hk, ha0, hmg, hc, e]
        split <;> rename_i hq <;> rw [hq]

/-- one request: from some fuel on the answer is the model's -/
theorem allocOneF_stable (inp : Input) (hA : ∀ res, 1 ≤ alignment inp.constraints res)
    (xy : Chip) (v : Vertex) (res : Res) (d : Int) (ptrs : Ptrs) (hd : 0 ≤ d) :
    ∃ F, ∀ fuel, F ≤ fuel → allocOneF fuel inp xy v res d ptrs = allocOne inp xy v res d ptrs := by
  have ha0 : alignment inp.constraints res ≠ 0 := by have := hA res; omega
  by_cases hk : inp.machine.chipResources.any (·.1 == res) = true
  swap
  · refine ⟨0, fun fuel _ => ?_⟩
    have hk' : inp.machine.chipResources.any (·.1 == res) = false := Bool.eq_false_iff.mpr hk
    simp [allocOneF, allocOne, hk']
  cases hmg : inp.machine.get xy with
  | none => exact ⟨0, fun fuel _ => by simp [allocOneF, allocOne, hk, ha0, hmg]⟩
  | some caps =>
    cases hc : caps.lookup res with
    | none => exact ⟨0, fun fuel _ => by simp [allocOneF, allocOne, hk, ha0, hmg, hc]⟩
    | some cap =>
      have hm : proposeLoop (alignment inp.constraints res) cap d (globalRes inp.constraints res)
          (localRes inp.constraints xy res) (fuelFor cap (ptrs res)) (ptrs res) ≠ .error .fuel :=
        propose_no_fuel (hA res) hd _ _ (Nat.le_refl _)
      refine ⟨fuelFor cap (ptrs res), fun fuel hle => ?_⟩
      have e := proposeLoop_mono _ _ _ _ _ (fuelFor cap (ptrs res)) fuel (ptrs res) hle hm
      simp [allocOneF, allocOne, hk, ha0, hmg, hc, e]
      split <;> rename_i hq <;> rw [hq]

/-! ### lifting over the three outer loops: determinism -/

/-- `one1` is cut off or agrees with `one2` on every request with a non-negative requirement -/
def FuelOr (one1 one2 : One) : Prop :=
  ∀ xy v res d ptrs, 0 ≤ d → one1 xy v res d ptrs = .error .fuel ∨ one1 xy v res d ptrs = one2 xy v res d ptrs

theorem allocResourcesG_det {one1 one2 : One} (h : FuelOr one1 one2) (xy : Chip) (v : Vertex) :
    ∀ (rs : List (Res × Int)) (ptrs : Ptrs), (∀ rd ∈ rs, 0 ≤ rd.2) →
      allocResourcesG one1 xy v rs ptrs = .error .fuel ∨
        allocResourcesG one1 xy v rs ptrs = allocResourcesG one2 xy v rs ptrs := by
  intro rs
  induction rs with
  | nil => intro ptrs _; right; rfl
  | cons rd rs ih =>
    intro ptrs hrs
    obtain ⟨res, d⟩ := rd
    have hd : 0 ≤ d := hrs (res, d) (by simp)
    have hrs' : ∀ rd ∈ rs, 0 ≤ rd.2 := fun rd hm => hrs rd (by simp [hm])
    rcases h xy v res d ptrs hd with e | e
    · left; simp [allocResourcesG, e]
    · cases h2 : one2 xy v res d ptrs with
      | error err => right; simp [allocResourcesG, e, h2]
      | ok pe =>
        obtain ⟨ptrs', en⟩ := pe
        rcases ih ptrs' hrs' with e2 | e2
        · left; simp [allocResourcesG, e, h2, e2]
        · right; simp [allocResourcesG, e, h2, e2]

theorem allocVerticesG_det {one1 one2 : One} (h : FuelOr one1 one2) (vr : List (Vertex × List (Res × Int)))
    (hD : ∀ q ∈ vr, ∀ rd ∈ q.2, 0 ≤ rd.2) (xy : Chip) :
    ∀ (vs : List Vertex) (ptrs : Ptrs),
      allocVerticesG one1 vr xy vs ptrs = .error .fuel ∨
        allocVerticesG one1 vr xy vs ptrs = allocVerticesG one2 vr xy vs ptrs := by
  intro vs
  induction vs with
  | nil => intro ptrs; right; rfl
  | cons v vs ih =>
    intro ptrs
    cases hl : vr.lookup v with
    | none => right; simp [allocVerticesG, hl]
    | some rs =>
      have hrs : ∀ rd ∈ rs, 0 ≤ rd.2 := hD (v, rs) (mem_of_lookup hl)
      rcases allocResourcesG_det h xy v rs ptrs hrs with e | e
      · left; simp [allocVerticesG, hl, e]
      · cases h2 : allocResourcesG one2 xy v rs ptrs with
        | error err => right; simp [allocVerticesG, hl, e, h2]
        | ok pe =>
          obtain ⟨ptrs', es⟩ := pe
          rcases ih ptrs' with e2 | e2
          · left; simp [allocVerticesG, hl, e, h2, e2]
          · right; simp [allocVerticesG, hl, e, h2, e2]

theorem allocChipsL_det {one1 one2 : One} (h : FuelOr one1 one2) (vr : List (Vertex × List (Res × Int)))
    (hD : ∀ q ∈ vr, ∀ rd ∈ q.2, 0 ≤ rd.2) :
    ∀ (cc : List (Chip × List Vertex)),
      allocChipsL one1 vr cc = .error .fuel ∨ allocChipsL one1 vr cc = allocChipsL one2 vr cc := by
  intro cc
  induction cc with
  | nil => right; rfl
  | cons c cc ih =>
    obtain ⟨xy, vs⟩ := c
    rcases allocVerticesG_det h vr hD xy vs (fun _ => 0) with e | e
    · left; simp [allocChipsL, e]
    · cases h2 : allocVerticesG one2 vr xy vs (fun _ => 0) with
      | error err => right; simp [allocChipsL, e, h2]
      | ok a =>
        rcases ih with e2 | e2
        · left; simp [allocChipsL, e, h2, e2]
        · right; simp [allocChipsL, e, h2, e2]

/-! ### lifting over the three outer loops: stability -/

/-- from some fuel on `oneF fuel` agrees with `one` on every request with a non-negative requirement -/
def Stable (oneF : Nat → One) (one : One) : Prop :=
  ∀ xy v res d ptrs, 0 ≤ d → ∃ F, ∀ fuel, F ≤ fuel → oneF fuel xy v res d ptrs = one xy v res d ptrs

theorem allocResourcesG_stable {oneF : Nat → One} {one : One} (h : Stable oneF one) (xy : Chip) (v : Vertex) :
    ∀ (rs : List (Res × Int)) (ptrs : Ptrs), (∀ rd ∈ rs, 0 ≤ rd.2) →
      ∃ F, ∀ fuel, F ≤ fuel → allocResourcesG (oneF fuel) xy v rs ptrs = allocResourcesG one xy v rs ptrs := by
  intro rs
  induction rs with
  | nil => intro ptrs _; exact ⟨0, fun _ _ => rfl⟩
  | cons rd rs ih =>
    intro ptrs hrs
    obtain ⟨res, d⟩ := rd
    have hd : 0 ≤ d := hrs (res, d) (by simp)
    have hrs' : ∀ rd ∈ rs, 0 ≤ rd.2 := fun rd hm => hrs rd (by simp [hm])
    obtain ⟨F1, h1⟩ := h xy v res d ptrs hd
    cases h2 : one xy v res d ptrs with
    | error err =>
      exact ⟨F1, fun fuel hf => by simp [allocResourcesG, h1 fuel hf, h2]⟩
    | ok pe =>
      obtain ⟨ptrs', en⟩ := pe
      obtain ⟨F2, h3⟩ := ih ptrs' hrs'
      refine ⟨max F1 F2, fun fuel hf => ?_⟩
      have hf1 : F1 ≤ fuel := by omega
      have hf2 : F2 ≤ fuel := by omega
      simp [allocResourcesG, h1 fuel hf1, h2, h3 fuel hf2]

theorem allocVerticesG_stable {oneF : Nat → One} {one : One} (h : Stable oneF one)
    (vr : List (Vertex × List (Res × Int))) (hD : ∀ q ∈ vr, ∀ rd ∈ q.2, 0 ≤ rd.2) (xy : Chip) :
    ∀ (vs : List Vertex) (ptrs : Ptrs),
      ∃ F, ∀ fuel, F ≤ fuel → allocVerticesG (oneF fuel) vr xy vs ptrs = allocVerticesG one vr xy vs ptrs := by
  intro vs
  induction vs with
  | nil => intro ptrs; exact ⟨0, fun _ _ => rfl⟩
  | cons v vs ih =>
    intro ptrs
    cases hl : vr.lookup v with
    | none => exact ⟨0, fun fuel _ => by simp [allocVerticesG, hl]⟩
    | some rs =>
      have hrs : ∀ rd ∈ rs, 0 ≤ rd.2 := hD (v, rs) (mem_of_lookup hl)
      obtain ⟨F1, h1⟩ := allocResourcesG_stable h xy v rs ptrs hrs
      cases h2 : allocResourcesG one xy v rs ptrs with
      | error err => exact ⟨F1, fun fuel hf => by simp [allocVerticesG, hl, h1 fuel hf, h2]⟩
      | ok pe =>
        obtain ⟨ptrs', es⟩ := pe
        obtain ⟨F2, h3⟩ := ih ptrs'
        refine ⟨max F1 F2, fun fuel hf => ?_⟩
        have hf1 : F1 ≤ fuel := by omega
        have hf2 : F2 ≤ fuel := by omega
        simp [allocVerticesG, hl, h1 fuel hf1, h2, h3 fuel hf2]

theorem allocChipsL_stable {oneF : Nat → One} {one : One} (h : Stable oneF one)
    (vr : List (Vertex × List (Res × Int))) (hD : ∀ q ∈ vr, ∀ rd ∈ q.2, 0 ≤ rd.2) :
    ∀ (cc : List (Chip × List Vertex)),
      ∃ F, ∀ fuel, F ≤ fuel → allocChipsL (oneF fuel) vr cc = allocChipsL one vr cc := by
  intro cc
  induction cc with
  | nil => exact ⟨0, fun _ _ => rfl⟩
  | cons c cc ih =>
    obtain ⟨xy, vs⟩ := c
    obtain ⟨F1, h1⟩ := allocVerticesG_stable h vr hD xy vs (fun _ => 0)
    obtain ⟨F2, h3⟩ := ih
    refine ⟨max F1 F2, fun fuel hf => ?_⟩
    have hf1 : F1 ≤ fuel := by omega
    have hf2 : F2 ≤ fuel := by omega
    simp [allocChipsL, h1 fuel hf1, h3 fuel hf2]

/-! ### the whole call -/

/-- with one fuel for every `while` loop: either some loop is cut off, or the result is the model's -/
theorem allocateF_det (inp : Input) (hA : ∀ res, 1 ≤ alignment inp.constraints res)
    (hD : ∀ q ∈ inp.vr, ∀ rd ∈ q.2, 0 ≤ rd.2) (fuel : Nat) :
    allocateF fuel inp = .error .fuel ∨ allocateF fuel inp = allocate inp := by
  rw [allocate_eq_L]
  exact allocChipsL_det (fun xy v res d ptrs hd => allocOneF_det inp hA fuel xy v res d ptrs hd)
    inp.vr hD (chipContents inp)

/-- and there is a fuel from which on no loop is cut off (every `while` loop of the run terminates) -/
theorem allocateF_stable (inp : Input) (hA : ∀ res, 1 ≤ alignment inp.constraints res)
    (hD : ∀ q ∈ inp.vr, ∀ rd ∈ q.2, 0 ≤ rd.2) :
    ∃ F, ∀ fuel, F ≤ fuel → allocateF fuel inp = allocate inp := by
  rw [allocate_eq_L]
  exact allocChipsL_stable (oneF := fun fuel => allocOneF fuel inp)
    (fun xy v res d ptrs hd => allocOneF_stable inp hA xy v res d ptrs hd) inp.vr hD (chipContents inp)

end Rig.C05
