/-
C07 - struct and per-core field accessors over the PARSED struct table.

`structRead` / `structWrite` / `vcpuRead` / `vcpuWrite` (Model/C07Struct.lean) are the Lean models of
MachineController.read_struct_field / write_struct_field / read_vcpu_struct_field /
write_vcpu_struct_field; the table they work on is what the model parser `parseStructFile` makes of a
struct file - for the bundled rig/boot/sark.struct, `sarkTable`, whose bytes are regenerated on every run
and whose parse is the kernel-checked `sark_parsed` (Props/C20Parse.lean).
-/
import RigModel.Props.C07
import RigModel.Props.C20Parse
import RigModel.Model.C07Struct
set_option linter.unusedSimpArgs false
set_option linter.unusedVariables false

namespace Rig.C07Struct
open Rig.C07 Rig.C20Parse Rig.C20

/-! ### memory lemmas -/

theorem writeMem_outside (m : Mem) (addr : Nat) (data : List Nat) (x : Nat)
    (h : x < addr ∨ addr + data.length ≤ x) : writeMem m addr data x = m x := by
  simp only [writeMem]
  rw [if_neg (by omega)]

theorem readMem_length (m : Mem) (a n : Nat) : (readMem m a n).length = n := by simp [readMem]

theorem readMem_getD (m : Mem) (a n i : Nat) (h : i < n) : (readMem m a n).getD i 0 = m (a + i) := by
  simp only [readMem]
  rw [List.getD_eq_getElem?_getD, List.getElem?_map, List.getElem?_range h]
  rfl

theorem readMem_writeMem_same (m : Mem) (addr : Nat) (data : List Nat) :
    readMem (writeMem m addr data) addr data.length = data := by
  apply List.ext_getElem
  · simp [readMem]
  · intro i h1 h2
    simp only [readMem, List.getElem_map, List.getElem_range, writeMem]
    rw [if_pos (by omega)]
    have : addr + i - addr = i := by omega
    rw [this, List.getD_eq_getElem?_getD, List.getElem?_eq_getElem h2]
    rfl

theorem readMem_writeMem_disjoint (m : Mem) (addr : Nat) (data : List Nat) (b n : Nat)
    (h : b + n ≤ addr ∨ addr + data.length ≤ b) :
    readMem (writeMem m addr data) b n = readMem m b n := by
  apply readMem_congr
  intro i hi
  exact writeMem_outside m addr data (b + i) (by omega)

/-! ### `struct.pack` / `struct.unpack` -/

theorem leBytes_length (w n : Nat) : (leBytes w n).length = w := by
  induction w generalizing n with
  | zero => rfl
  | succ w ih => simp [leBytes, ih]

theorem fromLE_leBytes (w n : Nat) : fromLE (leBytes w n) = n % 256 ^ w := by
  induction w generalizing n with
  | zero => simp [leBytes, fromLE, Nat.mod_one]
  | succ w ih =>
    simp only [leBytes, fromLE, ih]
    rw [Nat.pow_succ', Nat.mod_mul]

/-- **Little endian.** Byte `i` of the packed number is digit `i` of the number in base 256. -/
theorem leBytes_getD (w n i : Nat) : (leBytes w n).getD i 0 = if i < w then n / 256 ^ i % 256 else 0 := by
  induction w generalizing n i with
  | zero => simp [leBytes]
  | succ w ih =>
    cases i with
    | zero => simp [leBytes]
    | succ i =>
      simp only [leBytes, List.getD_cons_succ, ih, Nat.add_lt_add_iff_right]
      rw [Nat.pow_succ, Nat.mul_comm, Nat.div_div_eq_div_mul]

/-- what `struct.pack` makes of a value before storing it: a string is cut / padded to its width -/
def normVal : Item → Val → Val
  | .str n, .bytes b => .bytes (b.take n ++ List.replicate (n - b.length) 0)
  | _, v => v

theorem packItem_length (it : Item) (v : Val) (d : List Nat) (h : packItem it v = .ok d) :
    d.length = it.size := by
  cases it with
  | int c =>
    cases v with
    | int v =>
      simp only [packItem] at h
      split at h
      · cases h; simp [leBytes_length, Item.size]
      · cases h
    | bytes b => simp [packItem] at h
  | str n =>
    cases v with
    | int v => simp [packItem] at h
    | bytes b =>
      simp only [packItem] at h
      cases h
      simp only [List.length_append, List.length_take, List.length_replicate, Item.size]
      omega

theorem packAll_length : ∀ (items : List Item) (vs : List Val) (d : List Nat),
    packAll items vs = .ok d → d.length = calcsize items ∧ vs.length = items.length := by
  intro items
  induction items with
  | nil =>
    intro vs d h
    cases vs with
    | nil => simp [packAll] at h; subst h; simp [calcsize]
    | cons v vs => simp [packAll] at h
  | cons it r ih =>
    intro vs d h
    cases vs with
    | nil => simp [packAll] at h
    | cons v vs =>
      simp only [packAll] at h
      cases h1 : packItem it v with
      | error e => simp [h1] at h
      | ok d1 =>
        cases h2 : packAll r vs with
        | error e => simp [h1, h2] at h
        | ok d2 =>
          simp only [h1, h2, Except.ok.injEq] at h
          subst h
          have := ih vs d2 h2
          have l1 := packItem_length it v d1 h1
          simp only [List.length_append, calcsize, List.map_cons, List.foldr_cons, List.length_cons] at *
          omega

/-- **A packed number is its little-endian bytes**, and only numbers of the item's range are packed. -/
theorem packItem_int (c : Nat) (v : Int) (d : List Nat) (h : packItem (.int c) (.int v) = .ok d) :
    intRange c v = true ∧ d = leBytes (codeWidth c) (v % (256 : Int) ^ codeWidth c).toNat := by
  simp only [packItem] at h
  split at h
  · cases h; exact ⟨by assumption, rfl⟩
  · cases h

theorem unpack_packItem (it : Item) (v : Val) (d : List Nat) (h : packItem it v = .ok d) :
    unpackItem it d = normVal it v := by
  cases it with
  | str n =>
    cases v with
    | int v => simp [packItem] at h
    | bytes b => simp only [packItem] at h; cases h; rfl
  | int c =>
    cases v with
    | bytes b => simp [packItem] at h
    | int v =>
      obtain ⟨hr, rfl⟩ := packItem_int c v d h
      simp only [unpackItem, normVal, fromLE_leBytes]
      unfold intRange at hr
      by_cases h98 : c = 98
      · subst h98
        simp only [if_true, decide_eq_true_eq] at hr
        have hw : codeWidth 98 = 1 := by decide
        simp only [hw, Int.pow_one, Nat.pow_one, true_and]
        have e : ((v % 256).toNat % 256 : Nat) = (v % 256).toNat := by omega
        rw [e]
        split
        · congr 1; omega
        · congr 1; omega
      · simp only [h98, if_false, decide_eq_true_eq, false_and] at hr ⊢
        have e1 : v % (256 : Int) ^ codeWidth c = v := Int.emod_eq_of_lt hr.1 hr.2
        rw [e1]
        have e2 : ((256 : Int) ^ codeWidth c) = ((256 ^ codeWidth c : Nat) : Int) := by simp
        have e3 : v.toNat < 256 ^ codeWidth c := by
          have := hr.2
          rw [e2] at this
          omega
        rw [Nat.mod_eq_of_lt e3]
        congr 1
        omega

/-- **Unpacking what was packed gives the values back** (strings cut / padded to their width). -/
theorem unpackAll_packAll : ∀ (items : List Item) (vs : List Val) (d : List Nat),
    packAll items vs = .ok d → unpackAll items d = List.zipWith normVal items vs := by
  intro items
  induction items with
  | nil =>
    intro vs d h
    simp [unpackAll]
  | cons it r ih =>
    intro vs d h
    cases vs with
    | nil => simp [packAll] at h
    | cons v vs =>
      simp only [packAll] at h
      cases h1 : packItem it v with
      | error e => simp [h1] at h
      | ok d1 =>
        cases h2 : packAll r vs with
        | error e => simp [h1, h2] at h
        | ok d2 =>
          simp only [h1, h2, Except.ok.injEq] at h
          subst h
          have l1 := packItem_length it v d1 h1
          simp only [unpackAll, List.zipWith_cons_cons]
          rw [← l1, List.take_left, List.drop_left, unpack_packItem it v d1 h1, ih vs d2 h2]

/-! ### the struct accessors -/

/-- what a successful `structAccess` is: struct and field found in the table, the address is the struct's
base plus the field's offset, the items are `length` copies of the field's format -/
def IsAccess (T : List PStruct) (s f : Bytes) (a : Access) : Prop :=
  ∃ st b, getStruct T s = some st ∧ getField st.fields f = some a.field ∧ st.base = some b ∧
    (a.addr : Int) = b + a.field.offset ∧ fmtItems a.field.pack a.field.length = some a.items

theorem structAccess_ok (T : List PStruct) (s f : Bytes) (a : Access) (h : structAccess T s f = .ok a) :
    IsAccess T s f a := by
  unfold structAccess at h
  split at h
  · cases h
  · rename_i st hst
    split at h
    · cases h
    · rename_i fld hfld
      split at h
      · cases h
      · rename_i b hb
        split at h
        · cases h
        · rename_i items hit
          split at h
          · cases h
          · rename_i hneg
            cases h
            exact ⟨st, b, hst, hfld, hb, by simp only; omega, hit⟩

/-- **`struct_write_exact`.**  Whenever `write_struct_field` sends its commands: struct and field are those
of the table, the address is base + offset, the packed bytes fill exactly the field's size, and executing
the write commands in ANY order (each at least once, duplicates allowed) leaves memory with exactly the packed
bytes at `[base + offset, base + offset + size)` and every other byte unchanged.  (`packItem_int`,
`leBytes_getD`: the bytes of a number are its little-endian digits.) -/
theorem struct_write_exact (T : List PStruct) (buf : Nat) (s f : Bytes) (w : WVal) (m : Mem) (hb : 0 < buf)
    (a : Access) (data : List Nat) (cs : List Chunk) (h : structWrite T buf s f w = .ok (a, data, cs)) :
    IsAccess T s f a ∧ structPack a w = .ok data ∧ data.length = a.size ∧
    ∀ ws : List Chunk, (∀ c ∈ ws, c ∈ cs) → (∀ c ∈ cs, c ∈ ws) →
      ws.foldl execWrite m = writeMem m a.addr data ∧
      readMem (ws.foldl execWrite m) a.addr a.size = data ∧
      ∀ x, (x < a.addr ∨ a.addr + a.size ≤ x) → ws.foldl execWrite m x = m x := by
  unfold structWrite at h
  cases ha : structAccess T s f with
  | error e => simp [ha] at h
  | ok a' =>
    cases hp : structPack a' w with
    | error e => simp [ha, hp] at h
    | ok d =>
      simp only [ha, hp, Except.ok.injEq, Prod.mk.injEq] at h
      obtain ⟨rfl, rfl, rfl⟩ := h
      have hlen : d.length = a'.size := by
        unfold structPack at hp
        unfold Access.size
        split at hp
        · cases w with
          | one v => cases hp
          | many vs =>
            simp only at hp
            split at hp
            · exact (packAll_length _ _ _ hp).1
            · cases hp
        · cases w with
          | one v => exact (packAll_length _ _ _ hp).1
          | many vs => cases hp
      refine ⟨structAccess_ok T s f a' ha, hp, hlen, ?_⟩
      intro ws h1 h2
      have e := write_exact_any_order buf a'.addr d m hb ws h1 h2
      refine ⟨e, ?_, ?_⟩
      · rw [e, ← hlen]; exact readMem_writeMem_same m a'.addr d
      · intro x hx
        rw [e]; exact writeMem_outside m a'.addr d x (by omega)

/-- **`struct_read_exact`.**  Whenever `read_struct_field` sends its commands: the address is base + offset
of the table's field, the replies - reassembled in ANY completion order - are exactly the `size` bytes of
memory at that address, and if those bytes are the packing of values `vs` the accessor's result is made of
exactly these values (`unpacked[0]` for a scalar, the tuple for an array). -/
theorem struct_read_exact (T : List PStruct) (buf : Nat) (s f : Bytes) (m : Mem) (hb : 0 < buf)
    (a : Access) (cs : List Chunk) (h : structRead T buf s f = .ok (a, cs)) :
    IsAccess T s f a ∧
    (∀ (buffer0 : Mem) (done : List Chunk), (∀ c ∈ done, c ∈ cs) → (∀ c ∈ cs, c ∈ done) →
      readMem (done.foldl (placeReply m a.addr) buffer0) 0 a.size = readMem m a.addr a.size) ∧
    (∀ vs, packAll a.items vs = .ok (readMem m a.addr a.size) →
      unpackAll a.items (readMem m a.addr a.size) = List.zipWith normVal a.items vs ∧
      structValue a (readMem m a.addr a.size) =
        (if a.field.length = 1 then
          (match List.zipWith normVal a.items vs with
           | v :: _ => .ok (.one v)
           | [] => .error .indexError)
         else .ok (.tuple (List.zipWith normVal a.items vs)))) := by
  unfold structRead at h
  cases ha : structAccess T s f with
  | error e => simp [ha] at h
  | ok a' =>
    simp only [ha, Except.ok.injEq, Prod.mk.injEq] at h
    obtain ⟨rfl, rfl⟩ := h
    refine ⟨structAccess_ok T s f a' ha, ?_, ?_⟩
    · intro b0 done h1 h2
      exact read_exact_any_order buf a'.addr a'.size m hb b0 done h1 h2
    · intro vs hv
      have e := unpackAll_packAll _ _ _ hv
      refine ⟨e, ?_⟩
      unfold structValue
      simp only [e]
      split <;> rfl

/-- **Write, then read.**  A number written to a scalar field is the number read back, whatever the order
in which the write commands were executed. -/
theorem struct_write_then_read (T : List PStruct) (buf : Nat) (s f : Bytes) (v : Int) (m : Mem) (hb : 0 < buf)
    (a : Access) (data : List Nat) (cs : List Chunk) (c : Nat) (hi : a.items = [.int c]) (hl : a.field.length = 1)
    (h : structWrite T buf s f (.one (.int v)) = .ok (a, data, cs)) (ws : List Chunk)
    (h1 : ∀ c ∈ ws, c ∈ cs) (h2 : ∀ c ∈ cs, c ∈ ws) :
    structValue a (readMem (ws.foldl execWrite m) a.addr a.size) = .ok (.one (.int v)) := by
  obtain ⟨_, hp, _, hw⟩ := struct_write_exact T buf s f _ m hb a data cs h
  rw [(hw ws h1 h2).2.1]
  unfold structPack at hp
  simp only [hl, ne_eq, not_true_eq_false, if_false] at hp
  have e := unpackAll_packAll _ _ _ hp
  rw [hi] at e
  unfold structValue
  simp only [hl, if_true, hi, e, List.zipWith_cons_cons, normVal]


/-! ### per-core accessors: the address -/

theorem vcpuBase_ok (T : List PStruct) (m : Mem) (ab : Access) (v : RVal) (h : vcpuBase T m = .ok (ab, v)) :
    structAccess T nSv nVcpuBase = .ok ab ∧ structValue ab (readMem m ab.addr ab.size) = .ok v := by
  unfold vcpuBase at h
  split at h
  · cases h
  · rename_i ab' hab
    split at h
    · cases h
    · rename_i v' hv
      simp only [Except.ok.injEq, Prod.mk.injEq] at h
      obtain ⟨rfl, rfl⟩ := h
      exact ⟨hab, hv⟩

/-- **`vcpu_field_address`.**  Whenever a per-core accessor has worked out its address, for EVERY core `p`:
the field is the one of the table's `vcpu` struct, the first access was the struct read of `sv.vcpu_base`
(address sv.base + offset of `vcpu_base`), `vb` is the number the machine's memory holds there, and the
address is `vb + size_of(vcpu) * p + offset`; the format is ONE copy of the field's format. -/
theorem vcpu_field_address (T : List PStruct) (m : Mem) (f : Bytes) (p : Nat) (ab a : Access)
    (h : vcpuAccess T m f p = .ok (ab, a)) :
    ∃ st vb sz, getStruct T nVcpu = some st ∧ getField st.fields f = some a.field ∧
      structAccess T nSv nVcpuBase = .ok ab ∧ IsAccess T nSv nVcpuBase ab ∧
      structValue ab (readMem m ab.addr ab.size) = .ok (.one (.int vb)) ∧ st.size = some sz ∧
      (a.addr : Int) = vb + sz * p + a.field.offset ∧ packItems a.field.pack = some a.items := by
  unfold vcpuAccess at h
  split at h
  · cases h
  · rename_i st hst
    split at h
    · cases h
    · rename_i fld hfld
      split at h
      · cases h
      · rename_i ab' vb hvb
        obtain ⟨hab, hval⟩ := vcpuBase_ok T m ab' _ hvb
        split at h
        · cases h
        · rename_i sz hsz
          split at h
          · cases h
          · rename_i items hit
            split at h
            · cases h
            · rename_i hneg
              simp only [Except.ok.injEq, Prod.mk.injEq] at h
              obtain ⟨rfl, rfl⟩ := h
              exact ⟨st, vb, sz, hst, hfld, hab, structAccess_ok _ _ _ _ hab, hval, hsz, by simp only; omega, hit⟩
      · cases h

/-- `sv.vcpu_base` is a 32-bit word: what `read_struct_field("sv", "vcpu_base")` returns is the number whose
little-endian bytes the memory holds at sv.base + offset -/
theorem vcpuBase_word (T : List PStruct) (m : Mem) (ab : Access) (vb : Nat)
    (hab : structAccess T nSv nVcpuBase = .ok ab) (hi : ab.items = [.int 73]) (hl : ab.field.length = 1)
    (hvb : vb < 2 ^ 32) (hm : readMem m ab.addr 4 = leBytes 4 vb) :
    vcpuBase T m = .ok (ab, .one (.int vb)) := by
  have hs : ab.size = 4 := by unfold Access.size; rw [hi]; decide
  unfold vcpuBase
  simp only [hab, hs, hm]
  unfold structValue
  have e : unpackAll ab.items (leBytes 4 vb) = [.int vb] := by
    rw [hi]
    have l4 : (leBytes 4 vb).length = 4 := leBytes_length 4 vb
    have hw : (Item.int 73).size = 4 := by decide
    simp only [unpackAll, hw]
    rw [List.take_of_length_le (by omega)]
    simp only [unpackItem, fromLE_leBytes]
    have : vb % 256 ^ 4 = vb := Nat.mod_eq_of_lt (by omega)
    simp [this]
  simp only [e, hl, if_true]

theorem vcpuAccess_word (T : List PStruct) (m : Mem) (f : Bytes) (p : Nat) (ab : Access) (vb : Nat)
    (hab : structAccess T nSv nVcpuBase = .ok ab) (hi : ab.items = [.int 73]) (hl : ab.field.length = 1)
    (hvb : vb < 2 ^ 32) (hm : readMem m ab.addr 4 = leBytes 4 vb)
    (st : PStruct) (hst : getStruct T nVcpu = some st) (fld : PField) (hf : getField st.fields f = some fld)
    (sz : Int) (hsz : st.size = some sz) (hsz0 : 0 ≤ sz) (items : List Item)
    (hit : packItems fld.pack = some items) (hoff : 0 ≤ fld.offset) :
    vcpuAccess T m f p = .ok (ab, ⟨((vb : Int) + sz * p + fld.offset).toNat, items, fld⟩) := by
  unfold vcpuAccess
  simp only [hst, hf, vcpuBase_word T m ab vb hab hi hl hvb hm, hsz, hit]
  have : ¬ ((vb : Int) + sz * p + fld.offset < 0) := by
    have : 0 ≤ sz * (p : Int) := Int.mul_nonneg hsz0 (by omega)
    omega
  simp only [this, if_false]

/-! ### fields do not overlap -/

theorem getField_some (l : List PField) (n : Bytes) (g : PField) (h : getField l n = some g) :
    g ∈ l ∧ g.name = n := by
  induction l with
  | nil => cases h
  | cons x r ih =>
    simp only [getField] at h
    split at h
    · cases h; exact ⟨by simp, by assumption⟩
    · have := ih h; exact ⟨by simp [this.1], this.2⟩

def Apart (pc : Bool) (f g : PField) : Prop :=
  f.offset + fieldSize pc f ≤ g.offset ∨ g.offset + fieldSize pc g ≤ f.offset

theorem disjointFrom_spec (pc : Bool) (f : PField) (l : List PField) (h : disjointFrom pc f l = true) :
    ∀ g ∈ l, Apart pc f g := by
  induction l with
  | nil => intro g hg; cases hg
  | cons x r ih =>
    simp only [disjointFrom, Bool.and_eq_true, Bool.or_eq_true, decide_eq_true_eq] at h
    intro g hg
    simp only [List.mem_cons] at hg
    rcases hg with rfl | hg
    · exact h.1
    · exact ih h.2 g hg

theorem pairwiseDisjoint_spec (pc : Bool) (l : List PField) (h : pairwiseDisjoint pc l = true) :
    ∀ f ∈ l, ∀ g ∈ l, f.name ≠ g.name → Apart pc f g := by
  induction l with
  | nil => intro f hf; cases hf
  | cons x r ih =>
    simp only [pairwiseDisjoint, Bool.and_eq_true] at h
    intro f hf g hg hne
    simp only [List.mem_cons] at hf hg
    rcases hf with rfl | hf <;> rcases hg with rfl | hg
    · exact absurd rfl hne
    · exact disjointFrom_spec pc _ r h.1 g hg
    · have := disjointFrom_spec pc _ r h.1 f hf
      unfold Apart at *; omega
    · exact ih h.2 f hf g hg hne

/-- **Layout.**  In a well-formed struct (`layoutWFB`, decided) two fields with different names never share
a byte, and every field lies inside the struct. -/
theorem layout_apart (pc : Bool) (st : PStruct) (h : layoutWFB pc st = true) :
    (∀ f ∈ st.fields, ∀ g ∈ st.fields, f.name ≠ g.name → Apart pc f g) ∧
    (∀ f ∈ st.fields, 0 ≤ f.offset ∧ f.offset + fieldSize pc f ≤ st.size.getD 0 ∧
      (if pc then packItems f.pack else fmtItems f.pack f.length).isSome) := by
  simp only [layoutWFB, Bool.and_eq_true, List.all_eq_true, decide_eq_true_eq] at h
  exact ⟨pairwiseDisjoint_spec pc _ h.2, fun f hf => ⟨(h.1.2 f hf).1.1, (h.1.2 f hf).1.2, (h.1.2 f hf).2⟩⟩

theorem access_size (T : List PStruct) (s f : Bytes) (a : Access) (h : IsAccess T s f a) :
    a.size = fieldSize false a.field := by
  obtain ⟨_, _, _, _, _, _, hit⟩ := h
  simp [fieldSize, hit, Access.size]

/-- **`field_isolated`.**  In a struct with a well-formed layout, writing field `f` - its write commands
executed in any order - changes no byte of another field `g`, so reading `g` afterwards returns what it
returned before. -/
theorem field_isolated (T : List PStruct) (buf : Nat) (s f g : Bytes) (w : WVal) (m : Mem) (hb : 0 < buf)
    (a : Access) (data : List Nat) (cs : List Chunk) (h : structWrite T buf s f w = .ok (a, data, cs))
    (ag : Access) (hg : structAccess T s g = .ok ag) (hne : f ≠ g)
    (st : PStruct) (hst : getStruct T s = some st) (hwf : layoutWFB false st = true)
    (ws : List Chunk) (h1 : ∀ c ∈ ws, c ∈ cs) (h2 : ∀ c ∈ cs, c ∈ ws) :
    (a.addr + a.size ≤ ag.addr ∨ ag.addr + ag.size ≤ a.addr) ∧
    readMem (ws.foldl execWrite m) ag.addr ag.size = readMem m ag.addr ag.size ∧
    structValue ag (readMem (ws.foldl execWrite m) ag.addr ag.size) =
      structValue ag (readMem m ag.addr ag.size) := by
  obtain ⟨hia, _, hlen, hw⟩ := struct_write_exact T buf s f w m hb a data cs h
  have hig := structAccess_ok T s g ag hg
  have sa := access_size T s f a hia
  have sg := access_size T s g ag hig
  obtain ⟨st1, b1, hs1, hf1, hb1, ha1, _⟩ := hia
  obtain ⟨st2, b2, hs2, hf2, hb2, ha2, _⟩ := hig
  rw [hst] at hs1 hs2
  cases hs1; cases hs2
  rw [hb1] at hb2; cases hb2
  obtain ⟨m1, n1⟩ := getField_some _ _ _ hf1
  obtain ⟨m2, n2⟩ := getField_some _ _ _ hf2
  have hap := (layout_apart false st hwf).1 _ m1 _ m2 (by rw [n1, n2]; exact hne)
  have hdis : a.addr + a.size ≤ ag.addr ∨ ag.addr + ag.size ≤ a.addr := by
    unfold Apart at hap
    rw [← sa, ← sg] at hap
    omega
  have e := (hw ws h1 h2).1
  have hr : readMem (ws.foldl execWrite m) ag.addr ag.size = readMem m ag.addr ag.size := by
    rw [e]
    exact readMem_writeMem_disjoint m a.addr data ag.addr ag.size (by omega)
  exact ⟨hdis, hr, by rw [hr]⟩

/-- **Per-core isolation.**  With a well-formed `vcpu` layout, the bytes of field `f` of core `p` and of
field `g` of core `q` are disjoint unless it is the same field of the same core - so a per-core write never
changes another field or another core's block. -/
theorem vcpu_field_isolated (T : List PStruct) (m : Mem) (f g : Bytes) (p q : Nat) (ab1 a1 ab2 a2 : Access)
    (h1 : vcpuAccess T m f p = .ok (ab1, a1)) (h2 : vcpuAccess T m g q = .ok (ab2, a2))
    (hne : f ≠ g ∨ p ≠ q) (st : PStruct) (hst : getStruct T nVcpu = some st) (hwf : layoutWFB true st = true) :
    a1.addr + a1.size ≤ a2.addr ∨ a2.addr + a2.size ≤ a1.addr := by
  obtain ⟨st1, vb1, sz1, hs1, hf1, e1, _, hv1, hz1, ha1, hi1⟩ := vcpu_field_address T m f p ab1 a1 h1
  obtain ⟨st2, vb2, sz2, hs2, hf2, e2, _, hv2, hz2, ha2, hi2⟩ := vcpu_field_address T m g q ab2 a2 h2
  have hab : ab1 = ab2 := by rw [e1] at e2; cases e2; rfl
  subst hab
  rw [hv1] at hv2; cases hv2
  rw [hst] at hs1 hs2; cases hs1; cases hs2
  rw [hz1] at hz2; cases hz2
  obtain ⟨m1, n1⟩ := getField_some _ _ _ hf1
  obtain ⟨m2, n2⟩ := getField_some _ _ _ hf2
  have hl := layout_apart true st hwf
  have w1 := hl.2 _ m1
  have w2 := hl.2 _ m2
  have s1 : a1.size = fieldSize true a1.field := by simp [fieldSize, hi1, Access.size]
  have s2 : a2.size = fieldSize true a2.field := by simp [fieldSize, hi2, Access.size]
  rw [hz1] at w1 w2
  simp only [Option.getD_some] at w1 w2
  rw [← s1] at w1; rw [← s2] at w2
  rcases Nat.lt_trichotomy p q with hpq | hpq | hpq
  · have : sz1 * ((p : Int) + 1) ≤ sz1 * (q : Int) := Int.mul_le_mul_of_nonneg_left (by omega) (by omega)
    rw [Int.mul_add, Int.mul_one] at this
    omega
  · subst hpq
    have hfg : f ≠ g := by rcases hne with h | h; exact h; exact absurd rfl h
    have hap := hl.1 _ m1 _ m2 (by rw [n1, n2]; exact hfg)
    unfold Apart at hap
    rw [← s1, ← s2] at hap
    omega
  · have : sz1 * ((q : Int) + 1) ≤ sz1 * (p : Int) := Int.mul_le_mul_of_nonneg_left (by omega) (by omega)
    rw [Int.mul_add, Int.mul_one] at this
    omega


/-! ### tables with a well-formed layout; the bundled sark.struct -/

theorem tableOK_spec (T : List PStruct) (h : tableOKB T = true) :
    (∃ st, getStruct T nSv = some st ∧ layoutWFB false st = true) ∧
    (∃ st sz, getStruct T nVcpu = some st ∧ layoutWFB true st = true ∧ st.size = some sz ∧ 0 ≤ sz) ∧
    (∃ ab, structAccess T nSv nVcpuBase = .ok ab ∧ ab.items = [.int 73] ∧ ab.field.length = 1) := by
  simp only [tableOKB, Bool.and_eq_true] at h
  obtain ⟨⟨h1, h2⟩, h3⟩ := h
  refine ⟨?_, ?_, ?_⟩
  · cases hs : getStruct T nSv with
    | none => simp [hs] at h1
    | some st => simp only [hs, Option.any_some] at h1; exact ⟨st, rfl, h1⟩
  · cases hs : getStruct T nVcpu with
    | none => simp [hs] at h2
    | some st =>
      simp only [hs, Option.any_some, Bool.and_eq_true] at h2
      cases hz : st.size with
      | none => simp [hz] at h2
      | some sz =>
        simp only [hz, Option.any_some, decide_eq_true_eq] at h2
        exact ⟨st, sz, rfl, h2.1, hz, h2.2⟩
  · cases ha : structAccess T nSv nVcpuBase with
    | error e => simp [ha] at h3
    | ok ab =>
      simp only [ha, Bool.and_eq_true, beq_iff_eq] at h3
      exact ⟨ab, rfl, h3.1, h3.2⟩

/-- **Per-core address, for every core and field of a well-formed table.**  If the machine's memory holds
the 32-bit number `vb` in `sv.vcpu_base`, then for EVERY core `p` and every field of the `vcpu` struct the
per-core accessors work out the address `vb + size_of(vcpu) * p + offset` and the field's own size. -/
theorem vcpu_field_address_total (T : List PStruct) (hT : tableOKB T = true) (m : Mem) (vb p : Nat)
    (hvb : vb < 2 ^ 32) :
    ∃ ab st sz, structAccess T nSv nVcpuBase = .ok ab ∧ getStruct T nVcpu = some st ∧ st.size = some sz ∧
      (readMem m ab.addr 4 = leBytes 4 vb → ∀ f fld, getField st.fields f = some fld →
        ∃ a, vcpuAccess T m f p = .ok (ab, a) ∧ (a.addr : Int) = vb + sz * p + fld.offset ∧ a.field = fld ∧
          a.size = fieldSize true fld) := by
  obtain ⟨_, ⟨st, sz, hst, hwf, hsz, hsz0⟩, ⟨ab, hab, hi, hl⟩⟩ := tableOK_spec T hT
  refine ⟨ab, st, sz, hab, hst, hsz, ?_⟩
  intro hm f fld hf
  obtain ⟨mem, _⟩ := getField_some _ _ _ hf
  obtain ⟨ho, _, hsome⟩ := (layout_apart true st hwf).2 fld mem
  simp only [if_true] at hsome
  cases hit : packItems fld.pack with
  | none => simp [hit] at hsome
  | some items =>
    have := vcpuAccess_word T m f p ab vb hab hi hl hvb hm st hst fld hf sz hsz hsz0 items hit ho
    refine ⟨_, this, ?_, rfl, ?_⟩
    · have : 0 ≤ sz * (p : Int) := Int.mul_nonneg hsz0 (by omega)
      simp only
      omega
    · simp [Access.size, fieldSize, hit]

theorem sarkTable_eq : sarkTable = genStructs.map ofDef := by
  unfold sarkTable parsedSark
  rw [sark_parsed]

/-- **The bundled sark.struct has a well-formed layout** (kernel evaluation over the table parsed from the
file's bytes, regenerated on every run): no two `sv` fields overlap under the struct accessors, no two `vcpu`
fields overlap under the per-core accessors, every field lies inside its struct, `sv.vcpu_base` is a word. -/
theorem sark_layout_ok : tableOKB sarkTable = true := by
  rw [sarkTable_eq]
  decide +kernel

/-- `field_isolated` for the system-variable struct of the bundled file: no hypothesis on the layout left -/
theorem sark_field_isolated (buf : Nat) (f g : Bytes) (w : WVal) (m : Mem) (hb : 0 < buf)
    (a : Access) (data : List Nat) (cs : List Chunk) (h : structWrite sarkTable buf nSv f w = .ok (a, data, cs))
    (ag : Access) (hg : structAccess sarkTable nSv g = .ok ag) (hne : f ≠ g)
    (ws : List Chunk) (h1 : ∀ c ∈ ws, c ∈ cs) (h2 : ∀ c ∈ cs, c ∈ ws) :
    (a.addr + a.size ≤ ag.addr ∨ ag.addr + ag.size ≤ a.addr) ∧
    readMem (ws.foldl execWrite m) ag.addr ag.size = readMem m ag.addr ag.size ∧
    structValue ag (readMem (ws.foldl execWrite m) ag.addr ag.size) =
      structValue ag (readMem m ag.addr ag.size) := by
  obtain ⟨⟨st, hst, hwf⟩, _, _⟩ := tableOK_spec _ sark_layout_ok
  exact field_isolated sarkTable buf nSv f g w m hb a data cs h ag hg hne st hst hwf ws h1 h2

/-- per-core address and isolation for the bundled file -/
theorem sark_vcpu_field_address (m : Mem) (vb p : Nat) (hvb : vb < 2 ^ 32) :
    ∃ ab st sz, structAccess sarkTable nSv nVcpuBase = .ok ab ∧ getStruct sarkTable nVcpu = some st ∧
      st.size = some sz ∧
      (readMem m ab.addr 4 = leBytes 4 vb → ∀ f fld, getField st.fields f = some fld →
        ∃ a, vcpuAccess sarkTable m f p = .ok (ab, a) ∧ (a.addr : Int) = vb + sz * p + fld.offset ∧
          a.field = fld ∧ a.size = fieldSize true fld) :=
  vcpu_field_address_total sarkTable sark_layout_ok m vb p hvb

theorem sark_vcpu_field_isolated (m : Mem) (f g : Bytes) (p q : Nat) (ab1 a1 ab2 a2 : Access)
    (h1 : vcpuAccess sarkTable m f p = .ok (ab1, a1)) (h2 : vcpuAccess sarkTable m g q = .ok (ab2, a2))
    (hne : f ≠ g ∨ p ≠ q) : a1.addr + a1.size ≤ a2.addr ∨ a2.addr + a2.size ≤ a1.addr := by
  obtain ⟨_, ⟨st, _, hst, hwf, _, _⟩, _⟩ := tableOK_spec _ sark_layout_ok
  exact vcpu_field_isolated sarkTable m f g p q ab1 a1 ab2 a2 h1 h2 hne st hst hwf

/-! non-vacuity on the bundled table: `sv.vcpu_base` lives at 0xf5007f00 + 0xcc; writing 0x12345678 to
`sv.iobuf_size` (offset 0x50) with a 3-byte buffer takes two commands and stores the little-endian bytes;
core 3's `user0` (offset 112 of a 128-byte block) is at vcpu_base + 3 * 128 + 112; the string field
`app_name` is 16 bytes for the per-core accessors -/
example : (structAccess (genStructs.map ofDef) nSv nVcpuBase).toOption.map (fun a => (a.addr, a.items)) =
    some (0xf5007f00 + 0xcc, [.int 73]) := by decide +kernel
example : (structWrite (genStructs.map ofDef) 3 nSv (sbytes "iobuf_size") (.one (.int 0x12345678))).toOption.map
    (fun r => (r.1.addr, r.2.1, r.2.2.length)) = some (0xf5007f00 + 0x50, [0x78, 0x56, 0x34, 0x12], 2) := by
  decide +kernel
example : (vcpuAccess (genStructs.map ofDef) (memOf [(0xf5007f00 + 0xcc, [0, 0x70, 0, 0xe5])]) (sbytes "user0") 3
    ).toOption.map (fun r => (r.2.addr, r.2.size)) = some (0xe5007000 + 3 * 128 + 112, 4) := by decide +kernel
example : (vcpuAccess (genStructs.map ofDef) (memOf [(0xf5007f00 + 0xcc, [0, 0x70, 0, 0xe5])]) (sbytes "app_name") 0
    ).toOption.map (fun r => (r.2.addr, r.2.size)) = some (0xe5007000 + 72, 16) := by decide +kernel

end Rig.C07Struct
