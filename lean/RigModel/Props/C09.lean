/-
C09 - application loading returns only when every requested core is loaded.
-/
import RigModel.Model.C09
set_option linter.unusedSimpArgs false
set_option linter.unusedVariables false

namespace Rig.C09

/-- the fill id sent is even and in 2..252 for every value of `_nn_id` -/
theorem nnid_range (n : Nat) : 1 ≤ nextNn n ∧ nextNn n ≤ 126 ∧ 2 * nextNn n % 2 = 0 := by
  unfold nextNn; split <;> omega

end Rig.C09
