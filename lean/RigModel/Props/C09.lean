/-
C09 - application loading returns only when every requested core is loaded.

Model: RigModel/Model/C09.lean (controller `loadApplication`/`floodFill` running against the machine
specification `stepP`).  Hypotheses, all documented preconditions of the code or of the machine:
  `Valid`     buffer a multiple of 4 in 4..1024, app id < 256, images whole words and at most 255
              blocks (8-bit field of the start packet), requested chips exist, cores < 18, binaries
              target disjoint cores, `compress_flood_fill_regions` meets its contract (C12);
  `ValidC12`  the same with the contract hypothesis REPLACED by: the controller's `compress` is C12's
              model `Rig.C12.compressD` of `compress_flood_fill_regions` and the machine's chips lie in the
              256 x 256 space - `compress_contract_discharged` derives the contract from C12's theorems,
              the `_c12` corollaries carry no assumption about region compression;
  `PreClean`  before the call no core waits under this app id and no requested core waits.
Every theorem holds for ALL missed-set oracles `mc.missed`, all machines, maps, images, n_tries,
both verification modes.
-/
import RigModel.Lemmas.C09Loop
import RigModel.Lemmas.C09Trace
import RigModel.Props.C12
import Mathlib.Tactic.IntervalCases
set_option linter.unusedSimpArgs false
set_option linter.unusedVariables false

namespace Rig.C09
open Rig.Gen.Load Rig.Gen.Scp

/-- the fill id is `2 * _nn_id` with `_nn_id` cycling through 1..126: even, 2..252, for every history -/
theorem nnid_range (n : Nat) :
    1 ≤ nextNn n ∧ nextNn n ≤ 126 ∧ nextNn n * 2 % 2 = 0 ∧ 2 ≤ nextNn n * 2 ∧ nextNn n * 2 ≤ 252 := by
  unfold nextNn; split <;> omega

/-- **every fill sent is well formed.**  The requests `flood_fill_aplx` sends for one binary decode
to: a start packet announcing `ceil(len / buf)` blocks under the id, the core selections exactly
as `compress` returned them (strictly increasing by C12) before any data, the data packets, the
end packet with the same id, the app id and the flags.  The data packets are as many as
announced, numbered 0, 1, 2, ..., each carries between 1 and `buf` bytes (a whole number of
words), and their payloads concatenated are the binary. -/
theorem fill_wellformed (c : Ctl) (u : App) (n base flags : Nat)
    (hb : 4 ≤ c.buf) (hb4 : 4 ∣ c.buf) (hbmax : c.buf ≤ 1024) (happ : c.appId < 256) (hf : flags < 64)
    (hi4 : 4 ∣ u.image.length) (hblocks : u.image.length ≤ 255 * c.buf)
    (hmask : ∀ rm ∈ c.compress u.targets, rm.2 < 262144) :
    let pid := nextNn n * 2
    let data := ffdPkts pid c.buf u.image.length 0 base u.image
    (fillHead c pid u ++ fillTail c pid base flags u).map decode =
        fillPkts c.buf pid base c.appId flags (c.compress u.targets) u.image ∧
      data.length = (u.image.length + c.buf - 1) / c.buf ∧
      data.map Pkt.block = List.range' 0 data.length ∧
      (data.map Pkt.payload).flatten = u.image ∧
      ∀ q ∈ data, 0 < q.payload.length ∧ q.payload.length ≤ c.buf ∧ 4 ∣ q.payload.length := by
  intro pid data
  have hb0 : 0 < c.buf := by omega
  have hpid : pid < 256 := nextNn_lt n
  refine ⟨?_, ffdPkts_length pid c.buf hb0 _ _ _ _ (Nat.le_refl _), ffdPkts_blocks pid c.buf _ _ _ _,
    ffdPkts_payload pid c.buf hb0 _ _ _ _ (Nat.le_refl _), fun q hq => ?_⟩
  · simp only [fillHead, fillTail, fillPkts, List.map_append, List.map_cons, List.map_nil, List.map_map,
      List.cons_append, List.append_assoc]
    rw [decode_ffs _ _ hpid (blocks_lt _ _ hb0 hblocks),
      ffdReqs_decode _ _ hpid hbmax _ 0 base u.image 255 rfl hblocks,
      decode_ffe _ _ _ hpid happ hf]
    congr 2
    apply List.map_congr_left
    intro rm hrm
    exact decode_ffcs rm (hmask rm hrm)
  · obtain ⟨h1, h2, h3⟩ := ffdPkts_sizes pid c.buf hb0 _ _ _ _ q hq
    exact ⟨h1, h2, h3 hb4 hi4⟩

/-- beyond the domain: with 256 blocks the count spills into the id field - the start packet of id 2
announces id 3 and 0 blocks (known finding `ffs-block-count-overflow`) -/
theorem block_count_overflow_example : decode (ffsReq 2 256) = .ffs 3 0 := by decide

/-- **a well-formed fill loads exactly the selected cores of the chips that take part** (machine
specification): after the packets of `fillPkts` a core holds (wait or run by the flag, app id,
the complete image) iff its chip is a chip of the machine that did not miss this fill, its
number is below 18 and one of the (region, mask) pairs selects it; every other core is unchanged. -/
theorem fill_loads_exactly (mc : MCfg) (buf pid base appId flags : Nat) (regs : List (Nat × Nat))
    (image : List Nat) (hb : 0 < buf) (hb4 : 4 ∣ buf) (hi4 : 4 ∣ image.length) (m : MState) :
    let m' := runP mc m (fillPkts buf pid base appId flags regs image)
    m'.fills = m.fills + 1 ∧
    ∀ x y p, m'.core x y p =
      if mc.chips.contains (x, y) && !mc.missed m.fills x y && decide (p < 18) && selectsCore regs x y p
      then ⟨if flags % 2 = 1 then stWait else stRun, appId, image⟩ else m.core x y p := by
  have := run_fill mc buf pid base appId flags regs image hb hb4 hi4 m [] (fun _ => rfl)
  simp only [List.append_nil] at this
  simpa only [fillPkts, List.cons_append, List.append_assoc] using this

theorem li_init (c : Ctl) (apps : List App) (m0 : MState) (hpre : PreClean m0 apps c.appId) (s : Sim)
    (hs : s.m = m0) : LI c apps m0 s apps := by
  subst hs
  refine ⟨⟨fun _ _ _ _ => rfl, fun _ _ _ _ _ _ => Or.inr rfl⟩, fun u hu => ⟨u, hu, rfl, rfl, fun _ _ _ h => h⟩,
    fun a ha x y p hw => ⟨fun _ => ⟨a, ha, ⟨rfl, rfl, fun _ _ _ h => h⟩, hw⟩, fun _ hl => ?_⟩⟩
  have hst : (s.m.core x y p).state = stWait := by rw [hl]; rfl
  have := (hpre x y p hst).2 a ha
  rw [hw] at this; exact absurd this (by simp)

/-- **normal return ⇒ exactly the requested cores are loaded.**  Under `Valid` and `PreClean`, for
every missed-set oracle and both verification modes: if `load_application` returns normally then
every requested core holds the binary named for it under the app id and is waiting (`wait`) or
running (start signal sent), and every core that was not requested is exactly as before the call
(`postOkCore` is the predicate the check evaluates on the implementation's machine). -/
theorem load_sound (mc : MCfg) (c : Ctl) (apps : List App) (hv : Valid mc c apps) (s : Sim)
    (hpre : PreClean s.m apps c.appId) (hok : (loadApplication mc c s apps).outcome = .ok) :
    ∀ x y p, postOkCore apps c.appId c.wait (s.m.core x y p)
      ((loadApplication mc c s apps).sim.m.core x y p) x y p = true := by
  obtain ⟨⟨hinv, hsub, htr⟩, _, _, _⟩ := loadLoop_spec mc c apps hv s.m hpre (c.nTries + 1) s 0 apps []
    (li_init c apps s.m hpre s rfl) (fun _ h => absurd h (by simp))
  generalize hr : loadLoop mc c (coreCount apps) (c.nTries + 1) s 0 apps [] = r at hinv hsub htr
  have hunl : r.2.1 = [] := by
    by_contra hne
    simp only [loadApplication, hr, if_pos hne] at hok
    exact absurd hok (by simp)
  have hloaded : ∀ a ∈ apps, ∀ x y p, wants a x y p = true → r.1.m.core x y p = ld c.appId a := by
    intro a ha x y p hw
    by_contra hne
    obtain ⟨u, hu, _⟩ := (htr a ha x y p hw).mp hne
    rw [hunl] at hu; exact absurd hu (by simp)
  intro x y p
  have hfin : (loadApplication mc c s apps).sim.m.core x y p =
      if c.wait then r.1.m.core x y p
      else if mc.chips.contains (x, y) && decide (p < 18) && matchesApp (r.1.m.core x y p) stWait c.appId
        then { r.1.m.core x y p with state := stRun } else r.1.m.core x y p := by
    simp only [loadApplication, hr, hunl, ne_eq, not_true_eq_false, if_false]
    by_cases hw : c.wait = true
    · simp only [hw, if_true]
    · have hw' : c.wait = false := by simpa using hw
      simp only [hw', Bool.false_eq_true, if_false, Sim.send, step, decode_start c.appId hv.happ, stepP,
        and_self, if_true]
  rw [hfin]
  unfold postOkCore wantedBy
  cases hfind : apps.find? (fun a => wants a x y p) with
  | some a =>
    have ha := List.mem_of_find?_eq_some hfind
    have hw : wants a x y p = true := by have := List.find?_some hfind; simpa using this
    obtain ⟨hc, hp⟩ := hv.hin a ha x y p hw
    rw [hloaded a ha x y p hw]
    by_cases hwt : c.wait = true
    · simp [hwt, ld]
    · have hw' : c.wait = false := by simpa using hwt
      have hcont : mc.chips.contains (x, y) = true := by simpa using hc
      simp [hw', ld, hcont, hc, hp, matchesApp]
  | none =>
    have hn : ∀ a ∈ apps, wants a x y p = false := by
      intro a ha
      have := (List.find?_eq_none.mp hfind) a ha
      simpa using this
    have he := hinv.1 x y p hn
    rw [he]
    have hnm : matchesApp (s.m.core x y p) stWait c.appId = false := by
      cases hm : matchesApp (s.m.core x y p) stWait c.appId with
      | false => rfl
      | true =>
        simp only [matchesApp, Bool.and_eq_true, beq_iff_eq] at hm
        exact absurd hm.2 (hpre x y p hm.1).1
    by_cases hwt : c.wait = true
    · simp [hwt]
    · have hw' : c.wait = false := by simpa using hwt
      simp [hw', hnm]

/-- **the error names exactly the cores that are not loaded.**  Under `Valid` and `PreClean`: if
`SpiNNakerLoadingError(unl)` is raised then a requested core is named in `unl` (under its binary)
iff it does not hold its binary under the app id in the wait state, a requested core is either
loaded or untouched, and cores that were not requested are untouched and not named
(`postErrCore` is the predicate the check evaluates on the implementation's machine). -/
theorem load_error_exact (mc : MCfg) (c : Ctl) (apps : List App) (hv : Valid mc c apps) (s : Sim)
    (hpre : PreClean s.m apps c.appId) (unl : List App)
    (herr : (loadApplication mc c s apps).outcome = .loadingError unl) :
    ∀ x y p, postErrCore apps unl c.appId (s.m.core x y p)
      ((loadApplication mc c s apps).sim.m.core x y p) x y p = true := by
  obtain ⟨⟨hinv, hsub, htr⟩, _, _, _⟩ := loadLoop_spec mc c apps hv s.m hpre (c.nTries + 1) s 0 apps []
    (li_init c apps s.m hpre s rfl) (fun _ h => absurd h (by simp))
  generalize hr : loadLoop mc c (coreCount apps) (c.nTries + 1) s 0 apps [] = r at hinv hsub htr
  have hne : r.2.1 ≠ [] := by
    intro he
    simp only [loadApplication, hr, he, ne_eq, not_true_eq_false, if_false] at herr
    split at herr <;> exact absurd herr (by simp)
  have hu : unl = r.2.1 ∧ (loadApplication mc c s apps).sim = r.1 := by
    simp only [loadApplication, hr, if_pos hne] at herr ⊢
    exact ⟨by injection herr with h; exact h.symm, trivial⟩
  obtain ⟨rfl, hsim⟩ := hu
  intro x y p
  rw [hsim]
  unfold postErrCore wantedBy
  cases hfind : apps.find? (fun a => wants a x y p) with
  | some a =>
    have ha := List.mem_of_find?_eq_some hfind
    have hw : wants a x y p = true := by have := List.find?_some hfind; simpa using this
    have hnamed : (r.2.1.any fun u => u.name == a.name && wants u x y p) = true ↔
        r.1.m.core x y p ≠ ld c.appId a := by
      rw [htr a ha x y p hw]
      simp only [List.any_eq_true, Bool.and_eq_true, beq_iff_eq]
      constructor
      · rintro ⟨u, hu, hn, hwu⟩
        obtain ⟨a', ha', hsa⟩ := hsub u hu
        have := hv.hdisj a ha a' ha' x y p hw (hsa.2.2 x y p hwu)
        subst this
        exact ⟨u, hu, hsa, hwu⟩
      · rintro ⟨u, hu, hsa, hwu⟩
        exact ⟨u, hu, hsa.1, hwu⟩
    have hl : loaded a c.appId (r.1.m.core x y p) = true ↔ r.1.m.core x y p = ld c.appId a := by
      simp [loaded, ld]
    simp only [Bool.and_eq_true, Bool.or_eq_true, beq_iff_eq]
    constructor
    · by_cases hld : r.1.m.core x y p = ld c.appId a
      · have h1 : (r.2.1.any fun u => u.name == a.name && wants u x y p) = false := by
          cases h : (r.2.1.any fun u => u.name == a.name && wants u x y p) with
          | false => rfl
          | true => exact absurd hld (hnamed.mp h)
        rw [h1, hl.mpr hld]; rfl
      · have h1 := hnamed.mpr hld
        have h2 : loaded a c.appId (r.1.m.core x y p) = false := by
          cases h : loaded a c.appId (r.1.m.core x y p) with
          | false => rfl
          | true => exact absurd (hl.mp h) hld
        rw [h1, h2]; rfl
    · rcases hinv.2 a ha x y p hw with h | h
      · right; exact hl.mpr h
      · left; exact h
  | none =>
    have hn : ∀ a ∈ apps, wants a x y p = false := by
      intro a ha
      have := (List.find?_eq_none.mp hfind) a ha
      simpa using this
    simp only [Bool.and_eq_true, beq_iff_eq, Bool.not_eq_true', List.any_eq_false]
    refine ⟨hinv.1 x y p hn, fun u hu hwu => ?_⟩
    obtain ⟨a', ha', hsa⟩ := hsub u hu
    have := hsa.2.2 x y p (by simpa using hwu)
    rw [hn a' ha'] at this; exact absurd this (by simp)

/-- **attempts are bounded**: at most `n_tries + 1` flood-fill attempts are made, and the error is
raised only after all of them (the loop is `while unloaded != {} and tries <= n_tries`). -/
theorem attempts_bounded (mc : MCfg) (c : Ctl) (apps : List App) (hv : Valid mc c apps) (s : Sim)
    (hpre : PreClean s.m apps c.appId) :
    (loadApplication mc c s apps).sent.length ≤ c.nTries + 1 ∧
    ∀ unl, (loadApplication mc c s apps).outcome = .loadingError unl →
      (loadApplication mc c s apps).sent.length = c.nTries + 1 := by
  obtain ⟨_, _, hlen, hfull⟩ := loadLoop_spec mc c apps hv s.m hpre (c.nTries + 1) s 0 apps []
    (li_init c apps s.m hpre s rfl) (fun _ h => absurd h (by simp))
  generalize hr : loadLoop mc c (coreCount apps) (c.nTries + 1) s 0 apps [] = r at hlen hfull
  have hsent : (loadApplication mc c s apps).sent = r.2.2 := by
    simp only [loadApplication, hr]; split
    · rfl
    · split <;> rfl
  rw [hsent]
  refine ⟨by simpa using hlen, fun unl herr => ?_⟩
  have hne : r.2.1 ≠ [] := by
    intro he
    simp only [loadApplication, hr, he, ne_eq, not_true_eq_false, if_false] at herr
    split at herr <;> exact absurd herr (by simp)
  have := hfull hne (by omega)
  simpa using this

/-- **each (re-)send targets exactly the still-unloaded map**: every map handed to
`flood_fill_aplx` is a part of the request and names exactly the requested cores that did not
hold their binary in a machine state reached during this call (`Tracks`). -/
theorem resend_exact (mc : MCfg) (c : Ctl) (apps : List App) (hv : Valid mc c apps) (s : Sim)
    (hpre : PreClean s.m apps c.appId) :
    ∀ l ∈ (loadApplication mc c s apps).sent, SentOK c apps s.m l := by
  obtain ⟨_, hs, _, _⟩ := loadLoop_spec mc c apps hv s.m hpre (c.nTries + 1) s 0 apps []
    (li_init c apps s.m hpre s rfl) (fun _ h => absurd h (by simp))
  generalize hr : loadLoop mc c (coreCount apps) (c.nTries + 1) s 0 apps [] = r at hs
  have hsent : (loadApplication mc c s apps).sent = r.2.2 := by
    simp only [loadApplication, hr]; split
    · rfl
    · split <;> rfl
  rw [hsent]; exact hs

/-! ### the start signal -/

/-- **exactly one start signal, after the last fill, and only on a normal return without `wait`.**
For ALL machines, maps, missed-set oracles and modes (no `Valid`, no `PreClean`; app id below 256):
the requests `load_application` adds to the log split into `added` - fills, base-address reads,
count requests, state read-backs: none of them a signal packet - and
* on a normal return with `wait = False`: one more request, the newest of the log - so sent after
  every packet of the last fill and after the last verification -, which is `send_signal("start",
  app_id)` (`startReq`; the machine reads it as signal `start`, app mask 0xff, this app id, and
  acknowledges it);
* on a normal return with `wait = True`, and whenever `SpiNNakerLoadingError` is raised: nothing more -
  no signal packet at all is sent. -/
theorem start_signal_once (mc : MCfg) (c : Ctl) (s : Sim) (apps : List App) (happ : c.appId < 256) :
    ∃ added : List (Req × Reply), (∀ e ∈ added, isSignalPkt e.1 = false) ∧
      (((loadApplication mc c s apps).outcome = .ok ∧ c.wait = false) →
        (loadApplication mc c s apps).sim.trace = (startReq c.appId, Reply.ok) :: (added ++ s.trace) ∧
        isSignalPkt (startReq c.appId) = true ∧ decode (startReq c.appId) = .signal sigStart 255 c.appId) ∧
      (¬ ((loadApplication mc c s apps).outcome = .ok ∧ c.wait = false) →
        (loadApplication mc c s apps).sim.trace = added ++ s.trace) := by
  obtain ⟨added, hadd, hno⟩ := ext_loadLoop mc c (coreCount apps) (c.nTries + 1) s 0 apps []
  refine ⟨added, hno, ?_, ?_⟩
  · rintro ⟨hok, hw⟩
    have hd := decode_start c.appId happ
    refine ⟨?_, by simp only [isSignalPkt, hd], hd⟩
    simp only [loadApplication] at hok ⊢
    split at hok
    · cases hok
    · rename_i hnil
      simp only [if_neg hnil, hw, Bool.false_eq_true, if_false, Sim.send, step, hd, stepP, and_self, if_true, hadd]
  · intro hnot
    simp only [loadApplication] at hnot ⊢
    split
    · exact hadd
    · split
      · exact hadd
      · rename_i hnil hw
        exfalso
        apply hnot
        have hw' : c.wait = false := by simpa using hw
        simp only [if_neg hnil, hw', Bool.false_eq_true, if_false, and_self]

/-- counting form: among the requests of one call exactly one signal packet if it returned
normally with `wait = False`, otherwise none -/
theorem start_signal_count (mc : MCfg) (c : Ctl) (s : Sim) (apps : List App) (happ : c.appId < 256) :
    ∃ new : List (Req × Reply), (loadApplication mc c s apps).sim.trace = new ++ s.trace ∧
      new.countP (fun e => isSignalPkt e.1) =
        if (loadApplication mc c s apps).outcome = .ok ∧ c.wait = false then 1 else 0 := by
  obtain ⟨added, hno, h1, h2⟩ := start_signal_once mc c s apps happ
  have h0 : added.countP (fun e => isSignalPkt e.1) = 0 := by
    rw [List.countP_eq_zero]
    intro e he; simp [hno e he]
  by_cases hc : (loadApplication mc c s apps).outcome = .ok ∧ c.wait = false
  · obtain ⟨ht, hs, _⟩ := h1 hc
    refine ⟨(startReq c.appId, Reply.ok) :: added, by rw [ht]; rfl, ?_⟩
    rw [if_pos hc, List.countP_cons, h0]
    simp [hs]
  · exact ⟨added, h2 hc, by rw [if_neg hc, h0]⟩

/-- the run-time oracle `startOnceOK` (evaluated by the check on the implementation's requests) holds
on every run of the model: a call started from an empty log puts on the wire a request sequence
whose only signal packet is a final `send_signal("start", app_id)` - present iff the call returned
normally with `wait = False` -/
theorem start_once_oracle_holds (mc : MCfg) (c : Ctl) (s : Sim) (apps : List App) (happ : c.appId < 256)
    (hs : s.trace = []) :
    startOnceOK c.appId (decide ((loadApplication mc c s apps).outcome = .ok) && !c.wait)
      ((loadApplication mc c s apps).sim.trace.reverse.map fun e => e.1) = true := by
  obtain ⟨added, hno, h1, h2⟩ := start_signal_once mc c s apps happ
  have hall : ((added.reverse.map fun e => e.1).all fun r => !isSignalPkt r) = true := by
    simp only [List.all_eq_true, List.mem_map, List.mem_reverse]
    rintro r ⟨e, he, rfl⟩
    simp [hno e he]
  by_cases hc : (loadApplication mc c s apps).outcome = .ok ∧ c.wait = false
  · obtain ⟨ht, _, _⟩ := h1 hc
    have hst : (decide ((loadApplication mc c s apps).outcome = .ok) && !c.wait) = true := by
      simp [hc.1, hc.2]
    rw [hst, ht, hs]
    simp only [startOnceOK, if_true, List.append_nil, List.reverse_cons, List.map_append, List.map_cons,
      List.map_nil, List.getLast?_append, List.getLast?_singleton, List.dropLast_concat, Option.some_or,
      beq_self_eq_true, Bool.true_and]
    exact hall
  · have hst : (decide ((loadApplication mc c s apps).outcome = .ok) && !c.wait) = false := by
      by_cases h3 : (loadApplication mc c s apps).outcome = .ok
      · have : c.wait = true := by
          cases hw : c.wait with
          | true => rfl
          | false => exact absurd ⟨h3, hw⟩ hc
        simp [this]
      · simp [h3]
    rw [hst, h2 hc, hs]
    simp only [startOnceOK, Bool.false_eq_true, if_false, List.append_nil]
    exact hall

/-! ### the region-compression contract, discharged by C12

`Props/C12.lean` proves that C12's model of `compress_flood_fill_regions` (`Rig.C12.compressD`: the
dictionary inserted into the region tree in iteration order, pairs emitted and sorted) meets, under
C09's own reading of the region word, everything `CompressOK` asks.  Instantiating the controller's
`compress` with it removes the hypothesis from every theorem above. -/

/-- the function the driver runs when no table of implementation pairs is given (`Model/C09.lean`,
which cannot import C12's Props) is C12's `compressD` -/
theorem compressC12_eq : compressC12 = Rig.C12.compressD := rfl

/-- **C12 discharges C09's contract**: for the controller whose `compress` is C12's model of
`compress_flood_fill_regions`, on a machine whose chips lie in the 256 x 256 space and a request
naming only chips of the machine and cores below 18, `CompressOK` holds - for every sub-map the
retry loop can produce. -/
theorem compress_contract_discharged (mc : MCfg) (c : Ctl) (apps : List App)
    (hc : c.compress = Rig.C12.compressD)
    (hin : ∀ a ∈ apps, ∀ x y p, wants a x y p = true → (x, y) ∈ mc.chips ∧ p < 18)
    (h256 : ∀ ch ∈ mc.chips, ch.1 < 256 ∧ ch.2 < 256) : CompressOK mc c apps := by
  intro t ⟨a, ha, hsub⟩
  have hdom : ∀ x y p, Rig.C12.wantsD t x y p = true → x < 256 ∧ y < 256 ∧ p < 18 := by
    intro x y p hw
    obtain ⟨hch, hp⟩ := hin a ha x y p (hsub x y p hw)
    obtain ⟨hx, hy⟩ := h256 (x, y) hch
    exact ⟨hx, hy, hp⟩
  obtain ⟨h1, h2, _⟩ := Rig.C12.c09_compressOK t hdom
  rw [hc]
  exact ⟨h1, fun x y p _ _ => h2 x y p⟩

/-- documented domain of `load_application`, with region compression done by C12's model (no
contract hypothesis): `Valid` without `hcomp`, plus chips within the 256 x 256 space -/
structure ValidC12 (mc : MCfg) (c : Ctl) (apps : List App) : Prop where
  hb : 4 ≤ c.buf
  hb4 : 4 ∣ c.buf
  hbmax : c.buf ≤ 1024
  happ : c.appId < 256
  hv : ∀ x y, mc.vcpuBase x y < 4294967296
  himg : ∀ a ∈ apps, 4 ∣ a.image.length ∧ a.image.length ≤ 255 * c.buf
  hchips : mc.chips.Nodup
  h256 : ∀ ch ∈ mc.chips, ch.1 < 256 ∧ ch.2 < 256
  hin : ∀ a ∈ apps, ∀ x y p, wants a x y p = true → (x, y) ∈ mc.chips ∧ p < 18
  hdisj : ∀ a ∈ apps, ∀ b ∈ apps, ∀ x y p, wants a x y p = true → wants b x y p = true → a = b
  hcompress : c.compress = Rig.C12.compressD

theorem ValidC12.valid {mc : MCfg} {c : Ctl} {apps : List App} (h : ValidC12 mc c apps) : Valid mc c apps :=
  { hb := h.hb, hb4 := h.hb4, hbmax := h.hbmax, happ := h.happ, hv := h.hv, himg := h.himg,
    hchips := h.hchips, hin := h.hin, hdisj := h.hdisj,
    hcomp := compress_contract_discharged mc c apps h.hcompress h.hin h.h256 }

/-- **every fill sent is well formed, core selections included** (no assumption about region
compression).  With `compress` = C12's model, for any map `u` naming chips of the 256 x 256 space
and cores below 18, the requests `flood_fill_aplx` sends for `u` decode to: the start packet
announcing `ceil(len / buf)` blocks under the id; then - between the start packet and the first
data packet, hence between start and end - the core selections, which are **strictly increasing**
as (region, core mask) pairs, have 18-bit masks and select exactly the requested cores (for ALL
chips and cores); then the data packets; then the end packet.  The data packets are as many as
announced, numbered 0, 1, 2, ..., each of 1..buf bytes (whole words), reassembling to the binary. -/
theorem fill_wellformed_c12 (c : Ctl) (u : App) (n base flags : Nat) (hc : c.compress = Rig.C12.compressD)
    (hb : 4 ≤ c.buf) (hb4 : 4 ∣ c.buf) (hbmax : c.buf ≤ 1024) (happ : c.appId < 256) (hf : flags < 64)
    (hi4 : 4 ∣ u.image.length) (hblocks : u.image.length ≤ 255 * c.buf)
    (hdom : ∀ x y p, wants u x y p = true → x < 256 ∧ y < 256 ∧ p < 18) :
    let pid := nextNn n * 2
    let regs := Rig.C12.compressD u.targets
    let data := ffdPkts pid c.buf u.image.length 0 base u.image
    (fillHead c pid u ++ fillTail c pid base flags u).map decode =
        .ffs pid ((u.image.length + c.buf - 1) / c.buf) :: regs.map (fun rm => Pkt.ffcs rm.1 rm.2) ++
          data ++ [.ffe pid c.appId flags] ∧
      strictlyIncreasing regs = true ∧
      (∀ rm ∈ regs, rm.2 < 262144) ∧
      (∀ x y p, selectsCore regs x y p = wants u x y p) ∧
      data.length = (u.image.length + c.buf - 1) / c.buf ∧
      data.map Pkt.block = List.range' 0 data.length ∧
      (data.map Pkt.payload).flatten = u.image ∧
      ∀ q ∈ data, 0 < q.payload.length ∧ q.payload.length ≤ c.buf ∧ 4 ∣ q.payload.length := by
  intro pid regs data
  obtain ⟨h1, h2, h3⟩ := Rig.C12.c09_compressOK u.targets hdom
  have hsi : strictlyIncreasing regs = true := by
    have := h3 []
    simp only [regionsOK, Bool.and_eq_true] at this
    exact this.1.1
  have hmask : ∀ rm ∈ c.compress u.targets, rm.2 < 262144 := by rw [hc]; exact h1
  obtain ⟨f1, f2, f3, f4, f5⟩ := fill_wellformed c u n base flags hb hb4 hbmax happ hf hi4 hblocks hmask
  refine ⟨?_, hsi, h1, h2, f2, f3, f4, f5⟩
  rw [f1, hc]; rfl

/-- `load_sound` without the `CompressOK` hypothesis (region compression = C12's model) -/
theorem load_sound_c12 (mc : MCfg) (c : Ctl) (apps : List App) (hv : ValidC12 mc c apps) (s : Sim)
    (hpre : PreClean s.m apps c.appId) (hok : (loadApplication mc c s apps).outcome = .ok) :
    ∀ x y p, postOkCore apps c.appId c.wait (s.m.core x y p)
      ((loadApplication mc c s apps).sim.m.core x y p) x y p = true :=
  load_sound mc c apps hv.valid s hpre hok

/-- `load_error_exact` without the `CompressOK` hypothesis -/
theorem load_error_exact_c12 (mc : MCfg) (c : Ctl) (apps : List App) (hv : ValidC12 mc c apps) (s : Sim)
    (hpre : PreClean s.m apps c.appId) (unl : List App)
    (herr : (loadApplication mc c s apps).outcome = .loadingError unl) :
    ∀ x y p, postErrCore apps unl c.appId (s.m.core x y p)
      ((loadApplication mc c s apps).sim.m.core x y p) x y p = true :=
  load_error_exact mc c apps hv.valid s hpre unl herr

/-- `attempts_bounded` without the `CompressOK` hypothesis -/
theorem attempts_bounded_c12 (mc : MCfg) (c : Ctl) (apps : List App) (hv : ValidC12 mc c apps) (s : Sim)
    (hpre : PreClean s.m apps c.appId) :
    (loadApplication mc c s apps).sent.length ≤ c.nTries + 1 ∧
    ∀ unl, (loadApplication mc c s apps).outcome = .loadingError unl →
      (loadApplication mc c s apps).sent.length = c.nTries + 1 :=
  attempts_bounded mc c apps hv.valid s hpre

/-- `resend_exact` without the `CompressOK` hypothesis -/
theorem resend_exact_c12 (mc : MCfg) (c : Ctl) (apps : List App) (hv : ValidC12 mc c apps) (s : Sim)
    (hpre : PreClean s.m apps c.appId) :
    ∀ l ∈ (loadApplication mc c s apps).sent, SentOK c apps s.m l :=
  resend_exact mc c apps hv.valid s hpre

/-! ### instances: non-vacuity of the hypotheses, and the counterexamples without `PreClean` -/

/-- one chip (0, 0); `allMiss` decides whether the chip misses every fill -/
def mcE (allMiss : Bool) : MCfg :=
  { chips := [(0, 0)], missed := fun _ _ _ => allMiss, sdramSys := 1610612736, vcpuBase := fun _ _ => 3842011136 }
/-- region word 0x00030001 = level 3, base (0, 0), block 0: chip (0, 0) only; mask 2 = core 1 -/
def ctlE (useCount wait : Bool) : Ctl :=
  { buf := 4, compress := fun t => if wantsT t 0 0 1 then [(196609, 2)] else [], appId := 30, nTries := 2,
    wait := wait, useCount := useCount }
def rxE : Rx := { idx := 0, pid := 0, nBlocks := 0, got := 0, next := 0, regs := [], data := [], ok := false }
/-- one binary of 8 bytes (two blocks) for core 1 of chip (0, 0) -/
def appsE : List App := [{ name := 0, image := [1, 2, 3, 4, 5, 6, 7, 8], targets := [(0, 0, [1])] }]
/-- all cores idle except core `p0` of chip (0, 0), which waits under app id `app0` with another binary -/
def initE (p0 app0 : Nat) : Sim :=
  { m := { core := fun x y p => if x = 0 ∧ y = 0 ∧ p = p0 then ⟨stWait, app0, [9]⟩ else ⟨stIdle, 0, []⟩,
           rx := rxE, fills := 0 }, nn := 126, trace := [] }

theorem validE (allMiss useCount wait : Bool) : Valid (mcE allMiss) (ctlE useCount wait) appsE where
  hb := by show 4 ≤ 4; decide
  hb4 := by show 4 ∣ 4; decide
  hbmax := by show 4 ≤ 1024; decide
  happ := by show 30 < 256; decide
  hv := by intro _ _; show 3842011136 < 4294967296; decide
  himg := by
    intro a ha
    simp only [appsE, List.mem_singleton] at ha
    subst ha
    show 4 ∣ 8 ∧ 8 ≤ 255 * 4
    decide
  hchips := by show [((0 : Nat), (0 : Nat))].Nodup; decide
  hin := by
    intro a ha x y p hw
    simp only [appsE, List.mem_singleton] at ha
    subst ha
    simp only [wants, List.any_cons, List.any_nil, Bool.or_false, Bool.and_eq_true, beq_iff_eq,
      List.contains_iff_mem, List.mem_singleton] at hw
    obtain ⟨⟨rfl, rfl⟩, rfl⟩ := hw
    exact ⟨by simp [mcE], by decide⟩
  hdisj := by
    intro a ha b hb _ _ _ _ _
    simp only [appsE, List.mem_singleton] at ha hb
    rw [ha, hb]
  hcomp := by
    intro t ⟨a, ha, hsub⟩
    simp only [appsE, List.mem_singleton] at ha
    subst ha
    have honly : ∀ p, p ≠ 1 → wantsT t 0 0 p = false := by
      intro p hp
      cases h : wantsT t 0 0 p with
      | false => rfl
      | true =>
        have := hsub 0 0 p h
        simp only [wants, List.any_cons, List.any_nil, Bool.or_false, Bool.and_eq_true, beq_iff_eq,
          List.contains_iff_mem, List.mem_singleton] at this
        exact absurd this.2 hp
    constructor
    · intro rm hrm
      simp only [ctlE] at hrm
      split at hrm
      · simp only [List.mem_singleton] at hrm; subst hrm; decide
      · simp at hrm
    · intro x y p hc hp
      simp only [mcE, List.mem_singleton, Prod.mk.injEq] at hc
      obtain ⟨rfl, rfl⟩ := hc
      simp only [ctlE]
      by_cases hp1 : p = 1
      · subst hp1
        cases h : wantsT t 0 0 1 with
        | false => simp [selectsCore]
        | true => simp only [if_true]; decide
      · rw [honly p hp1]
        split
        · interval_cases p <;> first | exact absurd rfl hp1 | decide
        · simp [selectsCore]


theorem precleanE : PreClean (initE 5 31).m appsE 30 := by
  intro x y p hst
  simp only [initE] at hst ⊢
  by_cases h : x = 0 ∧ y = 0 ∧ p = 5
  · obtain ⟨rfl, rfl, rfl⟩ := h
    exact ⟨by decide, by decide⟩
  · rw [if_neg h] at hst
    exact absurd hst (by decide)

/-- the hypotheses of `load_sound` are satisfiable with a non-trivial run: a normal return after a
complete two-block fill, in count mode with the start signal -/
example : Valid (mcE false) (ctlE true false) appsE ∧ PreClean (initE 5 31).m appsE 30 ∧
    (loadApplication (mcE false) (ctlE true false) (initE 5 31) appsE).outcome = .ok ∧
    (loadApplication (mcE false) (ctlE true false) (initE 5 31) appsE).sim.m.core 0 0 1 =
      ⟨stRun, 30, [1, 2, 3, 4, 5, 6, 7, 8]⟩ :=
  ⟨validE _ _ _, precleanE, by decide, by decide⟩

/-- the hypotheses of `load_error_exact` / `attempts_bounded` are satisfiable with a run that ends in
the error after exactly n_tries + 1 = 3 attempts (the chip misses every fill; read-back mode) -/
example : Valid (mcE true) (ctlE false true) appsE ∧ PreClean (initE 5 31).m appsE 30 ∧
    (loadApplication (mcE true) (ctlE false true) (initE 5 31) appsE).outcome = .loadingError appsE ∧
    (loadApplication (mcE true) (ctlE false true) (initE 5 31) appsE).sent.length = 3 :=
  ⟨validE _ _ _, precleanE, by decide, by decide⟩

/-- the controller of the examples with region compression done by C12's model -/
def ctlC (useCount wait : Bool) : Ctl := { ctlE useCount wait with compress := Rig.C12.compressD }

theorem validC (allMiss useCount wait : Bool) : ValidC12 (mcE allMiss) (ctlC useCount wait) appsE :=
  have v := validE allMiss useCount wait
  { hb := v.hb, hb4 := v.hb4, hbmax := v.hbmax, happ := v.happ, hv := v.hv, himg := v.himg,
    hchips := v.hchips, hin := v.hin, hdisj := v.hdisj, hcompress := rfl,
    h256 := by
      intro ch hch
      simp only [mcE, List.mem_singleton] at hch
      subst hch; exact ⟨by decide, by decide⟩ }

/-- the hypotheses of the `_c12` theorems are satisfiable with non-trivial runs: C12's model yields
the pair (0x00030001, 2) for the request, the load succeeds and starts core 1; when the chip misses
every fill the error is raised after three attempts -/
example : ValidC12 (mcE false) (ctlC true false) appsE ∧ PreClean (initE 5 31).m appsE 30 ∧
    Rig.C12.compressD [(0, 0, [1])] = [(196609, 2)] ∧
    (loadApplication (mcE false) (ctlC true false) (initE 5 31) appsE).outcome = .ok ∧
    (loadApplication (mcE false) (ctlC true false) (initE 5 31) appsE).sim.m.core 0 0 1 =
      ⟨stRun, 30, [1, 2, 3, 4, 5, 6, 7, 8]⟩ :=
  ⟨validC _ _ _, precleanE, by decide +kernel, by decide +kernel, by decide +kernel⟩

example : ValidC12 (mcE true) (ctlC false true) appsE ∧ PreClean (initE 5 31).m appsE 30 ∧
    (loadApplication (mcE true) (ctlC false true) (initE 5 31) appsE).outcome = .loadingError appsE ∧
    (loadApplication (mcE true) (ctlC false true) (initE 5 31) appsE).sent.length = 3 :=
  ⟨validC _ _ _, precleanE, by decide +kernel, by decide +kernel⟩

/-- **count shortcut fooled by a stale waiter** (no `PreClean`): every other hypothesis holds; core 5
of the chip already waits under the app id, the chip misses every fill; in count mode
`load_application` returns normally after ONE attempt although the requested core 1 is still idle -/
theorem count_shortcut_counterexample :
    Valid (mcE true) (ctlE true true) appsE ∧ ¬ PreClean (initE 5 30).m appsE 30 ∧
    (loadApplication (mcE true) (ctlE true true) (initE 5 30) appsE).outcome = .ok ∧
    (loadApplication (mcE true) (ctlE true true) (initE 5 30) appsE).sent.length = 1 ∧
    (loadApplication (mcE true) (ctlE true true) (initE 5 30) appsE).sim.m.core 0 0 1 = ⟨stIdle, 0, []⟩ ∧
    postOkCore appsE 30 true ((initE 5 30).m.core 0 0 1)
      ((loadApplication (mcE true) (ctlE true true) (initE 5 30) appsE).sim.m.core 0 0 1) 0 0 1 = false := by
  refine ⟨validE _ _ _, fun h => (h 0 0 5 (by decide)).1 (by decide), by decide, by decide, by decide, by decide⟩

/-- **read-back fooled by a waiting requested core** (no `PreClean`): the requested core 1 already
waits (with another binary), the chip misses every fill; in read-back mode `load_application`
returns normally although core 1 still holds the old binary -/
theorem readback_counterexample :
    Valid (mcE true) (ctlE false true) appsE ∧ ¬ PreClean (initE 1 30).m appsE 30 ∧
    (loadApplication (mcE true) (ctlE false true) (initE 1 30) appsE).outcome = .ok ∧
    (loadApplication (mcE true) (ctlE false true) (initE 1 30) appsE).sim.m.core 0 0 1 = ⟨stWait, 30, [9]⟩ ∧
    postOkCore appsE 30 true ((initE 1 30).m.core 0 0 1)
      ((loadApplication (mcE true) (ctlE false true) (initE 1 30) appsE).sim.m.core 0 0 1) 0 0 1 = false := by
  refine ⟨validE _ _ _, fun h => (h 0 0 1 (by decide)).1 (by decide), by decide, by decide, by decide⟩

end Rig.C09
