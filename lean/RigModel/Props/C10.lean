/-
C10 - routing entries installed in a chip's router are the entries given.
-/
import RigModel.Model.C10
set_option linter.unusedSimpArgs false
set_option linter.unusedVariables false

namespace Rig.C10
open Rig.Gen.Router

/-- the generated enumeration data is what the model assumes: 24 routes 0..23, links 0..5 have
opposite `(r + 3) % 6`, every other route has none, cores are 6 + n, the record is `<2H 3I`,
1024 rows -/
theorem routes_enum_documented :
    routesValues = List.range 24 ∧
    oppositeTable = (List.range 6).map (fun r => (r, (r + 3) % 6)) ∧
    noOpposite = (List.range 24).filter (fun r => ¬ r < 6) ∧
    coreRoutes = (List.range 18).map (fun n => 6 + n) ∧
    rtePackString = "<2H 3I" ∧ rtrEntries = 1024 := by
  decide

end Rig.C10
