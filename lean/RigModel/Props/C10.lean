/-
C10 - routing entries installed in a chip's router are the entries given.
Property theorems; helper lemmas are in RigModel/Lemmas/C10*.lean.
-/
import RigModel.Model.C10
import RigModel.Lemmas.C10Bits
import RigModel.Lemmas.C10Trees
import RigModel.Lemmas.C10Load
set_option linter.unusedSimpArgs false
set_option linter.unusedVariables false

namespace Rig.C10
open Rig.Gen.Router Rig.Gen.Scp

/-- the generated enumeration data is what the model assumes: 24 routes 0..23, links 0..5 have
opposite `(r + 3) % 6`, every other route has none, cores are 6 + n, the record is `<2H 3I`,
1024 rows -/
theorem routes_enum_documented :
    routesValues = List.range 24 ∧
    oppositeTable = (List.range 6).map (fun r => (r, (r + 3) % 6)) ∧
    noOpposite = (List.range 24).filter (fun r => ¬ r < 6) ∧
    coreRoutes = (List.range 18).map (fun n => 6 + n) ∧
    rtePackString = "<2H 3I" ∧ rtrEntries = 1024 := by
  decide

/-! ## trees to tables -/

/-- **Traversal.** On a well-formed tree the breadth-first traversal never trips its assertion
and yields exactly the nodes of the tree, each with the direction it is entered by. -/
theorem traverse_exact (t : Tree) (h : t.WF) :
    (traverse t).2 = false ∧ ∀ v, v ∈ (traverse t).1 ↔ v ∈ t.occs none :=
  traverse_spec t h

/-- the whole conversion either returns tables with the fold invariant over *all* tree nodes, or
raises the multisource error at a chip, key and mask where two nodes fork differently -/
private theorem treeTables_cases (nets : List Net) (hwf : ∀ n ∈ nets, n.tree.WF) :
    (∃ st, treeTables nets = .ok (tablesOf st) ∧ Inv st (fun o => o ∈ allOccs nets)) ∨
    (∃ k m c, treeTables nets = .error (.multisource k m c) ∧ ConflictAt (allOccs nets) c k m) := by
  rcases processNets_spec nets [] _ inv_empty hwf with ⟨st, h, hI⟩ | ⟨k, m, c, h, hc⟩
  · exact Or.inl ⟨st, by simp [treeTables, h], hI.congr (by simp)⟩
  · refine Or.inr ⟨k, m, c, by simp [treeTables, h], ?_⟩
    obtain ⟨a, b, ha, hb, r⟩ := hc
    exact ⟨a, by simpa using ha, b, by simpa using hb, r⟩

/-- **Tables are exact.** Whenever tables are returned: the chips are exactly the chips the trees
visit, each chip has one entry per (key, mask) occurring there, the entry's route is exactly the
set of non-`None` child directions of the tree nodes on that chip under that key and mask, its
sources are exactly the opposite arrival links of those nodes (`None` for roots), and no two nodes
on one chip under one key and mask fork differently. -/
theorem tables_exact (nets : List Net) (hwf : ∀ n ∈ nets, n.tree.WF) (T : Tables)
    (h : treeTables nets = .ok T) :
    TablesExact (allOccs nets) T ∧ ¬ Conflict (allOccs nets) := by
  rcases treeTables_cases nets hwf with ⟨st, h', hI⟩ | ⟨k, m, c, h', _⟩
  · rw [h] at h'; cases h'
    exact ⟨inv_tables_exact st _ hI, inv_no_conflict st _ hI⟩
  · rw [h] at h'; cases h'

/-- **Only the multisource error, and only at a real conflict.** -/
theorem tables_total (nets : List Net) (hwf : ∀ n ∈ nets, n.tree.WF) (e : Err)
    (h : treeTables nets = .error e) :
    ∃ k m c, e = .multisource k m c ∧ ConflictAt (allOccs nets) c k m := by
  rcases treeTables_cases nets hwf with ⟨st, h', _⟩ | ⟨k, m, c, h', hc⟩
  · rw [h] at h'; cases h'
  · rw [h] at h'; cases h'
    exact ⟨k, m, c, rfl, hc⟩

/-- **Multisource error iff conflict.** The conversion reports a multi-source error precisely
when two tree nodes on one chip under the same key and mask leave by different direction sets. -/
theorem multisource_iff (nets : List Net) (hwf : ∀ n ∈ nets, n.tree.WF) :
    (∃ k m c, treeTables nets = .error (.multisource k m c)) ↔ Conflict (allOccs nets) := by
  constructor
  · rintro ⟨k, m, c, h⟩
    obtain ⟨k', m', c', he, a, ha, b, hb, hata, hatb, hne⟩ := tables_total nets hwf _ h
    exact ⟨a, ha, b, hb, by rw [hata.1, hatb.1], by rw [hata.2.1, hatb.2.1], by rw [hata.2.2, hatb.2.2], hne⟩
  · intro hc
    cases h : treeTables nets with
    | ok T => exact absurd hc (tables_exact nets hwf T h).2
    | error e =>
      obtain ⟨k, m, c, rfl, _⟩ := tables_total nets hwf e h
      exact ⟨k, m, c, rfl⟩

/-- the predicate the harness evaluates on the implementation's result holds of the model's -/
theorem tables_spec (nets : List Net) (hwf : ∀ n ∈ nets, n.tree.WF) : TablesSpec nets (treeTables nets) := by
  cases h : treeTables nets with
  | ok T =>
    have := tables_exact nets hwf T h
    exact ⟨this.2, this.1⟩
  | error e =>
    obtain ⟨k, m, c, rfl, hc⟩ := tables_total nets hwf e h
    exact hc

/-- non-vacuity: two nets with the same key and mask merging on chip (1,0) (one enters from the
west, one is rooted there), plus a leaf without route: tables are returned, the merged entry has
both sources -/
def exNets : List Net :=
  [{ key := 5, mask := 7, tree := .node (0, 0) (.sub (some 0) (.node (1, 0) (.leaf (some 8) (.leaf none .nil))) .nil) },
   { key := 5, mask := 7, tree := .node (1, 0) (.leaf (some 8) .nil) }]
example : (∀ n ∈ exNets, n.tree.WF) ∧
    treeTables exNets = .ok [((0, 0), [{ route := [0], key := 5, mask := 7, sources := [none] }]),
                             ((1, 0), [{ route := [8], key := 5, mask := 7, sources := [some 3, none] }])] := by
  refine ⟨?_, by rfl⟩
  intro n hn
  simp only [exNets, List.mem_cons, List.mem_singleton, List.not_mem_nil, or_false] at hn
  rcases hn with rfl | rfl <;> simp [Tree.WF, Kids.WF]
/-- non-vacuity of the error side: same key and mask, different forks on chip (1,0) -/
example : treeTables (exNets ++ [{ key := 5, mask := 7, tree := .node (1, 0) (.leaf (some 9) .nil) }]) =
    .error (.multisource 5 7 (1, 0)) := by rfl

/-! ## the 16-byte record -/

/-- **Route word.** Bit `b` of the packed route word is set exactly when `b` is in the route set
(any list of routes, any bit). -/
theorem route_word_bits (rs : List Nat) (b : Nat) : (routeWord rs).testBit b = true ↔ b ∈ rs :=
  routeWord_testBit rs b

/-- **Record round trip.** For every index below 2^16, every subset of the 24 routes and every
32-bit key and mask, the packed record is 16 bytes and unpacks to the same key, mask and route
set (app id and core 0 as packed). -/
theorem rte_roundtrip (i : Nat) (e : Entry) (hi : i < 65536) (hr : ∀ r ∈ e.route, r < 24)
    (hk : e.key < 4294967296) (hm : e.mask < 4294967296) :
    ∃ bs d, packEntry i e = .ok bs ∧ bs.length = 16 ∧ unpackEntry bs = some (some d) ∧
      d.key = e.key ∧ d.mask = e.mask ∧ (∀ r, r ∈ d.routes ↔ r ∈ e.route) ∧ d.app = 0 ∧ d.core = 0 := by
  have hw := routeWord_lt e.route 24 hr
  have hw' : routeWord e.route < 4294967296 := by omega
  refine ⟨_, _, by simp [packEntry, hi, hw', hk, hm], by simp [le16, le32],
    unpack_used i 0 (routeWord e.route) e.key e.mask hw hk hm, rfl, rfl, ?_, rfl, rfl⟩
  intro r
  rw [mem_routes_filter, routeWord_testBit]
  exact ⟨fun h => h.2, fun h => ⟨hr r h, h⟩⟩

example : ∃ e : Entry, (∀ r ∈ e.route, r < 24) ∧ e.route.length = 24 ∧ e.key < 4294967296 ∧ e.mask < 4294967296 :=
  ⟨{ route := List.range 24, key := 4294967295, mask := 4294967295, sources := [] }, by simp, by simp, by simp, by simp⟩

/-! ## loading and reading back, against the router specification

`pol` is the machine's allocation policy (any function answering 0 or the first row of a block of
free rows - `PolValid`), `s` any chip state.  Hypotheses, all documented facts of a real machine:
`scp_data_length > 0`; app id below 256; `sv.sdram_sys` holds the staging buffer address `buf`;
the staging buffer does not overlap the router copy; entries have routes below 24 and 32-bit key
and mask. -/

/-- **Allocation failure.** If the machine answers 0 to `alloc_rtr`, `load_routing_table_entries`
raises `SpiNNakerRouterError(count, x, y)`, the allocation request is the only command sent (no
write, no load) and the chip - router and memory - is unchanged.  For every policy and state. -/
theorem load_alloc_failure {α : Type} (pol : Pol) (s : Chip) (scpLen x y app : Nat) (entries : List Entry)
    (k : Prog α) (ha : app < 256) (h0 : pol s.rows app entries.length = 0) :
    run pol (loadEntries scpLen entries x y app k) s =
      (s, .error (.routerError entries.length x y), [allocReq x y app entries.length]) ∧
    LoadSpec s.rows s.rows entries app 0 true false := by
  refine ⟨?_, by simp [LoadSpec]⟩
  simp [loadEntries, run, step_alloc pol s x y app _ ha, h0]

/-- **Load is exact.** If the machine answers a base `b ≠ 0`, the call returns normally, sends
exactly: the allocation, the read of `sv.sdram_sys`, the write commands of the packed table to the
staging buffer and one load command `(count << 16 | app << 8 | load, buf, b)`; afterwards rows
`b .. b+n-1` hold exactly the given entries in order (key, mask, exactly the given route bits,
the app id) and belong to the application, and every other row is unchanged. -/
theorem load_exact (pol : Pol) (s : Chip) (scpLen x y app buf : Nat) (entries : List Entry)
    (hpol : PolValid pol) (hb : 0 < scpLen) (ha : app < 256)
    (hbase : pol s.rows app entries.length ≠ 0) (hr : ∀ e ∈ entries, e.InRange)
    (hsv : SvWord s svSdramSys buf)
    (hdis : buf + 16 * entries.length ≤ s.copyBase ∨ s.copyBase + 16 * rtrEntries ≤ buf) :
    (run pol (loadEntries scpLen entries x y app (.ret ())) s).2.1 = .ok () ∧
    (run pol (loadEntries scpLen entries x y app (.ret ())) s).2.2 =
      allocReq x y app entries.length ::
        ((Rig.C07.read scpLen (svBase + svSdramSys) 4).map (readReq x y 0) ++
         ((Rig.C07.write scpLen buf (recordsFrom 0 entries)).map (writeReq x y 0) ++
          [loadReq x y app entries.length buf (pol s.rows app entries.length)])) ∧
    LoadSpec s.rows (run pol (loadEntries scpLen entries x y app (.ret ())) s).1.rows entries app
      (pol s.rows app entries.length) false true := by
  have hfree : BlockFree s.rows (pol s.rows app entries.length) entries.length := by
    rcases hpol s.rows app entries.length with h | h
    · exact absurd h hbase
    · exact h
  have hlen : entries.length < 65536 := by
    have := hfree.2.1; simp only [rtrEntries] at this; omega
  rw [load_run pol s scpLen x y app buf entries (.ret ()) hb ha hbase hlen hr hsv hdis]
  refine ⟨rfl, rfl, ?_⟩
  simp only [run, LoadSpec, hbase, if_false, true_and]
  refine ⟨?_, ?_⟩
  · intro i hi
    refine ⟨entries.getD i dfltEntry, by simp [List.getD_eq_getElem?_getD, List.getElem?_eq_getElem hi], ?_, ?_⟩
    · rw [loaded_rows_in s buf _ app entries i hi]
      simp only [RowHolds, entOf, true_and]
      intro b _
      exact routeWord_testBit _ b
    · rw [loaded_rows_in s buf _ app entries i hi]
  · intro j _ hj
    exact loaded_rows_out s buf _ app entries j hj

/-- **Read-back is exact.** `get_routing_table_entries` returns 1024 items; item `j` is `None`
exactly when row `j` is unused, otherwise it carries the row's key, mask, app id, core and exactly
the routes whose bit is set in the row's route word; the chip is unchanged. -/
theorem readback_exact (pol : Pol) (s : Chip) (scpLen x y : Nat) (hb : 0 < scpLen)
    (hsv : SvWord s svRtrCopy s.copyBase) (hrows : ∀ j, j < rtrEntries → (s.rows j).Ok) :
    ∃ t, (run pol (getEntries scpLen x y) s).2.1 = .ok t ∧ ReadbackSpec s.rows t ∧
      (run pol (getEntries scpLen x y) s).1 = s := by
  rw [get_run pol s scpLen x y hb hsv hrows]
  refine ⟨_, rfl, ⟨by simp, ?_⟩, rfl⟩
  intro j hj
  exact ⟨decRow (s.rows j), by simp [hj], readsAs_decRow _⟩

/-- **Load then read back.** Reading the router back after a successful load returns, at
positions `b .. b+n-1`, exactly the given entries (same key, mask, route set, the app id), and at
every other position what was there before. -/
theorem load_then_readback (pol : Pol) (s : Chip) (scpLen x y app buf : Nat) (entries : List Entry)
    (hpol : PolValid pol) (hb : 0 < scpLen) (ha : app < 256)
    (hbase : pol s.rows app entries.length ≠ 0) (hr : ∀ e ∈ entries, e.InRange)
    (hsv : SvWord s svSdramSys buf) (hsv2 : SvWord s svRtrCopy s.copyBase)
    (hdis : buf + 16 * entries.length ≤ s.copyBase ∨ s.copyBase + 16 * rtrEntries ≤ buf)
    (hdis2 : buf + 16 * entries.length ≤ svBase + svRtrCopy ∨ svBase + svRtrCopy + 4 ≤ buf)
    (hrows : ∀ j, j < rtrEntries → (s.rows j).Ok) :
    ∃ t, (run pol (loadEntries scpLen entries x y app (getEntries scpLen x y)) s).2.1 = .ok t ∧
      t.length = rtrEntries ∧
      (∀ i, i < entries.length → ∃ e d, entries[i]? = some e ∧
          t[pol s.rows app entries.length + i]? = some (some d) ∧
          d.key = e.key ∧ d.mask = e.mask ∧ d.app = app ∧ (∀ r, r ∈ d.routes ↔ r ∈ e.route)) ∧
      (∀ j, j < rtrEntries →
          ¬ (pol s.rows app entries.length ≤ j ∧ j < pol s.rows app entries.length + entries.length) →
          t[j]? = some (decRow (s.rows j))) := by
  have hfree : BlockFree s.rows (pol s.rows app entries.length) entries.length := by
    rcases hpol s.rows app entries.length with h | h
    · exact absurd h hbase
    · exact h
  have hlen : entries.length < 65536 := by
    have := hfree.2.1; simp only [rtrEntries] at this; omega
  have hin : ∀ i, i < entries.length → (entries.getD i dfltEntry).InRange := by
    intro i hi
    apply hr
    simp [List.getD_eq_getElem?_getD, List.getElem?_eq_getElem hi]
  rw [load_run pol s scpLen x y app buf entries _ hb ha hbase hlen hr hsv hdis]
  have hsv3 : SvWord (loadedChip s buf (pol s.rows app entries.length) app entries) svRtrCopy
      (loadedChip s buf (pol s.rows app entries.length) app entries).copyBase := by
    refine ⟨hsv2.1, hsv2.2.1, ?_⟩
    show List.map _ _ = le32 s.copyBase
    rw [← hsv2.2.2]
    apply List.map_congr_left
    intro i hi
    have hi' : i < 4 := by simpa using hi
    simp only [loadedChip, Rig.C07.writeMem, recordsFrom_length]
    rw [if_neg (by rcases hdis2 with h | h <;> omega)]
  have hrows3 : ∀ j, j < rtrEntries → ((loadedChip s buf (pol s.rows app entries.length) app entries).rows j).Ok := by
    intro j hj
    by_cases hjb : pol s.rows app entries.length ≤ j ∧ j < pol s.rows app entries.length + entries.length
    · have e : j = pol s.rows app entries.length + (j - pol s.rows app entries.length) := by omega
      rw [e, loaded_rows_in s buf _ app entries _ (by omega)]
      have := hin (j - pol s.rows app entries.length) (by omega)
      simp only [Row.Ok, entOf]
      exact ⟨routeWord_lt _ 24 this.1, this.2.1, this.2.2, ha, by omega⟩
    · rw [loaded_rows_out s buf _ app entries j hjb]
      exact hrows j hj
  rw [get_run pol _ scpLen x y hb hsv3 hrows3]
  refine ⟨_, rfl, by simp, ?_, ?_⟩
  · intro i hi
    have hbi : pol s.rows app entries.length + i < rtrEntries := by
      have := hfree.2.1; omega
    refine ⟨entries.getD i dfltEntry,
      { routes := routesValues.filter (fun b => (routeWord (entries.getD i dfltEntry).route >>> b) &&& 1 = 1),
        key := (entries.getD i dfltEntry).key, mask := (entries.getD i dfltEntry).mask, app := app, core := 0 },
      by simp [List.getD_eq_getElem?_getD, List.getElem?_eq_getElem hi], ?_, ?_⟩
    · simp only [List.getElem?_map, List.getElem?_range hbi, Option.map_some]
      rw [loaded_rows_in s buf _ app entries i hi]
      simp only [decRow, entOf]
      rfl
    · refine ⟨rfl, rfl, rfl, ?_⟩
      intro r
      rw [mem_routes_filter, routeWord_testBit]
      exact ⟨fun h => h.2, fun h => ⟨(hin i hi).1 r h, h⟩⟩
  · intro j hj hjb
    simp only [List.getElem?_map, List.getElem?_range hj, Option.map_some]
    rw [loaded_rows_out s buf _ app entries j hjb]

/-- **Clear.** `clear_routing_table_entries` sends one `free_rtr_by_app` command; afterwards no row
belongs to the application (its rows are free and unused) and every other row is unchanged. -/
theorem clear_exact (pol : Pol) (s : Chip) (x y app : Nat) (ha : app < 256) :
    (run pol (clearEntries x y app) s).2.2 = [clearReq x y app] ∧
    ∀ j, ((s.rows j).owner = some app →
            ((run pol (clearEntries x y app) s).1.rows j).owner = none ∧
            ((run pol (clearEntries x y app) s).1.rows j).ent = none) ∧
         ((s.rows j).owner ≠ some app → (run pol (clearEntries x y app) s).1.rows j = s.rows j) := by
  have hw : (app <<< 8) ||| 5 = app * 256 + 5 := alloc_word app 5 (by decide)
  have h1 : (app * 256 + 5) % 256 = 5 := by omega
  have h2 : (app * 256 + 5) / 256 % 256 = app := by omega
  have hstep : stepChip pol s (clearReq x y app) =
      ({ s with rows := freeByApp s.rows app }, { arg1 := 0, data := [] }) := by
    simp [stepChip, clearReq, opFreeRtrByApp, opAllocRtr, cmdAllocFree, hw, h1, h2]
  simp only [clearEntries, run, hstep, true_and]
  intro j
  constructor
  · intro h; simp [freeByApp, h]
  · intro h; simp [freeByApp, h]

/-- non-vacuity of the machine hypotheses: a first-fit policy is valid, and an empty router with
`sv` pointers set up satisfies the state hypotheses -/
def firstFit : Pol := fun rows _ n =>
  match (List.range rtrEntries).find? (fun b => decide (BlockFree rows b n)) with
  | some b => b
  | none => 0
example : PolValid firstFit := by
  intro rows app n
  unfold firstFit
  cases h : (List.range rtrEntries).find? (fun b => decide (BlockFree rows b n)) with
  | none => exact Or.inl rfl
  | some b => exact Or.inr (by simpa using List.find?_some h)
def exChip : Chip :=
  { mem := Rig.C07.writeMem (Rig.C07.writeMem (fun _ => 0) (svBase + svSdramSys) (le32 0x60001000))
      (svBase + svRtrCopy) (le32 0x70000000),
    rows := fun _ => default, copyBase := 0x70000000 }
example : SvWord exChip svSdramSys 0x60001000 ∧ SvWord exChip svRtrCopy exChip.copyBase ∧
    firstFit exChip.rows 7 3 = 1 ∧ (∀ j, (exChip.rows j).Ok) := by
  refine ⟨⟨by decide, by decide +kernel, by decide +kernel⟩, ⟨by decide, by decide +kernel, by decide +kernel⟩,
    by decide +kernel, fun _ => trivial⟩

end Rig.C10
