/-
C10 - routing entries installed in a chip's router are the entries given.
Property theorems; helper lemmas are in RigModel/Lemmas/C10*.lean.
-/
import RigModel.Model.C10
import RigModel.Lemmas.C10Bits
import RigModel.Lemmas.C10Trees
set_option linter.unusedSimpArgs false
set_option linter.unusedVariables false

namespace Rig.C10
open Rig.Gen.Router

/-- the generated enumeration data is what the model assumes: 24 routes 0..23, links 0..5 have
opposite `(r + 3) % 6`, every other route has none, cores are 6 + n, the record is `<2H 3I`,
1024 rows -/
theorem routes_enum_documented :
    routesValues = List.range 24 ∧
    oppositeTable = (List.range 6).map (fun r => (r, (r + 3) % 6)) ∧
    noOpposite = (List.range 24).filter (fun r => ¬ r < 6) ∧
    coreRoutes = (List.range 18).map (fun n => 6 + n) ∧
    rtePackString = "<2H 3I" ∧ rtrEntries = 1024 := by
  decide

/-! ## trees to tables -/

/-- **Traversal.** On a well-formed tree the breadth-first traversal never trips its assertion
and yields exactly the nodes of the tree, each with the direction it is entered by. -/
theorem traverse_exact (t : Tree) (h : t.WF) :
    (traverse t).2 = false ∧ ∀ v, v ∈ (traverse t).1 ↔ v ∈ t.occs none :=
  traverse_spec t h

/-- the whole conversion either returns tables with the fold invariant over *all* tree nodes, or
raises the multisource error at a chip, key and mask where two nodes fork differently -/
private theorem treeTables_cases (nets : List Net) (hwf : ∀ n ∈ nets, n.tree.WF) :
    (∃ st, treeTables nets = .ok (tablesOf st) ∧ Inv st (fun o => o ∈ allOccs nets)) ∨
    (∃ k m c, treeTables nets = .error (.multisource k m c) ∧ ConflictAt (allOccs nets) c k m) := by
  rcases processNets_spec nets [] _ inv_empty hwf with ⟨st, h, hI⟩ | ⟨k, m, c, h, hc⟩
  · exact Or.inl ⟨st, by simp [treeTables, h], hI.congr (by simp)⟩
  · refine Or.inr ⟨k, m, c, by simp [treeTables, h], ?_⟩
    obtain ⟨a, b, ha, hb, r⟩ := hc
    exact ⟨a, by simpa using ha, b, by simpa using hb, r⟩

/-- **Tables are exact.** Whenever tables are returned: the chips are exactly the chips the trees
visit, each chip has one entry per (key, mask) occurring there, the entry's route is exactly the
set of non-`None` child directions of the tree nodes on that chip under that key and mask, its
sources are exactly the opposite arrival links of those nodes (`None` for roots), and no two nodes
on one chip under one key and mask fork differently. -/
theorem tables_exact (nets : List Net) (hwf : ∀ n ∈ nets, n.tree.WF) (T : Tables)
    (h : treeTables nets = .ok T) :
    TablesExact (allOccs nets) T ∧ ¬ Conflict (allOccs nets) := by
  rcases treeTables_cases nets hwf with ⟨st, h', hI⟩ | ⟨k, m, c, h', _⟩
  · rw [h] at h'; cases h'
    exact ⟨inv_tables_exact st _ hI, inv_no_conflict st _ hI⟩
  · rw [h] at h'; cases h'

/-- **Only the multisource error, and only at a real conflict.** -/
theorem tables_total (nets : List Net) (hwf : ∀ n ∈ nets, n.tree.WF) (e : Err)
    (h : treeTables nets = .error e) :
    ∃ k m c, e = .multisource k m c ∧ ConflictAt (allOccs nets) c k m := by
  rcases treeTables_cases nets hwf with ⟨st, h', _⟩ | ⟨k, m, c, h', hc⟩
  · rw [h] at h'; cases h'
  · rw [h] at h'; cases h'
    exact ⟨k, m, c, rfl, hc⟩

/-- **Multisource error iff conflict.** The conversion reports a multi-source error precisely
when two tree nodes on one chip under the same key and mask leave by different direction sets. -/
theorem multisource_iff (nets : List Net) (hwf : ∀ n ∈ nets, n.tree.WF) :
    (∃ k m c, treeTables nets = .error (.multisource k m c)) ↔ Conflict (allOccs nets) := by
  constructor
  · rintro ⟨k, m, c, h⟩
    obtain ⟨k', m', c', he, a, ha, b, hb, hata, hatb, hne⟩ := tables_total nets hwf _ h
    exact ⟨a, ha, b, hb, by rw [hata.1, hatb.1], by rw [hata.2.1, hatb.2.1], by rw [hata.2.2, hatb.2.2], hne⟩
  · intro hc
    cases h : treeTables nets with
    | ok T => exact absurd hc (tables_exact nets hwf T h).2
    | error e =>
      obtain ⟨k, m, c, rfl, _⟩ := tables_total nets hwf e h
      exact ⟨k, m, c, rfl⟩

/-- the predicate the harness evaluates on the implementation's result holds of the model's -/
theorem tables_spec (nets : List Net) (hwf : ∀ n ∈ nets, n.tree.WF) : TablesSpec nets (treeTables nets) := by
  cases h : treeTables nets with
  | ok T =>
    have := tables_exact nets hwf T h
    exact ⟨this.2, this.1⟩
  | error e =>
    obtain ⟨k, m, c, rfl, hc⟩ := tables_total nets hwf e h
    exact hc

/-- non-vacuity: two nets with the same key and mask merging on chip (1,0) (one enters from the
west, one is rooted there), plus a leaf without route: tables are returned, the merged entry has
both sources -/
def exNets : List Net :=
  [{ key := 5, mask := 7, tree := .node (0, 0) (.sub (some 0) (.node (1, 0) (.leaf (some 8) (.leaf none .nil))) .nil) },
   { key := 5, mask := 7, tree := .node (1, 0) (.leaf (some 8) .nil) }]
example : (∀ n ∈ exNets, n.tree.WF) ∧
    treeTables exNets = .ok [((0, 0), [{ route := [0], key := 5, mask := 7, sources := [none] }]),
                             ((1, 0), [{ route := [8], key := 5, mask := 7, sources := [some 3, none] }])] := by
  refine ⟨?_, by rfl⟩
  intro n hn
  simp only [exNets, List.mem_cons, List.mem_singleton, List.not_mem_nil, or_false] at hn
  rcases hn with rfl | rfl <;> simp [Tree.WF, Kids.WF]
/-- non-vacuity of the error side: same key and mask, different forks on chip (1,0) -/
example : treeTables (exNets ++ [{ key := 5, mask := 7, tree := .node (1, 0) (.leaf (some 9) .nil) }]) =
    .error (.multisource 5 7 (1, 0)) := by rfl

/-! ## the 16-byte record -/

/-- **Route word.** Bit `b` of the packed route word is set exactly when `b` is in the route set
(any list of routes, any bit). -/
theorem route_word_bits (rs : List Nat) (b : Nat) : (routeWord rs).testBit b = true ↔ b ∈ rs :=
  routeWord_testBit rs b

/-- **Record round trip.** For every index below 2^16, every subset of the 24 routes and every
32-bit key and mask, the packed record is 16 bytes and unpacks to the same key, mask and route
set (app id and core 0 as packed). -/
theorem rte_roundtrip (i : Nat) (e : Entry) (hi : i < 65536) (hr : ∀ r ∈ e.route, r < 24)
    (hk : e.key < 4294967296) (hm : e.mask < 4294967296) :
    ∃ bs d, packEntry i e = .ok bs ∧ bs.length = 16 ∧ unpackEntry bs = some (some d) ∧
      d.key = e.key ∧ d.mask = e.mask ∧ (∀ r, r ∈ d.routes ↔ r ∈ e.route) ∧ d.app = 0 ∧ d.core = 0 := by
  have hw := routeWord_lt e.route 24 hr
  have hw' : routeWord e.route < 4294967296 := by omega
  refine ⟨_, _, by simp [packEntry, hi, hw', hk, hm], by simp [le16, le32],
    unpack_used i 0 (routeWord e.route) e.key e.mask hw hk hm, rfl, rfl, ?_, rfl, rfl⟩
  intro r
  rw [mem_routes_filter, routeWord_testBit]
  exact ⟨fun h => h.2, fun h => ⟨hr r h, h⟩⟩

example : ∃ e : Entry, (∀ r ∈ e.route, r < 24) ∧ e.route.length = 24 ∧ e.key < 4294967296 ∧ e.mask < 4294967296 :=
  ⟨{ route := List.range 24, key := 4294967295, mask := 4294967295, sources := [] }, by simp, by simp, by simp, by simp⟩

end Rig.C10
