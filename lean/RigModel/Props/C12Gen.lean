/-
C12 - translator tie: the body of `get_region_for_chip` (rig/machine_control/regions.py) is regenerated
from the source into `Gen/PyFun.lean` (Python ints -> `Int`, `& | ^ << >>` -> Mathlib's `Int.land/lor/xor`
and shifts); here it is proved EQUAL to the model's `regionForChip` on naturals whenever the model
returns a value (level <= 3; for level > 3 Python raises `ValueError: negative shift count`).  Second round:
the integer attributes stored by `RegionCoreTree.__init__` (`scale = 4 ** (4 - level)`, `shift = 6 - 2*level`).
The proof pulls the casts out (all intermediate values are non-negative), then closes by `rfl` or, for a
harmless rewrite of the source, by constant evaluation / commutativity / bit extensionality.
-/
import RigModel.Model.C12
import RigModel.Gen.PyFun
import RigModel.Lemmas.IntBits
set_option linter.unusedSimpArgs false
set_option linter.unusedVariables false
set_option linter.unusedTactic false
set_option linter.unreachableTactic false

namespace Rig.C12
open Rig.Gen Rig.IntBits

/-- `get_region_for_chip` as written in the source = the model, on every input the model accepts -/
theorem gen_get_region_for_chip (x y level r : Nat) (h : regionForChip x y level = .ok r) :
    PyFun.get_region_for_chip x y level = (r : Int) := by
  unfold regionForChip at h
  split at h
  · cases h
  · rename_i hl
    injection h with h
    subst h
    have : level = 0 ∨ level = 1 ∨ level = 2 ∨ level = 3 := by omega
    rcases this with rfl | rfl | rfl | rfl <;>
    simp (disch := decide) only [PyFun.get_region_for_chip, lit_natCast, zero_natCast, one_natCast, shl_natCast,
      shr_natCast, land_natCast, lor_natCast, xor_natCast, sub_natCast, add_natCast, mul_natCast,
      Int.toNat_natCast, Nat.cast_inj]
    all_goals try (first
      | with_reducible rfl
      | (simp [Nat.mul_comm]; done)
      | (apply Nat.eq_of_testBit_eq; intro i
         simp only [Nat.testBit_or, Nat.testBit_and, Nat.testBit_xor, Nat.testBit_shiftLeft,
           Nat.testBit_shiftRight, Nat.mul_comm]
         grind))

/-- `RegionCoreTree.__init__` as written in the source: the integer attributes it stores are the model's
(`RTree.new`'s `baseX`, `baseY`, `level`; `scale` and `shift` as functions of the level), for every level the tree
uses (0..3; the two attributes holding the selection array and the children are not integers and not translated) -/
theorem gen_region_tree_init (s0 s1 s2 s3 s4 : Int) (x0 y0 lv : Nat) (h : lv ≤ 3) :
    PyFun.RegionCoreTree_init s0 s1 s2 s3 s4 x0 y0 lv
      = ((x0 : Int), (y0 : Int), ((scale lv : Nat) : Int), ((shift lv : Nat) : Int), (lv : Int)) := by
  have : lv = 0 ∨ lv = 1 ∨ lv = 2 ∨ lv = 3 := by omega
  rcases this with rfl | rfl | rfl | rfl <;> simp [PyFun.RegionCoreTree_init, scale, shift] <;> decide

/-- non-vacuity: the model accepts every level <= 3 -/
example : regionForChip 5 9 3 = .ok 67829792 ∧ PyFun.get_region_for_chip 5 9 3 = 67829792 := by
  constructor <;> decide

end Rig.C12
