/-
C05 - translator tie.  `slices_overlap`, `align` (rig/place_and_route/allocate/utils.py) and the whole of `allocate`
(rig/place_and_route/allocate/greedy.py) are regenerated from the source into `Gen/PyFun.lean` on every run; they are
proved equal to the model's functions here (semantically: unfold + fold / fuel lemmas + case splits).
-/
import RigModel.Model.C05
import RigModel.Lemmas.C05
import RigModel.Gen.PyFun
import RigModel.Lemmas.C05Dict
set_option linter.unusedSimpArgs false
set_option linter.unusedVariables false
set_option linter.unusedTactic false
set_option linter.unreachableTactic false

namespace Rig.C05
open Rig.Gen Rig.PyDict
open Rig.Gen.PyFun (pyWhile pyDictGet pyDictGetD pyDictSet pyDictMod pyOptGet)

/-- `slices_overlap` as written in the source = the model -/
theorem gen_slices_overlap (a b : Slice) :
    PyFun.slices_overlap (a.start, a.stop) (b.start, b.stop) = slicesOverlap a b := rfl

/-- `align` as written in the source = the model -/
theorem gen_align (value alignment : Int) : PyFun.align value alignment = align value alignment := rfl


def encS (s : Slice) : Int × Int := (s.start, s.stop)

/-- the pointers of the other resources are untouched -/
def OffEq (res : Nat) (rp rp' : List (Nat × Int)) : Prop := ∀ r, r ≠ res → rp'.lookup r = rp.lookup r

theorem OffEq.refl (res : Nat) (rp : List (Nat × Int)) : OffEq res rp rp := fun _ _ => rfl
theorem OffEq.trans {res : Nat} {a b c : List (Nat × Int)} (h1 : OffEq res a b) (h2 : OffEq res b c) : OffEq res a c :=
  fun r hr => (h2 r hr).trans (h1 r hr)
theorem OffEq.set (res : Nat) (rp : List (Nat × Int)) (v : Int) : OffEq res rp (pyDictSet rp res v) :=
  fun r hr => lookup_pyDictSet_ne rp v hr

/-- the overlap test of the scans, whichever way round the two ranges are passed -/
theorem so_eq (pv : Int × Int) (r : Slice) :
    PyFun.slices_overlap pv (encS r) = slicesOverlap ⟨pv.1, pv.2⟩ r := by
  unfold PyFun.slices_overlap slicesOverlap
  exact decide_eq_decide.mpr (by simp only [encS]; try omega)

theorem so_eq' (pv : Int × Int) (r : Slice) :
    PyFun.slices_overlap (encS r) pv = slicesOverlap ⟨pv.1, pv.2⟩ r := by
  unfold PyFun.slices_overlap slicesOverlap
  exact decide_eq_decide.mpr (by simp only [encS]; try omega)

/-- one step of a reservation scan, as the model's `scan` does it on the pointer dict -/
def ScanStep (res : Nat) (pv : Int × Int)
    (F : List (Nat × Int) × Bool → Int × Int → List (Nat × Int) × Bool) : Prop :=
  ∀ (rp : List (Nat × Int)) (b : Bool) (r : Slice),
    F (rp, b) (encS r) = if slicesOverlap ⟨pv.1, pv.2⟩ r then (pyDictSet rp res r.stop, true) else (rp, b)

/-- body of `for reservation in globally_reserved[resource]` -/
theorem loop7_step (res : Nat) (pv : Int × Int) : ScanStep res pv (PyFun.allocate_loop7 res pv) := by
  intro rp b r
  unfold PyFun.allocate_loop7
  simp only [so_eq, so_eq']
  split <;> simp_all [encS]

/-- body of `for reservation in local_reservations` -/
theorem loop8_step (res : Nat) (pv : Int × Int) : ScanStep res pv (PyFun.allocate_loop8 res pv) := by
  intro rp b r
  unfold PyFun.allocate_loop8
  simp only [so_eq, so_eq']
  split <;> simp_all [encS]

theorem gen_scan (res : Nat) (pv : Int × Int)
    (F : List (Nat × Int) × Bool → Int × Int → List (Nat × Int) × Bool) (hF : ScanStep res pv F) :
    ∀ (rs : List Slice) (rp : List (Nat × Int)) (p : Int) (b : Bool),
    rp.lookup res = some p →
    ∃ rp', List.foldl F (rp, b) (rs.map encS)
        = (rp', (scan ⟨pv.1, pv.2⟩ rs (p, b)).2) ∧
      rp'.lookup res = some (scan ⟨pv.1, pv.2⟩ rs (p, b)).1 ∧ OffEq res rp rp' := by
  intro rs
  induction rs with
  | nil => intro rp p b h; exact ⟨rp, rfl, h, OffEq.refl _ _⟩
  | cons r rs ih =>
    intro rp p b h
    simp only [List.map_cons, List.foldl_cons, hF rp b r, scan]
    by_cases ho : slicesOverlap ⟨pv.1, pv.2⟩ r = true
    · simp only [ho, if_true]
      obtain ⟨rp', h1, h2, h3⟩ := ih (pyDictSet rp res r.stop) r.stop true (lookup_pyDictSet_self _ _ _)
      exact ⟨rp', h1, h2, (OffEq.set res rp r.stop).trans h3⟩
    · simp only [ho, Bool.false_eq_true, if_false]
      exact ih rp p b h


abbrev RetTy := Option (Except String (List (Nat × List (Nat × Option (Int × Int)))))
abbrev WSt := Bool × RetTy × Option (Int × Int) × Bool × List (Nat × Int)

/-- one iteration of the `while` loop, on a pointer dict that knows the resource, a live chip and a known resource -/
theorem loop6_step (mget : (Int × Int) → Except String (List (Nat × Int))) (G : List (Nat × List (Int × Int)))
    (L : List ((Int × Int) × List (Nat × List (Int × Int)))) (A : List (Nat × Int)) (xy : Int × Int) (res : Nat)
    (d : Int) (brk : Bool) (ret : RetTy) (pa : Option (Int × Int)) (po : Bool) (rp : List (Nat × Int))
    (p cap : Int) (caps : List (Nat × Int))
    (hp : rp.lookup res = some p) (hm : mget xy = .ok caps) (hc : caps.lookup res = some cap) :
    PyFun.allocate_loop6 mget G L A xy res d (brk, ret, pa, po, rp) =
      let start := align p (pyDictGetD A res 1)
      if start + d > cap then
        (true, some (.error "InsufficientResourceError"), some (start, start + d), false, rp)
      else
        let s2 := List.foldl (PyFun.allocate_loop8 res (start, start + d))
          (List.foldl (PyFun.allocate_loop7 res (start, start + d)) (rp, false) (pyDictGetD G res []))
          (pyDictGetD (pyDictGetD L xy []) res [])
        (false, none, some (start, start + d), s2.2, s2.1) := by
  have e : ∀ v al, PyFun.align v al = align v al := fun _ _ => rfl
  unfold PyFun.allocate_loop6
  simp only [pyDictGet_eq, hp, hm, hc, e]
  all_goals first
    | rfl
    | exact (by simp only [Int.add_comm d, gt_iff_lt])
    | exact (by simp [Int.add_comm, gt_iff_lt])
    | (split <;> simp_all [Int.add_comm])

theorem pyWhile_stop {σ : Type} (cond : σ → Bool) (body : σ → σ) (f : Nat) (s : σ) (h : cond s = false) :
    pyWhile cond body f s = some s := by
  cases f <;> simp [pyWhile, h]

/-- the `while` loop = the model's `proposeLoop`, for every fuel (the same on both sides) -/
theorem gen_propose (mget : (Int × Int) → Except String (List (Nat × Int))) (G : List (Nat × List (Int × Int)))
    (L : List ((Int × Int) × List (Nat × List (Int × Int)))) (A : List (Nat × Int)) (xy : Int × Int) (res : Nat)
    (d cap : Int) (caps : List (Nat × Int)) (g l : List Slice)
    (hm : mget xy = .ok caps) (hc : caps.lookup res = some cap)
    (hg : pyDictGetD G res [] = g.map encS) (hl : pyDictGetD (pyDictGetD L xy []) res [] = l.map encS) :
    ∀ (f : Nat) (p : Int) (rp : List (Nat × Int)) (pa : Option (Int × Int)), rp.lookup res = some p →
      (∀ start, proposeLoop (pyDictGetD A res 1) cap d g l f p = .ok start →
        ∃ rp', pyWhile PyFun.allocate_loop6_cond (PyFun.allocate_loop6 mget G L A xy res d) f
            ((false, none, pa, true, rp) : WSt) = some (false, none, some (start, start + d), false, rp') ∧
          OffEq res rp rp') ∧
      (proposeLoop (pyDictGetD A res 1) cap d g l f p = .error .insufficient →
        ∃ pa' po' rp', pyWhile PyFun.allocate_loop6_cond (PyFun.allocate_loop6 mget G L A xy res d) f
            ((false, none, pa, true, rp) : WSt) = some (true, some (.error "InsufficientResourceError"), pa', po', rp')) ∧
      (proposeLoop (pyDictGetD A res 1) cap d g l f p = .error .fuel →
        pyWhile PyFun.allocate_loop6_cond (PyFun.allocate_loop6 mget G L A xy res d) f
            ((false, none, pa, true, rp) : WSt) = none) := by
  intro f
  induction f with
  | zero =>
    intro p rp pa hp
    refine ⟨?_, ?_, ?_⟩
    · intro start h; simp [proposeLoop] at h
    · intro h; simp [proposeLoop] at h
    · intro _; simp [pyWhile, PyFun.allocate_loop6_cond]
  | succ f ih =>
    intro p rp pa hp
    have hcond : PyFun.allocate_loop6_cond ((false, none, pa, true, rp) : WSt) = true := by
      simp [PyFun.allocate_loop6_cond]
    rw [proposeLoop_succ, pyWhile, if_pos hcond, loop6_step mget G L A xy res d false none pa true rp p cap caps hp hm hc]
    simp only [hg, hl]
    by_cases hcap : align p (pyDictGetD A res 1) + d > cap
    · simp only [hcap, if_true]
      refine ⟨?_, ?_, ?_⟩
      · intro start h; simp at h
      · intro _
        exact ⟨_, _, _, pyWhile_stop _ _ _ _ (by simp [PyFun.allocate_loop6_cond])⟩
      · intro h; simp at h
    · simp only [hcap, if_false]
      obtain ⟨rp1, e1, k1, o1⟩ := gen_scan res (align p (pyDictGetD A res 1), align p (pyDictGetD A res 1) + d) _ (loop7_step _ _) g rp p false hp
      obtain ⟨rp2, e2, k2, o2⟩ := gen_scan res (align p (pyDictGetD A res 1), align p (pyDictGetD A res 1) + d) _ (loop8_step _ _) l rp1 _ 
        (scan ⟨align p (pyDictGetD A res 1), align p (pyDictGetD A res 1) + d⟩ g (p, false)).2 k1
      rw [e1, e2]
      simp only
      cases hov : (scan ⟨align p (pyDictGetD A res 1), align p (pyDictGetD A res 1) + d⟩ l
          (scan ⟨align p (pyDictGetD A res 1), align p (pyDictGetD A res 1) + d⟩ g (p, false))).2
      · -- accepted
        simp only [Bool.false_eq_true, if_false]
        refine ⟨?_, ?_, ?_⟩
        · intro start h
          injection h with h
          subst h
          exact ⟨rp2, pyWhile_stop _ _ _ _ (by simp [PyFun.allocate_loop6_cond]), o1.trans o2⟩
        · intro h; simp at h
        · intro h; simp at h
      · simp only [if_true]
        have k2' := k2
        rw [show ((scan ⟨align p (pyDictGetD A res 1), align p (pyDictGetD A res 1) + d⟩ g (p, false)).1,
            (scan ⟨align p (pyDictGetD A res 1), align p (pyDictGetD A res 1) + d⟩ g (p, false)).2) =
            scan ⟨align p (pyDictGetD A res 1), align p (pyDictGetD A res 1) + d⟩ g (p, false) from rfl] at k2'
        obtain ⟨i1, i2, i3⟩ := ih _ rp2 (some (align p (pyDictGetD A res 1), align p (pyDictGetD A res 1) + d)) k2'
        refine ⟨?_, i2, i3⟩
        intro start h
        obtain ⟨rp', w1, w2⟩ := i1 start h
        exact ⟨rp', w1, (o1.trans o2).trans w2⟩


/-! ### the uniform-fuel model: `allocate` with the fuel of every proposal loop given from outside -/

def allocOneF (fuel : Nat) (inp : Input) (xy : Chip) (v : Vertex) (res : Res) (d : Int) (ptrs : Ptrs) :
    Except Err (Ptrs × Entry) :=
  if !(inp.machine.chipResources.any (·.1 == res)) then .error .keyError else
  let a := alignment inp.constraints res
  if a = 0 then .error .zeroDivision else
  match inp.machine.get xy with
  | none => .error .indexError
  | some rsrc =>
    match rsrc.lookup res with
    | none => .error .keyError
    | some cap =>
      match proposeLoop a cap d (globalRes inp.constraints res) (localRes inp.constraints xy res) fuel (ptrs res) with
      | .error .insufficient => .error (.insufficient res xy)
      | .error .fuel => .error .fuel
      | .ok start =>
        .ok (setPtr ptrs res (start + d), ⟨v, xy, res, d, ⟨start, start + d⟩⟩)

def errName : Err → String
  | .insufficient _ _ => "InsufficientResourceError"
  | .keyError => "KeyError"
  | .indexError => "IndexError"
  | .zeroDivision => "ZeroDivisionError"
  | .fuel => "fuel"

/-- `machine[xy]` as the generated definition sees it -/
def mgetOf (m : Machine) : Int × Int → Except String (List (Nat × Int)) :=
  fun xy => match m.get xy with
    | some r => .ok r
    | none => .error "IndexError"

/-- the three dicts built from the constraints hold what the model reads off the constraint list -/
structure Tables (inp : Input) (G : List (Nat × List (Int × Int)))
    (L : List ((Int × Int) × List (Nat × List (Int × Int)))) (A : List (Nat × Int)) : Prop where
  g : ∀ res, pyDictGetD G res [] = (globalRes inp.constraints res).map encS
  l : ∀ xy res, pyDictGetD (pyDictGetD L xy []) res [] = (localRes inp.constraints xy res).map encS
  a : ∀ res, pyDictGetD A res 1 = alignment inp.constraints res

/-- `resource_pointers` (a dict with the keys of `machine.chip_resources`) against the model's pointer function -/
def Rel (cr : List (Res × Int)) (rp : List (Nat × Int)) (ptrs : Ptrs) : Prop :=
  ∀ r, rp.lookup r = if cr.any (·.1 == r) then some (ptrs r) else none

theorem loop6_keyError (mget : (Int × Int) → Except String (List (Nat × Int))) (G : List (Nat × List (Int × Int)))
    (L : List ((Int × Int) × List (Nat × List (Int × Int)))) (A : List (Nat × Int)) (xy : Int × Int) (res : Nat)
    (d : Int) (st : WSt) (hp : st.2.2.2.2.lookup res = none) :
    ∃ pa po rp', PyFun.allocate_loop6 mget G L A xy res d st = (true, some (.error "KeyError"), pa, po, rp') := by
  obtain ⟨brk, ret, pa, po, rp⟩ := st
  simp only at hp
  unfold PyFun.allocate_loop6
  simp only [pyDictGet_eq, hp]
  exact ⟨_, _, _, rfl⟩

theorem loop6_noChip (mget : (Int × Int) → Except String (List (Nat × Int))) (G : List (Nat × List (Int × Int)))
    (L : List ((Int × Int) × List (Nat × List (Int × Int)))) (A : List (Nat × Int)) (xy : Int × Int) (res : Nat)
    (d : Int) (st : WSt) (p : Int) (e : String) (hp : st.2.2.2.2.lookup res = some p) (hm : mget xy = .error e) :
    ∃ pa po rp', PyFun.allocate_loop6 mget G L A xy res d st = (true, some (.error e), pa, po, rp') := by
  obtain ⟨brk, ret, pa, po, rp⟩ := st
  simp only at hp
  unfold PyFun.allocate_loop6
  simp only [pyDictGet_eq, hp, hm]
  exact ⟨_, _, _, rfl⟩

theorem loop6_noRes (mget : (Int × Int) → Except String (List (Nat × Int))) (G : List (Nat × List (Int × Int)))
    (L : List ((Int × Int) × List (Nat × List (Int × Int)))) (A : List (Nat × Int)) (xy : Int × Int) (res : Nat)
    (d : Int) (st : WSt) (p : Int) (caps : List (Nat × Int)) (hp : st.2.2.2.2.lookup res = some p)
    (hm : mget xy = .ok caps) (hc : caps.lookup res = none) :
    ∃ pa po rp', PyFun.allocate_loop6 mget G L A xy res d st = (true, some (.error "KeyError"), pa, po, rp') := by
  obtain ⟨brk, ret, pa, po, rp⟩ := st
  simp only at hp
  unfold PyFun.allocate_loop6
  simp only [pyDictGet_eq, hp, hm, hc]
  exact ⟨_, _, _, rfl⟩

abbrev VA := List (Nat × Option (Int × Int))

/-- what the body of the resource loop does with the final state of the `while` loop -/
theorem loop5_unfold (mget : (Int × Int) → Except String (List (Nat × Int))) (fuel : Nat)
    (G : List (Nat × List (Int × Int))) (L : List ((Int × Int) × List (Nat × List (Int × Int)))) (A : List (Nat × Int))
    (xy : Int × Int) (rp : List (Nat × Int)) (va : VA) (res : Nat) (d : Int) :
    ∃ vaE : VA, PyFun.allocate_loop5 mget fuel G L A xy (false, none, rp, va) (res, d) =
      match pyWhile PyFun.allocate_loop6_cond (PyFun.allocate_loop6 mget G L A xy res d) fuel
          ((false, none, none, true, rp) : WSt) with
      | none => (true, some (.error "fuel"), rp, va)
      | some (_, some r, _, _, rp') => (true, some r, rp', va)
      | some (_, none, pa, _, rp') =>
        match pyOptGet pa with
        | .error e => (true, some (.error e), rp', vaE)   -- unreachable (`proposed_allocation` is a slice here)
        | .ok t => (false, none, pyDictSet rp' res t.2, pyDictSet va res pa) := by
  -- `vaE`: whichever of the two last statements of the loop body comes first in the source
  first
  | (refine ⟨pyDictSet va res none, ?_⟩
     unfold PyFun.allocate_loop5
     simp only [Bool.false_eq_true, if_false]
     generalize pyWhile PyFun.allocate_loop6_cond _ fuel _ = w
     rcases w with _ | ⟨b, r, pa, po, rp'⟩
     · rfl
     · cases r with
       | some r => rfl
       | none => cases pa <;> rfl)
  | (refine ⟨va, ?_⟩
     unfold PyFun.allocate_loop5
     simp only [Bool.false_eq_true, if_false]
     generalize pyWhile PyFun.allocate_loop6_cond _ fuel _ = w
     rcases w with _ | ⟨b, r, pa, po, rp'⟩
     · rfl
     · cases r with
       | some r => rfl
       | none => cases pa <;> rfl)

theorem gen_allocOne {inp : Input} {G : List (Nat × List (Int × Int))}
    {L : List ((Int × Int) × List (Nat × List (Int × Int)))} {A : List (Nat × Int)} (T : Tables inp G L A)
    (hA : ∀ res, alignment inp.constraints res ≠ 0) (fuel : Nat) (hf : 0 < fuel) (xy : Chip) (v : Vertex) (res : Res)
    (d : Int) (rp : List (Nat × Int)) (ptrs : Ptrs) (va : VA) (hr : Rel inp.machine.chipResources rp ptrs) :
    (∀ ptrs' e, allocOneF fuel inp xy v res d ptrs = .ok (ptrs', e) →
      ∃ rp', PyFun.allocate_loop5 (mgetOf inp.machine) fuel G L A xy (false, none, rp, va) (res, d)
          = (false, none, rp', pyDictSet va res (some (encS e.s))) ∧ Rel inp.machine.chipResources rp' ptrs') ∧
    (∀ err, allocOneF fuel inp xy v res d ptrs = .error err →
      ∃ rp' va', PyFun.allocate_loop5 (mgetOf inp.machine) fuel G L A xy (false, none, rp, va) (res, d)
          = (true, some (.error (errName err)), rp', va')) := by
  obtain ⟨f, rfl⟩ : ∃ f, fuel = f + 1 := ⟨fuel - 1, by omega⟩
  have hcond : ∀ rp : List (Nat × Int), PyFun.allocate_loop6_cond ((false, none, none, true, rp) : WSt) = true := by
    intro rp; simp [PyFun.allocate_loop6_cond]
  have hstop : ∀ (st : WSt) e pa po rp', st = (true, some (.error e), pa, po, rp') →
      pyWhile PyFun.allocate_loop6_cond (PyFun.allocate_loop6 (mgetOf inp.machine) G L A xy res d) f st = some st := by
    intro st e pa po rp' h
    apply pyWhile_stop
    subst h
    simp [PyFun.allocate_loop6_cond]
  obtain ⟨vaE, hu⟩ := loop5_unfold (mgetOf inp.machine) (f + 1) G L A xy rp va res d
  rw [hu]
  by_cases hk : inp.machine.chipResources.any (·.1 == res) = true
  swap
  · -- resource_pointers[resource]: KeyError
    have hk' : inp.machine.chipResources.any (·.1 == res) = false := Bool.eq_false_iff.mpr hk
    have hv : allocOneF (f + 1) inp xy v res d ptrs = .error .keyError := by simp [allocOneF, hk']
    have hp : rp.lookup res = none := by rw [hr res]; simp [hk']
    obtain ⟨pa, po, rp', e⟩ := loop6_keyError (mgetOf inp.machine) G L A xy res d (false, none, none, true, rp) hp
    rw [hv, pyWhile, if_pos (hcond rp), e, hstop _ _ _ _ _ rfl]
    refine ⟨fun _ _ h => by simp at h, ?_⟩
    intro err h
    injection h with h; subst h
    exact ⟨_, _, rfl⟩
  have hp : rp.lookup res = some (ptrs res) := by rw [hr res]; simp [hk]
  cases hmg : inp.machine.get xy with
  | none =>
    have hv : allocOneF (f + 1) inp xy v res d ptrs = .error .indexError := by simp [allocOneF, hk, hA res, hmg]
    have hm : mgetOf inp.machine xy = .error "IndexError" := by simp [mgetOf, hmg]
    obtain ⟨pa, po, rp', e⟩ := loop6_noChip (mgetOf inp.machine) G L A xy res d (false, none, none, true, rp) _ _ hp hm
    rw [hv, pyWhile, if_pos (hcond rp), e, hstop _ _ _ _ _ rfl]
    refine ⟨fun _ _ h => by simp at h, ?_⟩
    intro err h
    injection h with h; subst h
    exact ⟨_, _, rfl⟩
  | some caps =>
    have hm : mgetOf inp.machine xy = .ok caps := by simp [mgetOf, hmg]
    cases hc : caps.lookup res with
    | none =>
      have hv : allocOneF (f + 1) inp xy v res d ptrs = .error .keyError := by simp [allocOneF, hk, hA res, hmg, hc]
      obtain ⟨pa, po, rp', e⟩ := loop6_noRes (mgetOf inp.machine) G L A xy res d (false, none, none, true, rp) _ _ hp hm hc
      rw [hv, pyWhile, if_pos (hcond rp), e, hstop _ _ _ _ _ rfl]
      refine ⟨fun _ _ h => by simp at h, ?_⟩
      intro err h
      injection h with h; subst h
      exact ⟨_, _, rfl⟩
    | some cap =>
      obtain ⟨w1, w2, w3⟩ := gen_propose (mgetOf inp.machine) G L A xy res d cap caps
        (globalRes inp.constraints res) (localRes inp.constraints xy res) hm hc (T.g res) (T.l xy res)
        (f + 1) (ptrs res) rp none hp
      rw [T.a res] at w1 w2 w3
      cases hpl : proposeLoop (alignment inp.constraints res) cap d (globalRes inp.constraints res)
          (localRes inp.constraints xy res) (f + 1) (ptrs res) with
      | error pe =>
        cases pe with
        | insufficient =>
          have hv : allocOneF (f + 1) inp xy v res d ptrs = .error (.insufficient res xy) := by
            simp [allocOneF, hk, hA res, hmg, hc, hpl]
          obtain ⟨pa', po', rp', e⟩ := w2 hpl
          rw [hv, e]
          refine ⟨fun _ _ h => by simp at h, ?_⟩
          intro err h
          injection h with h; subst h
          exact ⟨_, _, rfl⟩
        | fuel =>
          have hv : allocOneF (f + 1) inp xy v res d ptrs = .error .fuel := by
            simp [allocOneF, hk, hA res, hmg, hc, hpl]
          rw [hv, w3 hpl]
          refine ⟨fun _ _ h => by simp at h, ?_⟩
          intro err h
          injection h with h; subst h
          exact ⟨_, _, rfl⟩
      | ok start =>
        have hv : allocOneF (f + 1) inp xy v res d ptrs =
            .ok (setPtr ptrs res (start + d), ⟨v, xy, res, d, ⟨start, start + d⟩⟩) := by
          simp [allocOneF, hk, hA res, hmg, hc, hpl]
        obtain ⟨rp', e, off⟩ := w1 start hpl
        rw [hv, e]
        refine ⟨?_, fun _ h => by simp at h⟩
        intro ptrs' en h
        injection h with h
        injection h with h1 h2
        subst h1; subst h2
        refine ⟨pyDictSet rp' res (start + d), rfl, ?_⟩
        intro r
        by_cases hrr : r = res
        · subst hrr
          simp [lookup_pyDictSet_self, hk, setPtr]
        · rw [lookup_pyDictSet_ne _ _ hrr, off r hrr, hr r]
          simp [setPtr, hrr]

/-! ### the constraint collection loop -/

def encC : Constraint → PyFun.allocate_constraints_elem
  | .reserve r s loc => .ReserveResourceConstraint r (encS s) loc
  | .align r a => .AlignResourceConstraint r a
  | .other => .other

theorem loop1_step (G : List (Nat × List (Int × Int))) (L : List ((Int × Int) × List (Nat × List (Int × Int))))
    (A : List (Nat × Int)) (c : Constraint) :
    PyFun.allocate_loop1 (G, L, A) (encC c) =
      match c with
      | .reserve r s none => (pyDictMod G r [] (fun l => l ++ [encS s]), L, A)
      | .reserve r s (some loc) =>
        (G, pyDictMod L loc [] (fun d => pyDictMod d r [] (fun l => l ++ [encS s])), A)
      | .align r a => (G, L, pyDictSet A r a)
      | .other => (G, L, A) := by
  cases c with
  | reserve r s loc => cases loc <;> rfl
  | align r a => rfl
  | other => rfl

theorem getD_pyDictMod {κ α : Type} [BEq κ] [LawfulBEq κ] [DecidableEq κ] (d : List (κ × α)) (k k' : κ) (dflt : α) (f : α → α) :
    pyDictGetD (pyDictMod d k dflt f) k' dflt = if k' = k then f (pyDictGetD d k dflt) else pyDictGetD d k' dflt := by
  simp only [pyDictGetD, lookup_pyDictMod]
  by_cases h : k' = k
  · subst h; simp
  · have : (k' == k) = false := by simpa using h
    simp [h, this]

theorem getD_pyDictSet {κ α : Type} [BEq κ] [LawfulBEq κ] [DecidableEq κ] (d : List (κ × α)) (k k' : κ) (dflt v : α) :
    pyDictGetD (pyDictSet d k v) k' dflt = if k' = k then v else pyDictGetD d k' dflt := by
  simp only [pyDictGetD, lookup_pyDictSet]
  by_cases h : k' = k
  · subst h; simp
  · have : (k' == k) = false := by simpa using h
    simp [h, this]

/-- the step of `alignment` -/
def alignStep (res : Res) (a : Int) (c : Constraint) : Int :=
  match c with
  | .align r al => if r = res then al else a
  | _ => a

theorem alignment_eq (cs : List Constraint) (res : Res) : alignment cs res = cs.foldl (alignStep res) 1 := rfl

/-- the generated constraint loop, started from any three dicts: what the three dicts answer afterwards -/
theorem gen_collect : ∀ (cs : List Constraint) (G : List (Nat × List (Int × Int)))
    (L : List ((Int × Int) × List (Nat × List (Int × Int)))) (A : List (Nat × Int)),
    (∀ res, pyDictGetD (List.foldl PyFun.allocate_loop1 (G, L, A) (cs.map encC)).1 res []
        = pyDictGetD G res [] ++ (globalRes cs res).map encS) ∧
    (∀ xy res, pyDictGetD (pyDictGetD (List.foldl PyFun.allocate_loop1 (G, L, A) (cs.map encC)).2.1 xy []) res []
        = pyDictGetD (pyDictGetD L xy []) res [] ++ (localRes cs xy res).map encS) ∧
    (∀ res, pyDictGetD (List.foldl PyFun.allocate_loop1 (G, L, A) (cs.map encC)).2.2 res 1
        = cs.foldl (alignStep res) (pyDictGetD A res 1)) := by
  intro cs
  induction cs with
  | nil => intro G L A; simp [globalRes, localRes]
  | cons c cs ih =>
    intro G L A
    simp only [List.map_cons, List.foldl_cons, loop1_step]
    cases c with
    | reserve r s loc =>
      cases loc with
      | none =>
        obtain ⟨i1, i2, i3⟩ := ih (pyDictMod G r [] (fun l => l ++ [encS s])) L A
        refine ⟨?_, ?_, ?_⟩
        · intro res
          rw [i1 res, getD_pyDictMod]
          by_cases h : res = r
          · subst h; simp [globalRes, List.filterMap_cons]
          · have h' : ¬ r = res := fun e => h e.symm
            simp [globalRes, List.filterMap_cons, h, h']
        · intro xy res
          rw [i2 xy res]
          simp [localRes, List.filterMap_cons]
        · intro res
          rw [i3 res]; rfl
      | some loc =>
        obtain ⟨i1, i2, i3⟩ := ih G (pyDictMod L loc [] (fun d => pyDictMod d r [] (fun l => l ++ [encS s]))) A
        refine ⟨?_, ?_, ?_⟩
        · intro res
          rw [i1 res]
          simp [globalRes, List.filterMap_cons]
        · intro xy res
          rw [i2 xy res, getD_pyDictMod]
          by_cases h : xy = loc
          · subst h
            rw [if_pos rfl, getD_pyDictMod]
            by_cases h2 : res = r
            · subst h2; simp [localRes, List.filterMap_cons]
            · have h' : ¬ r = res := fun e => h2 e.symm
              simp [localRes, List.filterMap_cons, h2, h']
          · have h' : ¬ loc = xy := fun e => h e.symm
            simp [localRes, List.filterMap_cons, h, h']
        · intro res
          rw [i3 res]; rfl
    | align r a =>
      obtain ⟨i1, i2, i3⟩ := ih G L (pyDictSet A r a)
      refine ⟨?_, ?_, ?_⟩
      · intro res; rw [i1 res]; simp [globalRes, List.filterMap_cons]
      · intro xy res; rw [i2 xy res]; simp [localRes, List.filterMap_cons]
      · intro res
        rw [i3 res, getD_pyDictSet]
        by_cases h : res = r
        · subst h; simp [alignStep]
        · have h' : ¬ r = res := fun e => h e.symm
          simp [alignStep, h, h']
    | other =>
      obtain ⟨i1, i2, i3⟩ := ih G L A
      refine ⟨?_, ?_, ?_⟩
      · intro res; rw [i1 res]; simp [globalRes, List.filterMap_cons]
      · intro xy res; rw [i2 xy res]; simp [localRes, List.filterMap_cons]
      · intro res; rw [i3 res]; rfl

/-- **the three dicts that `allocate` builds from the constraints hold exactly what the model reads off the
constraint list** (the hypothesis `Tables` of `gen_allocOne`) -/
theorem gen_tables (inp : Input) :
    Tables inp (List.foldl PyFun.allocate_loop1 ([], [], []) (inp.constraints.map encC)).1
      (List.foldl PyFun.allocate_loop1 ([], [], []) (inp.constraints.map encC)).2.1
      (List.foldl PyFun.allocate_loop1 ([], [], []) (inp.constraints.map encC)).2.2 := by
  obtain ⟨i1, i2, i3⟩ := gen_collect inp.constraints [] [] []
  refine ⟨?_, ?_, ?_⟩
  · intro res; rw [i1 res]; simp [pyDictGetD]
  · intro xy res; rw [i2 xy res]; simp [pyDictGetD]
  · intro res; rw [i3 res, alignment_eq]; simp [pyDictGetD]

end Rig.C05
