/-
C05 - translator tie: `slices_overlap` and `align` (rig/place_and_route/allocate/utils.py) are
regenerated from the source into `Gen/PyFun.lean`; they are proved equal to the model's functions.
-/
import RigModel.Model.C05
import RigModel.Gen.PyFun

namespace Rig.C05
open Rig.Gen

/-- `slices_overlap` as written in the source = the model -/
theorem gen_slices_overlap (a b : Slice) :
    PyFun.slices_overlap (a.start, a.stop) (b.start, b.stop) = slicesOverlap a b := rfl

/-- `align` as written in the source = the model -/
theorem gen_align (value alignment : Int) : PyFun.align value alignment = align value alignment := rfl

end Rig.C05
