/-
C17 - library calls neither modify their arguments nor remember earlier calls
(the process-state half; argument immutability is about Python object identity and is
validated by the harness; its static counterpart - every statement that can write through a parameter
or keep state on an object is reviewed - is `effects_reviewed` in Props/C17Effects.lean).
-/
import RigModel.Model.C17
import RigModel.Props.C17Effects
set_option linter.unusedSimpArgs false
set_option linter.unusedVariables false

namespace Rig.C17
open Rig.Gen.State
open Rig.C03 (Chip)

/-- **Inventory obligation.** Every piece of process-wide mutable state found in the source is
reviewed: it is either never written through (so it equals its literal for ever) or it is the
modelled memo.  A new container, a new `global`, a new mutable default, or a new write through
an existing one breaks this theorem. -/
theorem inventory_classified : ∀ e ∈ inventory, (classify e).isSome = true := by
  decide

/-- no `global` statement and exactly one written object in the whole library -/
theorem inventory_written_once :
    (inventory.filter (fun e => e.2.2.2 != 0)).map (fun e => (e.1, e.2.1)) = memos ∧
    (inventory.filter (fun e => e.2.2.1 == "global")) = [] := by
  decide

theorem memoInv_nil : MemoInv [] := by
  intro r out h; cases h

private theorem lookup_mem {memo : Memo} {r : Nat} {out : List Chip}
    (h : memo.lookup r = some out) : (r, out) ∈ memo := by
  induction memo with
  | nil => simp [List.lookup] at h
  | cons p ps ih =>
    obtain ⟨a, b⟩ := p
    simp only [List.lookup] at h
    split at h
    · rename_i heq
      have : r = a := by simpa using heq
      cases h; subst this; simp
    · exact List.mem_cons_of_mem _ (ih h)

/-- **The memo is transparent.** Under the invariant, a lookup returns exactly what the pure
function returns, and the invariant is kept. -/
theorem memoGet_spec (memo : Memo) (r : Nat) (h : MemoInv memo) :
    (memoGet memo r).2 = Rig.C03.concentricHexagons r ∧ MemoInv (memoGet memo r).1 := by
  unfold memoGet
  cases hl : memo.lookup r with
  | some out => exact ⟨h r out (lookup_mem hl), h⟩
  | none =>
    refine ⟨rfl, ?_⟩
    intro r' out' hm
    simp only [List.mem_cons] at hm
    rcases hm with heq | hm
    · cases heq; rfl
    · exact h r' out' hm

theorem step_inv {α : Type} (memo : Memo) (c : Call α) (h : MemoInv memo) :
    MemoInv (step memo c).1 := by
  cases c with
  | usesMemo r f => exact (memoGet_spec memo r h).2
  | pure v => exact h

theorem step_result {α : Type} (memo : Memo) (c : Call α) (h : MemoInv memo) :
    (step memo c).2 = fresh c := by
  cases c with
  | usesMemo r f =>
    simp only [step, fresh]
    rw [(memoGet_spec memo r h).1, (memoGet_spec [] r memoInv_nil).1]
  | pure v => rfl

theorem runHistory_inv {α : Type} (cs : List (Call α)) : ∀ memo, MemoInv memo → MemoInv (runHistory memo cs) := by
  induction cs with
  | nil => intro memo h; exact h
  | cons c cs ih => intro memo h; exact ih _ (step_inv memo c h)

/-- **History independence.** Whatever calls were made before in the process, a call returns
what it returns in a fresh interpreter. -/
theorem history_independent {α : Type} (history : List (Call α)) (probe : Call α) :
    (step (runHistory [] history) probe).2 = fresh probe :=
  step_result _ probe (runHistory_inv history [] memoInv_nil)

/-- non-vacuity: a history that fills the memo for radius 2, then a probe with radius 2 -/
example : (runHistory [] [Call.usesMemo 2 (fun h => h.length)]).length = 1 ∧
    (step (runHistory [] [Call.usesMemo 2 (fun h => h.length)]) (Call.usesMemo 2 (fun h => h.length))).2 = 19 := by
  decide

end Rig.C17
