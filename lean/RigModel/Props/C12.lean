import RigModel.Model.C12
set_option linter.unusedSimpArgs false
set_option linter.unusedVariables false

namespace Rig.C12

end Rig.C12
