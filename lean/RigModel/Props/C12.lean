/-
C12 - the flood-fill region list selects exactly the requested chips and cores.
Property theorems only; helper lemmas are in RigModel/Lemmas/C12.lean.

Vocabulary (Model/C12.lean, specification section; Lemmas/C12.lean):
* `selects r x y`   - region word `r` selects chip `(x, y)`: written from the documented word
                      layout only (level bits 17:16, base masked to the level, 16 block bits);
* `sel (r, m) x y p`- the pair selects core `p` of chip `(x, y)`;
* `countSel out x y p` - how many pairs of `out` select core `p` of chip `(x, y)`;
* `Exact targets out`  - that count is 1 on the targets and 0 everywhere else
                         (nothing missing, nothing extra, nothing twice), for ALL x, y, p;
* `StrictlyIncreasing out` - strictly increasing as `(region, core mask)` tuples;
* `holds d t x y p` - the (chip, core) set a tree node stands for; `Inv d t` the tree invariant;
* `InRange c`       - 0 <= x, y < 256 and 0 <= p < 18;
* `buildTraceAt x0 y0 lv ts` - the insertion loop on `RegionCoreTree(x0, y0, lv)` with all return values;
* `runHistory x0 y0 lv ops` - calls `HOp.add x y p` / `HOp.read` on one tree object, results `HRes.added b` / `HRes.pairs l`;
* `addsOf ops`      - the cores a history adds, in order; `annot`, `ResOK`, `AllOK` - each call with the cores added
                      before it and the result it must have;
* `fullCores ts bs` - the cores for which some `add_core` of the run returned `True`;
* `exactB`, `nodupB`, `strictB` - the executable oracle the driver runs on the implementation's
                      output (enumeration through `chipsOf`/`coresOf`/`expand`, sorted keys);
* `wantsD tg x y p` - core `p` of chip `(x, y)` is requested by the dictionary `tg` as C09 carries it
                      (the expression of C09's `wants`/`wantsT`/`regionsOK`);
* `Rig.C09.selects`, `selectsCore`, `strictlyIncreasing`, `regionsOK` - C09's own reading of the
                      region word and its contract for `compress_flood_fill_regions`.
-/
import RigModel.Lemmas.C12
import RigModel.Lemmas.C12Oracle
import RigModel.Lemmas.C12Sub
import RigModel.Lemmas.C12Hist
import RigModel.Model.C09
set_option linter.unusedSimpArgs false
set_option linter.unusedVariables false

namespace Rig.C12

/-! ## the region word of `get_region_for_chip` -/

private theorem and_mask : ∀ lv, lv ≤ 3 → ∀ x, x < 256 →
    x &&& (0xffff ^^^ ((4 <<< (6 - 2 * lv)) - 1)) = x / (4 ^ (4 - lv)) * 4 ^ (4 - lv) := by
  decide +kernel

/-- **Region word.** For every level 0..3 and every chip of the 256 x 256 space the word
built by `get_region_for_chip` selects, under the documented layout, exactly the chips of
the same block (side 4^(3-level)) as the given chip. -/
theorem region_word_selects (x y lv : Nat) (hx : x < 256) (hy : y < 256) (hl : lv ≤ 3) :
    ∃ r, regionForChip x y lv = .ok r ∧
      ∀ x' y', selects r x' y' = true ↔
        (x' / 4 ^ (3 - lv) = x / 4 ^ (3 - lv) ∧ y' / 4 ^ (3 - lv) = y / 4 ^ (3 - lv)) := by
  have hl' : ¬ lv > 3 := by omega
  refine ⟨_, by simp only [regionForChip, if_neg hl']; rfl, ?_⟩
  intro x' y'
  rw [and_mask lv hl x hx, and_mask lv hl y hy]
  have hsub : ((x >>> (6 - 2 * lv)) &&& 3) + 4 * ((y >>> (6 - 2 * lv)) &&& 3) = subIndex lv x y := rfl
  rw [hsub]
  have hs16 := subIndex_lt lv x y
  have hm : 1 <<< subIndex lv x y < 2 ^ 16 := by
    rw [Nat.one_shiftLeft]; exact Nat.pow_lt_pow_right (by decide) hs16
  have hsc : scale lv = 4 ^ (4 - lv) := rfl
  rw [← hsc]
  have hpos : 0 < scale lv := by rw [hsc]; exact Nat.pow_pos (by decide)
  rw [selects_code (x / scale lv * scale lv) (y / scale lv * scale lv) lv _ x' y' hl
    (Nat.mul_mod_left _ _) (Nat.mul_mod_left _ _) ?_ ?_ hm]
  · rw [Nat.one_shiftLeft, Nat.testBit_two_pow]
    simp only [decide_eq_true_eq, inSq, subIndex_eq]
    rcases lv_cases hl with h | h | h | h <;> subst h <;>
      simp only [scale, shift, Nat.reducePow, Nat.reduceSub, Nat.reduceMul, Nat.div_one] <;>
      (constructor <;> intro h <;> omega)
  · rcases lv_cases hl with h | h | h | h <;> subst h <;>
      simp only [scale, Nat.reducePow, Nat.reduceSub] <;> omega
  · rcases lv_cases hl with h | h | h | h <;> subst h <;>
      simp only [scale, Nat.reducePow, Nat.reduceSub] <;> omega

/-- **Single chip.** `get_region_for_chip(x, y, 3)` selects chip `(x, y)` and no other chip. -/
theorem single_chip (x y : Nat) (hx : x < 256) (hy : y < 256) :
    ∃ r, regionForChip x y 3 = .ok r ∧ ∀ x' y', selects r x' y' = true ↔ (x' = x ∧ y' = y) := by
  obtain ⟨r, h1, h2⟩ := region_word_selects x y 3 hx hy (by decide)
  refine ⟨r, h1, ?_⟩
  intro x' y'
  rw [h2]
  simp

example : (regionForChip 255 3 3) = .ok 0xfc038000 := rfl

/-! ## insertion -/

/-- **Insertion invariant.** On a node satisfying the invariant, `add_core` of an in-square chip and a
core < 18 succeeds, keeps the invariant (masks 16 bit; a block bit set for a core means the child
holds nothing for that core; no node below the root keeps all sixteen bits), and the set the node
stands for grows by exactly the inserted core - where a node that reports `True` stands, together
with the bit its parent sets, for its whole square for that core, and itself keeps nothing for it. -/
theorem add_inv (d : Nat) (t : RTree) (x y p : Nat) (hI : Inv d t)
    (hin : inSq t.x0 t.y0 t.lv x y) (hp : p < 18) :
    ∃ t' full, addCore d t x y p = .ok (t', full) ∧ Inv d t' ∧
      (t.lv = 0 → full = false) ∧
      (∀ x' y' p', (holds d t' x' y' p' ∨ (full = true ∧ p' = p ∧ inSq t.x0 t.y0 t.lv x' y')) ↔
        (holds d t x' y' p' ∨ (x' = x ∧ y' = y ∧ p' = p))) ∧
      (full = true → ∀ x' y', ¬ holds d t' x' y' p) := by
  obtain ⟨t', full, h, hI', _, _, _, h0, hh, hn⟩ := addCore_spec d t x y p hI hin hp
  exact ⟨t', full, h, hI', h0, hh, hn⟩

/-- **Selected set = inserted set, for all insertion orders.** Inserting any sequence of in-range
cores into the empty tree succeeds and yields a tree satisfying the invariant that stands for
exactly the set of inserted cores (so the set does not depend on the order or on repetitions). -/
theorem insert_all (ts : List (Int × Int × Int)) (hr : ∀ c, c ∈ ts → InRange c) :
    ∃ t, buildTree ts = .ok t ∧ Inv 4 t ∧
      ∀ x y p, holds 4 t x y p ↔ (x, y, p) ∈ ts.map toNat3 := by
  obtain ⟨t, e, h, hh⟩ := foldlM_spec ts _ rootOK_new hr
  refine ⟨t, e, h.1, ?_⟩
  intro x y p
  rw [hh]
  constructor
  · rintro (h | h)
    · exact absurd h (holds_new _ _ _ _ _ _ _)
    · exact h
  · intro h; exact Or.inr h

example : InRange (255, 0, 17) := by simp [InRange]
example : ¬ InRange (256, 0, 1) := by simp [InRange]
example : Inv 4 (RTree.new 0 0 0) := rootOK_new.1

/-! ## a tree constructed directly (`RegionCoreTree(base_x, base_y, level)`, any level) -/

/-- **Any node, any insertion sequence.** On a freshly constructed node of level 0..3 placed on its
grid inside the 256 x 256 space, any sequence of `add_core` calls with chips of its square and cores
< 18 succeeds; the node keeps the invariant; the root never returns `True`; the set the node stands
for, together with its whole square for every core for which some call returned `True`
(`fullCores`: the node hands these to its parent and clears them), is exactly the set of inserted
cores; and the pairs the node yields select, each exactly once, what the node stands for. -/
theorem subtree_insert (x0 y0 lv : Nat) (hl : lv ≤ 3) (hx : x0 % scale lv = 0) (hy : y0 % scale lv = 0)
    (hx1 : x0 + scale lv ≤ 256) (hy1 : y0 + scale lv ≤ 256) (ts : List (Int × Int × Int))
    (hr : ∀ c, c ∈ ts → InRange c ∧ inSq x0 y0 lv c.1.toNat c.2.1.toNat) :
    ∃ t bs, buildTraceAt x0 y0 lv ts = .ok (t, bs) ∧ bs.length = ts.length ∧ Inv (4 - lv) t ∧
      (lv = 0 → ∀ b, b ∈ bs → b = false) ∧
      (∀ x y p, (holds (4 - lv) t x y p ∨ (p ∈ fullCores ts bs ∧ inSq x0 y0 lv x y)) ↔
        (x, y, p) ∈ ts.map toNat3) ∧
      ∀ x y p, (holds (4 - lv) t x y p → countSel (emit (4 - lv) t) x y p = 1) ∧
        (¬ holds (4 - lv) t x y p → countSel (emit (4 - lv) t) x y p = 0) := by
  have hd : 4 - lv = (3 - lv) + 1 := by omega
  have hI0 : Inv (4 - lv) (RTree.new x0 y0 lv) := by
    rw [hd]; exact Inv_new (3 - lv) x0 y0 lv (by omega) hx hy hx1 hy1
  obtain ⟨t, bs, e, hlen, hI, _, _, _, h0, hh⟩ :=
    trace_spec (4 - lv) x0 y0 lv ts (RTree.new x0 y0 lv) [] hI0 rfl rfl rfl hr
  refine ⟨t, bs, ?_, hlen, hI, h0, ?_, emit_count (4 - lv) t hI⟩
  · rw [buildTraceAt_eq, e, List.nil_append]
  · intro x y p
    rw [hh]
    constructor
    · rintro (h | h)
      · exact absurd h (holds_new _ _ _ _ _ _ _)
      · exact h
    · intro h; exact Or.inr h

example : InRange (7, 9, 17) ∧ inSq 4 8 3 (7 : Int).toNat (9 : Int).toNat := by
  simp [InRange, inSq, scale]

/-! ## histories on one tree object: `add_core` interleaved with read-outs -/

/-- **Every read-out after ANY history.** For every sequence of calls on one `RegionCoreTree()`
object - `add_core` of in-range cores (any order, repetitions allowed) interleaved with any number
of read-outs `get_regions_and_coremasks()` at any points - no call fails, every `add_core` returns
`False`, and EVERY read-out selects, under the documented meaning of a region word, exactly the
cores added before it, each exactly once (`AllOK (annot [] ops) rs`, call by call); the final tree
is the tree `compress_flood_fill_regions` builds from the added cores (read-outs leave no trace),
satisfies the invariant and stands for exactly the added cores. -/
theorem history_reads_exact (ops : List HOp) (hr : ∀ c, c ∈ addsOf ops → InRange c) :
    ∃ t rs, runHistory 0 0 0 ops = .ok (t, rs) ∧ AllOK (annot [] ops) rs ∧
      buildTree (addsOf ops) = .ok t ∧ Inv 4 t ∧
      ∀ x y p, holds 4 t x y p ↔ (x, y, p) ∈ (addsOf ops).map toNat3 := by
  obtain ⟨t, rs, e, ht, hh, hf, hb⟩ := hist_spec ops (RTree.new 0 0 0) [] [] rootOK_new
    (by intro x y p; simp [holds_new]) hr
  refine ⟨t, rs, ?_, hf, hb, ht.1, by simpa using hh⟩
  simpa [runHistory] using e

/-- the same, for one read-out singled out: after the calls `before`, a read-out returns pairs that
select exactly the cores added by `before` - whatever was read earlier and whatever follows -/
theorem history_read_at (before after : List HOp)
    (hr : ∀ c, c ∈ addsOf (before ++ .read :: after) → InRange c) :
    ∃ t rs l, runHistory 0 0 0 (before ++ .read :: after) = .ok (t, rs) ∧
      rs[before.length]? = some (.pairs l) ∧ Exact ((addsOf before).map toNat3) l := by
  obtain ⟨t, rs, e, hf, _⟩ := history_reads_exact _ hr
  obtain ⟨r, h1, h2⟩ := allOK_get before .read after [] rs hf
  cases r with
  | added b => simp [ResOK] at h2
  | raised e' => simp [ResOK] at h2
  | pairs l => exact ⟨t, rs, l, e, h1, by simpa [ResOK] using h2⟩

example : ∀ c, c ∈ addsOf [.add 3 4 5, .read, .add 255 0 17, .read, .read] → InRange c := by
  intro c hc
  simp only [addsOf, List.mem_cons, List.not_mem_nil, or_false] at hc
  rcases hc with rfl | rfl <;> simp [InRange]

/-- **Faults, then continued use.** For EVERY history on one `RegionCoreTree()` object, without any
hypothesis: an `add_core` of an in-range core returns `False`; any other `add_core` (negative or too
large coordinates, core number > 17) raises `ValueError` and leaves the tree exactly as it was; the
object stays usable: every read-out, before or after failed calls, selects exactly the in-range
cores added before it, each once; the final tree is the tree built from the in-range adds alone. -/
theorem history_faults_exact (ops : List HOp) :
    ∃ t rs, runHistory 0 0 0 ops = .ok (t, rs) ∧ AllOKF (annotF [] ops) rs ∧
      buildTree (goodAdds ops) = .ok t ∧ Inv 4 t ∧
      ∀ x y p, holds 4 t x y p ↔ (x, y, p) ∈ (goodAdds ops).map toNat3 := by
  obtain ⟨t, rs, e, ht, hh, hf, hb⟩ := hist_specF ops (RTree.new 0 0 0) [] [] rootOK_new
    (by intro x y p; simp [holds_new])
  refine ⟨t, rs, ?_, hf, hb, ht.1, by simpa using hh⟩
  simpa [runHistory] using e

theorem history_read_at_any (before after : List HOp) :
    ∃ t rs l, runHistory 0 0 0 (before ++ .read :: after) = .ok (t, rs) ∧
      rs[before.length]? = some (.pairs l) ∧ Exact ((goodAdds before).map toNat3) l := by
  obtain ⟨t, rs, e, hf, _⟩ := history_faults_exact (before ++ .read :: after)
  obtain ⟨r, h1, h2⟩ := allOKF_get before .read after [] rs hf
  cases r with
  | added b => simp [ResOKF] at h2
  | raised e' => simp [ResOKF] at h2
  | pairs l => exact ⟨t, rs, l, e, h1, by simpa [ResOKF] using h2⟩

/-! ## `compress_flood_fill_regions` -/

/-- **Total on the domain.** -/
theorem compress_ok (ts : List (Int × Int × Int)) (hr : ∀ c, c ∈ ts → InRange c) :
    ∃ out, compress ts = .ok out := by
  obtain ⟨t, e, _, _⟩ := insert_all ts hr
  exact ⟨sortPairs (emit 4 t), by simp only [compress, e]⟩

/-- anything outside the domain raises `ValueError` (and never the fuel error) -/
theorem compress_err (ts : List (Int × Int × Int)) (h : ∃ c, c ∈ ts ∧ ¬ InRange c) :
    compress ts = .error .valueError := by
  have := foldlM_err ts _ rootOK_new h
  simp only [compress, buildTree, this]

/-- **Exactness.** For every sequence of in-range targets (any order, repetitions allowed) the
emitted list selects, under the documented meaning of a region word, every requested core of
every requested chip by exactly one pair, and selects nothing else - for all chips `(x, y)` and
all core numbers `p` whatsoever. -/
theorem compress_exact (ts : List (Int × Int × Int)) (hr : ∀ c, c ∈ ts → InRange c) :
    ∃ out, compress ts = .ok out ∧ Exact (ts.map toNat3) out := by
  obtain ⟨t, e, hI, hh⟩ := insert_all ts hr
  refine ⟨sortPairs (emit 4 t), by simp only [compress, e], ?_⟩
  intro x y p
  have hc := emit_count 4 t hI x y p
  have hperm : countSel (sortPairs (emit 4 t)) x y p = countSel (emit 4 t) x y p :=
    (List.mergeSort_perm _ pairLe).countP_eq _
  rw [hperm]
  by_cases hm : (x, y, p) ∈ ts.map toNat3
  · rw [if_pos hm]; exact hc.1 ((hh x y p).2 hm)
  · rw [if_neg hm]; exact hc.2 (fun h => hm ((hh x y p).1 h))

/-- set reading of `Exact`: some emitted pair selects core `p` of chip `(x, y)` iff it was requested,
and never more than one pair does -/
theorem exact_select_iff (targets : List (Nat × Nat × Nat)) (out : List (Nat × Nat))
    (h : Exact targets out) (x y p : Nat) :
    ((∃ pr, pr ∈ out ∧ sel pr x y p = true) ↔ (x, y, p) ∈ targets) ∧ countSel out x y p ≤ 1 := by
  have h1 := h x y p
  have h2 : 0 < countSel out x y p ↔ ∃ pr, pr ∈ out ∧ sel pr x y p = true := by
    unfold countSel; exact List.countP_pos_iff
  rw [← h2, h1]
  by_cases hm : (x, y, p) ∈ targets
  · simp [hm]
  · simp [hm]

/-- **Order.** The emitted list is strictly increasing in `(region, core mask)`. -/
theorem compress_sorted (ts : List (Int × Int × Int)) (hr : ∀ c, c ∈ ts → InRange c) :
    ∃ out, compress ts = .ok out ∧ StrictlyIncreasing out := by
  obtain ⟨out, e, hex⟩ := compress_exact ts hr
  refine ⟨out, e, ?_⟩
  obtain ⟨t, e', hI, _⟩ := insert_all ts hr
  have hout : out = sortPairs (emit 4 t) := by
    simp only [compress, e'] at e; cases e; rfl
  subst hout
  apply strict_of_sorted_nodup _ (sortPairs_sorted _)
  apply nodup_of_exact
  · intro pr hpr
    exact (emit_props 4 t hI pr ((List.mergeSort_perm _ pairLe).mem_iff.1 hpr)).1
  · intro x y p
    rw [hex x y p]; split <;> omega

/-- The `sorted(...)` in `compress_flood_fill_regions` is needed: the traversal
`get_regions_and_coremasks` alone is NOT increasing (its docstring says it is) - a leaf at (4, 0) is
yielded before the leaf at (0, 16) of the next level-2 sibling.  The same two pairs come out of the
implementation (`list(t.get_regions_and_coremasks())` after `add_core(4, 0, 0); add_core(0, 16, 0)`). -/
theorem emit_not_sorted :
    (buildTree [(4, 0, 0), (0, 16, 0)]).map (emit 4) = .ok [(0x04030001, 1), (0x00130001, 1)] ∧
    ¬ StrictlyIncreasing [(0x04030001, 1), (0x00130001, 1)] := by
  refine ⟨by decide +kernel, ?_⟩
  rw [← strictB_iff']
  decide

/-- **Loader keys.** Core masks are 18 bit and both documented sort keys,
`(region << 32) | core_mask` (regions.py) and `(region << 18) | cores` (`_send_ffcs`), are
strictly increasing along the emitted list. -/
theorem compress_keys (ts : List (Int × Int × Int)) (hr : ∀ c, c ∈ ts → InRange c) :
    ∃ out, compress ts = .ok out ∧ (∀ pr, pr ∈ out → pr.2 < 2 ^ 18) ∧
      out.Pairwise (fun a b => a.1 * 2 ^ 32 + a.2 < b.1 * 2 ^ 32 + b.2) ∧
      out.Pairwise (fun a b => a.1 * 2 ^ 18 + a.2 < b.1 * 2 ^ 18 + b.2) := by
  obtain ⟨out, e, hs⟩ := compress_sorted ts hr
  obtain ⟨t, e', hI, _⟩ := insert_all ts hr
  have hout : out = sortPairs (emit 4 t) := by
    simp only [compress, e'] at e; cases e; rfl
  have hm : ∀ pr, pr ∈ out → pr.2 < 2 ^ 18 := by
    intro pr hpr; subst hout
    exact (emit_props 4 t hI pr ((List.mergeSort_perm _ pairLe).mem_iff.1 hpr)).2
  refine ⟨out, e, hm, ?_, ?_⟩
  · refine List.Pairwise.imp_of_mem ?_ hs
    intro a b ha hb h
    have := hm a ha; have := hm b hb
    unfold pairLt at h; omega
  · refine List.Pairwise.imp_of_mem ?_ hs
    intro a b ha hb h
    have := hm a ha; have := hm b hb
    unfold pairLt at h; omega

/-! ## the executable oracle enumerates exactly the chips `selects` accepts -/

theorem chipsOf_spec (r x y : Nat) : (x, y) ∈ chipsOf r ↔ selects r x y = true := by
  unfold chipsOf
  simp only [List.mem_filter, List.mem_flatMap, List.mem_map, List.mem_range, Prod.mk.injEq]
  constructor
  · rintro ⟨_, h⟩; exact h
  · intro h
    refine ⟨?_, h⟩
    have hpos : 0 < 4 * wSide r := by
      have : 0 < wSide r := by unfold wSide; exact Nat.pow_pos (by decide)
      omega
    unfold selects at h
    simp only [Bool.and_eq_true, beq_iff_eq] at h
    obtain ⟨⟨h1, h2⟩, _⟩ := h
    refine ⟨x % (4 * wSide r), Nat.mod_lt _ hpos, y % (4 * wSide r), Nat.mod_lt _ hpos, ?_, ?_⟩
    · rw [← h1]; exact Nat.div_add_mod' x (4 * wSide r)
    · rw [← h2]; exact Nat.div_add_mod' y (4 * wSide r)

/-! ## the executable oracle decides the specification

The driver's op `oracle` returns `exactB targets out`, `strictB out` and `nodupB targets` on the
implementation's own output; these are the proved predicates, for ALL target lists and ALL
outputs (any words, any masks - no bounds). -/

/-- **Oracle = specification (exactness).** For targets listed without repetition the enumerating
oracle returns `true` iff the pairs select every target exactly once and nothing else. -/
theorem exactB_iff (targets : List (Nat × Nat × Nat)) (out : List (Nat × Nat)) (hnd : targets.Nodup) :
    exactB targets out = true ↔ Exact targets out :=
  exactB_iff' targets out hnd

/-- the hypothesis of `exactB_iff` is itself decided by the driver -/
theorem nodupB_iff (targets : List (Nat × Nat × Nat)) : nodupB targets = true ↔ targets.Nodup :=
  nodupB_iff' targets

/-- **Oracle = specification (order).** -/
theorem strictB_iff (out : List (Nat × Nat)) : strictB out = true ↔ StrictlyIncreasing out :=
  strictB_iff' out

/-- the three booleans of the driver's reply together -/
theorem oracle_decides (targets : List (Nat × Nat × Nat)) (out : List (Nat × Nat)) :
    (nodupB targets && exactB targets out && strictB out) = true ↔
      (targets.Nodup ∧ Exact targets out ∧ StrictlyIncreasing out) := by
  simp only [Bool.and_eq_true, nodupB_iff, strictB_iff]
  constructor
  · rintro ⟨⟨h1, h2⟩, h3⟩; exact ⟨h1, (exactB_iff _ _ h1).1 h2, h3⟩
  · rintro ⟨h1, h2, h3⟩; exact ⟨⟨h1, (exactB_iff _ _ h1).2 h2⟩, h3⟩

/-- non-vacuity of the hypothesis (and the driver decides it: `nodupB_iff`).  The hypothesis cannot
be dropped: `Exact` reads the targets as a set, the oracle compares multisets, so for a target
listed twice `exactB` is false on a correct output. -/
example : [((3 : Nat), (4 : Nat), (5 : Nat)), (3, 4, 6), (4, 3, 5)].Nodup := by decide
example : nodupB [(3, 4, 5), (3, 4, 6), (4, 3, 5)] = true := (nodupB_iff _).2 (by decide)

/-! ## C09's reading of the region word is this one

`Model/C09.lean` has its own `selects` (written by another hand from the same documentation) and
states the contract of `compress_flood_fill_regions` that its fill theorems assume (`CompressOK`,
checked at run time by `regionsOK`).  The two readings agree on every word and every chip, and
`compress` meets that contract. -/

/-- **Cross-model.** C09's and C12's reading of a region word agree on ALL words and chips. -/
theorem c09_selects_agree (r x y : Nat) : Rig.C09.selects r x y = selects r x y := by
  have hl : r / 65536 % 4 < 4 := Nat.mod_lt _ (by decide)
  have hbit : ∀ i, i < 16 → (r % 65536).testBit i = r.testBit i := by
    intro i hi
    have : (65536 : Nat) = 2 ^ 16 := by decide
    rw [this, Nat.testBit_mod_two_pow]; simp [hi]
  have hy : r / 65536 % 256 / 4 * 4 = r / 2 ^ 18 % 64 * 4 := by omega
  have hx : r / 16777216 % 256 = r / 2 ^ 24 % 256 := by omega
  unfold Rig.C09.selects selects wSide wBaseX wBaseY wLevel
  simp only [hy, hx]
  have e16 : (2 : Nat) ^ 16 = 65536 := by decide
  rw [e16]
  generalize r / 65536 % 4 = lv at hl
  have : lv = 0 ∨ lv = 1 ∨ lv = 2 ∨ lv = 3 := by omega
  rcases this with h | h | h | h <;> subst h <;>
    simp only [Nat.reducePow, Nat.reduceSub, Nat.reduceMul, Nat.reduceDiv, Nat.div_one] <;>
    rw [hbit _ (by omega)]

/-- ... hence on all pairs and cores: C09's `selectsCore` says "some pair of the list selects" -/
theorem c09_selectsCore_agree (out : List (Nat × Nat)) (x y p : Nat) :
    Rig.C09.selectsCore out x y p = decide (0 < countSel out x y p) := by
  unfold Rig.C09.selectsCore countSel
  rw [Bool.eq_iff_iff]
  simp only [List.any_eq_true, decide_eq_true_eq, List.countP_pos_iff, sel, c09_selects_agree]

/-- C09's order check is `strictB`, i.e. `StrictlyIncreasing` -/
theorem c09_strictlyIncreasing_agree (out : List (Nat × Nat)) :
    Rig.C09.strictlyIncreasing out = true ↔ StrictlyIncreasing out := by
  have h : ∀ out : List (Nat × Nat), Rig.C09.strictlyIncreasing out = strictB out := by
    intro out
    induction out with
    | nil => rfl
    | cons a rest ih =>
      cases rest with
      | nil => rfl
      | cons b rest => rw [Rig.C09.strictlyIncreasing, strictB, ih]; rfl
  rw [h, strictB_iff]

/-- the set a `{(x, y): cores}` dictionary, as C09 carries it, requests (the expression used by
C09's `wants`, `wantsT` and `regionsOK`) -/
def wantsD (tg : List (Nat × Nat × List Nat)) (x y p : Nat) : Bool :=
  tg.any fun t => t.1 == x && t.2.1 == y && t.2.2.contains p

/-- the dictionary flattened in iteration order: the insertion sequence of
`compress_flood_fill_regions` -/
def flatTargets (tg : List (Nat × Nat × List Nat)) : List (Int × Int × Int) :=
  tg.flatMap fun e => e.2.2.map fun (p : Nat) => ((e.1 : Int), (e.2.1 : Int), (p : Int))

theorem flatTargets_mem (tg : List (Nat × Nat × List Nat)) (x y p : Nat) :
    (x, y, p) ∈ (flatTargets tg).map toNat3 ↔ wantsD tg x y p = true := by
  simp only [flatTargets, wantsD, toNat3, List.mem_map, List.mem_flatMap, List.any_eq_true,
    Bool.and_eq_true, beq_iff_eq, List.contains_iff_mem]
  constructor
  · rintro ⟨c, ⟨e, he, q, hq, rfl⟩, h⟩
    simp only [Int.toNat_natCast, Prod.mk.injEq] at h
    obtain ⟨rfl, rfl, rfl⟩ := h
    exact ⟨e, he, ⟨rfl, rfl⟩, hq⟩
  · rintro ⟨e, he, ⟨rfl, rfl⟩, hq⟩
    exact ⟨_, ⟨e, he, p, hq, rfl⟩, by simp⟩

theorem flatTargets_inRange (tg : List (Nat × Nat × List Nat))
    (h : ∀ x y p, wantsD tg x y p = true → x < 256 ∧ y < 256 ∧ p < 18) :
    ∀ c, c ∈ flatTargets tg → InRange c := by
  intro c hc
  have hm : (c.1.toNat, c.2.1.toNat, c.2.2.toNat) ∈ (flatTargets tg).map toNat3 :=
    List.mem_map.2 ⟨c, hc, rfl⟩
  have := h _ _ _ ((flatTargets_mem tg _ _ _).1 hm)
  simp only [flatTargets, List.mem_flatMap, List.mem_map] at hc
  obtain ⟨e, he, p, hp, rfl⟩ := hc
  simp only [Int.toNat_natCast] at this
  simp only [InRange]
  omega

/-- **C12 discharges C09's contract.** For every dictionary `tg` of in-range targets and every
insertion sequence `ts` that lists exactly the requested cores (any order, repetitions allowed),
`compress` succeeds and its output meets, under C09's OWN reading of the region word, everything
C09 assumes of `compress_flood_fill_regions`: 18-bit masks, `selectsCore` = requested for ALL
chips and cores (C09's `CompressOK` asks this only on the machine's chips and cores < 18),
strictly increasing, and the run-time check `regionsOK` is true for every chip list. -/
theorem c09_regions_contract (tg : List (Nat × Nat × List Nat)) (ts : List (Int × Int × Int))
    (hr : ∀ c, c ∈ ts → InRange c)
    (hrep : ∀ x y p, (x, y, p) ∈ ts.map toNat3 ↔ wantsD tg x y p = true) :
    ∃ out, compress ts = .ok out ∧
      (∀ rm, rm ∈ out → rm.2 < 262144) ∧
      (∀ x y p, Rig.C09.selectsCore out x y p = wantsD tg x y p) ∧
      Rig.C09.strictlyIncreasing out = true ∧
      ∀ chips, Rig.C09.regionsOK chips tg out = true := by
  obtain ⟨out, e, hex⟩ := compress_exact ts hr
  obtain ⟨out2, e2, hm, _, _⟩ := compress_keys ts hr
  obtain ⟨out3, e3, hs⟩ := compress_sorted ts hr
  rw [e] at e2 e3; cases e2; cases e3
  have hsel : ∀ x y p, Rig.C09.selectsCore out x y p = wantsD tg x y p := by
    intro x y p
    rw [c09_selectsCore_agree, hex x y p, Bool.eq_iff_iff, decide_eq_true_eq, ← hrep]
    split <;> simp_all
  have hst : Rig.C09.strictlyIncreasing out = true := (c09_strictlyIncreasing_agree out).2 hs
  refine ⟨out, e, hm, hsel, hst, ?_⟩
  intro chips
  unfold Rig.C09.regionsOK
  simp only [Bool.and_eq_true, List.all_eq_true, decide_eq_true_eq, beq_iff_eq]
  exact ⟨⟨hst, fun rm h => hm rm h⟩, fun c _ => hsel c.1 c.2.1 c.2.2⟩

/-- `compress_flood_fill_regions` as the function C09's controller model takes (`Ctl.compress`):
the dictionary is inserted in iteration order -/
def compressD (tg : List (Nat × Nat × List Nat)) : List (Nat × Nat) :=
  match compress (flatTargets tg) with
  | .ok out => out
  | .error _ => []

/-- **The body of C09's `CompressOK` holds for the C12 model** (`c.compress := compressD`), with
the domain stated on the requested set only: all requested chips in the 256 x 256 space, cores < 18
(what C09's `Valid.hin` gives on a machine whose chip coordinates are below 256). -/
theorem c09_compressOK (tg : List (Nat × Nat × List Nat))
    (h : ∀ x y p, wantsD tg x y p = true → x < 256 ∧ y < 256 ∧ p < 18) :
    (∀ rm, rm ∈ compressD tg → rm.2 < 262144) ∧
    (∀ x y p, Rig.C09.selectsCore (compressD tg) x y p = wantsD tg x y p) ∧
    ∀ chips, Rig.C09.regionsOK chips tg (compressD tg) = true := by
  obtain ⟨out, e, h1, h2, _, h4⟩ :=
    c09_regions_contract tg (flatTargets tg) (flatTargets_inRange tg h) (flatTargets_mem tg)
  have : compressD tg = out := by simp only [compressD, e]
  rw [this]
  exact ⟨h1, h2, h4⟩

/-- non-vacuity: a dictionary with two chips, one of them with an empty core set -/
example : ∀ x y p, wantsD [(255, 3, [0, 17]), (7, 7, [])] x y p = true → x < 256 ∧ y < 256 ∧ p < 18 := by
  intro x y p h
  simp only [wantsD, List.any_cons, List.any_nil, Bool.or_false, Bool.or_eq_true, Bool.and_eq_true,
    beq_iff_eq, List.contains_iff_mem, List.mem_cons, List.not_mem_nil, or_false] at h
  simp only [and_false, or_false] at h
  omega
example : compressD [(255, 3, [0, 17]), (7, 7, [])] = [(0xfc038000, 0x20001)] := by decide +kernel

end Rig.C12
