/-
C03 - translator tie: the body of `Links.opposite` (rig/links.py) is regenerated from the source into
`Gen/PyFun.lean`; the model's `opp` (a table lookup in the regenerated `oppositeTable`) is proved equal to it
on the six links.
-/
import RigModel.Model.C03
import RigModel.Gen.PyFun
set_option linter.unusedSimpArgs false
set_option linter.unusedVariables false

namespace Rig.C03
open Rig.Gen

private theorem opp_cases : ∀ l < 6, PyFun.Links_opposite ((l : Nat) : Int) = .ok ((opp l : Nat) : Int) := by
  decide

/-- `Links(l).opposite` as written in the source = the model, for every link -/
theorem gen_opp (l : Nat) (h : l < 6) : PyFun.Links_opposite l = .ok ((opp l : Nat) : Int) := opp_cases l h

end Rig.C03
