/-
C02 (companion) - the cooling hypothesis of `saPlace_terminates_under_cooling` holds in EXACT
arithmetic: a non-negative temperature that is multiplied by a factor <= 0.95 per pass (the code's
alpha is one of 0.5, 0.9, 0.95, 0.8) falls to or below any positive threshold after finitely many
passes; so if, while the loop runs, the threshold `0.005 * current_cost / len(nets)` stays above
some positive number (the cost is 0 - the loop leaves through its `break` - or at least the
smallest positive cost), the loop test fails eventually and `sa.place` terminates.  What separates
this from the code is only the rounding of IEEE doubles (trusted base).
-/
import RigModel.Props.C02Sched
import Mathlib.Algebra.Order.Archimedean.Basic
import Mathlib.Tactic.Linarith
import Mathlib.Tactic.Positivity

set_option linter.unusedVariables false

namespace Rig.C02Sched
open Rig.C02

/-- geometric cooling in exact arithmetic -/
theorem geometric_cools (T : Nat → ℚ) (θ : ℚ) (hθ : 0 < θ) (hnn : ∀ k, 0 ≤ T k)
    (hstep : ∀ k, T (k + 1) ≤ 19 / 20 * T k) : ∃ N, ¬ (T N > θ) := by
  have hb : ∀ k, T k ≤ (19 / 20 : ℚ) ^ k * T 0 := by
    intro k
    induction k with
    | zero => simp
    | succ n ih =>
      calc T (n + 1) ≤ 19 / 20 * T n := hstep n
        _ ≤ 19 / 20 * ((19 / 20 : ℚ) ^ n * T 0) := by
            apply mul_le_mul_of_nonneg_left ih; norm_num
        _ = (19 / 20 : ℚ) ^ (n + 1) * T 0 := by ring
  by_cases h0 : T 0 = 0
  · exact ⟨0, by rw [h0]; linarith⟩
  · have hpos : 0 < T 0 := lt_of_le_of_ne (hnn 0) (Ne.symm h0)
    obtain ⟨n, hn⟩ := exists_pow_lt_of_lt_one (div_pos hθ hpos) (by norm_num : (19 / 20 : ℚ) < 1)
    refine ⟨n, ?_⟩
    have : (19 / 20 : ℚ) ^ n * T 0 < θ := by
      have := mul_lt_mul_of_pos_right hn hpos
      rwa [div_mul_cancel₀ _ h0] at this
    linarith [hb n]

/-- **`sa.place` terminates for an exact-arithmetic schedule**: let `T k` be the temperature and
`θs k` the threshold at pass `k`; if the loop test is true only when `T k > θs k`, the temperature
shrinks by at least the factor 0.95 per pass and the threshold stays at or above a positive `θ`,
then some number of passes `N` is enough fuel for every run. -/
theorem saPlace_terminates_exact_schedule (vr : VR) (cs : List Constraint) (m : Machine) (locs : List Chip)
    (vs : List Vtx) (warm : List Step) (numSteps : Nat) (o : Nat → Tick) (T θs : Nat → ℚ) (θ : ℚ)
    (hθ : 0 < θ) (hnn : ∀ k, 0 ≤ T k) (hstep : ∀ k, T (k + 1) ≤ 19 / 20 * T k) (hthr : ∀ k, θ ≤ θs k)
    (hhot : ∀ k, (o k).hot = true → T k > θs k) :
    ∃ N, ∀ fuel, N ≤ fuel → saPlaceSched vr cs m locs vs warm numSteps o fuel ≠ .error .fuel := by
  obtain ⟨N, hN⟩ := geometric_cools T θ hθ hnn hstep
  refine ⟨N, fun fuel hf => ?_⟩
  have hc : (o N).hot = false := by
    cases h : (o N).hot with
    | false => rfl
    | true => exact absurd (lt_of_le_of_lt (hthr N) (hhot N h)) hN
  exact (saPlace_terminates_under_cooling vr cs m locs vs warm numSteps o fuel N hc hf).1

/-- non-vacuity: the geometric schedule `T k = 100 * 0.8^k` with the constant threshold 1/2 satisfies
the hypotheses (and is hot at pass 0) -/
example : ∃ (T : Nat → ℚ), (∀ k, 0 ≤ T k) ∧ (∀ k, T (k + 1) ≤ 19 / 20 * T k) ∧ T 0 > 1 / 2 := by
  refine ⟨fun k => 100 * (4 / 5 : ℚ) ^ k, fun k => by positivity, fun k => ?_, by norm_num⟩
  have : (0 : ℚ) ≤ (4 / 5 : ℚ) ^ k := by positivity
  simp only [pow_succ]
  nlinarith

end Rig.C02Sched
