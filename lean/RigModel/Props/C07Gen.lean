/-
C07 - translator tie: the chunking arithmetic of remote memory access is regenerated from the source into
`Gen/PyFun.lean` and proved equal to the model functions the C07 theorems are about:
* the nested generators `packets` of `SCPConnection.read` / `SCPConnection.write`
  (rig/machine_control/scp_connection.py; closure variables `buffer_size, x, y, p[, address]` are parameters of the
  generated definitions; the `scpcall` records yielded are the tuples of their positional arguments; the access type
  is the lookup `consts.address_length_dtype[(address % 4, size % 4)]` with its KeyError) = `read` / `write` chunks;
* `MachineController.write_across_link` (word-alignment checks, `min(length, scp_data_length & ~3)` blocks, one
  `_send_scp(..., link_write, arg1=address, arg2=to_write, arg3=link, data=..., expected_args=0)` per block)
  = `linkWrite`;
* `MachineController.fill` (word-aligned: one fill command; otherwise `struct.pack('<B', data) * size` written with
  `self.write`; recorded as events) = the model's `fill` plan.
Each is a `while` loop; the theorems give the fuel that suffices (the number of bytes) and show that neither
fuel exhaustion nor the KeyError is reachable.
-/
import RigModel.Model.C07
import RigModel.Gen.PyFun
import RigModel.Lemmas.PyLoops
import RigModel.Lemmas.IntBits
set_option linter.unusedSimpArgs false
set_option linter.unusedVariables false
set_option linter.unusedTactic false
set_option linter.unreachableTactic false

namespace Rig.C07
open Rig.Gen Rig.Gen.Scp Rig.PyLoops Rig.IntBits

/-- a byte string of the model as the Python `bytes` value -/
def bytesInt (d : List Nat) : List Int := d.map (fun (n : Nat) => (n : Int))

theorem length_bytesInt (d : List Nat) : ((bytesInt d).length : Int) = (d.length : Int) := by simp [bytesInt]

/-- `data[pos:pos + n]` inside the byte string -/
theorem pySlice_bytes (d : List Nat) (pos n : Nat) (hp : pos ≤ d.length) :
    PyFun.pySlice (bytesInt d) (pos : Int) ((pos : Int) + (n : Int)) = bytesInt ((d.drop pos).take n) := by
  unfold PyFun.pySlice bytesInt
  have h1 : ¬ ((pos : Int) < 0) := by omega
  have h2 : ¬ ((pos : Int) + (n : Int) < 0) := by omega
  simp only [h1, h2, if_false, List.length_map]
  have e1 : (min (pos : Int) (d.length : Int)).toNat = pos := by omega
  have e2 : (min ((pos : Int) + (n : Int)) (d.length : Int) - min (pos : Int) (d.length : Int)).toNat
      = min n (d.length - pos) := by omega
  rw [e1, e2, ← List.map_drop, ← List.map_take]
  congr 1
  rw [List.take_eq_take_iff]
  simp only [List.length_drop]
  omega

private theorem dtype_cells : ∀ i < 4, ∀ j < 4, dtypeTable[4 * i + j]? = some (dtypeTable.getD (4 * i + j) 0) := by
  decide

/-- `consts.address_length_dtype[(addr % 4, size % 4)]` as the generated code reads it = the model's `dtype` -/
theorem pairGet_dtype (a b : Int) (ha : 0 ≤ a) (hb : 0 ≤ b) :
    PyFun.pyPairGet dtypeTable 4 4 (Int.fmod a 4) (Int.fmod b 4) = .ok ((dtype a.toNat b.toNat : Nat) : Int) := by
  unfold PyFun.pyPairGet dtype
  rw [Int.fmod_eq_emod_of_nonneg _ (by decide), Int.fmod_eq_emod_of_nonneg _ (by decide)]
  have h : 0 ≤ a % 4 ∧ a % 4 < ((4 : Nat) : Int) ∧ 0 ≤ b % 4 ∧ b % 4 < ((4 : Nat) : Int) := by omega
  rw [if_pos h]
  have e1 : (a % 4).toNat = a.toNat % 4 := by omega
  have e2 : (b % 4).toNat = b.toNat % 4 := by omega
  rw [e1, e2, dtype_cells _ (Nat.mod_lt _ (by decide)) _ (Nat.mod_lt _ (by decide))]

/-! ### `SCPConnection.read`: the generator `packets` -/

/-- the positional arguments of the `scpcall` record of a read chunk -/
def readCall (x y p : Int) (c : Chunk) : Int × Int × Int × Int × Int × Int × Int :=
  (x, y, p, ((cmdRead : Nat) : Int), (c.addr : Int), (c.size : Int), (c.dt : Int))

abbrev RdSt := Bool × Option (Except String (List (Int × Int × Int × Int × Int × Int × Int))) ×
  List (Int × Int × Int × Int × Int × Int × Int) × Int × Int

theorem rd_body (buf : Nat) (x y p : Int) (addr off len : Nat) (o : List (Int × Int × Int × Int × Int × Int × Int))
    (hl : 0 < len) :
    PyFun.SCPConnection_read_packets_loop1 (buf : Int) x y p (addr : Int) ((false, none, o, (off : Int), (len : Int)) : RdSt)
      = (false, none, o ++ [readCall x y p { addr := addr + off, size := min len buf,
                                             dt := dtype (addr + off) (min len buf), data := [] }],
         ((off + min len buf : Nat) : Int), ((len - min len buf : Nat) : Int)) := by
  unfold PyFun.SCPConnection_read_packets_loop1
  dsimp only
  rw [pairGet_dtype _ _ (by omega) (by omega)]
  simp only [readCall, cmdRead, Prod.mk.injEq, List.append_cancel_left_eq, List.cons.injEq, and_true, true_and]
  (repeat' apply And.intro) <;> first | rfl | omega | (congr 2 <;> omega)

theorem rd_cond (o : List (Int × Int × Int × Int × Int × Int × Int)) (off len : Nat) :
    PyFun.SCPConnection_read_packets_loop1_cond ((false, none, o, (off : Int), (len : Int)) : RdSt) = decide (0 < len) := by
  unfold PyFun.SCPConnection_read_packets_loop1_cond
  rw [Bool.eq_iff_iff]; simp only [Bool.not_false, Bool.true_and, decide_eq_true_eq]; omega

theorem rd_loop (buf : Nat) (hb : 1 ≤ buf) (x y p : Int) (addr : Nat) :
    ∀ (n off len : Nat) (o : List (Int × Int × Int × Int × Int × Int × Int)), len ≤ n → ∀ fuel mf, n ≤ fuel → n ≤ mf →
      ∃ off' len' : Nat,
        PyFun.pyWhile PyFun.SCPConnection_read_packets_loop1_cond
          (PyFun.SCPConnection_read_packets_loop1 (buf : Int) x y p (addr : Int)) fuel
          ((false, none, o, (off : Int), (len : Int)) : RdSt)
          = some (false, none, o ++ (readChunks buf mf (addr + off) len).map (readCall x y p),
                  (off' : Int), (len' : Int)) := by
  intro n
  induction n with
  | zero =>
    intro off len o hl fuel mf _ _
    have : len = 0 := by omega
    subst this
    refine ⟨off, 0, ?_⟩
    have hc : PyFun.SCPConnection_read_packets_loop1_cond ((false, none, o, (off : Int), ((0 : Nat) : Int)) : RdSt) = false := by
      rw [rd_cond]; simp
    have hm : readChunks buf mf (addr + off) 0 = [] := by cases mf <;> simp [readChunks]
    rw [hm]
    cases fuel <;> simp only [PyFun.pyWhile, hc, Bool.false_eq_true, if_false, List.map_nil, List.append_nil]
  | succ n ih =>
    intro off len o hl fuel mf hf hmf
    by_cases h0 : len = 0
    · subst h0
      refine ⟨off, 0, ?_⟩
      have hc : PyFun.SCPConnection_read_packets_loop1_cond ((false, none, o, (off : Int), ((0 : Nat) : Int)) : RdSt) = false := by
        rw [rd_cond]; simp
      have hm : readChunks buf mf (addr + off) 0 = [] := by cases mf <;> simp [readChunks]
      rw [hm]
      cases fuel <;> simp only [PyFun.pyWhile, hc, Bool.false_eq_true, if_false, List.map_nil, List.append_nil]
    · obtain ⟨fuel, rfl⟩ : ∃ k, fuel = k + 1 := ⟨fuel - 1, by omega⟩
      obtain ⟨mf, rfl⟩ : ∃ k, mf = k + 1 := ⟨mf - 1, by omega⟩
      have hc := rd_cond o off len
      rw [PyFun.pyWhile, hc, if_pos (by simp; omega), rd_body buf x y p addr off len o (by omega)]
      obtain ⟨off', len', e⟩ := ih (off + min len buf) (len - min len buf)
        (o ++ [readCall x y p { addr := addr + off, size := min len buf, dt := dtype (addr + off) (min len buf), data := [] }])
        (by omega) fuel mf (by omega) (by omega)
      refine ⟨off', len', ?_⟩
      rw [e, readChunks, if_pos (by omega)]
      simp only [List.map_cons, List.append_assoc, List.singleton_append, Nat.add_assoc]

/-- the generator `packets` of `SCPConnection.read` as written in the source yields the model's `read` chunks
(buffer size at least 1, fuel at least the number of bytes) -/
theorem gen_read_packets (buf addr len fuel : Nat) (x y p : Int) (hb : 1 ≤ buf) (hf : len ≤ fuel) :
    PyFun.SCPConnection_read_packets (len : Int) (buf : Int) x y p (addr : Int) fuel
      = .ok ((read buf addr len).map (readCall x y p)) := by
  unfold PyFun.SCPConnection_read_packets read
  obtain ⟨off', len', e⟩ := rd_loop buf hb x y p addr len 0 len [] (le_refl _) fuel len hf (le_refl _)
  simp only [Nat.cast_zero, Nat.add_zero, List.nil_append] at e
  dsimp only
  rw [e]

/-! ### `SCPConnection.write`: the generator `packets` -/

def writeCall (x y p : Int) (c : Chunk) : Int × Int × Int × Int × Int × Int × Int × List Int :=
  (x, y, p, ((cmdWrite : Nat) : Int), (c.addr : Int), (c.size : Int), (c.dt : Int), bytesInt c.data)

abbrev WrSt := Bool × Option (Except String (List (Int × Int × Int × Int × Int × Int × Int × List Int))) ×
  List (Int × Int × Int × Int × Int × Int × Int × List Int) × Int × Int

theorem wr_cond (d : List Nat) (o : List (Int × Int × Int × Int × Int × Int × Int × List Int)) (a pos : Nat) :
    PyFun.SCPConnection_write_packets_loop1_cond (d.length : Int) ((false, none, o, (a : Int), (pos : Int)) : WrSt)
      = decide (pos < d.length) := by
  unfold PyFun.SCPConnection_write_packets_loop1_cond
  rw [Bool.eq_iff_iff]; simp only [Bool.not_false, Bool.true_and, decide_eq_true_eq]; omega

theorem wr_body (buf : Nat) (x y p : Int) (d : List Nat) (a pos : Nat)
    (o : List (Int × Int × Int × Int × Int × Int × Int × List Int)) (hp : pos ≤ d.length) :
    PyFun.SCPConnection_write_packets_loop1 (bytesInt d) (buf : Int) x y p ((false, none, o, (a : Int), (pos : Int)) : WrSt)
      = (false, none, o ++ [writeCall x y p { addr := a, size := ((d.drop pos).take buf).length,
                                              dt := dtype a ((d.drop pos).take buf).length,
                                              data := (d.drop pos).take buf }],
         ((a + ((d.drop pos).take buf).length : Nat) : Int), ((pos + ((d.drop pos).take buf).length : Nat) : Int)) := by
  unfold PyFun.SCPConnection_write_packets_loop1
  dsimp only
  rw [pySlice_bytes d pos buf hp]
  generalize (d.drop pos).take buf = blk
  rw [length_bytesInt, pairGet_dtype _ _ (by omega) (by omega)]
  simp only [writeCall, cmdWrite, Prod.mk.injEq, List.append_cancel_left_eq, List.cons.injEq, and_true, true_and,
    Int.toNat_natCast]
  (repeat' apply And.intro) <;> first | rfl | omega

theorem wr_loop (buf : Nat) (hb : 1 ≤ buf) (x y p : Int) (d : List Nat) :
    ∀ (n pos a : Nat) (o : List (Int × Int × Int × Int × Int × Int × Int × List Int)),
      pos ≤ d.length → d.length - pos ≤ n → ∀ fuel mf, n ≤ fuel → n ≤ mf →
      ∃ a' pos' : Nat,
        PyFun.pyWhile (PyFun.SCPConnection_write_packets_loop1_cond (d.length : Int))
          (PyFun.SCPConnection_write_packets_loop1 (bytesInt d) (buf : Int) x y p) fuel
          ((false, none, o, (a : Int), (pos : Int)) : WrSt)
          = some (false, none, o ++ (writeChunks buf mf a (d.drop pos)).map (writeCall x y p),
                  (a' : Int), (pos' : Int)) := by
  intro n
  induction n with
  | zero =>
    intro pos a o hp hn fuel mf _ _
    have hpl : pos = d.length := by omega
    have hd : d.drop pos = [] := by rw [hpl]; exact List.drop_length
    refine ⟨a, pos, ?_⟩
    have hc : PyFun.SCPConnection_write_packets_loop1_cond (d.length : Int) ((false, none, o, (a : Int), (pos : Int)) : WrSt) = false := by
      rw [wr_cond]; simp; omega
    have hm : writeChunks buf mf a (d.drop pos) = [] := by rw [hd]; cases mf <;> simp [writeChunks]
    rw [hm]
    cases fuel <;> simp only [PyFun.pyWhile, hc, Bool.false_eq_true, if_false, List.map_nil, List.append_nil]
  | succ n ih =>
    intro pos a o hp hn fuel mf hf hmf
    by_cases hpl : pos = d.length
    · have hd : d.drop pos = [] := by rw [hpl]; exact List.drop_length
      refine ⟨a, pos, ?_⟩
      have hc : PyFun.SCPConnection_write_packets_loop1_cond (d.length : Int) ((false, none, o, (a : Int), (pos : Int)) : WrSt) = false := by
        rw [wr_cond]; simp; omega
      have hm : writeChunks buf mf a (d.drop pos) = [] := by rw [hd]; cases mf <;> simp [writeChunks]
      rw [hm]
      cases fuel <;> simp only [PyFun.pyWhile, hc, Bool.false_eq_true, if_false, List.map_nil, List.append_nil]
    · obtain ⟨fuel, rfl⟩ : ∃ k, fuel = k + 1 := ⟨fuel - 1, by omega⟩
      obtain ⟨mf, rfl⟩ : ∃ k, mf = k + 1 := ⟨mf - 1, by omega⟩
      have hrem : (d.drop pos).length = d.length - pos := List.length_drop
      have hbl : ((d.drop pos).take buf).length = min buf (d.length - pos) := by rw [List.length_take, hrem]
      have hc := wr_cond d o a pos
      rw [PyFun.pyWhile, hc, if_pos (by simp; omega), wr_body buf x y p d a pos o hp]
      obtain ⟨a', pos', e⟩ := ih (pos + ((d.drop pos).take buf).length) (a + ((d.drop pos).take buf).length)
        (o ++ [writeCall x y p { addr := a, size := ((d.drop pos).take buf).length,
                                 dt := dtype a ((d.drop pos).take buf).length, data := (d.drop pos).take buf }])
        (by rw [hbl]; omega) (by rw [hbl]; omega) fuel mf (by omega) (by omega)
      refine ⟨a', pos', ?_⟩
      rw [e, writeChunks, if_pos (by omega)]
      have hdd : (d.drop pos).drop buf = d.drop (pos + ((d.drop pos).take buf).length) := by
        rw [List.drop_drop, hbl]
        by_cases hle : buf ≤ d.length - pos
        · rw [Nat.min_eq_left hle]
        · rw [Nat.min_eq_right (by omega), List.drop_eq_nil_of_le (by omega), List.drop_eq_nil_of_le (by omega)]
      simp only [List.map_cons, List.append_assoc, List.singleton_append, hdd]

/-- the generator `packets` of `SCPConnection.write` as written in the source yields the model's `write` chunks -/
theorem gen_write_packets (buf addr fuel : Nat) (d : List Nat) (x y p : Int) (hb : 1 ≤ buf) (hf : d.length ≤ fuel) :
    PyFun.SCPConnection_write_packets (addr : Int) (bytesInt d) (buf : Int) x y p fuel
      = .ok ((write buf addr d).map (writeCall x y p)) := by
  unfold PyFun.SCPConnection_write_packets write
  obtain ⟨a', pos', e⟩ := wr_loop buf hb x y p d d.length 0 addr [] (by omega) (by omega) fuel d.length hf (le_refl _)
  simp only [Nat.cast_zero, List.drop_zero, List.nil_append] at e
  dsimp only
  rw [length_bytesInt, e]

/-! ### `MachineController.write_across_link` -/

/-- the arguments of the `_send_scp(x, y, 0, link_write, arg1=, arg2=, arg3=, data=, expected_args=0)` call of a chunk -/
def linkWriteCall (x y link : Int) (c : Chunk) : Int × Int × Int × Int × Int × Int × Int × List Int × Int :=
  (x, y, 0, ((cmdLinkWrite : Nat) : Int), (c.addr : Int), (c.size : Int), link, bytesInt c.data, 0)

/-- `scp_data_length & ~0b11` -/
theorem land_lnot3 (b : Nat) : Int.land (b : Int) (Int.lnot 3) = ((b / 4 * 4 : Nat) : Int) := by
  apply eq_of_testBit_eq
  intro i
  have e : b / 4 * 4 = (b >>> 2) <<< 2 := by rw [Nat.shiftRight_eq_div_pow, Nat.shiftLeft_eq]
  have h3 : (3 : Int) = ((3 : Nat) : Int) := rfl
  rw [Int.testBit_land, Int.testBit_lnot, h3, testBit_natCast, testBit_natCast, testBit_natCast, e,
    Nat.testBit_shiftLeft, Nat.testBit_shiftRight]
  have t3 : Nat.testBit 3 i = decide (i < 2) := by
    have : (3 : Nat) = 2 ^ 2 - 1 := rfl
    rw [this, Nat.testBit_two_pow_sub_one]
  rw [t3]
  by_cases hi : i < 2
  · simp [hi]
  · have : 2 + (i - 2) = i := by omega
    simp [hi, this]
    try omega

abbrev LwSt := List (Int × Int × Int × Int × Int × Int × Int × List Int × Int) × Int × Int × Int

theorem lw_cond (o : List (Int × Int × Int × Int × Int × Int × Int × List Int × Int)) (a cur len : Nat) :
    PyFun.MachineController_write_across_link_loop1_cond ((o, (a : Int), (cur : Int), (len : Int)) : LwSt)
      = decide (0 < len) := by
  unfold PyFun.MachineController_write_across_link_loop1_cond
  rw [Bool.eq_iff_iff]; simp only [decide_eq_true_eq]; omega

theorem lw_body (buf : Nat) (x y link : Int) (d : List Nat) (a cur : Nat)
    (o : List (Int × Int × Int × Int × Int × Int × Int × List Int × Int)) (hc : cur ≤ d.length) :
    PyFun.MachineController_write_across_link_loop1 (buf : Int) (bytesInt d) x y link
        ((o, (a : Int), (cur : Int), ((d.length - cur : Nat) : Int)) : LwSt)
      = (o ++ [linkWriteCall x y link { addr := a, size := min (d.length - cur) (buf / 4 * 4), dt := 2,
                                        data := (d.drop cur).take (min (d.length - cur) (buf / 4 * 4)) }],
         ((a + min (d.length - cur) (buf / 4 * 4) : Nat) : Int), ((cur + min (d.length - cur) (buf / 4 * 4) : Nat) : Int),
         ((d.length - (cur + min (d.length - cur) (buf / 4 * 4)) : Nat) : Int)) := by
  unfold PyFun.MachineController_write_across_link_loop1
  dsimp only
  have em : min (((d.length - cur : Nat)) : Int) (Int.land (buf : Int) (Int.lnot 3))
      = ((min (d.length - cur) (buf / 4 * 4) : Nat) : Int) := by rw [land_lnot3]; omega
  first
  | rw [em]
  | (have em' : min (Int.land (buf : Int) (Int.lnot 3)) (((d.length - cur : Nat)) : Int)
        = ((min (d.length - cur) (buf / 4 * 4) : Nat) : Int) := by rw [Int.min_comm]; exact em
     rw [em'])
  rw [pySlice_bytes d cur _ hc]
  simp only [linkWriteCall, cmdLinkWrite, Prod.mk.injEq, List.append_cancel_left_eq, List.cons.injEq, and_true,
    true_and]
  (repeat' apply And.intro) <;> first | rfl | omega

theorem lw_loop (buf : Nat) (hb : 4 ≤ buf) (x y link : Int) (d : List Nat) :
    ∀ (n cur a : Nat) (o : List (Int × Int × Int × Int × Int × Int × Int × List Int × Int)),
      cur ≤ d.length → d.length - cur ≤ n → ∀ fuel mf, n ≤ fuel → n ≤ mf →
      ∃ a' cur' len' : Nat,
        PyFun.pyWhile PyFun.MachineController_write_across_link_loop1_cond
          (PyFun.MachineController_write_across_link_loop1 (buf : Int) (bytesInt d) x y link) fuel
          ((o, (a : Int), (cur : Int), ((d.length - cur : Nat) : Int)) : LwSt)
          = some (o ++ (linkWriteChunks buf mf a (d.drop cur)).map (linkWriteCall x y link),
                  (a' : Int), (cur' : Int), (len' : Int)) := by
  intro n
  induction n with
  | zero =>
    intro cur a o hp hn fuel mf _ _
    have hpl : cur = d.length := by omega
    have hd : d.drop cur = [] := by rw [hpl]; exact List.drop_length
    refine ⟨a, cur, d.length - cur, ?_⟩
    have hc : PyFun.MachineController_write_across_link_loop1_cond
        ((o, (a : Int), (cur : Int), ((d.length - cur : Nat) : Int)) : LwSt) = false := by
      rw [lw_cond]; simp; omega
    have hm : linkWriteChunks buf mf a (d.drop cur) = [] := by rw [hd]; cases mf <;> simp [linkWriteChunks]
    rw [hm]
    cases fuel <;> simp only [PyFun.pyWhile, hc, Bool.false_eq_true, if_false, List.map_nil, List.append_nil]
  | succ n ih =>
    intro cur a o hp hn fuel mf hf hmf
    by_cases hpl : cur = d.length
    · have hd : d.drop cur = [] := by rw [hpl]; exact List.drop_length
      refine ⟨a, cur, d.length - cur, ?_⟩
      have hc : PyFun.MachineController_write_across_link_loop1_cond
          ((o, (a : Int), (cur : Int), ((d.length - cur : Nat) : Int)) : LwSt) = false := by
        rw [lw_cond]; simp; omega
      have hm : linkWriteChunks buf mf a (d.drop cur) = [] := by rw [hd]; cases mf <;> simp [linkWriteChunks]
      rw [hm]
      cases fuel <;> simp only [PyFun.pyWhile, hc, Bool.false_eq_true, if_false, List.map_nil, List.append_nil]
    · obtain ⟨fuel, rfl⟩ : ∃ k, fuel = k + 1 := ⟨fuel - 1, by omega⟩
      obtain ⟨mf, rfl⟩ : ∃ k, mf = k + 1 := ⟨mf - 1, by omega⟩
      have hrem : (d.drop cur).length = d.length - cur := List.length_drop
      have hc := lw_cond o a cur (d.length - cur)
      rw [PyFun.pyWhile, hc, if_pos (by simp; omega), lw_body buf x y link d a cur o hp]
      obtain ⟨a', cur', len', e⟩ := ih (cur + min (d.length - cur) (buf / 4 * 4)) (a + min (d.length - cur) (buf / 4 * 4))
        (o ++ [linkWriteCall x y link { addr := a, size := min (d.length - cur) (buf / 4 * 4), dt := 2,
                                        data := (d.drop cur).take (min (d.length - cur) (buf / 4 * 4)) }])
        (by omega) (by omega) fuel mf (by omega) (by omega)
      refine ⟨a', cur', len', ?_⟩
      rw [e, linkWriteChunks, if_pos (by omega), hrem]
      simp only [List.map_cons, List.append_assoc, List.singleton_append, List.drop_drop, Nat.add_comm]

/-- the model's outcome as the Python outcome -/
def linkExc {α : Type} : Except LinkErr α → Except String α
  | .ok v => .ok v
  | .error .valueError => .error "ValueError"

/-- `write_across_link` as written in the source: its `_send_scp` calls are the model's `linkWrite` chunks and its
`ValueError`s the model's (buffer of at least one word: the loop does not advance otherwise; fuel at least the
number of bytes) -/
theorem gen_write_across_link (buf addr fuel : Nat) (d : List Nat) (x y link : Int) (hb : 4 ≤ buf)
    (hf : d.length ≤ fuel) :
    PyFun.MachineController_write_across_link (buf : Int) (addr : Int) (bytesInt d) x y link fuel
      = linkExc ((linkWrite buf addr d).map (fun l => l.map (linkWriteCall x y link))) := by
  unfold PyFun.MachineController_write_across_link linkWrite
  rw [length_bytesInt]
  simp only [Int.fmod_eq_emod_of_nonneg _ (by decide : (0 : Int) ≤ 4)]
  by_cases h1 : addr % 4 ≠ 0
  · have : (addr : Int) % 4 ≠ 0 := by omega
    simp only [this, h1, if_true, ne_eq, not_false_eq_true]; rfl
  by_cases h2 : d.length % 4 ≠ 0
  · have h1' : ¬ ((addr : Int) % 4 ≠ 0) := by omega
    have : (d.length : Int) % 4 ≠ 0 := by omega
    simp only [h1', this, h1, h2, if_true, if_false, ne_eq, not_false_eq_true]; rfl
  have h1' : ¬ ((addr : Int) % 4 ≠ 0) := by omega
  have h2' : ¬ ((d.length : Int) % 4 ≠ 0) := by omega
  simp only [h1', h2', h1, h2, if_false]
  obtain ⟨a', cur', len', e⟩ := lw_loop buf hb x y link d d.length 0 addr [] (by omega) (by omega) fuel d.length hf (le_refl _)
  simp only [Nat.cast_zero, List.drop_zero, List.nil_append, Nat.sub_zero] at e
  rw [e]
  rfl

/-! ### `MachineController.fill` -/

/-- what `fill` does, as events, for each plan of the model: one fill command; one `self.write` of `size` copies of
the byte (the chunking of that write is `write`, see above); `struct.error` for a byte value that does not fit -/
def fillPy (addr data size : Nat) (x y p : Int) : FillPlan → Except String (List PyFun.PyEvent)
  | .fillCmd a w s => .ok [⟨"_send_scp", [x, y, p, ((cmdFill : Nat) : Int), (a : Int), (w : Int), (s : Int)], []⟩]
  | .writes _ => .ok [⟨"write", [(addr : Int), x, y, p], bytesInt (List.replicate size data)⟩]
  | .structError => .error "struct.error"

theorem flatten_replicate_singleton (n : Nat) (v : Int) : (List.replicate n [v]).flatten = List.replicate n v := by
  induction n with
  | zero => rfl
  | succ n ih => simp [List.replicate_succ, ih]

/-- `fill` as written in the source: which of the two methods is used, the byte-range check of `struct.pack('<B', ..)`
and the arguments of the call made are the model's `fill` -/
theorem gen_fill (buf addr data size : Nat) (x y p : Int) :
    PyFun.MachineController_fill (addr : Int) (data : Int) (size : Int) x y p
      = fillPy addr data size x y p (fill buf addr data size) := by
  unfold PyFun.MachineController_fill fill
  simp only [Int.fmod_eq_emod_of_nonneg _ (by decide : (0 : Int) ≤ 4)]
  have c1 : ((size : Int) % 4 ≠ 0 ∨ (addr : Int) % 4 ≠ 0) ↔ (size % 4 ≠ 0 ∨ addr % 4 ≠ 0) := by omega
  have c2 : ((addr : Int) % 4 ≠ 0 ∨ (size : Int) % 4 ≠ 0) ↔ (size % 4 ≠ 0 ∨ addr % 4 ≠ 0) := by omega
  simp only [c1, c2]
  by_cases hc : size % 4 ≠ 0 ∨ addr % 4 ≠ 0
  · simp only [hc, if_true]
    rw [PyFun.pyStructPack]
    swap
    · intro hx; cases hx
    by_cases hd : data < 256
    · have : (0 : Int) ≤ (data : Int) ∧ ((data : Int)).toNat < 256 ^ PyFun.PyFmt.B.size := by
        simp only [PyFun.PyFmt.size]; omega
      have e : PyFun.pyLeBytes PyFun.PyFmt.B.size (data : Int) = [(data : Int)] := by
        simp only [PyFun.PyFmt.size, PyFun.pyLeBytes, List.cons.injEq, and_true]; omega
      simp only [this, hd, if_true, and_self, PyFun.pyStructPack, Except.map, e, Bool.false_eq_true, if_false,
        List.append_nil, fillPy, Int.toNat_natCast, flatten_replicate_singleton, List.nil_append]
      have h256 : data < 256 ^ PyFun.PyFmt.B.size := by simp only [PyFun.PyFmt.size]; omega
      simp [bytesInt, h256, flatten_replicate_singleton]
    · have : ¬ ((0 : Int) ≤ (data : Int) ∧ ((data : Int)).toNat < 256 ^ PyFun.PyFmt.B.size) := by
        simp only [PyFun.PyFmt.size]; omega
      simp only [this, hd, if_false, fillPy]
  · simp only [hc, if_false, fillPy, cmdFill, List.nil_append]
    rfl

/-- the hypotheses are satisfiable: a 5-byte write through a 4-byte buffer is two chunks -/
example : (write 4 2 [1, 2, 3, 4, 5]).length = 2 ∧ (read 4 2 5).length = 2 := by decide

end Rig.C07
