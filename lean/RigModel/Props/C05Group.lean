/-
C05 - translator tie, the grouping loop: `chip_contents[xy].append(vertex)` over `placements` on a
`defaultdict(list)`, as generated from greedy.py (`PyFun.allocate_loop2`), is the model's `chipContents`
(`chipOrder` / `chipVertices`).
-/
import RigModel.Props.C05GenDefs
set_option linter.unusedSimpArgs false
set_option linter.unusedVariables false

namespace Rig.C05
open Rig.Gen Rig.PyDict
open Rig.Gen.PyFun (pyDictGet pyDictGetD pyDictSet pyDictMod)

/-- the keys of `d[k] = v`: unchanged when `k` is a key already, else `k` goes to the end -/
theorem keys_pyDictSet {κ α : Type} [BEq κ] [LawfulBEq κ] [DecidableEq κ] (d : List (κ × α)) (k : κ) (v : α) :
    (pyDictSet d k v).map (·.1) = if k ∈ d.map (·.1) then d.map (·.1) else d.map (·.1) ++ [k] := by
  induction d with
  | nil => simp [pyDictSet]
  | cons a t ih =>
    obtain ⟨a1, a2⟩ := a
    simp only [pyDictSet]
    by_cases h1 : (a1 == k) = true
    · have e1 : a1 = k := eq_of_beq h1
      subst e1
      simp
    · have hne : ¬ a1 = k := fun e => h1 (by simp [e])
      have hne' : ¬ k = a1 := fun e => hne e.symm
      simp only [h1, Bool.false_eq_true, if_false, List.map_cons, ih, List.mem_cons, hne', false_or]
      by_cases h2 : k ∈ t.map (·.1)
      · simp only [h2, if_true]
      · simp only [h2, if_false, List.cons_append]

theorem keys_pyDictMod {κ α : Type} [BEq κ] [LawfulBEq κ] [DecidableEq κ] (d : List (κ × α)) (k : κ) (dflt : α)
    (f : α → α) :
    (pyDictMod d k dflt f).map (·.1) = if k ∈ d.map (·.1) then d.map (·.1) else d.map (·.1) ++ [k] := by
  simp only [pyDictMod, keys_pyDictSet]

/-- `dedup` keeps first occurrences, so a new last element is appended iff it is new -/
theorem dedup_snoc (l : List Chip) (x : Chip) :
    dedup (l ++ [x]) = if x ∈ l then dedup l else dedup l ++ [x] := by
  induction l with
  | nil => simp [dedup]
  | cons a l ih =>
    simp only [List.cons_append, dedup, ih, List.mem_cons]
    by_cases h1 : x ∈ l
    · simp [h1]
    · by_cases h2 : x = a
      · subst h2
        simp [h1, List.filter_append]
      · simp [h1, h2, List.filter_append]

/-- the values of the grouping: every chip gets its vertices in placement order -/
theorem getD_group (ps : List (Nat × Chip)) :
    ∀ (cc : List (Chip × List Nat)) (xy : Chip),
      pyDictGetD (List.foldl PyFun.allocate_loop2 cc ps) xy [] =
        pyDictGetD cc xy [] ++ (ps.filter (·.2 == xy)).map (·.1) := by
  induction ps with
  | nil => intro cc xy; simp
  | cons p ps ih =>
    intro cc xy
    obtain ⟨v, c⟩ := p
    simp only [List.foldl_cons, ih, PyFun.allocate_loop2, getD_pyDictMod]
    by_cases h : xy = c
    · subst h
      simp [List.filter_cons]
    · have h' : ¬ c = xy := fun e => h e.symm
      simp [List.filter_cons, h, h']

/-- the keys of the grouping: the chips in first-occurrence order -/
theorem keys_group (ps : List (Nat × Chip)) :
    (List.foldl PyFun.allocate_loop2 [] ps).map (·.1) = dedup (ps.map (·.2)) := by
  have key : ∀ qs : List (Nat × Chip),
      (List.foldl PyFun.allocate_loop2 [] qs.reverse).map (·.1) = dedup (qs.reverse.map (·.2)) := by
    intro qs
    induction qs with
    | nil => simp [dedup]
    | cons p qs ih =>
      obtain ⟨v, c⟩ := p
      simp only [List.reverse_cons, List.foldl_append, List.foldl_cons, List.foldl_nil, List.map_append,
        List.map_cons, List.map_nil, dedup_snoc, PyFun.allocate_loop2, keys_pyDictMod, ih, mem_dedup]
  have := key ps.reverse
  rwa [List.reverse_reverse] at this

/-- an association list with distinct keys is determined by its keys and its lookups -/
theorem eq_map_keys_of_nodup {κ α : Type} [BEq κ] [LawfulBEq κ] (dflt : α) (l : List (κ × α))
    (h : (l.map (·.1)).Nodup) :
    l = (l.map (·.1)).map (fun k => (k, (l.lookup k).getD dflt)) := by
  induction l with
  | nil => rfl
  | cons a t ih =>
    obtain ⟨a1, a2⟩ := a
    simp only [List.map_cons, List.nodup_cons] at h
    obtain ⟨hn, ht⟩ := h
    simp only [List.map_cons, List.lookup, beq_self_eq_true, Option.getD_some]
    congr 1
    conv => lhs; rw [ih ht]
    apply List.map_congr_left
    intro k hk
    have hne : (k == a1) = false := by
      apply beq_false_of_ne
      intro e; subst e; exact hn hk
    simp only [List.lookup, hne]

/-- the grouping of `placements` by chip (`chip_contents[xy].append(vertex)` on a defaultdict(list)), as generated
from greedy.py, is the model's `chipOrder` / `chipVertices` -/
theorem gen_group (inp : Input) :
    List.foldl PyFun.allocate_loop2 [] inp.placements = chipContents inp := by
  have hk := keys_group inp.placements
  have hn : ((List.foldl PyFun.allocate_loop2 [] inp.placements).map (·.1)).Nodup := by
    rw [hk]; exact nodup_dedup _
  rw [eq_map_keys_of_nodup ([] : List Nat) _ hn, hk]
  simp only [chipContents, chipOrder]
  apply List.map_congr_left
  intro xy _
  have hv := getD_group inp.placements [] xy
  simp only [pyDictGetD, List.lookup, Option.getD_none, List.nil_append] at hv
  simp only [hv, chipVertices]

end Rig.C05
