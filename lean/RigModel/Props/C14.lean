/-
C14 - probed system description and derived machine model match the machine.
Property theorems; long proofs live in RigModel/Lemmas/C14.lean.
-/
import RigModel.Lemmas.C14p
set_option linter.unusedSimpArgs false
set_option linter.unusedVariables false

namespace Rig.C14
open Rig.Gen.C14

/-- the generated enumerations are the documented ones: every 3-bit P2P code is an entry, `none`
is 6, links are 0..5, idle is 15 and is a state, the P2P table sits 0x10000 above the router base -/
theorem consts_documented :
    P2P_VALUES = [0, 1, 2, 3, 4, 5, 6, 7] ∧ P2P_NONE = 6 ∧ LINK_VALUES = [0, 1, 2, 3, 4, 5] ∧
    APPSTATE_IDLE = 15 ∧ validState APPSTATE_IDLE = true ∧ SPINNAKER_RTR_P2P = 0xE1010000 ∧
    CMD_INFO = 31 ∧ VCPU_SIZE = 128 := by
  decide

/-- **Chip information.** Decoding the `info` reply the machine specification builds for a chip
returns exactly the chip's core count, the states of its first `cores` core slots, its working
links, the three largest-free figures, the Ethernet flag, IP address and nearest Ethernet chip -
for every value of every field over its full width. -/
theorem chipinfo_roundtrip (c : ChipState) (h : c.WF) : decodeInfo (infoReply c) = .ok (chipView c) :=
  chipinfo_roundtrip_lem c h

/-- non-vacuity: a chip with every field at its maximum is well formed -/
example : ({ cores := 18, states := List.replicate 18 15, links := [0, 1, 2, 3, 4, 5], sdram := 4294967295,
             sram := 4294967295, rtr := 2047, ethUp := true, ip0 := 255, ip1 := 255, ip2 := 255, ip3 := 255,
             ethX := 255, ethY := 255 } : ChipState).WF := by
  refine ⟨by decide, by decide, ?_, by decide, by decide, by decide, by decide, by decide, by decide, by decide,
    by decide, by decide⟩
  intro s hs
  simp only [List.mem_replicate] at hs
  rw [hs.2]; decide

/-- **P2P table.** For every table `f` of 3-bit entries and all dimensions up to 255 x 255, reading
the table memory laid out by the machine specification (column `x` in the 32 words from
`SPINNAKER_RTR_P2P + 128 x`, row `y` in word `y / 8` at bits `3 (y mod 8)`) yields exactly the entry
`f x y` for every `x < w`, `y < h`, column by column, and nothing else.  Only reads inside the table
region (`P2P_REGION` = 256 columns x 128 bytes from `SPINNAKER_RTR_P2P`) are constrained. -/
theorem p2p_roundtrip (f : Nat → Nat → Nat) (hf : ∀ x y, f x y < 8) (rd : Rd) (w h : Nat)
    (hw : w ≤ 255) (hh : h ≤ 255)
    (hrd : ∀ a n, SPINNAKER_RTR_P2P ≤ a → a + n ≤ SPINNAKER_RTR_P2P + P2P_REGION →
      rd a n = readMem (p2pMem f) a n) :
    p2pTableOfDims rd (w * 256 + h) = .ok (p2pSpecTable f (List.range w) h) :=
  p2p_roundtrip_dims_lem f hf rd w h hw hh hrd

/-- membership form: the table lists `(x, y) ↦ r` iff the chip is inside the dimensions and `r` is
its entry -/
theorem p2p_table_mem (f : Nat → Nat → Nat) (w h x y r : Nat) :
    ((x, y), r) ∈ p2pSpecTable f (List.range w) h ↔ x < w ∧ y < h ∧ r = f x y := by
  simp only [p2pSpecTable, List.mem_flatMap, List.mem_map, List.mem_range, Prod.mk.injEq]
  constructor
  · rintro ⟨c, hc, r', hr', ⟨rfl, rfl⟩, rfl⟩
    exact ⟨hc, hr', rfl⟩
  · rintro ⟨hx, hy, rfl⟩
    exact ⟨x, hx, y, hy, ⟨rfl, rfl⟩, rfl⟩

/-- the dimension register is read as a little-endian half word -/
theorem p2p_dims_read (rd : Rd) (w h : Nat) (hw : w ≤ 255) (hh : h ≤ 255)
    (hd : rd (SV_BASE + SV_P2P_DIMS_OFF) SV_P2P_DIMS_SIZE = le16 (w * 256 + h)) :
    readInt rd (SV_BASE + SV_P2P_DIMS_OFF) SV_P2P_DIMS_SIZE = .ok (w * 256 + h) := by
  have e : leVal (le16 (w * 256 + h)) = w * 256 + h := by
    simp only [le16, leVal]; omega
  simp only [readInt, hd, e]
  rfl


/-- **System description (exact).** With a P2P table `table` and chips answering `info` with the
reply of their state (`answering xy = none`: no answer or an error reply), discovery returns
exactly - in table order - the chips whose entry is not `none` and that answer, each with the view
of its own state; width and height are one more than the largest listed coordinates. -/
theorem sysinfo_exact (answering : Nat × Nat → Option ChipState)
    (hwf : ∀ xy st, answering xy = some st → st.WF) (table : List ((Nat × Nat) × Nat))
    (hlive : liveEntries table ≠ []) :
    systemInfo table (fun xy => (answering xy).map infoReply) =
      .ok { width := maxList ((liveEntries table).map (·.1.1)) + 1,
            height := maxList ((liveEntries table).map (·.1.2)) + 1,
            chips := describedChips answering table } :=
  systemInfo_spec answering hwf table hlive

/-- the description contains `(xy, ci)` iff `xy` is listed with an entry other than `none`, the chip
answers, and `ci` is the view of its state -/
theorem sysinfo_mem (answering : Nat × Nat → Option ChipState) (table : List ((Nat × Nat) × Nat))
    (xy : Nat × Nat) (ci : ChipInfo) :
    (xy, ci) ∈ describedChips answering table ↔
      ∃ r st, (xy, r) ∈ table ∧ r ≠ P2P_NONE ∧ answering xy = some st ∧ ci = chipView st :=
  mem_describedChips answering table xy ci

/-- every listed chip lies inside the reported extent and both bounds are attained -/
theorem sysinfo_extent (table : List ((Nat × Nat) × Nat)) (hlive : liveEntries table ≠ []) :
    (∀ xy r, (xy, r) ∈ table → r ≠ P2P_NONE →
      xy.1 < maxList ((liveEntries table).map (·.1.1)) + 1 ∧ xy.2 < maxList ((liveEntries table).map (·.1.2)) + 1) ∧
    (∃ e ∈ liveEntries table, e.1.1 + 1 = maxList ((liveEntries table).map (·.1.1)) + 1) ∧
    (∃ e ∈ liveEntries table, e.1.2 + 1 = maxList ((liveEntries table).map (·.1.2)) + 1) :=
  extent_spec table hlive

/-- no listed chip: the code raises (max of an empty sequence) - the documented domain limit -/
theorem sysinfo_empty (table : List ((Nat × Nat) × Nat)) (probe : Nat × Nat → Option InfoReply)
    (h : liveEntries table = []) : systemInfo table probe = .error "ValueError" := by
  unfold liveEntries at h
  simp [systemInfo, h]

/-- **Dead chips** are exactly the coordinates inside the extent that have no record. -/
theorem dead_chips_complement (si : SysInfo) (x y : Nat) :
    (x, y) ∈ si.deadChips ↔ x < si.width ∧ y < si.height ∧ ¬ ∃ ci, ((x, y), ci) ∈ si.chips :=
  mem_deadChips si x y

/-- **Dead links** are exactly the links 0..5 of described chips that are not reported working. -/
theorem dead_links_complement (si : SysInfo) (x y l : Nat) :
    (x, y, l) ∈ si.deadLinks ↔ ∃ ci, ((x, y), ci) ∈ si.chips ∧ l < 6 ∧ l ∉ ci.links :=
  mem_deadLinks si x y l

/-- **Machine model (exact).** For a description with distinct keys inside its extent, the machine
built from it has (1) exactly the described chips, (2) on them exactly the working links, and
(3) for every described chip exactly the probed core count and largest free SDRAM / SRAM block
(defaults are the maxima, every chip that differs is an exception). -/
theorem build_machine_exact (si : SysInfo) (hwf : si.WF) :
    (buildMachine si).width = si.width ∧ (buildMachine si).height = si.height ∧
    (∀ x y, (buildMachine si).chipOk (x, y) = true ↔ ∃ ci, ((x, y), ci) ∈ si.chips) ∧
    (∀ x y l, l < 6 → ((buildMachine si).linkOk x y l = true ↔ ∃ ci, ((x, y), ci) ∈ si.chips ∧ l ∈ ci.links)) ∧
    (∀ xy ci, (xy, ci) ∈ si.chips → (buildMachine si).resources xy = (ci.numCores, ci.sdram, ci.sram)) :=
  ⟨rfl, rfl, buildMachine_chip si hwf, buildMachine_link si hwf, buildMachine_resources si hwf⟩

/-- the defaults are the maxima over the described chips (as the code does) -/
theorem build_machine_defaults (si : SysInfo) :
    (buildMachine si).cores = maxList (si.chips.map (·.2.numCores)) ∧
    (buildMachine si).sdram = maxList (si.chips.map (·.2.sdram)) ∧
    (buildMachine si).sram = maxList (si.chips.map (·.2.sram)) := ⟨rfl, rfl, rfl⟩

/-- **Reservations partition.** For a description with distinct keys and at most 18 core slots per
chip: on every described chip, every core that is not idle lies in exactly one of the generated
reservations that apply to the chip (global ones and its own), and every other core number in
none - so reservations applying to a chip never overlap and their union is exactly the busy cores. -/
theorem reservations_partition (si : SysInfo) (hnd : (si.chips.map (·.1)).Nodup)
    (h18 : ∀ xy ci, (xy, ci) ∈ si.chips → ci.coreStates.length ≤ 18)
    (xy : Nat × Nat) (ci : ChipInfo) (h : (xy, ci) ∈ si.chips) (p : Nat) :
    coverCount (coreConstraints si) xy p = if busy ci p = true then 1 else 0 :=
  reservations_partition_lem si hnd h18 xy ci h p

/-- a global reservation covers only cores that are busy on every chip -/
theorem global_reservation_shared (si : SysInfo) (hnd : (si.chips.map (·.1)).Nodup)
    (h18 : ∀ xy ci, (xy, ci) ∈ si.chips → ci.coreStates.length ≤ 18)
    (r : Reservation) (hr : r ∈ coreConstraints si) (hg : r.chip = none) (p : Nat)
    (hp : r.start ≤ p ∧ p < r.stop) (xy : Nat × Nat) (ci : ChipInfo) (h : (xy, ci) ∈ si.chips) :
    busy ci p = true := by
  have hc := reservations_partition si hnd h18 xy ci h p
  have hm : r ∈ (coreConstraints si).filter fun r => r.appliesTo xy && r.start ≤ p && p < r.stop := by
    rw [List.mem_filter]
    refine ⟨hr, ?_⟩
    simp [Reservation.appliesTo, hg, hp.1, hp.2]
  have hpos := List.length_pos_of_mem hm
  unfold coverCount at hc
  cases hb : busy ci p
  · rw [hb] at hc; simp only [Bool.false_eq_true, if_false] at hc; omega
  · rfl

/-- **Console buffer.** If the machine holds the chain `blocks` (each block: header next / time / ms /
length, then the buffer; the last `next` is 0), walking it from its head returns the concatenation of
the first `length` bytes of every block's buffer, in chain order (the whole buffer when `length`
exceeds it). -/
theorem iobuf_chain (rd : Rd) (size : Nat) (blocks : List IoBlock) (fuel : Nat) (acc : List Nat)
    (hc : ChainIn rd size blocks) (hf : blocks.length < fuel) :
    iobufLoop rd size fuel (chainNext blocks) acc = .ok (acc ++ chainText blocks) :=
  iobufLoop_spec rd size blocks fuel acc hc hf

/-- `get_iobuf_bytes` end to end: block size from `sv.iobuf_size`, head from the core's vcpu block
(`sv.vcpu_base + 128 p + 0x58`) -/
theorem iobuf_bytes_exact (rd : Rd) (size vbase p fuel : Nat) (blocks : List IoBlock)
    (hs : size < 4294967296) (hvb : vbase < 4294967296)
    (h1 : rd (SV_BASE + SV_IOBUF_SIZE_OFF) SV_IOBUF_SIZE_SIZE = le32 size)
    (h2 : rd (SV_BASE + SV_VCPU_BASE_OFF) SV_VCPU_BASE_SIZE = le32 vbase)
    (h3 : rd (vbase + VCPU_SIZE * p + 88) 4 = le32 (chainNext blocks))
    (hn : chainNext blocks < 4294967296)
    (hc : ChainIn rd size blocks) (hf : blocks.length < fuel) :
    iobufBytes rd p fuel = .ok (chainText blocks) :=
  iobufBytes_spec rd size vbase p fuel blocks hs hvb h1 h2 h3 hn hc hf

/-- non-vacuity: a two-block chain laid out in a memory satisfies `ChainIn` -/
example : ∃ rd : Rd, ChainIn rd 4 [⟨100, 1, 2, 3, [65, 66, 67, 68]⟩, ⟨200, 0, 0, 9, [69, 70, 71, 72]⟩] ∧
    chainText [⟨100, 1, 2, 3, [65, 66, 67, 68]⟩, ⟨200, 0, 0, 9, [69, 70, 71, 72]⟩] = [65, 66, 67, 69, 70, 71, 72] := by
  refine ⟨fun a _ => if a = 100 then blockBytes ⟨100, 1, 2, 3, [65, 66, 67, 68]⟩ 200
                    else blockBytes ⟨200, 0, 0, 9, [69, 70, 71, 72]⟩ 0, ?_, by decide⟩
  simp [ChainIn, chainNext]

/-- **Status block (full).** Decoding the 128-byte vcpu block that the machine specification lays out
for a status record `s` (registers r0-r7, psr, sp, lr, rt_code, phys_cpu, cpu_state, app_id, the mailbox
fields, sw_count / sw_file / sw_line, time, the NUL-padded 16-byte name, iobuf, sw_ver = patch | minor << 8
| major << 16 | swTop << 24, 16 padding bytes, user0-3) returns exactly `s`: every field under its
`ProcessorStatus` name (iobuf -> iobuf_address, psr -> program_state_register, ...), registers and user
variables collected in order, the name stripped of NULs, cpu_state / rt_code accepted as enumeration
members, the version split into (major, minor, patch); the top byte of sw_ver and the padding are ignored.
For all field values over their full widths. -/
theorem status_block (s : Status) (swTop : Nat) (name16 pad : List Nat) (hwf : s.WF)
    (hn : name16.length = 16) (hp : pad.length = 16) (hname : strip0 name16 = s.appName)
    (hascii : ∀ b ∈ s.appName, b < 128) :
    decodeStatus (statusBytes s swTop name16 pad) = .ok s :=
  status_block_lem s swTop name16 pad hwf hn hp hname hascii

/-- `get_processor_status` end to end: the block is read from `sv.vcpu_base + 128 p` -/
theorem processor_status_exact (rd : Rd) (vbase p : Nat) (s : Status) (swTop : Nat) (name16 pad : List Nat)
    (hvb : vbase < 4294967296)
    (h1 : rd (SV_BASE + SV_VCPU_BASE_OFF) SV_VCPU_BASE_SIZE = le32 vbase)
    (h2 : rd (vbase + VCPU_SIZE * p) VCPU_SIZE = statusBytes s swTop name16 pad)
    (hwf : s.WF) (hn : name16.length = 16) (hp : pad.length = 16) (hname : strip0 name16 = s.appName)
    (hascii : ∀ b ∈ s.appName, b < 128) :
    processorStatus rd p = .ok s :=
  processorStatus_spec rd vbase p s swTop name16 pad hvb h1 h2 hwf hn hp hname hascii

/-- non-vacuity: a status record with every numeric field at its maximum and the name "ab" -/
def exStatus : Status :=
  { registers := List.replicate 8 4294967295, psr := 4294967295, sp := 4294967295, lr := 4294967295, rtCode := 20,
    physCpu := 255, cpuState := 7, mboxApMsg := 4294967295, mboxMpMsg := 4294967295, mboxApCmd := 255,
    mboxMpCmd := 255, swCount := 65535, swFile := 4294967295, swLine := 4294967295, time := 4294967295,
    appName := [97, 98], iobuf := 4294967295, appId := 255, version := (255, 255, 255),
    userVars := List.replicate 4 4294967295 }

example : exStatus.WF ∧ strip0 (97 :: 98 :: List.replicate 14 0) = exStatus.appName ∧
    (∀ b ∈ exStatus.appName, b < 128) ∧
    (statusBytes exStatus 255 (97 :: 98 :: List.replicate 14 0) (List.replicate 16 255)).length = 128 := by
  refine ⟨?_, by decide, by decide, by rfl⟩
  unfold Status.WF
  refine ⟨by decide, by decide, by decide, by decide, by decide, by decide, by decide, by decide, by decide,
    by decide, by decide, by decide, by decide, by decide, by decide, by decide, by decide, by decide, by decide⟩

/-- **Status block, layout half.** Unpacking the 128-byte vcpu block that the machine specification
lays out yields, for every field of the (regenerated) vcpu struct table, the little-endian value of
exactly that field's bytes. -/
theorem status_fields_partial (r0 r1 r2 r3 r4 r5 r6 r7 u0 u1 u2 u3 : Nat) (s : Status) (swTop : Nat)
    (name16 pad : List Nat) (hn : name16.length = 16) (hp : pad.length = 16)
    (hr : s.registers = [r0, r1, r2, r3, r4, r5, r6, r7]) (hu : s.userVars = [u0, u1, u2, u3]) :
    unpackFields (statusBytes s swTop name16 pad) VCPU_FIELDS = .ok
      [("r0", .int (leVal (le32 r0))), ("r1", .int (leVal (le32 r1))), ("r2", .int (leVal (le32 r2))),
       ("r3", .int (leVal (le32 r3))), ("r4", .int (leVal (le32 r4))), ("r5", .int (leVal (le32 r5))),
       ("r6", .int (leVal (le32 r6))), ("r7", .int (leVal (le32 r7))), ("psr", .int (leVal (le32 s.psr))),
       ("sp", .int (leVal (le32 s.sp))), ("lr", .int (leVal (le32 s.lr))), ("rt_code", .int (leVal [s.rtCode])),
       ("phys_cpu", .int (leVal [s.physCpu])), ("cpu_state", .int (leVal [s.cpuState])),
       ("app_id", .int (leVal [s.appId])), ("mbox_ap_msg", .int (leVal (le32 s.mboxApMsg))),
       ("mbox_mp_msg", .int (leVal (le32 s.mboxMpMsg))), ("mbox_ap_cmd", .int (leVal [s.mboxApCmd])),
       ("mbox_mp_cmd", .int (leVal [s.mboxMpCmd])), ("sw_count", .int (leVal (le16 s.swCount))),
       ("sw_file", .int (leVal (le32 s.swFile))), ("sw_line", .int (leVal (le32 s.swLine))),
       ("time", .int (leVal (le32 s.time))), ("app_name", .str name16), ("iobuf", .int (leVal (le32 s.iobuf))),
       ("sw_ver", .int (leVal [s.version.2.2, s.version.2.1, s.version.1, swTop])),
       ("__PAD", .int (leVal (pad.take 4))), ("user0", .int (leVal (le32 u0))), ("user1", .int (leVal (le32 u1))),
       ("user2", .int (leVal (le32 u2))), ("user3", .int (leVal (le32 u3)))] :=
  unpackFields_statusBytes r0 r1 r2 r3 r4 r5 r6 r7 u0 u1 u2 u3 s swTop name16 pad hn hp hr hu

/-- little-endian words and half words read back as their value -/
theorem le_values (n : Nat) : (n < 4294967296 → leVal (le32 n) = n) ∧ (n < 65536 → leVal (le16 n) = n) ∧ leVal [n] = n :=
  ⟨leVal_le32 n, leVal_le16 n, leVal_one n⟩

/-- **Router counters.** Sixteen little-endian words are read back as their values. -/
theorem router_counters (ws : List Nat) (h16 : ws.length = 16) (hb : ∀ w ∈ ws, w < 4294967296) (rd : Rd)
    (hrd : rd ROUTER_DIAG_ADDR ROUTER_DIAG_LEN = ws.flatMap le32) : routerDiagnostics rd = .ok ws := by
  have hw : ∀ (n : Nat) (l : List Nat), l.length = n → (∀ w ∈ l, w < 4294967296) → words n (l.flatMap le32) = .ok l := by
    intro n
    induction n with
    | zero => intro l hl _; cases l with | nil => rfl | cons _ _ => simp at hl
    | succ k ih =>
      intro l hl hb'
      cases l with
      | nil => simp at hl
      | cons a t =>
        have ha := hb' a (by simp)
        have e1 : List.take 4 (le32 a ++ List.flatMap le32 t) = le32 a := by simp [le32]
        have e2 : List.drop 4 (le32 a ++ List.flatMap le32 t) = List.flatMap le32 t := by simp [le32]
        have e3 : (le32 a).length = 4 := by simp [le32]
        simp only [List.flatMap_cons, words, e1, e2, e3, ne_eq, not_true, if_false,
          ih t (by simpa using hl) (fun w hw' => hb' w (by simp [hw'])), leVal_le32 a ha]
  unfold routerDiagnostics
  rw [hrd]
  exact hw 16 ws h16 hb

/-- **Software version, both encodings.** The reply the machine specification builds - legacy
(version = major * 100 + minor in the top half of arg2) or string (top half 0xFFFF, data = name NUL
"major.minor.patch" labels NUL with numbers as decimal digit strings) - decodes to the position,
physical / virtual core, buffer size, build date, name, numbers and labels it was built from. -/
theorem sver_both_encodings (x y pcpu vcpu buf date : Nat) (name : List Nat)
    (hx : x < 256) (hy : y < 256) (hp : pcpu < 256) (hv : vcpu < 256) (hb : buf < 65536) (hn : Ascii name) :
    (∀ major minor, minor < 100 → major * 100 + minor < 65535 →
      let r := sverLegacy x y pcpu vcpu buf date major minor name
      decodeSver r.1 r.2.1 r.2.2.1 r.2.2.2 =
        .ok { pos := (x, y), physCpu := pcpu, virtCpu := vcpu, bufferSize := buf, buildDate := date,
              version := { name := rstrip0 name, major := major, minor := minor, patch := 0, labels := [] } }) ∧
    (∀ ma mi pa labels, (∀ b ∈ name, b ≠ 0) → Digits ma → Digits mi → Digits pa → Ascii labels →
      (∀ b ∈ labels, b ≠ 0) → (∀ c ∈ labels.head?, isDigit c = false) →
      let r := sverString x y pcpu vcpu buf date name ma mi pa labels
      decodeSver r.1 r.2.1 r.2.2.1 r.2.2.2 =
        .ok { pos := (x, y), physCpu := pcpu, virtCpu := vcpu, bufferSize := buf, buildDate := date,
              version := { name := name, major := digitsVal ma, minor := digitsVal mi, patch := digitsVal pa,
                           labels := labels } }) := by
  constructor
  · intro major minor hmi hv'
    exact decodeSver_fields x y pcpu vcpu _ buf date name _ hx hy hp hv hb
      (sver_legacy_lem major minor buf name hmi hv' hb hn)
  · intro ma mi pa labels hn0 hma hmi hpa hl hl0 hlh
    exact decodeSver_fields x y pcpu vcpu 65535 buf date _ _ hx hy hp hv hb
      (sver_string_lem buf name ma mi pa labels hb hn hn0 hma hmi hpa hl hl0 hlh)

/-- non-vacuity: "2.1.0-dev" satisfies the hypotheses and the digit strings have the expected values -/
example : Digits [50] ∧ Digits [49] ∧ Digits [48] ∧ Ascii [45, 100, 101, 118] ∧
    (∀ c ∈ ([45, 100, 101, 118] : List Nat).head?, isDigit c = false) ∧ digitsVal [49, 50, 51] = 123 := by
  refine ⟨⟨by decide, by decide⟩, ⟨by decide, by decide⟩, ⟨by decide, by decide⟩, by unfold Ascii; decide, by decide, by decide⟩

/-! ## end-to-end composition: machine state -> probe -> description -> machine model / reservations -/

/-- **The keys of the P2P table are distinct**: the table the code reads from the specification's memory
lists every coordinate inside the dimensions exactly once (so the `dict` the code builds loses nothing). -/
theorem p2p_keys_nodup (f : Nat → Nat → Nat) (w h : Nat) : ((p2pSpecTable f (List.range w) h).map (·.1)).Nodup :=
  p2pSpecTable_nodup f w h

/-- **`get_system_info` on a machine state (exact value).** If the memory serves the dimension register
and the P2P table of machine state `m` (`m.Serves rd`: dimensions <= 255, 3-bit entries, well-formed chip
states, only the 2 + 32768 bytes concerned are constrained) and at least one chip is listed, then
`get_system_info` - reading the table and sending `info` to every listed chip, chips absent from `m.chips`
not answering - returns exactly `m.sysInfo`: the listed chips that answer, in table order, each with the
view of its state; and that description is well formed (distinct keys inside width x height). -/
theorem get_system_info_exact (m : MachineState) (rd : Rd) (hs : m.Serves rd) (hl : ∃ xy, m.listed xy = true) :
    getSystemInfo rd m.probe = .ok m.sysInfo ∧ m.sysInfo.WF ∧
    (∀ xy ci, (xy, ci) ∈ m.sysInfo.chips ↔
      ∃ st, m.listed xy = true ∧ m.chips.lookup xy = some st ∧ ci = chipView st) :=
  ⟨getSystemInfo_spec m rd hs hl, sysInfo_WF m hl, mem_sysInfo m⟩

/-- **Probe to machine (exact).** Under the same hypotheses, the description `si` that `get_system_info`
returns is well formed, and the `Machine` built from it by `build_machine` together with the reservations
of `build_core_constraints` describe exactly the machine: (extent) width / height bound every listed chip
and are attained; (chips) a chip is in the machine iff it is listed in the P2P table and answers; (links) a
link 0..5 is in the machine iff its chip is and the chip's state has the link working; (quantities) every
such chip has exactly its state's core count and largest free SDRAM / SRAM block; (reservations) on every
such chip each core number `p` is covered by exactly one reservation applying to the chip if `p` is a
working core that is not idle (`busyCore`) and by none otherwise; reservations name only such chips. -/
theorem probe_to_machine_exact (m : MachineState) (rd : Rd) (hs : m.Serves rd) (hl : ∃ xy, m.listed xy = true) :
    ∃ si, getSystemInfo rd m.probe = .ok si ∧ si.WF ∧
      (buildMachine si).width = si.width ∧ (buildMachine si).height = si.height ∧
      (∀ xy, m.listed xy = true → xy.1 < si.width ∧ xy.2 < si.height) ∧
      (∃ xy, m.listed xy = true ∧ xy.1 + 1 = si.width) ∧ (∃ xy, m.listed xy = true ∧ xy.2 + 1 = si.height) ∧
      (∀ x y, (buildMachine si).chipOk (x, y) = true ↔
        m.listed (x, y) = true ∧ (m.chips.lookup (x, y)).isSome = true) ∧
      (∀ x y l, l < 6 → ((buildMachine si).linkOk x y l = true ↔
        ∃ st, m.listed (x, y) = true ∧ m.chips.lookup (x, y) = some st ∧ l ∈ st.links)) ∧
      (∀ xy st, m.listed xy = true → m.chips.lookup xy = some st →
        (buildMachine si).resources xy = (st.cores, st.sdram, st.sram) ∧
        ∀ p, coverCount (coreConstraints si) xy p = if st.busyCore p = true then 1 else 0) ∧
      (∀ r ∈ coreConstraints si, ∀ c, r.chip = some c →
        m.listed c = true ∧ (m.chips.lookup c).isSome = true) :=
  ⟨m.sysInfo, getSystemInfo_spec m rd hs hl, machineExact_sysInfo m hs.chipsWF hl⟩

/-! ## `SystemInfo.__contains__`, `links()`, `cores()`, `build_routing_table_target_lengths` -/

/-- **`__contains__`.** For a description with distinct keys: `(x, y) in si` iff the chip has a record;
`(x, y, link) in si` iff it has a record whose working links contain the link; `(x, y, p) in si` iff it has a
record with more than `p` cores; `(x, y, p, state) in si` is true iff additionally the record's `p`-th state
is `state`, and it cannot raise when every record has a state per core. -/
theorem contains_exact (si : SysInfo) (hnd : (si.chips.map (·.1)).Nodup) :
    (∀ xy, si.has xy = true ↔ ∃ ci, (xy, ci) ∈ si.chips) ∧
    (∀ x y l, si.hasLink x y l = true ↔ ∃ ci, ((x, y), ci) ∈ si.chips ∧ l ∈ ci.links) ∧
    (∀ x y p, si.hasCore x y p = true ↔ ∃ ci, ((x, y), ci) ∈ si.chips ∧ p < ci.numCores) ∧
    (∀ x y p s, si.hasCoreState x y p s = .ok true ↔
      ∃ ci, ((x, y), ci) ∈ si.chips ∧ p < ci.numCores ∧ ci.coreStates[p]? = some s) ∧
    ((∀ xy ci, (xy, ci) ∈ si.chips → ci.numCores ≤ ci.coreStates.length) →
      ∀ x y p s, ∃ b, si.hasCoreState x y p s = .ok b) :=
  ⟨has_iff si, hasLink_iff si hnd, hasCore_iff si hnd, hasCoreState_iff si hnd, hasCoreState_total si⟩

/-- **`links()` and `cores()`** enumerate exactly the working links of the records and exactly the
(core number, state) pairs of the records' state lists. -/
theorem links_cores_enumerate (si : SysInfo) :
    (∀ x y l, (x, y, l) ∈ si.liveLinks ↔ ∃ ci, ((x, y), ci) ∈ si.chips ∧ l ∈ ci.links) ∧
    (∀ x y p s, (x, y, p, s) ∈ si.cores ↔ ∃ ci, ((x, y), ci) ∈ si.chips ∧ ci.coreStates[p]? = some s) :=
  ⟨mem_liveLinks si, mem_cores si⟩

/-- **`links()` / `cores()` yield nothing twice**: with distinct keys, every (core, state) is yielded once, and
every working link once when each record's link collection has no repetition (it is a `set` in the code; the
decoded view lists 0..5 filtered) - in particular on the description returned by probing a machine state. -/
theorem links_cores_once (si : SysInfo) (hnd : (si.chips.map (·.1)).Nodup) :
    ((∀ xy ci, (xy, ci) ∈ si.chips → ci.links.Nodup) → si.liveLinks.Nodup) ∧ si.cores.Nodup ∧
    (∀ st : ChipState, (chipView st).links.Nodup) :=
  ⟨liveLinks_nodup si hnd, cores_nodup si hnd, chipView_links_nodup⟩

/-- **`build_routing_table_target_lengths`** has exactly the description's keys (in order) and maps each
chip to the probed largest free block of router entries. -/
theorem target_lengths_exact (si : SysInfo) :
    (targetLengths si).map (·.1) = si.chips.map (·.1) ∧
    (∀ xy n, (xy, n) ∈ targetLengths si ↔ ∃ ci, (xy, ci) ∈ si.chips ∧ n = ci.rtr) ∧
    ((si.chips.map (·.1)).Nodup → ∀ xy n, (targetLengths si).lookup xy = some n ↔
      ∃ ci, (xy, ci) ∈ si.chips ∧ n = ci.rtr) :=
  ⟨targetLengths_keys si, mem_targetLengths si, fun hnd => targetLengths_lookup si hnd⟩

/-- **Probe to views (exact).** On the description returned by probing machine state `m`: membership
tests, `links()`, `cores()` and the routing-table target lengths report exactly the listed chips that
answer, their working links 0..5, their working cores with the state of each, and each chip's largest free
router block; the state membership test never raises. -/
theorem probe_views_exact (m : MachineState) (rd : Rd) (hs : m.Serves rd) (hl : ∃ xy, m.listed xy = true) :
    ∃ si, getSystemInfo rd m.probe = .ok si ∧
      (∀ xy, si.has xy = true ↔ m.listed xy = true ∧ (m.chips.lookup xy).isSome = true) ∧
      (∀ x y l, si.hasLink x y l = true ↔
        ∃ st, m.listed (x, y) = true ∧ m.chips.lookup (x, y) = some st ∧ l < 6 ∧ l ∈ st.links) ∧
      (∀ x y p, si.hasCore x y p = true ↔
        ∃ st, m.listed (x, y) = true ∧ m.chips.lookup (x, y) = some st ∧ p < st.cores) ∧
      (∀ x y p s, (∃ b, si.hasCoreState x y p s = .ok b) ∧ (si.hasCoreState x y p s = .ok true ↔
        ∃ st, m.listed (x, y) = true ∧ m.chips.lookup (x, y) = some st ∧ p < st.cores ∧
          st.states[p]? = some s)) ∧
      (∀ x y l, (x, y, l) ∈ si.liveLinks ↔
        ∃ st, m.listed (x, y) = true ∧ m.chips.lookup (x, y) = some st ∧ l < 6 ∧ l ∈ st.links) ∧
      (∀ x y p s, (x, y, p, s) ∈ si.cores ↔
        ∃ st, m.listed (x, y) = true ∧ m.chips.lookup (x, y) = some st ∧ p < st.cores ∧
          st.states[p]? = some s) ∧
      (∀ xy n, (targetLengths si).lookup xy = some n ↔
        ∃ st, m.listed xy = true ∧ m.chips.lookup xy = some st ∧ n = st.rtr) :=
  ⟨m.sysInfo, getSystemInfo_spec m rd hs hl, viewsExact_sysInfo m hs.chipsWF hl⟩

/-- non-vacuity of `Serves` and of "a chip is listed": a 2 x 1 machine whose second chip does not answer,
served by a memory holding only the dimension register and the table -/
def exChip : ChipState :=
  { cores := 18, states := 7 :: 5 :: List.replicate 16 15, links := [0, 1, 5], sdram := 4294967295,
    sram := 4294967295, rtr := 2047, ethUp := true, ip0 := 255, ip1 := 255, ip2 := 255, ip3 := 255,
    ethX := 255, ethY := 255 }

def exMachine : MachineState :=
  { dimW := 2, dimH := 1, p2p := [((0, 0), 0), ((1, 0), 2)], chips := [((0, 0), exChip)] }

def exRd : Rd := fun a n =>
  if a = SV_BASE + SV_P2P_DIMS_OFF then le16 (2 * 256 + 1) else readMem (p2pMem exMachine.entry) a n

example : exMachine.Serves exRd ∧ (∃ xy, exMachine.listed xy = true) ∧
    exMachine.sysInfo.chips.map (·.1) = [(0, 0)] ∧ exMachine.sysInfo.width = 2 ∧
    exChip.busyCore 1 = true ∧ exChip.busyCore 2 = false := by
  refine ⟨⟨by decide, by decide, by decide, ?_, ?_, ?_⟩, ⟨(0, 0), by decide⟩, by decide, by decide, by decide,
    by decide⟩
  · intro xy st h
    have hm := lookup_mem_snd _ _ _ h
    simp only [exMachine, List.mem_cons, Prod.mk.injEq, List.mem_nil_iff, or_false] at hm
    rw [hm.2]
    refine ⟨by decide, by decide, ?_, by decide, by decide, by decide, by decide, by decide, by decide, by decide,
      by decide, by decide⟩
    intro s hs
    simp only [exChip, List.mem_cons, List.mem_replicate] at hs
    rcases hs with rfl | rfl | ⟨_, rfl⟩ <;> decide
  · simp only [exRd, if_true]
    rfl
  · intro a n h1 h2
    have : a ≠ SV_BASE + SV_P2P_DIMS_OFF := by
      simp only [SPINNAKER_RTR_P2P, P2P_REGION, SV_BASE, SV_P2P_DIMS_OFF] at *
      omega
    simp only [exRd, this, if_false]

/-- **Struct fields.** `read_struct_field` / `read_vcpu_struct_field` of a scalar field of 1, 2 or 4 bytes return
the value whose little-endian bytes the chip's memory holds at the field's documented offset (the value of THAT
chip's memory: the model has no other input); the table `p2p_ok` judges against is the table of `p2p_roundtrip`. -/
theorem struct_field_exact (rd : Rd) (fields : List (String × Nat × Nat × Bool × Nat)) (base : Nat) (name : String)
    (off size v : Nat) (hf : fields.find? (·.1 == name) = some (name, off, size, false, 1))
    (hs : size = 1 ∨ size = 2 ∨ size = 4) (hv : v < 256 ^ size) (hrd : rd (base + off) size = leN size v) :
    structField rd fields base name = .ok v ∧ ∀ m : MachineState, m.specTable = m.table :=
  ⟨structField_exact rd fields base name off size v hf hs hv hrd, specTable_eq⟩

/-- non-vacuity: `sv.iobuf_size` is such a field -/
example : SV_FIELDS.find? (·.1 == "iobuf_size") = some ("iobuf_size", 80, 4, false, 1) := by decide

/-- **Struct layouts.** The probes are modelled with the struct definitions in force (`MachineController.structs`)
as a parameter (`…L` functions, used by the harness for machines laid out under other definitions); at the bundled
definitions they ARE the functions all theorems above are about. -/
theorem layout_default_instance (rd : Rd) :
    (∀ name, svFieldL defaultLayout rd name = svField rd name) ∧
    (∀ p, vcpuAddrL defaultLayout rd p = vcpuAddr rd p) ∧
    (∀ data, decodeStatusL defaultLayout data = decodeStatus data) ∧
    (∀ p, processorStatusL defaultLayout rd p = processorStatus rd p) ∧
    (∀ p fuel, iobufBytesL defaultLayout rd p fuel = iobufBytes rd p fuel) ∧
    p2pTableL defaultLayout rd = p2pTable rd ∧
    (∀ probe, getSystemInfoL defaultLayout rd probe = getSystemInfo rd probe) :=
  ⟨svFieldL_default rd, vcpuAddrL_default rd, decodeStatusL_default, processorStatusL_default rd,
   iobufBytesL_default rd, p2pTableL_default rd, getSystemInfoL_default rd⟩

/-- **Which cores answer.** In the machine specification the monitor answers in every state, an application core
exactly in the states wait, c_main, run, sync0, sync1, pause (members of the generated state enumeration) - so the
idle state, in particular, does not answer; the decoders of this file read through the monitor only (their sole
input is `rd`). -/
theorem monitor_always_answers :
    (∀ s, coreAnswers 0 s = true) ∧ (∀ p s, p ≠ 0 → (coreAnswers p s = true ↔ s ∈ [5, 6, 7, 8, 9, 10])) ∧
    (∀ s ∈ SARK_ALIVE, validState s = true) ∧ coreAnswers 1 APPSTATE_IDLE = false := by
  refine ⟨fun s => rfl, ?_, by decide, by decide⟩
  intro p s hp
  have : (p == 0) = false := by simpa using hp
  simp [coreAnswers, this, SARK_ALIVE]

/-! ## the oracles the harness evaluates on the implementation's outputs -/

/-- **`sysinfo_ok` is exact.** The predicate the harness evaluates on the `SystemInfo` returned by the real
`get_system_info` (a) accepts only descriptions that are exact up to record order: extent = one more than
the largest listed coordinates, distinct keys, and the records are precisely the listed chips that answer,
each with the view of its state; (b) accepts what the model of `get_system_info` returns. -/
theorem sysinfo_oracle_exact (m : MachineState) :
    (∀ si, sysinfoOk m si = true →
      si.width = maxList ((listedCoords m).map (·.1)) + 1 ∧
      si.height = maxList ((listedCoords m).map (·.2)) + 1 ∧
      (si.chips.map (·.1)).Nodup ∧
      (∀ xy ci, (xy, ci) ∈ si.chips ↔
        ∃ st, m.listed xy = true ∧ m.chips.lookup xy = some st ∧ ci = chipView st)) ∧
    ((∃ xy, m.listed xy = true) → sysinfoOk m m.sysInfo = true) ∧
    (∀ xy, xy ∈ listedCoords m ↔ m.listed xy = true) :=
  ⟨sysinfoOk_complete m, sysinfoOk_sound m, mem_listedCoords m⟩

/-- **`reservations_ok` is exact.** For descriptions with at most 18 core slots per chip, the finite check
the harness runs on the constraints returned by the real `build_core_constraints` holds iff reservations
name only described chips and on every described chip EVERY core number is covered exactly once when busy
and never otherwise; and it accepts the model's constraints. -/
theorem reservations_oracle_exact (si : SysInfo)
    (h18 : ∀ xy ci, (xy, ci) ∈ si.chips → ci.coreStates.length ≤ 18) :
    (∀ rs, reservationsOk si rs = true ↔
      (∀ r ∈ rs, ∀ c, r.chip = some c → si.has c = true) ∧
      (∀ xy ci, (xy, ci) ∈ si.chips → ∀ p, coverCount rs xy p = if busy ci p = true then 1 else 0)) ∧
    ((si.chips.map (·.1)).Nodup → reservationsOk si (coreConstraints si) = true) :=
  ⟨fun rs => reservationsOk_iff si rs h18, fun hnd => reservationsOk_sound si hnd h18⟩

/-- **`dead_ok` is exact.** For a description with distinct keys, the predicate evaluated on the collections
returned by the real `dead_chips()` / `dead_links()` holds iff they are, as sets, the model's dead chips and
dead links (characterised by `dead_chips_complement` / `dead_links_complement`). -/
theorem dead_oracle_exact (si : SysInfo) (hnd : (si.chips.map (·.1)).Nodup) (dc : List (Nat × Nat))
    (dl : List (Nat × Nat × Nat)) :
    deadOk si dc dl = true ↔
      (∀ x y, (x, y) ∈ dc ↔ (x, y) ∈ si.deadChips) ∧ (∀ x y l, (x, y, l) ∈ dl ↔ (x, y, l) ∈ si.deadLinks) :=
  deadOk_iff si hnd dc dl

/-- **`machine_ok` is exact.** The predicate evaluated on the `Machine` returned by the real `build_machine`
holds iff the machine has the description's extent, inside it exactly the described chips are alive, and
every described chip is present with exactly its working links 0..5 and exactly its probed core count / SDRAM
/ SRAM; and it accepts the model's machine for every well-formed description. -/
theorem machine_oracle_exact (si : SysInfo) :
    (∀ m, machineOk si m = true ↔
      m.width = si.width ∧ m.height = si.height ∧
      (∀ x y, x < m.width → y < m.height → ((x, y) ∉ m.deadChips ↔ ∃ ci, ((x, y), ci) ∈ si.chips)) ∧
      (∀ xy ci, (xy, ci) ∈ si.chips → m.chipOk xy = true ∧
        (∀ l, l < 6 → (m.linkOk xy.1 xy.2 l = true ↔ l ∈ ci.links)) ∧
        m.resources xy = (ci.numCores, ci.sdram, ci.sram))) ∧
    (si.WF → machineOk si (buildMachine si) = true) :=
  ⟨machineOk_iff si, machineOk_sound si⟩

/-- non-vacuity of the hypotheses of `build_machine_exact` / `reservations_partition` / `contains_exact`: a
two-chip description -/
def exSys : SysInfo :=
  { width := 2, height := 1,
    chips := [((0, 0), { numCores := 18, coreStates := 7 :: 7 :: List.replicate 16 15, links := [0, 2], sdram := 10,
                         sram := 5, rtr := 1023, ethUp := true, ip := [10, 0, 0, 1], ethChip := (0, 0) }),
              ((1, 0), { numCores := 17, coreStates := 7 :: 15 :: 5 :: List.replicate 14 15, links := [3], sdram := 9,
                         sram := 5, rtr := 100, ethUp := false, ip := [0, 0, 0, 0], ethChip := (0, 0) })] }

example : exSys.WF ∧ (∀ xy ci, (xy, ci) ∈ exSys.chips → ci.coreStates.length ≤ 18) ∧
    coreConstraints exSys = [⟨0, 1, none⟩, ⟨1, 2, some (0, 0)⟩, ⟨2, 3, some (1, 0)⟩] ∧
    (buildMachine exSys).exceptions = [((1, 0), (17, 9, 5))] := by
  refine ⟨⟨by decide, ?_⟩, ?_, by decide, by decide⟩
  · intro xy ci h
    simp only [exSys, List.mem_cons, Prod.mk.injEq, List.mem_nil_iff, or_false] at h
    rcases h with ⟨rfl, _⟩ | ⟨rfl, _⟩ <;> decide
  · intro xy ci h
    simp only [exSys, List.mem_cons, Prod.mk.injEq, List.mem_nil_iff, or_false] at h
    rcases h with ⟨_, rfl⟩ | ⟨_, rfl⟩ <;> decide

end Rig.C14
