/-
C14 - probed system description and derived machine model match the machine.
Property theorems (helper lemmas are local and private).
-/
import RigModel.Model.C14
set_option linter.unusedSimpArgs false
set_option linter.unusedVariables false

namespace Rig.C14
open Rig.Gen.C14

/-- the generated enumerations are the documented ones: every 3-bit P2P code is an entry, `none`
is 6, links are 0..5, idle is 15 and is a state, the P2P table sits 0x10000 above the router base -/
theorem consts_documented :
    P2P_VALUES = [0, 1, 2, 3, 4, 5, 6, 7] ∧ P2P_NONE = 6 ∧ LINK_VALUES = [0, 1, 2, 3, 4, 5] ∧
    APPSTATE_IDLE = 15 ∧ validState APPSTATE_IDLE = true ∧ SPINNAKER_RTR_P2P = 0xE1010000 ∧
    CMD_INFO = 31 ∧ VCPU_SIZE = 128 := by
  decide

end Rig.C14
