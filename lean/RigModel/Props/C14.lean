/-
C14 - probed system description and derived machine model match the machine.
Property theorems; long proofs live in RigModel/Lemmas/C14.lean.
-/
import RigModel.Lemmas.C14
set_option linter.unusedSimpArgs false
set_option linter.unusedVariables false

namespace Rig.C14
open Rig.Gen.C14

/-- the generated enumerations are the documented ones: every 3-bit P2P code is an entry, `none`
is 6, links are 0..5, idle is 15 and is a state, the P2P table sits 0x10000 above the router base -/
theorem consts_documented :
    P2P_VALUES = [0, 1, 2, 3, 4, 5, 6, 7] ∧ P2P_NONE = 6 ∧ LINK_VALUES = [0, 1, 2, 3, 4, 5] ∧
    APPSTATE_IDLE = 15 ∧ validState APPSTATE_IDLE = true ∧ SPINNAKER_RTR_P2P = 0xE1010000 ∧
    CMD_INFO = 31 ∧ VCPU_SIZE = 128 := by
  decide

/-- **Chip information.** Decoding the `info` reply the machine specification builds for a chip
returns exactly the chip's core count, the states of its first `cores` core slots, its working
links, the three largest-free figures, the Ethernet flag, IP address and nearest Ethernet chip -
for every value of every field over its full width. -/
theorem chipinfo_roundtrip (c : ChipState) (h : c.WF) : decodeInfo (infoReply c) = .ok (chipView c) :=
  chipinfo_roundtrip_lem c h

/-- non-vacuity: a chip with every field at its maximum is well formed -/
example : ({ cores := 18, states := List.replicate 18 15, links := [0, 1, 2, 3, 4, 5], sdram := 4294967295,
             sram := 4294967295, rtr := 2047, ethUp := true, ip0 := 255, ip1 := 255, ip2 := 255, ip3 := 255,
             ethX := 255, ethY := 255 } : ChipState).WF := by
  refine ⟨by decide, by decide, ?_, by decide, by decide, by decide, by decide, by decide, by decide, by decide,
    by decide, by decide⟩
  intro s hs
  simp only [List.mem_replicate] at hs
  rw [hs.2]; decide

/-- **P2P table.** For every table `f` of 3-bit entries and all dimensions up to 255 x 255, reading
the table memory laid out by the machine specification (column `x` in the 32 words from
`SPINNAKER_RTR_P2P + 128 x`, row `y` in word `y / 8` at bits `3 (y mod 8)`) yields exactly the entry
`f x y` for every `x < w`, `y < h`, column by column, and nothing else. -/
theorem p2p_roundtrip (f : Nat → Nat → Nat) (hf : ∀ x y, f x y < 8) (rd : Rd) (w h : Nat)
    (hw : w ≤ 255) (hh : h ≤ 255)
    (hrd : ∀ a n, SPINNAKER_RTR_P2P ≤ a → rd a n = readMem (p2pMem f) a n) :
    p2pTableOfDims rd (w * 256 + h) = .ok (p2pSpecTable f (List.range w) h) :=
  p2p_roundtrip_dims_lem f hf rd w h hw hh hrd

/-- membership form: the table lists `(x, y) ↦ r` iff the chip is inside the dimensions and `r` is
its entry -/
theorem p2p_table_mem (f : Nat → Nat → Nat) (w h x y r : Nat) :
    ((x, y), r) ∈ p2pSpecTable f (List.range w) h ↔ x < w ∧ y < h ∧ r = f x y := by
  simp only [p2pSpecTable, List.mem_flatMap, List.mem_map, List.mem_range, Prod.mk.injEq]
  constructor
  · rintro ⟨c, hc, r', hr', ⟨rfl, rfl⟩, rfl⟩
    exact ⟨hc, hr', rfl⟩
  · rintro ⟨hx, hy, rfl⟩
    exact ⟨x, hx, y, hy, ⟨rfl, rfl⟩, rfl⟩

/-- the dimension register is read as a little-endian half word -/
theorem p2p_dims_read (rd : Rd) (w h : Nat) (hw : w ≤ 255) (hh : h ≤ 255)
    (hd : rd (SV_BASE + SV_P2P_DIMS_OFF) SV_P2P_DIMS_SIZE = le16 (w * 256 + h)) :
    readInt rd (SV_BASE + SV_P2P_DIMS_OFF) SV_P2P_DIMS_SIZE = .ok (w * 256 + h) := by
  have e : leVal (le16 (w * 256 + h)) = w * 256 + h := by
    simp only [le16, leVal]; omega
  simp only [readInt, hd, e]
  rfl

end Rig.C14
