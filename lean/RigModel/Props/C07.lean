/-
C07 - remote memory reads and writes are byte-exact for any address and length.
-/
import RigModel.Model.C07
set_option linter.unusedSimpArgs false
set_option linter.unusedVariables false

namespace Rig.C07
open Rig.Gen.Scp

/-- the access-type table regenerated from `consts.address_length_dtype` is exactly the hardware
rule, for every address and size -/
theorem dtype_table_is_hardware_rule (addr size : Nat) : dtype addr size = dtypeSpec addr size := by
  have h : ∀ a, a < 4 → ∀ s, s < 4 →
      dtypeTable.getD (4 * a + s) 0 = (if a = 0 ∧ s = 0 then 2 else if a % 2 = 0 ∧ s % 2 = 0 then 1 else 0) := by
    decide
  have ha : addr % 4 < 4 := Nat.mod_lt _ (by decide)
  have hs : size % 4 < 4 := Nat.mod_lt _ (by decide)
  have := h _ ha _ hs
  unfold dtype dtypeSpec
  rw [this]
  have e1 : addr % 4 % 2 = addr % 2 := by omega
  have e2 : size % 4 % 2 = size % 2 := by omega
  rw [e1, e2]

end Rig.C07
