/-
C07 - remote memory reads and writes are byte-exact for any address and length.
-/
import RigModel.Model.C07
set_option linter.unusedSimpArgs false
set_option linter.unusedVariables false

namespace Rig.C07
open Rig.Gen.Scp

/-- the access-type table regenerated from `consts.address_length_dtype` is exactly the hardware
rule, for every address and size -/
theorem dtype_table_is_hardware_rule (addr size : Nat) : dtype addr size = dtypeSpec addr size := by
  have h : ∀ a, a < 4 → ∀ s, s < 4 →
      dtypeTable.getD (4 * a + s) 0 = (if a = 0 ∧ s = 0 then 2 else if a % 2 = 0 ∧ s % 2 = 0 then 1 else 0) := by
    decide
  have ha : addr % 4 < 4 := Nat.mod_lt _ (by decide)
  have hs : size % 4 < 4 := Nat.mod_lt _ (by decide)
  have := h _ ha _ hs
  unfold dtype dtypeSpec
  rw [this]
  have e1 : addr % 4 % 2 = addr % 2 := by omega
  have e2 : size % 4 % 2 = size % 2 := by omega
  rw [e1, e2]

/-- a patch: bytes stored at an offset -/
def applyAll (m : Mem) (ps : List (Nat × List Nat)) : Mem :=
  ps.foldl (fun m p => writeMem m p.1 p.2) m

def Agrees (t : Mem) (p : Nat × List Nat) : Prop :=
  ∀ i, i < p.2.length → p.2.getD i 0 = t (p.1 + i)

def InPatch (p : Nat × List Nat) (a : Nat) : Prop := p.1 ≤ a ∧ a < p.1 + p.2.length

theorem applyAll_spec (t : Mem) (ps : List (Nat × List Nat)) :
    ∀ (m : Mem), (∀ p ∈ ps, Agrees t p) → ∀ a,
      ((∃ p ∈ ps, InPatch p a) → applyAll m ps a = t a) ∧
      ((¬ ∃ p ∈ ps, InPatch p a) → applyAll m ps a = m a) := by
  induction ps with
  | nil => intro m _ a; simp [applyAll]
  | cons p ps ih =>
    intro m hag a
    have hp : Agrees t p := hag p (by simp)
    have ih' := ih (writeMem m p.1 p.2) (fun q hq => hag q (by simp [hq])) a
    have hstep : applyAll m (p :: ps) = applyAll (writeMem m p.1 p.2) ps := rfl
    rw [hstep]
    by_cases hc : ∃ q ∈ ps, InPatch q a
    · refine ⟨fun _ => ih'.1 hc, fun h => ?_⟩
      exact absurd (by obtain ⟨q, hq, hi⟩ := hc; exact ⟨q, by simp [hq], hi⟩) h
    · have e := ih'.2 hc
      rw [e]
      by_cases hin : InPatch p a
      · refine ⟨fun _ => ?_, fun h => absurd ⟨p, by simp, hin⟩ h⟩
        obtain ⟨h1, h2⟩ := hin
        simp only [writeMem, h1, h2, and_self, if_true]
        have := hp (a - p.1) (by omega)
        rw [this]; congr 1; omega
      · refine ⟨fun h => ?_, fun _ => ?_⟩
        · obtain ⟨q, hq, hi⟩ := h
          simp at hq
          rcases hq with rfl | hq
          · exact absurd hi hin
          · exact absurd ⟨q, hq, hi⟩ hc
        · unfold InPatch at hin
          simp only [writeMem]
          rw [if_neg hin]

/-- `WCovers buf a data cs`: the commands `cs` are consecutive from address `a`, each non-empty,
at most `buf` bytes, carries exactly its slice of `data`, and together they carry all of `data` -/
def WCovers (buf : Nat) : Nat → List Nat → List Chunk → Prop
  | _, data, [] => data = []
  | a, data, c :: cs =>
    c.addr = a ∧ 0 < c.size ∧ c.size ≤ buf ∧ c.size ≤ data.length ∧ c.data = data.take c.size ∧
      c.dt = dtype c.addr c.size ∧ WCovers buf (a + c.size) (data.drop c.size) cs

/-- read commands: same shape, the "data" is the number of bytes still to fetch -/
def RCovers (buf : Nat) : Nat → Nat → List Chunk → Prop
  | _, n, [] => n = 0
  | a, n, c :: cs =>
    c.addr = a ∧ 0 < c.size ∧ c.size ≤ buf ∧ c.size ≤ n ∧ c.dt = dtype c.addr c.size ∧
      RCovers buf (a + c.size) (n - c.size) cs

theorem readChunks_covers (buf : Nat) (hb : 0 < buf) :
    ∀ fuel addr len, len ≤ fuel → RCovers buf addr len (readChunks buf fuel addr len) := by
  intro fuel
  induction fuel with
  | zero => intro addr len h; have : len = 0 := by omega
            subst this; simp [readChunks, RCovers]
  | succ f ih =>
    intro addr len h
    unfold readChunks
    by_cases hl : len > 0
    · simp only [hl, if_true, RCovers]
      refine ⟨trivial, by omega, by omega, by omega, trivial, ?_⟩
      exact ih _ _ (by omega)
    · have : len = 0 := by omega
      subst this; simp [RCovers]

theorem writeChunks_covers (buf : Nat) (hb : 0 < buf) :
    ∀ fuel addr (data : List Nat), data.length ≤ fuel → WCovers buf addr data (writeChunks buf fuel addr data) := by
  intro fuel
  induction fuel with
  | zero => intro addr data h
            have : data = [] := List.eq_nil_of_length_eq_zero (by omega)
            subst this; simp [writeChunks, WCovers]
  | succ f ih =>
    intro addr data h
    unfold writeChunks
    by_cases hl : data.length > 0
    · simp only [hl, if_true, WCovers, List.length_take]
      refine ⟨trivial, by omega, by omega, by omega, ?_, trivial, ?_⟩
      · by_cases hbl : buf ≤ data.length
        · rw [Nat.min_eq_left hbl]
        · rw [Nat.min_eq_right (by omega), List.take_of_length_le (by omega), List.take_of_length_le (by omega)]
      · have e : data.drop (min buf data.length) = data.drop buf := by
          by_cases hbl : buf ≤ data.length
          · rw [Nat.min_eq_left hbl]
          · rw [Nat.min_eq_right (by omega), List.drop_of_length_le (by omega), List.drop_of_length_le (by omega)]
        rw [e]
        exact ih _ _ (by simp only [List.length_drop]; omega)
    · have : data = [] := List.eq_nil_of_length_eq_zero (by omega)
      subst this; simp [WCovers]


theorem wcovers_facts (t : Mem) (buf : Nat) :
    ∀ (cs : List Chunk) (a : Nat) (data : List Nat), WCovers buf a data cs →
      (∀ i, i < data.length → data.getD i 0 = t (a + i)) →
      (∀ c ∈ cs, Agrees t (c.addr, c.data)) ∧
      (∀ x, (∃ c ∈ cs, InPatch (c.addr, c.data) x) ↔ (a ≤ x ∧ x < a + data.length)) := by
  intro cs
  induction cs with
  | nil =>
    intro a data h _
    simp only [WCovers] at h
    subst h
    simp
  | cons c cs ih =>
    intro a data h ht
    obtain ⟨h1, h2, h3, h4, h5, _, h6⟩ := h
    have ih' := ih (a + c.size) (data.drop c.size) h6 (by
      intro i hi
      simp only [List.length_drop] at hi
      have := ht (c.size + i) (by omega)
      rw [List.getD_eq_getElem?_getD, List.getElem?_drop, ← List.getD_eq_getElem?_getD, this]
      congr 1; omega)
    have hlen : c.data.length = c.size := by rw [h5, List.length_take]; omega
    refine ⟨?_, ?_⟩
    · intro c' hc'
      simp only [List.mem_cons] at hc'
      rcases hc' with rfl | hc'
      · intro i hi
        simp only [hlen] at hi
        simp only
        rw [h5, List.getD_eq_getElem?_getD, List.getElem?_take, if_pos hi, ← List.getD_eq_getElem?_getD,
          ht i (by omega), h1]
      · exact ih'.1 c' hc'
    · intro x
      have hx := ih'.2 x
      simp only [List.length_drop] at hx
      constructor
      · rintro ⟨c', hc', hin⟩
        simp only [List.mem_cons] at hc'
        rcases hc' with rfl | hc'
        · unfold InPatch at hin; simp only [hlen, h1] at hin; omega
        · have := hx.1 ⟨c', hc', hin⟩; omega
      · intro hr
        by_cases hlt : x < a + c.size
        · exact ⟨c, by simp, by unfold InPatch; simp only [hlen, h1]; omega⟩
        · obtain ⟨c', hc', hin⟩ := hx.2 (by omega)
          exact ⟨c', by simp [hc'], hin⟩

theorem foldl_execWrite (ws : List Chunk) : ∀ m : Mem,
    ws.foldl execWrite m = applyAll m (ws.map (fun c => (c.addr, c.data))) := by
  induction ws with
  | nil => intro m; rfl
  | cons w ws ih => intro m; simp only [List.foldl_cons, List.map_cons]; rw [ih]; rfl

/-- **Write exactness, any order, with duplicates.** Executing the write commands generated for
`(addr, data)` in any order, each at least once and any number of times, leaves exactly `data`
at `[addr, addr + len)` and changes no other byte. -/
theorem write_exact_any_order (buf addr : Nat) (data : List Nat) (m : Mem) (hb : 0 < buf)
    (ws : List Chunk) (hsub : ∀ w ∈ ws, w ∈ write buf addr data)
    (hall : ∀ c ∈ write buf addr data, c ∈ ws) :
    ws.foldl execWrite m = writeMem m addr data := by
  have hc := writeChunks_covers buf hb data.length addr data (Nat.le_refl _)
  have hf := wcovers_facts (writeMem m addr data) buf _ _ _ hc (by
    intro i hi
    simp only [writeMem]
    rw [if_pos (by omega)]; congr 1; omega)
  rw [foldl_execWrite]
  funext a
  have sp := applyAll_spec (writeMem m addr data) (ws.map (fun c => (c.addr, c.data))) m (by
    intro p hp
    simp only [List.mem_map] at hp
    obtain ⟨c, hc1, rfl⟩ := hp
    exact hf.1 c (hsub c hc1)) a
  by_cases hin : addr ≤ a ∧ a < addr + data.length
  · obtain ⟨c, hc1, hc2⟩ := (hf.2 a).2 hin
    exact sp.1 ⟨(c.addr, c.data), by simp only [List.mem_map]; exact ⟨c, hall c hc1, rfl⟩, hc2⟩
  · rw [sp.2 (by
      rintro ⟨p, hp, hpi⟩
      simp only [List.mem_map] at hp
      obtain ⟨c, hc1, rfl⟩ := hp
      exact hin ((hf.2 a).1 ⟨c, hsub c hc1, hpi⟩))]
    simp only [writeMem]; rw [if_neg hin]


theorem rcovers_facts (m : Mem) (base buf : Nat) :
    ∀ (cs : List Chunk) (a n : Nat), RCovers buf a n cs → base ≤ a →
      (∀ c ∈ cs, Agrees (fun j => m (base + j)) (c.addr - base, readMem m c.addr c.size)) ∧
      (∀ x, (∃ c ∈ cs, InPatch (c.addr - base, readMem m c.addr c.size) x) ↔
        (a - base ≤ x ∧ x < a - base + n)) := by
  intro cs
  induction cs with
  | nil =>
    intro a n h _
    simp only [RCovers] at h
    subst h
    simp
  | cons c cs ih =>
    intro a n h hba
    obtain ⟨h1, h2, h3, h4, _, h6⟩ := h
    have ih' := ih (a + c.size) (n - c.size) h6 (by omega)
    have hlen : ∀ ad, (readMem m ad c.size).length = c.size := by simp [readMem]
    refine ⟨?_, ?_⟩
    · intro c' hc'
      simp only [List.mem_cons] at hc'
      rcases hc' with rfl | hc'
      · intro i hi
        simp only [hlen] at hi
        simp only [readMem]
        rw [List.getD_eq_getElem?_getD, List.getElem?_map, List.getElem?_range hi]
        simp only [Option.map_some, Option.getD_some]
        congr 1; omega
      · exact ih'.1 c' hc'
    · intro x
      have hx := ih'.2 x
      constructor
      · rintro ⟨c', hc', hin⟩
        simp only [List.mem_cons] at hc'
        rcases hc' with rfl | hc'
        · unfold InPatch at hin; simp only [hlen, h1] at hin; omega
        · have := hx.1 ⟨c', hc', hin⟩; omega
      · intro hr
        by_cases hlt : x < a - base + c.size
        · exact ⟨c, by simp, by unfold InPatch; simp only [hlen, h1]; omega⟩
        · obtain ⟨c', hc', hin⟩ := hx.2 (by omega)
          exact ⟨c', by simp [hc'], hin⟩

theorem readMem_congr (f g : Mem) (a b n : Nat) (h : ∀ i, i < n → f (a + i) = g (b + i)) :
    readMem f a n = readMem g b n := by
  unfold readMem
  apply List.map_congr_left
  intro i hi
  exact h i (List.mem_range.1 hi)

theorem foldl_placeReply (m : Mem) (base : Nat) (cs : List Chunk) : ∀ b : Mem,
    cs.foldl (placeReply m base) b =
      applyAll b (cs.map (fun c => (c.addr - base, readMem m c.addr c.size))) := by
  induction cs with
  | nil => intro b; rfl
  | cons w ws ih => intro b; simp only [List.foldl_cons, List.map_cons]; rw [ih]; rfl

/-- **Read exactness, any completion order.** Storing the reply of every read command at its
offset of the receive buffer - in any order, each at least once - yields exactly the bytes of
memory `[addr, addr + len)`, whatever the buffer held before. -/
theorem read_exact_any_order (buf addr len : Nat) (m : Mem) (hb : 0 < buf) (buffer0 : Mem)
    (done : List Chunk) (hsub : ∀ c ∈ done, c ∈ read buf addr len)
    (hall : ∀ c ∈ read buf addr len, c ∈ done) :
    readMem (done.foldl (placeReply m addr) buffer0) 0 len = readMem m addr len := by
  have hc := readChunks_covers buf hb len addr len (Nat.le_refl _)
  have hf := rcovers_facts m addr buf _ _ _ hc (Nat.le_refl _)
  rw [foldl_placeReply]
  apply readMem_congr
  intro i hi
  have sp := applyAll_spec (fun j => m (addr + j))
    (done.map (fun c => (c.addr - addr, readMem m c.addr c.size))) buffer0 (by
    intro p hp
    simp only [List.mem_map] at hp
    obtain ⟨c, hc1, rfl⟩ := hp
    exact hf.1 c (hsub c hc1)) (0 + i)
  obtain ⟨c, hc1, hc2⟩ := (hf.2 (0 + i)).2 (by omega)
  have := sp.1 ⟨_, by simp only [List.mem_map]; exact ⟨c, hall c hc1, rfl⟩, hc2⟩
  rw [this]; congr 1; omega

/-- **Read partition.** The read commands are consecutive from `addr`, non-empty, at most `buf`
bytes each, cover exactly `len` bytes and carry the access type of the table. -/
theorem read_partition (buf addr len : Nat) (hb : 0 < buf) : RCovers buf addr len (read buf addr len) :=
  readChunks_covers buf hb len addr len (Nat.le_refl _)

/-- **Write partition.** Likewise, and each command carries exactly its slice of the data. -/
theorem write_partition (buf addr : Nat) (data : List Nat) (hb : 0 < buf) :
    WCovers buf addr data (write buf addr data) :=
  writeChunks_covers buf hb data.length addr data (Nat.le_refl _)


/-- **Access type soundness.** A word access is used only when address and length are word
aligned, a half-word access only when both are half-word aligned. -/
theorem dtype_sound (addr size : Nat) :
    (dtype addr size = 2 → addr % 4 = 0 ∧ size % 4 = 0) ∧
    (dtype addr size = 1 → addr % 2 = 0 ∧ size % 2 = 0) ∧ dtype addr size ≤ 2 := by
  rw [dtype_table_is_hardware_rule]
  unfold dtypeSpec
  refine ⟨?_, ?_, ?_⟩ <;> (repeat' split) <;> simp_all

/-- link commands: consecutive whole words, word aligned, at most `buf` bytes -/
def LCovers (buf : Nat) : Nat → List Nat → List Chunk → Prop
  | _, data, [] => data = []
  | a, data, c :: cs =>
    c.addr = a ∧ 0 < c.size ∧ c.size ≤ buf ∧ c.size ≤ data.length ∧ c.size % 4 = 0 ∧ c.addr % 4 = 0 ∧
      c.dt = 2 ∧ c.data = data.take c.size ∧ LCovers buf (a + c.size) (data.drop c.size) cs

theorem linkWriteChunks_covers (buf : Nat) (hb : 4 ≤ buf) :
    ∀ fuel addr (data : List Nat), data.length ≤ fuel → addr % 4 = 0 → data.length % 4 = 0 →
      LCovers buf addr data (linkWriteChunks buf fuel addr data) := by
  intro fuel
  induction fuel with
  | zero => intro addr data h _ _
            have : data = [] := List.eq_nil_of_length_eq_zero (by omega)
            subst this; simp [linkWriteChunks, LCovers]
  | succ f ih =>
    intro addr data h ha hd
    unfold linkWriteChunks
    by_cases hl : data.length > 0
    · simp only [hl, if_true, LCovers]
      refine ⟨trivial, by omega, by omega, by omega, by omega, ha, trivial, trivial, ?_⟩
      exact ih _ _ (by simp only [List.length_drop]; omega) (by omega)
        (by simp only [List.length_drop]; omega)
    · have : data = [] := List.eq_nil_of_length_eq_zero (by omega)
      subst this; simp [LCovers]

/-- **Link write partition.** Rejected iff misaligned; otherwise whole-word consecutive commands
carrying exactly the data. -/
theorem link_write_partition (buf addr : Nat) (data : List Nat) (hb : 4 ≤ buf) :
    (linkWrite buf addr data = .error .valueError ↔ (addr % 4 ≠ 0 ∨ data.length % 4 ≠ 0)) ∧
    (∀ cs, linkWrite buf addr data = .ok cs → LCovers buf addr data cs) := by
  unfold linkWrite
  by_cases h1 : addr % 4 ≠ 0
  · simp [h1]
  · by_cases h2 : data.length % 4 ≠ 0
    · simp [h1, h2]
    · simp only [h1, h2, if_false, or_self, iff_false]
      refine ⟨by simp, ?_⟩
      intro cs hcs
      cases hcs
      exact linkWriteChunks_covers buf hb _ _ _ (Nat.le_refl _) (by omega) (by omega)

/-- read variant: sizes only -/
def LRCovers (buf : Nat) : Nat → Nat → List Chunk → Prop
  | _, n, [] => n = 0
  | a, n, c :: cs =>
    c.addr = a ∧ 0 < c.size ∧ c.size ≤ buf ∧ c.size ≤ n ∧ c.size % 4 = 0 ∧ c.addr % 4 = 0 ∧
      c.dt = 2 ∧ LRCovers buf (a + c.size) (n - c.size) cs

theorem linkReadChunks_covers (buf : Nat) (hb : 4 ≤ buf) :
    ∀ fuel addr len, len ≤ fuel → addr % 4 = 0 → len % 4 = 0 →
      LRCovers buf addr len (linkReadChunks buf fuel addr len) := by
  intro fuel
  induction fuel with
  | zero => intro addr len h _ _
            have : len = 0 := by omega
            subst this; simp [linkReadChunks, LRCovers]
  | succ f ih =>
    intro addr len h ha hd
    unfold linkReadChunks
    by_cases hl : len > 0
    · simp only [hl, if_true, LRCovers]
      refine ⟨trivial, by omega, by omega, by omega, by omega, ha, trivial, ?_⟩
      exact ih _ _ (by omega) (by omega) (by omega)
    · have : len = 0 := by omega
      subst this; simp [LRCovers]

/-- **Link read partition.** -/
theorem link_read_partition (buf addr len : Nat) (hb : 4 ≤ buf) :
    (linkRead buf addr len = .error .valueError ↔ (addr % 4 ≠ 0 ∨ len % 4 ≠ 0)) ∧
    (∀ cs, linkRead buf addr len = .ok cs → LRCovers buf addr len cs) := by
  unfold linkRead
  by_cases h1 : addr % 4 ≠ 0
  · simp [h1]
  · by_cases h2 : len % 4 ≠ 0
    · simp [h1, h2]
    · simp only [h1, h2, if_false, or_self, iff_false]
      refine ⟨by simp, ?_⟩
      intro cs hcs
      cases hcs
      exact linkReadChunks_covers buf hb _ _ _ (Nat.le_refl _) (by omega) (by omega)

/-- **Fill.** Word-aligned fills are one fill command whose execution stores the repeated
little-endian word; anything else is a byte-wise write of `size` copies of the byte, exact in
any order; a byte value that does not fit is rejected. -/
theorem fill_exact (buf addr data size : Nat) (m : Mem) (hb : 0 < buf) :
    match fill buf addr data size with
    | .fillCmd a w s => a = addr ∧ w = data ∧ s = size ∧ addr % 4 = 0 ∧ size % 4 = 0 ∧
        execFill m a w s = writeMem m addr ((List.replicate (size / 4) (le32 data)).flatten)
    | .writes cs => (size % 4 ≠ 0 ∨ addr % 4 ≠ 0) ∧ data < 256 ∧
        ∀ ws : List Chunk, (∀ w ∈ ws, w ∈ cs) → (∀ c ∈ cs, c ∈ ws) →
          ws.foldl execWrite m = writeMem m addr (List.replicate size data)
    | .structError => 256 ≤ data := by
  unfold fill
  by_cases h : size % 4 ≠ 0 ∨ addr % 4 ≠ 0
  · simp only [h, if_true]
    by_cases hd : data < 256
    · simp only [hd, if_true]
      refine ⟨trivial, trivial, ?_⟩
      intro ws h1 h2
      exact write_exact_any_order buf addr _ m hb ws h1 h2
    · simp only [hd, if_false]; omega
  · simp only [h, if_false]
    refine ⟨trivial, trivial, trivial, by omega, by omega, rfl⟩

/-! non-vacuity: a 10-byte write at an odd address with a 4-byte buffer needs three commands,
executed here in reverse order with a duplicate -/
example : (write 4 13 [1,2,3,4,5,6,7,8,9,10]).length = 3 := by decide
example : let cs := write 4 13 [1,2,3,4,5,6,7,8,9,10]
    readMem ((cs.reverse ++ cs).foldl execWrite (fun _ => 0)) 12 12 = [0,1,2,3,4,5,6,7,8,9,10,0] := by
  decide
example : (read 8 6 20).map (fun c => (c.addr, c.size, c.dt)) = [(6, 8, 1), (14, 8, 1), (22, 4, 1)] := by
  decide

end Rig.C07
