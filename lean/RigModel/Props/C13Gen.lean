/-
C13 - translator tie: the pure arithmetic of the file-like memory views (`SlicedMemoryIO` in
rig/machine_control/machine_controller.py) is regenerated from the source into `Gen/PyFun.lean`: `__init__`,
`__len__`, `address`, `tell`, `_bytes_available`, `seek` and the address clipping of `__getitem__`.  The methods
are translated with the object's integer attributes (`_start_address`, `_end_address`, `_offset`; for `__init__`
also the flag `closed`) passed as state; each generated definition returns the method's result together with the
final attribute values.  Methods decorated with `@_if_not_closed` are translated for the case in which the guard
passes; the guard itself is the model's `dead`.  Proved here: every one of them equals the model function the C13
theorems are about (`mkView`, `View.len`, `View.address`, `View.available`, `doSeek`, `sliceBounds` /
`doSliceOrig`'s test of the step).  Third round: `read` and `write` themselves - the generated definitions record
the calls `warnings.warn`, `self._parent._perform_read(address, n)`, `self._parent._perform_write(address, data)`
as events (last component of the result) and take what `_perform_read` returns as an input; proved: the
truncation is the model's `readCount` / `writeData`, the call is made with the address BEFORE the offset moves,
the offset then advances by the number of bytes transferred (`doRead` / `doWrite`).
-/
import RigModel.Model.C13
import RigModel.Gen.PyFun
import Mathlib.Tactic.SplitIfs
set_option linter.unusedSimpArgs false
set_option linter.unusedVariables false
set_option linter.unusedTactic false
set_option linter.unreachableTactic false

namespace Rig.C13
open Rig.Gen

/-- the integer attributes of a view, in the order the generated definitions take and return them -/
def View.attrs (v : View) : Int × Int × Int := (v.start, v.stop, v.offset)

/-- both sides are if-chains over linear conditions on integers with integer / tuple leaves -/
macro "view_eq" : tactic => `(tactic|
  first
    | rfl
    | (simp only [View.attrs, View.len, View.address, View.available, mkView]
       try split_ifs
       all_goals (try simp only [Prod.mk.injEq, and_true, true_and])
       all_goals (try (repeat' apply And.intro))
       all_goals first | rfl | trivial | omega))

/-- `SlicedMemoryIO.__init__` as written in the source = the model's `mkView` (whatever the attributes were) -/
theorem gen_init (s e o : Int) (c : Bool) (start stop : Int) :
    PyFun.SlicedMemoryIO_init s e o c start stop
      = ((mkView start stop).start, (mkView start stop).stop, (mkView start stop).offset, (mkView start stop).closed) := by
  unfold PyFun.SlicedMemoryIO_init
  view_eq

/-- `__len__` as written in the source = the model; no attribute changes -/
theorem gen_len (v : View) : PyFun.SlicedMemoryIO_len v.start v.stop v.offset = (v.len, v.attrs) := by
  unfold PyFun.SlicedMemoryIO_len
  view_eq

/-- the `address` property as written in the source = the model -/
theorem gen_address (v : View) : PyFun.SlicedMemoryIO_address v.start v.stop v.offset = (v.address, v.attrs) := by
  unfold PyFun.SlicedMemoryIO_address
  view_eq

/-- `tell` as written in the source returns the offset (what the model's `stepView (.tell _)` answers) -/
theorem gen_tell (v : View) : PyFun.SlicedMemoryIO_tell v.start v.stop v.offset = (v.offset, v.attrs) := by
  unfold PyFun.SlicedMemoryIO_tell
  view_eq

/-- `_bytes_available` as written in the source = the model -/
theorem gen_bytes_available (v : View) :
    PyFun.SlicedMemoryIO_bytes_available v.start v.stop v.offset = (v.available, v.attrs) := by
  unfold PyFun.SlicedMemoryIO_bytes_available
  simp only [gen_address]
  view_eq

/-- a view with new attribute values -/
def View.withAttrs (v : View) (a : Int × Int × Int) : View := { v with start := a.1, stop := a.2.1, offset := a.2.2 }

/-- two `done (setView w i v') .none` results are equal when the stored views are (field by field, by arithmetic) -/
macro "view_upd" : tactic => `(tactic|
  (refine congrArg (fun v' => done (setView _ _ v') Ret.none) ?_
   simp only [View.withAttrs, View.mk.injEq]
   (repeat' apply And.intro) <;> first | rfl | trivial | omega))

/-- the model's `seek` IS the generated `seek` behind the `_if_not_closed` guard: the attributes the source
code leaves are the view the model stores, its `ValueError` is the model's -/
theorem gen_seek (w : World) (i : Nat) (v : View) (n whence : Int) :
    doSeek w i v n whence =
      if dead w v then fail w .osError
      else match PyFun.SlicedMemoryIO_seek v.start v.stop v.offset n whence with
        | .ok a => done (setView w i (v.withAttrs a)) .none
        | .error _ => fail w .valueError := by
  unfold doSeek PyFun.SlicedMemoryIO_seek
  by_cases hd : dead w v = true
  · simp only [hd, if_true]
  · simp only [hd, if_false, Bool.false_eq_true]
    by_cases h0 : whence = 0
    · simp only [h0, if_true]; rfl
    by_cases h1 : whence = 1
    · simp only [h0, h1, if_true, if_false]
      first | rfl | view_upd
    by_cases h2 : whence = 2
    · simp only [h0, h1, h2, if_true, if_false]
      first | rfl | view_upd
    · simp only [h0, h1, h2, if_false]

/-- `__getitem__` as written in the source: the contiguity test and the address clipping are the model's
(`doSliceOrig`: `step = none ∨ step = some 1`, `sliceBounds`); the result is the argument pair of the
`SlicedMemoryIO(parent, start, end)` constructor call, the attributes are unchanged -/
theorem gen_getitem (v : View) (a b step : Option Int) :
    PyFun.SlicedMemoryIO_getitem v.start v.stop v.offset (a, b, step) =
      if step = none ∨ step = some 1 then .ok (sliceBounds v a b, v.attrs) else .error "ValueError" := by
  unfold PyFun.SlicedMemoryIO_getitem sliceBounds
  simp only [true_and]
  by_cases hs : step = none ∨ step = some 1
  · simp only [hs, if_true]
    cases a <;> cases b <;> simp only [View.attrs] <;> (try split_ifs) <;>
      first | rfl | (refine congrArg Except.ok (Prod.ext (Prod.ext ?_ ?_) rfl) <;> simp only [] <;> omega)
  · simp only [hs, if_false]

/-- the model's slicing through the generated code: the new view is built by the generated `__init__` from the
pair the generated `__getitem__` returns -/
theorem gen_slice (w : World) (v : View) (a b step : Option Int) :
    doSliceOrig w v a b step =
      match PyFun.SlicedMemoryIO_getitem v.start v.stop v.offset (a, b, step) with
      | .ok (se, _) => ({ w with views := w.views ++ [mkView se.1 se.2] }, ⟨.view w.views.length, false, none⟩)
      | .error _ => fail w .valueError := by
  rw [gen_getitem]
  unfold doSliceOrig
  by_cases hs : step = none ∨ step = some 1
  · simp only [hs, if_true]
  · simp only [hs, if_false]

/-! ### `read` and `write`: truncation, the call on the parent, the offset update (in this order) -/

/-- a byte string of the model as the Python `bytes` value -/
def bytesInt (d : List Nat) : List Int := d.map (fun (n : Nat) => (n : Int))

/-- the `TruncationWarning`, as the event the generated code records -/
def warnEv (b : Bool) : List PyFun.PyEvent := if b then [⟨"warn", [], []⟩] else []

/-- `read` as written in the source (behind the `_if_not_closed` guard; `din` is what `_perform_read` returns):
the number of bytes and the warning are the model's `readCount`; nothing is read and the offset stays when the
count is not positive; otherwise `_perform_read(address, count)` is called with the address BEFORE the offset
moves, then the offset advances by the count - what the model's `doRead` does -/
theorem gen_read (v : View) (nBytes : Int) (din : List Int) :
    PyFun.SlicedMemoryIO_read v.start v.stop v.offset nBytes din =
      if (readCount v nBytes).2 ≤ 0 then ([], v.start, v.stop, v.offset, warnEv (readCount v nBytes).1)
      else (din, v.start, v.stop, v.offset + (readCount v nBytes).2,
            warnEv (readCount v nBytes).1 ++ [⟨"_perform_read", [v.address, (readCount v nBytes).2], []⟩]) := by
  unfold PyFun.SlicedMemoryIO_read readCount
  simp only [gen_bytes_available, gen_address, warnEv]
  split_ifs <;> first | rfl | (simp_all; done) | (simp_all; omega)

theorem length_bytesInt (d : List Nat) : ((bytesInt d).length : Int) = (d.length : Int) := by simp [bytesInt]

/-- `bytes[:n]` -/
theorem pySlice_prefix (d : List Nat) (n : Int) : PyFun.pySlice (bytesInt d) 0 n = bytesInt (pyPrefix d n) := by
  unfold PyFun.pySlice pyPrefix bytesInt
  simp only [List.length_map, Int.lt_irrefl, if_false, List.drop_zero]
  have e0 : (min (0 : Int) (d.length : Int)).toNat = 0 := by omega
  rw [e0, List.drop_zero, ← List.map_take]
  congr 1
  by_cases hn : n < 0
  · have h0 : ¬ (0 ≤ n) := by omega
    simp only [hn, h0, if_true, if_false]
    congr 1; omega
  · have h0 : 0 ≤ n := by omega
    simp only [hn, h0, if_true, if_false]
    rw [List.take_eq_take_iff]; omega

/-- `write` as written in the source: the data is truncated as the model's `writeData` says, nothing happens for an
empty string, otherwise `_perform_write(address, data)` with the address before the offset moves -/
theorem gen_write (v : View) (d : List Nat) :
    PyFun.SlicedMemoryIO_write v.start v.stop v.offset (bytesInt d) =
      if (writeData v d).2.length = 0 then (0, v.start, v.stop, v.offset, warnEv (writeData v d).1)
      else (((writeData v d).2.length : Int), v.start, v.stop, v.offset + ((writeData v d).2.length : Int),
            warnEv (writeData v d).1 ++ [⟨"_perform_write", [v.address], bytesInt (writeData v d).2⟩]) := by
  unfold PyFun.SlicedMemoryIO_write writeData
  simp only [gen_bytes_available, gen_address, warnEv, length_bytesInt]
  by_cases h1 : (d.length : Int) > v.available <;> simp only [h1, if_true, if_false, List.nil_append]
  · rw [pySlice_prefix, length_bytesInt]
    by_cases h3 : (pyPrefix d v.available).length = 0
    · rw [if_pos h3]
      split
      · rfl
      · exfalso; omega
    · rw [if_neg h3]
      split
      · exfalso; omega
      · rfl
  · rw [length_bytesInt]
    by_cases h3 : d.length = 0
    · rw [if_pos h3]
      split
      · rfl
      · exfalso; omega
    · rw [if_neg h3]
      split
      · exfalso; omega
      · rfl

/-- non-vacuity: a concrete view, sliced -/
example : PyFun.SlicedMemoryIO_getitem 100 200 0 (some 10, some (-20), none) = .ok ((110, 180), 100, 200, 0) := by
  decide

end Rig.C13
