/-
C20 - translator tie: `boot_packet` (rig/machine_control/boot.py) is regenerated from the source into
`Gen/PyFun.lean`: the big-endian header `struct.pack("!H4I", ...)`, the word-size assertion, the `while` loop that
re-packs every little-endian word big-endian (`struct.pack("!I", struct.unpack("<I", word)[0])`) and the single
`sock.send(header + fdata)` (recorded as an event).  Proved equal to the model's `bootPacketChecked` (header layout,
`swapWords`, which calls are refused and with which exception) for data made of bytes, with fuel of at least the
number of words.
-/
import RigModel.Model.C20
import RigModel.Gen.PyFun
import RigModel.Lemmas.PyLoops
set_option linter.unusedSimpArgs false
set_option linter.unusedVariables false
set_option linter.unusedTactic false
set_option linter.unreachableTactic false

namespace Rig.C20
open Rig.Gen Rig.Gen.C20Boot Rig.PyLoops

def bytesInt (d : List Nat) : List Int := d.map (fun (n : Nat) => (n : Int))

theorem bytesInt_append (a b : List Nat) : bytesInt (a ++ b) = bytesInt a ++ bytesInt b := by simp [bytesInt]

/-- every element is a byte -/
def IsBytes (l : List Nat) : Prop := ∀ b ∈ l, b < 256

/-! ### big-endian packing -/

theorem pack_H_be (fs : List PyFun.PyFmt) (v : Int) (vs : List Int) :
    PyFun.pyStructPack true (PyFun.PyFmt.H :: fs) (v :: vs)
      = if 0 ≤ v ∧ v < 65536 then (PyFun.pyStructPack true fs vs).map (fun r => bytesInt (be16 v.toNat) ++ r)
        else .error "struct.error" := by
  rw [PyFun.pyStructPack]
  swap
  · intro hx; cases hx
  by_cases h : 0 ≤ v ∧ v < 65536
  · have : (0 : Int) ≤ v ∧ v.toNat < 256 ^ PyFun.PyFmt.H.size := by simp only [PyFun.PyFmt.size]; omega
    rw [if_pos this, if_pos h]
    have e : (PyFun.pyLeBytes PyFun.PyFmt.H.size v).reverse = bytesInt (be16 v.toNat) := by
      simp only [PyFun.PyFmt.size, PyFun.pyLeBytes, bytesInt, be16, List.map_cons, List.map_nil, List.reverse_cons,
        List.reverse_nil, List.nil_append, List.cons_append, List.cons.injEq, and_true]
      constructor <;> omega
    simp only [e, if_true]
  · have : ¬ ((0 : Int) ≤ v ∧ v.toNat < 256 ^ PyFun.PyFmt.H.size) := by simp only [PyFun.PyFmt.size]; omega
    rw [if_neg this, if_neg h]

theorem pack_I_be (fs : List PyFun.PyFmt) (v : Int) (vs : List Int) :
    PyFun.pyStructPack true (PyFun.PyFmt.I :: fs) (v :: vs)
      = if 0 ≤ v ∧ v < 4294967296 then (PyFun.pyStructPack true fs vs).map (fun r => bytesInt (be32 v.toNat) ++ r)
        else .error "struct.error" := by
  rw [PyFun.pyStructPack]
  swap
  · intro hx; cases hx
  by_cases h : 0 ≤ v ∧ v < 4294967296
  · have : (0 : Int) ≤ v ∧ v.toNat < 256 ^ PyFun.PyFmt.I.size := by simp only [PyFun.PyFmt.size]; omega
    rw [if_pos this, if_pos h]
    have e : (PyFun.pyLeBytes PyFun.PyFmt.I.size v).reverse = bytesInt (be32 v.toNat) := by
      simp only [PyFun.PyFmt.size, PyFun.pyLeBytes, bytesInt, be32, List.map_cons, List.map_nil, List.reverse_cons,
        List.reverse_nil, List.nil_append, List.cons_append, List.cons.injEq, and_true]
      refine ⟨?_, ?_, ?_, ?_⟩ <;> omega
    simp only [e, if_true]
  · have : ¬ ((0 : Int) ≤ v ∧ v.toNat < 256 ^ PyFun.PyFmt.I.size) := by simp only [PyFun.PyFmt.size]; omega
    rw [if_neg this, if_neg h]

/-! ### the word-swapping loop -/

abbrev BpSt := Bool × Option (Except String (List PyFun.PyEvent)) × List Int × List Int

/-- one word: four bytes are taken off the data, re-packed in the opposite order and appended -/
theorem bp_body (a b c e : Nat) (rest : List Nat) (acc : List Int)
    (ha : a < 256) (hb : b < 256) (hc : c < 256) (he : e < 256) :
    PyFun.boot_packet_loop1 ((false, none, bytesInt (a :: b :: c :: e :: rest), acc) : BpSt)
      = (false, none, bytesInt rest, acc ++ bytesInt [e, c, b, a]) := by
  unfold PyFun.boot_packet_loop1
  have s1 : PyFun.pySlice (bytesInt (a :: b :: c :: e :: rest)) 0 4 = bytesInt [a, b, c, e] := by
    simp [PyFun.pySlice, bytesInt]
    have : min (4 : Int) ((rest.length : Int) + 1 + 1 + 1 + 1) = 4 := by omega
    have h0 : min (0 : Int) ((rest.length : Int) + 1 + 1 + 1 + 1) = 0 := by omega
    simp [this, h0]
  have s2 : PyFun.pySlice (bytesInt (a :: b :: c :: e :: rest)) 4
      (((bytesInt (a :: b :: c :: e :: rest)).length : Nat) : Int) = bytesInt rest := by
    simp [PyFun.pySlice, bytesInt]
    have h1 : min (4 : Int) ((rest.length : Int) + 1 + 1 + 1 + 1) = 4 := by omega
    have h2 : ¬ ((rest.length : Int) + 1 + 1 + 1 + 1 < 0) := by omega
    simp [h1, h2]
    apply List.take_of_length_le
    simp only [List.length_map]
    omega
  dsimp only
  rw [s1, s2]
  have hu : PyFun.pyStructUnpack false [PyFun.PyFmt.I] (bytesInt [a, b, c, e])
      = .ok [((a + 256 * (b + 256 * (c + 256 * e)) : Nat) : Int)] := by
    simp [PyFun.pyStructUnpack, PyFun.pyStructSize, PyFun.PyFmt.size, PyFun.pyStructValues, PyFun.pyLeValue, bytesInt]
    try omega
  rw [hu]
  simp only [List.getD_cons_zero]
  rw [pack_I_be, if_pos (by omega)]
  simp only [PyFun.pyStructPack, Except.map, be32, bytesInt, List.map_cons, List.map_nil, List.append_nil, Int.toNat_natCast,
    Prod.mk.injEq, true_and, List.append_cancel_left_eq, List.cons.injEq, and_true]
  refine ⟨?_, ?_, ?_, ?_⟩ <;> omega

theorem bp_cond (d : List Nat) (acc : List Int) :
    PyFun.boot_packet_loop1_cond ((false, none, bytesInt d, acc) : BpSt) = decide (0 < d.length) := by
  unfold PyFun.boot_packet_loop1_cond
  rw [Bool.eq_iff_iff]
  simp only [bytesInt, List.length_map, Bool.not_false, Bool.true_and, decide_eq_true_eq]
  omega

theorem bp_loop : ∀ (n : Nat) (d : List Nat) (acc : List Int), d.length ≤ 4 * n → d.length % 4 = 0 → IsBytes d →
    ∀ fuel, n ≤ fuel →
      PyFun.pyWhile PyFun.boot_packet_loop1_cond PyFun.boot_packet_loop1 fuel ((false, none, bytesInt d, acc) : BpSt)
        = some (false, none, [], acc ++ bytesInt (swapWords d)) := by
  intro n
  induction n with
  | zero =>
    intro d acc hl _ _ fuel _
    have : d = [] := List.eq_nil_of_length_eq_zero (by omega)
    subst this
    have hc : PyFun.boot_packet_loop1_cond ((false, none, ([] : List Int), acc) : BpSt) = false := by
      have := bp_cond [] acc; simpa [bytesInt] using this
    cases fuel <;> simp [PyFun.pyWhile, hc, swapWords, bytesInt]
  | succ n ih =>
    intro d acc hl h4 hB fuel hf
    match d, hl, h4, hB with
    | [], _, _, _ =>
      have hc : PyFun.boot_packet_loop1_cond ((false, none, ([] : List Int), acc) : BpSt) = false := by
        have := bp_cond [] acc; simpa [bytesInt] using this
      cases fuel <;> simp [PyFun.pyWhile, hc, swapWords, bytesInt]
    | [_], _, h4, _ => simp at h4
    | [_, _], _, h4, _ => simp at h4
    | [_, _, _], _, h4, _ => simp at h4
    | a :: b :: c :: e :: rest, hl, h4, hB =>
      obtain ⟨fuel, rfl⟩ : ∃ k, fuel = k + 1 := ⟨fuel - 1, by omega⟩
      have hc := bp_cond (a :: b :: c :: e :: rest) acc
      rw [PyFun.pyWhile, hc, if_pos (by simp)]
      rw [bp_body a b c e rest acc (hB a (by simp)) (hB b (by simp)) (hB c (by simp)) (hB e (by simp))]
      rw [ih rest _ (by simp at hl; omega) (by simp at h4 ⊢; omega) (fun x hx => hB x (by simp [hx])) fuel (by omega)]
      simp [swapWords, bytesInt]

/-- the model's outcome as the Python outcome -/
def bpExc : Except Err Event → Except String (List PyFun.PyEvent)
  | .ok (.send b) => .ok [⟨"send", [], bytesInt b⟩]
  | .ok _ => .error "unreachable"
  | .error .structError => .error "struct.error"
  | .error .assertWord => .error "AssertionError"
  | .error _ => .error "unreachable"

theorem pack_nil_be : PyFun.pyStructPack true [] [] = .ok [] := rfl

/-- the header: `struct.pack("!H4I", 1, cmd, arg1, arg2, arg3)` -/
theorem header_be (cmd a1 a2 a3 : Int) :
    PyFun.pyStructPack true [PyFun.PyFmt.H, PyFun.PyFmt.I, PyFun.PyFmt.I, PyFun.PyFmt.I, PyFun.PyFmt.I] [1, cmd, a1, a2, a3]
      = if [cmd, a1, a2, a3].all (fun v => decide (0 ≤ v ∧ v < 4294967296)) then
          .ok (bytesInt (headerV 1 cmd.toNat a1.toNat a2.toNat a3.toNat))
        else .error "struct.error" := by
  simp only [pack_H_be, pack_I_be, pack_nil_be, List.all_cons, List.all_nil, Bool.and_true, Bool.and_eq_true,
    decide_eq_true_eq, show ((0 : Int) ≤ 1 ∧ (1 : Int) < 65536) by decide, if_true]
  by_cases h1 : 0 ≤ cmd ∧ cmd < 4294967296
  swap
  · simp [h1, Except.map]
  by_cases h2 : 0 ≤ a1 ∧ a1 < 4294967296
  swap
  · simp [h1, h2, Except.map]
  by_cases h3 : 0 ≤ a2 ∧ a2 < 4294967296
  swap
  · simp [h1, h2, h3, Except.map]
  by_cases h4 : 0 ≤ a3 ∧ a3 < 4294967296
  swap
  · simp [h1, h2, h3, h4, Except.map]
  simp only [h1, h2, h3, h4, if_true, and_self, Except.map, headerV, bytesInt_append, List.append_nil,
    List.append_assoc]
  rfl

/-- `boot_packet` as written in the source = the model's `bootPacketChecked`: the same packets are refused (a value
outside 32 bits: `struct.error`, before the assertion; data that is not a whole number of words: AssertionError)
and the one datagram sent is the big-endian header followed by the word-swapped data -/
theorem gen_boot_packet (cmd a1 a2 a3 : Int) (data : List Nat) (hB : IsBytes data) (fuel : Nat)
    (hf : data.length ≤ 4 * fuel) :
    PyFun.boot_packet cmd a1 a2 a3 (bytesInt data) fuel = bpExc (bootPacketChecked cmd a1 a2 a3 data) := by
  unfold PyFun.boot_packet bootPacketChecked
  dsimp only
  rw [header_be]
  by_cases hall : [cmd, a1, a2, a3].all (fun v => decide (0 ≤ v ∧ v < 4294967296)) = true
  swap
  · simp only [hall, Bool.false_eq_true, if_false]; rfl
  simp only [hall, if_true]
  have hlen : ((bytesInt data).length : Int) = (data.length : Int) := by simp [bytesInt]
  rw [hlen, Int.fmod_eq_emod_of_nonneg _ (by decide)]
  unfold bootPacket
  by_cases hw : data.length % 4 = 0
  · have : (data.length : Int) % 4 = 0 := by omega
    simp only [this, hw, if_true]
    rw [bp_loop fuel data [] hf hw hB fuel (le_refl _)]
    simp only [bpExc, header, PROTOCOL_VERSION, List.nil_append, bytesInt_append]
  · have : ¬ (data.length : Int) % 4 = 0 := by omega
    simp only [this, hw, if_false]
    rfl

/-- the hypotheses are satisfiable -/
example : IsBytes [1, 2, 3, 4] ∧ [1, 2, 3, 4].length ≤ 4 * 1 := by
  constructor
  · intro b hb; simp at hb; omega
  · decide

end Rig.C20
