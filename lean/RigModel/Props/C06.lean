/-
C06 - SCP bursts complete each command exactly once despite loss and reordering.
-/
import RigModel.Model.C06
set_option linter.unusedSimpArgs false
set_option linter.unusedVariables false

namespace Rig.C06
open Rig.Gen.Scp

/-- the generated protocol constants are the documented ones: ok = 0x80, retryable =
{checksum 0x82, p2p busy 0x8d}, every other known code is fatal, 16-bit sequence numbers -/
theorem consts_documented :
    rcOk = 0x80 ∧ retryable = [0x82, 0x8d] ∧ seqMask = 0xffff ∧
    (∀ c ∈ allCodes, c = rcOk ∨ c ∈ retryable ∨ c ∈ fatalCodes) ∧
    (∀ c ∈ fatalCodes, c ≠ rcOk ∧ c ∉ retryable) := by
  decide

end Rig.C06
