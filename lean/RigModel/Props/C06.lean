/-
C06 - SCP bursts complete each command exactly once despite loss and reordering.

Property theorems about the model `RigModel.Model.C06` of `SCPConnection.send_scp_burst`.
All theorems hold for EVERY clock function and EVERY list of batches (the environment);
`l : List Int` are the per-command extra timeouts, the burst has `l.length` commands.
Helper definitions (`ext`, `calledOf`, `sendKeys`, `WF`, `Reach`) and the history invariant
are in `RigModel.Lemmas.C06`.

Termination (`terminates_under_progress`, `terminates_under_select`) is proved under explicit
hypotheses about the operating system (`Progress`, `ProgressWeak`; predicates `timedOut`,
`timedOutWeak`, `alongRun` in the model file, lemmas in `RigModel.Lemmas.C06Term`).
The composition with C07 (`read_through_burst`, `write_through_burst`: `SCPConnection.read` / `write`
as bursts of C07's chunks) uses `RigModel.Lemmas.C06Compose` and the C07 exactness theorems.
-/
import RigModel.Lemmas.C06
import RigModel.Lemmas.C06Term
import RigModel.Lemmas.C06Compose
set_option linter.unusedSimpArgs false
set_option linter.unusedVariables false

namespace Rig.C06
open Rig.Gen.Scp

/-- the generated protocol constants are the documented ones: ok = 0x80, retryable =
{checksum 0x82, p2p busy 0x8d}, every other known code is fatal, 16-bit sequence numbers -/
theorem consts_documented :
    rcOk = 0x80 ∧ retryable = [0x82, 0x8d] ∧ seqMask = 0xffff ∧
    (∀ c ∈ allCodes, c = rcOk ∨ c ∈ retryable ∨ c ∈ fatalCodes) ∧
    (∀ c ∈ fatalCodes, c ≠ rcOk ∧ c ∉ retryable) := by
  decide

variable {cfg : Cfg} {l : List Int} {clock : Nat → Int}

/-! ### the window -/

/-- **Window.** At the start of every loop iteration at most `window` packets are outstanding. -/
theorem window_bound {st : St} (h : WF cfg) (hr : Reach cfg l clock st) :
    st.outs.length ≤ cfg.window := by
  obtain ⟨s0, H, hH⟩ := reach_inv h hr
  exact hH.win

/-- **Window, fullest point.** Also right after the transmit loop (the fullest point inside an
iteration) at most `window` packets are outstanding. -/
theorem window_bound_fill {st : St} (h : WF cfg) (hr : Reach cfg l clock st) :
    (fill cfg (ext l) clock (cfg.window + 1) st).1.outs.length ≤ cfg.window := by
  obtain ⟨s0, H, hH⟩ := reach_inv h hr
  exact (fill_inv (P := fun _ => True) h (cfg.window + 1) st H _ _ hH rfl).win

/-- **Distinct sequence numbers.** No two unanswered commands share a sequence number. -/
theorem seqs_distinct {st : St} (h : WF cfg) (hr : Reach cfg l clock st) :
    (st.outs.map (·.1)).Nodup := by
  obtain ⟨s0, H, hH⟩ := reach_inv h hr
  exact hH.keys

/-! ### a complete run from the start of a burst -/

section run
variable {s0 : Nat} {batches : List (List Dgram)} {st : St} {evs : List Ev} {res : Res}

/-- **At most once.** No command's callback is called twice. -/
theorem callback_at_most_once (h : WF cfg)
    (hrun : run cfg (ext l) clock (St.init s0) batches = (st, evs, res)) :
    (calledOf evs).Nodup := by
  have := (run_top h hrun).1.nodup
  simp only [cmds, List.append_assoc] at this
  exact (List.nodup_append.mp this).1

/-- **At least once on success.** If the burst returns normally, the callback of every command
was called (with `callback_at_most_once`: exactly once). -/
theorem done_all_called (h : WF cfg)
    (hrun : run cfg (ext l) clock (St.init s0) batches = (st, evs, res)) :
    res = .done → ∀ c, c < l.length → c ∈ calledOf evs := by
  intro hd c hc
  obtain ⟨hI, hdone, _, _⟩ := run_top h hrun
  have hact := hdone hd
  simp only [St.active, Bool.or_eq_false_iff, Bool.not_eq_false', List.isEmpty_iff] at hact
  obtain ⟨⟨hq, ho⟩, hp⟩ := hact
  have hn := hI.drained hq
  have := (hI.cover c).mpr (by omega)
  simpa [cmds, ho, hp] using this

/-- **Own sequence number, OK reply.** A callback is only called with a datagram that was received
in one of the batches, has return code OK, and carries the sequence number the command was
(first) sent with. -/
theorem callback_own_seq (h : WF cfg)
    (hrun : run cfg (ext l) clock (St.init s0) batches = (st, evs, res)) {c i : Nat} :
    Ev.callback c i ∈ evs →
    ∃ d ∈ batches.flatten, d.id = i ∧ d.rc = rcOk ∧ ∃ t, Ev.send d.seq c 1 t ∈ evs := by
  intro hm
  obtain ⟨d, hd, h1, h2, h3⟩ := (run_top h hrun).1.cb_ok c i hm
  exact ⟨d, hd, h1, h2, h3⟩

/-- **Retransmissions reuse the sequence number.** All transmissions of one command carry the same
sequence number. -/
theorem seq_fixed (h : WF cfg)
    (hrun : run cfg (ext l) clock (St.init s0) batches = (st, evs, res))
    {s s' c k k' : Nat} {t t' : Int} :
    Ev.send s c k t ∈ evs → Ev.send s' c k' t' ∈ evs → s = s' :=
  fun h1 h2 => (run_top h hrun).1.seq_fix _ _ _ _ _ _ _ h1 h2

/-- **Tries bound.** Every transmission is try number `1 ≤ k ≤ n_tries` of a command of the burst. -/
theorem tries_bound (h : WF cfg)
    (hrun : run cfg (ext l) clock (St.init s0) batches = (st, evs, res))
    {s c k : Nat} {t : Int} :
    Ev.send s c k t ∈ evs → 1 ≤ k ∧ k ≤ cfg.nTries ∧ c < l.length := by
  intro hm
  have hI := (run_top h hrun).1
  have := hI.send_ok _ _ _ _ hm
  have := hI.next_le
  omega

/-- **Tries are counted.** The (command, try) pairs of all transmissions are distinct, so the try
number really counts the transmissions of a command. -/
theorem sends_numbered (h : WF cfg)
    (hrun : run cfg (ext l) clock (St.init s0) batches = (st, evs, res)) :
    (sendKeys evs).Nodup :=
  (run_top h hrun).1.keys_nodup

/-- **Bounded work.** A burst transmits at most `n_commands * n_tries` packets (the progress half
of termination). -/
theorem send_bound (h : WF cfg)
    (hrun : run cfg (ext l) clock (St.init s0) batches = (st, evs, res)) :
    (sendKeys evs).length ≤ l.length * cfg.nTries := by
  apply pairs_bound _ _ _ (sends_numbered h hrun)
  intro p hp
  obtain ⟨c, k⟩ := p
  obtain ⟨s, t, hm⟩ := mem_sendKeys.mp hp
  exact ⟨(tries_bound h hrun hm).2.2, (tries_bound h hrun hm).1, (tries_bound h hrun hm).2.1⟩

/-- **Timeout only after all tries.** If the burst raises `TimeoutError` for command `c`, then `c`
was transmitted `n_tries` times (try number `n_tries` exists; with `sends_numbered` and
`tries_bound`: exactly `n_tries` times), its callback was not called and no reply to it was
accepted. -/
theorem timeout_only_after_all_tries (h : WF cfg)
    (hrun : run cfg (ext l) clock (St.init s0) batches = (st, evs, res)) {c : Nat} :
    res = .timeout c →
    (∃ s t, Ev.send s c cfg.nTries t ∈ evs) ∧ c ∉ calledOf evs ∧ (∀ i, (c, i) ∉ st.pend) := by
  intro hres
  obtain ⟨hI, _, hto, _⟩ := run_top h hrun
  obtain ⟨s, o, hm, rfl, hge⟩ := hto c hres
  have ho := hI.out_ok s o hm
  have heq : o.tries = cfg.nTries := by have := ho.tries_le; omega
  obtain ⟨t, ht, _⟩ := ho.last
  have hnd := hI.nodup
  simp only [cmds] at hnd
  have hdis := (List.nodup_append.mp hnd).2.2
  have hin : o.cmd ∈ st.outs.map (·.2.cmd) := List.mem_map_of_mem (f := fun p : Nat × Out => p.2.cmd) hm
  refine ⟨⟨s, t, heq ▸ ht⟩, ?_, ?_⟩
  · intro hc
    exact hdis _ (List.mem_append_left _ hc) _ hin rfl
  · intro i hi
    exact hdis _ (List.mem_append_right _ (List.mem_map_of_mem (f := fun p : Nat × Nat => p.1) hi)) _ hin rfl

/-- **No early retransmission.** Try `k + 2` of a command happens strictly later than its try
`k + 1` plus the command's timeout (default timeout + per-command extra), with the same sequence
number. -/
theorem no_early_retransmit (h : WF cfg)
    (hrun : run cfg (ext l) clock (St.init s0) batches = (st, evs, res))
    {s c k : Nat} {t : Int} :
    Ev.send s c (k + 2) t ∈ evs →
    ∃ t0, Ev.send s c (k + 1) t0 ∈ evs ∧ t0 + (cfg.defaultTimeout + (l[c]?).getD 0) < t :=
  fun hm => (run_top h hrun).1.spacing _ _ _ _ hm

/-- **Fatal codes are reported (converse).** If the burst raises `FatalReturnCodeError rc`, a
datagram with that return code was received, and the code is neither OK nor retryable. -/
theorem fatal_only_from_reply (h : WF cfg)
    (hrun : run cfg (ext l) clock (St.init s0) batches = (st, evs, res)) {rc : Nat} {c : Option Nat} :
    res = .fatal rc c → ∃ d ∈ batches.flatten, d.rc = rc ∧ rc ≠ rcOk ∧ rc ∉ retryable := by
  intro hres
  obtain ⟨d, hd, h1⟩ := (run_top h hrun).2.2.2 rc c hres
  exact ⟨d, hd, h1⟩

/-- **Distinct commands, distinct sequence numbers.** In a burst of at most `modulus` commands no
two commands are ever transmitted with the same sequence number. -/
theorem seq_injective (h : WF cfg) (hlen : l.length ≤ cfg.modulus)
    (hrun : run cfg (ext l) clock (St.init s0) batches = (st, evs, res))
    {s c c' k k' : Nat} {t t' : Int} :
    Ev.send s c k t ∈ evs → Ev.send s c' k' t' ∈ evs → c = c' := by
  intro h1 h2
  have hI := (run_top h hrun).1
  have e1 := hI.seq_val hlen _ _ _ _ h1
  have e2 := hI.seq_val hlen _ _ _ _ h2
  have b1 := (hI.send_ok _ _ _ _ h1).2.2
  have b2 := (hI.send_ok _ _ _ _ h2).2.2
  have := hI.next_le
  exact seqVal_inj (m := cfg.modulus) (s0 := s0) (by omega) (by omega) (by rw [← e1, ← e2])

/-- **Own reply, under freshness.** `origin` is ghost ground truth: the command of this burst whose
request caused the datagram with that id (`none`: caused by an earlier burst).  If every reply
carries its request's sequence number (`netOK`), the burst has at most `modulus` commands and no
stale datagram carries a sequence number used in this burst (`fresh`), then every callback is
called with a reply to its own command. -/
theorem callback_own_reply (h : WF cfg)
    (hrun : run cfg (ext l) clock (St.init s0) batches = (st, evs, res))
    (origin : Nat → Option Nat)
    (netOK : ∀ d ∈ batches.flatten, ∀ j, origin d.id = some j → ∃ t, Ev.send d.seq j 1 t ∈ evs)
    (hlen : l.length ≤ cfg.modulus)
    (fresh : ∀ d ∈ batches.flatten, origin d.id = none → ∀ c t, Ev.send d.seq c 1 t ∉ evs)
    {c i : Nat} : Ev.callback c i ∈ evs → origin i = some c := by
  intro hm
  obtain ⟨d, hd, rfl, _, t, ht⟩ := callback_own_seq h hrun hm
  cases ho : origin d.id with
  | none => exact absurd ht (fresh d hd ho c t)
  | some j =>
    obtain ⟨t', ht'⟩ := netOK d hd j ho
    rw [seq_injective h hlen hrun ht' ht]

end run

/-! ### fatal and retryable return codes (one step, no well-formedness needed) -/

/-- **Fatal codes raise.** If a batch contains a datagram `d` whose code is neither OK nor retryable and
every datagram before it is OK or retryable, the receive loop stops at `d` with
`FatalReturnCodeError d.rc`, reporting the command outstanding under `d.seq` at that point
(`outs'` is the outstanding table after the datagrams before `d`). -/
theorem fatal_raises (pre post : List Dgram) (d : Dgram) (outs : List (Nat × Out)) (pend : List (Nat × Nat))
    (hpre : ∀ x ∈ pre, x.rc = rcOk ∨ x.rc ∈ retryable) (h1 : d.rc ≠ rcOk) (h2 : d.rc ∉ retryable) :
    ∃ outs' pend', recvAll pre outs pend = .ok outs' pend' ∧
      recvAll (pre ++ d :: post) outs pend = .fatal d.rc ((lookupSeq outs' d.seq).map (·.cmd)) := by
  induction pre generalizing outs pend with
  | nil =>
    refine ⟨outs, pend, rfl, ?_⟩
    have e1 : (d.rc != rcOk) = true := by simpa using h1
    have e2 : retryable.contains d.rc = false := by simpa using h2
    simp only [List.nil_append, recvAll, e1, e2, if_true, Bool.false_eq_true, if_false]
  | cons x pre ih =>
    have hpre' : ∀ y ∈ pre, y.rc = rcOk ∨ y.rc ∈ retryable :=
      fun y hy => hpre y (List.mem_cons_of_mem _ hy)
    rcases hpre x (List.mem_cons_self ..) with hx | hx
    · have e1 : (x.rc != rcOk) = false := by simp [hx]
      simp only [List.cons_append, recvAll, e1, Bool.false_eq_true, if_false]
      cases hl : lookupSeq outs x.seq with
      | none => exact ih outs pend hpre'
      | some o => exact ih _ _ hpre'
    · have e2 : retryable.contains x.rc = true := by simpa using hx
      have e1 : (x.rc != rcOk) = true := by
        simp [retryable] at hx
        rcases hx with hx | hx <;> simp [hx, rcOk]
      simp only [List.cons_append, recvAll, e1, e2, if_true]
      exact ih outs pend hpre'

/-- **Fatal codes raise (one iteration).** -/
theorem fatal_raises_iter (extra : Nat → Option Int) (st : St) (pre post : List Dgram) (d : Dgram)
    (hpre : ∀ x ∈ pre, x.rc = rcOk ∨ x.rc ∈ retryable) (h1 : d.rc ≠ rcOk) (h2 : d.rc ∉ retryable) :
    ∃ c, (iter cfg extra clock st (pre ++ d :: post)).2.2 = some (.fatal d.rc c) := by
  unfold iter
  cases fill cfg extra clock (cfg.window + 1) st with
  | mk st1 ev1 =>
    simp only
    split
    · rename_i rc c hrecv
      obtain ⟨outs', pend', _, hf⟩ := fatal_raises pre post d _ _ hpre h1 h2
      rw [hf] at hrecv
      simp only [RecvRes.fatal.injEq] at hrecv
      obtain ⟨rfl, rfl⟩ := hrecv
      exact ⟨_, rfl⟩
    · rename_i outs pend hrecv
      obtain ⟨outs', pend', _, hf⟩ := fatal_raises pre post d _ _ hpre h1 h2
      rw [hf] at hrecv
      cases hrecv

/-- **Fatal codes raise (whole burst).** When such a batch is the current one and the loop is still
active, the burst ends with `FatalReturnCodeError d.rc`. -/
theorem fatal_raises_run (extra : Nat → Option Int) (st : St) (pre post : List Dgram) (d : Dgram)
    (bs : List (List Dgram)) (hact : st.active = true)
    (hpre : ∀ x ∈ pre, x.rc = rcOk ∨ x.rc ∈ retryable) (h1 : d.rc ≠ rcOk) (h2 : d.rc ∉ retryable) :
    ∃ c, (run cfg extra clock st ((pre ++ d :: post) :: bs)).2.2 = .fatal d.rc c := by
  obtain ⟨c, hc⟩ := fatal_raises_iter (cfg := cfg) (clock := clock) extra st pre post d hpre h1 h2
  unfold run
  simp only [hact, if_true]
  cases hi : iter cfg extra clock st (pre ++ d :: post) with
  | mk st' x =>
    obtain ⟨evs, r⟩ := x
    rw [hi] at hc
    simp only at hc
    subst hc
    exact ⟨c, rfl⟩

/-- **Retryable codes are ignored.** A datagram with a retryable return code changes nothing
(`rcOk ∉ retryable` by `consts_documented`). -/
theorem retryable_ignored (d : Dgram) (ds : List Dgram) (outs : List (Nat × Out)) (pend : List (Nat × Nat)) :
    d.rc ∈ retryable → recvAll (d :: ds) outs pend = recvAll ds outs pend := by
  intro hx
  have e2 : retryable.contains d.rc = true := by simpa using hx
  have e1 : (d.rc != rcOk) = true := by
    simp [retryable] at hx
    rcases hx with hx | hx <;> simp [hx, rcOk]
  simp only [recvAll, e1, e2, if_true]

/-! ### termination under explicit progress hypotheses about the operating system

`run` returns `.exhausted` when the script of batches ends before the loop does, so "the call
terminates" is: for a long enough script the result is not `.exhausted`.  This cannot hold for every
environment (a clock that stands still never lets a deadline pass); the hypotheses below say what
the operating system (`time.time`, `select`, the socket) must provide.  They are assumptions about
the OS, not facts about rig. -/

/-- **What the OS must provide**, for an environment given as a clock and a stream of batches
(`firstBatches env n` are the first `n` batches):
(a) the clock never goes backwards;
(b) whenever an iteration of the run receives no datagram, its final clock reading is strictly later
    than the earliest deadline of an outstanding packet (`select` returned by timeout), `timedOut`;
(c) the environment delivers at most `D` datagrams in total. -/
structure Progress (cfg : Cfg) (l : List Int) (clock : Nat → Int) (s0 : Nat) (env : Nat → List Dgram)
    (D : Nat) : Prop where
  mono : ∀ k, clock k ≤ clock (k + 1)
  select : ∀ n, alongRun cfg (ext l) clock (timedOut cfg (ext l) clock) (St.init s0) (firstBatches env n) = true
  finite : ∀ n, (firstBatches env n).flatten.length ≤ D

/-- the same with (b) as `select` really behaves (`timedOutWeak`): after a `select` without datagram
the final reading is not earlier than the earliest deadline, and strictly later than the reading
the timeout was computed from -/
structure ProgressWeak (cfg : Cfg) (l : List Int) (clock : Nat → Int) (s0 : Nat) (env : Nat → List Dgram)
    (D : Nat) : Prop where
  mono : ∀ k, clock k ≤ clock (k + 1)
  select : ∀ n, alongRun cfg (ext l) clock (timedOutWeak cfg (ext l) clock) (St.init s0) (firstBatches env n) = true
  finite : ∀ n, (firstBatches env n).flatten.length ≤ D

theorem res_cases {r : Res} (h : r ≠ .exhausted) :
    r = .done ∨ (∃ c, r = .timeout c) ∨ (∃ rc c, r = .fatal rc c) := by
  cases r with
  | done => exact Or.inl rfl
  | timeout c => exact Or.inr (Or.inl ⟨c, rfl⟩)
  | fatal rc c => exact Or.inr (Or.inr ⟨rc, c, rfl⟩)
  | exhausted => exact absurd rfl h

section termination
variable {s0 : Nat}

/-- **Termination, on a finite script.** If every iteration that receives no datagram ends with a
clock reading strictly later than an outstanding deadline, a script with at least
`commands * n_tries + datagrams + 1` batches is never exhausted: the burst ends with `done`,
`TimeoutError` or `FatalReturnCodeError`.  (The monotone clock is not needed for this form of (b).) -/
theorem terminates_on_script (h : WF cfg) {batches : List (List Dgram)}
    (hsel : alongRun cfg (ext l) clock (timedOut cfg (ext l) clock) (St.init s0) batches = true)
    (hlen : l.length * cfg.nTries + batches.flatten.length + 1 ≤ batches.length) :
    (run cfg (ext l) clock (St.init s0) batches).2.2 ≠ .exhausted := by
  apply run_terminates h batches (St.init s0) [] (Inv.init cfg l _ s0) hsel
  simpa [sendKeys] using hlen

/-- **Iteration bound.** Under the same hypothesis the loop body runs at most
`commands * n_tries + datagrams + 1` times, however long the script is. -/
theorem iterations_bound (h : WF cfg) {batches : List (List Dgram)}
    (hsel : alongRun cfg (ext l) clock (timedOut cfg (ext l) clock) (St.init s0) batches = true) :
    iterations cfg (ext l) clock (St.init s0) batches ≤ l.length * cfg.nTries + batches.flatten.length + 1 := by
  by_cases hle : batches.length ≤ l.length * cfg.nTries + batches.flatten.length + 1
  · exact Nat.le_trans (iterations_le _ _ _ _ _) hle
  · have hsplit := List.take_append_drop (l.length * cfg.nTries + batches.flatten.length + 1) batches
    have hsel' : alongRun cfg (ext l) clock (timedOut cfg (ext l) clock) (St.init s0)
        (batches.take (l.length * cfg.nTries + batches.flatten.length + 1)) = true := by
      apply alongRun_prefix _ _ _ _ _ _ (batches.drop (l.length * cfg.nTries + batches.flatten.length + 1))
      rw [hsplit]; exact hsel
    have hfl := flatten_take_le batches (l.length * cfg.nTries + batches.flatten.length + 1)
    have hne := terminates_on_script h hsel' (by rw [List.length_take]; omega)
    have e : iterations cfg (ext l) clock (St.init s0) batches = iterations cfg (ext l) clock (St.init s0)
        (batches.take (l.length * cfg.nTries + batches.flatten.length + 1)) := by
      conv => lhs; rw [← hsplit]
      exact iterations_append _ _ _ _ _ _ hne
    rw [e]
    refine Nat.le_trans (iterations_le _ _ _ _ _) ?_
    rw [List.length_take]; omega

/-- **Termination under progress.** If the OS provides (a) a clock that never goes backwards, (b)
timed-out `select`s (strict form) and (c) at most `D` datagrams in total, then the burst of
`l.length` commands ends within `N = commands * n_tries + D + 1` loop iterations: on the first `N`
batches the result is `done`, `TimeoutError` or `FatalReturnCodeError` - never `exhausted` - and
every longer prefix of the environment gives exactly the same final state, events and result.
((a) is not used by this proof - (b) compares the final reading with the deadline directly; it is
needed by `terminates_under_select`.) -/
theorem terminates_under_progress (h : WF cfg) {env : Nat → List Dgram} {D : Nat}
    (hp : Progress cfg l clock s0 env D) :
    (let r := (run cfg (ext l) clock (St.init s0) (firstBatches env (l.length * cfg.nTries + D + 1))).2.2
     r = .done ∨ (∃ c, r = .timeout c) ∨ (∃ rc c, r = .fatal rc c)) ∧
    (∀ n, l.length * cfg.nTries + D + 1 ≤ n →
      run cfg (ext l) clock (St.init s0) (firstBatches env n) =
      run cfg (ext l) clock (St.init s0) (firstBatches env (l.length * cfg.nTries + D + 1))) ∧
    (∀ n, iterations cfg (ext l) clock (St.init s0) (firstBatches env n) ≤ l.length * cfg.nTries + D + 1) := by
  have hne : (run cfg (ext l) clock (St.init s0) (firstBatches env (l.length * cfg.nTries + D + 1))).2.2
      ≠ .exhausted := by
    apply terminates_on_script h (hp.select _)
    have := hp.finite (l.length * cfg.nTries + D + 1)
    rw [firstBatches_length]; omega
  refine ⟨res_cases hne, ?_, ?_⟩
  · intro n hn
    obtain ⟨k, rfl⟩ : ∃ k, n = (l.length * cfg.nTries + D + 1) + k := ⟨n - (l.length * cfg.nTries + D + 1), by omega⟩
    rw [firstBatches_add, run_append _ _ _ _ _ _ hne]
  · intro n
    have := iterations_bound h (hp.select n)
    have := hp.finite n
    omega

/-- **Termination, on a finite script, `select` as it really behaves.** With a clock that never goes
backwards, and every iteration without datagram ending with a reading that is not earlier than the
earliest deadline and strictly later than the reading taken before `select`, a script with at
least `2 * (commands * n_tries + datagrams + 1)` batches is never exhausted.  (A `select` that wakes
up exactly at the deadline does not retransmit - the code compares strictly - but the next
iteration does.) -/
theorem terminates_on_script_weak (h : WF cfg) (hm : ∀ k, clock k ≤ clock (k + 1))
    {batches : List (List Dgram)}
    (hsel : alongRun cfg (ext l) clock (timedOutWeak cfg (ext l) clock) (St.init s0) batches = true)
    (hlen : 2 * (l.length * cfg.nTries + batches.flatten.length + 1) ≤ batches.length) :
    (run cfg (ext l) clock (St.init s0) batches).2.2 ≠ .exhausted := by
  apply run_terminates_weak h hm batches (St.init s0) [] (Inv.init cfg l _ s0) hsel
  left
  simp only [sendKeys, List.filterMap_nil, List.length_nil, Nat.sub_zero]
  omega

theorem iterations_bound_weak (h : WF cfg) (hm : ∀ k, clock k ≤ clock (k + 1))
    {batches : List (List Dgram)}
    (hsel : alongRun cfg (ext l) clock (timedOutWeak cfg (ext l) clock) (St.init s0) batches = true) :
    iterations cfg (ext l) clock (St.init s0) batches ≤
      2 * (l.length * cfg.nTries + batches.flatten.length + 1) := by
  by_cases hle : batches.length ≤ 2 * (l.length * cfg.nTries + batches.flatten.length + 1)
  · exact Nat.le_trans (iterations_le _ _ _ _ _) hle
  · have hsplit := List.take_append_drop (2 * (l.length * cfg.nTries + batches.flatten.length + 1)) batches
    have hsel' : alongRun cfg (ext l) clock (timedOutWeak cfg (ext l) clock) (St.init s0)
        (batches.take (2 * (l.length * cfg.nTries + batches.flatten.length + 1))) = true := by
      apply alongRun_prefix _ _ _ _ _ _ (batches.drop (2 * (l.length * cfg.nTries + batches.flatten.length + 1)))
      rw [hsplit]; exact hsel
    have hfl := flatten_take_le batches (2 * (l.length * cfg.nTries + batches.flatten.length + 1))
    have hne := terminates_on_script_weak h hm hsel' (by rw [List.length_take]; omega)
    have e : iterations cfg (ext l) clock (St.init s0) batches = iterations cfg (ext l) clock (St.init s0)
        (batches.take (2 * (l.length * cfg.nTries + batches.flatten.length + 1))) := by
      conv => lhs; rw [← hsplit]
      exact iterations_append _ _ _ _ _ _ hne
    rw [e]
    refine Nat.le_trans (iterations_le _ _ _ _ _) ?_
    rw [List.length_take]; omega

/-- **Termination under what `select` guarantees.** As `terminates_under_progress`, with (b) weakened
to `timedOutWeak`; here the monotone clock (a) is needed, and the bound doubles:
`N = 2 * (commands * n_tries + D + 1)` iterations. -/
theorem terminates_under_select (h : WF cfg) {env : Nat → List Dgram} {D : Nat}
    (hp : ProgressWeak cfg l clock s0 env D) :
    (let r := (run cfg (ext l) clock (St.init s0) (firstBatches env (2 * (l.length * cfg.nTries + D + 1)))).2.2
     r = .done ∨ (∃ c, r = .timeout c) ∨ (∃ rc c, r = .fatal rc c)) ∧
    (∀ n, 2 * (l.length * cfg.nTries + D + 1) ≤ n →
      run cfg (ext l) clock (St.init s0) (firstBatches env n) =
      run cfg (ext l) clock (St.init s0) (firstBatches env (2 * (l.length * cfg.nTries + D + 1)))) ∧
    (∀ n, iterations cfg (ext l) clock (St.init s0) (firstBatches env n) ≤
      2 * (l.length * cfg.nTries + D + 1)) := by
  have hne : (run cfg (ext l) clock (St.init s0) (firstBatches env (2 * (l.length * cfg.nTries + D + 1)))).2.2
      ≠ .exhausted := by
    apply terminates_on_script_weak h hp.mono (hp.select _)
    have := hp.finite (2 * (l.length * cfg.nTries + D + 1))
    rw [firstBatches_length]; omega
  refine ⟨res_cases hne, ?_, ?_⟩
  · intro n hn
    obtain ⟨k, rfl⟩ : ∃ k, n = (2 * (l.length * cfg.nTries + D + 1)) + k :=
      ⟨n - (2 * (l.length * cfg.nTries + D + 1)), by omega⟩
    rw [firstBatches_add, run_append _ _ _ _ _ _ hne]
  · intro n
    have := iterations_bound_weak h hp.mono (hp.select n)
    have := hp.finite n
    omega

end termination

def stillCfg : Cfg := { window := 1, nTries := 1, modulus := 4, defaultTimeout := 1 }
def stillOut : Out := { cmd := 0, tries := 1, timeout := 1, deadline := 1 }

/-- **The progress hypothesis cannot be dropped.** With a clock that stands still no deadline ever
passes: one command, no datagram, and the script is exhausted however long it is. -/
theorem no_termination_without_progress (n : Nat) :
    (run stillCfg (ext [0]) (fun _ => 0) (St.init 0) (List.replicate n [])).2.2 = .exhausted := by
  have key : ∀ n (st : St), st.pend = [] →
      (st.outs = [(0, stillOut)] ∨ (st.outs = [] ∧ st.queued = true ∧ st.next = 0 ∧ st.seqCtr = 0)) →
      (run stillCfg (ext [0]) (fun _ => 0) st (List.replicate n [])).2.2 = .exhausted := by
    intro n
    induction n with
    | zero =>
      intro st hp ho
      rcases ho with ho | ⟨ho, hq, _, _⟩
      · simp [run, St.active, ho]
      · simp [run, St.active, ho, hq]
    | succ n ih =>
      intro st hp ho
      obtain ⟨nx, q, sc, k, outs, pend⟩ := st
      simp only at hp ho
      subst hp
      rw [List.replicate_succ]
      unfold run
      rcases ho with ho | ⟨ho, hq, hn, hs⟩
      · subst ho
        simp only [St.active, List.isEmpty_cons, Bool.not_false, Bool.or_true, Bool.true_or, if_true]
        have hi : (iter stillCfg (ext [0]) (fun _ => 0)
            { next := nx, queued := q, seqCtr := sc, k := k, outs := [(0, stillOut)], pend := [] } []) =
            ({ next := nx, queued := q, seqCtr := sc, k := k + 2, outs := [(0, stillOut)], pend := [] }, [], none) := by
          simp [iter, fill, recvAll, retrans, stillCfg, stillOut]
        rw [hi]
        simp only
        exact ih _ rfl (Or.inl rfl)
      · subst ho hq hn hs
        simp only [St.active, Bool.true_or, if_true]
        have hi : (iter stillCfg (ext [0]) (fun _ => 0)
            { next := 0, queued := true, seqCtr := 0, k := k, outs := [], pend := [] } []) =
            ({ next := 1, queued := true, seqCtr := 1, k := k + 3, outs := [(0, stillOut)], pend := [] },
             [Ev.send 0 0 1 0], none) := by
          simp [iter, fill, recvAll, retrans, ext, drawSeq, hasSeq, stillCfg, stillOut]
        rw [hi]
        simp only
        exact ih _ rfl (Or.inl rfl)
  exact key n (St.init 0) rfl (Or.inr ⟨rfl, rfl, rfl, rfl⟩)

/-! ### composition with C07: `SCPConnection.read` / `write` through the burst -/

section compose
variable {cfg : Cfg} {clock : Nat → Int} {s0 : Nat} {batches : List (List Dgram)} {st : St} {evs : List Ev} {res : Res}

/-- **Read through the burst (buffer form).** `chunks = C07.read buf addr len` are the commands of
`SCPConnection.read`.  For EVERY environment (clock, batches) and every window size: if each
delivered OK datagram that answers command `j` of this burst (`origin`, ghost ground truth as in
`callback_own_reply`, with its `netOK` / `fresh` hypotheses and at most `modulus` chunks) carries
the bytes the machine holds for chunk `j` (`hpay`), then no callback's slice assignment fails -
whatever the outcome of the burst - and if the burst ends `done` the assembled receive buffer is
exactly `C07.readMem m addr len`, whatever the buffer held before. -/
theorem read_through_burst_buffer (h : WF cfg) {buf addr len : Nat} (hb : 0 < buf) (m : C07.Mem)
    (hrun : run cfg (ext (chunkTimeouts (C07.read buf addr len))) clock (St.init s0) batches = (st, evs, res))
    (origin : Nat → Option Nat) (payload : Nat → List Nat)
    (netOK : ∀ d ∈ batches.flatten, ∀ j, origin d.id = some j → ∃ t, Ev.send d.seq j 1 t ∈ evs)
    (hlen : (C07.read buf addr len).length ≤ cfg.modulus)
    (fresh : ∀ d ∈ batches.flatten, origin d.id = none → ∀ c t, Ev.send d.seq c 1 t ∉ evs)
    (hpay : ∀ d ∈ batches.flatten, d.rc = rcOk → ∀ j ch, origin d.id = some j →
      (C07.read buf addr len)[j]? = some ch → payload d.id = C07.readMem m ch.addr ch.size)
    (buffer0 : C07.Mem) :
    ∃ buffer, assembleRead (C07.read buf addr len) payload addr evs buffer0 = some buffer ∧
      (res = .done → C07.readMem buffer 0 len = C07.readMem m addr len) := by
  have hlen' : (chunkTimeouts (C07.read buf addr len)).length ≤ cfg.modulus := by
    rw [chunkTimeouts_length]; exact hlen
  have hcb : ∀ c i, Ev.callback c i ∈ evs →
      ∃ ch, (C07.read buf addr len)[c]? = some ch ∧ payload i = C07.readMem m ch.addr ch.size := by
    intro c i hm
    have hc : c < (C07.read buf addr len).length := by
      have := callback_lt h hrun hm
      rwa [chunkTimeouts_length] at this
    obtain ⟨d, hd, hid, hrc, _⟩ := callback_own_seq h hrun hm
    have ho := callback_own_reply h hrun origin netOK hlen' fresh hm
    refine ⟨(C07.read buf addr len)[c], List.getElem?_eq_getElem hc, ?_⟩
    rw [← hid]
    exact hpay d hd hrc c _ (by rw [hid]; exact ho) (List.getElem?_eq_getElem hc)
  refine ⟨_, assembleRead_fold _ payload addr m evs buffer0 hcb, ?_⟩
  intro hdone
  apply C07.read_exact_any_order buf addr len m hb buffer0
  · intro ch hch
    obtain ⟨c, i, _, hget⟩ := mem_doneChunks.mp hch
    exact List.mem_of_getElem? hget
  · intro ch hch
    obtain ⟨c, hc, rfl⟩ := List.getElem_of_mem hch
    have hcalled := done_all_called h hrun hdone c (by rw [chunkTimeouts_length]; exact hc)
    obtain ⟨i, hi⟩ := mem_calledOf.mp hcalled
    exact mem_doneChunks.mpr ⟨c, i, hi, List.getElem?_eq_getElem hc⟩

/-- **Read through the burst.** Under the hypotheses of `read_through_burst_buffer`, `SCPConnection.read`
(`readThrough`) never fails with a callback's `ValueError`, and when the burst ends `done` it returns
exactly the bytes of memory `[addr, addr + len)` - for every environment and every window size. -/
theorem read_through_burst (h : WF cfg) {buf addr len : Nat} (hb : 0 < buf) (m : C07.Mem)
    (hrun : run cfg (ext (chunkTimeouts (C07.read buf addr len))) clock (St.init s0) batches = (st, evs, res))
    (origin : Nat → Option Nat) (payload : Nat → List Nat)
    (netOK : ∀ d ∈ batches.flatten, ∀ j, origin d.id = some j → ∃ t, Ev.send d.seq j 1 t ∈ evs)
    (hlen : (C07.read buf addr len).length ≤ cfg.modulus)
    (fresh : ∀ d ∈ batches.flatten, origin d.id = none → ∀ c t, Ev.send d.seq c 1 t ∉ evs)
    (hpay : ∀ d ∈ batches.flatten, d.rc = rcOk → ∀ j ch, origin d.id = some j →
      (C07.read buf addr len)[j]? = some ch → payload d.id = C07.readMem m ch.addr ch.size) :
    readThrough cfg clock s0 batches payload buf addr len ≠ .valueError ∧
    (res = .done → readThrough cfg clock s0 batches payload buf addr len = .ok (C07.readMem m addr len)) ∧
    (res ≠ .done → readThrough cfg clock s0 batches payload buf addr len = .burst res) := by
  obtain ⟨buffer, hasm, hdone⟩ := read_through_burst_buffer h hb m hrun origin payload netOK hlen fresh hpay
    (fun _ => 0)
  unfold readThrough
  simp only [ext_chunkTimeouts, hrun, hasm]
  refine ⟨?_, ?_, ?_⟩
  · cases res <;> simp
  · intro hd; subst hd; simp only; rw [hdone rfl]
  · intro hnd; cases res <;> simp at hnd ⊢

/-- **Write through the burst.** `chunks = C07.write buf addr data` are the commands of
`SCPConnection.write`; `exec` lists (ghost) the command indexes whose request datagrams the machine
executed, in order.  For EVERY environment and every window size: if the machine executes only
requests that this burst transmitted (`hexec`; no other writer), and an OK datagram that answers
command `j` exists only if the machine executed `j` (`hreply`), then - under the `netOK` / `fresh`
hypotheses of `callback_own_reply` - when the burst ends `done` every chunk was executed at least
once, only chunks of this write were executed, and the machine's memory is exactly
`C07.writeMem m addr data`: `data` at `[addr, addr + len)`, every other byte unchanged - however
often and in whatever order the retransmitted requests were executed. -/
theorem write_through_burst (h : WF cfg) {buf addr : Nat} {data : List Nat} (hb : 0 < buf) (m : C07.Mem)
    (hrun : run cfg (ext (chunkTimeouts (C07.write buf addr data))) clock (St.init s0) batches = (st, evs, res))
    (origin : Nat → Option Nat)
    (netOK : ∀ d ∈ batches.flatten, ∀ j, origin d.id = some j → ∃ t, Ev.send d.seq j 1 t ∈ evs)
    (hlen : (C07.write buf addr data).length ≤ cfg.modulus)
    (fresh : ∀ d ∈ batches.flatten, origin d.id = none → ∀ c t, Ev.send d.seq c 1 t ∉ evs)
    (exec : List Nat)
    (hexec : ∀ j ∈ exec, ∃ s k t, Ev.send s j k t ∈ evs)
    (hreply : ∀ d ∈ batches.flatten, d.rc = rcOk → ∀ j, origin d.id = some j → j ∈ exec) :
    res = .done →
      (∀ j, j < (C07.write buf addr data).length → j ∈ exec) ∧
      (∀ j ∈ exec, j < (C07.write buf addr data).length) ∧
      memAfter (C07.write buf addr data) exec m = C07.writeMem m addr data := by
  intro hdone
  have hlen' : (chunkTimeouts (C07.write buf addr data)).length ≤ cfg.modulus := by
    rw [chunkTimeouts_length]; exact hlen
  have hall : ∀ j, j < (C07.write buf addr data).length → j ∈ exec := by
    intro j hj
    have hcalled := done_all_called h hrun hdone j (by rw [chunkTimeouts_length]; exact hj)
    obtain ⟨i, hi⟩ := mem_calledOf.mp hcalled
    obtain ⟨d, hd, hid, hrc, _⟩ := callback_own_seq h hrun hi
    have ho := callback_own_reply h hrun origin netOK hlen' fresh hi
    exact hreply d hd hrc j (by rw [hid]; exact ho)
  have hsub : ∀ j ∈ exec, j < (C07.write buf addr data).length := by
    intro j hj
    obtain ⟨s, k, t, hs⟩ := hexec j hj
    have := (tries_bound h hrun hs).2.2
    rwa [chunkTimeouts_length] at this
  refine ⟨hall, hsub, ?_⟩
  unfold memAfter
  apply C07.write_exact_any_order buf addr data m hb
  · intro w hw
    obtain ⟨j, _, hget⟩ := List.mem_filterMap.mp hw
    exact List.mem_of_getElem? hget
  · intro c hc
    obtain ⟨j, hj, rfl⟩ := List.getElem_of_mem hc
    exact List.mem_filterMap.mpr ⟨j, hall j hj, List.getElem?_eq_getElem hj⟩

/-- **Write, whatever the outcome.** If the burst raises (or the script ends first), only chunks of
this write were executed: every byte of the machine's memory either still has its old value or
already has the value the complete write gives it; bytes outside `[addr, addr + len)` are unchanged. -/
theorem write_through_burst_partial (h : WF cfg) {buf addr : Nat} {data : List Nat} (hb : 0 < buf) (m : C07.Mem)
    (hrun : run cfg (ext (chunkTimeouts (C07.write buf addr data))) clock (St.init s0) batches = (st, evs, res))
    (exec : List Nat)
    (hexec : ∀ j ∈ exec, ∃ s k t, Ev.send s j k t ∈ evs) (a : Nat) :
    memAfter (C07.write buf addr data) exec m a = C07.writeMem m addr data a ∨
    memAfter (C07.write buf addr data) exec m a = m a := by
  unfold memAfter
  rw [C07.foldl_execWrite]
  have hc := C07.writeChunks_covers buf hb data.length addr data (Nat.le_refl _)
  have hf := C07.wcovers_facts (C07.writeMem m addr data) buf _ _ _ hc (by
    intro i hi
    simp only [C07.writeMem]
    rw [if_pos (by omega)]; congr 1; omega)
  have sp := C07.applyAll_spec (C07.writeMem m addr data)
    ((exec.filterMap (fun j => (C07.write buf addr data)[j]?)).map (fun c => (c.addr, c.data))) m (by
    intro p hp
    simp only [List.mem_map] at hp
    obtain ⟨c, hc1, rfl⟩ := hp
    obtain ⟨j, _, hget⟩ := List.mem_filterMap.mp hc1
    exact hf.1 c (List.mem_of_getElem? hget)) a
  by_cases hin : ∃ p ∈ (exec.filterMap (fun j => (C07.write buf addr data)[j]?)).map (fun c => (c.addr, c.data)),
      C07.InPatch p a
  · exact Or.inl (sp.1 hin)
  · exact Or.inr (sp.2 hin)

end compose

/-- **`SCPConnection.read`, total.** Both results together: if the OS provides progress (`Progress`,
for the burst of the read's chunks) and the network/machine satisfy the hypotheses of
`read_through_burst` on the first `N = chunks * n_tries + D + 1` batches, then within `N` loop
iterations `read` either returns exactly the bytes of memory `[addr, addr + len)`, or raises
`TimeoutError` / `FatalReturnCodeError`; it never runs on and never fails in a callback. -/
theorem read_through_burst_total {cfg : Cfg} {clock : Nat → Int} {s0 : Nat} (h : WF cfg) {buf addr len : Nat}
    (hb : 0 < buf) (m : C07.Mem) {env : Nat → List Dgram} {D : Nat}
    (hp : Progress cfg (chunkTimeouts (C07.read buf addr len)) clock s0 env D)
    (origin : Nat → Option Nat) (payload : Nat → List Nat)
    (netOK : ∀ d ∈ (firstBatches env ((C07.read buf addr len).length * cfg.nTries + D + 1)).flatten,
      ∀ j, origin d.id = some j → ∃ t, Ev.send d.seq j 1 t ∈
        (run cfg (ext (chunkTimeouts (C07.read buf addr len))) clock (St.init s0)
          (firstBatches env ((C07.read buf addr len).length * cfg.nTries + D + 1))).2.1)
    (hlen : (C07.read buf addr len).length ≤ cfg.modulus)
    (fresh : ∀ d ∈ (firstBatches env ((C07.read buf addr len).length * cfg.nTries + D + 1)).flatten,
      origin d.id = none → ∀ c t, Ev.send d.seq c 1 t ∉
        (run cfg (ext (chunkTimeouts (C07.read buf addr len))) clock (St.init s0)
          (firstBatches env ((C07.read buf addr len).length * cfg.nTries + D + 1))).2.1)
    (hpay : ∀ d ∈ (firstBatches env ((C07.read buf addr len).length * cfg.nTries + D + 1)).flatten,
      d.rc = rcOk → ∀ j ch, origin d.id = some j →
      (C07.read buf addr len)[j]? = some ch → payload d.id = C07.readMem m ch.addr ch.size) :
    (let r := readThrough cfg clock s0
        (firstBatches env ((C07.read buf addr len).length * cfg.nTries + D + 1)) payload buf addr len
     r = .ok (C07.readMem m addr len) ∨ (∃ c, r = .burst (.timeout c)) ∨ (∃ rc c, r = .burst (.fatal rc c))) := by
  have hN : (chunkTimeouts (C07.read buf addr len)).length * cfg.nTries + D + 1 =
      (C07.read buf addr len).length * cfg.nTries + D + 1 := by rw [chunkTimeouts_length]
  have ht := (terminates_under_progress h hp).1
  rw [hN] at ht
  have hr := read_through_burst (cfg := cfg) (clock := clock) (s0 := s0)
    (batches := firstBatches env ((C07.read buf addr len).length * cfg.nTries + D + 1))
    (st := (run cfg (ext (chunkTimeouts (C07.read buf addr len))) clock (St.init s0)
          (firstBatches env ((C07.read buf addr len).length * cfg.nTries + D + 1))).1)
    (evs := (run cfg (ext (chunkTimeouts (C07.read buf addr len))) clock (St.init s0)
          (firstBatches env ((C07.read buf addr len).length * cfg.nTries + D + 1))).2.1)
    (res := (run cfg (ext (chunkTimeouts (C07.read buf addr len))) clock (St.init s0)
          (firstBatches env ((C07.read buf addr len).length * cfg.nTries + D + 1))).2.2)
    h hb m rfl origin payload netOK hlen fresh hpay
  simp only at ht ⊢
  rcases ht with hd | ⟨c, hc⟩ | ⟨rc, c, hc⟩
  · exact Or.inl (hr.2.1 hd)
  · refine Or.inr (Or.inl ⟨c, ?_⟩)
    rw [hr.2.2 (by rw [hc]; simp), hc]
  · refine Or.inr (Or.inr ⟨rc, c, ?_⟩)
    rw [hr.2.2 (by rw [hc]; simp), hc]

/-! ### without freshness the own-reply clause fails: sequence-number wrap-around -/

namespace Wrap
def cfgW : Cfg := { window := 1, nTries := 3, modulus := 4, defaultTimeout := 2 }
def lW : List Int := [0, 0, 0, 0, 0]
def clockW : Nat → Int := fun k => k
def okW (id seq : Nat) : Dgram := { id := id, rc := 128, seq := seq }
/-- replies to commands 0..3, then a duplicate (id 20) of the reply to command 0 -/
def batchesW : List (List Dgram) := [[okW 10 0], [okW 11 1], [okW 12 2], [okW 13 3], [okW 20 0], []]
/-- ground truth: datagram 10 + j answers command j (j < 4), datagram 20 answers command 0 -/
def originW : Nat → Option Nat := fun i => if i = 20 then some 0 else if i < 14 then some (i - 10) else none

theorem run_eq : (run cfgW (ext lW) clockW (St.init 0) batchesW).2 =
    ([.send 0 0 1 0, .send 1 1 1 3, .callback 0 10, .send 2 2 1 6, .callback 1 11, .send 3 3 1 9,
      .callback 2 12, .send 0 4 1 12, .callback 3 13, .callback 4 20], .done) := by decide
end Wrap

open Wrap in
/-- **Counterexample (sequence wrap).** Modulus 4, window 1, five commands: commands 0 and 4 both
get sequence number 0.  Every reply carries its request's sequence number (`netOK` holds), but a
duplicate of the reply to command 0 (id 20), delivered while command 4 is outstanding, is accepted
as the reply to command 4: its callback is called with a foreign reply and the burst returns
normally.  So `callback_own_reply` needs `l.length ≤ cfg.modulus`.  (With the real 16-bit sequence
numbers this takes 65,537 commands: the known finding `seq-wrap`.) -/
theorem own_reply_wrap_counterexample :
    ∃ (cfg : Cfg) (l : List Int) (clock : Nat → Int) (s0 : Nat) (batches : List (List Dgram))
      (origin : Nat → Option Nat) (st : St) (evs : List Ev) (res : Res),
      WF cfg ∧ l.length = cfg.modulus + 1 ∧
      run cfg (ext l) clock (St.init s0) batches = (st, evs, res) ∧ res = .done ∧
      (∀ d ∈ batches.flatten, ∀ j, origin d.id = some j → ∃ t, Ev.send d.seq j 1 t ∈ evs) ∧
      ∃ c i, Ev.callback c i ∈ evs ∧ origin i ≠ some c := by
  refine ⟨cfgW, lW, clockW, 0, batchesW, originW,
    (run cfgW (ext lW) clockW (St.init 0) batchesW).1,
    (run cfgW (ext lW) clockW (St.init 0) batchesW).2.1,
    (run cfgW (ext lW) clockW (St.init 0) batchesW).2.2,
    by unfold WF; decide, rfl, rfl, ?_, ?_, 4, 20, ?_, by decide⟩
  · rw [run_eq]
  · intro d hd j hj
    rw [run_eq]
    simp [batchesW, okW] at hd
    rcases hd with rfl | rfl | rfl | rfl | rfl <;> simp [originW] at hj <;> subst hj <;> simp
  · rw [run_eq]; decide

/-! ### non-vacuity: a concrete burst with loss, a retryable code, a duplicate reply,
retransmissions and callbacks satisfies the hypotheses and exercises every clause -/

namespace Example
def cfgX : Cfg := { window := 2, nTries := 3, modulus := 4, defaultTimeout := 2 }
def lX : List Int := [0, 1, 0]
def clockX : Nat → Int := fun k => k
def okD (id seq : Nat) : Dgram := { id := id, rc := 128, seq := seq }
/-- nothing; reply to command 0; a retryable code; reply to 1 and a duplicate reply to 0; reply to 2 -/
def batchesX : List (List Dgram) :=
  [[], [okD 10 1], [{ id := 11, rc := 130, seq := 2 }], [okD 12 2, okD 13 1], [okD 14 3], []]

example : WF cfgX := by unfold WF; decide

/-- three commands, window 2: commands 0, 1 and 2 are retransmitted (same sequence number, later
than the timeout), each callback is called exactly once with its own reply, the burst completes -/
example : (run cfgX (ext lX) clockX (St.init 1) batchesX).2 =
    ([.send 1 0 1 0, .send 2 1 1 1, .send 1 0 2 3, .send 2 1 2 5, .send 3 2 1 6, .callback 0 10,
      .send 3 2 2 10, .callback 1 12, .callback 2 14], .done) := by decide

/-- no reply at all: `n_tries` transmissions, then `TimeoutError` for command 0 -/
example : (run { cfgX with nTries := 2 } (ext [0]) (fun k => 2 * k) (St.init 1) [[], [], [], [], []]).2 =
    ([.send 1 0 1 0, .send 1 0 2 4], .timeout 0) := by decide

/-- a fatal code after an OK reply and a retryable one: `FatalReturnCodeError` -/
example : (run cfgX (ext lX) clockX (St.init 1)
    [[okD 10 1, { id := 11, rc := 130, seq := 2 }, { id := 12, rc := 131, seq := 2 }, okD 13 2]]).2.2 =
    .fatal 131 (some 1) := by decide

/-- a reachable state with a full window -/
example : ∃ st, Reach cfgX lX clockX st ∧ st.outs.length = cfgX.window :=
  ⟨_, Reach.step _ [] (Reach.init 1) (by decide) (by decide), by decide⟩


/-- a burst with loss, a retryable code, a duplicate reply and retransmissions, continued by empty
batches for ever, satisfies the progress hypotheses (a), (b) (strict form), (c) with 6 datagrams -/
example : Progress cfgX lX clockX 1 (scriptEnv batchesX) 6 :=
  ⟨fun k => by simp only [clockX]; omega,
   fun n => (script_progress _ _ _ _ _ batchesX (by decide) (by decide) n).1,
   fun n => Nat.le_trans (script_progress cfgX (ext lX) clockX (timedOut cfgX (ext lX) clockX) (St.init 1)
     batchesX (by decide) (by decide) n).2 (by decide)⟩

/-- a `select` that wakes up exactly at the deadline (clock reading 2 = deadline 0 + 2): the strict
form of (b) fails, the realistic one holds; the burst retransmits one iteration later and ends
with `TimeoutError` -/
example : alongRun { cfgX with nTries := 2 } (ext [0]) clockX (timedOut { cfgX with nTries := 2 } (ext [0]) clockX)
    (St.init 1) [[], [], [], []] = false := by decide
example : ProgressWeak { cfgX with nTries := 2 } [0] clockX 1 (scriptEnv [[], [], [], []]) 0 :=
  ⟨fun k => by simp only [clockX]; omega,
   fun n => (script_progress _ _ _ _ _ [[], [], [], []] (by decide) (by decide) n).1,
   fun n => Nat.le_trans (script_progress { cfgX with nTries := 2 } (ext [0]) clockX
     (timedOutWeak { cfgX with nTries := 2 } (ext [0]) clockX) (St.init 1) [[], [], [], []]
     (by decide) (by decide) n).2 (by decide)⟩
example : (run { cfgX with nTries := 2 } (ext [0]) clockX (St.init 1) [[], [], [], []]).2 =
    ([.send 1 0 1 0, .send 1 0 2 4], .timeout 0) := by decide

/-- `batchesX` followed by a stale datagram of an earlier burst (id 15, sequence number 0, which
this burst does not use) -/
def batchesY : List (List Dgram) := batchesX ++ [[okD 15 0]]
/-- ground truth for `batchesY`: 10 and its duplicate 13 answer command 0, 11 (retryable code) and
12 answer command 1, 14 answers command 2, 15 is stale -/
def originY : Nat → Option Nat := fun i =>
  if i = 10 ∨ i = 13 then some 0 else if i = 11 ∨ i = 12 then some 1 else if i = 14 then some 2 else none

theorem runY_eq : (run cfgX (ext lX) clockX (St.init 1) batchesY).2.1 =
    [.send 1 0 1 0, .send 2 1 1 1, .send 1 0 2 3, .send 2 1 2 5, .send 3 2 1 6,
      .callback 0 10, .send 3 2 2 10, .callback 1 12, .callback 2 14] := by decide

/-- the hypotheses of `callback_own_reply` (`netOK`, at most `modulus` commands, `fresh`) are
satisfied by a run with retransmissions, a duplicate reply, a stale datagram and callbacks -/
example :
    (∀ d ∈ batchesY.flatten, ∀ j, originY d.id = some j →
      ∃ t, Ev.send d.seq j 1 t ∈ (run cfgX (ext lX) clockX (St.init 1) batchesY).2.1) ∧
    lX.length ≤ cfgX.modulus ∧
    (∀ d ∈ batchesY.flatten, originY d.id = none →
      ∀ c t, Ev.send d.seq c 1 t ∉ (run cfgX (ext lX) clockX (St.init 1) batchesY).2.1) ∧
    Ev.callback 1 12 ∈ (run cfgX (ext lX) clockX (St.init 1) batchesY).2.1 := by
  rw [runY_eq]
  refine ⟨?_, by decide, ?_, by decide⟩
  · intro d hd j hj
    simp [batchesY, batchesX, okD] at hd
    rcases hd with rfl | rfl | rfl | rfl | rfl | rfl <;> simp [originY] at hj <;> subst hj <;> simp
  · intro d hd hn c t
    simp [batchesY, batchesX, okD] at hd
    rcases hd with rfl | rfl | rfl | rfl | rfl | rfl <;> simp [originY] at hn <;> simp

/-! non-vacuity of the composition theorems: a 10-byte read / write at an odd address with a 4-byte
buffer (3 chunks), window 2, with a lost request, a retransmission, replies out of order and a
duplicate reply -/
def memR : C07.Mem := fun a => a % 7 + 1
/-- nothing; the reply to chunk 1; the reply to chunk 0 and a duplicate of it; the reply to chunk 2 -/
def batchesR : List (List Dgram) := [[], [okD 10 2], [okD 11 1, okD 12 1], [okD 13 3], []]
def originR : Nat → Option Nat := fun i =>
  if i = 10 then some 1 else if i = 11 ∨ i = 12 then some 0 else if i = 13 then some 2 else none
def payloadR : Nat → List Nat := fun i =>
  if i = 10 then C07.readMem memR 17 4 else if i = 11 ∨ i = 12 then C07.readMem memR 13 4
  else C07.readMem memR 21 2

theorem runR_eq : (run cfgX (ext (chunkTimeouts (C07.read 4 13 10))) clockX (St.init 1) batchesR).2 =
    ([.send 1 0 1 0, .send 2 1 1 1, .send 1 0 2 3, .send 3 2 1 6, .callback 1 10, .callback 0 11,
      .callback 2 13], .done) := by decide

/-- the hypotheses of `read_through_burst` hold for this run (chunk 1 completes before chunk 0, chunk
0 is retransmitted, its duplicate reply is dropped), and `SCPConnection.read` returns the memory -/
example : readThrough cfgX clockX 1 batchesR payloadR 4 13 10 = .ok (C07.readMem memR 13 10) := by
  have hev := congrArg Prod.fst runR_eq
  have hres := congrArg Prod.snd runR_eq
  simp only at hev hres
  refine (read_through_burst (cfg := cfgX) (clock := clockX) (s0 := 1) (batches := batchesR)
    (st := (run cfgX (ext (chunkTimeouts (C07.read 4 13 10))) clockX (St.init 1) batchesR).1)
    (evs := (run cfgX (ext (chunkTimeouts (C07.read 4 13 10))) clockX (St.init 1) batchesR).2.1)
    (res := (run cfgX (ext (chunkTimeouts (C07.read 4 13 10))) clockX (St.init 1) batchesR).2.2)
    (by unfold WF; decide) (by decide) memR rfl originR payloadR ?_ (by decide) ?_ ?_).2.1 hres
  · intro d hd j hj
    rw [hev]
    simp [batchesR, okD] at hd
    rcases hd with rfl | rfl | rfl | rfl <;> simp [originR] at hj <;> subst hj <;> simp
  · intro d hd hn c t
    simp [batchesR, okD] at hd
    rcases hd with rfl | rfl | rfl | rfl <;> simp [originR] at hn
  · intro d hd hrc j ch hj hch
    simp [batchesR, okD] at hd
    rcases hd with rfl | rfl | rfl | rfl <;> simp [originR] at hj <;> subst hj <;>
      simp [C07.read, C07.readChunks] at hch <;> subst hch <;> simp [payloadR]
example : readThrough cfgX clockX 1 batchesR payloadR 4 13 10 = .ok [7, 1, 2, 3, 4, 5, 6, 7, 1, 2] := by decide

theorem runW_eq : (run cfgX (ext (chunkTimeouts (C07.write 4 13 [1,2,3,4,5,6,7,8,9,10]))) clockX (St.init 1)
      batchesR).2 =
    ([.send 1 0 1 0, .send 2 1 1 1, .send 1 0 2 3, .send 3 2 1 6, .callback 1 10, .callback 0 11,
      .callback 2 13], .done) := by decide

/-- the hypotheses of `write_through_burst` hold when the machine executed chunk 1, then chunk 0
twice (both transmissions arrived), then chunk 2; memory then holds exactly the data -/
example : memAfter (C07.write 4 13 [1,2,3,4,5,6,7,8,9,10]) [1, 0, 0, 2] memR =
    C07.writeMem memR 13 [1,2,3,4,5,6,7,8,9,10] := by
  have hev := congrArg Prod.fst runW_eq
  have hres := congrArg Prod.snd runW_eq
  simp only at hev hres
  refine (write_through_burst (cfg := cfgX) (clock := clockX) (s0 := 1) (batches := batchesR)
    (st := (run cfgX (ext (chunkTimeouts (C07.write 4 13 [1,2,3,4,5,6,7,8,9,10]))) clockX (St.init 1) batchesR).1)
    (evs := (run cfgX (ext (chunkTimeouts (C07.write 4 13 [1,2,3,4,5,6,7,8,9,10]))) clockX (St.init 1) batchesR).2.1)
    (res := (run cfgX (ext (chunkTimeouts (C07.write 4 13 [1,2,3,4,5,6,7,8,9,10]))) clockX (St.init 1) batchesR).2.2)
    (by unfold WF; decide) (by decide) memR rfl originR ?_ (by decide) ?_ [1, 0, 0, 2] ?_ ?_ hres).2.2
  · intro d hd j hj
    rw [hev]
    simp [batchesR, okD] at hd
    rcases hd with rfl | rfl | rfl | rfl <;> simp [originR] at hj <;> subst hj <;> simp
  · intro d hd hn c t
    simp [batchesR, okD] at hd
    rcases hd with rfl | rfl | rfl | rfl <;> simp [originR] at hn
  · intro j hj
    rw [hev]
    simp at hj
    rcases hj with rfl | rfl | rfl
    · exact ⟨2, 1, 1, by simp⟩
    · exact ⟨1, 1, 0, by simp⟩
    · exact ⟨3, 1, 6, by simp⟩
  · intro d hd hrc j hj
    simp [batchesR, okD] at hd
    rcases hd with rfl | rfl | rfl | rfl <;> simp [originR] at hj <;> subst hj <;> simp
example : C07.readMem (memAfter (C07.write 4 13 [1,2,3,4,5,6,7,8,9,10]) [1, 0, 0, 2] memR) 12 12 =
    [6, 1, 2, 3, 4, 5, 6, 7, 8, 9, 10, 3] := by decide
end Example

end Rig.C06
