/-
C05 - translator tie, outer loops: the generated loops over the resources of a vertex (`allocate_loop5`), the
vertices of a chip (`allocate_loop4`) and the chips (`allocate_loop3`) of `Gen/PyFun.lean: allocate` are the model's
`allocResources` / `allocVertices` / `allocChips` (run with one fuel for every `while` loop), incl. the `break` /
exception flag, the order of the result dicts and the pointers handed from one vertex to the next.
-/
import RigModel.Props.C05GenDefs
set_option linter.unusedSimpArgs false
set_option linter.unusedVariables false
set_option linter.unusedTactic false
set_option linter.unreachableTactic false

namespace Rig.C05
open Rig.Gen Rig.PyDict
open Rig.Gen.PyFun (pyWhile pyDictGet pyDictGetD pyDictSet pyDictMod pyOptGet)

abbrev OutTy := List (Nat × List (Nat × Option (Int × Int)))

/-- `vertex_allocation[resource] = slice(start, stop)` -/
def encE (e : Entry) : Nat × Option (Int × Int) := (e.res, some (encS e.s))

/-- the returned `{vertex: {resource: slice}}` in insertion order -/
def encOut (out : List (Vertex × List Entry)) : OutTy := out.map fun o => (o.1, o.2.map encE)

/-- result or exception of the model, as the generated function reports it -/
def encR : Except Err (List (Vertex × List Entry)) → Except String OutTy
  | .ok out => .ok (encOut out)
  | .error e => .error (errName e)

/-! ### association-list facts -/

theorem lookup_none_of_not_mem {α : Type} (l : List (Nat × α)) (k : Nat) (h : k ∉ l.map (·.1)) :
    l.lookup k = none := by
  induction l with
  | nil => rfl
  | cons a t ih =>
    obtain ⟨a1, a2⟩ := a
    simp only [List.map_cons, List.mem_cons, not_or] at h
    have : (k == a1) = false := by simpa using h.1
    simp only [List.lookup, this]
    exact ih h.2

theorem lookup_append_none {α : Type} (l1 l2 : List (Nat × α)) (k : Nat) (h1 : l1.lookup k = none)
    (h2 : l2.lookup k = none) : (l1 ++ l2).lookup k = none := by
  induction l1 with
  | nil => simpa using h2
  | cons a t ih =>
    obtain ⟨a1, a2⟩ := a
    simp only [List.lookup, List.cons_append] at h1 ⊢
    cases hk : (k == a1)
    · rw [hk] at h1; exact ih h1
    · rw [hk] at h1; simp at h1

theorem lookup_single_ne {α : Type} (k k0 : Nat) (x : α) (h : k ≠ k0) : [(k0, x)].lookup k = none := by
  have : (k == k0) = false := by simpa using h
  simp [List.lookup, this]

/-! ### the loop over the resources of one vertex -/

theorem foldl_brk5 (mget : (Int × Int) → Except String (List (Nat × Int))) (fuel : Nat)
    (G : List (Nat × List (Int × Int))) (L : List ((Int × Int) × List (Nat × List (Int × Int)))) (A : List (Nat × Int))
    (xy : Int × Int) (r : RetTy) (rp : List (Nat × Int)) (va : VA) :
    ∀ rs : List (Nat × Int), List.foldl (PyFun.allocate_loop5 mget fuel G L A xy) (true, r, rp, va) rs = (true, r, rp, va) := by
  intro rs
  induction rs with
  | nil => rfl
  | cons a t ih => rw [List.foldl_cons]; exact ih

theorem allocOneF_res {fuel : Nat} {inp : Input} {xy : Chip} {v : Vertex} {res : Res} {d : Int} {ptrs ptrs' : Ptrs}
    {e : Entry} (h : allocOneF fuel inp xy v res d ptrs = .ok (ptrs', e)) : e.res = res ∧ e.v = v := by
  unfold allocOneF at h
  split at h
  · simp at h
  · simp only at h
    split at h
    · simp at h
    · split at h
      · simp at h
      · split at h
        · simp at h
        · split at h
          · simp at h
          · simp at h
          · injection h with h
            injection h with h1 h2
            subst h2
            exact ⟨rfl, rfl⟩

/-- **`for resource, requirement in iteritems(vertices_resources[vertex])`** = the model's `allocResources`
(with the same fuel for every `while` loop): same ranges in the same order in `vertex_allocation`, the pointers
handed on, or the same exception -/
theorem gen_resources {inp : Input} {G : List (Nat × List (Int × Int))}
    {L : List ((Int × Int) × List (Nat × List (Int × Int)))} {A : List (Nat × Int)} (T : Tables inp G L A)
    (hA : ∀ res, alignment inp.constraints res ≠ 0) (fuel : Nat) (hf : 0 < fuel) (xy : Chip) (v : Vertex) :
    ∀ (rs : List (Res × Int)) (rp : List (Nat × Int)) (ptrs : Ptrs) (va : VA),
      Rel inp.machine.chipResources rp ptrs → (rs.map (·.1)).Nodup → (∀ rd ∈ rs, va.lookup rd.1 = none) →
      (∀ ptrs' es, allocResourcesG (allocOneF fuel inp) xy v rs ptrs = .ok (ptrs', es) →
        ∃ rp', List.foldl (PyFun.allocate_loop5 (mgetOf inp.machine) fuel G L A xy) (false, none, rp, va) rs
            = (false, none, rp', va ++ es.map encE) ∧ Rel inp.machine.chipResources rp' ptrs') ∧
      (∀ err, allocResourcesG (allocOneF fuel inp) xy v rs ptrs = .error err →
        ∃ rp' va', List.foldl (PyFun.allocate_loop5 (mgetOf inp.machine) fuel G L A xy) (false, none, rp, va) rs
            = (true, some (.error (errName err)), rp', va')) := by
  intro rs
  induction rs with
  | nil =>
    intro rp ptrs va hr _ _
    refine ⟨?_, ?_⟩
    · intro ptrs' es h
      simp only [allocResourcesG] at h
      injection h with h
      injection h with h1 h2
      subst h1; subst h2
      exact ⟨rp, by simp, hr⟩
    · intro err h; simp [allocResourcesG] at h
  | cons rd rs ih =>
    intro rp ptrs va hr hnd hva
    obtain ⟨res, d⟩ := rd
    obtain ⟨g1, g2⟩ := gen_allocOne T hA fuel hf xy v res d rp ptrs va hr
    simp only [List.map_cons, List.nodup_cons] at hnd
    simp only [List.foldl_cons, allocResourcesG]
    cases h1 : allocOneF fuel inp xy v res d ptrs with
    | error err =>
      obtain ⟨rp', va', e⟩ := g2 err h1
      rw [e, foldl_brk5]
      refine ⟨fun _ _ h => by simp at h, ?_⟩
      intro err' h
      injection h with h
      subst h
      exact ⟨_, _, rfl⟩
    | ok pe =>
      obtain ⟨p1, e⟩ := pe
      simp only []
      obtain ⟨rp1, e1, r1⟩ := g1 p1 e h1
      have hres := (allocOneF_res h1).1
      have hl : va.lookup res = none := hva (res, d) (by simp)
      rw [e1, pyDictSet_of_lookup_none _ _ _ hl]
      have hva' : ∀ rd ∈ rs, (va ++ [(res, some (encS e.s))]).lookup rd.1 = none := by
        intro rd hrd
        apply lookup_append_none _ _ _ (hva rd (List.mem_cons_of_mem _ hrd))
        apply lookup_single_ne
        intro hk
        exact hnd.1 (hk ▸ List.mem_map_of_mem hrd)
      obtain ⟨i1, i2⟩ := ih rp1 p1 (va ++ [(res, some (encS e.s))]) r1 hnd.2 hva'
      cases h2 : allocResourcesG (allocOneF fuel inp) xy v rs p1 with
      | error err =>
        refine ⟨fun _ _ h => by simp at h, ?_⟩
        intro err' h
        injection h with h
        subst h
        exact i2 _ h2
      | ok pes =>
        obtain ⟨p2, es⟩ := pes
        refine ⟨?_, fun _ h => by simp at h⟩
        intro ptrs' es' h
        injection h with h
        injection h with h3 h4
        subst h3; subst h4
        obtain ⟨rp', w1, w2⟩ := i1 _ _ h2
        refine ⟨rp', ?_, w2⟩
        rw [w1]
        simp [encE, hres]

/-! ### the loop over the vertices of one chip -/

abbrev St4 := Bool × RetTy × List (Nat × Int) × OutTy

theorem foldl_brk4 (vr : List (Nat × List (Nat × Int))) (mget : (Int × Int) → Except String (List (Nat × Int))) (fuel : Nat)
    (G : List (Nat × List (Int × Int))) (L : List ((Int × Int) × List (Nat × List (Int × Int)))) (A : List (Nat × Int))
    (xy : Int × Int) (r : RetTy) (rp : List (Nat × Int)) (al : OutTy) :
    ∀ vs : List Nat, List.foldl (PyFun.allocate_loop4 vr mget fuel G L A xy) (true, r, rp, al) vs = (true, r, rp, al) := by
  intro vs
  induction vs with
  | nil => rfl
  | cons a t ih => rw [List.foldl_cons]; exact ih

/-- one pass of `for vertex in chip_vertices` on a state that is not broken -/
theorem loop4_unfold (vr : List (Nat × List (Nat × Int))) (mget : (Int × Int) → Except String (List (Nat × Int)))
    (fuel : Nat) (G : List (Nat × List (Int × Int))) (L : List ((Int × Int) × List (Nat × List (Int × Int))))
    (A : List (Nat × Int)) (xy : Int × Int) (rp : List (Nat × Int)) (al : OutTy) (v : Nat) :
    PyFun.allocate_loop4 vr mget fuel G L A xy (false, none, rp, al) v =
      match vr.lookup v with
      | none => (true, some (.error "KeyError"), rp, al)
      | some rs =>
        match List.foldl (PyFun.allocate_loop5 mget fuel G L A xy) (false, none, rp, []) rs with
        | (_, some r, rp', _) => (true, some r, rp', al)
        | (_, none, rp', va) => (false, none, rp', pyDictSet al v va) := by
  unfold PyFun.allocate_loop4
  simp only [Bool.false_eq_true, if_false, pyDictGet_eq]
  cases vr.lookup v with
  | none => rfl
  | some rs =>
    simp only []
    generalize List.foldl (PyFun.allocate_loop5 mget fuel G L A xy) _ rs = w
    obtain ⟨b, r, rp', va⟩ := w
    cases r <;> rfl

theorem allocVerticesG_keys (one : One) (vr : List (Vertex × List (Res × Int))) (xy : Chip) :
    ∀ (vs : List Vertex) (ptrs : Ptrs) (out : List (Vertex × List Entry)),
      allocVerticesG one vr xy vs ptrs = .ok out → out.map (·.1) = vs := by
  intro vs
  induction vs with
  | nil =>
    intro ptrs out h
    simp only [allocVerticesG] at h
    injection h with h; subst h; rfl
  | cons v vs ih =>
    intro ptrs out h
    simp only [allocVerticesG] at h
    split at h
    · simp at h
    · split at h
      · simp at h
      · split at h
        · simp at h
        · rename_i rest h2
          injection h with h; subst h
          simp [ih _ _ h2]

/-- **`for vertex in chip_vertices`** = the model's `allocVertices` -/
theorem gen_vertices {inp : Input} {G : List (Nat × List (Int × Int))}
    {L : List ((Int × Int) × List (Nat × List (Int × Int)))} {A : List (Nat × Int)} (T : Tables inp G L A)
    (hA : ∀ res, alignment inp.constraints res ≠ 0) (hN : ∀ q ∈ inp.vr, (q.2.map (·.1)).Nodup)
    (fuel : Nat) (hf : 0 < fuel) (xy : Chip) :
    ∀ (vs : List Vertex) (rp : List (Nat × Int)) (ptrs : Ptrs) (al : OutTy),
      Rel inp.machine.chipResources rp ptrs → vs.Nodup → (∀ v ∈ vs, al.lookup v = none) →
      (∀ out, allocVerticesG (allocOneF fuel inp) inp.vr xy vs ptrs = .ok out →
        ∃ rp', List.foldl (PyFun.allocate_loop4 inp.vr (mgetOf inp.machine) fuel G L A xy) (false, none, rp, al) vs
            = (false, none, rp', al ++ encOut out)) ∧
      (∀ err, allocVerticesG (allocOneF fuel inp) inp.vr xy vs ptrs = .error err →
        ∃ rp' al', List.foldl (PyFun.allocate_loop4 inp.vr (mgetOf inp.machine) fuel G L A xy) (false, none, rp, al) vs
            = (true, some (.error (errName err)), rp', al')) := by
  intro vs
  induction vs with
  | nil =>
    intro rp ptrs al hr _ _
    refine ⟨?_, ?_⟩
    · intro out h
      simp only [allocVerticesG] at h
      injection h with h
      subst h
      exact ⟨rp, by simp [encOut]⟩
    · intro err h; simp [allocVerticesG] at h
  | cons v vs ih =>
    intro rp ptrs al hr hnd hal
    simp only [List.nodup_cons] at hnd
    simp only [List.foldl_cons, allocVerticesG, loop4_unfold]
    cases hl : inp.vr.lookup v with
    | none =>
      simp only []
      rw [foldl_brk4]
      refine ⟨fun _ h => by simp at h, ?_⟩
      intro err h
      injection h with h
      subst h
      exact ⟨_, _, rfl⟩
    | some rs =>
      simp only []
      obtain ⟨g1, g2⟩ := gen_resources T hA fuel hf xy v rs rp ptrs [] hr (hN (v, rs) (mem_of_lookup hl))
        (fun _ _ => rfl)
      cases h1 : allocResourcesG (allocOneF fuel inp) xy v rs ptrs with
      | error err =>
        obtain ⟨rp', va', e⟩ := g2 err h1
        rw [e]
        simp only []
        rw [foldl_brk4]
        refine ⟨fun _ h => by simp at h, ?_⟩
        intro err' h
        injection h with h
        subst h
        exact ⟨_, _, rfl⟩
      | ok pe =>
        obtain ⟨p1, es⟩ := pe
        simp only []
        obtain ⟨rp1, e1, r1⟩ := g1 p1 es h1
        rw [e1]
        simp only [List.nil_append]
        rw [pyDictSet_of_lookup_none _ _ _ (hal v (by simp))]
        have hal' : ∀ w ∈ vs, (al ++ [(v, es.map encE)]).lookup w = none := by
          intro w hw
          apply lookup_append_none _ _ _ (hal w (List.mem_cons_of_mem _ hw))
          apply lookup_single_ne
          intro hk
          exact hnd.1 (hk ▸ hw)
        obtain ⟨i1, i2⟩ := ih rp1 p1 (al ++ [(v, es.map encE)]) r1 hnd.2 hal'
        cases h2 : allocVerticesG (allocOneF fuel inp) inp.vr xy vs p1 with
        | error err =>
          refine ⟨fun _ h => by simp at h, ?_⟩
          intro err' h
          injection h with h
          subst h
          exact i2 _ h2
        | ok rest =>
          refine ⟨?_, fun _ h => by simp at h⟩
          intro out h
          injection h with h
          subst h
          obtain ⟨rp', w1⟩ := i1 _ h2
          refine ⟨rp', ?_⟩
          rw [w1]
          simp [encOut]

/-! ### the loop over the chips -/

theorem foldl_brk3 (vr : List (Nat × List (Nat × Int))) (cr : List (Nat × Int))
    (mget : (Int × Int) → Except String (List (Nat × Int))) (fuel : Nat)
    (G : List (Nat × List (Int × Int))) (L : List ((Int × Int) × List (Nat × List (Int × Int)))) (A : List (Nat × Int))
    (r : RetTy) (al : OutTy) :
    ∀ cc : List ((Int × Int) × List Nat),
      List.foldl (PyFun.allocate_loop3 vr cr mget fuel G L A) (true, r, al) cc = (true, r, al) := by
  intro cc
  induction cc with
  | nil => rfl
  | cons a t ih => rw [List.foldl_cons]; exact ih

theorem loop3_unfold (vr : List (Nat × List (Nat × Int))) (cr : List (Nat × Int))
    (mget : (Int × Int) → Except String (List (Nat × Int)))
    (fuel : Nat) (G : List (Nat × List (Int × Int))) (L : List ((Int × Int) × List (Nat × List (Int × Int))))
    (A : List (Nat × Int)) (al : OutTy) (xy : Int × Int) (vs : List Nat) :
    PyFun.allocate_loop3 vr cr mget fuel G L A (false, none, al) (xy, vs) =
      match List.foldl (PyFun.allocate_loop4 vr mget fuel G L A xy)
          (false, none, cr.map (fun kv => (kv.1, (0 : Int))), al) vs with
      | (_, some r, _, al') => (true, some r, al')
      | (_, none, _, al') => (false, none, al') := by
  unfold PyFun.allocate_loop3
  simp only [Bool.false_eq_true, if_false]
  generalize List.foldl (PyFun.allocate_loop4 vr mget fuel G L A xy) _ vs = w
  obtain ⟨b, r, rp', al'⟩ := w
  cases r <;> rfl

/-- `resource_pointers = {resource: 0 for resource in machine.chip_resources}` -/
theorem rel_init (cr : List (Res × Int)) : Rel cr (cr.map (fun kv => (kv.1, (0 : Int)))) (fun _ => 0) := by
  intro r
  induction cr with
  | nil => rfl
  | cons a t ih =>
    obtain ⟨a1, a2⟩ := a
    simp only [List.map_cons, List.lookup, List.any_cons]
    cases h : (r == a1)
    · have : (a1 == r) = false := by rw [BEq.comm]; exact h
      simp only [this, Bool.false_or]
      exact ih
    · have : (a1 == r) = true := by rw [BEq.comm]; exact h
      simp [this]

/-- **`for xy, chip_vertices in iteritems(chip_contents)`** = the model's `allocChips` -/
theorem gen_chips {inp : Input} {G : List (Nat × List (Int × Int))}
    {L : List ((Int × Int) × List (Nat × List (Int × Int)))} {A : List (Nat × Int)} (T : Tables inp G L A)
    (hA : ∀ res, alignment inp.constraints res ≠ 0) (hN : ∀ q ∈ inp.vr, (q.2.map (·.1)).Nodup)
    (fuel : Nat) (hf : 0 < fuel) :
    ∀ (cc : List (Chip × List Vertex)) (al : OutTy),
      (cc.flatMap (·.2)).Nodup → (∀ v ∈ cc.flatMap (·.2), al.lookup v = none) →
      (∀ out, allocChipsL (allocOneF fuel inp) inp.vr cc = .ok out →
        List.foldl (PyFun.allocate_loop3 inp.vr inp.machine.chipResources (mgetOf inp.machine) fuel G L A)
            (false, none, al) cc = (false, none, al ++ encOut out)) ∧
      (∀ err, allocChipsL (allocOneF fuel inp) inp.vr cc = .error err →
        ∃ al', List.foldl (PyFun.allocate_loop3 inp.vr inp.machine.chipResources (mgetOf inp.machine) fuel G L A)
            (false, none, al) cc = (true, some (.error (errName err)), al')) := by
  intro cc
  induction cc with
  | nil =>
    intro al _ _
    refine ⟨?_, ?_⟩
    · intro out h
      simp only [allocChipsL] at h
      injection h with h
      subst h
      simp [encOut]
    · intro err h; simp [allocChipsL] at h
  | cons c cc ih =>
    intro al hnd hal
    obtain ⟨xy, vs⟩ := c
    simp only [List.flatMap_cons, List.nodup_append] at hnd
    simp only [List.flatMap_cons, List.mem_append] at hal
    simp only [List.foldl_cons, allocChipsL, loop3_unfold]
    obtain ⟨g1, g2⟩ := gen_vertices T hA hN fuel hf xy vs _ _ al (rel_init inp.machine.chipResources) hnd.1
      (fun v hv => hal v (Or.inl hv))
    cases h1 : allocVerticesG (allocOneF fuel inp) inp.vr xy vs (fun _ => 0) with
    | error err =>
      obtain ⟨rp', al', e⟩ := g2 err h1
      rw [e]
      simp only []
      rw [foldl_brk3]
      refine ⟨fun _ h => by simp at h, ?_⟩
      intro err' h
      injection h with h
      subst h
      exact ⟨_, rfl⟩
    | ok a =>
      obtain ⟨rp1, e1⟩ := g1 a h1
      rw [e1]
      simp only []
      have hk := allocVerticesG_keys _ _ _ _ _ _ h1
      have hal' : ∀ w ∈ cc.flatMap (·.2), (al ++ encOut a).lookup w = none := by
        intro w hw
        apply lookup_append_none _ _ _ (hal w (Or.inr hw))
        apply lookup_none_of_not_mem
        intro hm
        have : w ∈ vs := by
          rw [← hk]
          simpa [encOut, List.map_map] using hm
        exact hnd.2.2 w this w hw rfl
      obtain ⟨i1, i2⟩ := ih (al ++ encOut a) hnd.2.1 hal'
      cases h2 : allocChipsL (allocOneF fuel inp) inp.vr cc with
      | error err =>
        refine ⟨fun _ h => by simp at h, ?_⟩
        intro err' h
        injection h with h
        subst h
        exact i2 _ h2
      | ok b =>
        refine ⟨?_, fun _ h => by simp at h⟩
        intro out h
        injection h with h
        subst h
        rw [i1 _ h2]
        simp [encOut]

end Rig.C05
