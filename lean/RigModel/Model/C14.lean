/-
C14 - probing a machine and deriving the place-and-route machine model.

Decode direction = model of the code in rig/machine_control/machine_controller.py
(get_chip_info, get_p2p_routing_table, get_system_info, SystemInfo.dead_chips /
dead_links, get_iobuf_bytes, get_processor_status, get_router_diagnostics,
get_software_version), rig/machine_control/common.py (unpack_sver_response_version),
rig/place_and_route/utils.py (build_machine, build_core_constraints,
_get_minimal_core_reservations) and rig/routing_table/utils.py
(build_routing_table_target_lengths).

Encode direction = the machine specification (what SC&MP/SARK put into the `info`
reply, the P2P table, the vcpu blocks, the IOBUF chain, the router registers and the
sver reply), written from the layouts the code documents.

Remote memory reads (`self.read`, proved byte exact in C07) are a parameter
`rd : address → length → bytes` of the decode functions.
-/
import RigModel.Model.Proto
import RigModel.Gen.C14
import Std.Data.HashSet

namespace Rig.C14
open Rig.Gen.C14

/-! ## bytes -/

/-- little-endian value of a byte string (`struct.unpack("<B/H/I")`) -/
def leVal : List Nat → Nat
  | [] => 0
  | b :: l => b + 256 * leVal l

def le16 (n : Nat) : List Nat := [n % 256, n / 256 % 256]
def le32 (n : Nat) : List Nat := [n % 256, n / 256 % 256, n / 65536 % 256, n / 16777216 % 256]

abbrev Rd := Nat → Nat → List Nat

/-- the bytes of a memory `mem` from address `a` -/
def readMem (mem : Nat → Nat) (a n : Nat) : List Nat := (List.range n).map fun i => mem (a + i)

/-- `struct.unpack(fmt, self.read(addr, calcsize(fmt)))` for one little-endian integer -/
def readInt (rd : Rd) (a n : Nat) : Except String Nat :=
  let d := rd a n
  if d.length = n then .ok (leVal d) else .error "struct.error"

/-! ## chip information (`info` command) -/

structure InfoReply where
  arg1 : Nat
  arg2 : Nat
  arg3 : Nat
  data : List Nat
  deriving Repr, DecidableEq

/-- `ChipInfo` named tuple; `links` = the working set in ascending order, `ip` = the four
numbers of the dotted string -/
structure ChipInfo where
  numCores : Nat
  coreStates : List Nat
  links : List Nat
  sdram : Nat
  sram : Nat
  rtr : Nat
  ethUp : Bool
  ip : List Nat
  ethChip : Nat × Nat
  deriving Repr, DecidableEq

def validState (s : Nat) : Bool := APPSTATE_VALUES.contains s

/-- `MachineController.get_chip_info` applied to the reply packet -/
def decodeInfo (r : InfoReply) : Except String ChipInfo :=
  let numCores := r.arg1 &&& 0x1F
  let links := LINK_VALUES.filter fun l => (r.arg1 >>> (8 + l)) &&& 1 != 0
  let rtr := (r.arg1 >>> 14) &&& 0x7FF
  let ethUp := r.arg1 &&& (1 <<< 25) != 0
  -- struct.unpack_from("<18BHI", data)
  if r.data.length < 24 then .error "struct.error" else
  let states := r.data.take 18
  if !(states.all validState) then .error "ValueError" else
  let h := leVal ((r.data.drop 18).take 2)
  let i := leVal ((r.data.drop 20).take 4)
  .ok { numCores := numCores, coreStates := states.take numCores, links := links,
        sdram := r.arg2, sram := r.arg3, rtr := rtr, ethUp := ethUp,
        ip := [0, 8, 16, 24].map fun s => (i >>> s) &&& 0xFF,
        ethChip := ((h >>> 8) &&& 0xFF, h &&& 0xFF) }

/-- state of one chip of the machine (specification side) -/
structure ChipState where
  cores : Nat            -- number of working cores
  states : List Nat      -- state code of each of the 18 virtual core slots
  links : List Nat       -- numbers of the working links
  sdram : Nat            -- largest free SDRAM block
  sram : Nat
  rtr : Nat              -- largest free block of router entries
  ethUp : Bool
  ip0 : Nat
  ip1 : Nat
  ip2 : Nat
  ip3 : Nat
  ethX : Nat             -- nearest Ethernet chip
  ethY : Nat
  deriving Repr, DecidableEq

def linkBit (links : List Nat) (l : Nat) : Nat := if l ∈ links then 1 else 0

/-- machine specification: the reply SC&MP gives to `info`.  arg1: bits 4:0 core count,
bits 13:8 working links, bits 24:14 largest free router block, bit 25 Ethernet up; arg2 / arg3
largest free SDRAM / SRAM block; data: 18 state bytes, 16-bit Ethernet chip (x in the high
byte), 32-bit IP address (first number in the low byte) -/
def infoReply (c : ChipState) : InfoReply :=
  { arg1 := c.cores + 256 * linkBit c.links 0 + 512 * linkBit c.links 1 + 1024 * linkBit c.links 2
            + 2048 * linkBit c.links 3 + 4096 * linkBit c.links 4 + 8192 * linkBit c.links 5
            + 16384 * c.rtr + (if c.ethUp then 33554432 else 0),
    arg2 := c.sdram, arg3 := c.sram,
    data := c.states ++ [c.ethY, c.ethX, c.ip0, c.ip1, c.ip2, c.ip3] }

/-- what probing the chip must report (the property's right-hand side) -/
def chipView (c : ChipState) : ChipInfo :=
  { numCores := c.cores, coreStates := c.states.take c.cores,
    links := (List.range 6).filter (· ∈ c.links),
    sdram := c.sdram, sram := c.sram, rtr := c.rtr, ethUp := c.ethUp,
    ip := [c.ip0, c.ip1, c.ip2, c.ip3], ethChip := (c.ethX, c.ethY) }

/-- machine specification: core `p` of the chip is a working core that is not idle -/
def ChipState.busyCore (c : ChipState) (p : Nat) : Bool :=
  decide (p < c.cores) &&
    match c.states[p]? with
    | some s => s != APPSTATE_IDLE
    | none => false

def ChipState.WF (c : ChipState) : Prop :=
  c.cores ≤ 18 ∧ c.states.length = 18 ∧ (∀ s ∈ c.states, validState s = true) ∧
  c.sdram < 4294967296 ∧ c.sram < 4294967296 ∧ c.rtr < 2048 ∧
  c.ip0 < 256 ∧ c.ip1 < 256 ∧ c.ip2 < 256 ∧ c.ip3 < 256 ∧ c.ethX < 256 ∧ c.ethY < 256

/-! ## which cores answer commands

Machine specification: a command (memory read, `sver`, ...) addressed to core `p` of a chip is answered by the
software running on that core.  Core 0 is the monitor (SC&MP) and always answers.  An application core answers only
while SARK's event handling is alive on it: states wait, c_main, run, sync0, sync1 and pause.  It does not answer
when nothing was ever loaded (idle), when the core is dead, powered down, caught by the watchdog or stopped in a
run-time exception, nor in the transitory init state or after the application has returned (exit) - the cautious
reading of the state documentation in consts.py.  A command to a core that does not answer gets no reply at all.
Every decoder above takes the chip's memory as read through the monitor. -/

/-- states in which an application core answers commands -/
def SARK_ALIVE : List Nat := [5, 6, 7, 8, 9, 10]

def coreAnswers (p state : Nat) : Bool := p == 0 || SARK_ALIVE.contains state

/-! ## P2P routing table -/

/-- entries of one table word: `for entry in range(n)`: row, `(word >> 3*entry) & 0b111` -/
def wordEntries (word row n : Nat) : List (Nat × Nat) :=
  (List.range n).map fun e => (row + e, (word >>> (3 * e)) &&& 7)

/-- the `while row < height` loop over one column's bytes -/
def colLoop : Nat → List Nat → Nat → Nat → Except String (List (Nat × Nat))
  | 0, _, _, _ => .ok []
  | fuel + 1, raw, row, height =>
    if row < height then
      if (raw.take 4).length ≠ 4 then .error "struct.error" else
      let word := leVal (raw.take 4)
      let n := min 8 (height - row)
      match colLoop fuel (raw.drop 4) (row + n) height with
      | .ok rest => .ok (wordEntries word row n ++ rest)
      | .error e => .error e
    else .ok []

def p2pCols (rd : Rd) (colWords height : Nat) : List Nat → Except String (List ((Nat × Nat) × Nat))
  | [] => .ok []
  | col :: cols =>
    let raw := rd (SPINNAKER_RTR_P2P + ((256 * col) / 8) * 4) colWords
    match colLoop height raw 0 height with
    | .error e => .error e
    | .ok es =>
      match p2pCols rd colWords height cols with
      | .error e => .error e
      | .ok rest => .ok (es.map (fun re => ((col, re.1), re.2)) ++ rest)

/-- `get_p2p_routing_table` given the value of `sv.p2p_dims`; entries in insertion order -/
def p2pTableOfDims (rd : Rd) (dims : Nat) : Except String (List ((Nat × Nat) × Nat)) :=
  let width := (dims >>> 8) &&& 0xFF
  let height := (dims >>> 0) &&& 0xFF
  let colWords := ((height + 7) / 8) * 4
  p2pCols rd colWords height (List.range width)

def p2pTable (rd : Rd) : Except String (List ((Nat × Nat) × Nat)) := do
  let dims ← readInt rd (SV_BASE + SV_P2P_DIMS_OFF) SV_P2P_DIMS_SIZE
  p2pTableOfDims rd dims

/-- machine specification: the table word holding rows `8k .. 8k+7` of column `c`
(3 bits per entry, entry `e` at bits `3e+2 : 3e`) -/
def p2pWord (f : Nat → Nat → Nat) (c k : Nat) : Nat :=
  f c (8 * k) + 8 * f c (8 * k + 1) + 64 * f c (8 * k + 2) + 512 * f c (8 * k + 3)
  + 4096 * f c (8 * k + 4) + 32768 * f c (8 * k + 5) + 262144 * f c (8 * k + 6)
  + 2097152 * f c (8 * k + 7)

/-- machine specification: byte of the P2P table memory; column `c` occupies the 128 bytes
(32 words) from `SPINNAKER_RTR_P2P + 128 c` -/
def p2pMem (f : Nat → Nat → Nat) (a : Nat) : Nat :=
  let o := a - SPINNAKER_RTR_P2P
  (p2pWord f (o / 128) (o % 128 / 4) / 256 ^ (o % 4)) % 256

/-! ## system information -/

structure SysInfo where
  width : Nat
  height : Nat
  chips : List ((Nat × Nat) × ChipInfo)     -- the dict, in insertion order
  deriving Repr, DecidableEq

def maxList (l : List Nat) : Nat := l.foldl max 0

def probeAll (probe : Nat × Nat → Option InfoReply) :
    List ((Nat × Nat) × Nat) → Except String (List ((Nat × Nat) × ChipInfo))
  | [] => .ok []
  | (xy, r) :: rest =>
    if r != P2P_NONE then
      match probe xy with
      | none => probeAll probe rest                 -- SCPError: chip assumed dead
      | some rep =>
        match decodeInfo rep with
        | .error e => .error e
        | .ok ci =>
          match probeAll probe rest with
          | .error e => .error e
          | .ok l => .ok ((xy, ci) :: l)
    else probeAll probe rest

/-- `get_system_info` given the P2P table and the answer of every chip to `info`
(`none` = no answer / error reply, i.e. `SCPError`) -/
def systemInfo (table : List ((Nat × Nat) × Nat)) (probe : Nat × Nat → Option InfoReply) :
    Except String SysInfo :=
  let live := table.filter fun e => e.2 != P2P_NONE
  if live.isEmpty then .error "ValueError" else     -- max() of an empty sequence
  let maxX := maxList (live.map (·.1.1))
  let maxY := maxList (live.map (·.1.2))
  match probeAll probe table with
  | .error e => .error e
  | .ok chips => .ok { width := maxX + 1, height := maxY + 1, chips := chips }

/-- `get_system_info`: read the P2P table of the root chip, then probe every listed chip -/
def getSystemInfo (rd : Rd) (probe : Nat × Nat → Option InfoReply) : Except String SysInfo :=
  match p2pTable rd with
  | .error e => .error e
  | .ok t => systemInfo t probe

def SysInfo.has (si : SysInfo) (xy : Nat × Nat) : Bool := (si.chips.lookup xy).isSome

/-- `SystemInfo.__contains__` for `(x, y, link)` -/
def SysInfo.hasLink (si : SysInfo) (x y l : Nat) : Bool :=
  match si.chips.lookup (x, y) with
  | some ci => ci.links.contains l
  | none => false

/-- `SystemInfo.__contains__` for `(x, y, p)` (core numbers are naturals here; a negative `p` is
absent in the code as well) -/
def SysInfo.hasCore (si : SysInfo) (x y p : Nat) : Bool :=
  match si.chips.lookup (x, y) with
  | some ci => decide (p < ci.numCores)
  | none => false

/-- `0 <= p < chip.num_cores and chip.core_states[p] == state`; `core_states[p]` raises when the
record has fewer states than cores -/
def ChipInfo.coreStateIs (ci : ChipInfo) (p s : Nat) : Except String Bool :=
  if p < ci.numCores then
    match ci.coreStates[p]? with
    | some s' => .ok (s' == s)
    | none => .error "IndexError"
  else .ok false

/-- `SystemInfo.__contains__` for `(x, y, p, state)` -/
def SysInfo.hasCoreState (si : SysInfo) (x y p s : Nat) : Except String Bool :=
  match si.chips.lookup (x, y) with
  | some ci => ci.coreStateIs p s
  | none => .ok false

/-- `SystemInfo.dead_chips` -/
def SysInfo.deadChips (si : SysInfo) : List (Nat × Nat) :=
  (List.range si.width).flatMap fun x =>
    (List.range si.height).filterMap fun y => if si.has (x, y) then none else some (x, y)

/-- `SystemInfo.dead_links` -/
def SysInfo.deadLinks (si : SysInfo) : List (Nat × Nat × Nat) :=
  si.chips.flatMap fun (xy, ci) =>
    LINK_VALUES.filterMap fun l => if ci.links.contains l then none else some (xy.1, xy.2, l)

/-- `SystemInfo.links` -/
def SysInfo.liveLinks (si : SysInfo) : List (Nat × Nat × Nat) :=
  si.chips.flatMap fun (xy, ci) => ci.links.map fun l => (xy.1, xy.2, l)

/-- `SystemInfo.cores` -/
def SysInfo.cores (si : SysInfo) : List (Nat × Nat × Nat × Nat) :=
  si.chips.flatMap fun (xy, ci) => ci.coreStates.zipIdx.map fun (s, p) => (xy.1, xy.2, p, s)

/-- `build_routing_table_target_lengths` -/
def targetLengths (si : SysInfo) : List ((Nat × Nat) × Nat) := si.chips.map fun (xy, ci) => (xy, ci.rtr)

/-- machine specification for discovery: the root chip's P2P table (entries not listed are
`none`), its dimension register, and the chips that answer -/
structure MachineState where
  dimW : Nat
  dimH : Nat
  p2p : List ((Nat × Nat) × Nat)
  chips : List ((Nat × Nat) × ChipState)
  deriving Repr

def MachineState.entry (m : MachineState) (x y : Nat) : Nat := (m.p2p.lookup (x, y)).getD P2P_NONE

/-- chips the table lists inside the dimensions -/
def MachineState.listed (m : MachineState) (xy : Nat × Nat) : Bool :=
  xy.1 < m.dimW && xy.2 < m.dimH && m.entry xy.1 xy.2 != P2P_NONE

def listedCoords (m : MachineState) : List (Nat × Nat) :=
  (List.range m.dimW).flatMap fun x => (List.range m.dimH).filterMap fun y =>
    if m.listed (x, y) then some (x, y) else none

/-- machine specification: the P2P table of the machine state - the entry of every coordinate inside the
dimensions, column by column -/
def MachineState.specTable (m : MachineState) : List ((Nat × Nat) × Nat) :=
  (List.range m.dimW).flatMap fun x => (List.range m.dimH).map fun y => ((x, y), m.entry x y)

/-- the property for `get_p2p_routing_table`, decided on a returned table (any order): its keys are
distinct and it holds exactly the entries of the machine state inside the dimensions -/
def p2pOk (m : MachineState) (t : List ((Nat × Nat) × Nat)) : Bool :=
  t.length == m.specTable.length && m.specTable.all (fun e => t.lookup e.1 == some e.2) &&
  t.all (fun e => e.1.1 < m.dimW && e.1.2 < m.dimH)

/-- the property for discovery, decided on a returned description: width/height are the extent
of the listed chips; the description's keys are distinct and are exactly the listed chips that
answer; every record is the chip's state -/
def sysinfoOk (m : MachineState) (si : SysInfo) : Bool :=
  let listed := listedCoords m
  let keys := si.chips.map (·.1)
  si.width == maxList (listed.map (·.1)) + 1 &&
  si.height == maxList (listed.map (·.2)) + 1 &&
  keys.Nodup &&
  keys.all (fun xy => m.listed xy && (m.chips.lookup xy).isSome) &&
  listed.all (fun xy => (m.chips.lookup xy).isSome → keys.contains xy) &&
  si.chips.all (fun (xy, ci) => (m.chips.lookup xy).map chipView == some ci)

/-- the property for `dead_chips` / `dead_links`, decided on the returned collections: inside the
extent the dead chips are exactly the chips without a record, and the dead links are exactly the
links of described chips that are not working -/
def deadOk (si : SysInfo) (dc : List (Nat × Nat)) (dl : List (Nat × Nat × Nat)) : Bool :=
  let dcs := Std.HashSet.ofList dc
  dc.all (fun xy => xy.1 < si.width && xy.2 < si.height && !si.has xy) &&
  (List.range si.width).all (fun x => (List.range si.height).all fun y =>
    si.has (x, y) || dcs.contains (x, y)) &&
  dl.all (fun (x, y, l) => match si.chips.lookup (x, y) with
    | some ci => l < 6 && !ci.links.contains l
    | none => false) &&
  si.chips.all (fun (xy, ci) => (List.range 6).all fun l =>
    ci.links.contains l || dl.contains (xy.1, xy.2, l))

/-! ## IOBUF, status block, router counters -/

/-- the `while address:` loop of `get_iobuf_bytes` -/
def iobufLoop (rd : Rd) (size : Nat) : Nat → Nat → List Nat → Except String (List Nat)
  | 0, _, _ => .error "fuel"
  | fuel + 1, addr, acc =>
    if addr = 0 then .ok acc else
    let d := rd addr (size + 16)
    if (d.take 16).length ≠ 16 then .error "struct.error" else
    let next := leVal (d.take 4)
    let len := leVal ((d.drop 12).take 4)
    iobufLoop rd size fuel next (acc ++ (d.drop 16).take len)

def vcpuAddr (rd : Rd) (p : Nat) : Except String Nat := do
  let base ← readInt rd (SV_BASE + SV_VCPU_BASE_OFF) SV_VCPU_BASE_SIZE
  pure (base + VCPU_SIZE * p)

def vcpuFieldOff (name : String) : Option Nat :=
  (VCPU_FIELDS.find? (·.1 == name)).map (·.2.1)

/-- `get_iobuf_bytes` -/
def iobufBytes (rd : Rd) (p fuel : Nat) : Except String (List Nat) := do
  let size ← readInt rd (SV_BASE + SV_IOBUF_SIZE_OFF) SV_IOBUF_SIZE_SIZE
  let va ← vcpuAddr rd p
  match vcpuFieldOff "iobuf" with
  | none => .error "KeyError"
  | some off =>
    let first ← readInt rd (va + off) 4
    iobufLoop rd size fuel first []

/-- one IOBUF block of the machine: address, time, ms, length field, buffer contents -/
structure IoBlock where
  addr : Nat
  time : Nat
  ms : Nat
  len : Nat
  data : List Nat
  deriving Repr, DecidableEq

/-- machine specification: header (next, time, ms, length) then the buffer -/
def blockBytes (b : IoBlock) (next : Nat) : List Nat :=
  le32 next ++ le32 b.time ++ le32 b.ms ++ le32 b.len ++ b.data

def chainNext : List IoBlock → Nat
  | [] => 0
  | b :: _ => b.addr

/-- what reading the console buffer must return -/
def chainText : List IoBlock → List Nat
  | [] => []
  | b :: bs => b.data.take b.len ++ chainText bs

inductive FieldVal where
  | int (v : Nat)
  | str (b : List Nat)
  deriving Repr, DecidableEq

/-- `struct.unpack(f.pack_chars, data[f.offset:f.offset+calcsize(f.pack_chars)])[0]`
for every field of the vcpu struct -/
def unpackFields (data : List Nat) :
    List (String × Nat × Nat × Bool × Nat) → Except String (List (String × FieldVal))
  | [] => .ok []
  | (name, off, size, isStr, _) :: fs =>
    let sl := (data.drop off).take size
    if sl.length ≠ size then .error "struct.error" else
    match unpackFields data fs with
    | .error e => .error e
    | .ok rest => .ok ((name, if isStr then .str sl else .int (leVal sl)) :: rest)

def strip0 (l : List Nat) : List Nat :=
  ((l.dropWhile (· == 0)).reverse.dropWhile (· == 0)).reverse

structure Status where
  registers : List Nat
  psr : Nat
  sp : Nat
  lr : Nat
  rtCode : Nat
  physCpu : Nat
  cpuState : Nat
  mboxApMsg : Nat
  mboxMpMsg : Nat
  mboxApCmd : Nat
  mboxMpCmd : Nat
  swCount : Nat
  swFile : Nat
  swLine : Nat
  time : Nat
  appName : List Nat
  iobuf : Nat
  appId : Nat
  version : Nat × Nat × Nat
  userVars : List Nat
  deriving Repr, DecidableEq

def getInt (st : List (String × FieldVal)) (k : String) : Except String Nat :=
  match st.lookup k with
  | some (.int v) => .ok v
  | some (.str _) => .error "TypeError"
  | none => .error "KeyError"

def getStr (st : List (String × FieldVal)) (k : String) : Except String (List Nat) :=
  match st.lookup k with
  | some (.str v) => .ok v
  | some (.int _) => .error "AttributeError"
  | none => .error "KeyError"

/-- the body of `get_processor_status` after the vcpu block has been read -/
def decodeStatus (data : List Nat) : Except String Status := do
  let st ← unpackFields data VCPU_FIELDS
  let regs ← ["r0", "r1", "r2", "r3", "r4", "r5", "r6", "r7"].mapM (getInt st)
  let users ← ["user0", "user1", "user2", "user3"].mapM (getInt st)
  let name ← getStr st "app_name"
  let name := strip0 name
  if name.any (· ≥ 128) then .error "UnicodeDomain" else
  let cpu ← getInt st "cpu_state"
  if !validState cpu then .error "ValueError" else
  let rt ← getInt st "rt_code"
  if !RTE_VALUES.contains rt then .error "ValueError" else
  let sw ← getInt st "sw_ver"
  let _ ← getInt st "__PAD"
  pure { registers := regs, psr := ← getInt st "psr", sp := ← getInt st "sp", lr := ← getInt st "lr",
         rtCode := rt, physCpu := ← getInt st "phys_cpu", cpuState := cpu,
         mboxApMsg := ← getInt st "mbox_ap_msg", mboxMpMsg := ← getInt st "mbox_mp_msg",
         mboxApCmd := ← getInt st "mbox_ap_cmd", mboxMpCmd := ← getInt st "mbox_mp_cmd",
         swCount := ← getInt st "sw_count", swFile := ← getInt st "sw_file",
         swLine := ← getInt st "sw_line", time := ← getInt st "time", appName := name,
         iobuf := ← getInt st "iobuf", appId := ← getInt st "app_id",
         version := ((sw >>> 16) &&& 0xFF, (sw >>> 8) &&& 0xFF, (sw >>> 0) &&& 0xFF),
         userVars := users }

/-- `get_processor_status` -/
def processorStatus (rd : Rd) (p : Nat) : Except String Status := do
  let va ← vcpuAddr rd p
  decodeStatus (rd va VCPU_SIZE)

/-- machine specification: the 128-byte vcpu block of a core in the documented order
(sark.struct): r0-r7, psr, sp, lr, rt_code, phys_cpu, cpu_state, app_id, mbox_ap_msg,
mbox_mp_msg, mbox_ap_cmd, mbox_mp_cmd, sw_count, sw_file, sw_line, time, app_name[16], iobuf,
sw_ver, 16 bytes of padding, user0-user3.  `version` = (major, minor, patch) in bits 23:0 of
sw_ver; `pad` = the 16 padding bytes; `name16` = the name padded with NULs to 16 bytes. -/
def statusBytes (s : Status) (swTop : Nat) (name16 pad : List Nat) : List Nat :=
  s.registers.flatMap le32 ++ le32 s.psr ++ le32 s.sp ++ le32 s.lr ++
  [s.rtCode, s.physCpu, s.cpuState, s.appId] ++ le32 s.mboxApMsg ++ le32 s.mboxMpMsg ++
  [s.mboxApCmd, s.mboxMpCmd] ++ le16 s.swCount ++ le32 s.swFile ++ le32 s.swLine ++ le32 s.time ++
  name16 ++ le32 s.iobuf ++
  [s.version.2.2, s.version.2.1, s.version.1, swTop] ++ pad ++ s.userVars.flatMap le32

/-- `get_router_diagnostics`: 16 little-endian words -/
def words (n : Nat) (d : List Nat) : Except String (List Nat) :=
  match n with
  | 0 => if d.isEmpty then .ok [] else .error "struct.error"
  | n + 1 =>
    if (d.take 4).length ≠ 4 then .error "struct.error" else
    match words n (d.drop 4) with
    | .error e => .error e
    | .ok r => .ok (leVal (d.take 4) :: r)

def routerDiagnostics (rd : Rd) : Except String (List Nat) :=
  words 16 (rd ROUTER_DIAG_ADDR ROUTER_DIAG_LEN)

/-! ## struct fields (`read_struct_field`, `read_vcpu_struct_field`) -/

/-- little-endian bytes of a value in a field of `size` bytes -/
def leN (size v : Nat) : List Nat := (List.range size).map fun i => v / 256 ^ i % 256

/-- `read_struct_field` / `read_vcpu_struct_field` for a scalar integer field of a struct at `base`;
arrays and strings are outside this model -/
def structField (rd : Rd) (fields : List (String × Nat × Nat × Bool × Nat)) (base : Nat) (name : String) :
    Except String Nat :=
  match fields.find? (·.1 == name) with
  | none => .error "KeyError"
  | some (_, off, size, isStr, count) =>
    if isStr || count != 1 then .error "NotScalar" else readInt rd (base + off) size

/-- `read_struct_field("sv", name, x, y)` -/
def svField (rd : Rd) (name : String) : Except String Nat := structField rd SV_FIELDS SV_BASE name

/-- `read_vcpu_struct_field(name, x, y, p)` -/
def vcpuField (rd : Rd) (p : Nat) (name : String) : Except String Nat := do
  let va ← vcpuAddr rd p
  structField rd VCPU_FIELDS va name

/-- machine specification: the bytes of scalar `sv` fields holding the given values -/
def svSegs (vals : List (String × Nat)) : List (Nat × List Nat) :=
  vals.filterMap fun (name, v) =>
    (SV_FIELDS.find? (·.1 == name)).map fun (_, off, size, _, _) => (SV_BASE + off, leN size v)

/-! ## struct layouts

The struct definitions in force (`MachineController.structs`: the bundled `sark.struct`, the `structs=`
argument, or what `boot()` installs) are a parameter of every probe that reads a struct field.  The
functions above are the instance for the bundled definitions (regenerated tables); the `…L` functions below
are the same code with the definitions as an argument. -/

structure Layout where
  svBase : Nat
  svFields : List (String × Nat × Nat × Bool × Nat)
  vcpuSize : Nat
  vcpuFields : List (String × Nat × Nat × Bool × Nat)
  deriving Repr

/-- the bundled definitions -/
def defaultLayout : Layout := ⟨SV_BASE, SV_FIELDS, VCPU_SIZE, VCPU_FIELDS⟩

def svFieldL (L : Layout) (rd : Rd) (name : String) : Except String Nat :=
  structField rd L.svFields L.svBase name

def vcpuAddrL (L : Layout) (rd : Rd) (p : Nat) : Except String Nat := do
  let base ← svFieldL L rd "vcpu_base"
  pure (base + L.vcpuSize * p)

def vcpuFieldL (L : Layout) (rd : Rd) (p : Nat) (name : String) : Except String Nat := do
  let va ← vcpuAddrL L rd p
  structField rd L.vcpuFields va name

def iobufBytesL (L : Layout) (rd : Rd) (p fuel : Nat) : Except String (List Nat) := do
  let size ← svFieldL L rd "iobuf_size"
  let va ← vcpuAddrL L rd p
  let first ← structField rd L.vcpuFields va "iobuf"
  iobufLoop rd size fuel first []

def decodeStatusL (L : Layout) (data : List Nat) : Except String Status := do
  let st ← unpackFields data L.vcpuFields
  let regs ← ["r0", "r1", "r2", "r3", "r4", "r5", "r6", "r7"].mapM (getInt st)
  let users ← ["user0", "user1", "user2", "user3"].mapM (getInt st)
  let name ← getStr st "app_name"
  let name := strip0 name
  if name.any (· ≥ 128) then .error "UnicodeDomain" else
  let cpu ← getInt st "cpu_state"
  if !validState cpu then .error "ValueError" else
  let rt ← getInt st "rt_code"
  if !RTE_VALUES.contains rt then .error "ValueError" else
  let sw ← getInt st "sw_ver"
  let _ ← getInt st "__PAD"
  pure { registers := regs, psr := ← getInt st "psr", sp := ← getInt st "sp", lr := ← getInt st "lr",
         rtCode := rt, physCpu := ← getInt st "phys_cpu", cpuState := cpu,
         mboxApMsg := ← getInt st "mbox_ap_msg", mboxMpMsg := ← getInt st "mbox_mp_msg",
         mboxApCmd := ← getInt st "mbox_ap_cmd", mboxMpCmd := ← getInt st "mbox_mp_cmd",
         swCount := ← getInt st "sw_count", swFile := ← getInt st "sw_file",
         swLine := ← getInt st "sw_line", time := ← getInt st "time", appName := name,
         iobuf := ← getInt st "iobuf", appId := ← getInt st "app_id",
         version := ((sw >>> 16) &&& 0xFF, (sw >>> 8) &&& 0xFF, (sw >>> 0) &&& 0xFF),
         userVars := users }

def processorStatusL (L : Layout) (rd : Rd) (p : Nat) : Except String Status := do
  let va ← vcpuAddrL L rd p
  decodeStatusL L (rd va L.vcpuSize)

def p2pTableL (L : Layout) (rd : Rd) : Except String (List ((Nat × Nat) × Nat)) := do
  let dims ← svFieldL L rd "p2p_dims"
  p2pTableOfDims rd dims

def getSystemInfoL (L : Layout) (rd : Rd) (probe : Nat × Nat → Option InfoReply) : Except String SysInfo :=
  match p2pTableL L rd with
  | .error e => .error e
  | .ok t => systemInfo t probe

/-- machine specification: the bytes of scalar `sv` fields under a layout -/
def svSegsL (L : Layout) (vals : List (String × Nat)) : List (Nat × List Nat) :=
  vals.filterMap fun (name, v) =>
    (L.svFields.find? (·.1 == name)).map fun (_, off, size, _, _) => (L.svBase + off, leN size v)

def writeAt (l : List Nat) (off : Nat) (b : List Nat) : List Nat :=
  l.take off ++ b ++ l.drop (off + b.length)

/-- the bytes of every field of the vcpu block, by name (widths as documented in sark.struct) -/
def statusVals (s : Status) (swTop : Nat) (name16 pad : List Nat) : List (String × List Nat) :=
  (["r0", "r1", "r2", "r3", "r4", "r5", "r6", "r7"].zip (s.registers.map le32)) ++
  [("psr", le32 s.psr), ("sp", le32 s.sp), ("lr", le32 s.lr), ("rt_code", [s.rtCode]), ("phys_cpu", [s.physCpu]),
   ("cpu_state", [s.cpuState]), ("app_id", [s.appId]), ("mbox_ap_msg", le32 s.mboxApMsg),
   ("mbox_mp_msg", le32 s.mboxMpMsg), ("mbox_ap_cmd", [s.mboxApCmd]), ("mbox_mp_cmd", [s.mboxMpCmd]),
   ("sw_count", le16 s.swCount), ("sw_file", le32 s.swFile), ("sw_line", le32 s.swLine), ("time", le32 s.time),
   ("app_name", name16), ("iobuf", le32 s.iobuf), ("sw_ver", [s.version.2.2, s.version.2.1, s.version.1, swTop]),
   ("__PAD", pad)] ++
  (["user0", "user1", "user2", "user3"].zip (s.userVars.map le32))

/-- machine specification: the vcpu block of a core under a layout - every field's bytes at the offset the
layout gives it, filler elsewhere -/
def statusBlockL (L : Layout) (s : Status) (swTop : Nat) (name16 pad : List Nat) : List Nat :=
  let vals := statusVals s swTop name16 pad
  L.vcpuFields.foldl (fun blk f => match vals.lookup f.1 with
    | some b => writeAt blk f.2.1 b
    | none => blk) (List.replicate L.vcpuSize 0xA5)

/-! ## software version -/

def isDigit (b : Nat) : Bool := 48 ≤ b && b ≤ 57
def digitsVal (l : List Nat) : Nat := l.foldl (fun a d => 10 * a + (d - 48)) 0
def rstrip0 (l : List Nat) : List Nat := (l.reverse.dropWhile (· == 0)).reverse

structure Version where
  name : List Nat
  major : Nat
  minor : Nat
  patch : Nat
  labels : List Nat
  deriving Repr, DecidableEq

/-- `VERSION_NUMBER_REGEX = ^(\d+)[.](\d+)[.](\d+)(\D.*)?$` on ASCII text without newlines -/
def matchVersion (v : List Nat) : Option (Nat × Nat × Nat × List Nat) :=
  let ma := v.takeWhile isDigit
  match v.dropWhile isDigit with
  | 46 :: r1 =>
    let mi := r1.takeWhile isDigit
    match r1.dropWhile isDigit with
    | 46 :: r2 =>
      let pa := r2.takeWhile isDigit
      let lab := r2.dropWhile isDigit
      if ma.isEmpty || mi.isEmpty || pa.isEmpty then none
      else some (digitsVal ma, digitsVal mi, digitsVal pa, lab)
    | _ => none
  | _ => none

/-- `unpack_sver_response_version`; text is ASCII (bytes < 128) without newlines -/
def unpackSver (arg2 : Nat) (data : List Nat) : Except String Version :=
  if data.any (fun b => b ≥ 128 || b == 10) then .error "TextDomain" else
  let legacy := arg2 >>> 16
  if legacy != 0xFFFF then
    .ok { name := rstrip0 data, major := legacy / 100, minor := legacy % 100, patch := 0, labels := [] }
  else
    let name := data.takeWhile (· != 0)
    let ver := rstrip0 ((data.dropWhile (· != 0)).drop 1)
    match matchVersion ver with
    | none => .error "AssertionError"
    | some (ma, mi, pa, lab) =>
      .ok { name := rstrip0 name, major := ma, minor := mi, patch := pa, labels := lab }

structure CoreInfo where
  pos : Nat × Nat
  physCpu : Nat
  virtCpu : Nat
  version : Version
  bufferSize : Nat
  buildDate : Nat
  deriving Repr, DecidableEq

/-- `get_software_version` applied to the reply -/
def decodeSver (arg1 arg2 arg3 : Nat) (data : List Nat) : Except String CoreInfo := do
  let p2p := arg1 >>> 16
  let v ← unpackSver arg2 data
  pure { pos := (p2p >>> 8, p2p &&& 0x00ff), physCpu := (arg1 >>> 8) &&& 0xff, virtCpu := arg1 &&& 0xff,
         version := v, bufferSize := arg2 &&& 0xffff, buildDate := arg3 }

/-- machine specification: sver reply in the legacy encoding (version = major*100 + minor in
the top half of arg2, name in the data) -/
def sverLegacy (x y pcpu vcpu buf date major minor : Nat) (name : List Nat) : Nat × Nat × Nat × List Nat :=
  ((x * 256 + y) * 65536 + pcpu * 256 + vcpu, (major * 100 + minor) * 65536 + buf, date, name)

/-- machine specification: sver reply in the string encoding (top half of arg2 = 0xFFFF, data =
name NUL "major.minor.patch" labels NUL), numbers given by their decimal digits -/
def sverString (x y pcpu vcpu buf date : Nat) (name ma mi pa labels : List Nat) : Nat × Nat × Nat × List Nat :=
  ((x * 256 + y) * 65536 + pcpu * 256 + vcpu, 65535 * 65536 + buf, date,
   name ++ [0] ++ ma ++ [46] ++ mi ++ [46] ++ pa ++ labels ++ [0])

/-! ## place-and-route machine and core reservations -/

structure PMachine where
  width : Nat
  height : Nat
  cores : Nat
  sdram : Nat
  sram : Nat
  exceptions : List ((Nat × Nat) × (Nat × Nat × Nat))
  deadChips : List (Nat × Nat)
  deadLinks : List (Nat × Nat × Nat)
  deriving Repr, DecidableEq

/-- `build_machine` -/
def buildMachine (si : SysInfo) : PMachine :=
  let maxCores := maxList (si.chips.map (·.2.numCores))
  let maxSdram := maxList (si.chips.map (·.2.sdram))
  let maxSram := maxList (si.chips.map (·.2.sram))
  { width := si.width, height := si.height, cores := maxCores, sdram := maxSdram, sram := maxSram,
    exceptions := si.chips.filterMap fun (xy, ci) =>
      if ci.numCores != maxCores || ci.sdram != maxSdram || ci.sram != maxSram
      then some (xy, (ci.numCores, ci.sdram, ci.sram)) else none,
    deadChips := si.deadChips, deadLinks := si.deadLinks }

/-- `Machine.__contains__` for a chip -/
def PMachine.chipOk (m : PMachine) (xy : Nat × Nat) : Bool :=
  xy.1 < m.width && xy.2 < m.height && !m.deadChips.contains xy

/-- `Machine.__contains__` for a link -/
def PMachine.linkOk (m : PMachine) (x y l : Nat) : Bool :=
  m.chipOk (x, y) && !m.deadLinks.contains (x, y, l)

/-- `Machine.__getitem__` (for a chip that is present) -/
def PMachine.resources (m : PMachine) (xy : Nat × Nat) : Nat × Nat × Nat :=
  (m.exceptions.lookup xy).getD (m.cores, m.sdram, m.sram)

/-- the property for the machine model, decided on a returned machine: same extent, exactly the
described chips and links, and for each chip exactly the probed quantities -/
def machineOk (si : SysInfo) (m : PMachine) : Bool :=
  let dead := Std.HashSet.ofList m.deadChips
  m.width == si.width && m.height == si.height &&
  (List.range m.width).all (fun x => (List.range m.height).all fun y =>
    (!dead.contains (x, y)) == si.has (x, y)) &&
  si.chips.all (fun (xy, ci) =>
    m.chipOk xy &&
    (List.range 6).all (fun l => m.linkOk xy.1 xy.2 l == ci.links.contains l) &&
    m.resources xy == (ci.numCores, ci.sdram, ci.sram))

/-- a `ReserveResourceConstraint` on cores: slice start, stop, location -/
structure Reservation where
  start : Nat
  stop : Nat
  chip : Option (Nat × Nat)
  deriving Repr, DecidableEq

/-- `_get_minimal_core_reservations` (the generator, with the pending `reservation` as state) -/
def minimalRes (chip : Option (Nat × Nat)) : List Nat → Option (Nat × Nat) → List Reservation
  | [], none => []
  | [], some (s, e) => [⟨s, e, chip⟩]
  | c :: cs, none => minimalRes chip cs (some (c, c + 1))
  | c :: cs, some (s, e) =>
    if e = c then minimalRes chip cs (some (s, c + 1))
    else ⟨s, e, chip⟩ :: minimalRes chip cs (some (c, c + 1))

/-- `sum(1 << c for c, state in enumerate(core_states) if state != AppState.idle)`, cores
numbered from `i` -/
def reservedMask : Nat → List Nat → Nat
  | _, [] => 0
  | i, s :: l => (if s != APPSTATE_IDLE then 1 <<< i else 0) + reservedMask (i + 1) l

def globalMask : List ((Nat × Nat) × ChipInfo) → Option Nat → Nat
  | [], none => 0
  | [], some g => g
  | (_, ci) :: rest, none => globalMask rest (some (reservedMask 0 ci.coreStates))
  | (_, ci) :: rest, some g => globalMask rest (some (g &&& reservedMask 0 ci.coreStates))

/-- `build_core_constraints` -/
def coreConstraints (si : SysInfo) : List Reservation :=
  let g := globalMask si.chips none
  minimalRes none ((List.range 18).filter fun core => (1 <<< core) &&& g != 0) none ++
  si.chips.flatMap fun (xy, ci) =>
    minimalRes (some xy)
      ((ci.coreStates.zipIdx.filter fun (s, core) => s != APPSTATE_IDLE && !((g &&& (1 <<< core)) != 0)).map (·.2))
      none

def Reservation.appliesTo (r : Reservation) (xy : Nat × Nat) : Bool :=
  match r.chip with
  | none => true
  | some c => c == xy

def coverCount (rs : List Reservation) (xy : Nat × Nat) (p : Nat) : Nat :=
  (rs.filter fun r => r.appliesTo xy && r.start ≤ p && p < r.stop).length

def busy (ci : ChipInfo) (p : Nat) : Bool :=
  match ci.coreStates[p]? with
  | some s => s != APPSTATE_IDLE
  | none => false

/-- the property for reservations, decided on a returned list: on every chip every busy core is
covered by exactly one reservation applying to that chip and every other core number by none
(so reservations never overlap); reservations name only described chips -/
def reservationsOk (si : SysInfo) (rs : List Reservation) : Bool :=
  let bound := maxList (rs.map (·.stop)) + 19
  rs.all (fun r => match r.chip with | none => true | some c => si.has c) &&
  si.chips.all fun (xy, ci) =>
    (List.range bound).all fun p => coverCount rs xy p == (if busy ci p then 1 else 0)

/-! ## line protocol -/
open Lean Rig.P

def pairOf (j : Json) : R (Nat × Nat) := asPair j asNat asNat

def infoReplyOfJson (j : Json) : R InfoReply := do
  pure { arg1 := ← nat j "arg1", arg2 := ← nat j "arg2", arg3 := ← nat j "arg3", data := ← nats j "data" }

def infoReplyToJson (r : InfoReply) : Json :=
  Json.mkObj [("arg1", jNat r.arg1), ("arg2", jNat r.arg2), ("arg3", jNat r.arg3), ("data", jNats r.data)]

def chipInfoOfJson (j : Json) : R ChipInfo := do
  pure { numCores := ← nat j "num_cores", coreStates := ← nats j "core_states", links := ← nats j "links",
         sdram := ← nat j "sdram", sram := ← nat j "sram", rtr := ← nat j "rtr", ethUp := ← bool j "eth_up",
         ip := ← nats j "ip", ethChip := ← (field j "eth_chip" >>= pairOf) }

def chipInfoFields (c : ChipInfo) : List (String × Json) :=
  [("num_cores", jNat c.numCores), ("core_states", jNats c.coreStates), ("links", jNats c.links),
   ("sdram", jNat c.sdram), ("sram", jNat c.sram), ("rtr", jNat c.rtr), ("eth_up", Json.bool c.ethUp),
   ("ip", jNats c.ip), ("eth_chip", jNats [c.ethChip.1, c.ethChip.2])]

def chipStateOfJson (j : Json) : R ChipState := do
  let ip ← nats j "ip"
  let e ← field j "eth_chip" >>= pairOf
  match ip with
  | [a, b, c, d] =>
    pure { cores := ← nat j "cores", states := ← nats j "states", links := ← nats j "links",
           sdram := ← nat j "sdram", sram := ← nat j "sram", rtr := ← nat j "rtr", ethUp := ← bool j "eth_up",
           ip0 := a, ip1 := b, ip2 := c, ip3 := d, ethX := e.1, ethY := e.2 }
  | _ => .error "ip must have 4 numbers"

def xyOf (j : Json) : R (Nat × Nat) := do pure (← nat j "x", ← nat j "y")

def sysInfoOfJson (j : Json) : R SysInfo := do
  let cs ← (← arr j "chips").mapM fun c => do pure (← xyOf c, ← chipInfoOfJson c)
  pure { width := ← nat j "width", height := ← nat j "height", chips := cs }

def sysInfoToJson (si : SysInfo) : Json :=
  Json.mkObj [("width", jNat si.width), ("height", jNat si.height),
    ("chips", jList (si.chips.map fun (xy, ci) =>
      Json.mkObj ([("x", jNat xy.1), ("y", jNat xy.2)] ++ chipInfoFields ci)))]

def tableOfJson (j : Json) (k : String) : R (List ((Nat × Nat) × Nat)) := do
  (← arr j k).mapM fun e => do
    match ← asArr e with
    | [x, y, r] => pure ((← asNat x, ← asNat y), ← asNat r)
    | _ => .error "expected [x, y, entry]"

def machineStateOfJson (j : Json) : R MachineState := do
  let cs ← (← arr j "chips").mapM fun c => do pure (← xyOf c, ← chipStateOfJson c)
  pure { dimW := ← nat j "dim_w", dimH := ← nat j "dim_h", p2p := ← tableOfJson j "p2p", chips := cs }

def segsOfJson (j : Json) : R (List (Nat × List Nat)) := do
  (← arr j "mem").mapM fun e => asPair e asNat (fun b => do (← asArr b).mapM asNat)

/-- memory reader over an image given as segments; unmapped bytes read as 0 -/
def rdSegs (segs : List (Nat × List Nat)) : Rd := fun a n =>
  match segs.find? (fun s => s.1 ≤ a && a + n ≤ s.1 + s.2.length) with
  | some s => (s.2.drop (a - s.1)).take n
  | none => List.replicate n 0

def segsToJson (segs : List (Nat × List Nat)) : Json :=
  jList (segs.map fun s => jPair (jNat s.1) (jNats s.2))

def res (f : α → Json) : Except String α → Json
  | .ok v => jOk (f v)
  | .error e => jErr e

def pmachineToJson (m : PMachine) : Json :=
  Json.mkObj [("width", jNat m.width), ("height", jNat m.height), ("cores", jNat m.cores),
    ("sdram", jNat m.sdram), ("sram", jNat m.sram),
    ("exceptions", jList (m.exceptions.map fun (xy, c, s, r) => jNats [xy.1, xy.2, c, s, r])),
    ("dead_chips", jList (m.deadChips.map fun (x, y) => jNats [x, y])),
    ("dead_links", jList (m.deadLinks.map fun (x, y, l) => jNats [x, y, l]))]

def tripleOf (j : Json) : R (Nat × Nat × Nat) := do
  match ← asArr j with
  | [a, b, c] => pure (← asNat a, ← asNat b, ← asNat c)
  | _ => .error "expected triple"

def pmachineOfJson (j : Json) : R PMachine := do
  let ex ← (← arr j "exceptions").mapM fun e => do
    match ← asArr e with
    | [x, y, c, s, r] => pure ((← asNat x, ← asNat y), (← asNat c, ← asNat s, ← asNat r))
    | _ => .error "expected [x,y,c,s,r]"
  pure { width := ← nat j "width", height := ← nat j "height", cores := ← nat j "cores",
         sdram := ← nat j "sdram", sram := ← nat j "sram", exceptions := ex,
         deadChips := ← (← arr j "dead_chips").mapM pairOf,
         deadLinks := ← (← arr j "dead_links").mapM tripleOf }

def resToJson (r : Reservation) : Json :=
  Json.mkObj [("start", jNat r.start), ("stop", jNat r.stop),
    ("chip", jOpt (fun (c : Nat × Nat) => jNats [c.1, c.2]) r.chip)]

def resOfJson (j : Json) : R Reservation := do
  pure { start := ← nat j "start", stop := ← nat j "stop", chip := ← opt j "chip" pairOf }

def statusToJson (s : Status) : Json :=
  Json.mkObj [("registers", jNats s.registers), ("program_state_register", jNat s.psr),
    ("stack_pointer", jNat s.sp), ("link_register", jNat s.lr), ("rt_code", jNat s.rtCode),
    ("phys_cpu", jNat s.physCpu), ("cpu_state", jNat s.cpuState), ("mbox_ap_msg", jNat s.mboxApMsg),
    ("mbox_mp_msg", jNat s.mboxMpMsg), ("mbox_ap_cmd", jNat s.mboxApCmd), ("mbox_mp_cmd", jNat s.mboxMpCmd),
    ("sw_count", jNat s.swCount), ("sw_file", jNat s.swFile), ("sw_line", jNat s.swLine),
    ("time", jNat s.time), ("app_name", jNats s.appName), ("iobuf_address", jNat s.iobuf),
    ("app_id", jNat s.appId), ("version", jNats [s.version.1, s.version.2.1, s.version.2.2]),
    ("user_vars", jNats s.userVars)]

def statusOfJson (j : Json) : R Status := do
  let v ← nats j "version"
  match v with
  | [a, b, c] =>
    pure { registers := ← nats j "registers", psr := ← nat j "program_state_register",
           sp := ← nat j "stack_pointer", lr := ← nat j "link_register", rtCode := ← nat j "rt_code",
           physCpu := ← nat j "phys_cpu", cpuState := ← nat j "cpu_state", mboxApMsg := ← nat j "mbox_ap_msg",
           mboxMpMsg := ← nat j "mbox_mp_msg", mboxApCmd := ← nat j "mbox_ap_cmd",
           mboxMpCmd := ← nat j "mbox_mp_cmd", swCount := ← nat j "sw_count", swFile := ← nat j "sw_file",
           swLine := ← nat j "sw_line", time := ← nat j "time", appName := ← nats j "app_name",
           iobuf := ← nat j "iobuf_address", appId := ← nat j "app_id", version := (a, b, c),
           userVars := ← nats j "user_vars" }
  | _ => .error "version must have 3 numbers"

def blockOfJson (j : Json) : R IoBlock := do
  pure { addr := ← nat j "addr", time := ← nat j "time", ms := ← nat j "ms", len := ← nat j "len",
         data := ← nats j "data" }

def chainSegs : List IoBlock → List (Nat × List Nat)
  | [] => []
  | b :: bs => (b.addr, blockBytes b (chainNext bs)) :: chainSegs bs

def versionToJson (v : Version) : Json :=
  Json.mkObj [("name", jNats v.name), ("version", jNats [v.major, v.minor, v.patch]), ("labels", jNats v.labels)]

def coreInfoToJson (c : CoreInfo) : Json :=
  Json.mkObj [("position", jNats [c.pos.1, c.pos.2]), ("physical_cpu", jNat c.physCpu),
    ("virt_cpu", jNat c.virtCpu), ("sw", versionToJson c.version), ("buffer_size", jNat c.bufferSize),
    ("build_date", jNat c.buildDate)]

def sverToJson (r : Nat × Nat × Nat × List Nat) : Json :=
  Json.mkObj [("arg1", jNat r.1), ("arg2", jNat r.2.1), ("arg3", jNat r.2.2.1), ("data", jNats r.2.2.2)]

/-- P2P image of the machine specification: one segment per column inside the dimensions,
whole words (so rows beyond the height inside the last word are served too) -/
def p2pSegs (m : MachineState) : List (Nat × List Nat) :=
  (List.range m.dimW).map fun c =>
    (SPINNAKER_RTR_P2P + 128 * c, readMem (p2pMem m.entry) (SPINNAKER_RTR_P2P + 128 * c) (((m.dimH + 7) / 8) * 4))

def fieldsOfJson (j : Json) (k : String) : R (List (String × Nat × Nat × Bool × Nat)) := do
  (← arr j k).mapM fun e => do
    match ← asArr e with
    | [n, o, sz, st, c] => pure (← asStr n, ← asNat o, ← asNat sz, ← asBool st, ← asNat c)
    | _ => .error "expected [name, offset, size, is_string, count]"

/-- the struct definitions a request is made under (absent: the bundled ones, via the original functions) -/
def layoutOfJson (j : Json) : R (Option Layout) :=
  opt j "layout" fun l => do
    pure { svBase := ← nat l "sv_base", svFields := ← fieldsOfJson l "sv_fields",
           vcpuSize := ← nat l "vcpu_size", vcpuFields := ← fieldsOfJson l "vcpu_fields" }

def probeOfJson (j : Json) : R (Nat × Nat → Option InfoReply) := do
  let l ← (← arr j "replies").mapM fun c => do pure (← xyOf c, ← infoReplyOfJson c)
  pure fun xy => l.lookup xy

def handle (op : String) (j : Json) : R Json := do
  match op with
  -- specification (encode direction)
  | "spec_info" => pure (infoReplyToJson (infoReply (← chipStateOfJson j)))
  | "spec_view" => pure (Json.mkObj (chipInfoFields (chipView (← chipStateOfJson j))))
  | "spec_p2p" =>
    let m ← machineStateOfJson j
    match ← layoutOfJson j with
    | none =>
      pure (Json.mkObj [("mem", segsToJson ((SV_BASE + SV_P2P_DIMS_OFF, le16 (m.dimW * 256 + m.dimH)) :: p2pSegs m))])
    | some L =>
      pure (Json.mkObj [("mem", segsToJson (svSegsL L [("p2p_dims", m.dimW * 256 + m.dimH)] ++ p2pSegs m))])
  | "spec_core" =>
    -- image of one core: sv.vcpu_base, sv.iobuf_size, the vcpu block, the IOBUF chain, router counters
    let p ← nat j "p"
    let vbase ← nat j "vcpu_base"
    let s ← statusOfJson (← field j "status")
    let blocks ← (← arr j "blocks").mapM blockOfJson
    let s := { s with iobuf := chainNext blocks }
    let diag ← nats j "diag"
    let swTop ← nat j "sw_top"
    let name16 ← nats j "name16"
    let pad ← nats j "pad"
    let isz ← nat j "iobuf_size"
    let head : List (Nat × List Nat) := match ← layoutOfJson j with
      | none =>
        [(SV_BASE + SV_VCPU_BASE_OFF, le32 vbase), (SV_BASE + SV_IOBUF_SIZE_OFF, le32 isz),
         (vbase + VCPU_SIZE * p, statusBytes s swTop name16 pad)]
      | some L =>
        svSegsL L [("vcpu_base", vbase), ("iobuf_size", isz)] ++
          [(vbase + L.vcpuSize * p, statusBlockL L s swTop name16 pad)]
    pure (Json.mkObj [("mem", segsToJson (head ++ [(ROUTER_DIAG_ADDR, diag.flatMap le32)] ++ chainSegs blocks)),
      ("text", jNats (chainText blocks)), ("status", statusToJson s)])
  | "spec_answers" =>
    -- the states (of the generated enumeration) in which an application core / the monitor answers commands
    pure (Json.mkObj [("app", jNats (APPSTATE_VALUES.filter (coreAnswers 1))),
                      ("monitor", jNats (APPSTATE_VALUES.filter (coreAnswers 0)))])
  | "spec_sver_legacy" =>
    pure (sverToJson (sverLegacy (← nat j "x") (← nat j "y") (← nat j "pcpu") (← nat j "vcpu") (← nat j "buf")
      (← nat j "date") (← nat j "major") (← nat j "minor") (← nats j "name")))
  | "spec_sver_string" =>
    pure (sverToJson (sverString (← nat j "x") (← nat j "y") (← nat j "pcpu") (← nat j "vcpu") (← nat j "buf")
      (← nat j "date") (← nats j "name") (← nats j "ma") (← nats j "mi") (← nats j "pa") (← nats j "labels")))
  -- model of the code (decode direction)
  | "dec_info" => pure (res (fun c => Json.mkObj (chipInfoFields c)) (decodeInfo (← infoReplyOfJson j)))
  | "p2p_table" =>
    let segs ← segsOfJson j
    let t := match ← layoutOfJson j with
      | none => p2pTable (rdSegs segs)
      | some L => p2pTableL L (rdSegs segs)
    pure (res (fun t => jList (t.map fun (xy, r) => jNats [xy.1, xy.2, r])) t)
  | "system_info" =>
    let segs ← segsOfJson j
    let probe ← probeOfJson j
    let gsi := match ← layoutOfJson j with
      | none => getSystemInfo (rdSegs segs) probe
      | some L => getSystemInfoL L (rdSegs segs) probe
    match gsi with
    | .error e => pure (jErr e)
    | .ok si =>
      pure (jOk (Json.mkObj [("sysinfo", sysInfoToJson si),
        ("dead_chips", jList (si.deadChips.map fun (x, y) => jNats [x, y])),
        ("dead_links", jList (si.deadLinks.map fun (x, y, l) => jNats [x, y, l])),
        ("links", jList (si.liveLinks.map fun (x, y, l) => jNats [x, y, l])),
        ("cores", jList (si.cores.map fun (x, y, p, s) => jNats [x, y, p, s])),
        ("target_lengths", jList ((targetLengths si).map fun (xy, n) => jNats [xy.1, xy.2, n]))]))
  | "contains" =>
    -- `SystemInfo.__contains__`: queries [kind, x, y, a, b] with kind 0 chip, 1 link a, 2 core a, 3 core a in state b
    let si ← sysInfoOfJson (← field j "sysinfo")
    let qs ← (← arr j "queries").mapM fun q => do (← asArr q).mapM asNat
    pure (jList (qs.map fun q =>
      match q with
      | [0, x, y, _, _] => Json.bool (si.has (x, y))
      | [1, x, y, l, _] => Json.bool (si.hasLink x y l)
      | [2, x, y, p, _] => Json.bool (si.hasCore x y p)
      | [3, x, y, p, st] =>
        match si.hasCoreState x y p st with
        | .ok b => Json.bool b
        | .error e => Json.str e
      | _ => Json.null))
  | "spec_sv" =>
    let vals ← (← arr j "fields").mapM fun e => asPair e asStr asNat
    match ← layoutOfJson j with
    | none => pure (Json.mkObj [("mem", segsToJson (svSegs vals))])
    | some L => pure (Json.mkObj [("mem", segsToJson (svSegsL L vals))])
  | "sv_field" =>
    match ← layoutOfJson j with
    | none => pure (res jNat (svField (rdSegs (← segsOfJson j)) (← str j "name")))
    | some L => pure (res jNat (svFieldL L (rdSegs (← segsOfJson j)) (← str j "name")))
  | "vcpu_field" =>
    match ← layoutOfJson j with
    | none => pure (res jNat (vcpuField (rdSegs (← segsOfJson j)) (← nat j "p") (← str j "name")))
    | some L => pure (res jNat (vcpuFieldL L (rdSegs (← segsOfJson j)) (← nat j "p") (← str j "name")))
  | "p2p_ok" =>
    pure (Json.bool (p2pOk (← machineStateOfJson (← field j "state")) (← tableOfJson j "got")))
  | "val_ok" => pure (Json.bool ((← nat j "want") == (← nat j "got")))
  | "iobuf" =>
    match ← layoutOfJson j with
    | none => pure (res jNats (iobufBytes (rdSegs (← segsOfJson j)) (← nat j "p") (← nat j "fuel")))
    | some L => pure (res jNats (iobufBytesL L (rdSegs (← segsOfJson j)) (← nat j "p") (← nat j "fuel")))
  | "status" =>
    match ← layoutOfJson j with
    | none => pure (res statusToJson (processorStatus (rdSegs (← segsOfJson j)) (← nat j "p")))
    | some L => pure (res statusToJson (processorStatusL L (rdSegs (← segsOfJson j)) (← nat j "p")))
  | "diag" => pure (res jNats (routerDiagnostics (rdSegs (← segsOfJson j))))
  | "dec_sver" =>
    pure (res coreInfoToJson (decodeSver (← nat j "arg1") (← nat j "arg2") (← nat j "arg3") (← nats j "data")))
  | "build_machine" => pure (pmachineToJson (buildMachine (← sysInfoOfJson j)))
  | "core_constraints" => pure (jList ((coreConstraints (← sysInfoOfJson j)).map resToJson))
  | "machine_views" =>
    -- `Machine.__contains__` (chip, link), `Machine.__getitem__`, `iter(machine)`, `machine.iter_links()` of the
    -- machine built from a description
    let m := buildMachine (← sysInfoOfJson (← field j "sysinfo"))
    let qs ← (← arr j "queries").mapM tripleOf
    let answers := qs.map fun (x, y, l) =>
      jList [Json.bool (m.chipOk (x, y)), Json.bool (m.linkOk x y l),
             if m.chipOk (x, y) then (let r := m.resources (x, y); jNats [r.1, r.2.1, r.2.2]) else Json.null]
    let all ← bool j "iter"
    let chips := if all then (List.range m.width).flatMap fun x => (List.range m.height).filterMap fun y =>
      if m.chipOk (x, y) then some (jNats [x, y]) else none else []
    let links := if all then (List.range m.width).flatMap fun x => (List.range m.height).flatMap fun y =>
      (List.range 6).filterMap fun l => if m.linkOk x y l then some (jNats [x, y, l]) else none else []
    pure (Json.mkObj [("answers", jList answers), ("chips", jList chips), ("links", jList links)])
  -- property oracles on implementation outputs
  | "info_ok" =>
    pure (Json.bool (decide (chipView (← chipStateOfJson (← field j "state")) = (← chipInfoOfJson (← field j "got")))))
  | "sysinfo_ok" =>
    pure (Json.bool (sysinfoOk (← machineStateOfJson (← field j "state")) (← sysInfoOfJson (← field j "got"))))
  | "core_ok" =>
    let blocks ← (← arr j "blocks").mapM blockOfJson
    let want := { (← statusOfJson (← field j "status")) with iobuf := chainNext blocks }
    let okS ← (do match ← opt j "got_status" statusOfJson with
                  | some g => pure (decide (g = want))
                  | none => pure true : R Bool)
    let okT ← (do match ← opt j "got_text" (fun t => do (← asArr t).mapM asNat) with
                  | some g => pure (decide (g = chainText blocks))
                  | none => pure true : R Bool)
    let okD ← (do match ← opt j "got_diag" (fun t => do (← asArr t).mapM asNat) with
                  | some g => pure (decide (g = (← nats j "diag")))
                  | none => pure true : R Bool)
    pure (Json.mkObj [("status", Json.bool okS), ("text", Json.bool okT), ("diag", Json.bool okD)])
  | "sver_ok" =>
    let g ← field j "got"
    let sw ← field g "sw"
    let ver ← nats sw "version"
    let pos ← field g "position" >>= pairOf
    let legacy ← bool j "legacy"
    let want : List Nat ← (if legacy then do pure [← nat j "major", ← nat j "minor", 0]
      else do pure [digitsVal (← nats j "ma"), digitsVal (← nats j "mi"), digitsVal (← nats j "pa")] : R (List Nat))
    let wantLabels : List Nat ← (if legacy then pure [] else nats j "labels" : R (List Nat))
    pure (Json.bool (ver == want && (← nats sw "labels") == wantLabels && (← nats sw "name") == (← nats j "name")
      && pos == (← nat j "x", ← nat j "y") && (← nat g "physical_cpu") == (← nat j "pcpu")
      && (← nat g "virt_cpu") == (← nat j "vcpu") && (← nat g "buffer_size") == (← nat j "buf")
      && (← nat g "build_date") == (← nat j "date")))
  | "dead_ok" =>
    pure (Json.bool (deadOk (← sysInfoOfJson (← field j "sysinfo")) (← (← arr j "dead_chips").mapM pairOf)
      (← (← arr j "dead_links").mapM tripleOf)))
  | "machine_ok" =>
    pure (Json.bool (machineOk (← sysInfoOfJson (← field j "sysinfo")) (← pmachineOfJson (← field j "got"))))
  | "reservations_ok" =>
    let rs ← (← arr j "got").mapM resOfJson
    pure (Json.bool (reservationsOk (← sysInfoOfJson (← field j "sysinfo")) rs))
  | _ => .error s!"unknown op {op}"

end Rig.C14
