/-
C11 - model of rig/geometry.py (to_xyz, minimise_xyz, shortest_mesh_path_length,
shortest_mesh_path, shortest_torus_path_length, shortest_torus_path,
concentric_hexagons), rig/links.py (Links.from_vector / to_vector / opposite)
and rig/place_and_route/route/utils.py (longest_dimension_first, links_between).

Python semantics used: `%` is floor-mod (`Int.fmod`), `//` floor-div (`Int.fdiv`),
`x % 0` raises ZeroDivisionError, a missing dict key raises KeyError,
`min(seq, key=f)` returns the FIRST element with minimal key, `sorted(...,
reverse=True)` is stable (equal keys keep their original order).

Randomness is an oracle input.  `random.random()` is a rational `k / den` with
`k < den` (every float in [0,1) is such a dyadic rational); keys `n + random()`
for an integer `n` are compared exactly as `n * den + k` (ASSUMPTION: the float
addition does not round across an integer - see the harness note on the
2^-53 corner).  `random.randint(lo, hi)` is `lo + t % (hi - lo + 1)` for an
arbitrary natural `t`: every value in `[lo, hi]` and nothing else.
-/
import RigModel.Model.Proto
import RigModel.Gen.Links

namespace Rig.C11
open Rig.Gen.Links

abbrev P2 := Int × Int

structure V3 where
  x : Int
  y : Int
  z : Int
  deriving Repr, DecidableEq

inductive Err where
  | zeroDivision
  | keyError
  deriving Repr, DecidableEq

def pyMod (a b : Int) : Int := Int.fmod a b
def pyDiv (a b : Int) : Int := Int.fdiv a b

/-! ### rig/links.py -/

def lookupDir (v : P2) : Option Nat :=
  (linkDirectionLookup.find? (fun e => e.1 == v)).map (·.2)

/-- `Links.from_vector`; `none` = KeyError -/
def fromVector (x y : Int) : Option Nat :=
  let x := if x.natAbs > 1 then (if x > 0 then -1 else 1) else x
  let y := if y.natAbs > 1 then (if y > 0 then -1 else 1) else y
  lookupDir (x, y)

/-- `Links.to_vector`; `none` = KeyError -/
def toVector (l : Nat) : Option P2 :=
  (directionLinkLookup.find? (fun e => e.1 == l)).map (·.2)

/-- `Links.opposite` (value of the resulting enum member) -/
def opposite (l : Nat) : Nat := (l + 3) % 6

/-- the members of the enumeration, in iteration order -/
def allLinks : List Nat := linkNames.map (·.2)

/-! ### rig/geometry.py -/

def toXyz (p : P2) : V3 := ⟨p.1, p.2, 0⟩

def minimiseXyz (v : V3) : V3 :=
  let m := max (min v.x v.y) (min (max v.x v.y) v.z)
  ⟨v.x - m, v.y - m, v.z - m⟩

def meshLen (s d : V3) : Int :=
  let x := d.x - s.x
  let y := d.y - s.y
  let z := d.z - s.z
  let maximum := x
  let maximum := if y > maximum then y else maximum
  let maximum := if z > maximum then z else maximum
  let minimum := x
  let minimum := if y < minimum then y else minimum
  let minimum := if z < minimum then z else minimum
  maximum - minimum

def meshPath (s d : V3) : V3 := minimiseXyz ⟨d.x - s.x, d.y - s.y, d.z - s.z⟩

/-- body of `shortest_torus_path_length` once `w, h ≠ 0` -/
def torusLenCore (s d : V3) (w h : Int) : Int :=
  let x := d.x - s.x
  let y := d.y - s.y
  let z := d.z - s.z
  let x := x - z
  let y := y - z
  let x := pyMod x w
  let y := pyMod y h
  let length := if x > y then x else y
  let wrapX := w - x + y
  let length := if wrapX < length then wrapX else length
  let wrapY := x + h - y
  let length := if wrapY < length then wrapY else length
  let dx := w - x
  let dy := h - y
  let wrapXY := if dx > dy then dx else dy
  if wrapXY < length then wrapXY else length

def torusLen (s d : V3) (w h : Int) : Except Err Int :=
  if w = 0 ∨ h = 0 then .error .zeroDivision else .ok (torusLenCore s d w h)

/-- Python `min(l, key=...)` on (key, value) pairs: the first pair with the least key -/
def minByKey (a : Int × V3) (t : List (Int × V3)) : Int × V3 :=
  t.foldl (fun best c => if c.1 < best.1 then c else best) a

def randint (lo hi : Int) (t : Nat) : Int := lo + (t : Int) % (hi - lo + 1)

/-- the four candidate approaches `[(distance, vector), ...]` -/
def approaches (dx dy w h : Int) : List (Int × V3) :=
  [(max dx dy, ⟨dx, dy, 0⟩),
   (w - dx + dy, ⟨-(w - dx), dy, 0⟩),
   (dx + h - dy, ⟨dx, -(h - dy), 0⟩),
   (max (w - dx) (h - dy), ⟨-(w - dx), -(h - dy), 0⟩)]

/-- the spiral adjustment applied to the minimised vector -/
def spiral (v : V3) (w h : Int) (t : Nat) : V3 :=
  if (v.x.natAbs : Int) ≥ h then
    let maxSpirals := pyDiv (if v.x < 0 then v.x + h - 1 else v.x) h
    let d := randint (min 0 maxSpirals) (max 0 maxSpirals) t * h
    ⟨v.x - d, v.y, v.z - d⟩
  else if (v.y.natAbs : Int) ≥ w then
    let maxSpirals := pyDiv (if v.y < 0 then v.y + w - 1 else v.y) w
    let d := randint (min 0 maxSpirals) (max 0 maxSpirals) t * w
    ⟨v.x, v.y - d, v.z - d⟩
  else v

/-- did `shortest_torus_path` call `random.randint`? (for the recorder) -/
def spiralUsed (v : V3) (w h : Int) : Bool :=
  decide ((v.x.natAbs : Int) ≥ h) || decide ((v.y.natAbs : Int) ≥ w)

def torusPathCore (s d : V3) (w h : Int) (den k0 k1 k2 k3 : Nat) (t : Nat) : V3 :=
  let sx := s.x - s.z
  let sy := s.y - s.z
  let dx := pyMod (d.x - d.z - sx) w
  let dy := pyMod (d.y - d.z - sy) h
  match approaches dx dy w h, [k0, k1, k2, k3] with
  | [a0, a1, a2, a3], [k0, k1, k2, k3] =>
    let key (a : Int × V3) (k : Nat) : Int × V3 := (a.1 * den + k, a.2)
    let best := minByKey (key a0 k0) [key a1 k1, key a2 k2, key a3 k3]
    spiral (minimiseXyz best.2) w h t
  | _, _ => ⟨0, 0, 0⟩

def torusPath (s d : V3) (w h : Int) (den k0 k1 k2 k3 : Nat) (t : Nat) : Except Err V3 :=
  if w = 0 ∨ h = 0 then .error .zeroDivision else .ok (torusPathCore s d w h den k0 k1 k2 k3 t)

/-- one side of a ring: `for _ in range(r): yield (x, y); x += dx; y += dy` -/
def walkSide (d : P2) : Nat → P2 → List P2
  | 0, _ => []
  | n + 1, p => p :: walkSide d n (p.1 + d.1, p.2 + d.2)

def sideEnd (d : P2) (n : Nat) (p : P2) : P2 := (p.1 + (n : Int) * d.1, p.2 + (n : Int) * d.2)

def hexDirs : List P2 := [(1, 1), (0, 1), (-1, 0), (-1, -1), (0, -1), (1, 0)]

/-- the ring walked for one value of `r`, starting at `p` (after `y -= 1`) -/
def walkRing (r : Nat) : List P2 → P2 → List P2
  | [], _ => []
  | d :: ds, p => walkSide d r p ++ walkRing r ds (sideEnd d r p)

def ringEnd (r : Nat) : List P2 → P2 → P2
  | [], p => p
  | d :: ds, p => ringEnd r ds (sideEnd d r p)

/-- `for r in range(r0, r0 + n)` -/
def rings : Nat → Nat → P2 → List P2
  | 0, _, _ => []
  | n + 1, r, p =>
    let p := (p.1, p.2 - 1)
    walkRing r hexDirs p ++ rings n (r + 1) (ringEnd r hexDirs p)

def concentricHexagons (radius : Int) (start : P2) : List P2 :=
  start :: rings radius.toNat 1 start

/-! ### rig/place_and_route/route/utils.py -/

def wrap (c : Int) : Option Int → Int
  | none => c
  | some m => pyMod c m

def stepTo (w h : Option Int) (p d : P2) : P2 := (wrap (p.1 + d.1) w, wrap (p.2 + d.2) h)

def unitOf (dim : Nat) (sign : Int) : P2 :=
  if dim = 0 then (sign, 0) else if dim = 1 then (0, sign) else (-sign, -sign)

def walkDim (w h : Option Int) (dv : P2) (lab : Option Nat) : Nat → P2 → List (Option Nat × P2)
  | 0, _ => []
  | n + 1, p => let q := stepTo w h p dv; (lab, q) :: walkDim w h dv lab n q

def posAfter (w h : Option Int) (dv : P2) : Nat → P2 → P2
  | 0, p => p
  | n + 1, p => posAfter w h dv n (stepTo w h p dv)

/-- stable insertion into a list sorted by descending key -/
def insertDesc (a : Nat × Int × Int) : List (Nat × Int × Int) → List (Nat × Int × Int)
  | [] => [a]
  | b :: t => if b.2.2 > a.2.2 then b :: insertDesc a t else a :: b :: t

/-- `sorted(enumerate(vector), key=lambda x: abs(x[1]) + random.random(), reverse=True)`
as (dimension, magnitude, key) triples -/
def ldfOrder (v : V3) (den k0 k1 k2 : Nat) : List (Nat × Int × Int) :=
  let item (i : Nat) (m : Int) (k : Nat) : Nat × Int × Int := (i, m, (m.natAbs : Int) * den + k)
  insertDesc (item 0 v.x k0) (insertDesc (item 1 v.y k1) (insertDesc (item 2 v.z k2) []))

def ldfLoop (w h : Option Int) : List (Nat × Int × Int) → P2 → List (Option Nat × P2)
  | [], _ => []
  | (dim, mag, _) :: rest, p =>
    if mag = 0 then []
    else
      let sign : Int := if mag > 0 then 1 else -1
      let dv := unitOf dim sign
      walkDim w h dv (fromVector dv.1 dv.2) mag.natAbs p
        ++ ldfLoop w h rest (posAfter w h dv mag.natAbs p)

def ldfRaw (v : V3) (start : P2) (w h : Option Int) (den k0 k1 k2 : Nat) : List (Option Nat × P2) :=
  ldfLoop w h (ldfOrder v den k0 k1 k2) start

def ldf (v : V3) (start : P2) (w h : Option Int) (den k0 k1 k2 : Nat) : Except Err (List (Nat × P2)) :=
  (ldfRaw v start w h den k0 k1 k2).mapM fun e =>
    match e.1 with
    | some l => .ok (l, e.2)
    | none => .error .keyError

structure Mach where
  w : Int
  h : Int
  deadChips : List P2
  deadLinks : List (P2 × Nat)

def Mach.hasChip (m : Mach) (p : P2) : Bool :=
  decide (0 ≤ p.1) && decide (p.1 < m.w) && decide (0 ≤ p.2) && decide (p.2 < m.h) && !(m.deadChips.contains p)

def Mach.hasLink (m : Mach) (p : P2) (l : Nat) : Bool :=
  m.hasChip p && !(m.deadLinks.contains (p, l))

/-- `links_between`; `none` = KeyError from `to_vector` (impossible on the real table) -/
def linksBetween (a b : P2) (m : Mach) : Option (List Nat) :=
  allLinks.foldr (fun l acc =>
    match toVector l, acc with
    | some d, some acc =>
      if pyMod (a.1 + d.1) m.w = b.1 ∧ pyMod (a.2 + d.2) m.h = b.2 ∧ m.hasLink a l = true
      then some (l :: acc) else some acc
    | _, _ => none) (some [])

/-! ### Specification (independent of the code) -/

/-- The SpiNNaker link numbering and the hexagonal neighbourhood: E, NE, N, W, SW, S. -/
def specVec : Nat → Option P2
  | 0 => some (1, 0)
  | 1 => some (1, 1)
  | 2 => some (0, 1)
  | 3 => some (-1, 0)
  | 4 => some (-1, -1)
  | 5 => some (0, -1)
  | _ => none

def hexSteps : List P2 := [(1, 0), (1, 1), (0, 1), (-1, 0), (-1, -1), (0, -1)]

/-- hexagonal norm of a 2-D displacement -/
def hexLen (x y : Int) : Int := max (max x y) 0 - min (min x y) 0

/-- the 2-D chip addressed by a three-axis coordinate -/
def proj (v : V3) : P2 := (v.x - v.z, v.y - v.z)

def projT (v : V3) (w h : Int) : P2 := ((v.x - v.z) % w, (v.y - v.z) % h)

def absSum (v : V3) : Int := (v.x.natAbs : Int) + v.y.natAbs + v.z.natAbs

/-- `Reach w h n a b`: there is a walk of exactly `n` hops from `a` to `b` in the hexagonal
mesh (`w = h = none`) or in the torus / cylinder that wraps x at `w` and y at `h`. -/
inductive Reach (w h : Option Int) : Nat → P2 → P2 → Prop where
  | refl (a : P2) : Reach w h 0 a a
  | step {n : Nat} {a b : P2} (d : P2) : Reach w h n a b → d ∈ hexSteps →
      Reach w h (n + 1) a (stepTo w h b d)

/-- `n` is the graph distance from `a` to `b` -/
def IsDist (w h : Option Int) (a b : P2) (n : Nat) : Prop :=
  Reach w h n a b ∧ ∀ m, Reach w h m a b → n ≤ m

/-- executable graph search: everything within `n` hops of `a` (insertion order) -/
def insertAll (acc : List P2) : List P2 → List P2
  | [] => acc
  | p :: t => if acc.contains p then insertAll acc t else insertAll (acc ++ [p]) t

def expand (w h : Option Int) (l : List P2) : List P2 :=
  l.flatMap fun p => hexSteps.map fun d => stepTo w h p d

def grow (w h : Option Int) (b : List P2) : List P2 := insertAll b (expand w h b)

def ballLe (w h : Option Int) (a : P2) : Nat → List P2
  | 0 => [a]
  | n + 1 => grow w h (ballLe w h a n)

/-- decidable form of `IsDist` -/
def distIs (w h : Option Int) (a b : P2) (n : Nat) : Bool :=
  (ballLe w h a n).contains b && (n == 0 || !(ballLe w h a (n - 1)).contains b)

/-- successive balls `[B, grow B, grow (grow B), ...]` (n + 1 of them) -/
def ballsFrom (w h : Option Int) : Nat → List P2 → List (List P2)
  | 0, b => [b]
  | n + 1, b => b :: ballsFrom w h n (grow w h b)

/-- distance of `p` according to a list of successive balls -/
def levelOf (p : P2) : List (List P2) → Nat → Option Nat
  | [], _ => none
  | b :: bs, i => if b.contains p then some i else levelOf p bs (i + 1)

/-- a labelled walk: every hop goes from the previous chip through the named link -/
def walkOk (w h : Option Int) : P2 → List (Nat × P2) → Bool
  | _, [] => true
  | p, (l, q) :: rest =>
    (match specVec l with
     | some d => stepTo w h p d == q
     | none => false) && walkOk w h q rest

def lastPos (p : P2) (path : List (Nat × P2)) : P2 :=
  match path.getLast? with
  | some e => e.2
  | none => p

def congr? (a b : Int) : Option Int → Bool
  | none => a == b
  | some m => (a - b) % m == 0

/-- the whole LDF clause on an output `path` for `vector` from `start` -/
def ldfOk (v : V3) (start : P2) (w h : Option Int) (path : List (Nat × P2)) : Bool :=
  walkOk w h start path && ((path.length : Int) == absSum v) &&
  congr? (lastPos start path).1 (start.1 + v.x - v.z) w &&
  congr? (lastPos start path).2 (start.2 + v.y - v.z) h

/-- a labelled walk from `start` that is valid and ends exactly at `dest` -/
def walkEndsAt (w h : Option Int) (start dest : P2) (path : List (Nat × P2)) : Bool :=
  walkOk w h start path && (lastPos start path == dest)

/-- the links that lead from `a` to `b` on machine `m`, by the specification's vectors -/
def specLinksBetween (a b : P2) (m : Mach) : List Nat :=
  (List.range 6).filter fun l =>
    match specVec l with
    | some d => (stepTo (some m.w) (some m.h) a d == b) && m.hasLink a l
    | none => false

/-- a vector `v` reported for `s → d` with claimed length `n` -/
def vectorOk (s d v : V3) (w h : Option Int) (n : Int) : Bool :=
  (absSum v == n) &&
  congr? ((proj s).1 + (proj v).1) (proj d).1 w &&
  congr? ((proj s).2 + (proj v).2) (proj d).2 h

def isNodup : List P2 → Bool
  | [] => true
  | p :: t => !(t.contains p) && isNodup t

def isSortedBy (f : P2 → Int) : List P2 → Bool
  | [] => true
  | [_] => true
  | p :: q :: t => decide (f p ≤ f q) && isSortedBy f (q :: t)

def hexDist (c p : P2) : Int := hexLen (p.1 - c.1) (p.2 - c.2)

/-- all points of the bounding square of radius `r` around `c` within hex distance `r` -/
def hexBall (c : P2) (r : Nat) : List P2 :=
  (List.range (2 * r + 1)).flatMap fun (i : Nat) => (List.range (2 * r + 1)).filterMap fun (j : Nat) =>
    let p : P2 := (c.1 - (r : Int) + (i : Int), c.2 - (r : Int) + (j : Int))
    if hexDist c p ≤ r then some p else none

/-- the concentric-hexagon clause on an output list -/
def hexagonsOk (c : P2) (r : Nat) (out : List P2) : Bool :=
  isNodup out && out.all (fun p => decide (hexDist c p ≤ r)) &&
  (hexBall c r).all (fun p => out.contains p) &&
  isSortedBy (hexDist c) out && (out.length == 1 + 3 * r * (r + 1))

/-! ### line protocol -/
open Lean Rig.P

def v3OfJson (j : Json) : R V3 := do
  match ← asArr j with
  | [a, b, c] => pure ⟨← asInt a, ← asInt b, ← asInt c⟩
  | _ => .error "expected [x,y,z]"

def p2OfJson (j : Json) : R P2 := asPair j asInt asInt

def jV3 (v : V3) : Json := jInts [v.x, v.y, v.z]
def jP2 (p : P2) : Json := jInts [p.1, p.2]

def v3 (j : Json) (k : String) : R V3 := field j k >>= v3OfJson
def p2 (j : Json) (k : String) : R P2 := field j k >>= p2OfJson
def optInt (j : Json) (k : String) : R (Option Int) := opt j k asInt

def jErrOf : Err → Json
  | .zeroDivision => jErr "ZeroDivisionError"
  | .keyError => jErr "KeyError"

def jExcept (f : α → Json) : Except Err α → Json
  | .ok a => jOk (f a)
  | .error e => jErrOf e

def jPath (l : List (Nat × P2)) : Json := jList (l.map fun e => jPair (jNat e.1) (jP2 e.2))

def pathOfJson (j : Json) : R (List (Nat × P2)) := do
  (← asArr j).mapM fun e => asPair e asNat p2OfJson

def machOfJson (j : Json) : R Mach := do
  let dc ← (← arr j "dead_chips").mapM p2OfJson
  let dl ← (← arr j "dead_links").mapM fun e => do
    match ← asArr e with
    | [x, y, l] => pure ((← asInt x, ← asInt y), ← asNat l)
    | _ => .error "expected [x,y,link]"
  pure { w := ← int j "w", h := ← int j "h", deadChips := dc, deadLinks := dl }

def handle (op : String) (j : Json) : R Json := do
  match op with
  | "to_xyz" => pure (jV3 (toXyz (← p2 j "p")))
  | "minimise" => pure (jV3 (minimiseXyz (← v3 j "v")))
  | "mesh_len" => pure (jInt (meshLen (← v3 j "s") (← v3 j "d")))
  | "mesh_path" => pure (jV3 (meshPath (← v3 j "s") (← v3 j "d")))
  | "torus_len" => pure (jExcept jInt (torusLen (← v3 j "s") (← v3 j "d") (← int j "w") (← int j "h")))
  | "torus_path" =>
    match ← nats j "ks" with
    | [k0, k1, k2, k3] =>
      pure (jExcept jV3 (torusPath (← v3 j "s") (← v3 j "d") (← int j "w") (← int j "h")
        (← nat j "den") k0 k1 k2 k3 (← nat j "t")))
    | _ => .error "ks must have 4 entries"
  | "ldf" =>
    match ← nats j "ks" with
    | [k0, k1, k2] =>
      pure (jExcept jPath (ldf (← v3 j "v") (← p2 j "start") (← optInt j "w") (← optInt j "h")
        (← nat j "den") k0 k1 k2))
    | _ => .error "ks must have 3 entries"
  | "from_vector" =>
    match fromVector (← int j "x") (← int j "y") with
    | some l => pure (jOk (jNat l))
    | none => pure (jErr "KeyError")
  | "to_vector" =>
    match toVector (← nat j "l") with
    | some v => pure (jOk (jP2 v))
    | none => pure (jErr "KeyError")
  | "opposite" => pure (jNat (opposite (← nat j "l")))
  | "all_links" => pure (jNats allLinks)
  | "links_between" =>
    match linksBetween (← p2 j "a") (← p2 j "b") (← machOfJson j) with
    | some l => pure (jOk (jNats l))
    | none => pure (jErr "KeyError")
  | "hexagons" => pure (jList ((concentricHexagons (← int j "r") (← p2 j "start")).map jP2))
  -- specification predicates, evaluated on the implementation's outputs
  | "spec_vec" => pure (jOpt jP2 (specVec (← nat j "l")))
  | "spec_dists" =>
    -- distance from `a` to each of `targets` by graph search up to `n` hops (null = farther)
    let w ← optInt j "w"; let h ← optInt j "h"
    let balls := ballsFrom w h (← nat j "n") [← p2 j "a"]
    let ts ← (← arr j "targets").mapM p2OfJson
    pure (jList (ts.map fun p => jOpt jNat (levelOf p balls 0)))
  | "spec_hexlen" => pure (jInt (hexLen (← int j "x") (← int j "y")))
  | "spec_dist_is" =>
    pure (Json.bool (distIs (← optInt j "w") (← optInt j "h") (← p2 j "a") (← p2 j "b") (← nat j "n")))
  | "spec_ldf" =>
    pure (Json.bool (ldfOk (← v3 j "v") (← p2 j "start") (← optInt j "w") (← optInt j "h")
      (← field j "path" >>= pathOfJson)))
  | "spec_walk_to" =>
    pure (Json.bool (walkEndsAt (← optInt j "w") (← optInt j "h") (← p2 j "start") (← p2 j "dest")
      (← field j "path" >>= pathOfJson)))
  | "spec_links_between" => pure (jNats (specLinksBetween (← p2 j "a") (← p2 j "b") (← machOfJson j)))
  | "spec_vector" =>
    pure (Json.bool (vectorOk (← v3 j "s") (← v3 j "d") (← v3 j "v") (← optInt j "w") (← optInt j "h")
      (← int j "n")))
  | "spec_hexagons" =>
    pure (Json.bool (hexagonsOk (← p2 j "start") (← nat j "r") (← (← arr j "out").mapM p2OfJson)))
  | _ => .error s!"unknown op {op}"

end Rig.C11
