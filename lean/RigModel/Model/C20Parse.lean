/-
C20 (struct-file parser) - model of rig/machine_control/struct_file.py:`read_struct_file`, `num`,
the three regular expressions, and of `struct.pack(b"<" + pack_chars, default)` for every pack
string the parser can produce (optional count + one of `s b B H I`).

Bytes are `Nat`s (0..255) as in Model/C20.lean; every byte string of the code is a `List Nat`.

Python facts transliterated:
* `bytes.splitlines()` cuts at `\n`, `\r` and `\r\n` only; no empty last line (`linesAux`);
* `re.compile(b"#.*$").sub(b"", l)` on a line without line ends removes everything from the first `#`;
* `bytes.strip().split()` = maximal runs of bytes other than space, `\t \n \v \f \r` (`tokAux`);
* `re.match` anchors at the start only: `(\w+)\[(\d+)\]` needs a non-empty maximal run of
  `[A-Za-z0-9_]`, then `[`, a non-empty maximal run of digits, then `]`, and ignores what follows;
  `(\w)(\d+)` needs one word byte and then at least one digit and ignores what follows the digits;
* `num`: `0[xX]<hex digit>` at the start sends the WHOLE token to `int(value, 16)`, anything else to
  `int(value)`; `int` accepts a sign (decimal route only here, as the token starts with `0`), digits
  with single underscores between digits (PEP 515), leading zeros, and nothing else;
* `structs[name]` with `name = None` (a `size` / `base` / field line before any `name` line, or a file
  without any header) raises `KeyError(None)`; right-hand sides are evaluated first, so a malformed
  number on such a line raises `ValueError` and an unknown pack letter `KeyError` before that;
* `structs[name] = Struct(name)` for a name seen before replaces the struct IN PLACE (dict order);
  a repeated field name replaces the field in place.
-/
import RigModel.Model.C20

namespace Rig.C20Parse
open Rig.C20 Rig.Gen.C20Boot

abbrev Bytes := List Nat

def isWs (c : Nat) : Bool := c == 32 || (9 ≤ c && c ≤ 13)
def isDigit (c : Nat) : Bool := 48 ≤ c && c ≤ 57
def isWord (c : Nat) : Bool := isDigit c || (65 ≤ c && c ≤ 90) || (97 ≤ c && c ≤ 122) || c == 95

/-- `bytes.splitlines()`; `cur` = bytes of the line read so far IN REVERSE (so that the kernel can
evaluate the function on a whole file), `cr` = the previous byte was a `\r` (which ended a line: a
`\n` directly after it belongs to the same line end) -/
def linesAux : Bool → Bytes → Bytes → List Bytes
  | _, cur, [] =>
    match cur with
    | [] => []
    | _ => [cur.reverse]
  | cr, cur, c :: r =>
    if c = 10 then (if cr then linesAux false cur r else cur.reverse :: linesAux false [] r)
    else if c = 13 then cur.reverse :: linesAux true [] r
    else linesAux false (c :: cur) r

def splitLines (data : Bytes) : List Bytes := linesAux false [] data

/-- `re_comment.sub(b"", l)` -/
def stripComment (l : Bytes) : Bytes := l.takeWhile (fun c => c != 35)

/-- `.strip().split()`; `cur` = bytes of the token read so far, in reverse -/
def tokAux : Bytes → Bytes → List Bytes
  | cur, [] =>
    match cur with
    | [] => []
    | _ => [cur.reverse]
  | cur, c :: r =>
    if isWs c then
      match cur with
      | [] => tokAux [] r
      | _ => cur.reverse :: tokAux [] r
    else tokAux (c :: cur) r

def tokens (l : Bytes) : List Bytes := tokAux [] l

/-! ### `num` -/

def decVal (c : Nat) : Option Nat := if isDigit c then some (c - 48) else none

def hexVal (c : Nat) : Option Nat :=
  if isDigit c then some (c - 48)
  else if 97 ≤ c ∧ c ≤ 102 then some (c - 87)
  else if 65 ≤ c ∧ c ≤ 70 then some (c - 55)
  else none

/-- digits after the first one: a digit, or one underscore followed by a digit
(`us` = the previous byte was an underscore) -/
def digitsLoop (dv : Nat → Option Nat) (b : Nat) : Bool → Nat → Bytes → Option Nat
  | us, acc, [] => if us then none else some acc
  | us, acc, c :: r =>
    if c = 95 then (if us then none else digitsLoop dv b true acc r)
    else
      match dv c with
      | some v => digitsLoop dv b false (acc * b + v) r
      | none => none

/-- a non-empty digit string with single underscores between digits -/
def parseDigits (dv : Nat → Option Nat) (b : Nat) : Bytes → Option Nat
  | [] => none
  | c :: r =>
    match dv c with
    | some v => digitsLoop dv b false v r
    | none => none

/-- `int(value)` on a token -/
def parseDec (t : Bytes) : Option Int :=
  match t with
  | 43 :: r => (parseDigits decVal 10 r).map Int.ofNat
  | 45 :: r => (parseDigits decVal 10 r).map (fun n => - Int.ofNat n)
  | r => (parseDigits decVal 10 r).map Int.ofNat

/-- `num(value)`; `none` = `ValueError` from `int` -/
def parseNum (t : Bytes) : Option Int :=
  match t with
  | 48 :: x :: h :: r =>
    if (x = 120 ∨ x = 88) ∧ (hexVal h).isSome then (parseDigits hexVal 16 (h :: r)).map Int.ofNat
    else parseDec t
  | _ => parseDec t

/-! ### the parser -/

inductive PErr where
  | syntax (line : Nat)          -- ValueError("line i: Invalid syntax in struct file")
  | badKey (key : Bytes)         -- ValueError(key): three tokens, first is not name / size / base
  | sizeMissing (name : Bytes)   -- ValueError("size value missing for struct ...")
  | baseMissing (name : Bytes)   -- ValueError("base value missing for struct ...")
  | badInt (tok : Bytes)         -- ValueError from int()
  | packKey (key : Bytes)        -- KeyError: perl_to_python_packs has no such letter
  | noStruct                     -- KeyError(None): no `name` line yet
  deriving Repr, DecidableEq

structure PField where
  name : Bytes
  pack : Bytes       -- Python struct characters, e.g. "I", "16s"
  offset : Int
  printf : Bytes
  default : Int
  length : Nat
  deriving Repr, DecidableEq

structure PStruct where
  name : Bytes
  size : Option Int
  base : Option Int
  fields : List PField
  deriving Repr, DecidableEq

structure PState where
  structs : List PStruct
  name : Option Bytes
  deriving Repr, DecidableEq

/-- `structs[s.name] = s` on the insertion-ordered dict -/
def setStruct : List PStruct → PStruct → List PStruct
  | [], s => [s]
  | t :: r, s => if t.name = s.name then s :: r else t :: setStruct r s

def getStruct : List PStruct → Bytes → Option PStruct
  | [], _ => none
  | t :: r, n => if t.name = n then some t else getStruct r n

/-- `structs[n].attr = ...` -/
def modStruct (n : Bytes) (f : PStruct → PStruct) : List PStruct → List PStruct
  | [] => []
  | t :: r => if t.name = n then f t :: r else t :: modStruct n f r

/-- `struct.fields[f.name] = f` -/
def setField : List PField → PField → List PField
  | [], f => [f]
  | g :: r, f => if g.name = f.name then f :: r else g :: setField r f

/-- `perl_to_python_packs[k]` (the table is regenerated from the source) -/
def perlLookup (k : Bytes) : Option Bytes :=
  match perlPacks.find? (fun p => p.1 = k) with
  | some p => some p.2
  | none => none

/-- perl pack token -> Python pack characters -/
def convPack (p : Bytes) : Except PErr Bytes :=
  match p with
  | c :: d :: r =>
    if isWord c ∧ isDigit d then
      match perlLookup [c] with
      | some py => .ok ((d :: r).takeWhile isDigit ++ py)
      | none => .error (.packKey [c])
    else
      match perlLookup p with
      | some py => .ok py
      | none => .error (.packKey p)
  | _ =>
    match perlLookup p with
    | some py => .ok py
    | none => .error (.packKey p)

/-- `re_array_field.match(field)`: (field, length digits) -/
def matchArray (f : Bytes) : Option (Bytes × Bytes) :=
  let w := f.takeWhile isWord
  if w = [] then none
  else
    match f.dropWhile isWord with
    | 91 :: r2 =>
      let ds := r2.takeWhile isDigit
      if ds = [] then none
      else
        match r2.dropWhile isDigit with
        | 93 :: _ => some (w, ds)
        | _ => none
    | _ => none

/-- name and array length of a field token -/
def fieldName (field : Bytes) : Bytes × Nat :=
  match matchArray field with
  | some (w, ds) => (w, ((parseNum ds).getD 0).toNat)
  | none => (field, 1)

def kName : Bytes := [110, 97, 109, 101]
def kSize : Bytes := [115, 105, 122, 101]
def kBase : Bytes := [98, 97, 115, 101]

/-- the two `is None` checks made when a struct is finished -/
def checkComplete (structs : List PStruct) (n : Bytes) : Except PErr Unit :=
  match getStruct structs n with
  | none => .error .noStruct
  | some s =>
    if s.size.isNone then .error (.sizeMissing n)
    else if s.base.isNone then .error (.baseMissing n)
    else .ok ()

/-- one line (already cut into tokens) -/
def stepLine (st : PState) (i : Nat) (toks : List Bytes) : Except PErr PState :=
  match toks with
  | [] => .ok st
  | [key, _, value] =>
    if key = kName then
      match (match st.name with
             | some n => checkComplete st.structs n
             | none => .ok ()) with
      | .error e => .error e
      | .ok _ => .ok ⟨setStruct st.structs ⟨value, none, none, []⟩, some value⟩
    else if key = kSize then
      match parseNum value with
      | none => .error (.badInt value)
      | some v =>
        match st.name with
        | none => .error .noStruct
        | some n => .ok { st with structs := modStruct n (fun s => { s with size := some v }) st.structs }
    else if key = kBase then
      match parseNum value with
      | none => .error (.badInt value)
      | some v =>
        match st.name with
        | none => .error .noStruct
        | some n => .ok { st with structs := modStruct n (fun s => { s with base := some v }) st.structs }
    else .error (.badKey key)
  | [field, pack, offset, printf, default] =>
    match convPack pack with
    | .error e => .error e
    | .ok pk =>
      match parseNum offset with
      | none => .error (.badInt offset)
      | some off =>
        match parseNum default with
        | none => .error (.badInt default)
        | some d =>
          match st.name with
          | none => .error .noStruct
          | some n =>
            let fl := fieldName field
            .ok { st with structs := modStruct n (fun s =>
              { s with fields := setField s.fields ⟨fl.1, pk, off, printf, d, fl.2⟩ }) st.structs }
  | _ => .error (.syntax i)

def parseLines : PState → Nat → List Bytes → Except PErr PState
  | st, _, [] => .ok st
  | st, i, l :: r =>
    match stepLine st i (tokens (stripComment l)) with
    | .ok st' => parseLines st' (i + 1) r
    | .error e => .error e

/-- `read_struct_file(data)` -/
def parseStructFile (data : Bytes) : Except PErr (List PStruct) :=
  match parseLines ⟨[], none⟩ 0 (splitLines data) with
  | .error e => .error e
  | .ok st =>
    match st.name with
    | none => .error .noStruct
    | some n =>
      match checkComplete st.structs n with
      | .error e => .error e
      | .ok _ => .ok st.structs

/-! ### canonical printer (the inverse direction; `parse_print` in Props/C20Parse.lean) -/

/-- decimal digits of `n`, most significant first (fuel = any bound on the number of digits) -/
def decDigits : Nat → Nat → Bytes
  | 0, _ => [48]
  | fuel + 1, n => if n < 10 then [48 + n] else decDigits fuel (n / 10) ++ [48 + n % 10]

def printNat (n : Nat) : Bytes := decDigits n n

def printInt : Int → Bytes
  | .ofNat n => printNat n
  | .negSucc n => 45 :: printNat (n + 1)

/-- Python pack characters -> perl token: the (first) perl letter mapped to the last byte, then the count -/
def unconvPack (pk : Bytes) : Bytes :=
  match pk.getLast? with
  | none => []
  | some c =>
    match perlPacks.find? (fun p => p.2 = [c]) with
    | some p => p.1 ++ pk.dropLast
    | none => []

/-- tokens joined by single spaces -/
def joinSp : List Bytes → Bytes
  | [] => []
  | [t] => t
  | t :: ts => t ++ 32 :: joinSp ts

/-- the field token: `name` or `name[length]` -/
def fieldTok (f : PField) : Bytes :=
  if f.length = 1 then f.name else f.name ++ 91 :: (printNat f.length ++ [93])

def fieldToks (f : PField) : List Bytes :=
  [fieldTok f, unconvPack f.pack, printInt f.offset, f.printf, printInt f.default]

/-- the lines of one struct, each as its tokens -/
def structLines (s : PStruct) : List (List Bytes) :=
  [kName, [61], s.name] :: [kSize, [61], printInt (s.size.getD 0)] :: [kBase, [61], printInt (s.base.getD 0)] ::
    s.fields.map fieldToks

def printLine (toks : List Bytes) : Bytes := joinSp toks ++ [10]

/-- canonical text of a table: `name = ..`, `size = ..`, `base = ..`, one line per field -/
def printStructs (ss : List PStruct) : Bytes := ((ss.flatMap structLines).map printLine).flatten

/-! ### executable well-formedness (the hypothesis of `parse_print`, decided) -/

def tokB (t : Bytes) : Bool := !t.isEmpty && t.all (fun c => !isWs c && c != 35)

def packOKB (pk : Bytes) : Bool :=
  match pk.getLast? with
  | some c => pk.dropLast.all isDigit && (c == 115 || c == 98 || c == 66 || c == 72 || c == 73)
  | none => false

def fieldWFB (f : PField) : Bool :=
  tokB f.name && ((f.length == 1 && (matchArray f.name).isNone) || (f.length != 1 && f.name.all isWord)) &&
    packOKB f.pack && tokB f.printf

def distinctB : List Bytes → Bool
  | [] => true
  | a :: r => !r.contains a && distinctB r

def structWFB (s : PStruct) : Bool :=
  tokB s.name && s.size.isSome && s.base.isSome && s.fields.all fieldWFB && distinctB (s.fields.map (·.name))

def tableWFB (ss : List PStruct) : Bool :=
  !ss.isEmpty && ss.all structWFB && distinctB (ss.map (·.name))

/-! ### `struct.pack(b"<" + pack_chars, default)` for every pack string the parser produces -/

/-- value of the count prefix; `none` = no count -/
def packCount (pk : Bytes) : Option Nat :=
  if pk.dropLast = [] then none else some ((pk.dropLast).foldl (fun a c => a * 10 + (c - 48)) 0)

/-- one integer argument: the count must be absent or 1 and the code one of `b B H I`
(`s` wants a bytes object; a count other than 1 wants another number of arguments) -/
def packValueFull (pk : Bytes) (v : Int) : Except Err (List Nat) :=
  match pk.getLast? with
  | none => .error .structError
  | some c =>
    if (pk.dropLast).all isDigit ∧ (packCount pk = none ∨ packCount pk = some 1) then
      packValue (String.ofList [Char.ofNat c]) v
    else .error .structError

/-! ### bridge to the table types of Model/C20.lean (byte `b` = character `b`, i.e. Latin-1) -/

def bstr (b : Bytes) : String := String.ofList (b.map Char.ofNat)
def sbytes (s : String) : Bytes := s.toList.map Char.toNat

def PField.toField (f : PField) : Field :=
  ⟨bstr f.name, bstr f.pack, f.offset.toNat, bstr f.printf, f.default, f.length⟩

def PStruct.toDef (s : PStruct) : StructDef :=
  ⟨bstr s.name, (s.size.getD 0).toNat, (s.base.getD 0).toNat, s.fields.map PField.toField⟩

def ofField (f : Field) : PField :=
  ⟨sbytes f.name, sbytes f.pack, Int.ofNat f.offset, sbytes f.printf, f.default, f.length⟩

def ofDef (s : StructDef) : PStruct :=
  ⟨sbytes s.name, some (Int.ofNat s.size), some (Int.ofNat s.base), s.fields.map ofField⟩

/-- the bundled struct file as the model parser reads it -/
def parsedSark : Except PErr (List PStruct) := parseStructFile sarkStructBytes

/-! ### line protocol -/
open Lean Rig.P

def jBytes (b : Bytes) : Json := Json.str (hex b)

def pfieldToJson (f : PField) : Json :=
  jList [jBytes f.name, jBytes f.pack, jInt f.offset, jBytes f.printf, jInt f.default, jNat f.length]

def pstructToJson (s : PStruct) : Json :=
  jList [jBytes s.name, jOpt jInt s.size, jOpt jInt s.base, jList (s.fields.map pfieldToJson)]

def perrToJson : PErr → Json
  | .syntax i => Json.mkObj [("err", Json.str "syntax"), ("line", jNat i)]
  | .badKey k => Json.mkObj [("err", Json.str "badkey"), ("key", jBytes k)]
  | .sizeMissing n => Json.mkObj [("err", Json.str "size-missing"), ("name", jBytes n)]
  | .baseMissing n => Json.mkObj [("err", Json.str "base-missing"), ("name", jBytes n)]
  | .badInt t => Json.mkObj [("err", Json.str "int"), ("tok", jBytes t)]
  | .packKey k => Json.mkObj [("err", Json.str "pack"), ("key", jBytes k)]
  | .noStruct => Json.mkObj [("err", Json.str "none")]

def pfieldOfJson (j : Json) : R PField := do
  match ← asArr j with
  | [n, p, o, pf, d, l] =>
    pure { name := unhex (← asStr n), pack := unhex (← asStr p), offset := ← asInt o,
           printf := unhex (← asStr pf), default := ← asInt d, length := ← asNat l }
  | _ => .error "pfield: expected 6 items"

def pstructOfJson (j : Json) : R PStruct := do
  match ← asArr j with
  | [n, s, b, fs] =>
    pure { name := unhex (← asStr n), size := ← asOpt s asInt, base := ← asOpt b asInt,
           fields := ← (← asArr fs).mapM pfieldOfJson }
  | _ => .error "pstruct: expected 4 items"

def handle (op : String) (j : Json) : R Json := do
  match op with
  | "parse" =>
    match parseStructFile (unhex (← str j "data")) with
    | .ok ss => pure (jOk (jList (ss.map pstructToJson)))
    | .error e => pure (perrToJson e)
  | "num" =>
    pure (jOpt jInt (parseNum (unhex (← str j "tok"))))
  | "print" =>
    -- canonical text of a table, whether the table is well formed (hypothesis of `parse_print`) and, if
    -- `parsed` (what the implementation made of the text) is given, whether it is the table
    let ss ← (← arr j "structs").mapM pstructOfJson
    let back ← match ← opt j "parsed" asArr with
      | none => pure []
      | some p => do pure [("roundtrip", Json.bool ((← p.mapM pstructOfJson) == ss))]
    pure (Json.mkObj ([("text", jBytes (printStructs ss)), ("wf", Json.bool (tableWFB ss))] ++ back))
  | "packv" =>
    match packValueFull (unhex (← str j "pack")) (← int j "v") with
    | .ok b => pure (jOk (Json.str (hex b)))
    | .error e => pure (errToJson e)
  | "sark" =>
    -- the bundled file through the model parser, and whether it is the generated table
    match parsedSark with
    | .ok ss => pure (Json.mkObj [("ok", jList (ss.map pstructToJson)),
        ("same", Json.bool (ss == genStructs.map ofDef))])
    | .error e => pure (perrToJson e)
  | _ => .error s!"unknown op {op}"

end Rig.C20Parse
