/-
C02 (companion) - the CONTROL SKELETON of the annealing temperature schedule of
rig/place_and_route/place/sa/algorithm.py `place`:

    _0, _1, cost_delta_sd = k.run_steps(len(movable_vertices), distance_limit, 1e100)
    temperature = 20.0 * cost_delta_sd
    num_steps = max(1, int(effort * len(vertices_resources)**1.33))
    current_cost = 0.0
    while temperature > (0.005 * current_cost) / len(nets):            # Tick.hot
        num_accepted, current_cost, _ = k.run_steps(num_steps, ...)    # Tick.steps  (num_steps calls of _step)
        if current_cost == 0: break                                    # Tick.zeroCost
        temperature = alpha * temperature ; distance_limit = ...
        if on_temperature_change is not None:
            if on_temperature_change(...) is False: break              # Tick.cbStop
    placements = k.get_placements(); finalise_same_chip_constraints(...)

Temperatures, costs and acceptance rates are floats; the model does not compute them.  Every float
TEST of the loop is an oracle bit of the pass through the loop it belongs to (`Tick`), the oracle
being an infinite stream `Nat → Tick` indexed by the pass; the kernel steps of a pass are the
proposals (source vertex, destination chip, accept bit) of Model/C02's `saStep`, exactly
`num_steps` of them.  The loop runs on fuel; `SErr.fuel` is returned only when the loop test is
still true after `fuel` passes.
-/
import RigModel.Model.Proto
import RigModel.Model.C02

namespace Rig.C02Sched
open Rig.C02

/-- what one pass through the `while` loop observes -/
structure Tick where
  hot : Bool          -- the loop test `temperature > (0.005 * current_cost) / len(nets)`
  steps : List Step   -- the proposals of the `num_steps` calls of `_step` made by `run_steps`
  zeroCost : Bool     -- `current_cost == 0` after `run_steps`
  cbStop : Bool       -- `on_temperature_change(...) is False` (false when there is no callback)

/-- why the loop ended -/
inductive Stop where
  | cooled      -- the loop test was false
  | zeroCost    -- `if current_cost == 0: break`
  | callback    -- the callback returned False
  deriving DecidableEq, Repr

inductive SErr where
  | kernel (e : Err)   -- an error of the code before the loop / of a kernel step / of the finalisation
  | badOracle          -- a pass whose proposal list is not `num_steps` long (model only)
  | fuel               -- the loop test was still true after `fuel` passes
  deriving DecidableEq, Repr

structure Out where
  sa : SA               -- the kernel state at the end
  flags : List Bool     -- the `swapped` results of all `_step` calls
  iterations : Nat      -- index of the pass at which the loop ended (= number of `run_steps` calls in the loop,
                        --   counting the pass that ended with a `break`)
  kernelSteps : Nat     -- calls of `_step` made so far
  why : Stop

/-- the `while temperature > ...` loop from pass `i` on -/
def schedLoop (vr : VR) (fixed : List Vtx) (numSteps : Nat) (o : Nat → Tick) :
    Nat → Nat → SA → List Bool → Nat → Except SErr Out
  | 0, i, s, fl, ks =>
    if (o i).hot then .error .fuel else .ok ⟨s, fl, i, ks, .cooled⟩
  | fuel + 1, i, s, fl, ks =>
    if (o i).hot then
      if (o i).steps.length = numSteps then
        match saRun vr fixed (o i).steps s fl with
        | .error e => .error (.kernel e)
        | .ok (s', fl') =>
          if (o i).zeroCost then .ok ⟨s', fl', i + 1, ks + numSteps, .zeroCost⟩
          else if (o i).cbStop then .ok ⟨s', fl', i + 1, ks + numSteps, .callback⟩
          else schedLoop vr fixed numSteps o fuel (i + 1) s' fl' (ks + numSteps)
      else .error .badOracle
    else .ok ⟨s, fl, i, ks, .cooled⟩

/-- `sa.place` on its non-trivial path (the kernel is used): the two shuffles `locs` / `vs` as in
`Rig.C02.saPlace`, `warm` = the proposals of the initial `run_steps(len(movable_vertices), ...)`,
`numSteps` = `num_steps`, `o` = the passes of the loop -/
def saPlaceSched (vr : VR) (cs : List Constraint) (m : Machine) (locs : List Chip) (vs : List Vtx)
    (warm : List Step) (numSteps : Nat) (o : Nat → Tick) (fuel : Nat) : Except SErr (Placement × Out) :=
  match applySame vr cs with
  | .error e => .error (.kernel e)
  | .ok (vr', cs', subs) =>
    match prepareLoop vr' cs' m [] with
    | .error e => .error (.kernel e)
    | .ok (m', fixed) =>
      match initialPlacement vr' m' locs vs with
      | .error e => .error (.kernel e)
      | .ok (m'', init) =>
        let p0 := fixed.foldl (fun q (vc : Vtx × Chip) => aset q vc.1 vc.2) init
        match mkL2v m'' p0 with
        | .error e => .error (.kernel e)
        | .ok l2v =>
          match saRun vr' (keys fixed) warm { m := m'', p := p0, l2v := l2v } [] with
          | .error e => .error (.kernel e)
          | .ok (s1, fl1) =>
            match schedLoop vr' (keys fixed) numSteps o fuel 0 s1 fl1 warm.length with
            | .error e => .error e
            | .ok out =>
              match finalise subs out.sa.p with
              | .error e => .error (.kernel e)
              | .ok p => .ok (p, out)

/-- the proposals of passes `i .. i + n - 1` in program order -/
def flatSteps (o : Nat → Tick) : Nat → Nat → List Step
  | _, 0 => []
  | i, n + 1 => (o i).steps ++ flatSteps o (i + 1) n

/-! ### line protocol -/
open Lean Rig.P

def stopName : Stop → String
  | .cooled => "cooled"
  | .zeroCost => "zero-cost"
  | .callback => "callback"

def errName : SErr → String
  | .kernel e => Rig.C02.errName e
  | .badOracle => "BadOracle"
  | .fuel => "Fuel"

def tickOfJson (j : Json) : R Tick := do
  pure { hot := ← bool j "hot", steps := ← (← arr j "steps").mapM stepOfJson,
         zeroCost := ← bool j "zero", cbStop := ← bool j "stop" }

/-- the finite list of recorded passes, continued by passes that report `cooled` -/
def streamOf (ts : List Tick) (i : Nat) : Tick :=
  ts.getD i { hot := false, steps := [], zeroCost := false, cbStop := false }

def handle (op : String) (j : Json) : R Json := do
  match op with
  | "sched" =>
    let vr ← vrOfJson j
    let cs ← csOfJson j
    let m ← machineOfJson j
    let locs ← (← arr j "locs").mapM chipOfJson
    let vs ← (← arr j "vs").mapM vtxOfJson
    let warm ← (← arr j "warm").mapM stepOfJson
    let numSteps ← nat j "num_steps"
    let ticks ← (← arr j "ticks").mapM tickOfJson
    let fuel ← nat j "fuel"
    match saPlaceSched vr cs m locs vs warm numSteps (streamOf ticks) fuel with
    | .error e => pure (jErr (errName e))
    | .ok (p, out) =>
      pure (jOk (Json.mkObj [("p", placementToJson p), ("iterations", jNat out.iterations),
        ("kernel_steps", jNat out.kernelSteps), ("why", Json.str (stopName out.why)),
        ("flags", jList (out.flags.map Json.bool))]))
  | _ => .error s!"unknown op {op}"

end Rig.C02Sched
