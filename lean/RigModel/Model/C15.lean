/-
C15 - model of rig/machine_control/packets.py (SDPPacket / SCPPacket).
Bytes are `Nat`s (< 256 on the wire).  `struct.pack` semantics (CPython):
format `B` accepts 0..255, `H` 0..65535, `I` 0..2^32-1 and raises
`struct.error` otherwise; `<` is little-endian without padding; `2x` is two
zero bytes.
-/
import RigModel.Model.Proto
import RigModel.Gen.Packets

namespace Rig.C15
open Rig.Gen.Packets

inductive Err where
  | structError   -- struct.error: value out of range / buffer too short
  deriving Repr, DecidableEq

structure SDP where
  reply : Bool
  tag : Nat
  destPort : Nat
  destCpu : Nat
  srcPort : Nat
  srcCpu : Nat
  destX : Nat
  destY : Nat
  srcX : Nat
  srcY : Nat
  data : List Nat
  deriving Repr, DecidableEq

structure SCP where
  hdr : SDP            -- `hdr.data` is the SCP payload (after the arguments)
  cmd : Nat
  seq : Nat
  arg1 : Option Nat
  arg2 : Option Nat
  arg3 : Option Nat
  deriving Repr, DecidableEq

def le16 (n : Nat) : List Nat := [n % 256, n / 256 % 256]
def le32 (n : Nat) : List Nat := [n % 256, n / 256 % 256, n / 65536 % 256, n / 16777216 % 256]

def packB (n : Nat) : Except Err Nat := if n < 256 then .ok n else .error .structError
def packH (n : Nat) : Except Err (List Nat) := if n < 65536 then .ok (le16 n) else .error .structError
def packI (n : Nat) : Except Err (List Nat) := if n < 4294967296 then .ok (le32 n) else .error .structError

def portCpu (port cpu : Nat) : Nat := ((port &&& 0x7) <<< 5) ||| (cpu &&& 0x1f)

/-- `SDPPacket.bytestring` given the packed data -/
def encodeHeader (p : SDP) (packed : List Nat) : Except Err (List Nat) := do
  let f ← packB (if p.reply then FLAG_REPLY else FLAG_NO_REPLY)
  let t ← packB p.tag
  let d ← packB (portCpu p.destPort p.destCpu)
  let s ← packB (portCpu p.srcPort p.srcCpu)
  let dy ← packB p.destY
  let dx ← packB p.destX
  let sy ← packB p.srcY
  let sx ← packB p.srcX
  pure ([0, 0, f, t, d, s, dy, dx, sy, sx] ++ packed)

def encodeSDP (p : SDP) : Except Err (List Nat) := encodeHeader p p.data

def packArg : Option Nat → Except Err (List Nat)
  | none => .ok []
  | some a => packI a

/-- `SCPPacket.packed_data` -/
def packedData (p : SCP) : Except Err (List Nat) := do
  let c ← packH p.cmd
  let s ← packH p.seq
  let a1 ← packArg p.arg1
  let a2 ← packArg p.arg2
  let a3 ← packArg p.arg3
  pure (c ++ s ++ a1 ++ a2 ++ a3 ++ p.hdr.data)

def encodeSCP (p : SCP) : Except Err (List Nat) := do
  let d ← packedData p
  encodeHeader p.hdr d

/-- `_unpack_sdp_into_packet` -/
def decodeSDP (bs : List Nat) : Except Err SDP :=
  match bs with
  | _ :: _ :: f :: t :: d :: s :: dy :: dx :: sy :: sx :: rest =>
    .ok { reply := f == FLAG_REPLY, tag := t,
          destCpu := d &&& 0x1f, destPort := d >>> 5,
          srcCpu := s &&& 0x1f, srcPort := s >>> 5,
          destY := dy, destX := dx, srcY := sy, srcX := sx, data := rest }
  | _ => .error .structError

def word32 : List Nat → Nat
  | [a, b, c, d] => a + 256 * b + 65536 * c + 16777216 * d
  | _ => 0

/-- `SCPPacket.from_bytestring` -/
def decodeSCP (bs : List Nat) (nArgs : Nat) : Except Err SCP := do
  let p ← decodeSDP bs
  match p.data with
  | c0 :: c1 :: s0 :: s1 :: data =>
    let cmd := c0 + 256 * c1
    let seq := s0 + 256 * s1
    let len := data.length
    if nArgs ≥ 1 ∧ len ≥ 4 then
      let a1 := word32 (data.take 4)
      if nArgs ≥ 2 ∧ len ≥ 8 then
        let a2 := word32 ((data.drop 4).take 4)
        if nArgs ≥ 3 ∧ len ≥ 12 then
          let a3 := word32 ((data.drop 8).take 4)
          pure { hdr := { p with data := data.drop 12 }, cmd, seq,
                 arg1 := some a1, arg2 := some a2, arg3 := some a3 }
        else
          pure { hdr := { p with data := data.drop 8 }, cmd, seq,
                 arg1 := some a1, arg2 := some a2, arg3 := none }
      else
        pure { hdr := { p with data := data.drop 4 }, cmd, seq,
               arg1 := some a1, arg2 := none, arg3 := none }
    else
      pure { hdr := { p with data := data }, cmd, seq, arg1 := none, arg2 := none, arg3 := none }
  | _ => .error .structError

/-! ### The documented wire layout (specification, written independently of `encode*`) -/

/-- the layout stated by the property: 2 padding bytes, flags, tag, dest port/core,
source port/core, dest y, dest x, src y, src x, then the data -/
def sdpLayout (p : SDP) (payload : List Nat) : List Nat :=
  [0, 0, (if p.reply then 0x87 else 0x07), p.tag,
   p.destPort * 32 + p.destCpu, p.srcPort * 32 + p.srcCpu,
   p.destY, p.destX, p.srcY, p.srcX] ++ payload

def argList (p : SCP) : List Nat :=
  (p.arg1.toList ++ p.arg2.toList ++ p.arg3.toList)

def scpLayout (p : SCP) : List Nat :=
  sdpLayout p.hdr (le16 p.cmd ++ le16 p.seq ++ (argList p).flatMap le32 ++ p.hdr.data)

def SDP.InRange (p : SDP) : Prop :=
  p.tag < 256 ∧ p.destPort < 8 ∧ p.destCpu < 32 ∧ p.srcPort < 8 ∧ p.srcCpu < 32 ∧
  p.destX < 256 ∧ p.destY < 256 ∧ p.srcX < 256 ∧ p.srcY < 256

def ArgOk : Option Nat → Prop
  | none => True
  | some a => a < 4294967296

def SCP.InRange (p : SCP) : Prop :=
  p.hdr.InRange ∧ p.cmd < 65536 ∧ p.seq < 65536 ∧ ArgOk p.arg1 ∧ ArgOk p.arg2 ∧ ArgOk p.arg3

/-- arguments are present as a prefix: arg2 only with arg1, arg3 only with arg2 -/
def SCP.Prefix (p : SCP) : Prop :=
  (p.arg2.isSome → p.arg1.isSome) ∧ (p.arg3.isSome → p.arg2.isSome)

def Bytes (l : List Nat) : Prop := ∀ b ∈ l, b < 256

/-! ### line protocol -/
open Lean Rig.P

def sdpOfJson (j : Json) : R SDP := do
  pure { reply := ← bool j "reply", tag := ← nat j "tag",
         destPort := ← nat j "dest_port", destCpu := ← nat j "dest_cpu",
         srcPort := ← nat j "src_port", srcCpu := ← nat j "src_cpu",
         destX := ← nat j "dest_x", destY := ← nat j "dest_y",
         srcX := ← nat j "src_x", srcY := ← nat j "src_y", data := ← nats j "data" }

def scpOfJson (j : Json) : R SCP := do
  pure { hdr := ← sdpOfJson j, cmd := ← nat j "cmd_rc", seq := ← nat j "seq",
         arg1 := ← opt j "arg1" asNat, arg2 := ← opt j "arg2" asNat, arg3 := ← opt j "arg3" asNat }

def sdpFields (p : SDP) : List (String × Json) :=
  [("reply", Json.bool p.reply), ("tag", jNat p.tag), ("dest_port", jNat p.destPort),
   ("dest_cpu", jNat p.destCpu), ("src_port", jNat p.srcPort), ("src_cpu", jNat p.srcCpu),
   ("dest_x", jNat p.destX), ("dest_y", jNat p.destY), ("src_x", jNat p.srcX),
   ("src_y", jNat p.srcY), ("data", jNats p.data)]

def scpToJson (p : SCP) : Json :=
  Json.mkObj (sdpFields p.hdr ++ [("cmd_rc", jNat p.cmd), ("seq", jNat p.seq),
    ("arg1", jOpt jNat p.arg1), ("arg2", jOpt jNat p.arg2), ("arg3", jOpt jNat p.arg3)])

def resBytes : Except Err (List Nat) → Json
  | .ok b => jOk (jNats b)
  | .error _ => jErr "struct.error"

def handle (op : String) (j : Json) : R Json := do
  match op with
  | "enc_sdp" => pure (resBytes (encodeSDP (← sdpOfJson j)))
  | "enc_scp" => pure (resBytes (encodeSCP (← scpOfJson j)))
  | "dec_sdp" =>
    match decodeSDP (← nats j "bytes") with
    | .ok p => pure (jOk (Json.mkObj (sdpFields p)))
    | .error _ => pure (jErr "struct.error")
  | "dec_scp" =>
    match decodeSCP (← nats j "bytes") (← nat j "n_args") with
    | .ok p => pure (jOk (scpToJson p))
    | .error _ => pure (jErr "struct.error")
  | "layout_sdp" => let p ← sdpOfJson j; pure (jNats (sdpLayout p p.data))
  | "layout_scp" => pure (jNats (scpLayout (← scpOfJson j)))
  | _ => .error s!"unknown op {op}"

end Rig.C15
