/-
C17 - library calls neither modify their arguments nor remember earlier calls.

What a pure model can carry is the *process state* half.  `Gen/State.lean` is the
inventory of every piece of process-wide mutable state in rig/ (module-level
containers, mutable default arguments, class-level containers, `global`
statements), regenerated from the source on every run together with the number
of syntactic writes that can reach each shared object.

The library is modelled as a state machine whose state is exactly that
inventory: the objects never written stay equal to their literal for ever, and
the only object that is written - the memo of `concentric_hexagons` in
route/ner.py - is modelled exactly (`memoGet`).  The theorems say that no
history of calls can change the result of a later call.
-/
import RigModel.Model.Proto
import RigModel.Model.C03
import RigModel.Gen.State

namespace Rig.C17
open Rig.C03 (Chip concentricHexagons)

/-- reviewed classification of an inventory entry -/
inductive Cls where
  | const      -- never written after import: stays equal to its literal
  | memo       -- written, and modelled: a cache whose entries equal the pure function
  deriving Repr, DecidableEq

/-- the one reviewed memo -/
def memos : List (String × String) := [("rig.place_and_route.route.ner", "_concentric_hexagons")]

def classify (e : String × String × String × Nat) : Option Cls :=
  if e.2.2.2 = 0 then some .const
  else if memos.contains (e.1, e.2.1) ∧ e.2.2.1 = "module" ∧ e.2.2.2 = 1 then some .memo
  else none

/-- `_concentric_hexagons`: radius ↦ tuple of offsets -/
abbrev Memo := List (Nat × List Chip)

/-- `memoized_concentric_hexagons(radius)` -/
def memoGet (memo : Memo) (radius : Nat) : Memo × List Chip :=
  match memo.lookup radius with
  | some out => (memo, out)
  | none =>
    let out := concentricHexagons radius
    ((radius, out) :: memo, out)

/-- a library call, as far as process state is concerned: either it consults the memo with a
radius and then computes a pure function `f` of the hexagons (the router), or it touches no
process state at all and is a pure function of its arguments -/
inductive Call (α : Type) where
  | usesMemo (radius : Nat) (f : List Chip → α)
  | pure (result : α)

/-- one call against the process state -/
def step {α : Type} (memo : Memo) : Call α → Memo × α
  | .usesMemo r f => let (m', h) := memoGet memo r; (m', f h)
  | .pure v => (memo, v)

/-- the state after a history of calls -/
def runHistory {α : Type} (memo : Memo) : List (Call α) → Memo
  | [] => memo
  | c :: cs => runHistory (step memo c).1 cs

/-- what the call returns in a fresh interpreter -/
def fresh {α : Type} (c : Call α) : α := (step [] c).2

def MemoInv (memo : Memo) : Prop := ∀ r out, (r, out) ∈ memo → out = concentricHexagons r

/-! ### line protocol -/
open Lean Rig.P

def handle (op : String) (j : Json) : R Json := do
  match op with
  | "inventory" =>
    pure (jList (Rig.Gen.State.inventory.map fun e =>
      jList [Json.str e.1, Json.str e.2.1, Json.str e.2.2.1, jNat e.2.2.2,
             Json.str (match classify e with | some .const => "const" | some .memo => "memo" | none => "UNREVIEWED")]))
  | "memo" =>
    -- replay a sequence of radii through the memo model; reply the hexagon lists
    let radii ← nats j "radii"
    let (_, outs) := radii.foldl (fun (acc : Memo × List (List Chip)) r =>
      let (m', h) := memoGet acc.1 r; (m', acc.2 ++ [h])) ([], [])
    pure (jList (outs.map fun h => jList (h.map fun c => jList [jInt c.1, jInt c.2])))
  | _ => .error s!"unknown op {op}"

end Rig.C17
