/-
C01 (capstone, wrappers) - `place_and_route_wrapper` and the deprecated `wrapper` as MODELS.

`rig/place_and_route/wrapper.py: place_and_route_wrapper` does

    machine          = build_machine(system_info, core_resource, sdram_resource, sram_resource)      C14  buildMachine
    base_constraints = build_core_constraints(system_info, core_resource)                           C14  coreConstraints
    constraints      = base_constraints + constraints
    placements  = place(vertices_resources, nets, machine, constraints)                             }
    allocations = allocate(vertices_resources, nets, machine, constraints, placements)              }  C01Pipe
    routes      = route(vertices_resources, nets, machine, constraints, placements, allocations,    }  modelPipeline
                        core_resource)                                                              }
    routing_tables = routing_tree_to_tables(routes, net_keys)                                       }
    target_lengths = build_routing_table_target_lengths(system_info)                                C14  targetLengths
    routing_tables = minimise_tables(routing_tables, target_lengths, minimise_tables_methods)       }

(`build_application_map` reads placements and allocations and returns a fourth, independent result: it is
irrelevant to delivery and not modelled here.)  `wrapperPipeline` is the COMPOSITION of the existing models: C14's
`buildMachine` / `coreConstraints` / `targetLengths` feed C01Pipe's `modelPipeline` through an explicit bridge between
C14's machine / reservation types (naturals, one record per quantity) and the `Problem` of the pipeline (C02's
positional resource vectors, C03's integer chips, C05's slices):

* `machine02`   : C14 `PMachine` -> C02 `Machine` (resources numbered 0 = cores, 1 = SDRAM, 2 = SRAM - the order of the
                  dictionary `build_machine` writes; the caller's identifiers are mapped to these numbers by the harness);
* `deadLinks03` : C14 dead links `(x, y, link)` -> C03 `(chip, link)`;
* `Reservation.toPC` : C14 `Reservation` -> `ReserveResourceConstraint(core_resource, slice(start, stop), chip)`;
* `targetsOf`   : `{chip: largest_free_rtr_mc_block}` as the target function of `minimiseTables`.

The deprecated `wrapper()` takes the Machine and the constraints from the caller, appends
`ReserveResourceConstraint(core_resource, slice(0, 1))` (reserve_monitor) and `AlignResourceConstraint(sdram_resource, 4)`
(align_sdram), and builds its tables with `build_routing_tables` = default-route removal without a target on every
chip, empty tables dropped: `deprecatedPipeline`.

No Mathlib (the driver links this file).
-/
import RigModel.Model.Proto
import RigModel.Model.C01Pipe
import RigModel.Model.C14

namespace Rig.C01Wrap
open Rig.C01 (chipZ Tables)
open Rig.C01Pipe (PC ANet Problem Placer NetOracle PErr Out modelPipeline)
open Rig.C03 (Chip)
open Rig.C14 (SysInfo ChipInfo PMachine Reservation buildMachine coreConstraints targetLengths)
open Rig.Gen.C14 (APPSTATE_IDLE)

/-- what the caller passes besides `system_info`: `vertices_resources` (resources 0 = cores, 1 = SDRAM, 2 = SRAM),
the additional `constraints`, the nets with their `net_keys` entry -/
structure WProblem where
  vr : List (Nat × List (Nat × Int))
  cs : List PC
  nets : List ANet

/-! ### the bridge C14 -> C02 / C03 / C05 -/

/-- the three quantities of a chip as the positional vector of the placers -/
def vec3 (q : Nat × Nat × Nat) : Rig.C02.Res := [(q.1 : Int), (q.2.1 : Int), (q.2.2 : Int)]

/-- C14's `Machine` as the placers' `Machine` -/
def machine02 (m : PMachine) : Rig.C02.Machine :=
  { w := m.width, h := m.height, res := vec3 (m.cores, m.sdram, m.sram),
    exc := m.exceptions.map fun e => (e.1, vec3 e.2), dead := m.deadChips }

/-- C14's dead links as the router's -/
def deadLinks03 (m : PMachine) : List (Chip × Nat) := m.deadLinks.map fun d => (chipZ (d.1, d.2.1), d.2.2)

/-- `ReserveResourceConstraint(core_resource, slice(start, stop), chip)` -/
def Reservation.toPC (r : Reservation) : PC := .reserve 0 ⟨(r.start : Int), (r.stop : Int)⟩ r.chip

/-- `base_constraints + constraints` -/
def constraintsOf (si : SysInfo) (cs : List PC) : List PC := (coreConstraints si).map Reservation.toPC ++ cs

/-- the problem `place_and_route_wrapper` hands to the stages -/
def problemOf (si : SysInfo) (wp : WProblem) : Problem :=
  { vr := wp.vr, nres := 3, m2 := machine02 (buildMachine si), deadLinks := deadLinks03 (buildMachine si),
    cs := constraintsOf si wp.cs, nets := wp.nets, coreRes := 0 }

/-- `target_lengths[chip]` of `build_routing_table_target_lengths(system_info)`.  A chip without a record would be a
`KeyError` in `minimise_tables`; tables exist only on chips of the machine model, i.e. on described chips, so the
`none` below is never consulted by a run that reaches minimisation -/
def targetsOf (si : SysInfo) : Chip → Option Nat := fun c =>
  ((targetLengths si).find? fun e => chipZ e.1 == c).map (·.2)

/-- **`place_and_route_wrapper` as the composition of the C14 models with the model pipeline** -/
def wrapperPipeline (si : SysInfo) (wp : WProblem) (placer : Placer) (radius : Nat) (orc : List NetOracle)
    (methods : List Rig.C04.Method) : Except PErr Out :=
  modelPipeline (problemOf si wp) placer radius orc (some (methods, targetsOf si))

/-! ### the deprecated `wrapper()` -/

/-- `constraints[:]` + reserve_monitor + align_sdram -/
def deprecatedConstraints (cs : List PC) (coreRes sdramRes : Nat) (reserveMonitor alignSdram : Bool) : List PC :=
  cs ++ (if reserveMonitor then [PC.reserve coreRes ⟨0, 1⟩ none] else []) ++
    (if alignSdram then [PC.align sdramRes 4] else [])

/-- the deprecated `wrapper()`: Machine and constraints are the caller's (`pb`); tables by `build_routing_tables`
(per chip `remove_default_routes.minimise(table, target_length=None)`, empty tables dropped) -/
def deprecatedPipeline (pb : Problem) (sdramRes : Nat) (reserveMonitor alignSdram : Bool)
    (placer : Placer) (radius : Nat) (orc : List NetOracle) : Except PErr Out :=
  modelPipeline { pb with cs := deprecatedConstraints pb.cs pb.coreRes sdramRes reserveMonitor alignSdram }
    placer radius orc (some ([.rd], fun _ => none))

/-! ### specification vocabulary -/

/-- **allocated cores are idle cores of the description**: every core number inside the range of the core resource
allocated to a placed vertex is, on the chip the vertex was placed on, a core the SystemInfo has (`p < num_cores`)
and reports idle -/
def AllocIdle (si : SysInfo) (p : Rig.C02.Placement) (A : Rig.C05.Alloc) : Prop :=
  ∀ v c sl, Rig.C02.aget p (.o v) = some c → Rig.C01Pipe.coresOf A 0 v = some sl →
    ∀ i : Nat, sl.start ≤ (i : Int) → (i : Int) < sl.stop →
      ∃ ci, (c, ci) ∈ si.chips ∧ i < ci.numCores ∧ ci.coreStates[i]? = some APPSTATE_IDLE

/-- the same, decided on returned placements / allocations (the oracle; `allocIdleB_iff`): the list of
(vertex, chip, core) that are allocated although absent or not idle -/
def allocBad (si : SysInfo) (p : Rig.C02.Placement) (A : Rig.C05.Alloc) : List (Nat × (Nat × Nat) × Nat) :=
  p.flatMap fun vc =>
    match vc.1 with
    | .m _ => []
    | .o v =>
      match Rig.C02.aget p (.o v), Rig.C01Pipe.coresOf A 0 v with
      | some c, some sl =>
        ((List.range (sl.stop.toNat - sl.start.toNat)).map (· + sl.start.toNat)).filterMap fun i =>
          match si.chips.lookup c with
          | some ci => if i < ci.numCores && ci.coreStates[i]? == some APPSTATE_IDLE then none else some (v, c, i)
          | none => some (v, c, i)
      | _, _ => []

def allocIdleB (si : SysInfo) (p : Rig.C02.Placement) (A : Rig.C05.Alloc) : Bool := (allocBad si p A).isEmpty

/-! ### line protocol -/
open Lean Rig.P

def wproblemOfJson (j : Json) : R WProblem := do
  pure { vr := ← (← arr j "vr").mapM fun e => asPair e asNat Rig.C05.asResList,
         cs := ← (← arr j "cs").mapM Rig.C01Pipe.pcOfJson,
         nets := ← (← arr j "nets").mapM Rig.C01Pipe.netOfJson }

def jPC : PC → Json
  | .loc v c => Json.mkObj [("t", "loc"), ("v", jNat v), ("c", jNats [c.1, c.2])]
  | .same vs => Json.mkObj [("t", "same"), ("vs", jNats vs)]
  | .reserve r s at_ => Json.mkObj [("t", "res"), ("r", jNat r), ("start", jInt s.start), ("stop", jInt s.stop),
      ("c", jOpt (fun (c : Nat × Nat) => jNats [c.1, c.2]) at_)]
  | .align r a => Json.mkObj [("t", "align"), ("r", jNat r), ("a", jInt a)]
  | .endpoint v r => Json.mkObj [("t", "ep"), ("v", jNat v), ("route", jNat r)]

def jOut (pb : Problem) (out : Out) : List (String × Json) :=
  [("placement", Rig.C02.placementToJson out.placement),
   ("alloc", Rig.C05.allocToJson out.alloc),
   ("chips0", jList ((Rig.C01.tables04 out.T10).map fun ct => jInts [ct.1.1, ct.1.2])),
   ("tables0", Rig.C01Pipe.jTables (Rig.C01.tables04 out.T10)),
   ("tables", Rig.C01Pipe.jTables out.final),
   ("dev", jList ((Rig.C01Pipe.devLinks pb out.placement).map fun d => Json.arr #[jInt d.1.1, jInt d.1.2, jNat d.2]))]

/-- what the wrapper derives from the SystemInfo and passes to the stages -/
def jDerived (si : SysInfo) (cs : List PC) : List (String × Json) :=
  [("machine", Rig.C14.pmachineToJson (buildMachine si)),
   ("constraints", jList ((constraintsOf si cs).map jPC)),
   ("targets", jList ((targetLengths si).map fun e => jNats [e.1.1, e.1.2, e.2]))]

def handle (op : String) (j : Json) : R Json := do
  match op with
  | "wrapper" =>
    -- place_and_route_wrapper: SystemInfo + the caller's arguments + the recorded oracle inputs
    let si ← Rig.C14.sysInfoOfJson (← field j "sysinfo")
    let wp ← wproblemOfJson j
    let placer ← Rig.C01Pipe.placerOfJson (← field j "placer")
    let orc ← (← arr j "oracle").mapM Rig.C01Pipe.oracleOfJson
    let methods ← (← arr j "methods").mapM Rig.C04.methodOfJson
    let derived := jDerived si wp.cs
    match wrapperPipeline si wp placer (← nat j "radius") orc methods with
    | .error e => pure (Json.mkObj (("error", Rig.C01Pipe.jPErr e) :: derived))
    | .ok out =>
      pure (Json.mkObj (("ok", Json.mkObj (jOut (problemOf si wp) out)) ::
        ("alloc_idle", Json.bool (allocIdleB si out.placement out.alloc)) :: derived))
  | "deprecated" =>
    let pb ← Rig.C01Pipe.problemOfJson j
    let placer ← Rig.C01Pipe.placerOfJson (← field j "placer")
    let orc ← (← arr j "oracle").mapM Rig.C01Pipe.oracleOfJson
    let rm ← bool j "reserve_monitor"
    let al ← bool j "align_sdram"
    let cs := deprecatedConstraints pb.cs pb.coreRes (← nat j "sdram_res") rm al
    match deprecatedPipeline pb (← nat j "sdram_res") rm al placer (← nat j "radius") orc with
    | .error e => pure (Json.mkObj [("error", Rig.C01Pipe.jPErr e), ("constraints", jList (cs.map jPC))])
    | .ok out =>
      pure (Json.mkObj [("ok", Json.mkObj (jOut { pb with cs := cs } out)), ("constraints", jList (cs.map jPC))])
  | "alloc_idle" =>
    -- the oracle: `AllocIdle` decided on the implementation's own placements / allocations
    let si ← Rig.C14.sysInfoOfJson (← field j "sysinfo")
    let p ← (← arr j "placement").mapM fun e => asPair e asNat Rig.C02.chipOfJson
    let A ← Rig.C05.allocOfJson (← field j "alloc")
    let bad := allocBad si (p.map fun vc => (Rig.C02.Vtx.o vc.1, vc.2)) A
    pure (Json.mkObj [("holds", Json.bool bad.isEmpty),
      ("bad", jList (bad.map fun b => jNats [b.1, b.2.1.1, b.2.1.2, b.2.2]))])
  | _ => .error s!"unknown op {op}"

end Rig.C01Wrap
