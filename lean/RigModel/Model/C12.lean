/-
C12 - model of rig/machine_control/regions.py
(`get_region_for_chip`, `RegionCoreTree`, `compress_flood_fill_regions`).

The model is code-shaped: a `RegionCoreTree` object is an `RTree` node carrying
the attributes `base_x`, `base_y`, `level`, `locally_selected` (18 block masks,
`array('H')`) and `subregions` (16 optional children; the attribute does not
exist on level-3 nodes, modelled as `[]`).  `scale` and `shift` are functions
of `level` exactly as `__init__` computes them.  Python's recursion through
`self.subregions[i].add_core` is bounded by a fuel argument (4 suffices; running
out of fuel is the explicit error `Err.fuel`, shown unreachable by theorem
`compress_ok`).  Bit operations are the Python ones (`>>`, `&`, `|`, `<<`, `^`).

The *specification* (`selects`, `Exact`, `StrictlyIncreasing`) is written from
the documentation of the region word only (module docstring,
`get_region_for_chip` docstring, `_send_ffcs` docstring) in plain arithmetic and
does not use any function of the model.
-/
import RigModel.Model.Proto

namespace Rig.C12

inductive Err where
  | valueError   -- `raise ValueError((x, y, p))`, or a negative shift count
  | fuel         -- recursion deeper than the four levels (unreachable)
  deriving Repr, DecidableEq

/-! ### `get_region_for_chip` -/

/-- `get_region_for_chip(x, y, level)`; `level > 3` makes `shift` negative and
`x >> shift` raises `ValueError: negative shift count`. -/
def regionForChip (x y level : Nat) : Except Err Nat :=
  if level > 3 then .error .valueError else
  let shift := 6 - 2 * level
  let bit := ((x >>> shift) &&& 3) + 4 * ((y >>> shift) &&& 3)
  let mask := 0xffff ^^^ ((4 <<< shift) - 1)
  let nx := x &&& mask
  let ny := y &&& mask
  .ok ((nx <<< 24) ||| (ny <<< 16) ||| (level <<< 16) ||| (1 <<< bit))

/-! ### `RegionCoreTree` -/

inductive RTree where
  | mk (baseX baseY level : Nat) (ls : List Nat) (subs : List (Option RTree))

/-- `self.scale = 4 ** (4 - level)` -/
def scale (lv : Nat) : Nat := 4 ^ (4 - lv)
/-- `self.shift = 6 - 2*level` -/
def shift (lv : Nat) : Nat := 6 - 2 * lv

/-- `RegionCoreTree.__init__` -/
def RTree.new (x0 y0 lv : Nat) : RTree :=
  .mk x0 y0 lv (List.replicate 18 0) (if lv < 3 then List.replicate 16 none else [])

/-- `((x >> self.shift) & 0x3) + 4*((y >> self.shift) & 0x3)` -/
def subIndex (lv x y : Nat) : Nat :=
  ((x >>> shift lv) &&& 3) + 4 * ((y >>> shift lv) &&& 3)

/-- `RegionCoreTree.add_core`; returns the updated node and the returned bool. -/
def addCore : Nat → RTree → Nat → Nat → Nat → Except Err (RTree × Bool)
  | 0, _, _, _, _ => .error .fuel
  | fuel + 1, .mk x0 y0 lv ls subs, x, y, p =>
    if p > 17 ∨ x < x0 ∨ x ≥ x0 + scale lv ∨ y < y0 ∨ y ≥ y0 + scale lv then
      .error .valueError
    else
      let sub := subIndex lv x y
      let cur := ls.getD p 0
      let r : Except Err (List Nat × List (Option RTree)) :=
        if lv == 3 then
          .ok (ls.set p (cur ||| (1 <<< sub)), subs)
        else if cur &&& (1 <<< sub) == 0 then
          let child := match subs.getD sub none with
            | some c => c
            | none => RTree.new (x0 + scale lv / 4 * (sub % 4)) (y0 + scale lv / 4 * (sub / 4)) (lv + 1)
          match addCore fuel child x y p with
          | .error e => .error e
          | .ok (c', full) =>
            .ok (if full then ls.set p (cur ||| (1 <<< sub)) else ls, subs.set sub (some c'))
        else .ok (ls, subs)
      match r with
      | .error e => .error e
      | .ok (ls', subs') =>
        if ls'.getD p 0 == 0xffff && lv != 0 then
          .ok (.mk x0 y0 lv (ls'.set p 0) subs', true)
        else
          .ok (.mk x0 y0 lv ls' subs', false)

/-- `subregions_cores[subregions] |= 1 << core` on an insertion-ordered
`defaultdict(lambda: 0)` -/
def dictOr : List (Nat × Nat) → Nat → Nat → List (Nat × Nat)
  | [], k, v => [(k, 0 ||| v)]
  | (k', v') :: rest, k, v =>
    if k' = k then (k', v' ||| v) :: rest else (k', v') :: dictOr rest k v

/-- the loop `for core, subregions in enumerate(self.locally_selected)` -/
def groupCores : List Nat → Nat → List (Nat × Nat) → List (Nat × Nat)
  | [], _, d => d
  | m :: rest, core, d =>
    groupCores rest (core + 1) (if m != 0 then dictOr d m (1 <<< core) else d)

/-- Python's `<=` on 2-tuples of ints -/
def pairLe (a b : Nat × Nat) : Bool := a.1 < b.1 || (a.1 == b.1 && a.2 ≤ b.2)

/-- `sorted(...)` on a list of 2-tuples of ints (stable merge sort) -/
def sortPairs (l : List (Nat × Nat)) : List (Nat × Nat) := l.mergeSort pairLe

/-- `(4*x + y for y in range(4) for x in range(4))` -/
def childOrder : List Nat :=
  (List.range 4).flatMap fun y => (List.range 4).map fun x => 4 * x + y

/-- `RegionCoreTree.get_regions_and_coremasks` (the generator, in yield order) -/
def emit : Nat → RTree → List (Nat × Nat)
  | 0, _ => []
  | fuel + 1, .mk x0 y0 lv ls subs =>
    let code := (x0 <<< 24) ||| (y0 <<< 16) ||| (lv <<< 16)
    let loc := (sortPairs (groupCores ls 0 [])).map fun mc => (code ||| mc.1, mc.2)
    let rest :=
      if lv < 3 then
        childOrder.flatMap fun i =>
          match subs.getD i none with
          | none => []
          | some c => emit fuel c
      else []
    loc ++ rest

/-- the call `t.add_core(x, y, p)` on the root; negative arguments fail the range
check of the root -/
def addRoot (t : RTree) (x y p : Int) : Except Err RTree :=
  if x < 0 ∨ y < 0 ∨ p < 0 then .error .valueError
  else match addCore 4 t x.toNat y.toNat p.toNat with
    | .error e => .error e
    | .ok (t', _) => .ok t'

/-- the insertion loop of `compress_flood_fill_regions`, on the sequence of
`(x, y, p)` in the iteration order of the `targets` dictionary and its sets -/
def buildTree (ts : List (Int × Int × Int)) : Except Err RTree :=
  ts.foldlM (fun t c => addRoot t c.1 c.2.1 c.2.2) (RTree.new 0 0 0)

/-- `compress_flood_fill_regions` -/
def compress (ts : List (Int × Int × Int)) : Except Err (List (Nat × Nat)) :=
  match buildTree ts with
  | .error e => .error e
  | .ok t => .ok (sortPairs (emit 4 t))

/-! ### Specification: the documented meaning of a region word

Bits 31:24 x base, bits 23:18 (with two zero bits appended) y base, bits 17:16
level, bits 15:0 block select.  A region of level `l` is a square of
`4·4^(3-l)` chips a side whose base is aligned to its size, divided into 4×4
blocks of `4^(3-l)` chips a side; block `(i, j)` is bit `i + 4j`.  A chip is
selected when the square containing it at that level has exactly the base in
the word and the bit of its block is set (SC&MP compares bits 31:16 of the word
with the chip's own level address and tests the chip's block bit).
-/

def wLevel (r : Nat) : Nat := r / 2 ^ 16 % 4
def wBaseX (r : Nat) : Nat := r / 2 ^ 24 % 256
def wBaseY (r : Nat) : Nat := r / 2 ^ 18 % 64 * 4
/-- chips per block side at the word's level: 64, 16, 4, 1 -/
def wSide (r : Nat) : Nat := 4 ^ (3 - wLevel r)

/-- region word `r` selects chip `(x, y)` -/
def selects (r x y : Nat) : Bool :=
  let s := wSide r
  (x / (4 * s) * (4 * s) == wBaseX r) && (y / (4 * s) * (4 * s) == wBaseY r) &&
    r.testBit (x / s % 4 + 4 * (y / s % 4))

/-- the pair `(region, core mask)` selects core `p` of chip `(x, y)` -/
def sel (pr : Nat × Nat) (x y p : Nat) : Bool := selects pr.1 x y && pr.2.testBit p

/-- number of emitted pairs that select core `p` of chip `(x, y)` -/
def countSel (out : List (Nat × Nat)) (x y p : Nat) : Nat := out.countP fun pr => sel pr x y p

/-- nothing missing, nothing extra, nothing selected twice -/
def Exact (targets : List (Nat × Nat × Nat)) (out : List (Nat × Nat)) : Prop :=
  ∀ x y p, countSel out x y p = if (x, y, p) ∈ targets then 1 else 0

/-- strictly increasing as tuples `(region, core mask)`; with core masks below
`2^18` this is strictly increasing `(region << 32) | core_mask` (regions.py) and
`(region << 18) | cores` (`_send_ffcs`) -/
def pairLt (a b : Nat × Nat) : Prop := a.1 < b.1 ∨ (a.1 = b.1 ∧ a.2 < b.2)
def StrictlyIncreasing (out : List (Nat × Nat)) : Prop := out.Pairwise pairLt

/-! ### Executable oracle (decides `Exact`/`StrictlyIncreasing` on a concrete output) -/

/-- all chips selected by `r`: candidates are the chips of the square at the
word's base (a selected chip lies there, lemma `chipsOf_spec`), filtered by `selects` -/
def chipsOf (r : Nat) : List (Nat × Nat) :=
  let n := 4 * wSide r
  ((List.range n).flatMap fun dx => (List.range n).map fun dy => (wBaseX r + dx, wBaseY r + dy)).filter
    fun c => selects r c.1 c.2

/-- all core numbers in a mask -/
def coresOf (m : Nat) : List Nat := (List.range (m.log2 + 1)).filter m.testBit

def expand (out : List (Nat × Nat)) : List (Nat × Nat × Nat) :=
  out.flatMap fun pr => (chipsOf pr.1).flatMap fun c => (coresOf pr.2).map fun p => (c.1, c.2, p)

/-- an injective pairing of two naturals (the formula of Mathlib's `Nat.pair`), so that the
sort key below is injective on ALL triples, not only on bounded ones -/
def pair (a b : Nat) : Nat := if a < b then b * b + a else a * a + a + b

def key3 (t : Nat × Nat × Nat) : Nat := pair (pair t.1 t.2.1) t.2.2

def sortNat (l : List Nat) : List Nat := l.mergeSort (fun a b => a ≤ b)

/-- multiset of selected (chip, core) = set of targets (targets given without repetition);
theorem `exactB_iff`: for repetition-free targets this is `Exact targets out` -/
def exactB (targets : List (Nat × Nat × Nat)) (out : List (Nat × Nat)) : Bool :=
  sortNat ((expand out).map key3) == sortNat (targets.map key3)

def strictNat : List Nat → Bool
  | a :: b :: rest => decide (a < b) && strictNat (b :: rest)
  | _ => true

/-- the targets are given without repetition (theorem `nodupB_iff`) -/
def nodupB (targets : List (Nat × Nat × Nat)) : Bool := strictNat (sortNat (targets.map key3))

def strictB : List (Nat × Nat) → Bool
  | a :: b :: rest => (a.1 < b.1 || (a.1 == b.1 && a.2 < b.2)) && strictB (b :: rest)
  | _ => true

/-! ### line protocol -/
open Lean Rig.P

def asTriple (j : Json) : R (Int × Int × Int) := do
  match ← asArr j with
  | [a, b, c] => pure (← asInt a, ← asInt b, ← asInt c)
  | _ => .error "expected triple"

def asNatTriple (j : Json) : R (Nat × Nat × Nat) := do
  match ← asArr j with
  | [a, b, c] => pure (← asNat a, ← asNat b, ← asNat c)
  | _ => .error "expected triple"

def jPairs (l : List (Nat × Nat)) : Json := jList (l.map fun a => jPair (jNat a.1) (jNat a.2))

def errName : Err → String
  | .valueError => "ValueError"
  | .fuel => "fuel"

partial def treeToJson : RTree → Json
  | .mk x0 y0 lv ls subs =>
    Json.mkObj [("x", jNat x0), ("y", jNat y0), ("level", jNat lv), ("ls", jNats ls),
      ("subs", jList (subs.map fun s => match s with | none => Json.null | some c => treeToJson c))]

/-- run the insertion loop, recording every value returned by the root's `add_core` -/
def buildTrace (ts : List (Int × Int × Int)) : Except Err (RTree × List Bool) :=
  ts.foldlM (fun (st : RTree × List Bool) (c : Int × Int × Int) =>
    if c.1 < 0 ∨ c.2.1 < 0 ∨ c.2.2 < 0 then .error .valueError
    else match addCore 4 st.1 c.1.toNat c.2.1.toNat c.2.2.toNat with
      | .error e => .error e
      | .ok (t', b) => .ok (t', st.2 ++ [b])) (RTree.new 0 0 0, [])

/-- the same loop on a tree the caller constructed as `RegionCoreTree(base_x, base_y, level)` (the class is
public): every `add_core` return value - a node below the root reports `True` when a core fills its square - and
the `ValueError` for a chip outside the node's square.  Recursion fuel = the `4 - level` levels at and below
the node. -/
def buildTraceAt (x0 y0 lv : Nat) (ts : List (Int × Int × Int)) : Except Err (RTree × List Bool) :=
  ts.foldlM (fun (st : RTree × List Bool) (c : Int × Int × Int) =>
    if c.1 < 0 ∨ c.2.1 < 0 ∨ c.2.2 < 0 then .error .valueError
    else match addCore (4 - lv) st.1 c.1.toNat c.2.1.toNat c.2.2.toNat with
      | .error e => .error e
      | .ok (t', b) => .ok (t', st.2 ++ [b])) (RTree.new x0 y0 lv, [])

/-! ### histories on ONE tree object: `add_core` calls interleaved with read-outs -/

/-- one call on a `RegionCoreTree` object -/
inductive HOp where
  | add (x y p : Int)      -- `t.add_core(x, y, p)`
  | read                   -- `list(t.get_regions_and_coremasks())`
  deriving Repr, DecidableEq

/-- what the call returned -/
inductive HRes where
  | added (b : Bool)
  | pairs (l : List (Nat × Nat))
  | raised (e : Err)       -- the call raised; the caller goes on using the same object
  deriving Repr, DecidableEq

/-- a read-out traverses the tree as it is NOW and leaves it unchanged (the object keeps no other state);
an `add_core` that raises (`ValueError`: the range check is the first statement and nothing was touched)
leaves the tree as it was and the history goes on -/
def histStep (d : Nat) (st : RTree × List HRes) (op : HOp) : Except Err (RTree × List HRes) :=
  match op with
  | .add x y p =>
    if x < 0 ∨ y < 0 ∨ p < 0 then .ok (st.1, st.2 ++ [.raised .valueError])
    else match addCore d st.1 x.toNat y.toNat p.toNat with
      | .error e => .ok (st.1, st.2 ++ [.raised e])
      | .ok (t', b) => .ok (t', st.2 ++ [.added b])
  | .read => .ok (st.1, st.2 ++ [.pairs (emit d st.1)])

/-- a whole history on `RegionCoreTree(x0, y0, lv)`: the final tree and the result of every call -/
def runHistory (x0 y0 lv : Nat) (ops : List HOp) : Except Err (RTree × List HRes) :=
  ops.foldlM (histStep (4 - lv)) (RTree.new x0 y0 lv, [])

def asHOp (j : Json) : R HOp := do
  match ← asArr j with
  | [a, b, c] => pure (.add (← asInt a) (← asInt b) (← asInt c))
  | [] => pure .read
  | _ => .error "expected [x, y, p] or []"

def hresToJson : HRes → Json
  | .added b => Json.bool b
  | .pairs l => jPairs l
  | .raised e => Json.str (errName e)

def handle (op : String) (j : Json) : R Json := do
  match op with
  | "compress" =>
    let ts ← (← arr j "targets").mapM asTriple
    match compress ts with
    | .ok out => pure (jOk (jPairs out))
    | .error e => pure (jErr (errName e))
  | "tree" =>
    let ts ← (← arr j "targets").mapM asTriple
    match buildTrace ts with
    | .ok (t, bs) =>
      pure (jOk (Json.mkObj [("tree", treeToJson t), ("returns", jList (bs.map Json.bool)),
        ("yield", jPairs (emit 4 t))]))
    | .error e => pure (jErr (errName e))
  | "subtree" =>
    let ts ← (← arr j "targets").mapM asTriple
    let lv ← nat j "level"
    match buildTraceAt (← nat j "x") (← nat j "y") lv ts with
    | .ok (t, bs) =>
      pure (jOk (Json.mkObj [("tree", treeToJson t), ("returns", jList (bs.map Json.bool)),
        ("yield", jPairs (emit (4 - lv) t))]))
    | .error e => pure (jErr (errName e))
  | "history" =>
    let ops ← (← arr j "ops").mapM asHOp
    match runHistory (← nat j "x") (← nat j "y") (← nat j "level") ops with
    | .ok (t, rs) => pure (jOk (Json.mkObj [("tree", treeToJson t), ("results", jList (rs.map hresToJson))]))
    | .error e => pure (jErr (errName e))
  | "region" =>
    match regionForChip (← nat j "x") (← nat j "y") (← nat j "level") with
    | .ok r => pure (jOk (jNat r))
    | .error e => pure (jErr (errName e))
  | "oracle" =>
    let ts ← (← arr j "targets").mapM asNatTriple
    let out ← (← arr j "out").mapM (fun p => asPair p asNat asNat)
    -- the literal specification `countSel` on the query points (x, y, p, expected count)
    let qs ← match j.getObjVal? "queries" with
      | .ok v => (← asArr v).mapM (fun q => do
          match ← asArr q with
          | [a, b, c, e] => pure (← asNat a, ← asNat b, ← asNat c, ← asNat e)
          | _ => .error "expected query")
      | .error _ => pure []
    let bad := qs.filter fun q => countSel out q.1 q.2.1 q.2.2.1 != q.2.2.2
    pure (Json.mkObj [("exact", Json.bool (exactB ts out)), ("sorted", Json.bool (strictB out)),
      ("nodup", Json.bool (nodupB ts)),
      ("bad", jList ((bad.take 3).map fun q => jNats [q.1, q.2.1, q.2.2.1, q.2.2.2,
        countSel out q.1 q.2.1 q.2.2.1]))])
  | "chips" =>
    pure (jPairs (chipsOf (← nat j "r")))
  | "selects" =>
    pure (Json.bool (selects (← nat j "r") (← nat j "x") (← nat j "y")))
  | _ => .error s!"unknown op {op}"

end Rig.C12
