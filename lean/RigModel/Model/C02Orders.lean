/-
C02 (companion) - model of the vertex / chip ORDER functions of the wrapper placers:
  breadth_first.py  breadth_first_vertex_order
  rcm.py            _get_vertices_neighbours / _dfs / _get_connected_subgraphs / _cuthill_mckee /
                    rcm_vertex_order / rcm_chip_order
  hilbert.py        hilbert (the L-system generator) / hilbert_chip_order

Conventions.  The functions are generic in the vertex type (`rcm_chip_order` re-uses
`rcm_vertex_order` with chips as vertices).  A Python `dict` is an association list in insertion
order (`Rig.C02.aget/aset`).  A Python `set` is a duplicate-free list in an order of the model's
choosing; wherever the code *iterates* a set (`for v in s`, `min(s)`, `sorted(s)`, a dict
comprehension over `s`) or calls `s.pop()`, the outcome is an explicit oracle input: `iters` is the
sequence of iteration orders in program order (one entry per Python-level iteration of a set),
`pops` the sequence of popped elements.  The model checks that each entry is an order of the set it
computed itself (`badOracle` otherwise) and that the streams are used up; the theorems quantify
over all oracle streams.  Net weights are exact integers (the harness hands over multiples of
1/4 scaled by 4; on these float addition is exact).  Loops that are `while` loops in the code run
on fuel; `fuel` is returned only where the code would not terminate.
-/
import RigModel.Model.Proto
import RigModel.Model.C02
import RigModel.Gen.C03Links

namespace Rig.C02Orders
open Rig.C02 (aget aset keys Chip Machine)

inductive OErr where
  | badOracle    -- a recorded set iteration order / pop is not a possible outcome (model only)
  | fuel         -- the loop does not stop (`_cuthill_mckee` on a disconnected graph)
  | keyError     -- KeyError (`vertices_degrees[v]` for a vertex outside the subgraph)
  | valueError   -- ValueError (`min()` of an empty set)
  deriving DecidableEq, Repr

abbrev M := Except OErr

structure Net (α : Type) where
  src : α
  sinks : List α
  weight : Int
  deriving Repr

section generic
variable {α : Type} [DecidableEq α]

/-! ### sets as duplicate-free lists -/

/-- `set(l)` -/
def dedupL : List α → List α
  | [] => []
  | a :: t => if a ∈ t then dedupL t else a :: dedupL t

/-- `it` is a possible iteration order of the set `s` -/
def isOrderOf (it s : List α) : Bool :=
  decide it.Nodup && it.all (fun a => decide (a ∈ s)) && s.all (fun a => decide (a ∈ it))

/-- next recorded iteration order, which must be an order of `s` -/
def takeIter (s : List α) : List (List α) → M (List α × List (List α))
  | [] => .error .badOracle
  | it :: rest => if isOrderOf it s then .ok (it, rest) else .error .badOracle

/-! ### breadth_first.py -/

/-- `vertex_neighbours[k].update(net)` -/
def bfsAdd (vn : List (α × List α)) (k : α) (net : List α) : List (α × List α) :=
  aset vn k (dedupL ((aget vn k).getD [] ++ net))

/-- the `for net in nets` loop (`iter(net)` = source, then the sinks) -/
def bfsNeighbours (nets : List (Net α)) : List (α × List α) :=
  nets.foldl (fun vn n =>
    n.sinks.foldl (fun vn s => bfsAdd vn s (n.src :: n.sinks)) (bfsAdd vn n.src (n.src :: n.sinks))) []

structure BfsSt (α : Type) where
  queue : List α
  unplaced : List α
  pops : List α
  iters : List (List α)
  out : List α

/-- one iteration of `while vertex_queue or unplaced_vertices` -/
def bfsStep (vn : List (α × List α)) (s : BfsSt α) : M (BfsSt α) :=
  let pick : Option (α × List α × List α × List α) :=
    match s.queue with
    | v :: q' => some (v, q', s.unplaced, s.pops)
    | [] =>
      match s.pops with
      | p :: ps => if p ∈ s.unplaced then some (p, [], s.unplaced.erase p, ps) else none
      | [] => none
  match pick with
  | none => .error .badOracle
  | some (v, q', u', pops') =>
    let nb := (aget vn v).getD []
    match takeIter nb s.iters with
    | .error e => .error e
    | .ok (it, iters') =>
      .ok { queue := q' ++ it.filter (fun a => decide (a ∈ u')),
            unplaced := u'.filter (fun a => !decide (a ∈ nb)),
            pops := pops', iters := iters', out := s.out ++ [v] }

def bfsLoop (vn : List (α × List α)) : Nat → BfsSt α → M (List α)
  | 0, s =>
    if s.queue.isEmpty && s.unplaced.isEmpty then
      (if s.pops.isEmpty && s.iters.isEmpty then .ok s.out else .error .badOracle)
    else .error .fuel
  | fuel + 1, s =>
    if s.queue.isEmpty && s.unplaced.isEmpty then
      (if s.pops.isEmpty && s.iters.isEmpty then .ok s.out else .error .badOracle)
    else
      match bfsStep vn s with
      | .error e => .error e
      | .ok s' => bfsLoop vn fuel s'

/-- `list(breadth_first_vertex_order(vertices_resources, nets))`; `vs` = the keys of
`vertices_resources` -/
def bfsOrder (vs : List α) (nets : List (Net α)) (pops : List α) (iters : List (List α)) : M (List α) :=
  if vs.length = 0 then (if pops.isEmpty && iters.isEmpty then .ok [] else .error .badOracle)
  else
    bfsLoop (bfsNeighbours nets) (dedupL vs).length
      { queue := [], unplaced := dedupL vs, pops := pops, iters := iters, out := [] }

/-! ### rcm.py -/

abbrev VN (α : Type) := List (α × List (α × Int))

/-- `vertices_neighbours[a][b] += w` (both levels are `defaultdict`s) -/
def vnAdd (vn : VN α) (a b : α) (w : Int) : VN α :=
  let inner := (aget vn a).getD []
  aset vn a (aset inner b ((aget inner b).getD 0 + w))

/-- `_get_vertices_neighbours(nets)` -/
def getVerticesNeighbours (nets : List (Net α)) : VN α :=
  nets.foldl (fun vn n =>
    if n.weight ≠ 0 then
      n.sinks.foldl (fun vn s => vnAdd (vnAdd vn n.src s n.weight) s n.src n.weight) vn
    else vn) []

/-- `iter(vertices_neighbours[v])`: the keys of the inner dictionary in insertion order -/
def nbrs (vn : VN α) (v : α) : List α := keys ((aget vn v).getD [])

/-- `sum(itervalues(vertices_neighbours[v]))` -/
def degree (vn : VN α) (v : α) : Int := (((aget vn v).getD []).map Prod.snd).sum

/-- the `while to_visit` loop of `_dfs`: the stack has its top at the head, `vis` is in yield
order -/
def dfsLoop (vn : VN α) : Nat → List α → List α → M (List α)
  | _, [], vis => .ok vis
  | 0, _ :: _, _ => .error .fuel
  | fuel + 1, v :: st, vis =>
    if v ∈ vis then dfsLoop vn fuel st vis
    else dfsLoop vn fuel ((nbrs vn v).reverse ++ st) (vis ++ [v])

/-- number of pushes `_dfs` can make at most: 1 + the sizes of all inner dictionaries -/
def dfsFuel (vn : VN α) : Nat := 1 + (vn.map fun e => e.2.length).sum

/-- `list(_dfs(vertex, vertices_neighbours))` -/
def dfs (vn : VN α) (v : α) : M (List α) := dfsLoop vn (dfsFuel vn) [v] []

/-- the `while remaining_vertices` loop of `_get_connected_subgraphs` -/
def subgraphsLoop (vn : VN α) : Nat → List α → List α → List (List α) → M (List (List α) × List α)
  | _, [], pops, acc => .ok (acc, pops)
  | 0, _ :: _, _, _ => .error .fuel
  | _ + 1, _ :: _, [], _ => .error .badOracle
  | fuel + 1, r :: rem, p :: pops, acc =>
    if p ∈ r :: rem then
      match dfs vn p with
      | .error e => .error e
      | .ok sg =>
        subgraphsLoop vn fuel (((r :: rem).erase p).filter (fun a => !decide (a ∈ sg))) pops (acc ++ [sg])
    else .error .badOracle

/-- `_get_connected_subgraphs(vertices, vertices_neighbours)` (each subgraph in DFS order; the
code makes it a set) together with the unused pops -/
def connectedSubgraphs (vn : VN α) (vs : List α) (pops : List α) : M (List (List α) × List α) :=
  subgraphsLoop vn (dedupL vs).length (dedupL vs) pops []

/-- Python `min(it, key=f)`: the first minimal element -/
def argminFirst (f : α → Int) : List α → Option α
  | [] => none
  | a :: t =>
    match argminFirst f t with
    | none => some a
    | some b => if f b < f a then some b else some a

/-- insertion into a list sorted by `f`, before the first element that is not smaller -/
def insertBy (f : α → Int) (a : α) : List α → List α
  | [] => [a]
  | b :: t => if f a ≤ f b then a :: b :: t else b :: insertBy f a t

/-- Python `sorted(l, key=f)` (stable) -/
def sortBy (f : α → Int) : List α → List α
  | [] => []
  | a :: t => insertBy f a (sortBy f t)

structure CmSt (α : Type) where
  visited : List α
  order : List α
  prev : List α
  iters : List (List α)

/-- one iteration of `while len(cm_order) < len(vertices)`; `sg` = the vertices of the subgraph
(the keys of `vertices_degrees`) -/
def cmStep (vn : VN α) (sg : List α) (s : CmSt α) : M (CmSt α) :=
  match takeIter s.prev s.iters with                     -- `for vertex in previous_layer`
  | .error e => .error e
  | .ok (_, iters1) =>
    let adj := (dedupL (s.prev.flatMap (nbrs vn))).filter (fun a => !decide (a ∈ s.visited))
    match takeIter adj iters1 with                       -- `sorted(adjacent, key=...)`
    | .error e => .error e
    | .ok (it, iters2) =>
      if it.all (fun a => decide (a ∈ sg)) then
        .ok { visited := s.visited ++ adj, order := s.order ++ sortBy (degree vn) it, prev := adj,
              iters := iters2 }
      else .error .keyError

def cmLoop (vn : VN α) (sg : List α) : Nat → CmSt α → M (List α × List (List α))
  | 0, s => if s.order.length < sg.length then .error .fuel else .ok (s.order, s.iters)
  | fuel + 1, s =>
    if s.order.length < sg.length then
      match cmStep vn sg s with
      | .error e => .error e
      | .ok s' => cmLoop vn sg fuel s'
    else .ok (s.order, s.iters)

/-- `_cuthill_mckee(vertices, vertices_neighbours)`; `sg` = the set `vertices` (duplicate-free) -/
def cuthillMckee (vn : VN α) (sg : List α) (iters : List (List α)) : M (List α × List (List α)) :=
  match takeIter sg iters with                           -- the dict comprehension over `vertices`
  | .error e => .error e
  | .ok (_, iters1) =>
    match takeIter sg iters1 with                        -- `min(vertices, key=...)`
    | .error e => .error e
    | .ok (it, iters2) =>
      match argminFirst (degree vn) it with
      | none => .error .valueError
      | some p => cmLoop vn sg sg.length { visited := [p], order := [p], prev := [p], iters := iters2 }

/-- the `for subgraph_vertices in ...` loop of `rcm_vertex_order` -/
def rcmLoop (vn : VN α) : List (List α) → List (List α) → List α → M (List α × List (List α))
  | [], iters, out => .ok (out, iters)
  | sg :: rest, iters, out =>
    match cuthillMckee vn sg iters with
    | .error e => .error e
    | .ok (cm, iters') => rcmLoop vn rest iters' (out ++ cm.reverse)

/-- `list(rcm_vertex_order(vertices_resources, nets))` -/
def rcmVertexOrder (vs : List α) (nets : List (Net α)) (pops : List α) (iters : List (List α)) :
    M (List α) :=
  let vn := getVerticesNeighbours nets
  match connectedSubgraphs vn vs pops with
  | .error e => .error e
  | .ok (sgs, pops') =>
    match rcmLoop vn sgs iters [] with
    | .error e => .error e
    | .ok (out, iters') => if pops'.isEmpty && iters'.isEmpty then .ok out else .error .badOracle

/-- `order` lists every element of `vs` exactly once and nothing else -/
def isPermOf (order vs : List α) : Bool :=
  decide order.Nodup && order.all (fun a => decide (a ∈ vs)) && vs.all (fun a => decide (a ∈ order))

end generic

/-! ### rcm_chip_order -/

/-- Python `a % n` for `n > 0` -/
def pmod (a : Int) (n : Nat) : Nat := (a % (n : Int)).toNat

/-- the net `rcm_chip_order` builds for chip `(x, y)`: one sink per working link whose far end is a
working chip, in the order of the `Links` enumeration; the weight is the default 1.0 (4 quarters) -/
def chipNet (m : Machine) (deadLinks : List (Nat × Nat × Nat)) (c : Chip) : Net Chip :=
  { src := c,
    sinks := Rig.Gen.C03Links.linkOrder.filterMap fun l =>
      if deadLinks.contains (c.1, c.2, l) then none
      else
        let d := Rig.Gen.C03Links.linkVecs.getD l (0, 0)
        let nb : Chip := (pmod ((c.1 : Int) + d.1) m.w, pmod ((c.2 : Int) + d.2) m.h)
        if m.ok nb then some nb else none,
    weight := 4 }

/-- `list(rcm_chip_order(machine))` -/
def rcmChipOrder (m : Machine) (deadLinks : List (Nat × Nat × Nat)) (pops : List Chip)
    (iters : List (List Chip)) : M (List Chip) :=
  rcmVertexOrder m.chips (m.chips.map (chipNet m deadLinks)) pops iters

/-! ### hilbert.py -/

structure HState where
  x : Int
  y : Int
  dx : Int
  dy : Int
  deriving DecidableEq, Repr

/-- "Turn left": `s.dx, s.dy = s.dy*-angle, s.dx*angle` -/
def HState.left (s : HState) (a : Int) : HState := { s with dx := s.dy * -a, dy := s.dx * a }
/-- "Turn right": `s.dx, s.dy = s.dy*angle, s.dx*-angle` -/
def HState.right (s : HState) (a : Int) : HState := { s with dx := s.dy * a, dy := s.dx * -a }
/-- "Move forward" -/
def HState.fwd (s : HState) : HState := { s with x := s.x + s.dx, y := s.y + s.dy }
def HState.pos (s : HState) : Int × Int := (s.x, s.y)

/-- `hilbert(level, angle, s)` for an existing state object: the points yielded and the final
state -/
def hil : Nat → Int → HState → List (Int × Int) × HState
  | 0, _, s => ([], s)
  | n + 1, a, s =>
    let s := s.left a
    let (l1, s) := hil n (-a) s
    let s := s.fwd
    let p1 := s.pos
    let s := s.right a
    let (l2, s) := hil n a s
    let s := s.fwd
    let p2 := s.pos
    let (l3, s) := hil n a s
    let s := s.right a
    let s := s.fwd
    let p3 := s.pos
    let (l4, s) := hil n (-a) s
    let s := s.left a
    (l1 ++ p1 :: (l2 ++ p2 :: (l3 ++ p3 :: l4)), s)

/-- `list(hilbert(level))` -/
def hilbert (level : Nat) : List (Int × Int) :=
  (0, 0) :: (hil level 1 { x := 0, y := 0, dx := 1, dy := 0 }).1

/-- `int(ceil(log(max_dimen, 2.0))) if max_dimen >= 1 else 0`: the float expression agrees with
this integer function for every `max_dimen ≤ 65536` (enumerated on every run) -/
def levels (n : Nat) : Nat := if n ≤ 1 then 0 else (n - 1).log2 + 1

/-- `list(hilbert_chip_order(machine))` -/
def hilbertChipOrder (w h : Nat) : List (Int × Int) := hilbert (levels (max w h))

/-- the points with non-negative coordinates as chips (a point with a negative coordinate is never
`in machine`, so the sequential placer drops it like any other non-chip) -/
def toChips (l : List (Int × Int)) : List Chip :=
  l.filterMap fun p => if 0 ≤ p.1 ∧ 0 ≤ p.2 then some (p.1.toNat, p.2.toNat) else none

/-- every working chip of the machine is listed exactly once ("All working chip coordinates must
be included in the iteration sequence exactly once", sequential.place) -/
def coversOnce (m : Machine) (co : List (Int × Int)) : Bool :=
  m.chips.all fun c => (toChips co).count c == 1

/-! ### line protocol -/
open Lean Rig.P

def errName : OErr → String
  | .badOracle => "BadOracle"
  | .fuel => "Fuel"
  | .keyError => "KeyError"
  | .valueError => "ValueError"

def netOfJson (j : Json) : R (Net Nat) := do
  match ← asArr j with
  | [s, k, w] => pure { src := ← asNat s, sinks := ← (← asArr k).mapM asNat, weight := ← asInt w }
  | _ => .error "expected [src, sinks, weight]"

def chipOfJson (j : Json) : R Chip := asPair j asNat asNat
def chipToJson (c : Chip) : Json := jPair (jNat c.1) (jNat c.2)
def pointOfJson (j : Json) : R (Int × Int) := asPair j asInt asInt

def linkOfJson (j : Json) : R (Nat × Nat × Nat) := do
  match ← asArr j with
  | [x, y, l] => pure (← asNat x, ← asNat y, ← asNat l)
  | _ => .error "expected [x, y, link]"

def resJson {β} (f : β → Json) : M β → Json
  | .ok a => jOk (f a)
  | .error e => jErr (errName e)

def machineOfJson (j : Json) : R Machine := do
  pure { w := ← nat j "w", h := ← nat j "h", res := [], exc := [],
         dead := ← (← arr j "dead").mapM chipOfJson }

def handle (op : String) (j : Json) : R Json := do
  match op with
  | "bfs" | "rcm_v" | "nbrs" | "bfs_nbrs" | "dfs" | "subgraphs" | "cm" | "is_perm" =>
    let vs ← (← arr j "vs").mapM asNat
    let nets ← (← arr j "nets").mapM netOfJson
    let pops ← (← arr j "pops").mapM asNat
    let iters ← (← arr j "iters").mapM (fun a => do (← asArr a).mapM asNat)
    match op with
    | "bfs" => pure (resJson jNats (bfsOrder vs nets pops iters))
    | "rcm_v" => pure (resJson jNats (rcmVertexOrder vs nets pops iters))
    | "nbrs" =>
      pure (jList ((getVerticesNeighbours nets).map fun e =>
        jPair (jNat e.1) (jList (e.2.map fun f => jPair (jNat f.1) (jInt f.2)))))
    | "bfs_nbrs" =>
      pure (jList ((bfsNeighbours nets).map fun e => jPair (jNat e.1) (jNats e.2)))
    | "dfs" => pure (resJson jNats (dfs (getVerticesNeighbours nets) (← nat j "start")))
    | "subgraphs" =>
      pure (resJson (fun (r : List (List Nat) × List Nat) => jList (r.1.map jNats))
        (connectedSubgraphs (getVerticesNeighbours nets) vs pops))
    | "cm" =>
      pure (resJson (fun (r : List Nat × List (List Nat)) => jNats r.1)
        (cuthillMckee (getVerticesNeighbours nets) vs iters))
    | _ =>
      let order ← (← arr j "order").mapM asNat
      pure (Json.mkObj [("perm", Json.bool (isPermOf order vs))])
  | "rcm_c" =>
    let m ← machineOfJson j
    let dl ← (← arr j "dead_links").mapM linkOfJson
    let pops ← (← arr j "pops").mapM chipOfJson
    let iters ← (← arr j "iters").mapM (fun a => do (← asArr a).mapM chipOfJson)
    pure (resJson (fun l => jList (l.map chipToJson)) (rcmChipOrder m dl pops iters))
  | "chip_nets" =>
    let m ← machineOfJson j
    let dl ← (← arr j "dead_links").mapM linkOfJson
    pure (jList (m.chips.map fun c => jPair (chipToJson c) (jList ((chipNet m dl c).sinks.map chipToJson))))
  | "hilbert" =>
    pure (jList ((hilbert (← nat j "level")).map fun p => jPair (jInt p.1) (jInt p.2)))
  | "hilbert_c" =>
    pure (jList ((hilbertChipOrder (← nat j "w") (← nat j "h")).map fun p => jPair (jInt p.1) (jInt p.2)))
  | "levels" => pure (jNats ((← nats j "ns").map levels))
  | "covers" =>
    let m ← machineOfJson j
    let co ← (← arr j "order").mapM pointOfJson
    pure (Json.mkObj [("covers", Json.bool (coversOnce m co))])
  | _ => .error s!"unknown op {op}"

end Rig.C02Orders
