/-
C07 (struct / per-core field accessors) - model of
  MachineController._get_struct_field_and_address / read_struct_field / write_struct_field
  MachineController._get_vcpu_field_and_address / read_vcpu_struct_field / write_vcpu_struct_field
(rig/machine_control/machine_controller.py) as functions from the PARSED struct table
(`List PStruct`, what Model/C20Parse.lean:`parseStructFile` makes of a struct file; for the bundled
rig/boot/sark.struct this is `parsedSark`, regenerated from the file's bytes on every run) to the read /
write requests of Model/C07.lean (`read` / `write`: the command lists of SCPConnection.read / write).

Python facts transliterated:
* `structs[six.b(s)]`, `struct[six.b(f)]`: `KeyError` when absent (struct first, then field);
* struct accessors: `address = struct.base + field.offset`, format `b"<" + field.length * field.pack_chars`
  (so `status_map[20]` with pack `B` is 20 bytes; a string field `name[16]` with pack `16s` would be SIXTEEN
  16-byte strings: 256 bytes - modelled as the code is);
* per-core accessors: `address = read_struct_field("sv", "vcpu_base", x, y) + vcpu.size * p + field.offset`,
  format `b"<" + field.pack_chars` (ONE copy, whatever `field.length`): the first request is the read of
  `sv.vcpu_base` (a struct access like any other, default core), whose reply decides the address;
* `struct.calcsize` / `pack` / `unpack` for "<" (no padding) and the format units the parser can produce:
  optional count + one of `s b B H I`; a count before `s` is the string's width (ONE item: shorter values
  are padded with NUL bytes, longer ones cut), before a number it repeats the item; a wrong number or kind of
  values, or a number out of range, raises `struct.error`;
* `read_struct_field`: `unpacked[0]` when `field.length == 1`, else the tuple;
  `read_vcpu_struct_field`: `unpacked[0]` when `field.length == 1`, else for a format with an `s` the first
  item stripped of NUL bytes at both ends (then decoded), else the tuple ("pragma: no cover" in the source:
  an array field like `__PAD[4]` is accessed as ONE element of its type);
* `write_struct_field`: `field.length != 1`: `assert len(values) == field.length; pack(fmt, *values)`, else
  `pack(fmt, values)`; `write_vcpu_struct_field`: format with an `s`: `pack(fmt, value.encode("utf-8"))`
  (the model takes the encoded bytes), `field.length == 1`: `pack(fmt, value)`, else `pack(fmt, *value)`.

`base` / `size` absent (`None`): `TypeError` from the arithmetic.  A negative address fails in the packet
encoder (`struct.error`) once a command is sent; addresses of 2^32 and more are outside the domain of C07
(as for `read` / `write`).
-/
import RigModel.Model.C07
import RigModel.Model.C20Parse

namespace Rig.C07Struct
open Rig.C07 Rig.C20Parse

inductive SErr where
  | keyError        -- no such struct / field
  | structError     -- struct.error: bad format, wrong number / kind / range of values, negative address
  | typeError       -- None in the address arithmetic; a value of the wrong shape (len() of an int, ...)
  | assertion       -- assert len(values) == field.length
  | indexError      -- unpacked[0] of an empty tuple (a format without items)
  deriving Repr, DecidableEq

/-- one item of a format string -/
inductive Item where
  | int (code : Nat)      -- `b` 98, `B` 66, `H` 72, `I` 73
  | str (n : Nat)         -- `<n>s`
  deriving Repr, DecidableEq

def codeWidth (c : Nat) : Nat :=
  if c = 98 ∨ c = 66 then 1 else if c = 72 then 2 else if c = 73 then 4 else 0

def Item.size : Item → Nat
  | .int c => codeWidth c
  | .str n => n

/-- `struct.calcsize(b"<" + ...)` -/
def calcsize (items : List Item) : Nat := (items.map Item.size).foldr (· + ·) 0

/-- the items of ONE copy of `pack_chars` (optional count + code); `none` = not a format -/
def packItems (pk : Bytes) : Option (List Item) :=
  match pk.getLast? with
  | none => none
  | some c =>
    if pk.dropLast.all isDigit then
      let n := (packCount pk).getD 1
      if c = 115 then some [.str n]
      else if codeWidth c ≠ 0 then some (List.replicate n (.int c))
      else none
    else none

/-- the items of `reps * pack_chars` -/
def fmtItems (pk : Bytes) (reps : Nat) : Option (List Item) :=
  (packItems pk).map fun l => (List.replicate reps l).flatten

inductive Val where
  | int (v : Int)
  | bytes (b : List Nat)
  deriving Repr, DecidableEq

/-- little-endian bytes -> number -/
def fromLE : List Nat → Nat
  | [] => 0
  | b :: r => b + 256 * fromLE r

def intRange (c : Nat) (v : Int) : Bool :=
  if c = 98 then decide (-128 ≤ v ∧ v < 128) else decide (0 ≤ v ∧ v < (256 : Int) ^ codeWidth c)

/-- `struct.pack` of one item -/
def packItem : Item → Val → Except SErr (List Nat)
  | .int c, .int v =>
    if intRange c v then .ok (Rig.C20.leBytes (codeWidth c) (v % (256 : Int) ^ codeWidth c).toNat)
    else .error .structError
  | .str n, .bytes b => .ok (b.take n ++ List.replicate (n - b.length) 0)
  | _, _ => .error .structError

def packAll : List Item → List Val → Except SErr (List Nat)
  | [], [] => .ok []
  | it :: r, v :: vs =>
    match packItem it v with
    | .error e => .error e
    | .ok d =>
      match packAll r vs with
      | .error e => .error e
      | .ok ds => .ok (d ++ ds)
  | _, _ => .error .structError

/-- `struct.unpack` of one item from exactly its bytes -/
def unpackItem : Item → List Nat → Val
  | .int c, d =>
    let n := fromLE d
    if c = 98 ∧ 128 ≤ n then .int ((n : Int) - 256) else .int n
  | .str _, d => .bytes d

def unpackAll : List Item → List Nat → List Val
  | [], _ => []
  | it :: r, d => unpackItem it (d.take it.size) :: unpackAll r (d.drop it.size)

/-! ### looking a field up -/

def getField : List PField → Bytes → Option PField
  | [], _ => none
  | g :: r, n => if g.name = n then some g else getField r n

/-- what an accessor has worked out before it touches the machine -/
structure Access where
  addr : Nat
  items : List Item
  field : PField
  deriving Repr, DecidableEq

def Access.size (a : Access) : Nat := calcsize a.items

/-- `_get_struct_field_and_address` (plus the format's items) -/
def structAccess (T : List PStruct) (s f : Bytes) : Except SErr Access :=
  match getStruct T s with
  | none => .error .keyError
  | some st =>
    match getField st.fields f with
    | none => .error .keyError
    | some fld =>
      match st.base with
      | none => .error .typeError
      | some b =>
        match fmtItems fld.pack fld.length with
        | none => .error .structError
        | some items =>
          if b + fld.offset < 0 then .error .structError
          else .ok ⟨(b + fld.offset).toNat, items, fld⟩

/-- what a read accessor returns -/
inductive RVal where
  | one (v : Val)
  | tuple (vs : List Val)
  | text (b : List Nat)       -- the bytes that are then decoded as UTF-8
  deriving Repr, DecidableEq

/-- what a write accessor is given -/
inductive WVal where
  | one (v : Val)
  | many (vs : List Val)
  deriving Repr, DecidableEq

/-- the result of `read_struct_field` from the bytes the read returned -/
def structValue (a : Access) (data : List Nat) : Except SErr RVal :=
  let vs := unpackAll a.items data
  if a.field.length = 1 then
    match vs with
    | v :: _ => .ok (.one v)
    | [] => .error .indexError
  else .ok (.tuple vs)

/-- `read_struct_field`: the access and the read commands -/
def structRead (T : List PStruct) (buf : Nat) (s f : Bytes) : Except SErr (Access × List Chunk) :=
  match structAccess T s f with
  | .error e => .error e
  | .ok a => .ok (a, read buf a.addr a.size)

/-- the bytes `write_struct_field` packs -/
def structPack (a : Access) (w : WVal) : Except SErr (List Nat) :=
  if a.field.length ≠ 1 then
    match w with
    | .one _ => .error .typeError
    | .many vs => if vs.length = a.field.length then packAll a.items vs else .error .assertion
  else
    match w with
    | .one v => packAll a.items [v]
    | .many _ => .error .structError

/-- `write_struct_field`: the access, the packed bytes and the write commands -/
def structWrite (T : List PStruct) (buf : Nat) (s f : Bytes) (w : WVal) :
    Except SErr (Access × List Nat × List Chunk) :=
  match structAccess T s f with
  | .error e => .error e
  | .ok a =>
    match structPack a w with
    | .error e => .error e
    | .ok data => .ok (a, data, write buf a.addr data)

/-! ### per-core accessors -/

def nSv : Bytes := [115, 118]
def nVcpu : Bytes := [118, 99, 112, 117]
def nVcpuBase : Bytes := [118, 99, 112, 117, 95, 98, 97, 115, 101]

/-- `read_struct_field("sv", "vcpu_base", x, y)` on the machine's memory -/
def vcpuBase (T : List PStruct) (m : Mem) : Except SErr (Access × RVal) :=
  match structAccess T nSv nVcpuBase with
  | .error e => .error e
  | .ok ab =>
    match structValue ab (readMem m ab.addr ab.size) with
    | .error e => .error e
    | .ok v => .ok (ab, v)

/-- `_get_vcpu_field_and_address`: (the access to `sv.vcpu_base`, the access to the field) -/
def vcpuAccess (T : List PStruct) (m : Mem) (f : Bytes) (p : Nat) : Except SErr (Access × Access) :=
  match getStruct T nVcpu with
  | none => .error .keyError
  | some st =>
    match getField st.fields f with
    | none => .error .keyError
    | some fld =>
      match vcpuBase T m with
      | .error e => .error e
      | .ok (ab, .one (.int vb)) =>
        match st.size with
        | none => .error .typeError
        | some sz =>
          match packItems fld.pack with
          | none => .error .structError
          | some items =>
            if vb + sz * p + fld.offset < 0 then .error .structError
            else .ok (ab, ⟨(vb + sz * p + fld.offset).toNat, items, fld⟩)
      | .ok _ => .error .typeError

def stripNul (b : List Nat) : List Nat :=
  ((b.dropWhile (· == 0)).reverse.dropWhile (· == 0)).reverse

/-- the result of `read_vcpu_struct_field` from the bytes the read returned -/
def vcpuValue (a : Access) (data : List Nat) : Except SErr RVal :=
  let vs := unpackAll a.items data
  if a.field.length = 1 then
    match vs with
    | v :: _ => .ok (.one v)
    | [] => .error .indexError
  else if a.field.pack.contains 115 then
    match vs with
    | .bytes b :: _ => .ok (.text (stripNul b))
    | _ => .error .indexError
  else .ok (.tuple vs)

/-- `read_vcpu_struct_field`: commands of the `vcpu_base` read, the access, the commands of the field read -/
def vcpuRead (T : List PStruct) (buf : Nat) (m : Mem) (f : Bytes) (p : Nat) :
    Except SErr (Access × List Chunk × Access × List Chunk) :=
  match vcpuAccess T m f p with
  | .error e => .error e
  | .ok (ab, a) => .ok (ab, read buf ab.addr ab.size, a, read buf a.addr a.size)

def vcpuPack (a : Access) (w : WVal) : Except SErr (List Nat) :=
  if a.field.pack.contains 115 then
    match w with
    | .one (.bytes b) => packAll a.items [.bytes b]
    | _ => .error .typeError
  else if a.field.length = 1 then
    match w with
    | .one v => packAll a.items [v]
    | .many _ => .error .structError
  else
    match w with
    | .many vs => packAll a.items vs
    | .one _ => .error .typeError

/-- `write_vcpu_struct_field` -/
def vcpuWrite (T : List PStruct) (buf : Nat) (m : Mem) (f : Bytes) (p : Nat) (w : WVal) :
    Except SErr (Access × List Chunk × Access × List Nat × List Chunk) :=
  match vcpuAccess T m f p with
  | .error e => .error e
  | .ok (ab, a) =>
    match vcpuPack a w with
    | .error e => .error e
    | .ok data => .ok (ab, read buf ab.addr ab.size, a, data, write buf a.addr data)

/-! ### well-formed layouts (decided; instantiated for the parsed sark.struct in Props/C07Struct.lean) -/

/-- the bytes a field occupies under the struct accessors (`length` copies of the format) resp. the per-core
accessors (one copy); 0 for a format the accessors reject -/
def fieldSize (perCore : Bool) (f : PField) : Nat :=
  match (if perCore then packItems f.pack else fmtItems f.pack f.length) with
  | some items => calcsize items
  | none => 0

def disjointFrom (perCore : Bool) (f : PField) : List PField → Bool
  | [] => true
  | g :: r =>
    (decide (f.offset + fieldSize perCore f ≤ g.offset) || decide (g.offset + fieldSize perCore g ≤ f.offset)) &&
      disjointFrom perCore f r

def pairwiseDisjoint (perCore : Bool) : List PField → Bool
  | [] => true
  | f :: r => disjointFrom perCore f r && pairwiseDisjoint perCore r

/-- distinct names, every field has a format the accessors accept and lies inside `[0, size)`, no two
fields share a byte -/
def layoutWFB (perCore : Bool) (st : PStruct) : Bool :=
  distinctB (st.fields.map (·.name)) &&
    st.fields.all (fun f => decide (0 ≤ f.offset) &&
      decide (f.offset + fieldSize perCore f ≤ (st.size.getD 0)) &&
      (if perCore then packItems f.pack else fmtItems f.pack f.length).isSome) &&
    pairwiseDisjoint perCore st.fields

/-- what the per-core theorems need of a table, decided: `sv` has a well-formed layout under the struct
accessors, `vcpu` under the per-core accessors and a size, and `sv.vcpu_base` is one 32-bit word -/
def tableOKB (T : List PStruct) : Bool :=
  (getStruct T nSv).any (layoutWFB false) &&
  (getStruct T nVcpu).any (fun st => layoutWFB true st && st.size.any (fun z => decide (0 ≤ z))) &&
  (match structAccess T nSv nVcpuBase with
   | .ok ab => ab.items == [.int 73] && ab.field.length == 1
   | .error _ => false)

/-- the table of the bundled struct file, as the model parser reads it (`[]` if it does not parse) -/
def sarkTable : List PStruct :=
  match parsedSark with
  | .ok ss => ss
  | .error _ => []

/-! ### line protocol -/
open Lean Rig.P

def serrToJson : SErr → Json
  | .keyError => jErr "KeyError"
  | .structError => jErr "struct.error"
  | .typeError => jErr "TypeError"
  | .assertion => jErr "AssertionError"
  | .indexError => jErr "IndexError"

def valToJson : Val → Json
  | .int v => jInt v
  | .bytes b => Json.mkObj [("b", jNats b)]

def rvalToJson : RVal → Json
  | .one v => Json.mkObj [("one", valToJson v)]
  | .tuple vs => Json.mkObj [("tuple", jList (vs.map valToJson))]
  | .text b => Json.mkObj [("text", jNats b)]

def valOfJson (j : Json) : R Val :=
  match j with
  | .obj _ => do pure (.bytes (← nats j "b"))
  | _ => do pure (.int (← asInt j))

def wvalOfJson (j : Json) : R WVal :=
  match j with
  | .arr a => do pure (.many (← a.toList.mapM valOfJson))
  | _ => do pure (.one (← valOfJson j))

/-- memory given as segments `[[addr, [bytes]], ...]`; 0 elsewhere -/
def memOf (segs : List (Nat × List Nat)) : Mem :=
  fun a =>
    match segs.find? (fun s => s.1 ≤ a ∧ a < s.1 + s.2.length) with
    | some s => s.2.getD (a - s.1) 0
    | none => 0

def accessToJson (a : Access) : List (String × Json) :=
  [("addr", jNat a.addr), ("size", jNat a.size), ("offset", jInt a.field.offset), ("length", jNat a.field.length),
   ("pack", Json.str (bstr a.field.pack))]

def handle (op : String) (j : Json) : R Json := do
  let chunks (l : List Chunk) : Json := jList (l.map chunkToJson)
  -- the table: the bundled file through the model parser, or the text given
  let T ← match ← opt j "text" asStr with
    | none => pure sarkTable
    | some t =>
      match parseStructFile (Rig.C20.unhex t) with
      | .ok ss => pure ss
      | .error _ => .error "struct text does not parse"
  let mem ← match ← opt j "mem" asArr with
    | none => pure (fun _ => 0 : Mem)
    | some segs => do pure (memOf (← segs.mapM (fun s => asPair s asNat (fun d => do (← asArr d).mapM asNat))))
  match op with
  | "struct_read" =>
    match structRead T (← nat j "buf") (sbytes (← str j "struct")) (sbytes (← str j "field")) with
    | .error e => pure (serrToJson e)
    | .ok (a, cs) =>
      let v := match structValue a (readMem mem a.addr a.size) with
        | .ok v => rvalToJson v
        | .error e => serrToJson e
      pure (Json.mkObj (accessToJson a ++ [("cmds", chunks cs), ("value", v)]))
  | "struct_write" =>
    match structWrite T (← nat j "buf") (sbytes (← str j "struct")) (sbytes (← str j "field"))
        (← wvalOfJson (← field j "value")) with
    | .error e => pure (serrToJson e)
    | .ok (a, data, cs) => pure (Json.mkObj (accessToJson a ++ [("cmds", chunks cs), ("data", jNats data)]))
  | "vcpu_read" =>
    match vcpuRead T (← nat j "buf") mem (sbytes (← str j "field")) (← nat j "p") with
    | .error e => pure (serrToJson e)
    | .ok (ab, cb, a, cs) =>
      let v := match vcpuValue a (readMem mem a.addr a.size) with
        | .ok v => rvalToJson v
        | .error e => serrToJson e
      pure (Json.mkObj (accessToJson a ++ [("base_addr", jNat ab.addr), ("cmds", chunks (cb ++ cs)), ("value", v)]))
  | "vcpu_write" =>
    match vcpuWrite T (← nat j "buf") mem (sbytes (← str j "field")) (← nat j "p")
        (← wvalOfJson (← field j "value")) with
    | .error e => pure (serrToJson e)
    | .ok (ab, cb, a, data, cs) =>
      pure (Json.mkObj (accessToJson a ++ [("base_addr", jNat ab.addr), ("cmds", chunks (cb ++ cs)),
        ("data", jNats data)]))
  | "layout" =>
    -- the well-formedness the isolation theorems assume, decided on the table in force
    pure (Json.mkObj [("ok", Json.bool (tableOKB T)), ("sv", Json.bool ((getStruct T nSv).any (layoutWFB false))),
      ("vcpu", Json.bool ((getStruct T nVcpu).any (layoutWFB true))),
      ("same", Json.bool (T == Rig.C20.genStructs.map ofDef)) ])
  | _ => .error s!"unknown op {op}"

end Rig.C07Struct
