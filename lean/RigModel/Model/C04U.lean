/-
C04 (deepening) - model of the remaining helpers of rig/routing_table:

* utils.py `get_common_xs`, `expand_entry`, `expand_entries`, `table_is_subset_of` (the library's
  own equivalence checker, used as the oracle of the repo's minimiser tests);
* entries.py `Routes.core` / `is_link` / `is_core` / `core_num` / `opposite` / `initial`,
  `RoutingTableEntry.__new__` (no validation: `frozenset(route)`, `set(sources)`, default
  sources `{None}`) and `RoutingTableEntry.__str__`;
* the checkable form of the precondition on a user-supplied alias dictionary of
  `ordered_covering(..., aliases=...)`.

Definitions live in `namespace Rig.C04` (they extend Model/C04.lean); the protocol handler is
`Rig.C04U.handle` (suite `c04u`).

`expand_entry` is a recursive generator: it looks for the most significant X that is not
ignored, recurses on the entry with that bit fixed to 0 and then to 1 (each recursive call scans
again from bit 31, but all higher positions are no longer X) and yields the entry itself when
no such X is left.  The model walks the bit positions 31..0 once and continues *below* the split
position; this enumerates the same entries in the same order.
-/
import RigModel.Model.C04
import RigModel.Gen.C04Routes

namespace Rig.C04

/-! ### utils.get_common_xs -/

/-- `get_common_xs(entries)`: `(~(key | mask)) & 0xffffffff` with `key`/`mask` the OR over all
entries (all ones for the empty table) -/
def commonXs (T : List Entry) : W :=
  let key : W := T.foldl (fun a e => a ||| e.key) 0
  let mask : W := T.foldl (fun a e => a ||| e.mask) 0
  ~~~(key ||| mask)

/-! ### utils.expand_entry / expand_entries -/

/-- `xs = (~entry.key & ~entry.mask) & ~ignore_xs` -/
def xsOf (ignore : W) (e : Entry) : W := (~~~e.key &&& ~~~e.mask) &&& ~~~ignore

def bitW (i : Nat) : W := 1#32 <<< i

def expandGo (ignore : W) : List Nat → Entry → List Entry
  | [], e => [e]
  | i :: rest, e =>
    if (xsOf ignore e).getLsbD i then
      expandGo ignore rest { e with mask := e.mask ||| bitW i } ++
        expandGo ignore rest { e with key := e.key ||| bitW i, mask := e.mask ||| bitW i }
    else expandGo ignore rest e

/-- `range(31, -1, -1)` -/
def bitsDown : List Nat := (List.range 32).reverse

/-- `list(expand_entry(entry, ignore_xs))` -/
def expandEntry (ignore : W) (e : Entry) : List Entry := expandGo ignore bitsDown e

/-- the `seen_keys` filter of `expand_entries`: an expanded entry whose *key* was already yielded
is dropped (with a warning) -/
def dedupKeys : List Entry → List W → List Entry
  | [], _ => []
  | e :: r, seen =>
    if seen.contains e.key then dedupKeys r seen else e :: dedupKeys r (e.key :: seen)

/-- `list(expand_entries(entries, ignore_xs))`; `ignore_xs=None` means the common Xs -/
def expandEntries (T : List Entry) (ignore : Option W) : List Entry :=
  let ig := match ignore with | some i => i | none => commonXs T
  dedupKeys (T.flatMap (expandEntry ig)) []

/-! ### utils.table_is_subset_of -/

/-- the inline default-route test of `table_is_subset_of`: one route, one source, the source is
not `None`, the sink is a link and the source is the sink's opposite -/
def subsetDefaultRouted (e : Entry) : Bool :=
  match single e.route, single e.sources with
  | some sink, some source => source != 24 && sink < 6 && source == (sink + 3) % 6
  | _, _ => false

/-- the inner `for other_entry in entries_b: ... else: ...` loop for one expanded entry -/
def subsetCheckOne (ee : Entry) : List Entry → Bool
  | [] => subsetDefaultRouted ee
  | o :: rest =>
    if o.mask &&& ee.key == o.key then o.route == ee.route else subsetCheckOne ee rest

/-- `table_is_subset_of(entries_a, entries_b)` -/
def tableIsSubsetOf (a b : List Entry) : Bool :=
  (expandEntries a (some (commonXs b))).all (fun ee => subsetCheckOne ee b)

/-! ### specification that `table_is_subset_of` decides: routes only (sources of `b` are not
looked at) -/

/-- key `k`, if matched by `T`, gets the same route from `T'` (first match) or is default-routed
exactly as `T`'s entry would route it -/
def KeyRouted (T T' : List Entry) (k : W) : Prop :=
  ∀ e, lookup T k = some e →
    (∃ e', lookup T' k = some e' ∧ e'.route = e.route) ∨ (lookup T' k = none ∧ DefaultRouted e)

/-- **RouteSame**: `RouteEquiv` without the clause about source directions -/
def RouteSame (T T' : List Entry) : Prop := ∀ k, KeyRouted T T' k

/-- no key bit set outside the mask (such an entry matches no key at all) -/
def WellFormed (T : List Entry) : Prop := ∀ e ∈ T, e.key &&& ~~~e.mask = 0

def wellFormedB (T : List Entry) : Bool := T.all (fun e => e.key &&& ~~~e.mask == 0)

/-- pairwise non-intersecting key/masks (`utils.intersect`), the decidable form of orthogonality
for well-formed tables -/
def orthogonalB : List Entry → Bool
  | [] => true
  | e :: r => r.all (fun d => !e.meets d) && orthogonalB r

/-! ### user-supplied alias dictionaries -/

/-- an alias key/mask as a routing entry (for matching only) -/
def kmEntry (a : KM) : Entry := { route := 0, key := a.1, mask := a.2, sources := 0 }

/-- every key/mask stored as a value of the dictionary -/
def aliasEntries (A : Aliases) : List Entry := A.flatMap (fun p => p.2.map kmEntry)

/-- key `k`, if matched (first) by entry `o` of the table, is matched by one of the key/masks the
dictionary lists for `o` (`aliases.get(km, {km})`) -/
def aliasKeyOkB (S : List Entry) (A : Aliases) (k : W) : Bool :=
  match lookup S k with
  | none => true
  | some o => (alOf A o).any (fun a => k &&& a.2 == a.1)

/-- exhaustive check of the alias precondition over the key bits that can make a difference -/
def aliasOkBrute (S : List Entry) (A : Aliases) : Option W :=
  let Ts := S ++ aliasEntries A
  (keysOver (baseKey Ts) (varyingBits Ts)).find? (fun k => !aliasKeyOkB S A k)

/-! ### entries.py: Routes -/

inductive RErr where
  | valueError
  deriving Repr, DecidableEq

/-- `Routes(v)`: the enumeration lookup by value -/
def routesOfValue (v : Nat) : Except RErr Nat :=
  if (Rig.Gen.C04Routes.members.map (·.2)).contains v then .ok v else .error .valueError

/-- `Routes.core(num)` -/
def routesCore (num : Int) : Except RErr Nat :=
  if ¬ (0 ≤ num ∧ num ≤ 17) then .error .valueError
  else routesOfValue (6 + num).toNat

/-- `Routes.is_link` -/
def isLink (r : Nat) : Bool := r < 6

/-- `Routes.is_core` -/
def isCore (r : Nat) : Bool := !isLink r

/-- `Routes.core_num` -/
def coreNum (r : Nat) : Except RErr Nat :=
  if isCore r then .ok (r - 6) else .error .valueError

/-- `Routes.opposite` -/
def routeOpposite (r : Nat) : Except RErr Nat :=
  if !isLink r then .error .valueError else routesOfValue ((r + 3) % 6)

/-- `Routes.initial` -/
def routeInitial (r : Nat) : String :=
  if isLink r then
    match r with
    | 0 => "E" | 1 => "NE" | 2 => "N" | 3 => "W" | 4 => "SW" | _ => "S"
  else toString (r - 6)

/-! ### entries.py: RoutingTableEntry -/

/-- a Python set of `Routes` (and `None` = 24) as a bit set -/
def bitsOf (l : List Nat) : Nat := l.foldl (fun a i => a ||| 2 ^ i) 0

/-- `RoutingTableEntry(route, key, mask[, sources])`: nothing is validated; the route becomes a
frozenset and the sources a set (duplicates collapse), `sources` defaults to `{None}` -/
def mkEntry (route : List Nat) (key mask : W) (sources : Option (List Nat)) : Entry :=
  { route := bitsOf route, key := key, mask := mask,
    sources := bitsOf (match sources with | some s => s | none => Rig.Gen.C04Routes.defaultSources) }

/-- members of a bit set in increasing order (`sorted(...)` of a set of `Routes`) -/
def bitList (s : Nat) (n : Nat) : List Nat := (List.range n).filter (fun i => s.testBit i)

/-- `str(entry)` -/
def entryStr (e : Entry) : String :=
  let keymask := String.join (bitsDown.map (fun i =>
    if e.mask.getLsbD i then (if e.key.getLsbD i then "1" else "0")
    else (if e.key.getLsbD i then "!" else "X")))
  let route := " ".intercalate ((bitList e.route 24).map routeInitial)
  if e.sources == 0 || e.sources == 2 ^ 24 then keymask ++ " -> " ++ route
  else " ".intercalate ((bitList e.sources 24).map routeInitial) ++ " -> " ++ keymask ++ " -> " ++ route

end Rig.C04

namespace Rig.C04U
open Lean Rig.P Rig.C04

def jExc : Except RErr Nat → Json
  | .ok v => jOk (jNat v)
  | .error .valueError => jErr "ValueError"

def handle (op : String) (j : Json) : R Json := do
  match op with
  | "subset" =>
    pure (Json.bool (tableIsSubsetOf (← tableOfJson (← field j "a")) (← tableOfJson (← field j "b"))))
  | "expand" =>
    pure (jTable (expandEntries (← tableOfJson (← field j "table")) (← opt j "ignore" asW)))
  | "commonxs" => pure (jW (commonXs (← tableOfJson (← field j "table"))))
  | "intersect" =>
    pure (Json.bool (intersect (← asW (← field j "ka")) (← asW (← field j "ma"))
      (← asW (← field j "kb")) (← asW (← field j "mb"))))
  | "classify" =>
    -- is `a` in the domain where `table_is_subset_of` is proved exact?
    let a ← tableOfJson (← field j "a")
    pure (Json.mkObj [("wf", Json.bool (wellFormedB a)), ("orth", Json.bool (orthogonalB a))])
  | "aliasok" =>
    let T ← tableOfJson (← field j "table")
    let A ← aliasesOfJson (← field j "aliases")
    let S := sortTable T
    if (varyingBits (S ++ aliasEntries A)).length > 16 then .error "aliasok: more than 16 varying bits"
    else match aliasOkBrute S A with
      | none => pure (Json.mkObj [("ok", Json.bool true)])
      | some k => pure (Json.mkObj [("ok", Json.bool false), ("key", jW k)])
  | "core" => pure (jExc (routesCore (← int j "num")))
  | "route" =>
    let r ← nat j "value"
    pure (Json.mkObj [("value", jExc (routesOfValue r)), ("is_link", Json.bool (isLink r)),
      ("is_core", Json.bool (isCore r)), ("core_num", jExc (coreNum r)),
      ("opposite", jExc (routeOpposite r)), ("initial", Json.str (routeInitial r))])
  | "members" =>
    pure (jList (Rig.Gen.C04Routes.members.map (fun p => jPair (Json.str p.1) (jNat p.2))))
  | "entry" =>
    let e := mkEntry (← nats j "route") (← asW (← field j "key")) (← asW (← field j "mask"))
      (← opt j "sources" (fun v => do (← asArr v).mapM asNat))
    pure (Json.mkObj [("entry", jEntry e), ("str", Json.str (entryStr e))])
  | _ => .error s!"unknown op {op}"

end Rig.C04U
