/-
C05 - model of rig/place_and_route/allocate/greedy.py (`allocate`) with
allocate/utils.py (`slices_overlap`, `align`), the two constraint classes it
reads (`ReserveResourceConstraint`, `AlignResourceConstraint`) and
`Machine.__contains__` / `Machine.__getitem__`.

Python objects:
* a resource identifier, a vertex: any hashable -> `Nat` identifiers;
* a chip `(x, y)` -> `Int × Int`;  `slice(start, stop)` -> `Slice`;
* a `dict` -> association list in insertion order (CPython >= 3.7 iterates a
  dict in insertion order; keys are unique - hypothesis `WellFormed`);
* every exception the code can raise is a constructor of `Err`.
-/
import RigModel.Model.Proto

namespace Rig.C05

abbrev Res := Nat
abbrev Vertex := Nat
abbrev Chip := Int × Int

structure Slice where
  start : Int
  stop : Int
  deriving Repr, DecidableEq

inductive Constraint where
  /-- `ReserveResourceConstraint(resource, reservation, location)` -/
  | reserve (res : Res) (r : Slice) (loc : Option Chip)
  /-- `AlignResourceConstraint(resource, alignment)` -/
  | align (res : Res) (a : Int)
  /-- any other constraint object (ignored by the allocator) -/
  | other
  deriving Repr, DecidableEq

structure Machine where
  width : Int
  height : Int
  chipResources : List (Res × Int)
  exceptions : List (Chip × List (Res × Int))
  dead : List Chip
  deriving Repr

structure Input where
  /-- `vertices_resources` : {vertex: {resource: requirement}} -/
  vr : List (Vertex × List (Res × Int))
  machine : Machine
  constraints : List Constraint
  /-- `placements` : {vertex: (x, y)} in iteration order -/
  placements : List (Vertex × Chip)
  deriving Repr

inductive Err where
  /-- `InsufficientResourceError("{resource} over-allocated on chip {xy}")` -/
  | insufficient (res : Res) (xy : Chip)
  /-- `KeyError`: resource unknown to the machine / vertex without resources entry -/
  | keyError
  /-- `IndexError`: `machine[xy]` for a chip that is dead or outside the machine -/
  | indexError
  /-- `ZeroDivisionError`: alignment 0 -/
  | zeroDivision
  /-- model artefact: loop fuel exhausted (proved impossible, `propose_no_fuel`) -/
  | fuel
  deriving Repr, DecidableEq

/-- one allocated range together with the request it answers -/
structure Entry where
  v : Vertex
  xy : Chip
  res : Res
  d : Int
  s : Slice
  deriving Repr, DecidableEq

/-! ### allocate/utils.py -/

/-- `slices_overlap` -/
def slicesOverlap (a b : Slice) : Bool :=
  decide (max a.start b.start < min a.stop b.stop)

/-- `align`: `((value + alignment - 1) // alignment) * alignment` (`//` is floor division) -/
def align (value alignment : Int) : Int :=
  (Int.fdiv (value + alignment - 1) alignment) * alignment

/-! ### machine.py -/

/-- `Machine.__contains__` for a chip -/
def Machine.contains (m : Machine) (xy : Chip) : Bool :=
  decide (0 ≤ xy.1 ∧ xy.1 < m.width ∧ 0 ≤ xy.2 ∧ xy.2 < m.height) && !(m.dead.contains xy)

/-- `Machine.__getitem__`: `none` is `IndexError` -/
def Machine.get (m : Machine) (xy : Chip) : Option (List (Res × Int)) :=
  if m.contains xy then some ((m.exceptions.lookup xy).getD m.chipResources) else none

/-- `machine[xy][resource]` when it exists -/
def capacity (m : Machine) (xy : Chip) (res : Res) : Option Int :=
  (m.get xy).bind (·.lookup res)

/-! ### greedy.py: constraint collection

`globally_reserved[resource]` is the list of the reservations of all global
`ReserveResourceConstraint`s for that resource in constraint order,
`locally_reserved[xy][resource]` likewise for location `xy`;
`alignments[resource]` is the alignment of the last `AlignResourceConstraint`
for the resource, default 1. -/

def globalRes (cs : List Constraint) (res : Res) : List Slice :=
  cs.filterMap fun c => match c with
    | .reserve r s none => if r = res then some s else none
    | _ => none

def localRes (cs : List Constraint) (xy : Chip) (res : Res) : List Slice :=
  cs.filterMap fun c => match c with
    | .reserve r s (some l) => if l = xy ∧ r = res then some s else none
    | _ => none

def alignment (cs : List Constraint) (res : Res) : Int :=
  cs.foldl (fun a c => match c with
    | .align r al => if r = res then al else a
    | _ => a) 1

/-! ### greedy.py: the proposal loop -/

/-- the two `for reservation in ...` loops: every overlapping reservation (in
list order) sets the pointer to its `stop` and raises the flag -/
def scan (prop : Slice) (rs : List Slice) (st : Int × Bool) : Int × Bool :=
  rs.foldl (fun st r => if slicesOverlap prop r then (r.stop, true) else st) st

inductive PErr where
  | insufficient
  | fuel
  deriving Repr, DecidableEq

/-- `while proposal_overlaps:` with pointer `p`; returns the accepted `start` -/
def proposeLoop (a cap d : Int) (g l : List Slice) : Nat → Int → Except PErr Int
  | 0, _ => .error .fuel
  | f + 1, p =>
    let start := align p a
    let prop : Slice := ⟨start, start + d⟩
    if prop.stop > cap then .error .insufficient
    else
      let st := scan prop l (scan prop g (p, false))
      if st.2 then proposeLoop a cap d g l f st.1 else .ok start

/-- enough fuel for every run with `a ≥ 1`, `d ≥ 0` (theorem `propose_no_fuel`) -/
def fuelFor (cap p : Int) : Nat := (cap - p).toNat + 2

/-- per-chip `resource_pointers`; its key set is `machine.chip_resources` and never
changes, so the dict is modelled as a total function plus the key test in `allocOne` -/
abbrev Ptrs := Res → Int

def setPtr (ptrs : Ptrs) (res : Res) (p : Int) : Ptrs := fun r => if r = res then p else ptrs r

/-- body of `for resource, requirement in iteritems(vertices_resources[vertex])` -/
def allocOne (inp : Input) (xy : Chip) (v : Vertex) (res : Res) (d : Int) (ptrs : Ptrs) :
    Except Err (Ptrs × Entry) :=
  -- resource_pointers[resource]
  if !(inp.machine.chipResources.any (·.1 == res)) then .error .keyError else
  let a := alignment inp.constraints res
  -- align(): division by the alignment
  if a = 0 then .error .zeroDivision else
  -- machine[xy]
  match inp.machine.get xy with
  | none => .error .indexError
  | some rsrc =>
    -- machine[xy][resource]
    match rsrc.lookup res with
    | none => .error .keyError
    | some cap =>
      match proposeLoop a cap d (globalRes inp.constraints res) (localRes inp.constraints xy res)
              (fuelFor cap (ptrs res)) (ptrs res) with
      | .error .insufficient => .error (.insufficient res xy)
      | .error .fuel => .error .fuel
      | .ok start =>
        .ok (setPtr ptrs res (start + d), ⟨v, xy, res, d, ⟨start, start + d⟩⟩)

/-- `for resource, requirement in iteritems(vertices_resources[vertex])` -/
def allocResources (inp : Input) (xy : Chip) (v : Vertex) :
    List (Res × Int) → Ptrs → Except Err (Ptrs × List Entry)
  | [], ptrs => .ok (ptrs, [])
  | (res, d) :: rest, ptrs =>
    match allocOne inp xy v res d ptrs with
    | .error e => .error e
    | .ok (ptrs', e) =>
      match allocResources inp xy v rest ptrs' with
      | .error e => .error e
      | .ok (ptrs'', es) => .ok (ptrs'', e :: es)

/-- `for vertex in chip_vertices` -/
def allocVertices (inp : Input) (xy : Chip) :
    List Vertex → Ptrs → Except Err (List (Vertex × List Entry))
  | [], _ => .ok []
  | v :: vs, ptrs =>
    match inp.vr.lookup v with
    | none => .error .keyError
    | some rs =>
      match allocResources inp xy v rs ptrs with
      | .error e => .error e
      | .ok (ptrs', es) =>
        match allocVertices inp xy vs ptrs' with
        | .error e => .error e
        | .ok rest => .ok ((v, es) :: rest)

/-- keys of `chip_contents` in insertion order: first occurrences -/
def dedup : List Chip → List Chip
  | [] => []
  | x :: xs => x :: (dedup xs).filter (· != x)

def chipOrder (inp : Input) : List Chip := dedup (inp.placements.map (·.2))

/-- `chip_contents[xy]` -/
def chipVertices (inp : Input) (xy : Chip) : List Vertex :=
  (inp.placements.filter (·.2 == xy)).map (·.1)

/-- `for xy, chip_vertices in iteritems(chip_contents)` -/
def allocChips (inp : Input) : List Chip → Except Err (List (Vertex × List Entry))
  | [] => .ok []
  | xy :: rest =>
    match allocVertices inp xy (chipVertices inp xy) (fun _ => 0) with
    | .error e => .error e
    | .ok a =>
      match allocChips inp rest with
      | .error e => .error e
      | .ok b => .ok (a ++ b)

/-- `allocate(vertices_resources, nets, machine, constraints, placements)` -/
def allocate (inp : Input) : Except Err (List (Vertex × List Entry)) :=
  allocChips inp (chipOrder inp)

/-- what the caller sees: `{vertex: {resource: slice}}` -/
abbrev Alloc := List (Vertex × List (Res × Slice))

def strip (out : List (Vertex × List Entry)) : Alloc :=
  out.map fun (v, es) => (v, es.map fun e => (e.res, e.s))

/-! ### Specification (the property; written independently of the algorithm) -/

/-- two ranges overlap: they have an index in common (`overlaps_iff_common`) -/
def Overlaps (a b : Slice) : Prop := max a.start b.start < min a.stop b.stop

instance (a b : Slice) : Decidable (Overlaps a b) := by unfold Overlaps; infer_instance

/-- all reservations that apply to `res` on chip `xy` -/
def reserved (cs : List Constraint) (xy : Chip) (res : Res) : List Slice :=
  globalRes cs res ++ localRes cs xy res

/-- a range `s` given for a request of `d` units of `res` on chip `xy` -/
def GoodRange (inp : Input) (xy : Chip) (res : Res) (d : Int) (s : Slice) : Prop :=
  s.stop - s.start = d ∧ 0 ≤ s.start ∧
  (∃ c, capacity inp.machine xy res = some c ∧ s.stop ≤ c) ∧
  s.start % alignment inp.constraints res = 0 ∧
  ∀ r ∈ reserved inp.constraints xy res, ¬ Overlaps s r

instance (inp xy res d s) : Decidable (GoodRange inp xy res d s) := by
  unfold GoodRange
  have : Decidable (∃ c, capacity inp.machine xy res = some c ∧ s.stop ≤ c) :=
    match h : capacity inp.machine xy res with
    | none => isFalse (by simp)
    | some c => if h' : s.stop ≤ c then isTrue ⟨c, rfl, h'⟩
                else isFalse (by intro ⟨c', hc, hle⟩; cases hc; exact h' hle)
  infer_instance

/-- the ranges as triples (vertex, resource, range) -/
def flat (out : Alloc) : List (Vertex × Res × Slice) :=
  out.flatMap fun (v, va) => va.map fun (res, s) => (v, res, s)

/-- every request of every placed vertex is answered by a good range -/
def Served (inp : Input) (out : Alloc) : Prop :=
  ∀ p ∈ inp.placements, ∀ q ∈ inp.vr, q.1 = p.1 → ∀ rd ∈ q.2,
    ∃ t ∈ flat out, t.1 = p.1 ∧ t.2.1 = rd.1 ∧ GoodRange inp p.2 rd.1 rd.2 t.2.2

/-- every range handed out answers a request and is good -/
def Justified (inp : Input) (out : Alloc) : Prop :=
  ∀ t ∈ flat out, ∃ p ∈ inp.placements, p.1 = t.1 ∧ ∃ q ∈ inp.vr, q.1 = t.1 ∧
    ∃ rd ∈ q.2, rd.1 = t.2.1 ∧ GoodRange inp p.2 rd.1 rd.2 t.2.2

/-- ranges of the same resource given to different vertices on one chip are disjoint -/
def DisjointPerChip (inp : Input) (out : Alloc) : Prop :=
  ∀ t1 ∈ flat out, ∀ t2 ∈ flat out, t1.1 ≠ t2.1 → t1.2.1 = t2.2.1 →
    (∃ p1 ∈ inp.placements, ∃ p2 ∈ inp.placements, p1.1 = t1.1 ∧ p2.1 = t2.1 ∧ p1.2 = p2.2) →
    ¬ Overlaps t1.2.2 t2.2.2

/-- the result has exactly the placed vertices as keys -/
def SameKeys (inp : Input) (out : Alloc) : Prop :=
  (∀ p ∈ inp.placements, ∃ o ∈ out, o.1 = p.1) ∧ (∀ o ∈ out, ∃ p ∈ inp.placements, p.1 = o.1)

/-- **the property** on a returned allocation -/
def Valid (inp : Input) (out : Alloc) : Prop :=
  SameKeys inp out ∧ Served inp out ∧ Justified inp out ∧ DisjointPerChip inp out

instance (inp out) : Decidable (Served inp out) := by unfold Served; infer_instance
instance (inp out) : Decidable (Justified inp out) := by unfold Justified; infer_instance
/-- decision procedure for `DisjointPerChip` that looks at the (cheap) overlap test first and
finds the chips with short-circuiting lookups: quadratic in the number of ranges when no two
ranges overlap (the same proposition is decided, see the `iff`) -/
instance (inp out) : Decidable (DisjointPerChip inp out) :=
  decidable_of_iff
    (∀ t1 ∈ flat out, ∀ t2 ∈ flat out, Overlaps t1.2.2 t2.2.2 → t1.1 ≠ t2.1 → t1.2.1 = t2.2.1 →
      ¬ ∃ p1 ∈ inp.placements, p1.1 = t1.1 ∧ ∃ p2 ∈ inp.placements, p2.1 = t2.1 ∧ p1.2 = p2.2)
    (by
      unfold DisjointPerChip
      constructor
      · intro h t1 h1 t2 h2 hne hres hex hov
        obtain ⟨p1, hp1, p2, hp2, k1, k2, hs⟩ := hex
        exact h t1 h1 t2 h2 hov hne hres ⟨p1, hp1, k1, p2, hp2, k2, hs⟩
      · intro h t1 h1 t2 h2 hov hne hres hex
        obtain ⟨p1, hp1, k1, p2, hp2, k2, hs⟩ := hex
        exact h t1 h1 t2 h2 hne hres ⟨p1, hp1, p2, hp2, k1, k2, hs⟩ hov)
instance (inp out) : Decidable (SameKeys inp out) := by unfold SameKeys; infer_instance
set_option synthInstance.maxSize 512 in
instance (inp out) : Decidable (Valid inp out) := by unfold Valid; infer_instance

/-- the inputs are dictionaries, requirements are non-negative, alignments positive -/
structure WellFormed (inp : Input) : Prop where
  placementsNodup : (inp.placements.map (·.1)).Nodup
  vrNodup : (inp.vr.map (·.1)).Nodup
  resNodup : ∀ q ∈ inp.vr, (q.2.map (·.1)).Nodup
  demandNonneg : ∀ q ∈ inp.vr, ∀ rd ∈ q.2, 0 ≤ rd.2
  alignPos : ∀ c ∈ inp.constraints, ∀ r a, c = .align r a → 1 ≤ a

/-- documented domain of the call: every placed vertex has a resources entry, sits on
a live chip, and every resource it names is known to the machine (and to the chip's
exception entry) -/
structure InDomain (inp : Input) : Prop where
  placedKnown : ∀ p ∈ inp.placements, ∃ q ∈ inp.vr, q.1 = p.1
  chipLive : ∀ p ∈ inp.placements, inp.machine.contains p.2 = true
  resKnown : ∀ p ∈ inp.placements, ∀ q ∈ inp.vr, q.1 = p.1 → ∀ rd ∈ q.2,
    inp.machine.chipResources.any (·.1 == rd.1) = true ∧
    ∃ c, capacity inp.machine p.2 rd.1 = some c

/-! #### the completeness clause -/

/-- total demand for `res` of the vertices placed on `xy` -/
def demand (inp : Input) (xy : Chip) (res : Res) : Int :=
  ((chipVertices inp xy).map fun v =>
    ((((inp.vr.lookup v).getD []).filter (·.1 == res)).map (·.2)).sum).sum

/-- the free window left by reservations that sit at the two ends of `[0, cap)` -/
def windowLo (rs : List Slice) : Int :=
  rs.foldl (fun lo r => if r.start < r.stop ∧ r.start ≤ 0 then max lo r.stop else lo) 0

def windowHi (cap : Int) (rs : List Slice) : Int :=
  rs.foldl (fun hi r => if r.start < r.stop ∧ ¬ r.start ≤ 0 then min hi r.start else hi) cap

/-- reservation `r` sits at an end of `[0, cap)` (or is empty) -/
def AtEnd (cap : Int) (r : Slice) : Prop := r.stop ≤ r.start ∨ r.start ≤ 0 ∨ cap ≤ r.stop

instance (cap r) : Decidable (AtEnd cap r) := by unfold AtEnd; infer_instance

/-- hypothesis of the completeness clause for one chip and resource: no alignment,
reservations only at the ends, and the demand fits between them -/
def FeasibleAt (inp : Input) (xy : Chip) (res : Res) : Prop :=
  alignment inp.constraints res = 1 ∧
  ∃ cap, capacity inp.machine xy res = some cap ∧
    (∀ r ∈ reserved inp.constraints xy res, AtEnd cap r) ∧
    demand inp xy res ≤ windowHi cap (reserved inp.constraints xy res)
                        - windowLo (reserved inp.constraints xy res)

instance (inp xy res) : Decidable (FeasibleAt inp xy res) := by
  unfold FeasibleAt
  have : Decidable (∃ cap, capacity inp.machine xy res = some cap ∧
      (∀ r ∈ reserved inp.constraints xy res, AtEnd cap r) ∧
      demand inp xy res ≤ windowHi cap (reserved inp.constraints xy res)
                        - windowLo (reserved inp.constraints xy res)) :=
    match h : capacity inp.machine xy res with
    | none => isFalse (by simp)
    | some c =>
      if h' : (∀ r ∈ reserved inp.constraints xy res, AtEnd c r) ∧
          demand inp xy res ≤ windowHi c (reserved inp.constraints xy res)
                        - windowLo (reserved inp.constraints xy res) then isTrue ⟨c, rfl, h'⟩
      else isFalse (by intro ⟨c', hc, hle⟩; cases hc; exact h' hle)
  infer_instance

/-- feasible placement without alignment and with reservations only at the ends -/
def Feasible (inp : Input) : Prop :=
  ∀ p ∈ inp.placements, ∀ q ∈ inp.vr, q.1 = p.1 → ∀ rd ∈ q.2, FeasibleAt inp p.2 rd.1

instance (inp) : Decidable (Feasible inp) := by unfold Feasible; infer_instance

def Constraint.alignOk : Constraint → Bool
  | .align _ a => decide (1 ≤ a)
  | _ => true

instance (inp) : Decidable (WellFormed inp) :=
  if h : (inp.placements.map (·.1)).Nodup ∧ (inp.vr.map (·.1)).Nodup ∧
      (∀ q ∈ inp.vr, (q.2.map (·.1)).Nodup) ∧ (∀ q ∈ inp.vr, ∀ rd ∈ q.2, 0 ≤ rd.2) ∧
      (∀ c ∈ inp.constraints, c.alignOk = true) then
    isTrue ⟨h.1, h.2.1, h.2.2.1, h.2.2.2.1, by
      intro c hc r a e; have := h.2.2.2.2 c hc; subst e; simpa [Constraint.alignOk] using this⟩
  else isFalse (by
    intro w; apply h
    refine ⟨w.1, w.2, w.3, w.4, ?_⟩
    intro c hc
    cases c with
    | align r a => simpa [Constraint.alignOk] using w.5 _ hc r a rfl
    | reserve => rfl
    | other => rfl)

instance (inp) : Decidable (InDomain inp) :=
  if h : (∀ p ∈ inp.placements, ∃ q ∈ inp.vr, q.1 = p.1) ∧
      (∀ p ∈ inp.placements, inp.machine.contains p.2 = true) ∧
      (∀ p ∈ inp.placements, ∀ q ∈ inp.vr, q.1 = p.1 → ∀ rd ∈ q.2,
        inp.machine.chipResources.any (·.1 == rd.1) = true ∧
        (capacity inp.machine p.2 rd.1).isSome = true) then
    isTrue ⟨h.1, h.2.1, by
      intro p hp q hq e rd hrd
      have := h.2.2 p hp q hq e rd hrd
      exact ⟨this.1, Option.isSome_iff_exists.mp this.2⟩⟩
  else isFalse (by
    intro w; apply h
    refine ⟨w.1, w.2, ?_⟩
    intro p hp q hq e rd hrd
    have := w.3 p hp q hq e rd hrd
    exact ⟨this.1, Option.isSome_iff_exists.mpr this.2⟩)

/-! ### line protocol -/
open Lean Rig.P

def asChip (j : Json) : R Chip := asPair j asInt asInt

def asResList (j : Json) : R (List (Res × Int)) := do
  (← asArr j).mapM fun e => asPair e asNat asInt

def constraintOfJson (j : Json) : R Constraint := do
  match ← str j "k" with
  | "reserve" =>
    pure (.reserve (← nat j "res") ⟨← int j "start", ← int j "stop"⟩ (← opt j "loc" asChip))
  | "align" => pure (.align (← nat j "res") (← int j "a"))
  | _ => pure .other

def machineOfJson (j : Json) : R Machine := do
  pure { width := ← int j "width", height := ← int j "height",
         chipResources := ← asResList (← field j "chip_resources"),
         exceptions := ← (← arr j "exceptions").mapM fun e => asPair e asChip asResList,
         dead := ← (← arr j "dead").mapM asChip }

def inputOfJson (j : Json) : R Input := do
  pure { vr := ← (← arr j "vr").mapM fun e => asPair e asNat asResList,
         machine := ← machineOfJson (← field j "machine"),
         constraints := ← (← arr j "constraints").mapM constraintOfJson,
         placements := ← (← arr j "placements").mapM fun e => asPair e asNat asChip }

def asTriple (j : Json) : R (Res × Slice) := do
  match ← asArr j with
  | [a, b, c] => pure (← asNat a, ⟨← asInt b, ← asInt c⟩)
  | _ => .error "expected [res, start, stop]"

def allocOfJson (j : Json) : R Alloc := do
  (← asArr j).mapM fun e => asPair e asNat fun va => do (← asArr va).mapM asTriple

def allocToJson (a : Alloc) : Json :=
  jList (a.map fun (v, va) =>
    jPair (jNat v) (jList (va.map fun (r, s) => jList [jNat r, jInt s.start, jInt s.stop])))

def errToJson : Err → Json
  | .insufficient res xy => Json.mkObj [("err", Json.str "InsufficientResourceError"),
      ("res", jNat res), ("xy", jPair (jInt xy.1) (jInt xy.2))]
  | .keyError => jErr "KeyError"
  | .indexError => jErr "IndexError"
  | .zeroDivision => jErr "ZeroDivisionError"
  | .fuel => jErr "MODEL-FUEL"

def handle (op : String) (j : Json) : R Json := do
  match op with
  | "allocate" =>
    match allocate (← inputOfJson j) with
    | .ok out => pure (jOk (allocToJson (strip out)))
    | .error e => pure (errToJson e)
  | "valid" =>
    -- the property oracle on an allocation returned by the implementation
    let inp ← inputOfJson j
    let out ← allocOfJson (← field j "out")
    -- `Valid` is the conjunction of the four clauses (definition of `Valid`)
    let a := decide (SameKeys inp out)
    let b := decide (Served inp out)
    let c := decide (Justified inp out)
    let d := decide (DisjointPerChip inp out)
    pure (Json.mkObj [("valid", Json.bool (a && b && c && d)),
      ("same_keys", Json.bool a), ("served", Json.bool b),
      ("justified", Json.bool c), ("disjoint", Json.bool d)])
  | "hyps" =>
    let inp ← inputOfJson j
    pure (Json.mkObj [("well_formed", Json.bool (decide (WellFormed inp))),
      ("in_domain", Json.bool (decide (InDomain inp))),
      ("feasible", Json.bool (decide (Feasible inp)))])
  | "hyps_domain" =>
    -- for very large problems: `Feasible` (cubic) is not evaluated
    let inp ← inputOfJson j
    pure (Json.mkObj [("well_formed", Json.bool (decide (WellFormed inp))),
      ("in_domain", Json.bool (decide (InDomain inp))),
      ("feasible", Json.bool false)])
  | "overlap" =>
    pure (Json.bool (slicesOverlap ⟨← int j "a0", ← int j "a1"⟩ ⟨← int j "b0", ← int j "b1"⟩))
  | "align" => pure (jInt (align (← int j "v") (← int j "a")))
  | _ => .error s!"unknown op {op}"

end Rig.C05
