/-
C03 - model of rig/place_and_route/route/ner.py (ner_net, copy_and_disconnect_tree,
a_star, route_has_dead_links, avoid_dead_links, route), route/utils.py
(longest_dimension_first, links_between), the geometry helpers they call
(rig/geometry.py) and Machine.__contains__ / has_wrap_around_links (machine.py).

Conventions
* chips are `Int × Int` (the code computes with unreduced coordinates before `%`);
  Python `%` with a positive modulus is Lean's `%` on `Int` (Euclidean), `//` is `/`.
* A mutable graph of `RoutingTree` objects reachable through a `{chip: node}` dict is a
  `Forest`: an insertion-ordered association list chip ↦ children `(direction, child chip)`.
  One node object per chip; the (impossible in the unmutated code) creation of a second node
  for a chip that already has one is the explicit error `dupNode`.
* every `random.random()` / `random.randint()` the code calls is read from a *tape*
  (oracle input): a draw `k` stands for the float `k / 2^20` (so `|m| + r` is exact),
  a `randint` entry must lie in the requested range (`badDraw` otherwise).
* set iteration orders (destinations, broken links) are oracle inputs as well.
* loops whose termination depends on the data (`while to_visit`, recursion over the
  object graph) take fuel; running out of fuel is the explicit error `fuel`.
-/
import RigModel.Model.Proto
import RigModel.Gen.C03Links

namespace Rig.C03
open Rig.Gen.C03Links

abbrev Chip := Int × Int

inductive Err where
  | disconnected   -- MachineHasDisconnectedSubregion
  | tape           -- oracle tape exhausted
  | badDraw        -- oracle draw outside its legal range
  | keyError       -- dict lookup of a missing key
  | dupNode        -- a second node object for a chip that already has one
  | assertFail     -- an `assert` of the code fails
  | fuel           -- fuel exhausted (would be non-termination / RecursionError)
  | badOracle      -- broken-link order is not an ordering of the broken-link set
  | typeError      -- subscripting None
  deriving Repr, DecidableEq

def Err.name : Err → String
  | .disconnected => "Disconnected" | .tape => "tape" | .badDraw => "badDraw"
  | .keyError => "KeyError" | .dupNode => "dupNode" | .assertFail => "AssertionError"
  | .fuel => "fuel" | .badOracle => "badOracle" | .typeError => "TypeError"

structure Machine where
  w : Nat
  h : Nat
  deadChips : List Chip
  deadLinks : List (Chip × Nat)
  deriving Repr

/-- `(x, y) in machine` -/
def chipOk (m : Machine) (c : Chip) : Bool :=
  decide (0 ≤ c.1) && decide (c.1 < (m.w : Int)) && decide (0 ≤ c.2) && decide (c.2 < (m.h : Int))
    && !(m.deadChips.contains c)

/-- `(x, y, link) in machine` -/
def linkOk (m : Machine) (c : Chip) (l : Nat) : Bool :=
  chipOk m c && !(m.deadLinks.contains (c, l))

/-- `Links(l).to_vector()` -/
def vec (l : Nat) : Int × Int := linkVecs.getD l (0, 0)
/-- `Links(l).opposite` -/
def opp (l : Nat) : Nat := oppositeTable.getD l 0
/-- `Links.from_vector` for vectors with components in -1..1 -/
def fromVec (v : Int × Int) : Option Nat := fromVectorTable.lookup v

def wrapC (w h : Nat) (c : Chip) : Chip := (c.1 % (w : Int), c.2 % (h : Int))

/-- the chip reached from `c` over link `l`, modulo the machine dimensions -/
def step (m : Machine) (c : Chip) (l : Nat) : Chip :=
  wrapC m.w m.h (c.1 + (vec l).1, c.2 + (vec l).2)

def b2n (b : Bool) : Nat := if b then 1 else 0

/-- number of working wrap-around links counted by `Machine.has_wrap_around_links`
(east 0, north_east 1, north 2, west 3, south_west 4, south 5) -/
def wrapWorking (m : Machine) : Nat :=
  let H : Int := (m.h : Int) - 1
  let W : Int := (m.w : Int) - 1
  ((List.range m.w).map fun (x : Nat) =>
      b2n (linkOk m ((x : Int), 0) 5) + b2n (linkOk m ((x : Int), H) 2) +
      b2n (linkOk m ((x : Int), 0) 4) + b2n (linkOk m ((x : Int), H) 1)).sum +
  ((List.range m.h).map fun (y : Nat) =>
      b2n (linkOk m (0, (y : Int)) 3) + b2n (linkOk m (W, (y : Int)) 0) +
      b2n (y != 0 && linkOk m (0, (y : Int)) 4) +
      b2n (y + 1 != m.h && linkOk m (W, (y : Int)) 1)).sum

/-- `machine.has_wrap_around_links()` (default threshold 0.9) -/
def hasWrap (m : Machine) : Bool :=
  decide (9 * (4 * m.w + 4 * m.h - 2) ≤ 10 * wrapWorking m)

/-! ### geometry -/

/-- `shortest_mesh_path_length(to_xyz a, to_xyz b)` -/
def meshLen (a b : Chip) : Int :=
  let x := b.1 - a.1
  let y := b.2 - a.2
  let z : Int := 0
  let maximum := x
  let maximum := if y > maximum then y else maximum
  let maximum := if z > maximum then z else maximum
  let minimum := x
  let minimum := if y < minimum then y else minimum
  let minimum := if z < minimum then z else minimum
  maximum - minimum

/-- `shortest_torus_path_length(to_xyz a, to_xyz b, w, h)` -/
def torusLen (a b : Chip) (w h : Nat) : Int :=
  let x := (b.1 - a.1) % (w : Int)
  let y := (b.2 - a.2) % (h : Int)
  let length := if x > y then x else y
  let wrapX := (w : Int) - x + y
  let length := if wrapX < length then wrapX else length
  let wrapY := x + (h : Int) - y
  let length := if wrapY < length then wrapY else length
  let dx := (w : Int) - x
  let dy := (h : Int) - y
  let wrapXY := if dx > dy then dx else dy
  if wrapXY < length then wrapXY else length

def dist (wrap : Bool) (w h : Nat) (a b : Chip) : Int :=
  if wrap then torusLen a b w h else meshLen a b

abbrev V3 := Int × Int × Int

/-- `minimise_xyz` -/
def minimise (v : V3) : V3 :=
  let x := v.1
  let y := v.2.1
  let z := v.2.2
  let m := max (min x y) (min (max x y) z)
  (x - m, y - m, z - m)

/-- `shortest_mesh_path(to_xyz a, to_xyz b)` -/
def meshPath (a b : Chip) : V3 := minimise (b.1 - a.1, b.2 - a.2, 0)

abbrev Tape := List Int
def SCALE : Int := 1048576

/-- one `random.random()` -/
def draw (t : Tape) : Except Err (Int × Tape) :=
  match t with
  | [] => .error .tape
  | r :: t => if 0 ≤ r ∧ r < SCALE then .ok (r, t) else .error .badDraw

/-- one `random.randint(lo, hi)` -/
def drawInt (lo hi : Int) (t : Tape) : Except Err (Int × Tape) :=
  match t with
  | [] => .error .tape
  | r :: t => if lo ≤ r ∧ r ≤ hi then .ok (r, t) else .error .badDraw

/-- `min(l, key=...)`: the first element with the least key -/
def firstMin (key : α → Int) : α → List α → α
  | best, [] => best
  | best, x :: r => if key x < key best then firstMin key x r else firstMin key best r

/-- `shortest_torus_path(to_xyz a, to_xyz b, w, h)` -/
def torusPath (a b : Chip) (w h : Nat) (t : Tape) : Except Err (V3 × Tape) := do
  let W : Int := w
  let H : Int := h
  let dx := (b.1 - a.1) % W
  let dy := (b.2 - a.2) % H
  let (r0, t) ← draw t
  let (r1, t) ← draw t
  let (r2, t) ← draw t
  let (r3, t) ← draw t
  let a0 : Int × V3 := (max dx dy * SCALE + r0, (dx, dy, 0))
  let a1 : Int × V3 := ((W - dx + dy) * SCALE + r1, (-(W - dx), dy, 0))
  let a2 : Int × V3 := ((dx + H - dy) * SCALE + r2, (dx, -(H - dy), 0))
  let a3 : Int × V3 := (max (W - dx) (H - dy) * SCALE + r3, (-(W - dx), -(H - dy), 0))
  let best := firstMin (fun (p : Int × V3) => p.1) a0 [a1, a2, a3]
  let v := minimise best.2
  let x := v.1
  let y := v.2.1
  let z := v.2.2
  if x.natAbs ≥ h then
    let ms := (if x < 0 then x + H - 1 else x) / H
    let (k, t) ← drawInt (min 0 ms) (max 0 ms) t
    let d := k * H
    pure ((x - d, y, z - d), t)
  else if y.natAbs ≥ w then
    let ms := (if y < 0 then y + W - 1 else y) / W
    let (k, t) ← drawInt (min 0 ms) (max 0 ms) t
    let d := k * W
    pure ((x, y - d, z - d), t)
  else
    pure ((x, y, z), t)

def hexDirs : List (Int × Int) := [(1, 1), (0, 1), (-1, 0), (-1, -1), (0, -1), (1, 0)]

/-- one ring of `concentric_hexagons`; state = (current position, reversed output) -/
def hexRing (r : Nat) (s : Chip × List Chip) : Chip × List Chip :=
  let s : Chip × List Chip := ((s.1.1, s.1.2 - 1), s.2)
  hexDirs.foldl (fun s d =>
    (List.range r).foldl (fun (s : Chip × List Chip) _ => ((s.1.1 + d.1, s.1.2 + d.2), s.1 :: s.2)) s) s

/-- `list(concentric_hexagons(radius))` -/
def concentricHexagons (radius : Nat) : List Chip :=
  ((List.range radius).foldl (fun s i => hexRing (i + 1) s) (((0, 0) : Chip), [((0, 0) : Chip)])).2.reverse

/-! ### stable sorts (`sorted(..., key=...)`, `sorted(..., key=..., reverse=True)`) -/

def insertAsc (k : α → Int) (x : α) : List α → List α
  | [] => [x]
  | y :: r => if k x < k y then x :: y :: r else y :: insertAsc k x r

def sortAsc (k : α → Int) (l : List α) : List α := l.foldl (fun acc x => insertAsc k x acc) []

def insertDesc (k : α → Int) (x : α) : List α → List α
  | [] => [x]
  | y :: r => if k y < k x then x :: y :: r else y :: insertDesc k x r

def sortDesc (k : α → Int) (l : List α) : List α := l.foldl (fun acc x => insertDesc k x acc) []

/-! ### longest_dimension_first -/

/-- `n` hops in direction `(dx, dy)` starting after `pos` -/
def walk (w h : Nat) (dir : Nat) (dx dy : Int) : Nat → Chip → List (Nat × Chip)
  | 0, _ => []
  | n + 1, pos =>
    let p := wrapC w h (pos.1 + dx, pos.2 + dy)
    (dir, p) :: walk w h dir dx dy n p

def walkEnd (w h : Nat) (dx dy : Int) : Nat → Chip → Chip
  | 0, pos => pos
  | n + 1, pos => walkEnd w h dx dy n (wrapC w h (pos.1 + dx, pos.2 + dy))

def dimDelta (dim : Nat) (mag : Int) : Int × Int :=
  let sign : Int := if mag > 0 then 1 else -1
  match dim with
  | 0 => (sign, 0)
  | 1 => (0, sign)
  | _ => (-sign, -sign)

def ldfGo (w h : Nat) : List (Nat × Int) → Chip → Except Err (List (Nat × Chip))
  | [], _ => pure []
  | (dim, mag) :: rest, pos =>
    if mag == 0 then pure []     -- `break`
    else
      let d := dimDelta dim mag
      match fromVec d with
      | none => .error .keyError
      | some dir => do
        let r ← ldfGo w h rest (walkEnd w h d.1 d.2 mag.natAbs pos)
        pure (walk w h dir d.1 d.2 mag.natAbs pos ++ r)

/-- `longest_dimension_first(vector, start, width, height)` -/
def ldf (v : V3) (start : Chip) (w h : Nat) (t : Tape) : Except Err (List (Nat × Chip) × Tape) := do
  let (r0, t) ← draw t
  let (r1, t) ← draw t
  let (r2, t) ← draw t
  let items : List ((Nat × Int) × Int) :=
    [((0, v.1), (Int.natAbs v.1 : Int) * SCALE + r0), ((1, v.2.1), (Int.natAbs v.2.1 : Int) * SCALE + r1),
     ((2, v.2.2), (Int.natAbs v.2.2 : Int) * SCALE + r2)]
  let sorted := sortDesc (fun (p : (Nat × Int) × Int) => p.2) items
  let out ← ldfGo w h (sorted.map (·.1)) start
  pure (out, t)

/-! ### forests -/

abbrev Forest := List (Chip × List (Nat × Chip))

def Forest.has (f : Forest) (c : Chip) : Bool := f.any (fun e => e.1 == c)
def Forest.kids (f : Forest) (c : Chip) : List (Nat × Chip) :=
  match f.find? (fun e => e.1 == c) with
  | some e => e.2
  | none => []
def Forest.keys (f : Forest) : List Chip := f.map (·.1)
/-- `d[c] = RoutingTree(c)` for a key not yet present -/
def Forest.insertNew (f : Forest) (c : Chip) : Forest := f ++ [(c, [])]
/-- `d[p].children.append(e)` -/
def Forest.addChild (f : Forest) (p : Chip) (e : Nat × Chip) : Forest :=
  f.map fun n => if n.1 == p then (n.1, n.2 ++ [e]) else n

/-! ### ner_net -/

/-- neighbour search, original approach (spiral over the memoised hexagons) -/
def searchHex (route : Forest) (hexes : List Chip) (dest : Chip) (w h : Nat) (wrap : Bool) : Option Chip :=
  hexes.findSome? fun p =>
    let c : Chip := (p.1 + dest.1, p.2 + dest.2)
    let c := if wrap then wrapC w h c else c
    if route.has c then some c else none

/-- neighbour search, alternative approach (scan of all route nodes) -/
def searchScan (route : Forest) (dest : Chip) (w h : Nat) (wrap : Bool) (radius : Nat) : Option Chip :=
  (route.keys.foldl (fun (best : Option (Chip × Int)) cand =>
    let d := dist wrap w h cand dest
    if d ≤ (radius : Int) && (match best with | none => true | some b => decide (d < b.2)) then some (cand, d)
    else best) none).map (·.1)

/-- position of the last element of the path that is already a route node, and the path after it -/
def truncateLdf (route : Forest) : List (Nat × Chip) → Option (Chip × List (Nat × Chip))
  | [] => none
  | e :: r =>
    match truncateLdf route r with
    | some res => some res
    | none => if route.has e.2 then some (e.2, r) else none

def attachChain : List (Nat × Chip) → Forest → Chip → Except Err Forest
  | [], f, _ => pure f
  | (d, c) :: r, f, last =>
    if f.has c then .error .dupNode
    else attachChain r ((f.insertNew c).addChild last (d, c)) c

/-- the second half of the loop body: walk the longest-dimension-first route from the neighbour,
truncate it at its last intersection with the tree and hang the rest below that node -/
def nerAttach (route : Forest) (w h : Nat) (nb : Chip) (v : V3) (t : Tape) : Except Err (Forest × Tape) := do
  let (path, t) ← ldf v nb w h t
  let (nb, path) := (truncateLdf route path).getD (nb, path)
  let route ← attachChain path route nb
  pure (route, t)

def nerDest (src : Chip) (w h : Nat) (wrap : Bool) (radius : Nat) (hexes : List Chip)
    (st : Forest × Tape) (dest : Chip) : Except Err (Forest × Tape) := do
  let route := st.1
  let nb :=
    if 3 * hexes.length < route.length then searchHex route hexes dest w h wrap
    else searchScan route dest w h wrap radius
  let nb := nb.getD src
  let (v, t) ← if wrap then torusPath nb dest w h st.2 else pure (meshPath nb dest, st.2)
  nerAttach route w h nb v t

/-- `ner_net(source, destinations, width, height, wrap_around, radius)`; `dests` is the iteration
order of the destination set -/
def nerNet (src : Chip) (dests : List Chip) (w h : Nat) (wrap : Bool) (radius : Nat) (t : Tape) :
    Except Err (Forest × Tape) :=
  let sorted := sortAsc (fun d => dist wrap w h src d) dests
  let hexes := concentricHexagons radius
  sorted.foldlM (nerDest src w h wrap radius hexes) ([(src, [])], t)

/-- `route_has_dead_links` (every node of the generated forest is reachable from the root) -/
def routeHasDeadLinks (f : Forest) (m : Machine) : Bool :=
  f.any fun n => n.2.any fun e => !linkOk m n.1 e.1

/-! ### copy_and_disconnect_tree -/

/-- `links_between(a, b, machine)` -/
def linksBetween (m : Machine) (a b : Chip) : List Nat :=
  linkOrder.filter fun l => step m a l == b && linkOk m a l

structure CopyState where
  lookup : Forest
  broken : List (Chip × Chip)
  root : Option Chip
  deriving Repr

def CopyState.visit (m : Machine) (st : CopyState) (np : Option Chip) (dir : Nat) (oldc : Chip) :
    Except Err (Chip × CopyState) :=
  if chipOk m oldc then
    if st.lookup.has oldc then .error .dupNode
    else
      let st := { st with lookup := st.lookup.insertNew oldc }
      match np with
      | none => pure (oldc, { st with root := some oldc })
      | some p =>
        if (linksBetween m p oldc).contains dir then
          pure (oldc, { st with lookup := st.lookup.addChild p (dir, oldc) })
        else
          pure (oldc, { st with broken := if st.broken.contains (p, oldc) then st.broken else st.broken ++ [(p, oldc)] })
  else
    match np with
    | none => .error .assertFail      -- "Net cannot be sourced from a dead chip."
    | some p => pure (p, st)

/-- the `while to_visit` loop; queue entries are `(new_parent, direction, old_node)` -/
def copyLoop (old : Forest) (m : Machine) : Nat → List (Option Chip × Nat × Chip) → CopyState → Except Err CopyState
  | _, [], st => pure st
  | 0, _ :: _, _ => .error .fuel
  | fuel + 1, (np, dir, oldc) :: q, st => do
    let (newNode, st) ← st.visit m np dir oldc
    copyLoop old m fuel (q ++ (old.kids oldc).map fun e => (some newNode, e.1, e.2)) st

/-- `copy_and_disconnect_tree(root, machine)` -/
def copyAndDisconnect (old : Forest) (root : Chip) (m : Machine) : Except Err CopyState :=
  copyLoop old m (old.length + 1) [(none, 0, root)] { lookup := [], broken := [], root := none }

/-! ### a_star -/

abbrev Visited := List (Chip × Option (Nat × Chip))
abbrev Heap := List (Int × Chip)

/-- tuple comparison `(d, (x, y)) < (d', (x', y'))` -/
def lexLt (a b : Int × Chip) : Bool :=
  decide (a.1 < b.1) || (a.1 == b.1 && (decide (a.2.1 < b.2.1) || (a.2.1 == b.2.1 && decide (a.2.2 < b.2.2))))

def heapMin : (Int × Chip) → Heap → (Int × Chip)
  | best, [] => best
  | best, x :: r => if lexLt x best then heapMin x r else heapMin best r

/-- `heapq.heappop`: the least tuple (all tuples in the heap are distinct) -/
def popMin : Heap → Option ((Int × Chip) × Heap)
  | [] => none
  | x :: r => let mn := heapMin x r; some (mn, (x :: r).erase mn)

def Visited.look (v : Visited) (c : Chip) : Option (Option (Nat × Chip)) :=
  (v.find? (fun e => e.1 == c)).map (·.2)

def Visited.has (v : Visited) (c : Chip) : Bool := v.any (fun e => e.1 == c)

/-- body of `for neighbour_link in Links` -/
def expand (m : Machine) (heur : Chip → Int) (node : Chip) (st : Visited × Heap) (l : Nat) : Visited × Heap :=
  let nb := step m node (opp l)
  if !linkOk m nb l then st
  else if st.1.has nb then st
  else ((nb, some (l, node)) :: st.1, (heur nb, nb) :: st.2)

def aStarLoop (m : Machine) (heur : Chip → Int) (sources : List Chip) :
    Nat → Visited → Heap → Except Err (Option Chip × Visited)
  | 0, v, hp => if hp.isEmpty then pure (none, v) else .error .fuel
  | fuel + 1, v, hp =>
    match popMin hp with
    | none => pure (none, v)
    | some ((_, node), hp) =>
      if sources.contains node then pure (some node, v)
      else
        let st := linkOrder.foldl (expand m heur node) (v, hp)
        aStarLoop m heur sources fuel st.1 st.2

/-- the `while visited[path[-1][1]][1] != sink` loop; returns the elements appended after `cur` -/
def reconstruct (v : Visited) (sink : Chip) : Nat → Chip → Except Err (List (Nat × Chip))
  | 0, _ => .error .fuel
  | fuel + 1, cur =>
    match v.look cur with
    | some (some (_, prev)) =>
      if prev == sink then pure []
      else
        match v.look prev with
        | some (some (d, _)) => do
          let r ← reconstruct v sink fuel prev
          pure ((d, prev) :: r)
        | some none => .error .typeError
        | none => .error .keyError
    | some none => .error .typeError
    | none => .error .keyError

/-- `a_star(sink, heuristic_source, sources, machine, wrap_around)` -/
def aStar (sink hsrc : Chip) (sources : List Chip) (m : Machine) (wrap : Bool) :
    Except Err (List (Nat × Chip)) := do
  let heur := fun n => dist wrap m.w m.h n hsrc
  let (sel, v) ← aStarLoop m heur sources (m.w * m.h + 1) [(sink, none)] [(heur sink, sink)]
  match sel with
  | none => .error .disconnected
  | some s =>
    match v.look s with
    | some (some (d, _)) => do
      let r ← reconstruct v sink v.length s
      pure ((d, s) :: r)
    | some none => .error .typeError
    | none => .error .keyError

/-! ### avoid_dead_links -/

/-- chips of `iter(lookup[c])` (depth-first, pre-order) -/
def dfs (f : Forest) : Nat → Chip → Except Err (List Chip)
  | 0, _ => .error .fuel
  | n + 1, c => do
    let subs ← (f.kids c).mapM (fun e => dfs f n e.2)
    pure (c :: subs.flatten)

/-- remove the first `(d, n)` with `n` the node of chip `c` from a children list -/
def removeChild (c : Chip) : List (Nat × Chip) → List (Nat × Chip)
  | [] => []
  | e :: r => if e.2 == c then r else e :: removeChild c r

/-- "Find the node's current parent and disconnect it": the first node, in the order `order`,
that has the node of chip `c` among its children loses that child -/
def detachIn (f : Forest) (c : Chip) : List Chip → Forest
  | [] => f
  | n :: r =>
    if (f.kids n).any (fun e => e.2 == c) then
      f.map fun e => if e.1 == n then (e.1, removeChild c e.2) else e
    else detachIn f c r

structure RepairState where
  f : Forest
  last : Chip
  lastDir : Nat

/-- body of `for direction, (x, y) in path[1:]`.  `legacy = true` searches the parent only in
`lookup[child]` (rig before fixes/c03-avoid-dead-links-parent.diff), `false` in all of `lookup`. -/
def repairStep (legacy : Bool) (child : Chip) (childChips : List Chip) (st : RepairState)
    (e : Nat × Chip) : Except Err RepairState := do
  let c := e.2
  let f ←
    if !childChips.contains c then
      if st.f.has c then .error .assertFail      -- assert (x, y) not in lookup, "Cycle created."
      else pure (st.f.insertNew c)
    else if legacy then do
      let order ← dfs st.f (st.f.length + 1) child
      pure (detachIn st.f c order)
    else pure (detachIn st.f c st.f.keys)
  pure { f := f.addChild st.last (st.lastDir, c), last := c, lastDir := e.1 }

/-- body of `for parent, child in broken_links`; also returns the A* path -/
def repairOne (m : Machine) (wrap legacy : Bool) (f : Forest) (pc : Chip × Chip) :
    Except Err (Forest × List (Nat × Chip)) := do
  let parent := pc.1
  let child := pc.2
  let childChips ← dfs f (f.length + 1) child
  let sources := f.keys.filter fun c => !childChips.contains c
  let path ← aStar child parent sources m wrap
  match path with
  | [] => .error .keyError
  | (d0, c0) :: rest =>
    let st ← rest.foldlM (repairStep legacy child childChips) { f := f, last := c0, lastDir := d0 }
    pure (st.f.addChild st.last (st.lastDir, child), path)

def repairAll (m : Machine) (wrap legacy : Bool) :
    List (Chip × Chip) → Forest → List (List (Nat × Chip)) → Except Err (Forest × List (List (Nat × Chip)))
  | [], f, ps => pure (f, ps.reverse)
  | pc :: r, f, ps => do
    let (f, p) ← repairOne m wrap legacy f pc
    repairAll m wrap legacy r f (p :: ps)

def isOrderingOf (order broken : List (Chip × Chip)) : Bool :=
  order.length == broken.length && order.all broken.contains && broken.all order.contains

/-! ### route (one net) -/

/-- a sink vertex of the net: `kind` 0 = no cores resource (route `None`), 1 = cores `[a, b)`,
2 = RouteEndpointConstraint with route `a` -/
structure Sink where
  v : Nat
  chip : Chip
  kind : Nat
  a : Nat
  b : Nat
  deriving Repr

abbrev Leaf := Chip × Option Nat × Nat

/-- what `route()` knows about a sink vertex before it decides how to attach it: a RouteEndpointConstraint
(`endpoint`), and the slice `[a, b)` stored under the core resource in `allocations[vertex]` (`cores`; `none`
when the vertex is missing from `allocations` or its entry has no core resource) -/
structure SinkSpec where
  v : Nat
  chip : Chip
  endpoint : Option Nat
  cores : Option (Nat × Nat)
  deriving Repr

/-- the nested `if sink in route_to_endpoint: ... else: cores = ...; if cores is not None: ... else: ...` of
`route()`: the endpoint constraint takes precedence over the allocated cores; an empty core slice without a
constraint gives no leaf at all -/
def SinkSpec.resolve (s : SinkSpec) : Sink :=
  match s.endpoint with
  | some r => { v := s.v, chip := s.chip, kind := 2, a := r, b := 0 }
  | none =>
    match s.cores with
    | some (a, b) => { v := s.v, chip := s.chip, kind := 1, a := a, b := b }
    | none => { v := s.v, chip := s.chip, kind := 0, a := 0, b := 0 }

def Sink.routes (s : Sink) : List (Option Nat) :=
  if s.kind == 2 then [some s.a]
  else if s.kind == 1 then (List.range (s.b - s.a)).map fun i => some (coreRouteBase + (s.a + i))
  else [none]

def Sink.leaves (s : Sink) : List Leaf := s.routes.map fun r => (s.chip, r, s.v)

structure Result where
  wrap : Bool
  ner : Forest
  repaired : Bool
  copy : Option CopyState
  paths : List (List (Nat × Chip))
  forest : Forest
  root : Chip
  leaves : List Leaf

def attachSinks (f : Forest) : List Sink → Except Err (List Leaf)
  | [] => pure []
  | s :: r =>
    if f.has s.chip then do
      let rest ← attachSinks f r
      pure (s.leaves ++ rest)
    else .error .keyError

/-- the body of `for net in nets` of `route()` -/
def routeNet (m : Machine) (src : Chip) (dests : List Chip) (radius : Nat) (t : Tape)
    (order : List (Chip × Chip)) (sinks : List Sink) (legacy : Bool) : Except Err Result := do
  let wrap := hasWrap m
  let (f0, _) ← nerNet src dests m.w m.h wrap radius t
  if routeHasDeadLinks f0 m then
    let cs ← copyAndDisconnect f0 src m
    let root ← match cs.root with
      | some r => pure r
      | none => .error .assertFail
    if !isOrderingOf order cs.broken then .error .badOracle
    else
      let (f, paths) ← repairAll m wrap legacy order cs.lookup []
      let leaves ← attachSinks f sinks
      pure { wrap, ner := f0, repaired := true, copy := some cs, paths, forest := f, root, leaves }
  else
    let leaves ← attachSinks f0 sinks
    pure { wrap, ner := f0, repaired := false, copy := none, paths := [], forest := f0, root := src, leaves }

/-! ### route (all nets of one call) -/

/-- one net of a `route()` call: chips of the source and of the sinks (iteration order of the destination
set), the processing order of its broken links (oracle input), its sink vertices; the radius is that of the
call -/
structure NetIn where
  src : Chip
  dests : List Chip
  radius : Nat
  order : List (Chip × Chip)
  sinks : List Sink
  deriving Repr

/-- the oracle tape after the draws of one net (only `ner_net` draws) -/
def tapeAfter (m : Machine) (n : NetIn) (t : Tape) : Tape :=
  match nerNet n.src n.dests m.w m.h (hasWrap m) n.radius t with
  | .ok (_, t') => t'
  | .error _ => []

/-- `for net in nets` of `route()`: the body is run for each net in turn; nothing but the random stream (the
oracle tape) is carried from one net to the next; the first failing net fails the call -/
def routeNets (m : Machine) (legacy : Bool) : List NetIn → Tape → Except Err (List Result)
  | [], _ => pure []
  | n :: rest, t => do
    let r ← routeNet m n.src n.dests n.radius t n.order n.sinks legacy
    let rs ← routeNets m legacy rest (tapeAfter m n t)
    pure (r :: rs)

/-- the same loop, keeping the results of the nets before the first failure (what the driver reports) -/
def routeNetsRun (m : Machine) (legacy : Bool) : List NetIn → Tape → List Result × Option Err
  | [], _ => ([], none)
  | n :: rest, t =>
    match routeNet m n.src n.dests n.radius t n.order n.sinks legacy with
    | .error e => ([], some e)
    | .ok r =>
      let (rs, e) := routeNetsRun m legacy rest (tapeAfter m n t)
      (r :: rs, e)

/-! ### trees and the specification -/

inductive Tree where
  | node (chip : Chip) (subs : List (Nat × Tree)) (leaves : List (Option Nat × Nat))
  deriving Repr

def Tree.chip : Tree → Chip
  | .node c _ _ => c

mutual
/-- all chips of the tree nodes, pre-order -/
def Tree.chips : Tree → List Chip
  | .node c subs _ => c :: chipsL subs
def chipsL : List (Nat × Tree) → List Chip
  | [] => []
  | (_, t) :: r => t.chips ++ chipsL r
end

mutual
/-- all hops `(parent chip, route, child chip)` -/
def Tree.edges : Tree → List (Chip × Nat × Chip)
  | .node c subs _ => edgesL c subs
def edgesL (c : Chip) : List (Nat × Tree) → List (Chip × Nat × Chip)
  | [] => []
  | (l, t) :: r => (c, l, t.chip) :: (t.edges ++ edgesL c r)
end

mutual
/-- all vertex leaves `(chip of the node, route, vertex)` -/
def Tree.leafList : Tree → List Leaf
  | .node c subs lv => lv.map (fun p => (c, p.1, p.2)) ++ leafL subs
def leafL : List (Nat × Tree) → List Leaf
  | [] => []
  | (_, t) :: r => t.leafList ++ leafL r
end

mutual
/-- chips of nodes other than the root that have no child at all (stub branches: the repair of the
real code leaves them behind when the only child of a path node is re-attached elsewhere; they are
reported by the harness as a distribution tag, they are not part of the property) -/
def Tree.dangling (isRoot : Bool) : Tree → List Chip
  | .node c subs lv =>
    (if !isRoot && subs.isEmpty && lv.isEmpty then [c] else []) ++ danglingL subs
def danglingL : List (Nat × Tree) → List Chip
  | [] => []
  | (_, t) :: r => t.dangling false ++ danglingL r
end

def expectedLeaves (sinks : List Sink) : List Leaf := sinks.flatMap Sink.leaves

def edgeOk (m : Machine) (e : Chip × Nat × Chip) : Bool :=
  decide (e.2.1 < 6) && linkOk m e.1 e.2.1 && chipOk m e.2.2 && (e.2.2 == step m e.1 e.2.1)

def nodupB : List Chip → Bool
  | [] => true
  | c :: r => !(r.contains c) && nodupB r

/-- **The property, as a declarative predicate.**  `t` is a routing tree for the net with source
chip `src` and sink vertices `sinks` on machine `m`. -/
structure ValidTree (m : Machine) (src : Chip) (sinks : List Sink) (t : Tree) : Prop where
  /-- rooted at the chip of the net's source -/
  rooted : t.chip = src
  /-- every chip appears at most once (loop-free) -/
  distinct : t.chips.Nodup
  /-- every hop follows a working link from a working chip to the adjacent chip in that
  direction, modulo the machine dimensions, and arrives at a working chip -/
  hops : ∀ c l c', (c, l, c') ∈ t.edges →
    l < 6 ∧ linkOk m c l = true ∧ chipOk m c' = true ∧ c' = step m c l
  /-- every leaf is a sink vertex on the node of its chip with one of its routes -/
  leaves_sound : ∀ lf, lf ∈ t.leafList → lf ∈ expectedLeaves sinks
  /-- every sink vertex appears on the node of its chip with each of its routes -/
  leaves_complete : ∀ lf, lf ∈ expectedLeaves sinks → lf ∈ t.leafList

/-- decision procedure for `ValidTree` (proved equivalent in Props/C03.lean) -/
def validTree (m : Machine) (src : Chip) (sinks : List Sink) (t : Tree) : Bool :=
  (t.chip == src) && nodupB t.chips && t.edges.all (edgeOk m) &&
  t.leafList.all (expectedLeaves sinks).contains && (expectedLeaves sinks).all t.leafList.contains

/-- the clauses that fail, for diagnostics -/
def validTreeWhy (m : Machine) (src : Chip) (sinks : List Sink) (t : Tree) : List String :=
  (if t.chip == src then [] else ["root-not-source"]) ++
  (if nodupB t.chips then [] else ["chip-twice"]) ++
  (if t.edges.all (edgeOk m) then [] else ["bad-hop"]) ++
  (if t.leafList.all (expectedLeaves sinks).contains then [] else ["extra-leaf"]) ++
  (if (expectedLeaves sinks).all t.leafList.contains then [] else ["missing-leaf"])

/-- unfold a forest into a tree (depth fuel) -/
def toTree (f : Forest) (leaves : List Leaf) : Nat → Chip → Option Tree
  | 0, _ => none
  | n + 1, c => do
    let subs ← (f.kids c).mapM (fun e => (toTree f leaves n e.2).map fun t => (e.1, t))
    pure (.node c subs ((leaves.filter fun lf => lf.1 == c).map fun lf => lf.2))

/-! ### specification vocabulary used by the theorems (and, where executable, by the oracle) -/

/-- the meaning of one hop of the property: link `e.2.1` of chip `e.1` is a working link of a working
chip, and leads to the working chip `e.2.2` (modulo the machine dimensions) -/
def HopOk (m : Machine) (e : Chip × Nat × Chip) : Prop :=
  e.2.1 < 6 ∧ linkOk m e.1 e.2.1 = true ∧ chipOk m e.2.2 = true ∧ e.2.2 = step m e.1 e.2.1

/-- physical reachability over working links between working chips -/
inductive Reach (m : Machine) : Chip → Chip → Prop
  | refl (c : Chip) : Reach m c c
  | hop {a b : Chip} (l : Nat) : Reach m a b → l < 6 → linkOk m b l = true →
      chipOk m (step m b l) = true → Reach m a (step m b l)

def InRange (m : Machine) (c : Chip) : Prop := 0 ≤ c.1 ∧ c.1 < (m.w : Int) ∧ 0 ≤ c.2 ∧ c.2 < (m.h : Int)

/-- `path` is a chain of working links: each `(d, n)` leaves chip `n` over its working link `d` and
arrives at the next chip of the path, the last one arrives at `sink` -/
def chainTo (m : Machine) (sink : Chip) : List (Nat × Chip) → Bool
  | [] => false
  | [(d, n)] => decide (d < 6) && linkOk m n d && (step m n d == sink)
  | (d, n) :: (d', n') :: r =>
    decide (d < 6) && linkOk m n d && (step m n d == n') && chainTo m sink ((d', n') :: r)

/-- what `a_star` promises: a chain of working links that starts at a chip of `sources`, touches no
other chip of `sources`, and ends at a neighbour of `sink` -/
def pathOk (m : Machine) (sources : List Chip) (sink : Chip) (path : List (Nat × Chip)) : Bool :=
  chainTo m sink path &&
  (match path with
   | [] => false
   | (_, s) :: rest => sources.contains s && rest.all (fun e => !sources.contains e.2))

/-- every node of the forest is a working chip and every edge is a working hop -/
def ForestLive (m : Machine) (f : Forest) : Prop :=
  ∀ n, n ∈ f → chipOk m n.1 = true ∧ ∀ k, k ∈ n.2 → HopOk m (n.1, k.1, k.2)

/-- every edge of the forest is the hop named by its direction (geometry only, no liveness) -/
def ForestHops (m : Machine) (f : Forest) : Prop :=
  ∀ n, n ∈ f → ∀ k, k ∈ n.2 → k.1 < 6 ∧ k.2 = step m n.1 k.1

/-- consecutive hops starting at `start`: each `(d, c)` is reached from the previous chip over link `d` -/
def hopsFrom (m : Machine) (start : Chip) : List (Nat × Chip) → Bool
  | [] => true
  | (d, c) :: r => decide (d < 6) && (c == step m start d) && hopsFrom m c r

/-! ### strong connectivity of the working part of the machine -/

def liveChips (m : Machine) : List Chip :=
  (List.range m.w).flatMap fun (x : Nat) => (List.range m.h).filterMap fun (y : Nat) =>
    if chipOk m ((x : Int), (y : Int)) then some ((x : Int), (y : Int)) else none

/-- chips reached from `c` in one hop over a working link -/
def succs (m : Machine) (c : Chip) : List Chip :=
  linkOrder.filterMap fun l =>
    if linkOk m c l && chipOk m (step m c l) then some (step m c l) else none

/-- chips from which `c` is reached in one hop over a working link -/
def preds (m : Machine) (c : Chip) : List Chip :=
  linkOrder.filterMap fun l =>
    let p := step m c (opp l)
    if linkOk m p l && chipOk m c && (step m p l == c) then some p else none

def closure (next : Chip → List Chip) : Nat → List Chip → List Chip → List Chip
  | 0, _, seen => seen
  | _, [], seen => seen
  | fuel + 1, c :: front, seen =>
    let new := (next c).eraseDups.filter fun n => !seen.contains n
    closure next fuel (front ++ new) (seen ++ new)

/-- every working chip reaches every other working chip over working links -/
def stronglyConnected (m : Machine) : Bool :=
  match liveChips m with
  | [] => true
  | c0 :: rest =>
    let fwd := closure (succs m) (m.w * m.h + 1) [c0] [c0]
    let bwd := closure (preds m) (m.w * m.h + 1) [c0] [c0]
    (c0 :: rest).all fun c => fwd.contains c && bwd.contains c

/-! ### line protocol -/
open Lean Rig.P

def chipOfJson (j : Json) : R Chip := asPair j asInt asInt
def jChip (c : Chip) : Json := jInts [c.1, c.2]

def machineOfJson (j : Json) : R Machine := do
  let dc ← (← arr j "dead_chips").mapM chipOfJson
  let dl ← (← arr j "dead_links").mapM fun e => do
    match ← asArr e with
    | [x, y, l] => pure (((← asInt x), (← asInt y)), (← asNat l))
    | _ => .error "expected [x,y,link]"
  pure { w := ← nat j "w", h := ← nat j "h", deadChips := dc, deadLinks := dl }

def sinkOfJson (j : Json) : R Sink := do
  match ← asArr j with
  | [v, x, y, k, a, b] =>
    pure { v := ← asNat v, chip := (← asInt x, ← asInt y), kind := ← asNat k, a := ← asNat a, b := ← asNat b }
  | [v, x, y, ep, cores] =>
    -- unresolved form: endpoint constraint (or null) and core slice (or null); the model decides
    let cs ← asOpt cores fun c => asPair c asNat asNat
    pure (SinkSpec.resolve { v := ← asNat v, chip := (← asInt x, ← asInt y), endpoint := ← asOpt ep asNat,
                             cores := cs })
  | _ => .error "expected [v,x,y,kind,a,b] or [v,x,y,endpoint,cores]"

def pathOfJson (j : Json) : R (List (Nat × Chip)) := do
  (← asArr j).mapM fun e => do
    match ← asArr e with
    | [d, x, y] => pure (← asNat d, (← asInt x, ← asInt y))
    | _ => .error "expected [d,x,y]"

def jPath (p : List (Nat × Chip)) : Json :=
  jList (p.map fun e => Json.arr #[jNat e.1, jInt e.2.1, jInt e.2.2])

def forestOfJson (j : Json) : R Forest := do
  (← asArr j).mapM fun e => do
    match ← asArr e with
    | [x, y, ch] => pure ((← asInt x, ← asInt y), ← pathOfJson ch)
    | _ => .error "expected [x,y,children]"

def jForest (f : Forest) : Json :=
  jList (f.map fun e => Json.arr #[jInt e.1.1, jInt e.1.2, jPath e.2])

def jPairs (l : List (Chip × Chip)) : Json :=
  jList (l.map fun e => jInts [e.1.1, e.1.2, e.2.1, e.2.2])

def pairsOfJson (j : Json) : R (List (Chip × Chip)) := do
  (← asArr j).mapM fun e => do
    match ← asArr e with
    | [a, b, c, d] => pure ((← asInt a, ← asInt b), (← asInt c, ← asInt d))
    | _ => .error "expected [px,py,cx,cy]"

def jLeaves (l : List Leaf) : Json :=
  jList (l.map fun e => Json.arr #[jInt e.1.1, jInt e.1.2, jOpt jNat e.2.1, jNat e.2.2])

def treeOfJson : Nat → Json → R Tree
  | 0, _ => .error "tree too deep"
  | n + 1, j => do
    match ← asArr j with
    | [x, y, subs, leaves] =>
      let ss ← (← asArr subs).mapM fun e => do
        match ← asArr e with
        | [d, t] => pure (← asNat d, ← treeOfJson n t)
        | _ => .error "expected [dir, tree]"
      let ls ← (← asArr leaves).mapM fun e => do
        match ← asArr e with
        | [r, v] => pure (← asOpt r asNat, ← asNat v)
        | _ => .error "expected [route, vertex]"
      pure (.node (← asInt x, ← asInt y) ss ls)
    | _ => .error "expected [x,y,subs,leaves]"

/-- a tree sent as a flat pre-order list of nodes `[x, y, [[dir, childIndex], ...], [[route, vertex], ...]]`
(every child index larger than its parent's index, root = entry 0).  The tree is assembled bottom-up by a loop,
so that decoding does not recurse over the depth of the tree (routing trees can be thousands of hops deep);
the oracle applied to the result is the same `validTree`. -/
def treeOfFlat (j : Json) : R Tree := do
  let nodes ← (← asArr j).mapM fun e => do
    match ← asArr e with
    | [x, y, subs, leaves] =>
      let ss ← (← asArr subs).mapM fun k => do
        match ← asArr k with
        | [d, i] => pure (← asNat d, ← asNat i)
        | _ => .error "expected [dir, index]"
      let ls ← (← asArr leaves).mapM fun k => do
        match ← asArr k with
        | [r, v] => pure (← asOpt r asNat, ← asNat v)
        | _ => .error "expected [route, vertex]"
      pure (((← asInt x, ← asInt y) : Chip), ss, ls)
    | _ => .error "expected [x,y,subs,leaves]"
  let arr := nodes.toArray
  let n := arr.size
  if n == 0 then .error "empty flat tree"
  let mut built : Array (Option Tree) := Array.replicate n none
  for k in [0:n] do
    let i := n - 1 - k
    match arr[i]? with
    | none => .error "index"
    | some (c, kids, lv) =>
      let mut subs : List (Nat × Tree) := []
      for (d, jx) in kids.reverse do
        if jx ≤ i then .error "flat tree: child index must exceed the parent index"
        match built[jx]? with
        | some (some t) => subs := (d, t) :: subs
        | _ => .error "flat tree: bad child index"
      built := built.set! i (some (.node c subs lv))
  match built[0]? with
  | some (some t) => pure t
  | _ => .error "flat tree: no root"

def jErrE (e : Err) : Json := jErr e.name

def jCopy (cs : CopyState) : Json :=
  Json.mkObj [("lookup", jForest cs.lookup), ("broken", jPairs cs.broken), ("root", jOpt jChip cs.root)]

def jResult (m : Machine) (sinks : List Sink) (r : Result) : Json :=
  let tree := toTree r.forest r.leaves (r.forest.length + 1) r.root
  Json.mkObj [("wrap", Json.bool r.wrap), ("ner", jForest r.ner),
    ("repaired", Json.bool r.repaired), ("copy", jOpt jCopy r.copy),
    ("paths", jList (r.paths.map jPath)), ("forest", jForest r.forest), ("root", jChip r.root),
    ("leaves", jLeaves r.leaves),
    ("model_valid", jOpt (fun t => Json.bool (validTree m r.root sinks t)) tree)]

def handle (op : String) (j : Json) : R Json := do
  match op with
  | "machine" =>
    let m ← machineOfJson j
    pure (Json.mkObj [("wrap", Json.bool (hasWrap m)), ("working", jNat (wrapWorking m)),
      ("strong", Json.bool (stronglyConnected m)), ("live", jNat (liveChips m).length)])
  | "hexagons" => pure (jList ((concentricHexagons (← nat j "radius")).map jChip))
  | "ner_net" =>
    let src ← chipOfJson (← field j "source")
    let dests ← (← arr j "dests").mapM chipOfJson
    match nerNet src dests (← nat j "w") (← nat j "h") (← bool j "wrap") (← nat j "radius") (← ints j "tape") with
    | .ok (f, t) => pure (jOk (Json.mkObj [("forest", jForest f), ("tape_left", jNat t.length)]))
    | .error e => pure (jErrE e)
  | "ldf" =>
    match ← ints j "vector" with
    | [x, y, z] =>
      match ldf (x, y, z) (← chipOfJson (← field j "start")) (← nat j "w") (← nat j "h") (← ints j "tape") with
      | .ok (p, _) => pure (jOk (jPath p))
      | .error e => pure (jErrE e)
    | _ => .error "vector"
  | "copy" =>
    match copyAndDisconnect (← forestOfJson (← field j "forest")) (← chipOfJson (← field j "root"))
        (← machineOfJson j) with
    | .ok cs => pure (jOk (jCopy cs))
    | .error e => pure (jErrE e)
  | "a_star" =>
    let m ← machineOfJson j
    match aStar (← chipOfJson (← field j "sink")) (← chipOfJson (← field j "hsrc"))
        (← (← arr j "sources").mapM chipOfJson) m (← bool j "wrap") with
    | .ok p => pure (jOk (jPath p))
    | .error e => pure (jErrE e)
  | "route" =>
    let m ← machineOfJson j
    let sinks ← (← arr j "sinks").mapM sinkOfJson
    let order ← match ← opt j "order" pairsOfJson with
      | some o => pure o
      | none => pure []
    match routeNet m (← chipOfJson (← field j "source")) (← (← arr j "dests").mapM chipOfJson)
        (← nat j "radius") (← ints j "tape") order sinks (← bool j "legacy") with
    | .ok r => pure (jOk (jResult m sinks r))
    | .error e => pure (jErrE e)
  | "route_nets" =>
    let m ← machineOfJson j
    let radius ← nat j "radius"
    let nets ← (← arr j "nets").mapM fun nj => do
      let order ← match ← opt nj "order" pairsOfJson with
        | some o => pure o
        | none => pure []
      pure ({ src := ← chipOfJson (← field nj "source"), dests := ← (← arr nj "dests").mapM chipOfJson,
              radius := radius, order := order, sinks := ← (← arr nj "sinks").mapM sinkOfJson } : NetIn)
    let (rs, e) := routeNetsRun m (← bool j "legacy") nets (← ints j "tape")
    pure (Json.mkObj [("results", jList ((nets.zip rs).map fun nr => jResult m nr.1.sinks nr.2)),
      ("err", jOpt (fun e => Json.str e.name) e)])
  | "path_ok" =>
    let m ← machineOfJson j
    pure (Json.bool (pathOk m (← (← arr j "sources").mapM chipOfJson) (← chipOfJson (← field j "sink"))
      (← pathOfJson (← field j "path"))))
  | "hops_from" =>
    let m ← machineOfJson j
    pure (Json.bool (hopsFrom m (← chipOfJson (← field j "start")) (← pathOfJson (← field j "path"))))
  | "valid_tree" =>
    let m ← machineOfJson j
    let sinks ← (← arr j "sinks").mapM sinkOfJson
    let src ← chipOfJson (← field j "source")
    let t ← match ← opt j "flat" pure with
      | some fj => treeOfFlat fj
      | none => treeOfJson 100000 (← field j "tree")
    pure (Json.mkObj [("valid", Json.bool (validTree m src sinks t)),
      ("why", jList ((validTreeWhy m src sinks t).map Json.str)),
      ("stubs", jNat (t.dangling true).length)])
  | _ => .error s!"unknown op {op}"

end Rig.C03
