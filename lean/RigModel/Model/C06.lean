/-
C06 - model of `SCPConnection.send_scp_burst` (rig/machine_control/scp_connection.py).

The environment (everything the code cannot control) is an explicit input:
* `clock : Nat → Int` - the value returned by the k-th call of `time.time()`
  made by the burst (times are exact multiples of a tick; the harness uses
  integer-valued floats so float arithmetic is exact);
* one *batch* per loop iteration: the datagrams `recv` returns after that
  iteration's `select` before it raises `IOError` (empty when `select` timed
  out).
The theorems quantify over every clock and every sequence of batches.

Python structures: `outstanding_packets` is an insertion-ordered dict
seq ↦ TransmittedPacket (association list, updates in place keep the order,
new keys go to the end); `outstanding_callbacks` is a deque used FIFO
(`appendleft` / `pop`).
-/
import Std.Data.HashMap
import Std.Data.HashSet
import RigModel.Model.Proto
import RigModel.Gen.Scp
import RigModel.Model.C07

namespace Rig.C06
open Rig.Gen.Scp

structure Cfg where
  window : Nat
  nTries : Nat
  modulus : Nat            -- `mask + 1` of `seqs`
  defaultTimeout : Int
  deriving Repr

/-- a received datagram: `id` is its identity (for the correspondence), `rc`
its return code and `seq` its sequence number -/
structure Dgram where
  id : Nat
  rc : Nat
  seq : Nat
  deriving Repr, DecidableEq

/-- TransmittedPacket -/
structure Out where
  cmd : Nat                -- index of the command in the burst
  tries : Nat
  timeout : Int
  deadline : Int           -- `timeout_time`
  deriving Repr, DecidableEq

inductive Ev where
  | send (seq cmd tries : Nat) (t : Int)     -- `t` = clock value the deadline was computed from
  | callback (cmd dgram : Nat)
  deriving Repr, DecidableEq

inductive Res where
  | done
  | timeout (cmd : Nat)
  | fatal (rc : Nat) (cmd : Option Nat)
  | exhausted                                  -- environment script ended first
  deriving Repr, DecidableEq

structure St where
  next : Nat                 -- commands taken from the iterator so far
  queued : Bool              -- `queued_packets`
  seqCtr : Nat               -- next value the `seqs` generator yields
  k : Nat                    -- calls of time.time() so far
  outs : List (Nat × Out)    -- outstanding_packets
  pend : List (Nat × Nat)    -- outstanding_callbacks, oldest first: (cmd, datagram id)
  deriving Repr

def St.init (seqCtr : Nat) : St :=
  { next := 0, queued := true, seqCtr := seqCtr, k := 0, outs := [], pend := [] }

def hasSeq (outs : List (Nat × Out)) (s : Nat) : Bool := outs.any (fun p => p.1 == s)

/-- `seq = next(self.seq); while seq in outstanding: seq = next(self.seq)`;
returns (seq, new counter).  `fuel` bounds the skip loop. -/
def drawSeq (modulus : Nat) (outs : List (Nat × Out)) : Nat → Nat → Nat × Nat
  | 0, ctr => (ctr, (ctr + 1) % modulus)
  | fuel + 1, ctr =>
    if hasSeq outs ctr then drawSeq modulus outs fuel ((ctr + 1) % modulus)
    else (ctr, (ctr + 1) % modulus)

/-- the transmit loop: `while len(outstanding) < window and queued` -/
def fill (cfg : Cfg) (extra : Nat → Option Int) (clock : Nat → Int) : Nat → St → St × List Ev
  | 0, st => (st, [])
  | fuel + 1, st =>
    if st.outs.length < cfg.window ∧ st.queued then
      match extra st.next with
      | none => fill cfg extra clock fuel { st with queued := false }
      | some ex =>
        let (seq, ctr) := drawSeq cfg.modulus st.outs cfg.modulus st.seqCtr
        let t := clock st.k
        let to := cfg.defaultTimeout + ex
        let o : Out := { cmd := st.next, tries := 1, timeout := to, deadline := t + to }
        let st' := { st with next := st.next + 1, seqCtr := ctr, k := st.k + 1,
                             outs := st.outs ++ [(seq, o)] }
        let (st'', evs) := fill cfg extra clock fuel st'
        (st'', Ev.send seq st.next 1 t :: evs)
    else (st, [])

def lookupSeq (outs : List (Nat × Out)) (s : Nat) : Option Out :=
  (outs.find? (fun p => p.1 == s)).map (·.2)

def removeSeq (outs : List (Nat × Out)) (s : Nat) : List (Nat × Out) :=
  outs.filter (fun p => p.1 != s)

inductive RecvRes where
  | ok (outs : List (Nat × Out)) (pend : List (Nat × Nat))
  | fatal (rc : Nat) (cmd : Option Nat)

/-- the receive loop over one batch -/
def recvAll : List Dgram → List (Nat × Out) → List (Nat × Nat) → RecvRes
  | [], outs, pend => .ok outs pend
  | d :: ds, outs, pend =>
    if d.rc != rcOk then
      if retryable.contains d.rc then recvAll ds outs pend
      else .fatal d.rc ((lookupSeq outs d.seq).map (·.cmd))
    else
      match lookupSeq outs d.seq with
      | some o => recvAll ds (removeSeq outs d.seq) (pend ++ [(o.cmd, d.id)])
      | none => recvAll ds outs pend

/-- the retransmission scan over `outstanding_packets` (dict order) -/
def retrans (nTries : Nat) (now : Int) : List (Nat × Out) → List (Nat × Out) × List Ev × Option Nat
  | [] => ([], [], none)
  | (s, o) :: rest =>
    if o.deadline < now then
      if o.tries ≥ nTries then ((s, o) :: rest, [], some o.cmd)
      else
        let o' := { o with tries := o.tries + 1, deadline := now + o.timeout }
        let (rest', evs, r) := retrans nTries now rest
        ((s, o') :: rest', Ev.send s o.cmd (o.tries + 1) now :: evs, r)
    else
      let (rest', evs, r) := retrans nTries now rest
      ((s, o) :: rest', evs, r)

def St.active (st : St) : Bool := st.queued || !st.outs.isEmpty || !st.pend.isEmpty

/-- one iteration of the outer `while` loop (the caller checked `active`) -/
def iter (cfg : Cfg) (extra : Nat → Option Int) (clock : Nat → Int) (st : St) (batch : List Dgram) :
    St × List Ev × Option Res :=
  let (st1, ev1) := fill cfg extra clock (cfg.window + 1) st
  let ev2 := st1.pend.map (fun p => Ev.callback p.1 p.2)
  let st2 := { st1 with pend := [] }
  -- `time.time()` for the select timeout is read only when something is outstanding
  let st3 := if st2.outs.isEmpty then st2 else { st2 with k := st2.k + 1 }
  match recvAll batch st3.outs st3.pend with
  | .fatal rc c => (st3, ev1 ++ ev2, some (.fatal rc c))
  | .ok outs pend =>
    let now := clock st3.k
    let (outs', ev3, r) := retrans cfg.nTries now outs
    let st5 := { st3 with k := st3.k + 1, outs := outs', pend := pend }
    match r with
    | some c => (st5, ev1 ++ ev2 ++ ev3, some (.timeout c))
    | none => (st5, ev1 ++ ev2 ++ ev3, none)

/-- the whole burst; one batch per iteration -/
def run (cfg : Cfg) (extra : Nat → Option Int) (clock : Nat → Int) : St → List (List Dgram) → St × List Ev × Res
  | st, [] => (st, [], if st.active then .exhausted else .done)
  | st, b :: bs =>
    if st.active then
      match iter cfg extra clock st b with
      | (st', evs, some r) => (st', evs, r)
      | (st', evs, none) =>
        let (st'', evs', r) := run cfg extra clock st' bs
        (st'', evs ++ evs', r)
    else (st, [], .done)


/-! ### What the operating system must provide for the burst to terminate

The loop only makes progress when `select` returns: with a datagram, or because its timeout
(the earliest deadline of an outstanding packet) has passed.  These predicates state that on the
environment (clock + batches); `RigModel.Props.C06.terminates_under_progress` assumes them. -/

/-- the state after the transmit loop of the iteration that starts in `st` (the outstanding table
`select`'s timeout is computed from) -/
def afterFill (cfg : Cfg) (extra : Nat → Option Int) (clock : Nat → Int) (st : St) : St :=
  (fill cfg extra clock (cfg.window + 1) st).1

/-- **(b)** `select` returned by timeout: the iteration's final clock reading (`current_time`) is
strictly later than the earliest deadline of an outstanding packet, i.e. than the deadline of some
outstanding packet.  (Nothing is demanded when nothing is outstanding: `select` is then called
with timeout 0.) -/
def timedOut (cfg : Cfg) (extra : Nat → Option Int) (clock : Nat → Int) (st : St) : Bool :=
  let st1 := afterFill cfg extra clock st
  st1.outs.isEmpty || st1.outs.any (fun p => decide (p.2.deadline < clock (st1.k + 1)))

/-- **(b), as `select` really behaves:** the final reading is not earlier than the earliest deadline
(`select` waited for its timeout) and strictly later than the reading the timeout was computed
from (a timed-out `select` takes time). -/
def timedOutWeak (cfg : Cfg) (extra : Nat → Option Int) (clock : Nat → Int) (st : St) : Bool :=
  let st1 := afterFill cfg extra clock st
  st1.outs.isEmpty ||
    (st1.outs.any (fun p => decide (p.2.deadline ≤ clock (st1.k + 1))) &&
     decide (clock st1.k < clock (st1.k + 1)))

/-- `Q` holds at the start of every iteration of the run that receives no datagram -/
def alongRun (cfg : Cfg) (extra : Nat → Option Int) (clock : Nat → Int) (Q : St → Bool) :
    St → List (List Dgram) → Bool
  | _, [] => true
  | st, b :: bs =>
    if st.active then
      (!b.isEmpty || Q st) &&
        match iter cfg extra clock st b with
        | (_, _, some _) => true
        | (st', _, none) => alongRun cfg extra clock Q st' bs
    else true

/-- number of loop iterations the run performs on these batches -/
def iterations (cfg : Cfg) (extra : Nat → Option Int) (clock : Nat → Int) : St → List (List Dgram) → Nat
  | _, [] => 0
  | st, b :: bs =>
    if st.active then
      match iter cfg extra clock st b with
      | (_, _, some _) => 1
      | (st', _, none) => 1 + iterations cfg extra clock st' bs
    else 0

/-! ### `SCPConnection.read` / `SCPConnection.write` as bursts (composition with C07)

`read` hands `send_scp_burst` one command per chunk of `C07.read` (no extra timeout), each with a
callback that stores the reply's payload into its slice of the receive buffer; `write` hands it one
command per chunk of `C07.write` (default callback).  What a datagram carries (`payload`, by
datagram id) and which requests the machine executed (`exec`) are not visible to the burst: they
are ghost inputs, constrained only by the hypotheses of `read_through_burst` /
`write_through_burst`. -/

/-- the per-command extra timeouts of a read/write burst: `scpcall(..., timeout=0.0)` for every chunk -/
def chunkTimeouts (chunks : List C07.Chunk) : List Int := chunks.map (fun _ => 0)

/-- the callback of `SCPConnection.read` for chunk `c`: `mem[offset:offset + block_size] = payload`,
a `memoryview` slice assignment - `ValueError` (`none`) unless the lengths agree -/
def storeReply (base : Nat) (buffer : C07.Mem) (c : C07.Chunk) (payload : List Nat) : Option C07.Mem :=
  if payload.length = c.size then some (C07.writeMem buffer (c.addr - base) payload) else none

/-- run the callbacks of a burst's event list, in order, on the receive buffer -/
def assembleRead (chunks : List C07.Chunk) (payload : Nat → List Nat) (base : Nat) :
    List Ev → C07.Mem → Option C07.Mem
  | [], buffer => some buffer
  | .send _ _ _ _ :: evs, buffer => assembleRead chunks payload base evs buffer
  | .callback c i :: evs, buffer =>
    match chunks[c]? with
    | none => none
    | some ch =>
      match storeReply base buffer ch (payload i) with
      | none => none
      | some buffer' => assembleRead chunks payload base evs buffer'

inductive ReadRes where
  | ok (bytes : List Nat)          -- `bytes(data)`
  | valueError                     -- a callback's slice assignment failed
  | burst (r : Res)                -- the burst raised (or the script was exhausted)
  deriving Repr, DecidableEq

/-- `SCPConnection.read(buffer_size, window_size, x, y, p, address, length_bytes)` in the environment
`(clock, batches, payload)` -/
def readThrough (cfg : Cfg) (clock : Nat → Int) (s0 : Nat) (batches : List (List Dgram))
    (payload : Nat → List Nat) (buf addr len : Nat) : ReadRes :=
  let chunks := C07.read buf addr len
  let r := run cfg (fun i => (chunkTimeouts chunks)[i]?) clock (St.init s0) batches
  match assembleRead chunks payload addr r.2.1 (fun _ => 0) with
  | none => .valueError
  | some buffer =>
    match r.2.2 with
    | .done => .ok (C07.readMem buffer 0 len)
    | res => .burst res

/-- the machine's memory after it executed the write requests `exec` (command indexes, in the order
their request datagrams were executed) of a `SCPConnection.write` burst -/
def memAfter (chunks : List C07.Chunk) (exec : List Nat) (m : C07.Mem) : C07.Mem :=
  (exec.filterMap (fun j => chunks[j]?)).foldl C07.execWrite m

/-! ### Specification of the property on the observable log (oracle run on the implementation)

The log is what happens at the socket / callback boundary, in order. `origin` is ground truth
supplied by the simulated network: the command of *this* burst whose request the datagram answers
(`none` for a datagram caused by an earlier burst). -/

inductive Obs where
  | send (seq cmd : Nat) (t : Int)
  | recv (id rc seq : Nat) (origin : Option Nat)
  | cb (cmd id : Nat)
  deriving Repr

structure Spec where
  window : Nat
  nTries : Nat
  nCmds : Nat
  timeouts : List Int          -- per command: default + extra
  deriving Repr

structure SpecSt where
  sent : Std.HashMap Nat (Nat × Nat × Int)   -- cmd ↦ seq, number of sends, time of last send
  unanswered : List Nat                      -- commands sent, no ok reply with their seq accepted yet
  called : Std.HashSet Nat
  okOrigins : Std.HashSet Nat                -- origins of ok datagrams received so far
  dgrams : Std.HashMap Nat (Nat × Option Nat) -- id ↦ rc, origin
  fatal : Option Nat
  bad : List String

def isFatalRc (rc : Nat) : Bool := rc != 0x80 && rc != 0x82 && rc != 0x8d

def specStep (sp : Spec) (s : SpecSt) : Obs → SpecSt
  | .send seq cmd t =>
    let s := if s.fatal.isSome then { s with bad := "send-after-fatal" :: s.bad } else s
    match s.sent[cmd]? with
    | none =>
      let un := cmd :: s.unanswered
      let s := { s with sent := s.sent.insert cmd (seq, 1, t), unanswered := un }
      if un.length > sp.window then { s with bad := "window-exceeded" :: s.bad } else s
    | some (seq0, n, t0) =>
      let to := sp.timeouts.getD cmd 0
      let bad1 := if seq != seq0 then ["retransmit-changed-seq"] else []
      let bad2 := if n + 1 > sp.nTries then ["too-many-tries"] else []
      let bad3 := if t ≤ t0 + to then ["early-retransmit"] else []
      let bad4 := if s.unanswered.contains cmd then [] else ["retransmit-after-answer"]
      { s with sent := s.sent.insert cmd (seq0, n + 1, t),
               bad := bad1 ++ bad2 ++ bad3 ++ bad4 ++ s.bad }
  | .recv id rc seq origin =>
    let s := { s with dgrams := s.dgrams.insert id (rc, origin) }
    if rc == 0x80 then
      let s := match origin with
        | some o => { s with okOrigins := s.okOrigins.insert o }
        | none => s
      -- an ok reply answers the unanswered command holding that sequence number
      { s with unanswered := s.unanswered.filter (fun c =>
          match s.sent[c]? with
          | some (sq, _, _) => sq != seq
          | none => true) }
    else if isFatalRc rc then
      if s.fatal.isNone then { s with fatal := some rc } else s
    else s
  | .cb cmd id =>
    let s := if s.fatal.isSome then { s with bad := "callback-after-fatal" :: s.bad } else s
    let bad1 := if s.called.contains cmd then ["callback-twice"] else []
    let bad2 := match s.dgrams[id]? with
      | none => ["callback-with-unknown-datagram"]
      | some (rc, origin) =>
        (if rc != 0x80 then ["callback-with-error-reply"] else []) ++
        (if origin != some cmd then ["callback-with-foreign-reply"] else [])
    { s with called := s.called.insert cmd, bad := bad1 ++ bad2 ++ s.bad }

/-- all clause names violated by a log and its outcome -/
def checkLog (sp : Spec) (log : List Obs) (res : Res) : List String :=
  let s := log.foldl (specStep sp)
    { sent := {}, unanswered := [], called := {}, okOrigins := {}, dgrams := {}, fatal := none, bad := [] }
  let badRes := match res with
    | .done =>
      (if (List.range sp.nCmds).all (fun c => s.called.contains c) then [] else ["done-without-all-callbacks"]) ++
      (if s.fatal.isSome then ["fatal-code-ignored"] else [])
    | .timeout c =>
      (match s.sent[c]? with
        | some (_, n, _) => if n == sp.nTries then [] else ["timeout-before-all-tries"]
        | none => ["timeout-for-unsent-command"]) ++
      (if s.okOrigins.contains c then ["timeout-although-reply-received"] else []) ++
      (if s.fatal.isSome then ["fatal-code-ignored"] else [])
    | .fatal rc _ => if s.fatal == some rc then [] else ["fatal-error-without-fatal-reply"]
    | .exhausted => ["did-not-terminate"]
  (badRes ++ s.bad).eraseDups

/-! ### line protocol -/
open Lean Rig.P

def dgramOfJson (j : Json) : R Dgram := do
  pure { id := ← nat j "id", rc := ← nat j "rc", seq := ← nat j "seq" }

def evToJson : Ev → Json
  | .send s c n t => jList [Json.str "send", jNat s, jNat c, jNat n, jInt t]
  | .callback c d => jList [Json.str "cb", jNat c, jNat d]

def resToJson : Res → Json
  | .done => jList [Json.str "done"]
  | .timeout c => jList [Json.str "timeout", jNat c]
  | .fatal rc c => jList [Json.str "fatal", jNat rc, jOpt jNat c]
  | .exhausted => jList [Json.str "exhausted"]

def clockOfArray (a : Array Int) (last : Int) : Nat → Int := fun k => a.getD k last

def handle (op : String) (j : Json) : R Json := do
  match op with
  | "run" =>
    let cfg : Cfg := { window := ← nat j "window", nTries := ← nat j "n_tries",
                       modulus := ← nat j "modulus", defaultTimeout := ← int j "timeout" }
    let extraA := (← ints j "extra").toArray
    let extra : Nat → Option Int := fun i => extraA[i]?
    let clockL ← ints j "clock"
    let clockA := clockL.toArray
    let clock := clockOfArray clockA (clockL.getLastD 0)
    let batches ← (← arr j "batches").mapM (fun b => do (← asArr b).mapM dgramOfJson)
    let seq0 ← nat j "seq0"
    let (st, evs, r) := run cfg extra clock (St.init seq0) batches
    pure (Json.mkObj [("events", jList (evs.map evToJson)), ("result", resToJson r),
                      ("seq_ctr", jNat st.seqCtr), ("clock_reads", jNat st.k)])
  | "progress" =>
    -- the progress hypotheses of `terminates_under_progress` / `terminates_under_select`, evaluated on
    -- a recorded environment, the number of iterations of the model and the proved bounds
    let cfg : Cfg := { window := ← nat j "window", nTries := ← nat j "n_tries",
                       modulus := ← nat j "modulus", defaultTimeout := ← int j "timeout" }
    let extraL ← ints j "extra"
    let extraA := extraL.toArray
    let extra : Nat → Option Int := fun i => extraA[i]?
    let clockL ← ints j "clock"
    let clockA := clockL.toArray
    let clock := clockOfArray clockA (clockL.getLastD 0)
    let batches ← (← arr j "batches").mapM (fun b => do (← asArr b).mapM dgramOfJson)
    let seq0 ← nat j "seq0"
    let mono := (List.range (clockA.size - 1)).all (fun k => decide (clock k ≤ clock (k + 1)))
    let d := batches.flatten.length
    let base := extraL.length * cfg.nTries + d + 1
    pure (Json.mkObj [
      ("mono", Json.bool mono),
      ("strict", Json.bool (alongRun cfg extra clock (timedOut cfg extra clock) (St.init seq0) batches)),
      ("weak", Json.bool (alongRun cfg extra clock (timedOutWeak cfg extra clock) (St.init seq0) batches)),
      ("iterations", jNat (iterations cfg extra clock (St.init seq0) batches)),
      ("bound_strict", jNat base), ("bound_weak", jNat (2 * base))])
  | "read_through" =>
    -- `SCPConnection.read` in a recorded environment; `payloads` = [[datagram id, bytes], ...]
    let cfg : Cfg := { window := ← nat j "window", nTries := ← nat j "n_tries",
                       modulus := ← nat j "modulus", defaultTimeout := ← int j "timeout" }
    let clockL ← ints j "clock"
    let clock := clockOfArray clockL.toArray (clockL.getLastD 0)
    let batches ← (← arr j "batches").mapM (fun b => do (← asArr b).mapM dgramOfJson)
    let pl ← (← arr j "payloads").mapM (fun e => do
      match ← asArr e with
      | [i, bs] => pure ((← asNat i), (← (← asArr bs).mapM asNat))
      | _ => .error "bad payload")
    let pm : Std.HashMap Nat (List Nat) := Std.HashMap.ofList pl
    match readThrough cfg clock (← nat j "seq0") batches (fun i => pm.getD i []) (← nat j "buf") (← nat j "addr")
        (← nat j "len") with
    | .ok bytes => pure (jOk (jNats bytes))
    | .valueError => pure (jErr "ValueError")
    | .burst r => pure (Json.mkObj [("burst", resToJson r)])
  | "write_through" =>
    -- memory window [lo, lo + |init|) after the machine executed the write requests `exec`
    let lo ← nat j "lo"
    let init := (← nats j "init").toArray
    let m : C07.Mem := fun a => if lo ≤ a then init.getD (a - lo) 0 else 0
    let chunks := C07.write (← nat j "buf") (← nat j "addr") (← nats j "data")
    pure (jNats (C07.readMem (memAfter chunks (← nats j "exec") m) lo init.size))
  | "check_log" =>
    let sp : Spec := { window := ← nat j "window", nTries := ← nat j "n_tries", nCmds := ← nat j "n_cmds",
                       timeouts := ← ints j "timeouts" }
    let log ← (← arr j "log").mapM (fun o => do
      match ← asArr o with
      | [Json.str "send", s, c, t] => pure (Obs.send (← asNat s) (← asNat c) (← asInt t))
      | [Json.str "recv", i, rc, s, o] => pure (Obs.recv (← asNat i) (← asNat rc) (← asNat s) (← asOpt o asNat))
      | [Json.str "cb", c, i] => pure (Obs.cb (← asNat c) (← asNat i))
      | _ => .error "bad obs")
    let res ← match ← arr j "result" with
      | [Json.str "done"] => pure Res.done
      | [Json.str "timeout", c] => pure (Res.timeout (← asNat c))
      | [Json.str "fatal", rc, c] => pure (Res.fatal (← asNat rc) (← asOpt c asNat))
      | _ => pure Res.exhausted
    pure (jList ((checkLog sp log res).map Json.str))
  | _ => .error s!"unknown op {op}"

end Rig.C06
