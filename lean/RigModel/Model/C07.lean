/-
C07 - model of remote memory access:
  SCPConnection.read / SCPConnection.write   (rig/machine_control/scp_connection.py)
  MachineController.read_across_link / write_across_link / fill  (machine_controller.py)
and the machine's memory specification the theorems are stated against.

`buf` is the machine's advertised data-buffer size (`scp_data_length`).
The Python `while` loops terminate only for buf ≥ 1 (≥ 4 for the link
variants); the models take the remaining length as fuel, which is exactly
enough under that precondition (theorems state it).
-/
import RigModel.Model.Proto
import RigModel.Gen.Scp

namespace Rig.C07
open Rig.Gen.Scp

/-- `consts.address_length_dtype[(addr % 4, size % 4)]` (table regenerated from source) -/
def dtype (addr size : Nat) : Nat := dtypeTable.getD (4 * (addr % 4) + size % 4) 0

/-- the hardware rule, written independently: word access only when address and length are
word aligned, half-word only when both are half-word aligned, else byte -/
def dtypeSpec (addr size : Nat) : Nat :=
  if addr % 4 = 0 ∧ size % 4 = 0 then 2 else if addr % 2 = 0 ∧ size % 2 = 0 then 1 else 0

/-- one SCP read/write command: address, size, access type, payload (writes) -/
structure Chunk where
  addr : Nat
  size : Nat
  dt : Nat
  data : List Nat
  deriving Repr, DecidableEq

/-- the generator in `SCPConnection.read`: `while length_bytes > 0: block = min(length, buf) ...` -/
def readChunks (buf : Nat) : Nat → Nat → Nat → List Chunk
  | 0, _, _ => []
  | fuel + 1, addr, len =>
    if len > 0 then
      let block := min len buf
      { addr := addr, size := block, dt := dtype addr block, data := [] } ::
        readChunks buf fuel (addr + block) (len - block)
    else []

def read (buf addr len : Nat) : List Chunk := readChunks buf len addr len

/-- the generator in `SCPConnection.write`: `while pos < end: block = data[pos:pos+buf] ...` -/
def writeChunks (buf : Nat) : Nat → Nat → List Nat → List Chunk
  | 0, _, _ => []
  | fuel + 1, addr, data =>
    if data.length > 0 then
      let block := data.take buf
      { addr := addr, size := block.length, dt := dtype addr block.length, data := block } ::
        writeChunks buf fuel (addr + block.length) (data.drop buf)
    else []

def write (buf addr : Nat) (data : List Nat) : List Chunk := writeChunks buf data.length addr data

inductive LinkErr where
  | valueError
  deriving Repr, DecidableEq

/-- `read_across_link`: whole words only, `to_read = min(length, buf & ~3)` -/
def linkReadChunks (buf : Nat) : Nat → Nat → Nat → List Chunk
  | 0, _, _ => []
  | fuel + 1, addr, len =>
    if len > 0 then
      let n := min len (buf / 4 * 4)
      { addr := addr, size := n, dt := 2, data := [] } :: linkReadChunks buf fuel (addr + n) (len - n)
    else []

def linkRead (buf addr len : Nat) : Except LinkErr (List Chunk) :=
  if addr % 4 ≠ 0 then .error .valueError
  else if len % 4 ≠ 0 then .error .valueError
  else .ok (linkReadChunks buf len addr len)

def linkWriteChunks (buf : Nat) : Nat → Nat → List Nat → List Chunk
  | 0, _, _ => []
  | fuel + 1, addr, data =>
    if data.length > 0 then
      let n := min data.length (buf / 4 * 4)
      { addr := addr, size := n, dt := 2, data := data.take n } ::
        linkWriteChunks buf fuel (addr + n) (data.drop n)
    else []

def linkWrite (buf addr : Nat) (data : List Nat) : Except LinkErr (List Chunk) :=
  if addr % 4 ≠ 0 then .error .valueError
  else if data.length % 4 ≠ 0 then .error .valueError
  else .ok (linkWriteChunks buf data.length addr data)

/-- `MachineController.fill`: a single fill command when address and size are word aligned,
otherwise a byte-wise `write` of `size` copies of the byte -/
inductive FillPlan where
  | fillCmd (addr word size : Nat)
  | writes (chunks : List Chunk)
  | structError
  deriving Repr, DecidableEq

def fill (buf addr data size : Nat) : FillPlan :=
  if size % 4 ≠ 0 ∨ addr % 4 ≠ 0 then
    if data < 256 then .writes (write buf addr (List.replicate size data)) else .structError
  else .fillCmd addr data size

/-! ### memory specification -/

/-- a chip's memory: address ↦ byte -/
abbrev Mem := Nat → Nat

def readMem (m : Mem) (addr n : Nat) : List Nat := (List.range n).map (fun i => m (addr + i))

/-- memory after storing `data` at `addr` -/
def writeMem (m : Mem) (addr : Nat) (data : List Nat) : Mem :=
  fun a => if addr ≤ a ∧ a < addr + data.length then data.getD (a - addr) 0 else m a

/-- the machine executes one write command -/
def execWrite (m : Mem) (c : Chunk) : Mem := writeMem m c.addr c.data

/-- the receive buffer of `SCPConnection.read` is a memory indexed from 0; a completed chunk
stores its reply at its offset -/
def placeReply (m : Mem) (base : Nat) (buffer : Mem) (c : Chunk) : Mem :=
  writeMem buffer (c.addr - base) (readMem m c.addr c.size)

def le32 (w : Nat) : List Nat := [w % 256, w / 256 % 256, w / 65536 % 256, w / 16777216 % 256]

/-- the machine executes a fill command: `size / 4` little-endian copies of the word -/
def execFill (m : Mem) (addr word size : Nat) : Mem :=
  writeMem m addr ((List.replicate (size / 4) (le32 word)).flatten)

/-! ### line protocol -/
open Lean Rig.P

def chunkToJson (c : Chunk) : Json :=
  jList [jNat c.addr, jNat c.size, jNat c.dt, jNats c.data]

def handle (op : String) (j : Json) : R Json := do
  let chunks (l : List Chunk) : Json := jList (l.map chunkToJson)
  match op with
  | "read" => pure (chunks (read (← nat j "buf") (← nat j "addr") (← nat j "len")))
  | "write" => pure (chunks (write (← nat j "buf") (← nat j "addr") (← nats j "data")))
  | "link_read" =>
    match linkRead (← nat j "buf") (← nat j "addr") (← nat j "len") with
    | .ok l => pure (jOk (chunks l))
    | .error _ => pure (jErr "ValueError")
  | "link_write" =>
    match linkWrite (← nat j "buf") (← nat j "addr") (← nats j "data") with
    | .ok l => pure (jOk (chunks l))
    | .error _ => pure (jErr "ValueError")
  | "fill" =>
    match fill (← nat j "buf") (← nat j "addr") (← nat j "data") (← nat j "size") with
    | .fillCmd a w s => pure (Json.mkObj [("fill", jNats [a, w, s])])
    | .writes l => pure (Json.mkObj [("writes", chunks l)])
    | .structError => pure (jErr "struct.error")
  | "dtype_spec" => pure (jNat (dtypeSpec (← nat j "addr") (← nat j "size")))
  | _ => .error s!"unknown op {op}"

end Rig.C07
