/-
Line-protocol helpers shared by every model: JSON accessors in `Except String`
and encoders.  Core Lean only (no Mathlib) so the driver links as an executable.
-/
import Lean.Data.Json
open Lean

namespace Rig
namespace P

abbrev R := Except String

def field (j : Json) (k : String) : R Json :=
  match j.getObjVal? k with
  | .ok v => .ok v
  | .error _ => .error s!"missing field {k}"

def asInt (j : Json) : R Int :=
  match j.getInt? with
  | .ok v => .ok v
  | .error e => .error e

def asNat (j : Json) : R Nat := do
  let i ← asInt j
  if i < 0 then .error "negative nat" else pure i.toNat

def asBool (j : Json) : R Bool :=
  match j.getBool? with
  | .ok v => .ok v
  | .error e => .error e

def asStr (j : Json) : R String :=
  match j.getStr? with
  | .ok v => .ok v
  | .error e => .error e

def asArr (j : Json) : R (List Json) :=
  match j.getArr? with
  | .ok v => .ok v.toList
  | .error e => .error e

def int (j : Json) (k : String) : R Int := field j k >>= asInt
def nat (j : Json) (k : String) : R Nat := field j k >>= asNat
def bool (j : Json) (k : String) : R Bool := field j k >>= asBool
def str (j : Json) (k : String) : R String := field j k >>= asStr
def arr (j : Json) (k : String) : R (List Json) := field j k >>= asArr
def nats (j : Json) (k : String) : R (List Nat) := do (← arr j k).mapM asNat
def ints (j : Json) (k : String) : R (List Int) := do (← arr j k).mapM asInt

/-- optional field: JSON `null` or absent gives `none` -/
def opt (j : Json) (k : String) (f : Json → R α) : R (Option α) :=
  match j.getObjVal? k with
  | .ok .null => pure none
  | .ok v => some <$> f v
  | .error _ => pure none

def asOpt (j : Json) (f : Json → R α) : R (Option α) :=
  match j with
  | .null => pure none
  | v => some <$> f v

def asPair (j : Json) (f : Json → R α) (g : Json → R β) : R (α × β) := do
  match ← asArr j with
  | [a, b] => pure (← f a, ← g b)
  | _ => .error "expected pair"

def jNat (n : Nat) : Json := Json.num (JsonNumber.fromNat n)
def jInt (n : Int) : Json := Json.num (JsonNumber.fromInt n)
def jNats (l : List Nat) : Json := Json.arr (l.map jNat).toArray
def jInts (l : List Int) : Json := Json.arr (l.map jInt).toArray
def jList (l : List Json) : Json := Json.arr l.toArray
def jOpt (f : α → Json) : Option α → Json
  | none => Json.null
  | some a => f a
def jErr (e : String) : Json := Json.mkObj [("err", Json.str e)]
def jOk (v : Json) : Json := Json.mkObj [("ok", v)]
def jPair (a b : Json) : Json := Json.arr #[a, b]

end P
end Rig
