/-
C20 - model of rig/machine_control/boot.py (`boot`, `boot_packet`) and of
rig/machine_control/struct_file.py (`Struct.update_default_values`, `Struct.pack`).

Python facts transliterated:
* `dict` is insertion ordered; `d.update(kw)` overwrites the value of a present key in
  place and appends an absent key (`dictSet`, `dictUpdate`);
* `update_default_values(**d)` walks `d` in order and raises `KeyError` at the first name
  that is not a field; a replaced field keeps its position in `fields`;
* `struct.pack("<B"/"<b"/"<H"/"<I", v)` raises `struct.error` when `v` is out of range,
  any other pack string (e.g. "16s") raises `struct.error` for an integer default;
* `data[a:b] = p` on a bytearray with `0 <= a <= b` replaces `data[min a n : min b n]` by `p`
  (`splice`), so it can lengthen the buffer;
* the default value `sv_overrides=dict()` is ONE object created at definition time.  The code
  as written updates it (or the caller's dictionary) in place; the repaired code copies first.
  Both behaviours are modelled (`leaky : Bool`), the theorems say which one has the property.
-/
import RigModel.Model.Proto
import RigModel.Gen.C20Boot

namespace Rig.C20
open Rig.Gen.C20Boot

inductive Err where
  | keyError (name : String)   -- update_default_values: no such field
  | structError                -- struct.pack: value out of range / not packable
  | assertPacked               -- assert len(struct_packed) >= 128
  | assertDTCM                 -- assert len(buf) < DTCM_SIZE
  | assertWord                 -- boot_packet: assert len(data) % 4 == 0
  deriving Repr, DecidableEq

structure Field where
  name : String
  pack : String      -- Python struct characters: "B", "b", "H", "I", or anything else
  offset : Nat
  printf : String
  default : Int
  length : Nat
  deriving Repr, DecidableEq

abbrev Dict := List (String × Int)

/-- `d[k] = v` on an insertion-ordered dict -/
def dictSet : Dict → String → Int → Dict
  | [], k, v => [(k, v)]
  | (k', v') :: r, k, v => if k' = k then (k', v) :: r else (k', v') :: dictSet r k v

/-- `d.update(kw)` -/
def dictUpdate (d kw : Dict) : Dict := kw.foldl (fun d p => dictSet d p.1 p.2) d

/-- value of the LAST pair with key `k` (what a sequence of assignments leaves behind) -/
def dictGet : Dict → String → Option Int
  | [], _ => none
  | (k', v') :: r, k =>
    match dictGet r k with
    | some v => some v
    | none => if k' = k then some v' else none

/-- `self[fname] = self[fname]._replace(default=value)`; `none` = KeyError -/
def setDefault : List Field → String → Int → Option (List Field)
  | [], _, _ => none
  | f :: r, k, v =>
    if f.name = k then some ({ f with default := v } :: r)
    else match setDefault r k v with
      | some r' => some (f :: r')
      | none => none

/-- `Struct.update_default_values(**d)` -/
def updateDefaults : List Field → Dict → Except Err (List Field)
  | fs, [] => .ok fs
  | fs, (k, v) :: r =>
    match setDefault fs k v with
    | some fs' => updateDefaults fs' r
    | none => .error (.keyError k)

/-- `w` little-endian bytes of `v` -/
def leBytes : Nat → Nat → List Nat
  | 0, _ => []
  | w + 1, v => v % 256 :: leBytes w (v / 256)

/-- number of bytes written by a pack string (0 = not packable with an integer) -/
def packWidth (pc : String) : Nat :=
  if pc = "B" then 1 else if pc = "b" then 1 else if pc = "H" then 2 else if pc = "I" then 4 else 0

/-- `struct.pack(b"<" + pack_chars, default)` -/
def packValue (pc : String) (v : Int) : Except Err (List Nat) :=
  if pc = "B" then (if 0 ≤ v ∧ v < 256 then .ok (leBytes 1 v.toNat) else .error .structError)
  else if pc = "b" then (if -128 ≤ v ∧ v < 128 then .ok (leBytes 1 (v % 256).toNat) else .error .structError)
  else if pc = "H" then (if 0 ≤ v ∧ v < 65536 then .ok (leBytes 2 v.toNat) else .error .structError)
  else if pc = "I" then (if 0 ≤ v ∧ v < 4294967296 then .ok (leBytes 4 v.toNat) else .error .structError)
  else .error .structError

/-- `data[a:b] = p` for `a ≤ b` (Python clamps both ends to `len data`) -/
def splice (data : List Nat) (a b : Nat) (p : List Nat) : List Nat :=
  data.take a ++ p ++ data.drop (max a b)

/-- loop body of `Struct.pack` -/
def packStep (data : List Nat) (f : Field) : Except Err (List Nat) :=
  match packValue f.pack f.default with
  | .ok p => .ok (splice data f.offset (p.length + f.offset) p)
  | .error e => .error e

def packLoop : List Nat → List Field → Except Err (List Nat)
  | data, [] => .ok data
  | data, f :: r =>
    match packStep data f with
    | .ok d => packLoop d r
    | .error e => .error e

/-- `Struct.pack` -/
def structPack (size : Nat) (fs : List Field) : Except Err (List Nat) :=
  packLoop (List.replicate size 0) fs

/-! ### boot packets -/

def be16 (n : Nat) : List Nat := [n / 256 % 256, n % 256]
def be32 (n : Nat) : List Nat := [n / 16777216 % 256, n / 65536 % 256, n / 256 % 256, n % 256]

/-- `struct.pack("!H4I", PROTOCOL_VERSION, cmd, arg1, arg2, arg3)` (all values in range here) -/
def headerV (ver cmd a1 a2 a3 : Nat) : List Nat :=
  be16 ver ++ be32 cmd ++ be32 a1 ++ be32 a2 ++ be32 a3

def header (cmd a1 a2 a3 : Nat) : List Nat := headerV PROTOCOL_VERSION cmd a1 a2 a3

/-- little-endian words re-packed big-endian: every group of four bytes reversed.
(`boot_packet` asserts `len % 4 = 0` first; a remainder is kept as it is so the function is total) -/
def swapWords : List Nat → List Nat
  | a :: b :: c :: d :: rest => d :: c :: b :: a :: swapWords rest
  | rest => rest

inductive Event where
  | connect (host : String) (port : Nat)
  | send (bytes : List Nat)
  | sleepBoot          -- time.sleep(boot_delay)
  | sleepPost          -- time.sleep(post_boot_delay)
  | close
  deriving Repr, DecidableEq

/-- `boot_packet(sock, cmd, a1, a2, a3, data)`; `none` = AssertionError before sending -/
def bootPacket (cmd a1 a2 a3 : Nat) (data : List Nat) : Option Event :=
  if data.length % 4 = 0 then some (.send (header cmd a1 a2 a3 ++ swapWords data)) else none

/-- `boot_packet` called directly with arbitrary integers: `struct.pack("!H4I", ...)` raises
`struct.error` for a value outside `0 .. 2^32-1` (before the word-size assertion is reached) -/
def bootPacketChecked (cmd a1 a2 a3 : Int) (data : List Nat) : Except Err Event :=
  if [cmd, a1, a2, a3].all (fun v => decide (0 ≤ v ∧ v < 4294967296)) then
    match bootPacket cmd.toNat a1.toNat a2.toNat a3.toNat data with
    | some ev => .ok ev
    | none => .error .assertWord
  else .error .structError

/-- the `while len(boot_data) > 0` loop; fuel = `len(boot_data)` suffices -/
def sendBlocks : Nat → List Nat → Nat → List Event × Option Err
  | 0, _, _ => ([], none)
  | fuel + 1, data, block =>
    if data = [] then ([], none)
    else
      match bootPacket CMD_SEND_BLOCK (((BOOT_WORD_SIZE - 1) <<< 8) ||| block) 0 0 (data.take BOOT_BYTE_SIZE) with
      | none => ([], some .assertWord)
      | some ev =>
        let r := sendBlocks fuel (data.drop BOOT_BYTE_SIZE) (block + 1)
        (ev :: .sleepBoot :: r.1, r.2)

/-- one struct definition of the struct file -/
structure StructDef where
  name : String
  size : Nat
  base : Nat
  fields : List Field
  deriving Repr, DecidableEq

/-- everything a call of `boot` depends on -/
structure Call where
  host : String
  port : Nat
  image : List Nat                 -- contents of `scamp_binary`
  svSize : Nat                     -- `structs[b"sv"].size` read from `sark_struct`
  svFields : List Field            -- `structs[b"sv"].fields` in file order
  sv : Option Nat                  -- `sv_overrides`: none = default, some i = the caller's i-th dictionary object
  kwargs : Dict                    -- `**kwargs`
  t1 : Int                         -- int(time.time()) first evaluation
  t2 : Int                         -- second evaluation
  deriving Repr, DecidableEq

def timeOpts (t1 t2 : Int) : Dict := [("unix_time", t1), ("boot_sig", t2), ("root_chip", 1)]

/-- fields of `sv` after both `update_default_values` calls -/
def finalFields (c : Call) (opts : Dict) : Except Err (List Field) :=
  match updateDefaults c.svFields opts with
  | .ok fs => updateDefaults fs (timeOpts c.t1 c.t2)
  | .error e => .error e

/-- `buf`: the image with the configuration area replaced -/
def bootImage (image packed : List Nat) : List Nat :=
  splice image BOOT_DATA_OFFSET (BOOT_DATA_OFFSET + BOOT_DATA_LENGTH) (packed.take BOOT_DATA_LENGTH)

/-- `(len(buf) + BOOT_BYTE_SIZE - 1) // BOOT_BYTE_SIZE` -/
def nBlocks (buf : List Nat) : Nat := (buf.length + BOOT_BYTE_SIZE - 1) / BOOT_BYTE_SIZE

/-- the socket part of `boot` -/
def transmit (host : String) (port : Nat) (buf : List Nat) : List Event × Option Err :=
  match bootPacket CMD_START 0 0 (nBlocks buf - 1) [] with
  | none => ([.connect host port], some .assertWord)
  | some st =>
    match sendBlocks buf.length buf 0 with
    | (evs, some e) => (.connect host port :: st :: .sleepBoot :: evs, some e)
    | (evs, none) =>
      match bootPacket CMD_END 1 0 0 [] with
      | none => (.connect host port :: st :: .sleepBoot :: evs, some .assertWord)
      | some en => (.connect host port :: st :: .sleepBoot :: evs ++ [en, .close, .sleepPost], none)

/-- result of one call: socket/clock events and either the returned `sv` fields or the exception -/
structure Outcome where
  events : List Event
  result : Except Err (List Field)

/-- the body of `boot` once the effective option dictionary `opts` is known -/
def bootCore (c : Call) (opts : Dict) : Outcome :=
  match finalFields c opts with
  | .error e => ⟨[], .error e⟩
  | .ok fs =>
    match structPack c.svSize fs with
    | .error e => ⟨[], .error e⟩
    | .ok packed =>
      if packed.length < 128 then ⟨[], .error .assertPacked⟩
      else
        let buf := bootImage c.image packed
        if ¬ buf.length < DTCM_SIZE then ⟨[], .error .assertDTCM⟩
        else
          match transmit c.host c.port buf with
          | (evs, some e) => ⟨evs, .error e⟩
          | (evs, none) => ⟨evs, .ok fs⟩

/-- process state relevant to `boot`: the default-argument dictionary and the caller's dictionaries -/
structure State where
  shared : Dict
  store : List Dict
  deriving Repr, DecidableEq

def State.init (store : List Dict) : State := ⟨[], store⟩

def State.lookup (s : State) : Option Nat → Dict
  | none => s.shared
  | some i => s.store.getD i []

def State.write (s : State) (which : Option Nat) (d : Dict) : State :=
  match which with
  | none => { s with shared := d }
  | some i => { s with store := s.store.set i d }

/-- one call of `boot`.  `leaky = true`: the code as written (`sv_overrides.update(kwargs)` on
the object it was handed); `leaky = false`: the repaired code (copy, then update). -/
def bootStep (leaky : Bool) (s : State) (c : Call) : State × Outcome :=
  let opts := dictUpdate (s.lookup c.sv) c.kwargs
  (if leaky then s.write c.sv opts else s, bootCore c opts)

/-- a history of calls in one process -/
def runHistory (leaky : Bool) : State → List Call → List Outcome
  | _, [] => []
  | s, c :: cs => (bootStep leaky s c).2 :: runHistory leaky (bootStep leaky s c).1 cs

/-! ### specification (written independently of the functions above) -/

def sends : List Event → List (List Nat)
  | [] => []
  | .send b :: r => b :: sends r
  | _ :: r => sends r

/-- the value a field must carry for this call: clock fields, else this call's options, else the
file's default -/
def expectedDefault (c : Call) (opts : Dict) (f : Field) : Int :=
  match dictGet (timeOpts c.t1 c.t2) f.name with
  | some v => v
  | none => match dictGet opts f.name with
    | some v => v
    | none => f.default

/-- byte `j` of the little-endian two's complement encoding of `v` -/
def leByte (v : Int) (j : Nat) : Nat := ((v / (256 : Int) ^ j) % 256).toNat

/-- fields do not overlap, lie inside the struct and have an integer pack code -/
def tableOK (size : Nat) (fs : List Field) : Bool :=
  fs.all (fun f => 0 < packWidth f.pack && f.offset + packWidth f.pack ≤ size) &&
  fs.Pairwise (fun f g => f.offset + packWidth f.pack ≤ g.offset ∨ g.offset + packWidth g.pack ≤ f.offset) &&
  fs.Pairwise (fun f g => f.name ≠ g.name)

/-- the 128-byte configuration area `cfg` holds exactly the expected values -/
def configOK (c : Call) (opts : Dict) (cfg : List Nat) : Bool :=
  cfg.length == 128 &&
  c.svFields.all (fun f => (List.range (packWidth f.pack)).all (fun j =>
    decide (128 ≤ f.offset + j) || cfg[f.offset + j]? == some (leByte (expectedDefault c opts f) j))) &&
  (List.range 128).all (fun i =>
    c.svFields.any (fun f => decide (f.offset ≤ i ∧ i < f.offset + packWidth f.pack)) || cfg[i]? == some 0)

/-- payload of block `i`: bytes `1024 i .. 1024 i + 1023` of the buffer -/
def payload (buf : List Nat) (i : Nat) : List Nat := (buf.drop (1024 * i)).take 1024

/-- datagram of block `i` when numbering starts at `b`: command 3, arg1 = (255 << 8) | number,
then the payload with every word byte-swapped -/
def blockDg (buf : List Nat) (b i : Nat) : List Nat :=
  headerV 1 3 (255 * 256 + (b + i)) 0 0 ++ swapWords (payload buf i)

/-- the documented datagram sequence for a buffer: start(n-1), blocks 0..n-1, end(1) -/
def bootDatagrams (buf : List Nat) : List (List Nat) :=
  headerV 1 1 0 0 ((buf.length + 1023) / 1024 - 1) ::
    ((List.range ((buf.length + 1023) / 1024)).map (blockDg buf 0) ++ [headerV 1 5 1 0 0])

/-- shape of the datagram sequence: start(n-1), n blocks numbered 0..n-1 of at most 1 KiB, end(1) -/
def shapeOK (dgs : List (List Nat)) : Bool :=
  match dgs with
  | [] => false
  | start :: rest =>
    match rest.getLast? with
    | none => false
    | some en =>
      let blocks := rest.dropLast
      decide (1 ≤ blocks.length) && start == headerV 1 1 0 0 (blocks.length - 1) && en == headerV 1 5 1 0 0 &&
      (List.range blocks.length).all (fun i =>
        let b := blocks.getD i []
        b.take 18 == headerV 1 3 (255 * 256 + i) 0 0 && decide (18 ≤ b.length ∧ b.length ≤ 18 + 1024 ∧ (b.length - 18) % 4 = 0))

/-- undo the byte swap of every block payload and concatenate -/
def reassemble (dgs : List (List Nat)) : List Nat :=
  ((dgs.drop 1).dropLast.map (fun b => swapWords (b.drop 18))).flatten

/-- image clause: same length and identical outside bytes 384..511 -/
def imageOK (c : Call) (img : List Nat) : Bool :=
  img.length == c.image.length &&
  img.take 384 == c.image.take 384 &&
  img.drop 512 == c.image.drop 512

/-- returned struct: the file's fields, in order, with the expected values as defaults -/
def returnedOK (c : Call) (opts : Dict) (ret : List Field) : Bool :=
  ret == c.svFields.map (fun f => { f with default := expectedDefault c opts f })

/-- the property for one call whose own options are `opts` -/
def specOK (c : Call) (opts : Dict) (dgs : List (List Nat)) (ret : List Field) : Bool :=
  shapeOK dgs && imageOK c (reassemble dgs) &&
  configOK c opts (((reassemble dgs).drop 384).take 128) && returnedOK c opts ret

/-- `v` is representable in a field with pack code `pc` -/
def valueFits (pc : String) (v : Int) : Bool :=
  if pc = "B" then decide (0 ≤ v ∧ v < 256) else if pc = "b" then decide (-128 ≤ v ∧ v < 128)
  else if pc = "H" then decide (0 ≤ v ∧ v < 65536) else if pc = "I" then decide (0 ≤ v ∧ v < 4294967296)
  else false

/-- the options (and the clock fields) name fields of the struct and every value fits its field -/
def optsValid (c : Call) (opts : Dict) : Bool :=
  (opts ++ timeOpts c.t1 c.t2).all (fun p => c.svFields.any (fun f => f.name = p.1)) &&
  c.svFields.all (fun f => valueFits f.pack (expectedDefault c opts f))

/-- domain of the property: word-multiple image with a configuration area, below the size limit;
well-formed struct table; options name fields and fit them -/
def Call.ImageDomain (c : Call) : Prop :=
  c.image.length % 4 = 0 ∧ 512 ≤ c.image.length ∧ c.image.length < 32768

def Call.InDomain (c : Call) : Prop :=
  c.ImageDomain ∧ tableOK c.svSize c.svFields = true ∧ 128 ≤ c.svSize

/-! ### line protocol -/
open Lean Rig.P

def fieldOfJson (j : Json) : R Field := do
  match ← asArr j with
  | [n, p, o, pf, d, l] =>
    pure { name := ← asStr n, pack := ← asStr p, offset := ← asNat o, printf := ← asStr pf,
           default := ← asInt d, length := ← asNat l }
  | _ => .error "field: expected 6 items"

def fieldToJson (f : Field) : Json :=
  jList [Json.str f.name, Json.str f.pack, jNat f.offset, Json.str f.printf, jInt f.default, jNat f.length]

def dictOfJson (j : Json) : R Dict := do
  (← asArr j).mapM (fun p => asPair p asStr asInt)

def dictToJson (d : Dict) : Json := jList (d.map fun p => jPair (Json.str p.1) (jInt p.2))

def rawField (t : String × String × Nat × String × Int × Nat) : Field :=
  { name := t.1, pack := t.2.1, offset := t.2.2.1, printf := t.2.2.2.1, default := t.2.2.2.2.1,
    length := t.2.2.2.2.2 }

/-- the struct file as translated from the source -/
def genStructs : List StructDef :=
  structs.map fun s => { name := s.1, size := s.2.1, base := s.2.2.1, fields := s.2.2.2.map rawField }

def genSv : StructDef :=
  match genStructs.find? (fun s => s.name = "sv") with
  | some s => s
  | none => { name := "sv", size := 0, base := 0, fields := [] }

/-- hex string -> bytes (two digits per byte) -/
def hexVal (c : Char) : Nat :=
  if '0' ≤ c ∧ c ≤ '9' then c.toNat - '0'.toNat
  else if 'a' ≤ c ∧ c ≤ 'f' then c.toNat - 'a'.toNat + 10 else 0

def unhexAux : List Char → List Nat
  | a :: b :: r => (hexVal a * 16 + hexVal b) :: unhexAux r
  | _ => []

def unhex (s : String) : List Nat := unhexAux s.toList

def hexDigit (n : Nat) : Char := if n < 10 then Char.ofNat (48 + n) else Char.ofNat (87 + n)
def hex (bs : List Nat) : String :=
  String.ofList (bs.flatMap fun b => [hexDigit (b / 16 % 16), hexDigit (b % 16)])

def callOfJson (j : Json) : R Call := do
  let (size, fields) ← match ← opt j "table" pure with
    | none => pure (genSv.size, genSv.fields)
    | some t => do pure (← nat t "size", ← (← arr t "fields").mapM fieldOfJson)
  pure { host := ← str j "host", port := ← nat j "port", image := unhex (← str j "image"),
         svSize := size, svFields := fields, sv := ← opt j "sv" asNat,
         kwargs := ← (field j "kwargs" >>= dictOfJson), t1 := ← int j "t1", t2 := ← int j "t2" }

def errToJson : Err → Json
  | .keyError n => Json.mkObj [("err", Json.str "KeyError"), ("key", Json.str n)]
  | .structError => jErr "struct.error"
  | .assertPacked => jErr "AssertionError:packed"
  | .assertDTCM => jErr "AssertionError:dtcm"
  | .assertWord => jErr "AssertionError:word"

def eventToJson : Event → Json
  | .connect h p => jList [Json.str "connect", Json.str h, jNat p]
  | .send b => jList [Json.str "send", Json.str (hex b)]
  | .sleepBoot => jList [Json.str "sleep", Json.str "boot"]
  | .sleepPost => jList [Json.str "sleep", Json.str "post"]
  | .close => jList [Json.str "close"]

def packetToJson : Except Err Event → Json
  | .ok ev => jOk (eventToJson ev)
  | .error e => errToJson e

def outcomeToJson (o : Outcome) : Json :=
  Json.mkObj [("events", jList (o.events.map eventToJson)),
    ("result", match o.result with
      | .ok fs => jOk (jList (fs.map fieldToJson))
      | .error e => errToJson e)]

def stateToJson (s : State) : Json :=
  Json.mkObj [("shared", dictToJson s.shared), ("store", jList (s.store.map dictToJson))]

/-- run a history, returning every outcome and the final state -/
def runHistoryState (leaky : Bool) : State → List Call → List Outcome × State
  | s, [] => ([], s)
  | s, c :: cs =>
    let r := bootStep leaky s c
    let (os, s') := runHistoryState leaky r.1 cs
    (r.2 :: os, s')

/-- the property oracle on the implementation's own output of one call: `jc` carries
`opts` (the options this call asked for) and optionally `datagrams` + `returned` -/
def specJson (jc : Json) : R Json := do
  let c ← callOfJson jc
  match ← opt jc "opts" dictOfJson with
  | none => pure Json.null
  | some opts =>
    let dom := decide (c.image.length % 4 = 0 ∧ 512 ≤ c.image.length ∧ c.image.length < 32768 ∧ 128 ≤ c.svSize)
      && tableOK c.svSize c.svFields
    let base := [("domain", Json.bool dom), ("opts_valid", Json.bool (optsValid c opts))]
    match ← opt jc "datagrams" asArr with
    | none => pure (Json.mkObj base)
    | some ds =>
      let dgs := (← ds.mapM asStr).map unhex
      let ret ← (← arr jc "returned").mapM fieldOfJson
      let img := reassemble dgs
      -- `packed`: what `pack()` of the returned sv definition gives (the definition must describe the
      -- configuration that was sent: same predicate `configOK` on its first 128 bytes)
      let packedJ ← match ← opt jc "packed" asStr with
        | none => pure []
        | some h => pure [("packed_ok", Json.bool (configOK c opts ((unhex h).take 128))),
                          ("packed_model", Json.bool (match structPack c.svSize ret with
                            | .ok b => b == unhex h
                            | .error _ => false))]
      pure (Json.mkObj (base ++ [("shape", Json.bool (shapeOK dgs)),
        ("image", Json.bool (imageOK c img)),
        ("config", Json.bool (configOK c opts ((img.drop 384).take 128))),
        ("returned", Json.bool (returnedOK c opts ret)),
        ("all", Json.bool (specOK c opts dgs ret))] ++ packedJ))

def handle (op : String) (j : Json) : R Json := do
  match op with
  | "history" =>
    let leaky ← bool j "leaky"
    let store ← (← arr j "store").mapM dictOfJson
    let jcalls ← arr j "calls"
    let calls ← jcalls.mapM callOfJson
    let (os, s) := runHistoryState leaky (State.init store) calls
    let specs ← jcalls.mapM specJson
    pure (Json.mkObj [("outcomes", jList (os.map outcomeToJson)), ("state", stateToJson s),
      ("specs", jList specs)])
  | "retcheck" =>
    -- a kept result read again later: does it still describe what this call configured?
    let c ← callOfJson j
    let opts ← field j "opts" >>= dictOfJson
    let ret ← (← arr j "returned").mapM fieldOfJson
    let packedJ ← match ← opt j "packed" asStr with
      | none => pure []
      | some h => pure [("packed_ok", Json.bool (configOK c opts ((unhex h).take 128)))]
    pure (Json.mkObj ([("returned", Json.bool (returnedOK c opts ret))] ++ packedJ))
  | "packet" =>
    -- a direct call of boot_packet(sock, cmd, arg1, arg2, arg3, data)
    let data := unhex (← str j "data")
    pure (packetToJson (bootPacketChecked (← int j "cmd") (← int j "a1") (← int j "a2") (← int j "a3") data))
  | "pack" =>
    let size ← nat j "size"
    let fs ← (← arr j "fields").mapM fieldOfJson
    match structPack size fs with
    | .ok b => pure (jOk (Json.str (hex b)))
    | .error e => pure (errToJson e)
  | "structs" =>
    pure (jList (genStructs.map fun s => jList [Json.str s.name, jNat s.size, jNat s.base,
      jList (s.fields.map fieldToJson)]))
  | "consts" =>
    pure (Json.mkObj [("BOOT_PORT", jNat BOOT_PORT), ("DTCM_SIZE", jNat DTCM_SIZE),
      ("spin", jList (spinOptions.map fun p => jPair (jNat p.1) (dictToJson p.2)))])
  | _ => .error s!"unknown op {op}"

end Rig.C20
