/-
C18 - model of the context mechanism of rig/utils/contexts.py
(`ContextMixin`, `Context`, `use_contextual_arguments`, `Required`) as used by
`MachineController` and `BMPController`, of the connection choice
(`MachineController._get_connection`, `BMPController._send_scp`) and of the
per-method wire rule ("which chip / core / application id / board does each
datagram of this method carry").

Shapes follow the code:

* `resolve` is the body of the decorator's wrapper `f_` (defaults padded with
  `Required`, positional prefix skipped, kw-only defaults added, context merged
  oldest -> newest and applied only to names that may still be set, explicit
  kwargs last, `Required` check in dict order -> `TypeError`);
* `bind` is Python's binding of `f(self, *args, **new_kwargs)`;
* the context stack is a list with the newest context first; `exec` runs a
  with-structured program (`with c(**ctx):`, `with mc.application(..):`,
  `update_current_context`, calls, `raise`) including every exit path;
* `bodyOf` transcribes, for every decorated method, the sends it performs and the
  decorated methods it calls in turn (inner calls go through `resolve` again
  with the same stack - exactly as in the code, where an inner `self.read(addr,
  n, x, y)` picks `p` up from the context).
-/
import RigModel.Model.Proto
import RigModel.Model.C18Types
import RigModel.Gen.Signatures
import RigModel.Gen.C18Consts
import RigModel.Gen.C18Bodies

namespace Rig.C18
open Rig.Gen.C18Consts

/-! ## insertion-ordered dict -/

def dget : Dict → String → Option Val
  | [], _ => none
  | (k', v) :: t, k => if k' = k then some v else dget t k

/-- the binding a Python dict built by successive assignment would hold: the last one -/
def dgetLast : Dict → String → Option Val
  | [], _ => none
  | (k', v) :: t, k =>
    match dgetLast t k with
    | some w => some w
    | none => if k' = k then some v else none

def dhas (d : Dict) (k : String) : Bool := (dget d k).isSome

/-- `d[k] = v`: replace in place, or append -/
def dset : Dict → String → Val → Dict
  | [], k, v => [(k, v)]
  | (k', v') :: t, k, v => if k' = k then (k', v) :: t else (k', v') :: dset t k v

/-- `d.update(u)` -/
def dupdate (d : Dict) : Dict → Dict
  | [] => d
  | (k, v) :: u => dupdate (dset d k v) u

/-- `dict(pairs)` -/
def dictOf (pairs : Dict) : Dict := dupdate [] pairs

def keys (d : Dict) : List String := d.map (·.1)

/-! ## the decorator -/

inductive Err where
  | missing (name : String)   -- TypeError("f: missing argument name") raised by the wrapper
  | bind                      -- TypeError raised by Python when calling f(self, *args, **new_kwargs)
  | noConnection              -- AssertionError of BMPController._send_scp
  deriving Repr, DecidableEq

/-- `defaults = [Required] * (len(arg_names) - len(defaults)) + list(defaults)` -/
def paddedDefaults (s : Sig) : List Val :=
  List.replicate (s.argNames.length - s.defaults.length) Val.required ++ s.defaults

/-- `new_kwargs = dict(zip(arg_names[1+len(args):], defaults[1+len(args):])); new_kwargs.update(kw_only)` -/
def baseKwargs (s : Sig) (nPos : Nat) : Dict :=
  dupdate (dictOf ((s.argNames.drop (1 + nPos)).zip ((paddedDefaults s).drop (1 + nPos)))) s.kwOnly

/-- `get_context_arguments()`: contexts merged oldest to newest (the stack is newest-first) -/
def merged : List Dict → Dict
  | [] => []
  | c :: older => dupdate (merged older) c

/-- `for name, val in context.items(): if name in new_kwargs: new_kwargs[name] = val` -/
def applyCtx (nk : Dict) : Dict → Dict
  | [] => nk
  | (n, v) :: rest => applyCtx (if dhas nk n then dset nk n v else nk) rest

def firstRequired : Dict → Option String
  | [] => none
  | (k, v) :: t => if v = Val.required then some k else firstRequired t

/-- the dictionary the wrapper has built just before the `Required` check -/
def newKwargs (s : Sig) (nPos : Nat) (kwargs : Dict) (stack : List Dict) : Dict :=
  dupdate (applyCtx (baseKwargs s nPos) (merged stack)) kwargs

/-- body of the wrapper `f_` up to (not including) the call of `f` -/
def resolve (s : Sig) (nPos : Nat) (kwargs : Dict) (stack : List Dict) : Except Err Dict :=
  match firstRequired (newKwargs s nPos kwargs stack) with
  | some k => .error (.missing k)
  | none => .ok (newKwargs s nPos kwargs stack)

/-- Python's binding of `f(self, *args, **new_kwargs)`: the parameter -> value map -/
def bind (s : Sig) (pos : List Val) (nk : Dict) : Except Err Dict :=
  if pos.length + 1 > s.argNames.length ∧ s.hasVarargs = false then .error .bind
  else if nk.any (fun kv => (s.argNames.take (1 + pos.length)).contains kv.1) then .error .bind
  else if s.hasKeywords = false ∧ nk.any (fun kv => !(s.argNames.contains kv.1)) then .error .bind
  else .ok (((s.argNames.drop 1).zip pos) ++ nk)

/-- innermost context that sets `k` (stack newest-first) -/
def ctxLookup : List Dict → String → Option Val
  | [], _ => none
  | c :: older, k =>
    match dgetLast c k with
    | some v => some v
    | none => ctxLookup older k

/-- the decorator's (documented) preconditions on a signature -/
def Sig.wf (s : Sig) : Bool :=
  s.argNames.head? == some "self" && s.argNames.Nodup && (keys s.kwOnly).Nodup &&
  (keys s.kwOnly).all (fun k => !(s.argNames.contains k)) &&
  decide (s.defaults.length < s.argNames.length) &&
  (s.kwOnly.isEmpty || s.hasKeywords)

/-! ## connections -/

/-- what `MachineController` knows: `_width/_height`, `_root_chip`, keys of `connections` other than `None` -/
structure McCfg where
  dims : Option (Nat × Nat)
  root : Option (Int × Int)
  conns : List (Int × Int)
  deriving Repr

/-! ### the dimensions `discover_connections` stores

`working_chips` = the chips the P2P table has a route to; `_width = max(x) + 1`, `_height = max(y) + 1`
over them - two independent maxima (the chip with the greatest x and the one with the greatest y
need not be the same chip). -/

def maxOf : List Nat → Nat
  | [] => 0
  | a :: t => max a (maxOf t)

/-- `(max(x for x, y in working_chips) + 1, max(y for x, y in working_chips) + 1)`; `max()` of nothing raises -/
def discoveredDims (working : List (Nat × Nat)) : Option (Nat × Nat) :=
  if working.isEmpty then none
  else some (maxOf (working.map (·.1)) + 1, maxOf (working.map (·.2)) + 1)

/-- the chips of a `mw x mh` P2P table that have a route (are not in `dead`) -/
def workingChips (mw mh : Nat) (dead : List (Nat × Nat)) : List (Nat × Nat) :=
  ((List.range mw).flatMap fun x => (List.range mh).map fun y => (x, y)).filter fun c => !(dead.contains c)

def ethOffsetAt (i j : Nat) : Int × Int := (ethOffset.getD i []).getD j (0, 0)

/-- `rig.geometry.spinn5_local_eth_coord(x, y, w, h, root_x, root_y)` -/
def localEth (x y : Int) (w h : Nat) (rx ry : Int) : Int × Int :=
  let d := ethOffsetAt ((y - ry) % 12).toNat ((x - rx) % 12).toNat
  ((x + d.1) % (w : Int), (y + d.2) % (h : Int))

/-- `MachineController._get_connection`: `none` is the initial connection (`connections[None]`) -/
def getConnection (c : McCfg) (x y : Int) : Option (Int × Int) :=
  match c.dims, c.root with
  | some (w, h), some (rx, ry) =>
    if c.conns.contains (localEth x y w h rx ry) then some (localEth x y w h rx ry) else none
  | _, _ => none

/-- `BMPController._send_scp` connection lookup: `(c, f, b)` then `(c, f)`; keys as lists -/
def bmpConnection (conns : List (List Int)) (c f b : Int) : Except Err (List Int) :=
  if conns.contains [c, f, b] then .ok [c, f, b]
  else if conns.contains [c, f] then .ok [c, f]
  else .error .noConnection

/-! ## per-method wire rules -/

inductive PKind where | scp | mem | bmp
  deriving Repr, DecidableEq

/-- allowed datagram: MC `(x, y, p)` + application id; BMP `(cabinet, frame, board)` + board mask -/
structure Pat where
  kind : PKind
  a : Val
  b : Val
  c : Val
  extra : Option Val
  deriving Repr, DecidableEq

def readSF : Op := .call "read_struct_field" [.dyn, .dyn, Ex.ref "x", Ex.ref "y"] []

/-- transcription of the method bodies of `MachineController` (sends and inner decorated calls only) -/
def mcBody : String → List Op
  | "send_scp" => [.scp (Ex.ref "x") (Ex.ref "y") (Ex.ref "p") none]
  | "discover_connections" =>
    [.call "get_p2p_routing_table" [Ex.ref "x", Ex.ref "y"] [],
     .call "get_software_version" [Ex.lit (.int 255), Ex.lit (.int 255), Ex.lit (.int 0)] [],     -- the `root_chip` property
     .call "get_ip_address" [.dyn, .dyn] [],
     .call "get_software_version" [.dyn, .dyn, Ex.lit (.int 0)] []]
  | "application" => []
  | "get_software_version" => [.scp (Ex.ref "x") (Ex.ref "y") (Ex.ref "processor") none]
  | "get_ip_address" => [.call "get_chip_info" [] [("x", Ex.ref "x"), ("y", Ex.ref "y")]]
  | "write" => [.mem (Ex.ref "x") (Ex.ref "y") (Ex.ref "p")]
  | "read" => [.mem (Ex.ref "x") (Ex.ref "y") (Ex.ref "p")]
  | "write_across_link" => [.scp (Ex.ref "x") (Ex.ref "y") (Ex.lit (.int 0)) none]
  | "read_across_link" => [.scp (Ex.ref "x") (Ex.ref "y") (Ex.lit (.int 0)) none]
  | "read_struct_field" => [.call "read" [.dyn, .dyn, Ex.ref "x", Ex.ref "y", Ex.ref "p"] []]
  | "write_struct_field" => [.call "write" [.dyn, .dyn, Ex.ref "x", Ex.ref "y", Ex.ref "p"] []]
  | "read_vcpu_struct_field" => [readSF, .call "read" [.dyn, .dyn, Ex.ref "x", Ex.ref "y"] []]
  | "write_vcpu_struct_field" => [readSF, .call "write" [.dyn, .dyn, Ex.ref "x", Ex.ref "y"] []]
  | "get_processor_status" => [readSF, .call "read" [.dyn, .dyn, Ex.ref "x", Ex.ref "y"] []]
  | "get_iobuf" => [.call "get_iobuf_bytes" [Ex.ref "p", Ex.ref "x", Ex.ref "y"] []]
  | "get_iobuf_bytes" =>
    [readSF, .call "read_vcpu_struct_field" [.dyn, Ex.ref "x", Ex.ref "y", Ex.ref "p"] [],
     .call "read" [.dyn, .dyn, Ex.ref "x", Ex.ref "y"] []]
  | "get_router_diagnostics" => [.call "read" [.dyn, .dyn] [("x", Ex.ref "x"), ("y", Ex.ref "y")]]
  | "iptag_set" => [.scp (Ex.ref "x") (Ex.ref "y") (Ex.lit (.int 0)) none]
  | "iptag_get" => [.scp (Ex.ref "x") (Ex.ref "y") (Ex.lit (.int 0)) none]
  | "iptag_clear" => [.scp (Ex.ref "x") (Ex.ref "y") (Ex.lit (.int 0)) none]
  | "set_led" => [.scp (Ex.ref "x") (Ex.ref "y") (Ex.lit (.int 0)) none]
  | "fill" =>
    [.call "write" [.dyn, .dyn, Ex.ref "x", Ex.ref "y", Ex.ref "p"] [], .scp (Ex.ref "x") (Ex.ref "y") (Ex.ref "p") none]
  | "sdram_alloc" =>
    [.scp (Ex.ref "x") (Ex.ref "y") (Ex.lit (.int 0)) (some (Ex.ref "app_id")), readSF,
     .call "read" [.dyn, .dyn, Ex.ref "x", Ex.ref "y"] [],
     .call "fill" [.dyn, Ex.lit (.int 0), Ex.ref "size", Ex.ref "x", Ex.ref "y", Ex.lit (.int 0)] []]
  | "sdram_alloc_as_filelike" =>
    [.call "sdram_alloc" [Ex.ref "size", Ex.ref "tag", Ex.ref "x", Ex.ref "y", Ex.ref "app_id", Ex.ref "clear"] []]
  | "sdram_free" => [.scp (Ex.ref "x") (Ex.ref "y") (Ex.lit (.int 0)) none]
  | "flood_fill_aplx" =>
    [.scp (Ex.lit (.int 255)) (Ex.lit (.int 255)) (Ex.lit (.int 0)) none,
     .call "read_struct_field" [.dyn, .dyn, Ex.lit (.int 255), Ex.lit (.int 255)] [],
     .scp (Ex.lit (.int 255)) (Ex.lit (.int 255)) (Ex.lit (.int 0)) (some (Ex.ref "app_id"))]
  | "load_application" =>
    [.call "flood_fill_aplx" [.dyn] [("app_id", Ex.ref "app_id"), ("wait", .lit (.bool true))],
     .call "count_cores_in_state" [.dyn, Ex.ref "app_id"] [],
     .call "read_vcpu_struct_field" [.dyn, .dyn, .dyn, .dyn] [],
     .call "send_signal" [.dyn, Ex.ref "app_id"] []]
  | "send_signal" => [.scp (Ex.lit (.int 255)) (Ex.lit (.int 255)) (Ex.lit (.int 0)) (some (Ex.ref "app_id"))]
  | "count_cores_in_state" =>
    -- a single state: one count command; an iterable of states: `self.count_cores_in_state(s, app_id)` per state
    [.scp (Ex.lit (.int 255)) (Ex.lit (.int 255)) (Ex.lit (.int 0)) (some (Ex.ref "app_id")),
     .call "count_cores_in_state" [.dyn, Ex.ref "app_id"] []]
  | "wait_for_cores_to_reach_state" => [.call "count_cores_in_state" [Ex.ref "state", Ex.ref "app_id"] []]
  | "load_routing_tables" =>
    [.call "load_routing_table_entries" [.dyn] [("x", .dyn), ("y", .dyn), ("app_id", Ex.ref "app_id")]]
  | "load_routing_table_entries" =>
    [.scp (Ex.ref "x") (Ex.ref "y") (Ex.lit (.int 0)) (some (Ex.ref "app_id")), readSF,
     .call "write" [.dyn, .dyn, Ex.ref "x", Ex.ref "y"] []]
  | "get_routing_table_entries" => [readSF, .call "read" [.dyn, .dyn, Ex.ref "x", Ex.ref "y"] []]
  | "clear_routing_table_entries" => [.scp (Ex.ref "x") (Ex.ref "y") (Ex.lit (.int 0)) (some (Ex.ref "app_id"))]
  | "get_p2p_routing_table" => [readSF, .call "read" [.dyn, .dyn, Ex.ref "x", Ex.ref "y"] []]
  | "get_chip_info" => [.scp (Ex.ref "x") (Ex.ref "y") (Ex.lit (.int 0)) none]
  | "get_working_links" => [.call "get_chip_info" [Ex.ref "x", Ex.ref "y"] []]
  | "get_num_working_cores" => [readSF]
  | "get_system_info" =>
    [.call "get_p2p_routing_table" [Ex.ref "x", Ex.ref "y"] [], .call "get_chip_info" [.dyn, .dyn] []]
  | _ => []

/-- transcription of the method bodies of `BMPController` -/
def bmpBody : String → List Op
  | "send_scp" => [.bmp (Ex.ref "cabinet") (Ex.ref "frame") (Ex.ref "board") none]
  | "get_software_version" => [.bmp (Ex.ref "cabinet") (Ex.ref "frame") (Ex.ref "board") none]
  | "set_power" => [.bmp (Ex.ref "cabinet") (Ex.ref "frame") (Ex.lit (.int 0)) (some (.mask "board"))]  -- always sent to board 0
  | "set_led" => [.bmp (Ex.ref "cabinet") (Ex.ref "frame") (Ex.first "board") (some (.mask "board"))]  -- to the first board named
  | "read_fpga_reg" => [.bmp (Ex.ref "cabinet") (Ex.ref "frame") (Ex.ref "board") none]
  | "write_fpga_reg" => [.bmp (Ex.ref "cabinet") (Ex.ref "frame") (Ex.ref "board") none]
  | "read_adc" => [.bmp (Ex.ref "cabinet") (Ex.ref "frame") (Ex.ref "board") none]
  | _ => []

def bodyOf (cls m : String) : List Op :=
  if cls = "MachineController" then mcBody m else if cls = "BMPController" then bmpBody m else []

def findSig (sigs : List Sig) (cls m : String) : Option Sig :=
  sigs.find? (fun s => s.cls = cls ∧ s.name = m)

/-- the value bound to a parameter (`<unbound>` never occurs for the names a rule of `bodyOf` uses) -/
def lookupV (bound : Dict) (n : String) : Val := (dget bound n).getD (.other "<unbound>")

def maskSum : List Int → Option Nat
  | [] => some 0
  | b :: t => if 0 ≤ b then (maskSum t).map (· + (1 <<< b.toNat : Nat)) else none

/-- `1 << board`, or `sum(1 << b for b in boards)` -/
def maskVal : Val → Val
  | .int b => if 0 ≤ b then .int ((1 <<< b.toNat : Nat) : Int) else .other "<mask>"
  | .ints l => match maskSum l with
    | some m => .int (m : Int)
    | none => .other "<mask>"
  | .dyn => .dyn
  | .bool b => .int (if b then 2 else 1)      -- `1 << True`
  | _ => .other "<mask>"

/-- `board if isinstance(board, int) else list(board)[0]` -/
def firstVal : Val → Val
  | .ints (h :: _) => .int h
  | .ints [] => .other "<empty>"
  | v => v

def evalEx (bound : Dict) : Ex → Val
  | .ref n => lookupV bound n
  | .lit v => v
  | .dyn => .dyn
  | .mask n => maskVal (lookupV bound n)
  | .first n => firstVal (lookupV bound n)

def evalKw (bound : Dict) : List (String × Ex) → Dict
  | [] => []
  | (k, e) :: t => (k, evalEx bound e) :: evalKw bound t

/-- the datagrams a method may put on the wire, given its bound parameters and the
context stack in force (inner decorated calls are resolved against the same stack); generic in the
table of method bodies: the hand-written `bodyOf`, or the one extracted from the source (`genBody`) -/
def wireB (body : String → String → List Op) (sigs : List Sig) (cls : String) :
    Nat → String → Dict → List Dict → List Pat
  | 0, _, _, _ => []
  | fuel + 1, m, bound, stack =>
    (body cls m).flatMap fun op =>
      match op with
      | .scp x y p app => [⟨.scp, evalEx bound x, evalEx bound y, evalEx bound p, app.map (evalEx bound)⟩]
      | .mem x y p => [⟨.mem, evalEx bound x, evalEx bound y, evalEx bound p, none⟩]
      | .bmp c f b mk => [⟨.bmp, evalEx bound c, evalEx bound f, evalEx bound b, mk.map (evalEx bound)⟩]
      | .unknown _ => [⟨.scp, .dyn, .dyn, .dyn, some .dyn⟩]
      | .call m' pos kw =>
        match findSig sigs cls m' with
        | none => []
        | some s =>
          let pv := pos.map (evalEx bound)
          match resolve s pv.length (evalKw bound kw) stack with
          | .error _ => []
          | .ok nk =>
            match bind s pv nk with
            | .error _ => []
            | .ok b => wireB body sigs cls fuel m' b stack

/-- the wire rules of the hand-written transcription (the one the oracle uses) -/
abbrev wire (sigs : List Sig) (cls : String) : Nat → String → Dict → List Dict → List Pat :=
  wireB bodyOf sigs cls

def wireFuel : Nat := 8

/-! ## the wire rules, symbolically

`absWire` runs `bodyOf` with *symbolic* arguments: every field of a request is an
expression over the parameters of the method the caller invoked (`some e`), or
`none` when an inner decorated call leaves the parameter to the context stack or
its default.  It does not look at the stack, the passing style or any value.
`Props/C18Wire.lean` proves it sound for `wire` (for all values and stacks) and
checks the result against `ruleOk` for every generated signature. -/

/-- symbolic environment: parameter of the current method -> expression over the caller's parameters -/
abbrev AEnv := String → Option Ex

def env0 : AEnv := fun n => some (.ref n)

def subst (env : AEnv) : Ex → Option Ex
  | .ref n => env n
  | .lit v => some (.lit v)
  | .dyn => some .dyn
  | .mask n => match env n with
    | some (.ref m) => some (.mask m)
    | _ => none
  | .first n => match env n with
    | some (.ref m) => some (.first m)
    | _ => none

/-- the positional argument bound to parameter `n` -/
def zipFind : List String → List Ex → String → Option Ex
  | k :: ks, x :: xs, n => if k = n then some x else zipFind ks xs n
  | _, _, _ => none

/-- the keyword argument given for `n` (the last one, as `dict.update` keeps it) -/
def kwLast : List (String × Ex) → String → Option Ex
  | [], _ => none
  | (k, e) :: t, n =>
    match kwLast t n with
    | some w => some w
    | none => if k = n then some e else none

/-- symbolic `resolve` + `bind` of an inner call `self.m'(*pos, **kw)`: positional, else keyword, else unknown -/
def absEnv (s : Sig) (env : AEnv) (pos : List Ex) (kw : List (String × Ex)) : AEnv := fun n =>
  match zipFind (s.argNames.drop 1) pos n with
  | some x => subst env x
  | none => (kwLast kw n).bind (subst env)

structure APat where
  kind : PKind
  a : Option Ex
  b : Option Ex
  c : Option Ex
  extra : Option (Option Ex)
  deriving Repr, DecidableEq

def absWireB (body : String → String → List Op) (sigs : List Sig) (cls : String) : Nat → String → AEnv → List APat
  | 0, _, _ => []
  | fuel + 1, m, env =>
    (body cls m).flatMap fun op =>
      match op with
      | .scp x y p app => [⟨.scp, subst env x, subst env y, subst env p, app.map (subst env)⟩]
      | .mem x y p => [⟨.mem, subst env x, subst env y, subst env p, none⟩]
      | .bmp c f b mk => [⟨.bmp, subst env c, subst env f, subst env b, mk.map (subst env)⟩]
      | .unknown _ => [⟨.scp, none, none, none, some none⟩]      -- nothing is known: fails every rule
      | .call m' pos kw =>
        match findSig sigs cls m' with
        | none => []
        | some s => absWireB body sigs cls fuel m' (absEnv s env pos kw)

abbrev absWire (sigs : List Sig) (cls : String) : Nat → String → AEnv → List APat := absWireB bodyOf sigs cls

/-- the symbolic requests of a method called by the user -/
def rulesOfB (body : String → String → List Op) (sigs : List Sig) (s : Sig) : List APat :=
  absWireB body sigs s.cls wireFuel s.name env0

abbrev rulesOf (sigs : List Sig) (s : Sig) : List APat := rulesOfB bodyOf sigs s

/-- where a MachineController request may go -/
inductive Chip where
  | own    -- the (x, y) resolved for the call
  | root   -- (255, 255): the chip the initial connection talks to (broadcast commands, `root_chip`)
  | data   -- computed from data: keys of a table argument, chips found in the P2P table
  deriving Repr, DecidableEq

def sigNames (s : Sig) : List String := s.argNames ++ keys s.kwOnly

/-- methods whose documented job is to visit chips named by a data argument or discovered on the machine -/
def dataAddressed : List String :=
  ["discover_connections", "get_system_info", "load_routing_tables", "load_application"]

/-- **the per-method addressing rule**, derived from the signature: a method that has
contextual chip coordinates talks to that chip, one that has none to (255, 255) -/
def chipRule (s : Sig) : List Chip :=
  (if sigNames s |>.contains "x" then [Chip.own] else [Chip.root]) ++
  (if dataAddressed.contains s.name then [Chip.data] else []) ++
  (if s.name = "discover_connections" then [Chip.root] else [])

def chipExprs : Chip → Ex × Ex
  | .own => (.ref "x", .ref "y")
  | .root => (.lit (.int 255), .lit (.int 255))
  | .data => (.dyn, .dyn)

/-- a symbolic request obeys the rule of the method the caller invoked -/
def ruleOk (s : Sig) (ap : APat) : Bool :=
  match ap.kind with
  | .bmp =>
    ap.a == some (.ref "cabinet") && ap.b == some (.ref "frame") &&
    (ap.c == some (.ref "board") || ap.c == some (.first "board") ||
      (s.name == "set_power" && ap.c == some (.lit (.int 0)))) &&
    (ap.extra == none || ap.extra == some (some (.mask "board")))
  | _ =>
    (chipRule s).any (fun ch => ap.a == some (chipExprs ch).1 && ap.b == some (chipExprs ch).2) &&
    (ap.extra == none || ap.extra == some (some (.ref "app_id")))

/-- the core of some request is left to the context stack (not a function of the call's resolved arguments) -/
def coreFromContextB (body : String → String → List Op) (sigs : List Sig) (s : Sig) : Bool :=
  (rulesOfB body sigs s).any (fun ap => ap.c.isNone)

abbrev coreFromContext (sigs : List Sig) (s : Sig) : Bool := coreFromContextB bodyOf sigs s

/-! ## datagrams as observed on the (fake) connections -/

structure Datagram where
  kind : PKind
  /-- MC: `none` = the initial connection, `some [x, y]`; BMP: `some key` -/
  conn : Option (List Int)
  x : Int
  y : Int
  p : Int
  cmd : Nat
  arg1 : Nat
  arg2 : Nat
  deriving Repr

/-- the application id a MachineController command carries (where the command has one) -/
def appOf (cmd a1 a2 : Nat) : Option Nat :=
  if cmd = cmd_alloc_free then
    let op := a1 % 256
    if op = op_alloc_sdram ∨ op = op_alloc_rtr ∨ op = op_free_rtr_by_app then some (a1 / 256) else none
  else if cmd = cmd_router then
    if a1 % 256 = rtr_load then some (a1 / 256 % 256) else none
  else if cmd = cmd_signal then some (a2 % 256)
  else if cmd = cmd_nearest_neighbour_packet then
    if a1 / 16777216 = nn_flood_fill_end then some (a2 / 16777216) else none
  else none

/-- the board mask a BMP command carries -/
def maskOf (cmd a2 : Nat) : Option Nat :=
  if cmd = cmd_power ∨ cmd = cmd_led then some a2 else none

/-- is this the `stop` signal? (`arg2 = (signal << 16) | 0xff00 | app_id`) -/
def Datagram.isStop (d : Datagram) : Bool :=
  d.kind == .scp && d.cmd == cmd_signal && d.arg2 / 65536 == sig_stop

def Datagram.extra (d : Datagram) : Option Nat :=
  match d.kind with
  | .scp => appOf d.cmd d.arg1 d.arg2
  | .mem => none
  | .bmp => maskOf d.cmd d.arg2

def valMatches (v : Val) (n : Int) : Bool :=
  match v with
  | .dyn => true
  | .int k => k == n
  | .bool b => (if b then 1 else 0) == n
  | _ => false

def extraMatches : Option Val → Option Nat → Bool
  | none, none => true
  | some v, some n => valMatches v n
  | _, _ => false

/-- does the datagram carry the destination the pattern names? (BMP datagrams are addressed `(0, 0, board)`) -/
def Pat.matches (pt : Pat) (d : Datagram) : Bool :=
  pt.kind == d.kind &&
  (match pt.kind with
   | .bmp => d.x == 0 && d.y == 0 && valMatches pt.c d.p
   | _ => valMatches pt.a d.x && valMatches pt.b d.y && valMatches pt.c d.p) &&
  extraMatches pt.extra d.extra

/-- **wire oracle**: every datagram carries a destination the method may use -/
def destOk (pats : List Pat) (ds : List Datagram) : Bool :=
  ds.all fun d => pats.any (·.matches d)

/-- **connection oracle (MC)**: the datagram went over the connection `_get_connection` names for its chip -/
def connOkMc (c : McCfg) (d : Datagram) : Bool :=
  d.conn == (getConnection c d.x d.y).map (fun e => [e.1, e.2])

/-- a Python int: `int`, or `bool` (`True == 1`, also as a dictionary key) -/
def Val.asInt? : Val → Option Int
  | .int i => Option.some i
  | .bool b => Option.some (if b then 1 else 0)
  | _ => Option.none

/-- **connection oracle (BMP)**: over the most specific connection of some pattern that matches -/
def connOkBmp (conns : List (List Int)) (pats : List Pat) (d : Datagram) : Bool :=
  pats.any fun pt =>
    pt.matches d &&
    (match pt.a.asInt?, pt.b.asInt?, pt.c.asInt? with
     | some c, some f, some b =>
       (match bmpConnection conns c f b with
        | .ok k => d.conn == some k
        | .error _ => false)
     | _, _, _ => false)

/-! ## with-structured programs -/

/-- statement sequences (each constructor carries the rest of the sequence) -/
inductive Prog where
  | done
  /-- `raise SomeError` -/
  | raise
  /-- `c.m(*pos, **kw)`; `caught`: wrapped in `try/except` by the caller; `fails`: the method body
  raises after resolution (SCP error, failed allocation, ...) - whatever it has sent stays sent -/
  | call (id : Nat) (m : String) (pos : List Val) (kw : Dict) (caught : Bool) (fails : Bool) (next : Prog)
  /-- `c.update_current_context(**kv)` -/
  | update (kv : Dict) (next : Prog)
  /-- `o = c(**ctx)`: a new context OBJECT, kept under the name `oid`; it can be entered any number
  of times - again while it is already active, or later after it has been left -/
  | new (oid : Nat) (ctx : Dict) (next : Prog)
  /-- `o = mc.application(*pos, **kw)`: a decorated call, resolved NOW; the object it returns holds
  `{app_id: ..}` and the stop-signal callback -/
  | newApp (id : Nat) (oid : Nat) (pos : List Val) (kw : Dict) (next : Prog)
  /-- `with o: body`.  `cb`: the `before_close` callbacks the user registered on the object, run in order
  inside the context on every exit (a statement sequence: one that raises skips the rest; on an
  application object they run after the stop signal); `stopFails`: the stop signal's send raises -/
  | enter (id : Nat) (oid : Nat) (stopFails : Bool) (body : Prog) (cb : Prog) (next : Prog)
  /-- `try: body` / `except Exception: pass` -/
  | attempt (body : Prog) (next : Prog)
  deriving Repr

inductive CallRes where
  | sent (kwargs : Dict) (pats : List Pat)   -- accepted: `new_kwargs`, and the datagrams it may send
  | rejected (e : Err)                       -- nothing may be sent
  deriving Repr

def CallRes.isRejected : CallRes → Bool
  | .rejected _ => true
  | .sent _ _ => false

inductive Ev where
  | call (id : Nat) (res : CallRes)
  | enter (id : Nat) (mergedAfter : Dict)
  /-- `before`: the arguments in force just before the block was entered; `mergedAfter`: those in force after it -/
  | exit (id : Nat) (stop : Option CallRes) (before : Dict) (mergedAfter : Dict)
  deriving Repr

structure Env where
  sigs : List Sig
  cls : String
  bmpConns : List (List Int)

def isInt : Val → Bool
  | .int _ => true
  | _ => false

/-- one call of a decorated method in the context `stack` -/
def callRes (E : Env) (m : String) (pos : List Val) (kw : Dict) (stack : List Dict) : CallRes :=
  match findSig E.sigs E.cls m with
  | none => .rejected .bind
  | some s =>
    match resolve s pos.length kw stack with
    | .error e => .rejected e
    | .ok nk =>
      match bind s pos nk with
      | .error e => .rejected e
      | .ok b =>
        let pats := wire E.sigs E.cls wireFuel m b stack
        if E.cls = "BMPController" ∧ pats.any (fun pt =>
            match pt.a.asInt?, pt.b.asInt?, pt.c.asInt? with
            | some c, some f, some bd => (bmpConnection E.bmpConns c f bd).toBool == false
            | _, _, _ => false) then .rejected .noConnection
        else .sent nk pats

/-! ### context objects

The stack of `ContextMixin` holds context OBJECTS (references): `with o:` pushes `o`, leaving pops it;
`update_current_context` mutates the object on top - visible wherever else that object is active and
whenever it is entered again.  So the state is a heap of objects and a stack of object names. -/

structure Obj where
  /-- `Context.context_arguments` -/
  args : Dict
  /-- made by `mc.application(..)`: its first `before_close` callback sends the stop signal -/
  stop : Bool
  deriving Repr

/-- newest binding first -/
abbrev Heap := List (Nat × Obj)

def hget : Heap → Nat → Option Obj
  | [], _ => none
  | (k, v) :: t, o => if k = o then some v else hget t o

def hset (h : Heap) (o : Nat) (v : Obj) : Heap := (o, v) :: h

def argsOf (h : Heap) (o : Nat) : Dict :=
  match hget h o with
  | some ob => ob.args
  | none => []

/-- the argument dictionaries of the active contexts, newest first -/
def frames (h : Heap) (s : List Nat) : List Dict := s.map (argsOf h)

/-- `get_context_arguments()` -/
def inForce (h : Heap) (s : List Nat) : Dict := merged (frames h s)

/-- the object names the sugar `block` / `app` (a fresh object per `with`) uses for statement `id` -/
def sugarOid (id : Nat) : Nat := 1000000 + id

/-- `with c(**ctx): body` - a fresh object, entered once -/
def Prog.block (id : Nat) (ctx : Dict) (body cb next : Prog) : Prog :=
  .new (sugarOid id) ctx (.enter id (sugarOid id) false body cb next)

/-- `with mc.application(*pos, **kw): body` - a fresh application object, entered once -/
def Prog.app (id : Nat) (pos : List Val) (kw : Dict) (stopFails : Bool) (body cb next : Prog) : Prog :=
  .newApp id (sugarOid id) pos kw (.enter id (sugarOid id) stopFails body cb next)

structure Res where
  heap : Heap
  /-- names of the active context objects, newest first -/
  stack : List Nat
  evs : List Ev
  raised : Bool
  /-- the objects created or updated on the way -/
  touched : List Nat
  deriving Repr

/-- the rest `r` of a statement sequence, unless an exception is propagating (`stop`) -/
def orElse (stop : Bool) (h : Heap) (s : List Nat) (r : Res) : Res :=
  if stop then ⟨h, s, [], true, []⟩ else r

/-- run a program; the stack is newest-first -/
def exec (E : Env) : Heap → List Nat → Prog → Res
  | h, s, .done => ⟨h, s, [], false, []⟩
  | h, s, .raise => ⟨h, s, [], true, []⟩
  | h, s, .call id m pos kw caught fails next =>
    let r := callRes E m pos kw (frames h s)
    let n := orElse ((r.isRejected || fails) && !caught) h s (exec E h s next)
    ⟨n.heap, n.stack, .call id r :: n.evs, n.raised, n.touched⟩
  | h, s, .update kv next =>
    -- `self.__context_stack[-1].update(kv)`: the OBJECT on top is updated
    match s with
    | [] => exec E h s next
    | o :: _ =>
      let n := exec E (hset h o ⟨dupdate (argsOf h o) kv, ((hget h o).map (·.stop)).getD false⟩) s next
      ⟨n.heap, n.stack, n.evs, n.raised, o :: n.touched⟩
  | h, s, .attempt body next =>
    let b := exec E h s body
    let n := exec E b.heap b.stack next
    ⟨n.heap, n.stack, b.evs ++ n.evs, n.raised, b.touched ++ n.touched⟩
  | h, s, .new o ctx next =>
    let n := exec E (hset h o ⟨dictOf ctx, false⟩) s next
    ⟨n.heap, n.stack, n.evs, n.raised, o :: n.touched⟩
  | h, s, .newApp id o pos kw next =>
    -- `mc.application(..)` is itself a decorated call; it builds `self(app_id=app_id)`
    match findSig E.sigs E.cls "application" with
    | none => ⟨h, s, [.call id (.rejected .bind)], true, []⟩
    | some sg =>
      match resolve sg pos.length kw (frames h s) >>= bind sg pos with
      | .error e => ⟨h, s, [.call id (.rejected e)], true, []⟩
      | .ok bound =>
        let n := exec E (hset h o ⟨[("app_id", (dget bound "app_id").getD .none)], true⟩) s next
        ⟨n.heap, n.stack, n.evs, n.raised, o :: n.touched⟩
  | h, s, .enter id o stopFails body cb next =>
    match hget h o with
    | none => ⟨h, s, [], true, []⟩          -- not a program the generators write
    | some ob =>
      -- Context.__enter__: push the object; body; Context.__exit__: callbacks (try), pop (finally)
      let b := exec E h (o :: s) body
      -- first callback of an application object: `self.send_signal("stop")`, resolved now
      let stop := if ob.stop then some (callRes E "send_signal" [.other "'stop'"] [] (frames b.heap b.stack)) else none
      let skip := match stop with
        | some r => r.isRejected || stopFails
        | none => false
      -- then the user's callbacks, unless the stop signal raised; then (finally) pop
      let c := orElse skip b.heap b.stack (exec E b.heap b.stack cb)
      let s' := c.stack.tail
      let n := orElse (b.raised || c.raised) c.heap s' (exec E c.heap s' next)
      ⟨n.heap, n.stack,
       Ev.enter id (inForce h (o :: s)) ::
        (b.evs ++ c.evs ++ [Ev.exit id stop (inForce h s) (inForce c.heap s')]) ++ n.evs,
       n.raised, b.touched ++ c.touched ++ n.touched⟩

/-! ## line protocol -/
open Lean Rig.P

def valOfJson : Json → R Val
  | .null => pure .none
  | .bool b => pure (.bool b)
  | j@(.num _) => do pure (.int (← asInt j))
  | j =>
    match j.getObjVal? "o" with
    | .ok (.str s) => pure (.other s)
    | _ =>
      match j.getObjVal? "req" with
      | .ok _ => pure .required
      | _ =>
        match j.getObjVal? "dyn" with
        | .ok _ => pure .dyn
        | _ =>
          match j.getObjVal? "l" with
          | .ok (.arr a) => do pure (.ints (← a.toList.mapM asInt))
          | _ =>
            -- an int of another kind (IntEnum member, numpy integer): the value is what counts
            match j.getObjVal? "n" with
            | .ok n => do pure (.int (← asInt n))
            | _ => .error "bad value"

def valToJson : Val → Json
  | .none => .null
  | .bool b => .bool b
  | .int n => jInt n
  | .other s => Json.mkObj [("o", .str s)]
  | .required => Json.mkObj [("req", jNat 1)]
  | .dyn => Json.mkObj [("dyn", jNat 1)]
  | .ints l => Json.mkObj [("l", jInts l)]

/-- dicts travel as arrays of `[key, value]` pairs (order matters) -/
def dictOfJson (j : Json) : R Dict := do
  (← asArr j).mapM fun kv => asPair kv asStr valOfJson

def dictToJson (d : Dict) : Json := jList (d.map fun kv => jPair (.str kv.1) (valToJson kv.2))

def valsOfJson (j : Json) : R (List Val) := do (← asArr j).mapM valOfJson

def intsOfJson (j : Json) : R (List Int) := do (← asArr j).mapM asInt

def kindToJson : PKind → Json
  | .scp => .str "scp" | .mem => .str "mem" | .bmp => .str "bmp"

def kindOfJson (j : Json) : R PKind := do
  match ← asStr j with
  | "scp" => pure .scp | "mem" => pure .mem | "bmp" => pure .bmp
  | s => .error s!"bad kind {s}"

def patToJson (p : Pat) : Json :=
  Json.mkObj [("kind", kindToJson p.kind), ("a", valToJson p.a), ("b", valToJson p.b),
    ("c", valToJson p.c), ("extra", jOpt valToJson p.extra)]

def patOfJson (j : Json) : R Pat := do
  pure { kind := ← kindOfJson (← field j "kind"), a := ← valOfJson (← field j "a"),
         b := ← valOfJson (← field j "b"), c := ← valOfJson (← field j "c"),
         extra := ← opt j "extra" valOfJson }

def errToJson : Err → Json
  | .missing n => Json.mkObj [("missing", .str n)]
  | .bind => .str "bind"
  | .noConnection => .str "noconn"

def callResToJson : CallRes → Json
  | .sent kw pats => Json.mkObj [("sent", dictToJson kw), ("pats", jList (pats.map patToJson))]
  | .rejected e => Json.mkObj [("rejected", errToJson e)]

def evToJson : Ev → Json
  | .call id r => Json.mkObj [("ev", .str "call"), ("id", jNat id), ("res", callResToJson r)]
  | .enter id m => Json.mkObj [("ev", .str "enter"), ("id", jNat id), ("merged", dictToJson m)]
  | .exit id stop before m =>
    Json.mkObj [("ev", .str "exit"), ("id", jNat id), ("stop", jOpt callResToJson stop),
      ("before", dictToJson before), ("merged", dictToJson m), ("restored", .bool (before == m))]

partial def progOfJson (j : Json) : R Prog := do
  -- a JSON array of statements
  let optBool (st : Json) (k : String) : R Bool :=
    match st.getObjVal? k with
    | .ok (.bool b) => pure b
    | _ => pure false
  let optProg (st : Json) (k : String) : R Prog :=
    match st.getObjVal? k with
    | .ok v => progOfJson v
    | .error _ => pure .done
  let rec go : List Json → R Prog
    | [] => pure .done
    | st :: rest => do
      match ← str st "s" with
      | "raise" => pure .raise
      | "call" =>
        pure (.call (← nat st "id") (← str st "m") (← valsOfJson (← field st "pos"))
          (← dictOfJson (← field st "kw")) (← bool st "caught") (← optBool st "fails") (← go rest))
      | "try" => pure (.attempt (← progOfJson (← field st "body")) (← go rest))
      | "update" => pure (.update (← dictOfJson (← field st "kv")) (← go rest))
      | "block" =>
        pure (Prog.block (← nat st "id") (← dictOfJson (← field st "ctx"))
          (← progOfJson (← field st "body")) (← optProg st "cb") (← go rest))
      | "deep" => do
        -- `n` nested `with c(**ctxs[i % k]):` blocks (ids id, id+1, ..) around `body`, written flat
        let n ← nat st "n"
        let base ← nat st "id"
        let ctxs ← (← arr st "ctxs").mapM dictOfJson
        let body ← progOfJson (← field st "body")
        let rest ← go rest
        if n = 0 ∨ ctxs.isEmpty then pure body
        else
          let inner := (List.range (n - 1)).foldr
            (fun i p => Prog.block (base + 1 + i) (ctxs.getD ((1 + i) % ctxs.length) []) p .done .done) body
          pure (Prog.block base (ctxs.getD 0 []) inner .done rest)
      | "machine" => go rest        -- the machine changes (chips die): nothing the context mechanism sees
      | "new" => pure (.new (← nat st "oid") (← dictOfJson (← field st "ctx")) (← go rest))
      | "newapp" =>
        pure (.newApp (← nat st "id") (← nat st "oid") (← valsOfJson (← field st "pos"))
          (← dictOfJson (← field st "kw")) (← go rest))
      | "enter" =>
        pure (.enter (← nat st "id") (← nat st "oid") (← optBool st "stop_fails")
          (← progOfJson (← field st "body")) (← optProg st "cb") (← go rest))
      | "app" =>
        pure (Prog.app (← nat st "id") (← valsOfJson (← field st "pos")) (← dictOfJson (← field st "kw"))
          (← bool st "stop_fails") (← progOfJson (← field st "body")) (← optProg st "cb") (← go rest))
      | s => .error s!"unknown statement {s}"
  go (← asArr j)

def cfgOfJson (j : Json) : R McCfg := do
  -- "from_machine": the dimensions were stored by `discover_connections` on a machine whose P2P table is
  -- `mdims` with the chips `dead` unreachable: what the code computes from that table, not what it stored
  let dims ← match j.getObjVal? "from_machine" with
    | .ok fm => do
      let md ← asPair (← field fm "mdims") asNat asNat
      let dead ← (← arr fm "dead").mapM (fun d => asPair d asNat asNat)
      pure (discoveredDims (workingChips md.1 md.2 dead))
    | .error _ => opt j "dims" (fun d => asPair d asNat asNat)
  let root ← opt j "root" (fun d => asPair d asInt asInt)
  let conns ← (← arr j "conns").mapM (fun d => asPair d asInt asInt)
  pure { dims, root, conns }

def datagramOfJson (j : Json) : R Datagram := do
  pure { kind := ← kindOfJson (← field j "kind"), conn := ← opt j "conn" intsOfJson,
         x := ← int j "x", y := ← int j "y", p := ← int j "p",
         cmd := ← nat j "cmd", arg1 := ← nat j "arg1", arg2 := ← nat j "arg2" }

def envOfJson (j : Json) : R Env := do
  let conns ← match j.getObjVal? "bmp_conns" with
    | .ok v => (← asArr v).mapM intsOfJson
    | .error _ => pure []
  pure { sigs := Rig.Gen.Signatures.sigs, cls := ← str j "cls", bmpConns := conns }

def handle (op : String) (j : Json) : R Json := do
  match op with
  | "run" =>
    -- stack given oldest-first (as Python's deque), program as nested arrays
    let E ← envOfJson j
    let stack := ((← arr j "stack").mapM dictOfJson)
    let st ← stack
    -- the initial contexts are objects 0, 1, .. (oldest first)
    let h0 : Heap := st.zipIdx.map fun di => (di.2, (⟨dictOf di.1, false⟩ : Obj))
    let s0 : List Nat := (List.range st.length).reverse
    let res := exec E h0 s0 (← progOfJson (← field j "prog"))
    pure (Json.mkObj [("events", jList (res.evs.map evToJson)), ("raised", .bool res.raised),
      ("stack", jList ((frames res.heap res.stack).reverse.map dictToJson)),
      ("merged", dictToJson (inForce res.heap res.stack))])
  | "resolve" =>
    let E ← envOfJson j
    let st ← (← arr j "stack").mapM dictOfJson
    pure (callResToJson (callRes E (← str j "m") (← valsOfJson (← field j "pos"))
      (← dictOfJson (← field j "kw")) (st.map dictOf).reverse))
  | "oracle" =>
    -- the property oracle on the implementation's own datagrams
    let pats ← (← arr j "pats").mapM patOfJson
    let ds ← (← arr j "datagrams").mapM datagramOfJson
    let cls ← str j "cls"
    let dest := destOk pats ds
    let conn ←
      if cls = "BMPController" then do
        let conns ← (← arr j "bmp_conns").mapM intsOfJson
        pure (ds.all (connOkBmp conns pats))
      else do
        -- each datagram is judged against the connection table in force when it was sent
        -- (its own "cfg" snapshot if it carries one, else the table of the case)
        let cfg ← cfgOfJson (← field j "cfg")
        let cfgs ← (← arr j "datagrams").mapM (fun dj => opt dj "cfg" cfgOfJson)
        pure ((ds.zip cfgs).all (fun dc => connOkMc (dc.2.getD cfg) dc.1))
    let bad := (ds.zipIdx.filter (fun di => !(pats.any (·.matches di.1)))).map (·.2)
    pure (Json.mkObj [("dest", .bool dest), ("conn", .bool conn), ("bad", jNats bad),
      ("extras", jList (ds.map fun d => jOpt jNat d.extra)),
      ("stops", jList (ds.map fun d => Json.bool d.isStop))])
  | "conn_mc" =>
    let cfg ← cfgOfJson (← field j "cfg")
    pure (jOpt (fun e : Int × Int => jInts [e.1, e.2]) (getConnection cfg (← int j "x") (← int j "y")))
  | "conn_bmp" =>
    let conns ← (← arr j "bmp_conns").mapM intsOfJson
    match bmpConnection conns (← int j "c") (← int j "f") (← int j "b") with
    | .ok k => pure (jInts k)
    | .error _ => pure (.str "noconn")
  | "same" =>
    -- restore oracle: the arguments in force after the block are exactly those before it
    pure (.bool ((← dictOfJson (← field j "before")) == (← dictOfJson (← field j "after"))))
  | "sigs" =>
    pure (jList (Rig.Gen.Signatures.sigs.map fun s => Json.mkObj [("cls", .str s.cls), ("name", .str s.name),
      ("wf", .bool s.wf), ("body", jNat (bodyOf s.cls s.name).length),
      ("calls", jList ((bodyOf s.cls s.name).filterMap fun op => match op with
        | .call m _ _ => some (Json.str m)
        | _ => none)),
      ("rule_ok", .bool ((rulesOf Rig.Gen.Signatures.sigs s).all (ruleOk s))),
      ("n_rules", jNat (rulesOf Rig.Gen.Signatures.sigs s).length),
      ("chip_known", .bool ((rulesOf Rig.Gen.Signatures.sigs s).all
        (fun ap => ap.a.isSome && ap.b.isSome && ap.extra != some none))),
      ("core_from_context", .bool (coreFromContext Rig.Gen.Signatures.sigs s)),
      -- the table extracted from the source (Gen/C18Bodies.lean) against the same rules and against `bodyOf`
      ("gen_rule_ok", .bool ((rulesOfB Rig.Gen.C18Bodies.genBody Rig.Gen.Signatures.sigs s).all (ruleOk s))),
      ("gen_unknown", jList ((Rig.Gen.C18Bodies.genBody s.cls s.name).filterMap fun op => match op with
        | .unknown w => some (Json.str w)
        | _ => none)),
      ("gen_same_rules", .bool (
        let g := rulesOfB Rig.Gen.C18Bodies.genBody Rig.Gen.Signatures.sigs s
        let h := rulesOf Rig.Gen.Signatures.sigs s
        g.all (fun a => h.contains a) && h.all (fun a => g.contains a))),
      ("gen_n_ops", jNat (Rig.Gen.C18Bodies.genBody s.cls s.name).length)]))
  | _ => .error s!"unknown op {op}"

end Rig.C18
