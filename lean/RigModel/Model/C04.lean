/-
C04 - model of rig/routing_table/{ordered_covering,remove_default_routes,minimise}.py
and `utils.intersect`.

Keys and masks are `BitVec 32` (Python's unbounded `~x` is only ever used under
an `&` with a 32-bit value, so the 32-bit complement is exact).  A route is the
bit set of `Routes` values (bit i = Routes(i), i < 24); `sources` is the same with
bit 24 = `None` (source unknown).  Sets of table indices (`_Merge.entries`) are
ascending duplicate-free lists.  The alias dictionary `{(key, mask): {(key,
mask), ...}}` is an association list with unique keys whose values are
duplicate-free lists (only membership is ever observed).

`_get_insertion_index` is modelled *with* the repair fixes/c04-empty-table.diff
(insertion index of an empty table is 0); the unrepaired code raises IndexError
there, which the harness reports as a violation.

Loops: `for` loops are structural recursion; the binary search carries fuel = table
length (an upper bound of `top - bottom`, which shrinks every round; the lemma
`insertionIndex_spec` does not depend on how fuel ends); the two `while` loops that shrink something
(`_refine_downcheck`, `ordered_covering`) carry fuel = size + 2 and return
`none` / `.error .fuel` if it ran out; `orderedCovering_total` (Props) proves that this
never happens.
-/
import RigModel.Model.Proto

namespace Rig.C04

abbrev W := BitVec 32

structure Entry where
  route : Nat
  key : W
  mask : W
  sources : Nat
  deriving Repr, DecidableEq

abbrev KM := W × W
abbrev Aliases := List (KM × List KM)

inductive Err where
  | fuel
  | minFailed (target final : Nat)   -- MinimisationFailedError(target_length, final_length)
  deriving Repr, DecidableEq

def Entry.km (e : Entry) : KM := (e.key, e.mask)

/-! ### utils.intersect, _get_generality -/

/-- `intersect(key_a, mask_a, key_b, mask_b)` -/
def intersect (ka ma kb mb : W) : Bool := (ka &&& mb) == (kb &&& ma)

def Entry.meets (a b : Entry) : Bool := intersect a.key a.mask b.key b.mask

/-- `sum(1 for i in range(32) if x & (1 << i))` -/
def popcount (x : W) : Nat := (List.range 32).countP (fun i => x.getLsbD i)

/-- `_get_generality` -/
def generality (key mask : W) : Nat := popcount (~~~key &&& ~~~mask)

def Entry.gen (e : Entry) : Nat := generality e.key e.mask

/-! ### _get_insertion_index

`g` is the generality passed by the caller; the code works with `generality =
g - 1` (an `int`, -1 when g = 0), so `pg != generality` is `pg + 1 ≠ g`,
`pg < generality` is `pg + 1 < g` and `gg(e) <= generality` is `gg(e) + 1 ≤ g`. -/

def bsLoop (T : List Entry) (g : Nat) : Nat → Nat → Nat → Nat → Nat
  | 0, _, _, pos => pos          -- unreachable: fuel ≥ top - bottom, which shrinks every round
  | fuel + 1, bottom, top, pos =>
    match T[pos]? with
    | none => pos      -- unreachable (pos < len is maintained); Python would raise IndexError
    | some e =>
      if e.gen + 1 ≠ g ∧ bottom < pos ∧ pos < top then
        if e.gen + 1 < g then bsLoop T g fuel pos top (pos + (top - pos) / 2)
        else bsLoop T g fuel bottom pos (bottom + (pos - bottom) / 2)
      else pos

/-- `while pos < len(table) and gg(table[pos]) <= generality: pos += 1` on `table[pos:]` -/
def scanFwd (g : Nat) : List Entry → Nat → Nat
  | [], pos => pos
  | e :: r, pos => if e.gen + 1 ≤ g then scanFwd g r (pos + 1) else pos

def insertionIndex (T : List Entry) (g : Nat) : Nat :=
  if T.isEmpty then 0          -- fixes/c04-empty-table.diff
  else
    let pos := bsLoop T g T.length 0 T.length (T.length / 2)
    scanFwd g (T.drop pos) pos

/-! ### _Merge -/

structure Merge where
  entries : List Nat
  key : W
  mask : W
  gen : Nat
  goodness : Int
  ins : Nat
  sources : Nat
  deriving Repr, DecidableEq

/-- the table entries selected by a set of indices -/
def members (T : List Entry) (es : List Nat) : List Entry := es.filterMap (fun i => T[i]?)

def anyOnes (ms : List Entry) : W := ms.foldl (fun a e => a ||| e.key) 0
def allOnes (ms : List Entry) : W := ms.foldl (fun a e => a &&& e.key) 0xffffffff
def allSelected (ms : List Entry) : W := ms.foldl (fun a e => a &&& e.mask) 0xffffffff
def allSources (ms : List Entry) : Nat := ms.foldl (fun a e => a ||| e.sources) 0

def mergedMask (ms : List Entry) : W :=
  let anyZeros := ~~~(allOnes ms)
  let newXs := anyOnes ms ^^^ anyZeros
  allSelected ms &&& newXs

def mergedKey (ms : List Entry) : W := allOnes ms &&& mergedMask ms

/-- `_Merge.__new__(routing_table, entries)` -/
def mkMerge (T : List Entry) (es : List Nat) : Merge :=
  let ms := members T es
  let mask := mergedMask ms
  let key := mergedKey ms
  let g := generality key mask
  { entries := es, key := key, mask := mask, gen := g, goodness := (es.length : Int) - 1,
    ins := insertionIndex T g, sources := allSources ms }

/-! ### alias dictionary -/

def alGet (A : Aliases) (km : KM) : Option (List KM) := (A.find? (fun p => p.1 == km)).map (·.2)
def alErase (A : Aliases) (km : KM) : Aliases := A.filter (fun p => p.1 != km)
def setUnion (a b : List KM) : List KM :=
  b.foldl (fun acc x => if acc.contains x then acc else acc ++ [x]) a

/-- `aliases.get(key_mask, [key_mask])` -/
def alOf (A : Aliases) (e : Entry) : List KM := (alGet A e.km).getD [e.km]

/-- state of the alias bookkeeping inside `_Merge.apply`: the dictionary without the
merged key, the set object `our_aliases`, and whether that object is still the value
stored under the merged key (`aliases.pop` of the merged key itself removes it). -/
structure AlState where
  dict : Aliases
  our : List KM
  inDict : Bool

/-- `our_aliases.update(aliases.pop(km, {km}))` for one removed entry -/
def alStep (KMm : KM) (st : AlState) (e : Entry) : AlState :=
  if e.km == KMm then
    if st.inDict then { st with inDict := false }     -- pops `our_aliases` itself
    else { st with our := setUnion st.our [e.km] }
  else
    match alGet st.dict e.km with
    | some v => { st with dict := alErase st.dict e.km, our := setUnion st.our v }
    | none => { st with our := setUnion st.our [e.km] }

def applyAliases (A : Aliases) (KMm : KM) (ms : List Entry) : Aliases :=
  let st := ms.foldl (alStep KMm) { dict := alErase A KMm, our := [], inDict := true }
  if st.inDict then st.dict ++ [(KMm, st.our)] else st.dict

/-- the table loop of `_Merge.apply`: position `i` counts the old table -/
def applyTable (ins : Nat) (es : List Nat) (M : Entry) : Nat → List Entry → List Entry
  | i, [] => if ins == i then [M] else []
  | i, e :: rest =>
    (if i == ins then [M] else []) ++ (if es.contains i then [] else [e]) ++
      applyTable ins es M (i + 1) rest

/-- the entry created by a merge: route of a member (all members share it) -/
def mergedEntry (T : List Entry) (m : Merge) : Entry :=
  { route := match members T m.entries with | e :: _ => e.route | [] => 0,
    key := m.key, mask := m.mask, sources := m.sources }

/-- `_Merge.apply(aliases)` -/
def applyMerge (T : List Entry) (m : Merge) (A : Aliases) : List Entry × Aliases :=
  (applyTable m.ins m.entries (mergedEntry T m) 0 T,
   applyAliases A (m.key, m.mask) (members T m.entries))

/-! ### _get_all_merges -/

def allMergesGo (T : List Entry) : List Nat → List Nat → List (List Nat)
  | [], _ => []
  | i :: rest, considered =>
    if considered.contains i then allMergesGo T rest considered
    else
      match T[i]? with
      | none => allMergesGo T rest considered
      | some e =>
        let merge := i :: rest.filter (fun j => match T[j]? with
          | some o => e.route == o.route | none => false)
        let considered := considered ++ merge
        if merge.length > 1 then merge :: allMergesGo T rest considered
        else allMergesGo T rest considered

def allMerges (T : List Entry) : List (List Nat) := allMergesGo T (List.range T.length) []

/-! ### _refine_upcheck -/

def upLoop (T : List Entry) (minG : Int) : List Nat → Merge → Bool → Merge × Bool
  | [], m, ch => (m, ch)
  | i :: rest, m, ch =>
    match T[i]? with
    | none => upLoop T minG rest m ch
    | some e =>
      if ((T.take m.ins).drop (i + 1)).any (fun o => e.meets o) then
        let m' := mkMerge T (m.entries.filter (· != i))
        if m'.goodness ≤ minG then (mkMerge T [], true)
        else upLoop T minG rest m' true
      else upLoop T minG rest m ch

def upcheck (T : List Entry) (m : Merge) (minG : Int) : Merge × Bool :=
  upLoop T minG m.entries.reverse m false

/-! ### _get_covered_keys_and_masks, _refine_downcheck -/

def covered (T : List Entry) (A : Aliases) (m : Merge) : List KM :=
  (T.drop m.ins).flatMap (fun e => (alOf A e).filter (fun km => intersect m.key m.mask km.1 km.2))

/-- the pass over `covered`: (most_stringent, bits_and_vals) -/
def stringency (m : Merge) (cov : List KM) : Nat × List (Nat × Bool) :=
  cov.foldl (fun (st : Nat × List (Nat × Bool)) km =>
    let settable := km.2 &&& ~~~m.mask
    let n := popcount settable
    if n ≤ st.1 then
      let bav := if n < st.1 then [] else st.2
      (n, bav ++ ((List.range 32).filter (fun i => settable.getLsbD i)).map
        (fun i => (i, !km.1.getLsbD i)))
    else st) (33, [])

/-- `sorted(bits_and_vals, reverse=True)` enumerates a subset of this list in this order -/
def bitsDesc : List (Nat × Bool) := (List.range 32).reverse.flatMap (fun i => [(i, true), (i, false)])

def workingRemove (T : List Entry) (m : Merge) (bit : Nat) (val : Bool) : List Nat :=
  m.entries.filter (fun i => match T[i]? with
    | some e => !e.mask.getLsbD bit || (e.key.getLsbD bit == !val)
    | none => false)

def chooseRemove (T : List Entry) (m : Merge) (bav : List (Nat × Bool)) : List Nat :=
  (bitsDesc.filter (fun bv => bav.contains bv)).foldl (fun remove bv =>
    let working := workingRemove T m bv.1 bv.2
    if remove.isEmpty || working.length < remove.length then working else remove) []

def downLoop (T : List Entry) (A : Aliases) (minG : Int) : Nat → Merge → Option Merge
  | 0, _ => none
  | fuel + 1, m =>
    if m.goodness > minG then
      let cov := covered T A m
      if cov.isEmpty then some m
      else
        let sb := stringency m cov
        if sb.1 == 0 then some (mkMerge T [])
        else
          let remove := chooseRemove T m sb.2
          downLoop T A minG fuel (mkMerge T (m.entries.filter (fun i => !remove.contains i)))
    else some (mkMerge T [])      -- the `while ... else` clause

def downcheck (T : List Entry) (A : Aliases) (m : Merge) (minG : Int) : Option Merge :=
  downLoop T A minG (m.entries.length + 2) m

/-- `_refine_merge` -/
def refineMerge (T : List Entry) (A : Aliases) (m : Merge) (minG : Int) : Option Merge :=
  match downcheck T A m minG with
  | none => none
  | some m =>
    if m.goodness > minG then
      let r := upcheck T m minG
      if r.2 && r.1.goodness > minG then downcheck T A r.1 minG
      else some r.1
    else some m

/-- `_get_best_merge` -/
def bestLoop (T : List Entry) (A : Aliases) : List (List Nat) → Merge → Int → Option Merge
  | [], best, _ => some best
  | es :: rest, best, bg =>
    let m := mkMerge T es
    if m.goodness ≤ bg then bestLoop T A rest best bg
    else
      match refineMerge T A m bg with
      | none => none
      | some m =>
        if m.goodness > bg then bestLoop T A rest m m.goodness
        else bestLoop T A rest best bg

def bestMerge (T : List Entry) (A : Aliases) : Option Merge :=
  bestLoop T A (allMerges T) (mkMerge T []) 0

/-! ### ordered_covering, minimise -/

/-- insert before the first entry that is at least as general (keeps equal keys in input order) -/
def insertGen (e : Entry) : List Entry → List Entry
  | [] => [e]
  | x :: r => if e.gen ≤ x.gen then e :: x :: r else x :: insertGen e r

/-- `sorted(routing_table, key=generality)`: a stable sort (insertion sort from the right) -/
def sortTable (T : List Entry) : List Entry := T.foldr insertGen []

def tooLong (T : List Entry) (target : Option Nat) : Bool :=
  match target with
  | none => true
  | some t => T.length > t

def ocLoop : Nat → List Entry → Option Nat → Aliases → Except Err (List Entry × Aliases)
  | 0, _, _, _ => .error .fuel
  | fuel + 1, T, target, A =>
    if tooLong T target then
      match bestMerge T A with
      | none => .error .fuel
      | some m =>
        if m.goodness ≤ 0 then .ok (T, A)
        else
          let r := applyMerge T m A
          ocLoop fuel r.1 target r.2
    else .ok (T, A)

/-- `ordered_covering(routing_table, target_length, aliases, no_raise)` -/
def orderedCovering (T : List Entry) (target : Option Nat) (A : Aliases) (noRaise : Bool) :
    Except Err (List Entry × Aliases) :=
  match ocLoop (T.length + 2) (sortTable T) target A with
  | .error e => .error e
  | .ok r =>
    match target with
    | some t => if !noRaise && r.1.length > t then .error (.minFailed t r.1.length) else .ok r
    | none => .ok r

/-! ### remove_default_routes -/

/-- `len(s) == 1` for a bit set of `Routes`/`None` values: `some i` iff `s = {i}` (i ≤ 24) -/
def single (s : Nat) : Option Nat := (List.range 25).find? (fun i => s == 2 ^ i)

/-- the part of `_is_defaultable` that looks at the entry alone: one source, one sink, the
source is not `None`, both are links, and the source's opposite is the sink -/
def defaultableHead (e : Entry) : Bool :=
  match single e.sources, single e.route with
  | some source, some sink =>
    source != 24 && (source < 6 && sink < 6) && ((source + 3) % 6 == sink)
  | _, _ => false

/-- `_is_defaultable(i, entry, table, check)` with `later = table[i+1:]` -/
def isDefaultable (e : Entry) (later : List Entry) (check : Bool) : Bool :=
  defaultableHead e && (!check || !later.any (fun d => e.meets d))

def rdLoop (check : Bool) : List Entry → List Entry
  | [] => []
  | e :: rest => if isDefaultable e rest check then rdLoop check rest else e :: rdLoop check rest

/-- `len(set(e.mask for e in table)) == 1` -/
def allSameMask : List Entry → Bool
  | [] => false
  | e :: r => r.all (fun d => d.mask == e.mask)

/-- `len(table) == len(set(e.key for e in table))` -/
def keysDistinct (T : List Entry) : Bool := decide ((T.map (·.key)).Nodup)

/-- the cheap "no aliases possible" test: one mask, all keys distinct -/
def noAliasShortcut (T : List Entry) : Bool := allSameMask T && keysDistinct T

def removeDefaultTable (T : List Entry) (check : Bool) : List Entry :=
  let check := if check then (if noAliasShortcut T then false else true) else false
  rdLoop check T

/-- `remove_default_routes.minimise(table, target_length, check_for_aliases)` -/
def removeDefault (T : List Entry) (target : Option Nat) (check : Bool := true) :
    Except Err (List Entry) :=
  let new := removeDefaultTable T check
  match target with
  | some t => if t < new.length then .error (.minFailed t new.length) else .ok new
  | none => .ok new

/-- `ordered_covering.minimise(routing_table, target_length)` -/
def ocMinimise (T : List Entry) (target : Option Nat) : Except Err (List Entry) :=
  match orderedCovering T target [] true with
  | .error e => .error e
  | .ok r => removeDefault r.1 target

/-! ### minimise.py -/

inductive Method where
  | identity | rd | oc
  deriving Repr, DecidableEq

/-- `_identity` -/
def identityMin (T : List Entry) (target : Option Nat) : Except Err (List Entry) :=
  match target with
  | none => .ok T
  | some t => if T.length < t then .ok T else .error (.minFailed t T.length)

def runMethod (f : Method) (T : List Entry) (target : Option Nat) : Except Err (List Entry) :=
  match f with
  | .identity => identityMin T target
  | .rd => removeDefault T target
  | .oc => ocMinimise T target

/-- the `for f in methods` loop with a target -/
def tryLoop (T : List Entry) (t : Nat) : List Method → Nat → Except Err (List Entry)
  | [], best => .error (.minFailed t best)
  | f :: rest, best =>
    match runMethod f T (some t) with
    | .ok r => .ok r
    | .error (.minFailed _ final) => tryLoop T t rest (if final < best then final else best)
    | .error e => .error e

/-- `min(..., key=len)`: first shortest -/
def minLoop (T : List Entry) : List Method → Option (List Entry) → Except Err (List Entry)
  | [], some best => .ok best
  | [], none => .ok T      -- unreachable: `methods` always starts with `_identity`
  | f :: rest, best =>
    match runMethod f T none with
    | .error e => .error e
    | .ok r =>
      match best with
      | none => minLoop T rest (some r)
      | some b => minLoop T rest (some (if r.length < b.length then r else b))

/-- `minimise_table(table, target_length, methods)` -/
def minimiseTable (T : List Entry) (target : Option Nat) (methods : List Method := [.rd, .oc]) :
    Except Err (List Entry) :=
  let methods := Method.identity :: methods
  match target with
  | some t => tryLoop T t methods T.length
  | none => minLoop T methods none

/-- `minimise_tables`: chips in dictionary order; the first failure is raised with its chip;
empty results are dropped -/
def minimiseTables : List (Nat × List Entry × Option Nat) → List Method →
    Except (Nat × Err) (List (Nat × List Entry))
  | [], _ => .ok []
  | (chip, T, target) :: rest, methods =>
    match minimiseTable T target methods with
    | .error e => .error (chip, e)
    | .ok r =>
      match minimiseTables rest methods with
      | .error e => .error e
      | .ok out => .ok (if r.isEmpty then out else (chip, r) :: out)

/-! ### Specification: first-match lookup, default routing, route equivalence -/

/-- a router entry matches a key -/
def Entry.matches (e : Entry) (k : W) : Bool := k &&& e.mask == e.key

/-- first-match lookup -/
def lookup (T : List Entry) (k : W) : Option Entry := T.find? (fun e => e.matches k)

/-- `a ⊆ b` for bit sets -/
def bitSubset (a b : Nat) : Bool := a &&& b == a

/-- the hardware default route reproduces entry `e`: the packet can only have arrived on one
link `l` and the entry sends it to exactly the opposite link -/
def DefaultRouted (e : Entry) : Prop := ∃ l, l < 6 ∧ e.sources = 2 ^ l ∧ e.route = 2 ^ ((l + 3) % 6)

def defaultRoutedB (e : Entry) : Bool :=
  (List.range 6).any (fun l => e.sources == 2 ^ l && e.route == 2 ^ ((l + 3) % 6))

/-- what the property demands of key `k` -/
def KeyOk (T T' : List Entry) (k : W) : Prop :=
  ∀ e, lookup T k = some e →
    (∃ e', lookup T' k = some e' ∧ e'.route = e.route ∧ bitSubset e.sources e'.sources = true) ∨
    (lookup T' k = none ∧ DefaultRouted e)

/-- **RouteEquiv** (DESIGN §2): every key matched by `T` is routed identically by `T'` -/
def RouteEquiv (T T' : List Entry) : Prop := ∀ k, KeyOk T T' k

def keyOkB (T T' : List Entry) (k : W) : Bool :=
  match lookup T k with
  | none => true
  | some e =>
    match lookup T' k with
    | some e' => e'.route == e.route && bitSubset e.sources e'.sources
    | none => defaultRoutedB e

/-- The key bits that have to be enumerated.  A position is *fixed* when every entry has it in
its mask and all entries agree on the key bit there (a key that differs there matches no entry
of either table, so `KeyOk` holds trivially); it is *ignored* when no mask contains it (it never
influences a match).  All other positions vary. -/
def varyingBits (Ts : List Entry) : List Nat :=
  let maskAnd : W := Ts.foldl (fun a e => a &&& e.mask) 0xffffffff
  let maskOr : W := Ts.foldl (fun a e => a ||| e.mask) 0
  let keyAnd : W := Ts.foldl (fun a e => a &&& e.key) 0xffffffff
  let keyOr : W := Ts.foldl (fun a e => a ||| e.key) 0
  (List.range 32).filter (fun i =>
    maskOr.getLsbD i && !(maskAnd.getLsbD i && (keyAnd.getLsbD i == keyOr.getLsbD i)))

/-- value of the fixed positions -/
def baseKey (Ts : List Entry) : W :=
  let maskAnd : W := Ts.foldl (fun a e => a &&& e.mask) 0xffffffff
  let keyAnd : W := Ts.foldl (fun a e => a &&& e.key) 0xffffffff
  if Ts.isEmpty then 0 else maskAnd &&& keyAnd

/-- all keys that equal `base` outside the given positions -/
def keysOver (base : W) : List Nat → List W
  | [] => [base]
  | b :: bs => (keysOver base bs).flatMap (fun k => [k &&& ~~~(1#32 <<< b), k ||| (1#32 <<< b)])

/-- exhaustive check of `RouteEquiv` over the key bits that can make a difference; returns the
first key that fails -/
def routeEquivBrute (T T' : List Entry) : Option W :=
  (keysOver (baseKey (T ++ T')) (varyingBits (T ++ T'))).find? (fun k => !keyOkB T T' k)

/-- `Good`: pairwise orthogonal (no key matched by two entries) ... -/
def Orthogonal (T : List Entry) : Prop :=
  T.Pairwise (fun a b => ∀ k, ¬ (a.matches k = true ∧ b.matches k = true))

/-- ... or listed in increasing order of generality -/
def SortedGen (T : List Entry) : Prop := T.Pairwise (fun a b => a.gen ≤ b.gen)

def Good (T : List Entry) : Prop := Orthogonal T ∨ SortedGen T

/-! ### line protocol -/
open Lean Rig.P

def asW (j : Json) : R W := do
  let n ← asNat j
  if n < 4294967296 then pure (BitVec.ofNat 32 n) else .error "key/mask out of 32-bit range"

def entryOfJson (j : Json) : R Entry := do
  match ← asArr j with
  | [r, k, m, s] => pure { route := ← asNat r, key := ← asW k, mask := ← asW m, sources := ← asNat s }
  | _ => .error "entry: expected [route, key, mask, sources]"

def tableOfJson (j : Json) : R (List Entry) := do (← asArr j).mapM entryOfJson

def kmOfJson (j : Json) : R KM := asPair j asW asW

def aliasesOfJson (j : Json) : R Aliases := do
  (← asArr j).mapM (fun p => asPair p kmOfJson (fun v => do (← asArr v).mapM kmOfJson))

def jW (w : W) : Json := jNat w.toNat
def jEntry (e : Entry) : Json := jList [jNat e.route, jW e.key, jW e.mask, jNat e.sources]
def jTable (T : List Entry) : Json := jList (T.map jEntry)
def jKM (km : KM) : Json := jPair (jW km.1) (jW km.2)
def jAliases (A : Aliases) : Json := jList (A.map (fun p => jPair (jKM p.1) (jList (p.2.map jKM))))

def jErrOf : Err → Json
  | .fuel => jErr "fuel"
  | .minFailed t f => Json.mkObj [("err", Json.str "MinimisationFailed"), ("target", jNat t), ("final", jNat f)]

def jRes : Except Err (List Entry) → Json
  | .ok T => jOk (jTable T)
  | .error e => jErrOf e

def methodOfJson (j : Json) : R Method := do
  match ← asStr j with
  | "rd" => pure .rd
  | "oc" => pure .oc
  | "identity" => pure .identity
  | s => .error s!"unknown method {s}"

def jMerge (m : Merge) : Json :=
  Json.mkObj [("entries", jNats m.entries), ("key", jW m.key), ("mask", jW m.mask),
    ("generality", jNat m.gen), ("goodness", jInt m.goodness), ("insertion_index", jNat m.ins),
    ("sources", jNat m.sources)]

def handle (op : String) (j : Json) : R Json := do
  match op with
  | "oc" =>
    let T ← tableOfJson (← field j "table")
    let A ← aliasesOfJson (← field j "aliases")
    match orderedCovering T (← opt j "target" asNat) A (← bool j "no_raise") with
    | .ok r => pure (jOk (Json.mkObj [("table", jTable r.1), ("aliases", jAliases r.2)]))
    | .error e => pure (jErrOf e)
  | "ocmin" => pure (jRes (ocMinimise (← tableOfJson (← field j "table")) (← opt j "target" asNat)))
  | "rd" =>
    pure (jRes (removeDefault (← tableOfJson (← field j "table")) (← opt j "target" asNat)
      (← bool j "check")))
  | "mt" =>
    let ms ← (← arr j "methods").mapM methodOfJson
    pure (jRes (minimiseTable (← tableOfJson (← field j "table")) (← opt j "target" asNat) ms))
  | "mts" =>
    let ms ← (← arr j "methods").mapM methodOfJson
    let chips ← (← arr j "chips").mapM (fun c => do
      pure (← nat c "chip", ← tableOfJson (← field c "table"), ← opt c "target" asNat))
    match minimiseTables chips ms with
    | .ok out => pure (jOk (jList (out.map (fun p => jPair (jNat p.1) (jTable p.2)))))
    | .error (chip, e) =>
      match jErrOf e with
      | .obj kvs => pure (Json.obj (kvs.insert "chip" (jNat chip)))
      | x => pure x
  | "equiv" =>
    let T ← tableOfJson (← field j "a")
    let T' ← tableOfJson (← field j "b")
    if (varyingBits (T ++ T')).length > 16 then .error "equiv: more than 16 varying bits"
    else match routeEquivBrute T T' with
      | none => pure (Json.mkObj [("equiv", Json.bool true)])
      | some k => pure (Json.mkObj [("equiv", Json.bool false), ("key", jW k)])
  | "merge" =>
    pure (jMerge (mkMerge (← tableOfJson (← field j "table")) (← nats j "entries")))
  | "ins" => pure (jNat (insertionIndex (← tableOfJson (← field j "table")) (← nat j "generality")))
  | "gen" => pure (jNat (generality (← asW (← field j "key")) (← asW (← field j "mask"))))
  | "best" =>
    match bestMerge (← tableOfJson (← field j "table")) (← aliasesOfJson (← field j "aliases")) with
    | some m => pure (jOk (jMerge m))
    | none => pure (jErr "fuel")
  | "refine" =>
    let T ← tableOfJson (← field j "table")
    match refineMerge T (← aliasesOfJson (← field j "aliases")) (mkMerge T (← nats j "entries"))
        (← int j "min_goodness") with
    | some m => pure (jOk (jMerge m))
    | none => pure (jErr "fuel")
  | "sorted" => pure (Json.bool (decide ((← tableOfJson (← field j "table")).Pairwise (fun a b => a.gen ≤ b.gen))))
  | _ => .error s!"unknown op {op}"

end Rig.C04
