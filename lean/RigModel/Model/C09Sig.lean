/-
C09 (companion model) - the signalling side of the loading path
(rig/machine_control/machine_controller.py):
  send_signal(signal, app_id)
  count_cores_in_state(state, app_id)          (one state, or an iterable of states: the sum)
  wait_for_cores_to_reach_state(state, count, app_id, poll_interval, timeout)
running against the machine specification of Model/C09.lean (`step`).

Data read from the source on every run (RigModel/Gen/LoadSig.lean, RigModel/Gen/Load.lean):
`consts.AppSignal`, `consts.AppState` (names and values), `consts.signal_types`,
`consts.diagnostic_signal_types`, `SCPCommands.signal`.

Environment made explicit (`Env`):
  * `clock i`    - the value returned by the i-th call of `time.time()` (integers: the harness
                   installs a scripted clock; the code only adds the timeout and compares);
  * `evolve k`   - what happens to the cores of the machine during the k-th `time.sleep`.
`while True` is bounded by a fuel argument; running out of fuel is the explicit result
`outOfFuel` (the docstring: "this function may never exit").
-/
import RigModel.Model.C09
import RigModel.Gen.LoadSig

namespace Rig.C09Sig
open Rig.C09 Rig.Gen.Load Rig.Gen.LoadSig Rig.Gen.Scp

inductive Err where
  | valueError   -- `raise ValueError(...)`: the argument is not a member of the enumeration
  | keyError     -- `consts.signal_types[signal]` has no entry (unreachable: theorem `signal_types_total`)
  | unmodelled   -- the machine specification gives no count reply to the request (outside its domain)
  deriving Repr, DecidableEq

/-- `signal` / `state` as the caller passes it: a name (str) or a number (enum member or int) -/
inductive Arg where
  | name (s : String)
  | val (n : Nat)
  deriving Repr, DecidableEq

/-- `if isinstance(x, str): try: x = getattr(Enum, x) except AttributeError: pass`
    `if x not in Enum: raise ValueError(...)` -/
def resolve (enum : List (String × Nat)) : Arg → Except Err Nat
  | .name s =>
    match enum.find? (fun e => e.1 == s) with
    | some e => .ok e.2
    | none => .error .valueError
  | .val n => if enum.any (fun e => e.2 == n) then .ok n else .error .valueError

/-! ### send_signal -/

/-- `arg1 = signal_types[signal]; arg2 = (signal << 16) | 0xff00 | app_id; arg3 = 0x0000ffff`
    `self._send_scp(255, 255, 0, SCPCommands.signal, arg1, arg2, arg3)` -/
def signalReq (sig ty appId : Nat) : Req :=
  { x := 255, y := 255, p := 0, cmd := cmdSignal, arg1 := ty,
    arg2 := (sig <<< 16) ||| 0xff00 ||| appId, arg3 := 0x0000ffff, data := [] }

/-- the request `send_signal(signal, app_id)` transmits, or the exception it raises -/
def sendSignalReq (a : Arg) (appId : Nat) : Except Err Req :=
  match resolve appSignals a with
  | .error e => .error e
  | .ok sig =>
    match signalTypes.lookup sig with
    | some ty => .ok (signalReq sig ty appId)
    | none => .error .keyError

def sendSignal (mc : MCfg) (s : Sim) (a : Arg) (appId : Nat) : Sim × Except Err Unit :=
  match sendSignalReq a appId with
  | .ok r => ((s.send mc r).1, .ok ())
  | .error e => (s, .error e)

/-! ### count_cores_in_state -/

/-- the path for one state: resolve, check membership, send the count request, return `.arg1` -/
def countOne (mc : MCfg) (s : Sim) (a : Arg) (appId : Nat) : Sim × Except Err Nat :=
  match resolve appStates a with
  | .error e => (s, .error e)
  | .ok st =>
    let o := s.send mc (countReq st appId)
    match o.2 with
    | .count n => (o.1, .ok n)
    | _ => (o.1, .error .unmodelled)

/-- `state`: one state, or an iterable (not a str) of states -/
inductive StateArg where
  | one (a : Arg)
  | many (l : List Arg)
  deriving Repr, DecidableEq

/-- `sum(self.count_cores_in_state(s, app_id) for s in state)`: left to right from 0, the first
exception propagates (requests already sent stay sent) -/
def countMany (mc : MCfg) (appId : Nat) : Sim → List Arg → Nat → Sim × Except Err Nat
  | s, [], acc => (s, .ok acc)
  | s, a :: as, acc =>
    match countOne mc s a appId with
    | (s', .ok n) => countMany mc appId s' as (acc + n)
    | (s', .error e) => (s', .error e)

def countCores (mc : MCfg) (s : Sim) (st : StateArg) (appId : Nat) : Sim × Except Err Nat :=
  match st with
  | .one a => countOne mc s a appId
  | .many l => countMany mc appId s l 0

/-! ### wait_for_cores_to_reach_state -/

structure Env where
  clock : Nat → Nat
  evolve : Nat → (Nat → Nat → Nat → Core) → (Nat → Nat → Nat → Core)

inductive WaitResult where
  | done (count : Nat)
  | error (e : Err)
  | outOfFuel
  deriving Repr, DecidableEq

/-- `time.sleep(poll_interval)`, the k-th time: the machine moves on -/
def sleep (env : Env) (k : Nat) (s : Sim) : Sim :=
  { s with m := { s.m with core := env.evolve k s.m.core } }

/-- the `while True` loop; `k` = polls (= sleeps) completed so far, `deadline` = `timeout_time`.
With a timeout the clock has been read once before the loop and is read once per poll that does not
reach the count: the poll with index `k` reads `clock (k + 1)`.  Returns the number of sleeps too. -/
def waitLoop (mc : MCfg) (env : Env) (st : StateArg) (target appId : Nat) (deadline : Option Nat) :
    Nat → Nat → Sim → Sim × WaitResult × Nat
  | 0, k, s => (s, .outOfFuel, k)
  | fuel + 1, k, s =>
    match countCores mc s st appId with
    | (s', .error e) => (s', .error e, k)
    | (s', .ok cur) =>
      if cur ≥ target then (s', .done cur, k)
      else
        match deadline with
        | some d =>
          if env.clock (k + 1) > d then (s', .done cur, k)
          else waitLoop mc env st target appId deadline fuel (k + 1) (sleep env k s')
        | none => waitLoop mc env st target appId deadline fuel (k + 1) (sleep env k s')

/-- `wait_for_cores_to_reach_state(state, count, app_id, poll_interval, timeout)` -/
def waitForCores (mc : MCfg) (env : Env) (st : StateArg) (target appId : Nat) (timeout : Option Nat)
    (fuel : Nat) (s : Sim) : Sim × WaitResult × Nat :=
  waitLoop mc env st target appId (timeout.map fun t => env.clock 0 + t) fuel 0 s

/-! ### specification predicates -/

/-- how many cores of the machine are in one of the states `sts` (counted per state, as the sum
does: a state listed twice counts twice) under the app id -/
def cnt (mc : MCfg) (core : Nat → Nat → Nat → Core) (sts : List Nat) (appId : Nat) : Nat :=
  (sts.map fun st => (allCores mc.chips).countP fun c => matchesApp (core c.1 c.2.1 c.2.2) st appId).sum

/-- the cores at the time of poll `k`: after the first `k` sleeps -/
def coresAt (env : Env) (core : Nat → Nat → Nat → Core) : Nat → (Nat → Nat → Nat → Core)
  | 0 => core
  | k + 1 => env.evolve k (coresAt env core k)

/-- the loop stops at a poll that saw `v` cores: the count is reached, or there is a timeout and
the clock read after that poll is past the deadline -/
def stops (clock : Nat → Nat) (timeout : Option Nat) (target k v : Nat) : Bool :=
  decide (target ≤ v) ||
    match timeout with
    | some t => decide (clock (k + 1) > clock 0 + t)
    | none => false

/-- oracle on an observed run: `polls` = the totals seen by the successive polls, `ret` the value
returned: at least one poll, the value returned is the last total, the loop stopped at the last
poll for one of the two documented reasons and at no earlier poll -/
def waitOK (clock : Nat → Nat) (timeout : Option Nat) (target : Nat) (polls : List Nat) (ret : Nat) : Bool :=
  decide (0 < polls.length) && polls.getLast? == some ret &&
    polls.zipIdx.all fun (vk : Nat × Nat) =>
      stops clock timeout target vk.2 vk.1 == decide (vk.2 + 1 = polls.length)

/-! ### line protocol -/
open Lean Rig.P

def argOfJson (j : Json) : R Arg :=
  match j with
  | .str s => pure (.name s)
  | _ => do pure (.val (← asNat j))

def stateArgOfJson (j : Json) : R StateArg :=
  match j with
  | .arr a => do pure (.many (← a.toList.mapM argOfJson))
  | _ => do pure (.one (← argOfJson j))

def errName : Err → String
  | .valueError => "ValueError"
  | .keyError => "KeyError"
  | .unmodelled => "unmodelled"

/-- `[[x, y, p, state, app], ...]` per sleep: these cores change state and app id (image kept) -/
def evolveOfJson (l : List Json) : R (Nat → (Nat → Nat → Nat → Core) → (Nat → Nat → Nat → Core)) := do
  let steps ← l.mapM fun st => do
    (← asArr st).mapM fun u => do
      match ← asArr u with
      | [x, y, p, s, a] => pure ((← asNat x, ← asNat y, ← asNat p), (← asNat s, ← asNat a))
      | _ => .error "expected [x, y, p, state, app]"
  pure fun k core x y p =>
    match (steps.getD k []).find? (fun (u : (Nat × Nat × Nat) × (Nat × Nat)) => u.1 == (x, y, p)) with
    | some u => { core x y p with state := u.2.1, app := u.2.2 }
    | none => core x y p

def clockOfJson (l : List Nat) : Nat → Nat := fun i => l.getD i 0

def traceToJson (s : Sim) : Json :=
  jList (s.trace.reverse.map fun e => jPair (reqToJson e.1) (replyToJson e.2))

def handle (op : String) (j : Json) : R Json := do
  match op with
  | "signal" =>
    let mc ← mcfgOfJson j
    let m ← initState j
    let o := sendSignal mc { m := m, nn := 0, trace := [] } (← argOfJson (← field j "signal")) (← nat j "app_id")
    pure (Json.mkObj [("trace", traceToJson o.1), ("cores", coresToJson mc o.1.m.core false),
      ("result", match o.2 with | .ok _ => Json.str "ok" | .error e => Json.mkObj [("error", errName e)])])
  | "count" =>
    let mc ← mcfgOfJson j
    let m ← initState j
    let o := countCores mc { m := m, nn := 0, trace := [] } (← stateArgOfJson (← field j "state")) (← nat j "app_id")
    pure (Json.mkObj [("trace", traceToJson o.1),
      ("result", match o.2 with | .ok n => Json.mkObj [("count", jNat n)] | .error e => Json.mkObj [("error", errName e)])])
  | "wait" =>
    let mc ← mcfgOfJson j
    let m ← initState j
    let env : Env := { clock := clockOfJson (← nats j "clock"), evolve := ← evolveOfJson (← arr j "evolve") }
    let o := waitForCores mc env (← stateArgOfJson (← field j "state")) (← nat j "count") (← nat j "app_id")
      (← opt j "timeout" asNat) (← nat j "fuel") { m := m, nn := 0, trace := [] }
    pure (Json.mkObj [("trace", traceToJson o.1), ("cores", coresToJson mc o.1.m.core false),
      ("sleeps", jNat o.2.2),
      ("result", match o.2.1 with
        | .done n => Json.mkObj [("count", jNat n)]
        | .error e => Json.mkObj [("error", errName e)]
        | .outOfFuel => Json.str "out_of_fuel")])
  | "wait_ok" =>
    -- oracle: the implementation's own polls (totals), clock script, timeout and return value
    pure (Json.mkObj [("ok", Json.bool (waitOK (clockOfJson (← nats j "clock")) (← opt j "timeout" asNat)
      (← nat j "count") (← nats j "polls") (← nat j "ret")))])
  | _ => .error s!"unknown op {op}"

end Rig.C09Sig
