/-
C01 - multicast packets reach exactly the cores of their net's sinks.

This file is the *network semantics* the end-to-end property is about: what a SpiNNaker machine
does with a multicast packet given the routing tables loaded into its chips.  It is written once,
over the vocabulary of the stage models (C03: `Machine`, `chipOk`, `linkOk`, `step`, `opp`, `Tree`;
C04: `Entry`, `lookup`; C10: `treeTables`), and it is what the harness executes on the tables the
*implementation* produced.

Hardware rules modelled (SpiNNaker multicast router):
* the chip's table is searched in order, the first entry with `key &&& mask = entry.key` wins and
  gives the route (24-bit set: bits 0..5 links E NE N W SW S, bits 6..23 cores 0..17);
* no entry matches: a packet that arrived over link `l` is *default routed* - it leaves by the
  opposite link; a packet injected by a local core that matches nothing is dropped (flag);
* every core bit delivers one copy to that core; every link bit forwards one copy to the chip in
  that direction (coordinates modulo the machine dimensions), where it arrives on the opposite
  link - provided the link is a working link of a working chip and the far chip works, otherwise
  the copy is lost (flag `deadHop`);
* a link to which an external device is attached (`dev`: the links named by
  RouteEndpointConstraints) absorbs the copy: it is recorded as an exit and not forwarded;
* a packet that comes back to a chip it has already passed through is circulating (flag `loop`);
  the fuel bound (number of chips + 1 suffices) makes the function total (flag `fuelOut`).

Processing is depth first, so that an induction over a routing tree is natural.  The result is
the list of events; the multiset of core deliveries, of exits, and the flags are projections.
-/
import RigModel.Model.Proto
import RigModel.Model.C03
import RigModel.Model.C04
import RigModel.Model.C10

namespace Rig.C01
open Rig.C03 (Chip Machine chipOk linkOk step opp)

abbrev W := Rig.C04.W
abbrev Entry := Rig.C04.Entry

inductive Ev where
  | core (c : Chip) (p : Nat)      -- one copy delivered to core `p` of chip `c`
  | exit (c : Chip) (l : Nat)      -- one copy left over the device link `l` of chip `c`
  | dropped (c : Chip)             -- locally injected packet matched no entry
  | deadHop (c : Chip) (l : Nat)   -- copy sent over a dead link / to a dead chip
  | loop (c : Chip)                -- packet came back to a chip already on its path
  | fuelOut (c : Chip)             -- fuel exhausted
  deriving Repr, DecidableEq

/-- bit of an entry's `sources` set that stands for the way the packet arrived
(`None` = injected by a local core = bit 24, as in C04) -/
def srcBit : Option Nat → Nat
  | none => 24
  | some l => l

/-- the route a chip with table `T` applies to key `k` arriving by `arr` -/
def routeOf (T : List Entry) (k : W) (arr : Option Nat) : Option Nat :=
  match Rig.C04.lookup T k with
  | some e => some e.route
  | none =>
    match arr with
    | some l => some (2 ^ opp l)      -- default routing: straight on
    | none => none                    -- dropped

/-- core deliveries of a route at chip `c` (cores 0..17 are route bits 6..23) -/
def coreEvs (c : Chip) (r : Nat) : List Ev :=
  ((List.range 18).filter (fun p => r.testBit (6 + p))).map (Ev.core c)

/-- what happens to the copy sent over link `l` of chip `c`, given what the far chip does -/
def linkEvs (m : Machine) (dev : List (Chip × Nat)) (c : Chip) (l : Nat)
    (next : Chip → Option Nat → List Ev) : List Ev :=
  if dev.contains (c, l) then [.exit c l]
  else if linkOk m c l && chipOk m (step m c l) then next (step m c l) (some (opp l))
  else [.deadHop c l]

/-- the packet with key `k` is at chip `c`, having arrived by `arr` after passing through `path` -/
def visit (m : Machine) (dev : List (Chip × Nat)) (T : Chip → List Entry) (k : W) :
    Nat → List Chip → Chip → Option Nat → List Ev
  | 0, _, c, _ => [.fuelOut c]
  | f + 1, path, c, arr =>
    if path.contains c then [.loop c]
    else
      match routeOf (T c) k arr with
      | none => [.dropped c]
      | some r =>
        coreEvs c r ++ (List.range 6).flatMap fun l =>
          if r.testBit l then linkEvs m dev c l (visit m dev T k f (c :: path)) else []

/-- a packet with key `k` injected by a core of chip `src` -/
def deliver (m : Machine) (dev : List (Chip × Nat)) (T : Chip → List Entry) (k : W) (src : Chip) : List Ev :=
  visit m dev T k (m.w * m.h + 1) [] src none

/-! ### projections -/

def Ev.isFlag : Ev → Bool
  | .core _ _ => false
  | .exit _ _ => false
  | _ => true

def cores (evs : List Ev) : List (Chip × Nat) := evs.filterMap fun | .core c p => some (c, p) | _ => none
def exits (evs : List Ev) : List (Chip × Nat) := evs.filterMap fun | .exit c l => some (c, l) | _ => none
def flags (evs : List Ev) : List Ev := evs.filter Ev.isFlag

/-! ### the property of one packet -/

/-- **The statement of C01 for one packet**: the events are exactly one delivery to every expected
core and one exit on every expected device link, nothing else, no flag. -/
def Delivered (evs : List Ev) (expCores expExits : List (Chip × Nat)) : Prop :=
  evs.Nodup ∧
  (∀ ev, ev ∈ evs ↔ (∃ x ∈ expCores, ev = .core x.1 x.2) ∨ (∃ x ∈ expExits, ev = .exit x.1 x.2))

def evAllowed (expCores expExits : List (Chip × Nat)) : Ev → Bool
  | .core c p => expCores.contains (c, p)
  | .exit c l => expExits.contains (c, l)
  | _ => false

def nodupEv : List Ev → Bool
  | [] => true
  | e :: r => !(r.contains e) && nodupEv r

/-- executable form of `Delivered` (equivalence: `Props.C01.deliveredB_iff`) -/
def deliveredB (evs : List Ev) (expCores expExits : List (Chip × Nat)) : Bool :=
  nodupEv evs && evs.all (evAllowed expCores expExits) &&
  expCores.all (fun x => evs.contains (.core x.1 x.2)) && expExits.all (fun x => evs.contains (.exit x.1 x.2))

/-- the clauses that fail, for diagnostics -/
def deliveredWhy (evs : List Ev) (expCores expExits : List (Chip × Nat)) : List String :=
  (if (flags evs).any (fun | .dropped _ => true | _ => false) then ["dropped"] else []) ++
  (if (flags evs).any (fun | .deadHop _ _ => true | _ => false) then ["dead-hop"] else []) ++
  (if (flags evs).any (fun | .loop _ => true | .fuelOut _ => true | _ => false) then ["circulating"] else []) ++
  (if nodupEv (evs.filter (fun e => !e.isFlag)) then [] else ["duplicate-delivery"]) ++
  (if (evs.filter (fun e => !e.isFlag)).all (evAllowed expCores expExits) then [] else ["extra-delivery"]) ++
  (if expCores.all (fun x => evs.contains (.core x.1 x.2)) && expExits.all (fun x => evs.contains (.exit x.1 x.2))
   then [] else ["missing-delivery"])

/-! ### tables given as association lists -/

abbrev Tables := List (Chip × List Entry)

def tableAt (T : Tables) (c : Chip) : List Entry :=
  match T.find? (fun p => p.1 == c) with
  | some p => p.2
  | none => []

/-! ### what a routing tree demands (used by the theorems and, executable, by the driver) -/

/-- the out-set of a tree node: directions of the sub-trees and routes of the vertex leaves -/
def nodeOuts (subs : List (Nat × Rig.C03.Tree)) (leaves : List (Option Nat × Nat)) : List Nat :=
  subs.map (·.1) ++ leaves.filterMap (·.1)

/-- the events a leaf route of chip `c` stands for -/
def leafEv (c : Chip) (r : Nat) : Ev := if r < 6 then .exit c r else .core c (r - 6)

mutual
/-- the deliveries a tree stands for -/
def treeEvs : Rig.C03.Tree → List Ev
  | .node c subs lv => (lv.filterMap (·.1)).map (leafEv c) ++ treeEvsL subs
def treeEvsL : List (Nat × Rig.C03.Tree) → List Ev
  | [] => []
  | (_, t) :: r => treeEvs t ++ treeEvsL r
end

/-- the chip an event happens at -/
def Ev.chip : Ev → Chip
  | .core c _ => c
  | .exit c _ => c
  | .dropped c => c
  | .deadHop c _ => c
  | .loop c => c
  | .fuelOut c => c

mutual
/-- **The tables agree with a valid routing tree for key `k`** (what C03 + C10 provide; the
hypothesis of `deliver_of_tree`).  For every node of the tree, entered after `path`:
* its chip is not on the path of the packet so far (chips of a tree are distinct);
* the chip's table looks `k` up - first match - to an entry whose route is exactly the node's
  out-set: the directions of its sub-trees and the routes of its vertex leaves (C10 `tables_exact`);
* leaf routes are routes (< 24); a leaf route that is a link names a device link
  (RouteEndpointConstraint), and
* every hop to a sub-tree is a working link of this chip to the adjacent working chip in that
  direction (C03 `ValidTree.hops`) and is not a device link. -/
def Agrees (m : Machine) (dev : List (Chip × Nat)) (T : Chip → List Entry) (k : W) :
    List Chip → Rig.C03.Tree → Prop
  | path, .node c subs lv =>
    c ∉ path ∧
    (∃ e, Rig.C04.lookup (T c) k = some e ∧
      ∀ b, b < 24 → (e.route.testBit b = true ↔ b ∈ nodeOuts subs lv)) ∧
    (∀ r, r ∈ lv.filterMap (·.1) → r < 24 ∧ (r < 6 → (c, r) ∈ dev)) ∧
    AgreesL m dev T k (c :: path) c subs
def AgreesL (m : Machine) (dev : List (Chip × Nat)) (T : Chip → List Entry) (k : W) :
    List Chip → Chip → List (Nat × Rig.C03.Tree) → Prop
  | _, _, [] => True
  | path, c, (d, t) :: r =>
    (d < 6 ∧ linkOk m c d = true ∧ chipOk m t.chip = true ∧ t.chip = step m c d ∧ (c, d) ∉ dev ∧
      Agrees m dev T k path t) ∧ AgreesL m dev T k path c r
end

/-- **Every state the packet reaches on tables `T` is matched by an entry that lists the way the
packet arrived in its `sources`** (the hypothesis of `deliver_congr`; true of tables built from
trees, where the sources of an entry are exactly the arrival links of the tree nodes).  The states
are those `visit` explores: same fuel, same path, same forwarding conditions. -/
def Covered (m : Machine) (dev : List (Chip × Nat)) (T : Chip → List Entry) (k : W) :
    Nat → List Chip → Chip → Option Nat → Prop
  | 0, _, _, _ => True
  | f + 1, path, c, arr =>
    c ∈ path ∨
    ∃ e, Rig.C04.lookup (T c) k = some e ∧ e.sources.testBit (srcBit arr) = true ∧
      ∀ l, l < 6 → e.route.testBit l = true → (c, l) ∉ dev → linkOk m c l = true →
        chipOk m (step m c l) = true → Covered m dev T k f (c :: path) (step m c l) (some (opp l))

mutual
/-- the entry that matches `k` at every tree node lists the link the node is entered by
(`arr`; `none` at the root) among its sources (C10 `tables_exact`, sources clause) -/
def SrcListed (T : Chip → List Entry) (k : W) : Option Nat → Rig.C03.Tree → Prop
  | arr, .node c subs _ =>
    (∀ e, Rig.C04.lookup (T c) k = some e → e.sources.testBit (srcBit arr) = true) ∧ SrcListedL T k subs
def SrcListedL (T : Chip → List Entry) (k : W) : List (Nat × Rig.C03.Tree) → Prop
  | [] => True
  | (d, t) :: r => SrcListed T k (some (opp d)) t ∧ SrcListedL T k r
end

/-! ### type bridges between the stage models -/

/-- C03 chip (Int × Int, non-negative for chips of the machine) to C10 chip (Nat × Nat) -/
def chipN (c : Chip) : Rig.C10.ChipXY := (c.1.toNat, c.2.toNat)
def chipZ (c : Rig.C10.ChipXY) : Chip := ((c.1 : Int), (c.2 : Int))

def leafKids : List (Option Nat × Nat) → Rig.C10.Kids → Rig.C10.Kids
  | [], k => k
  | (r, _) :: rest, k => .leaf r (leafKids rest k)

mutual
/-- C03 tree (sub-trees and vertex leaves kept apart) to C10 tree (one children list) -/
def toC10 : Rig.C03.Tree → Rig.C10.Tree
  | .node c subs lv => .node (chipN c) (leafKids lv (toC10L subs))
def toC10L : List (Nat × Rig.C03.Tree) → Rig.C10.Kids
  | [] => .nil
  | (d, t) :: r => .sub (some d) (toC10 t) (toC10L r)
end

/-- C10 sources (list of `Option` link) to the C04 bit set (bit 24 = `None`) -/
def srcBits (l : List (Option Nat)) : Nat := l.foldl (fun w s => w ||| (1 <<< srcBit s)) 0

/-- C10 entry (route list, Nat key/mask, source list) to C04 entry (bit sets, 32-bit words) -/
def entry04 (e : Rig.C10.Entry) : Entry :=
  { route := Rig.C10.routeWord e.route, key := BitVec.ofNat 32 e.key, mask := BitVec.ofNat 32 e.mask,
    sources := srcBits e.sources }

/-- C10 tables to the tables of this file -/
def tables04 (T : Rig.C10.Tables) : Tables := T.map fun ct => (chipZ ct.1, ct.2.map entry04)

/-! ### the composition: vocabulary of `pipeline_delivery` -/

/-- one net as it leaves the router: key and mask, chip of the source, the sink vertices in the
vocabulary of C03 (chip from the placement, core range from the allocation, or endpoint route),
and the routing tree -/
structure PNet where
  key : W
  mask : W
  src : Chip
  sinks : List Rig.C03.Sink
  tree : Rig.C03.Tree

/-- what `routing_tree_to_tables` is given for this net (C10 vocabulary) -/
def PNet.net10 (n : PNet) : Rig.C10.Net := { key := n.key.toNat, mask := n.mask.toNat, tree := toC10 n.tree }

/-- every allocated core of every sink: the expected deliveries -/
def sinkCores (sinks : List Rig.C03.Sink) : List (Chip × Nat) :=
  sinks.flatMap fun s => if s.kind = 1 then (List.range (s.b - s.a)).map (fun i => (s.chip, s.a + i)) else []

/-- the link of every sink with a route-endpoint constraint: the expected exits -/
def sinkExits (sinks : List Rig.C03.Sink) : List (Chip × Nat) :=
  sinks.filterMap fun s => if s.kind = 2 then some (s.chip, s.a) else none

/-! ### line protocol -/
open Lean Rig.P

def tablesOfJson (j : Json) : R Tables := do
  (← asArr j).mapM fun t => do
    match ← asArr t with
    | [x, y, es] => pure ((← asInt x, ← asInt y), ← Rig.C04.tableOfJson es)
    | _ => .error "expected [x,y,entries]"

def triplesOfJson (j : Json) : R (List (Chip × Nat)) := do
  (← asArr j).mapM fun e => do
    match ← asArr e with
    | [x, y, l] => pure ((← asInt x, ← asInt y), ← asNat l)
    | _ => .error "expected [x,y,n]"

def jEv : Ev → Json
  | .core c p => Json.arr #[Json.str "core", jInt c.1, jInt c.2, jNat p]
  | .exit c l => Json.arr #[Json.str "exit", jInt c.1, jInt c.2, jNat l]
  | .dropped c => Json.arr #[Json.str "dropped", jInt c.1, jInt c.2]
  | .deadHop c l => Json.arr #[Json.str "deadHop", jInt c.1, jInt c.2, jNat l]
  | .loop c => Json.arr #[Json.str "loop", jInt c.1, jInt c.2]
  | .fuelOut c => Json.arr #[Json.str "fuelOut", jInt c.1, jInt c.2]

def handle (op : String) (j : Json) : R Json := do
  match op with
  | "deliver" =>
    -- one machine + tables, many packets
    let m ← Rig.C03.machineOfJson j
    let T ← tablesOfJson (← field j "tables")
    let dev ← triplesOfJson (← field j "dev")
    let qs ← arr j "queries"
    let out ← qs.mapM fun q => do
      let src ← Rig.C03.chipOfJson (← field q "src")
      let k ← Rig.C04.asW (← field q "key")
      let ec ← triplesOfJson (← field q "cores")
      let ex ← triplesOfJson (← field q "exits")
      let evs := deliver m dev (tableAt T) k src
      let ok := deliveredB evs ec ex
      pure (Json.mkObj ([("ok", Json.bool ok)] ++
        (if ok then [] else [("why", jList ((deliveredWhy evs ec ex).map Json.str)),
                             ("evs", jList ((evs.take 200).map jEv))])))
    pure (jList out)
  | "tree_events" =>
    -- the deliveries a tree stands for (C03 tree format)
    let t ← Rig.C03.treeOfJson 100000 (← field j "tree")
    pure (jList ((treeEvs t).map jEv))
  | "tables_of_trees" =>
    -- stage bridge: C03 trees -> C10 treeTables -> C04 entries
    let nets ← (← arr j "nets").mapM fun n => do
      pure ({ key := ← nat n "key", mask := ← nat n "mask",
              tree := toC10 (← Rig.C03.treeOfJson 100000 (← field n "tree")) } : Rig.C10.Net)
    match Rig.C10.treeTables nets with
    | .ok T => pure (jOk (jList ((tables04 T).map fun ct =>
        Json.arr #[jInt ct.1.1, jInt ct.1.2, Rig.C04.jTable ct.2])))
    | .error e => pure (Rig.C10.errToJson e)
  | _ => .error s!"unknown op {op}"

end Rig.C01
