/-
C08 - model of rig/bitfield.py (BitField, _Tree, _Field).

Representation.  The code keeps one shared `_Tree` (node = OrderedDict of fields +
OrderedDict of children keyed by a tuple of (identifier, value) requirements) and
many `BitField` instances that differ only in their `field_values` dict.  The model
keeps the tree as its **pre-order listing**: one `Entry` per field, carrying the
sequence of child keys from the root to the node that holds it (`path`), in exactly
the order in which `_Tree.enabled_fields` / `potential_fields` / `get_field` visit
the fields (a node's fields in insertion order, then its children in insertion
order, recursively).  Every `_Tree` method is expressed over this listing:

  enabled_fields(fv)   = entries whose every path key is satisfied by fv   (same order)
  potential_fields(fv) = entries none of whose path keys conflicts with fv (same order)
  get_field(i, fv)     = first enabled entry with identifier i
  add_field            = the code's descent (`descend`), then insertion after the
                         node's last field / after the parent's whole subtree
  assign_fields        = `_assign_fields` over the nodes in breadth-first order
                         (positions given) and then leaf-first order (all)

Dicts (`field_values`, requirements) are association lists with first-match lookup.
The harness compares the *whole tree* (pre-order dump) after every mutating call, so
the representation itself is part of the checked correspondence.

Errors: every exception the code can raise is a constructor of `Err`
(`RecursionError` arises in `_Tree.add_field` when the instance's values select
fields of two different children of one node: the code recurses forever).

The scan bound of `_assign_field` (`range(0, self.length - length [+ 1])`) is data
read from the source: `Rig.Gen.BitfieldConsts.SCAN_SLACK` (0 = unrepaired, 1 = repaired).
-/
import RigModel.Model.Proto
import RigModel.Gen.BitfieldConsts

namespace Rig.C08
open Rig.Gen.BitfieldConsts

abbrev Ident := String
/-- a dict `{identifier: value}` / one child key `((identifier, value), ...)` -/
abbrev Reqs := List (Ident × Nat)
abbrev Path := List Reqs

inductive Err where
  | valueError | unavailable | unknownTag | recursion
  deriving Repr, DecidableEq

structure Field where
  length : Option Nat
  startAt : Option Nat
  tags : List String          -- a set: sorted, no duplicates
  maxValue : Nat
  /-- model-only: the implementation's floating-point `int(log(max_value, 2)) + 1` gives one bit more than the exact
  bit length for this `max_value` (possible only from `SPARE_FROM` on; set from the implementation's own behaviour
  before every `assign_fields`, see `markSpare`) -/
  spare : Bool := false
  deriving Repr, DecidableEq

structure Entry where
  path : Path
  ident : Ident
  field : Field
  deriving Repr, DecidableEq

structure State where
  length : Nat                -- BitField.length (shared by all instances)
  entries : List Entry        -- the tree, pre-order
  deriving Repr, DecidableEq

/-! ### `_Tree` -/

/-- every requirement of a child key is met: `_enabled_children` -/
def satisfied (fv : Reqs) (r : Reqs) : Bool :=
  r.all fun iv => fv.lookup iv.1 == some iv.2

/-- no requirement of a child key is contradicted: `_potential_children` -/
def noConflict (fv : Reqs) (r : Reqs) : Bool :=
  r.all fun iv => match fv.lookup iv.1 with
    | none => true
    | some w => w == iv.2

def Entry.enabled (fv : Reqs) (e : Entry) : Bool := e.path.all (satisfied fv)
def Entry.potential (fv : Reqs) (e : Entry) : Bool := e.path.all (noConflict fv)

def enabledFields (es : List Entry) (fv : Reqs) : List Entry := es.filter (·.enabled fv)
def potentialFields (es : List Entry) (fv : Reqs) : List Entry := es.filter (·.potential fv)

/-- `_Tree.get_field` (none = UnavailableFieldError) -/
def getField (es : List Entry) (ident : Ident) (fv : Reqs) : Option Entry :=
  es.find? fun e => e.ident == ident && e.enabled fv

/-- mutation of the `_Field` object `get_field` returns -/
def modifyFirst (p : Entry → Bool) (f : Field → Field) : List Entry → List Entry
  | [] => []
  | e :: es => if p e then { e with field := f e.field } :: es else e :: modifyFirst p f es

def modifyField (es : List Entry) (ident : Ident) (fv : Reqs) (f : Field → Field) : List Entry :=
  modifyFirst (fun e => e.ident == ident && e.enabled fv) f es

/-- identifiers of `node.fields` of the node reached by `path` -/
def nodeIdents (es : List Entry) (p : Path) : List Ident :=
  (es.filter (·.path == p)).map (·.ident)

/-- `potential_fields(rem)` of the sub-tree rooted at the node `p` -/
def subtreePotential (es : List Entry) (p : Path) (rem : Reqs) : List Entry :=
  es.filter fun e => p.isPrefixOf e.path && (e.path.drop p.length).all (noConflict rem)

/-- the descent of `_Tree.add_field`: returns the path of the node that receives the
field.  `rem` is the `field_values` argument of the recursive call. -/
def descend (es : List Entry) (ident : Ident) : Nat → Path → Reqs → Except Err Path
  | 0, _, _ => .error .recursion
  | fuel + 1, p, rem =>
    if (subtreePotential es p rem).any (·.ident == ident) then .error .valueError
    else if rem.isEmpty then .ok p
    else
      let meet : Reqs := (nodeIdents es p).filterMap fun i => (rem.lookup i).map fun v => (i, v)
      if meet.isEmpty then .error .recursion      -- children.setdefault((), ...) for ever
      else descend es ident fuel (p ++ [meet]) (rem.filter fun iv => !(meet.any (·.1 == iv.1)))

/-- insert after the last element satisfying `pred` (at the front when there is none) -/
def insertAfterLast (pred : Entry → Bool) (e : Entry) (es : List Entry) : List Entry :=
  let n := es.length - (es.reverse.takeWhile fun x => !pred x).length
  es.take n ++ e :: es.drop n

/-- `_Tree.add_field` at the node `p` (pre-order position) -/
def insertEntry (es : List Entry) (e : Entry) : List Entry :=
  if es.any (·.path == e.path) then insertAfterLast (·.path == e.path) e es
  else insertAfterLast (fun x => e.path.dropLast.isPrefixOf x.path) e es

/-! ### sets of tags -/
def insertSorted (t : String) : List String → List String
  | [] => [t]
  | x :: xs => if t < x then t :: x :: xs else if t == x then x :: xs else x :: insertSorted t xs

def tagUnion (a b : List String) : List String := b.foldl (fun acc t => insertSorted t acc) a
def tagNorm (a : List String) : List String := tagUnion [] a

/-! ### `BitField.add_field` -/

def overlaps (s l s' l' : Nat) : Bool := s + l > s' && s' + l' > s

def orOne : Option Nat → Nat
  | some l => l
  | none => 1          -- `(length or 1)`; length 0 never reaches this point

/-- `length is not None and length <= 0` -/
def badLength : Option Int → Bool
  | some l => decide (l ≤ 0)
  | none => false

/-- `start_at is not None and (0 <= start_at >= self.length or start_at + (length or 1) > self.length)` -/
def doesNotFit (L : Nat) (len : Option Nat) : Option Nat → Bool
  | some s => decide (s ≥ L) || decide (s + orOne len > L)
  | none => false

/-- the overlap loop of `add_field` over `potential_fields(self.field_values)` -/
def overlapsExisting (es : List Entry) (fv : Reqs) (len : Option Nat) : Option Nat → Bool
  | some s => (potentialFields es fv).any fun o =>
      match o.field.startAt with
      | some os => overlaps s (orOne len) os (orOne o.field.length)
      | none => false
  | none => false

def newEntry (p : Path) (ident : Ident) (len startAt : Option Nat) (tags : List String) : Entry :=
  { path := p, ident := ident,
    field := { length := len, startAt := startAt, tags := tags, maxValue := MAX_VALUE_DEFAULT } }

/-- `parent.tags.update(tags)` for every identifier of `get_field_requirements(identifier, field_values)` -/
def addTags (fv : Reqs) (tags : List String) (parents : List Ident) (es : List Entry) : List Entry :=
  parents.foldl (fun es pi => modifyField es pi fv fun f => { f with tags := tagUnion f.tags tags }) es

def addField (st : State) (fv : Reqs) (ident : Ident) (length : Option Int) (startAt : Option Nat)
    (tags : List String) : Except Err State :=
  let len : Option Nat := length.map Int.toNat
  if badLength length then .error .valueError
  else if doesNotFit st.length len startAt then .error .valueError
  else if overlapsExisting st.entries fv len startAt then .error .valueError
  else
    match descend st.entries ident (fv.length + 1) [] fv with
    | .error e => .error e
    | .ok p =>
      let es := insertEntry st.entries (newEntry p ident len startAt (tagNorm tags))
      -- tags go to every field named by get_field_requirements(identifier, field_values)
      match getField es ident fv with
      | none => .error .unavailable
      | some e =>
        let parents := e.path.flatten.map (·.1)
        if parents.any (fun pi => (getField es pi fv).isNone) then .error .unavailable
        else .ok { st with entries := addTags fv (tagNorm tags) parents es }

/-! ### `BitField.__call__` -/

/-- result: the new instance's `field_values` and the tree with updated `max_value`s.
`kw` are the keyword arguments in call order (values may be negative). -/
def call (st : State) (fv : Reqs) (kw : List (Ident × Int)) : Except Err (State × Reqs) :=
  if fv.any (fun iv => kw.any (·.1 == iv.1)) then .error .valueError else
  -- a negative value satisfies no requirement, exactly like an absent one
  let newNat : Reqs := kw.filterMap fun iv => if iv.2 < 0 then none else some (iv.1, iv.2.toNat)
  let all : Reqs := newNat ++ fv
  let allI : List (Ident × Int) := kw ++ fv.map fun iv => (iv.1, (iv.2 : Int))
  let rec check : List (Ident × Int) → Option Err
    | [] => none
    | (i, v) :: rest =>
      match getField st.entries i all with
      | none => some .unavailable
      | some e =>
        if v < 0 then some .valueError
        else if (match e.field.length with | some l => decide (v.toNat ≥ 1 <<< l) | none => false) then some .valueError
        else check rest
  match check allI with
  | some e => .error e
  | none =>
    let es' := all.foldl
      (fun es iv => modifyField es iv.1 all fun f => { f with maxValue := max f.maxValue iv.2 }) st.entries
    .ok ({ st with entries := es' }, all)

/-! ### `assign_fields` -/

/-- `((1 << length) - 1) << start_at` -/
def rangeMask (len start : Nat) : Nat := ((1 <<< len) - 1) <<< start

/-- the exact bit length `floor(log2(max_value)) + 1`: what `int(log(max_value, 2)) + 1` computes when the
floating-point logarithm is exact enough (always so below `SPARE_FROM`) -/
def autoLen (maxValue : Nat) : Nat := Nat.log2 maxValue + 1

/-- from here on the double-precision `log(v, 2)` may round up to the next integer (first seen at 2^48 - 1), which
makes the automatic length one bit *wider* than the exact bit length; never narrower -/
def SPARE_FROM : Nat := 2 ^ 44

def fieldBits (f : Field) : Nat :=
  match f.length, f.startAt with
  | some l, some s => rangeMask l s
  | _, _ => 0

def Field.isFixed (f : Field) : Bool := f.length.isSome && f.startAt.isSome

/-- mask of the already allocated potential fields (first loop of `_assign_fields`) -/
def potentialMask (es : List Entry) (fv : Reqs) : Nat :=
  (potentialFields es fv).foldl (fun m e => m ||| fieldBits e.field) 0

/-- the scan of `_assign_field`: first free position in `range(0, L - len + SCAN_SLACK)` -/
def firstFit (L len assigned : Nat) : Option Nat :=
  if L + SCAN_SLACK ≤ len then none
  else (List.range (L + SCAN_SLACK - len)).find? fun b => assigned &&& rangeMask len b == 0

/-- `length = field.length; if length is None: length = int(log(field.max_value, 2)) + 1` -/
def Field.chosenLen (f : Field) : Nat :=
  match f.length with
  | some l => l
  | none => if f.spare && decide (SPARE_FROM ≤ f.maxValue) then autoLen f.maxValue + 1 else autoLen f.maxValue

/-- model-only step before `assign_fields`: record for which `max_value`s the implementation's floating-point length
has a spare bit (`g`, observed on the implementation itself).  Changes nothing the code can see. -/
def markSpare (g : Nat → Bool) (es : List Entry) : List Entry :=
  es.map fun e => { e with field := { e.field with spare := g e.field.maxValue } }

/-- `_assign_field` -/
def assignField (st : State) (assigned : Nat) (ident : Ident) (fv : Reqs) : Except Err (State × Nat) :=
  match getField st.entries ident fv with
  | none => .error .unavailable
  | some e =>
    let len := e.field.chosenLen
    let set (start : Nat) : State :=
      { st with entries := modifyField st.entries ident fv fun f => { f with length := some len, startAt := some start } }
    match e.field.startAt with
    | none =>
      match firstFit st.length len assigned with
      | some b =>
        if b + len ≤ st.length then .ok (set b, assigned ||| rangeMask len b) else .error .valueError
      | none => .error .valueError        -- start_at = self.length: never fits (len >= 1)
    | some s =>
      if assigned &&& rangeMask len s != 0 then .error .valueError
      else if s + len ≤ st.length then .ok (set s, assigned ||| rangeMask len s)
      else .error .valueError

/-- node paths in pre-order (root first) -/
def nodePaths (es : List Entry) : List Path := ([] :: es.map (·.path)).eraseDups

def maxDepth (ps : List Path) : Nat := ps.foldl (fun m p => max m p.length) 0

/-- breadth-first order of the queue in `assign_fields` -/
def bfsOrder (ps : List Path) : List Path :=
  (List.range (maxDepth ps + 1)).flatMap fun d => ps.filter (·.length == d)

/-- `recurse_assign_fields`: children (in order) first, then the node -/
def postOrder (ps : List Path) : Nat → Path → List Path
  | 0, p => [p]
  | fuel + 1, p =>
    (ps.filter fun q => q.length == p.length + 1 && p.isPrefixOf q).flatMap (postOrder ps fuel) ++ [p]

/-- the work list of `assign_fields`: (assign_positions, node) -/
def assignItems (es : List Entry) : List (Bool × Path) :=
  let ps := nodePaths es
  (bfsOrder ps).map (fun p => (false, p)) ++ (postOrder ps (maxDepth ps + 1) []).map (fun p => (true, p))

/-- `_assign_fields` keeping partial progress: state after the last successful `_assign_field` -/
def assignLoopP (assignPositions : Bool) (fv : Reqs) : List Ident → State → Nat → State × Option Err
  | [], st, _ => (st, none)
  | i :: is, st, a =>
    match getField st.entries i fv with
    | none => (st, some .unavailable)
    | some e =>
      if e.field.isFixed then assignLoopP assignPositions fv is st a
      else if assignPositions || e.field.startAt.isSome then
        match assignField st a i fv with
        | .error err => (st, some err)
        | .ok (st', a') => assignLoopP assignPositions fv is st' a'
      else assignLoopP assignPositions fv is st a

def assignRunP : List (Bool × Path) → State → State × Option Err
  | [], st => (st, none)
  | (ap, p) :: rest, st =>
    match assignLoopP ap p.flatten (nodeIdents st.entries p) st (potentialMask st.entries p.flatten) with
    | (st', some e) => (st', some e)
    | (st', none) => assignRunP rest st'

/-- `BitField.assign_fields`: the state (also after an exception) and the exception -/
def assignFieldsP (st : State) : State × Option Err := assignRunP (assignItems st.entries) st

/-- `BitField.assign_fields` as a result -/
def assignFields (st : State) : Except Err State :=
  match assignFieldsP st with
  | (st', none) => .ok st'
  | (_, some e) => .error e

/-! ### getters -/

def selectFields (es : List Entry) (fv : Reqs) (tag : Option String) (field : Option Ident) :
    Except Err (List Entry) :=
  match field with
  | some i =>
    match getField es i fv with
    | some e => .ok [e]
    | none => .error .unavailable
  | none =>
    match tag with
    | some t =>
      let sel := (enabledFields es fv).filter fun e => e.field.tags.contains t
      if sel.isEmpty then .error .unknownTag else .ok sel
    | none => .ok (enabledFields es fv)

/-- `self.field_values[identifier] << field.start_at` -/
def valBits (fv : Reqs) (e : Entry) : Nat :=
  match fv.lookup e.ident, e.field.startAt with
  | some x, some s => x <<< s
  | _, _ => 0

def getValue (es : List Entry) (fv : Reqs) (tag : Option String) (field : Option Ident) : Except Err Nat :=
  match selectFields es fv tag field with
  | .error e => .error e
  | .ok sel =>
    if sel.any (fun e => (fv.lookup e.ident).isNone) then .error .valueError
    else if sel.any (fun e => !e.field.isFixed) then .error .valueError
    else .ok (sel.foldl (fun v e => v ||| valBits fv e) 0)

def getMask (es : List Entry) (fv : Reqs) (tag : Option String) (field : Option Ident) : Except Err Nat :=
  match selectFields es fv tag field with
  | .error e => .error e
  | .ok sel =>
    if sel.any (fun e => !e.field.isFixed) then .error .valueError
    else .ok (sel.foldl (fun m e => m ||| fieldBits e.field) 0)

def getTags (es : List Entry) (fv : Reqs) (field : Ident) : Except Err (List String) :=
  match getField es field fv with
  | some e => .ok e.field.tags
  | none => .error .unavailable

def getLocationAndLength (es : List Entry) (fv : Reqs) (field : Ident) : Except Err (Nat × Nat) :=
  match getField es field fv with
  | none => .error .unavailable
  | some e =>
    match e.field.length, e.field.startAt with
    | some l, some s => .ok (s, l)
    | _, _ => .error .valueError

/-- `__getattr__` -/
def getAttr (es : List Entry) (fv : Reqs) (field : Ident) : Except Err (Option Nat) :=
  match getField es field fv with
  | some _ => .ok (fv.lookup field)
  | none => .error .unavailable

/-! ### specification predicates (what the theorems are about; also the oracle) -/

def Entry.reqs (e : Entry) : Reqs := e.path.flatten

/-- no identifier is required with two different values: the two fields can be present together -/
def compatible (r r' : Reqs) : Prop :=
  ∀ i v v', (i, v) ∈ r → (i, v') ∈ r' → v = v'

def compatibleB (r r' : Reqs) : Bool :=
  r.all fun iv => r'.all fun iv' => !(iv.1 == iv'.1) || iv.2 == iv'.2

/-- bit ranges `[s, s+l)` and `[s', s'+l')` do not meet -/
def Disjoint (s l s' l' : Nat) : Prop := s + l ≤ s' ∨ s' + l' ≤ s

/-- two entries, if both have a position and a length, occupy disjoint ranges -/
def EntryDisjoint (e e' : Entry) : Prop :=
  ∀ l s l' s', e.field.length = some l → e.field.startAt = some s →
    e'.field.length = some l' → e'.field.startAt = some s' → Disjoint s l s' l'

/-- **C08 clause 1**: co-presentable fields with assigned ranges are disjoint -/
def SpecDisjoint (es : List Entry) : Prop :=
  es.Pairwise fun e e' => compatible e.reqs e'.reqs → EntryDisjoint e e'

/-- every assigned range is non-empty and inside the bit field -/
def SpecInRange (L : Nat) (es : List Entry) : Prop :=
  ∀ e ∈ es, ∀ l s, e.field.length = some l → e.field.startAt = some s → 1 ≤ l ∧ s + l ≤ L

/-- **C08 clause 2**: wide enough for every value ever given -/
def SpecWide (es : List Entry) : Prop :=
  ∀ e ∈ es, ∀ l, e.field.length = some l → e.field.maxValue < 2 ^ l

def AllFixed (es : List Entry) : Prop := ∀ e ∈ es, e.field.isFixed = true

/-- identifiers are unique among co-presentable fields (scope rule of add_field) -/
def SpecUnique (es : List Entry) : Prop :=
  es.Pairwise fun e e' => compatible e.reqs e'.reqs → e.ident ≠ e'.ident

/-- **tag closure**: every field named in the requirements of a tagged field, and present with it, carries the tag -/
def SpecTagClosed (es : List Entry) : Prop :=
  ∀ e ∈ es, ∀ p ∈ es, (∃ v, (p.ident, v) ∈ e.reqs) → p.enabled e.reqs = true →
    ∀ t ∈ e.field.tags, t ∈ p.field.tags

/-- read-back of one field from a key -/
def ReadBack (key start len value : Nat) : Prop := (key >>> start) % 2 ^ len = value

/-- the union of the bits of a list of entries -/
def unionBits (sel : List Entry) : Nat := sel.foldl (fun m e => m ||| fieldBits e.field) 0

/-- a key/mask pair matches another key (routing-table semantics) -/
def Matches (key key' mask' : Nat) : Prop := key &&& mask' = key'

/-! decidable versions used by the oracle (proved equivalent in Props) -/

def disjointB (s l s' l' : Nat) : Bool := s + l ≤ s' || s' + l' ≤ s

def entryDisjointB (e e' : Entry) : Bool :=
  match e.field.length, e.field.startAt, e'.field.length, e'.field.startAt with
  | some l, some s, some l', some s' => disjointB s l s' l'
  | _, _, _, _ => true

def pairwiseB (r : Entry → Entry → Bool) : List Entry → Bool
  | [] => true
  | e :: es => es.all (r e) && pairwiseB r es

def specDisjointB (es : List Entry) : Bool :=
  pairwiseB (fun e e' => !compatibleB e.reqs e'.reqs || entryDisjointB e e') es

def specInRangeB (L : Nat) (es : List Entry) : Bool :=
  es.all fun e => match e.field.length, e.field.startAt with
    | some l, some s => 1 ≤ l && s + l ≤ L
    | _, _ => true

def specWideB (es : List Entry) : Bool :=
  es.all fun e => match e.field.length with
    | some l => e.field.maxValue < 2 ^ l
    | none => true

def specUniqueB (es : List Entry) : Bool :=
  pairwiseB (fun e e' => !compatibleB e.reqs e'.reqs || e.ident != e'.ident) es

def specTagClosedB (es : List Entry) : Bool :=
  es.all fun e => es.all fun p =>
    !(e.reqs.any (·.1 == p.ident)) || !(p.enabled e.reqs) || e.field.tags.all (p.field.tags.contains ·)

def allFixedB (es : List Entry) : Bool := es.all (·.field.isFixed)

/-- instance invariant (decidable form): every value of the instance names a field present in it and is at most
that field's `max_value` -/
def instOKB (es : List Entry) (fv : Reqs) : Bool :=
  fv.all fun iv => es.any fun e => e.ident == iv.1 && e.enabled fv && decide (iv.2 ≤ e.field.maxValue)

/-- every present field of the instance that has a value and a length holds a value below `2^length` -/
def valuesFitB (es : List Entry) (fv : Reqs) : Bool :=
  (enabledFields es fv).all fun e =>
    match fv.lookup e.ident, e.field.length with
    | some x, some l => decide (x < 2 ^ l)
    | _, _ => true

/-- **explicit positions are kept**: `post` is `pre` field by field, and every field that had a start position in
`pre` has exactly that position in `post` (what `assign_fields` must do with explicitly positioned fields) -/
def startsKeptB : List Entry → List Entry → Bool
  | [], [] => true
  | a :: as, b :: bs =>
    (a.path == b.path && a.ident == b.ident &&
      (match a.field.startAt with
       | some s => b.field.startAt == some s
       | none => true)) && startsKeptB as bs
  | _, _ => false

/-- width an entry will have after assignment -/
def Entry.width (e : Entry) : Nat := e.field.chosenLen

/-- all sub-lists -/
def sublists : List Entry → List (List Entry)
  | [] => [[]]
  | e :: es => let r := sublists es; r ++ r.map (e :: ·)

/-- hypothesis of the completeness clause: nothing is positioned, and the widths of every set of
fields that can be present together sum to at most `L` -/
def floatingFitsB (L : Nat) (es : List Entry) : Bool :=
  es.all (fun e => e.field.startAt.isNone) &&
  (sublists es).all fun sub =>
    !(pairwiseB (fun e e' => compatibleB e.reqs e'.reqs) sub) || (sub.map (·.width)).sum ≤ L

/-- scopes are nested: two fields can be present together only if one's node is an ancestor of
(or equal to) the other's - siblings are mutually exclusive -/
def nestedB (es : List Entry) : Bool :=
  pairwiseB (fun e e' => !compatibleB e.reqs e'.reqs ||
    e.path.isPrefixOf e'.path || e'.path.isPrefixOf e.path) es

/-! ### line protocol -/
open Lean Rig.P

def errName : Err → String
  | .valueError => "ValueError"
  | .unavailable => "UnavailableFieldError"
  | .unknownTag => "UnknownTagError"
  | .recursion => "RecursionError"

def reqsOfJson (j : Json) : R Reqs := do
  (← asArr j).mapM fun p => asPair p asStr asNat

def reqsToJson (r : Reqs) : Json := jList (r.map fun iv => jPair (Json.str iv.1) (jNat iv.2))

def entryOfJson (j : Json) : R Entry := do
  let path ← (← arr j "path").mapM reqsOfJson
  pure { path, ident := ← str j "ident",
         field := { length := ← opt j "length" asNat, startAt := ← opt j "start" asNat,
                    tags := ← (← arr j "tags").mapM asStr, maxValue := ← nat j "max" } }

def entryToJson (e : Entry) : Json :=
  Json.mkObj [("path", jList (e.path.map reqsToJson)), ("ident", Json.str e.ident),
    ("length", jOpt jNat e.field.length), ("start", jOpt jNat e.field.startAt),
    ("tags", jList (e.field.tags.map Json.str)), ("max", jNat e.field.maxValue)]

def stateToJson (st : State) : Json := jList (st.entries.map entryToJson)

def resJson (f : α → Json) : Except Err α → Json
  | .ok a => jOk (f a)
  | .error e => jErr (errName e)

/-- one non-creating operation on instance `fv` -/
def runOp (op : String) (j : Json) (st : State) (fv : Reqs) : R (State × Option Reqs × Json) := do
  let withState (st' : State) (r : List (String × Json)) : Json := Json.mkObj (r ++ [("state", stateToJson st')])
  match op with
  | "add" =>
    let tags ← (← arr j "tags").mapM asStr
    match addField st fv (← str j "ident") (← opt j "length" asInt) (← opt j "start" asNat) tags with
    | .ok st' => pure (st', none, withState st' [("ok", Json.null)])
    | .error .recursion => pure (st, none, jErr (errName .recursion))
    | .error e => pure (st, none, withState st [("err", Json.str (errName e))])
  | "call" =>
    let kw ← (← arr j "kw").mapM fun p => asPair p asStr asInt
    match call st fv kw with
    | .ok (st', fv') => pure (st', some fv', withState st' [("ok", reqsToJson fv')])
    | .error e => pure (st, none, withState st [("err", Json.str (errName e))])
  | "assign" =>
    let spare ← (← opt j "spare" fun x => do (← asArr x).mapM asNat).getD [] |> pure
    let st := { st with entries := markSpare (fun m => spare.contains m) st.entries }
    match assignFieldsP st with
    | (st', none) => pure (st', none, withState st' [("ok", Json.null)])
    | (st', some e) => pure (st', none, withState st' [("err", Json.str (errName e))])
  | "value" => pure (st, none, resJson jNat (getValue st.entries fv (← opt j "tag" asStr) (← opt j "field" asStr)))
  | "mask" => pure (st, none, resJson jNat (getMask st.entries fv (← opt j "tag" asStr) (← opt j "field" asStr)))
  | "tags" => pure (st, none, resJson (fun t => jList (t.map Json.str)) (getTags st.entries fv (← str j "field")))
  | "loc" => pure (st, none, resJson (fun sl => jPair (jNat sl.1) (jNat sl.2))
      (getLocationAndLength st.entries fv (← str j "field")))
  | "attr" => pure (st, none, resJson (jOpt jNat) (getAttr st.entries fv (← str j "field")))
  | _ => .error s!"unknown history op {op}"

/-- run one history.  Instances are numbered in creation order (0 = the root BitField). -/
def runOps : List Json → State → List Reqs → List Json → R (List Json)
  | [], _, _, acc => pure acc.reverse
  | j :: rest, st, insts, acc => do
    let op ← str j "op"
    let n ← (opt j "inst" asNat)
    match insts[n.getD 0]? with
    | none => runOps rest st insts (jErr "NoSuchInstance" :: acc)
    | some fv =>
      let (st', newInst, out) ← runOp op j st fv
      runOps rest st' (insts ++ newInst.toList) (out :: acc)

def handle (op : String) (j : Json) : R Json := do
  match op with
  | "history" =>
    let L ← nat j "length"
    let out ← runOps (← arr j "ops") { length := L, entries := [] } [[]] []
    pure (jList out)
  | "invariant" =>
    -- the specification predicates on a tree dumped from the implementation
    let L ← nat j "length"
    let es ← (← arr j "entries").mapM entryOfJson
    pure (Json.mkObj [("disjoint", Json.bool (specDisjointB es)), ("in_range", Json.bool (specInRangeB L es)),
      ("wide", Json.bool (specWideB es)), ("unique", Json.bool (specUniqueB es)),
      ("tag_closed", Json.bool (specTagClosedB es)), ("all_fixed", Json.bool (allFixedB es)),
      ("nested", Json.bool (nestedB es))])
  | "floating_fits" =>
    let L ← nat j "length"
    let es ← (← arr j "entries").mapM entryOfJson
    pure (Json.mkObj [("fits", Json.bool (floatingFitsB L es)), ("nested", Json.bool (nestedB es))])
  | "starts_kept" =>
    -- the implementation's trees before and after one assign_fields
    let pre ← (← arr j "pre").mapM entryOfJson
    let post ← (← arr j "post").mapM entryOfJson
    pure (Json.bool (startsKeptB pre post))
  | "consts" =>
    -- the constants regenerated from the source (hypotheses of `complete_floating` / `inv_addField`)
    pure (Json.mkObj [("scan_slack", jNat SCAN_SLACK), ("max_value_default", jNat MAX_VALUE_DEFAULT)])
  | "instance" =>
    -- the instance predicates on a tree and a `field_values` dict dumped from the implementation
    let es ← (← arr j "entries").mapM entryOfJson
    let fv ← reqsOfJson (← field j "fv")
    pure (Json.mkObj [("inst_ok", Json.bool (instOKB es fv)), ("values_fit", Json.bool (valuesFitB es fv))])
  | "key_oracle" =>
    -- implementation outputs: key, mask, and for every enabled field (start, len, value)
    let es ← (← arr j "entries").mapM entryOfJson
    let fv ← reqsOfJson (← field j "fv")
    let key ← nat j "key"
    let mask ← nat j "mask"
    let tag ← opt j "tag" asStr
    let sel := (enabledFields es fv).filter fun e => match tag with
      | some t => e.field.tags.contains t
      | none => true
    let locs ← (← arr j "locs").mapM fun l => do
      pure (← nat l "start", ← nat l "len", ← nat l "value")
    pure (Json.mkObj [
      ("readback", Json.bool (locs.all fun (s, l, v) => (key >>> s) % 2 ^ l == v)),
      ("mask_exact", Json.bool (mask == unionBits sel)),
      ("mask_is_locs", Json.bool (mask == locs.foldl (fun m (s, l, _) => m ||| rangeMask l s) 0))])
  | "orthogonal" =>
    let k ← nat j "key"; let m ← nat j "mask"; let k' ← nat j "key2"; let m' ← nat j "mask2"
    pure (Json.bool ((k &&& m' != k' &&& m) && (k &&& m' != k') && (k' &&& m != k)))
  | _ => .error s!"unknown op {op}"

end Rig.C08
