/-
C18 - basic types shared by the generated signature table (Gen/Signatures.lean)
and the model (Model/C18.lean).  Core Lean only.
-/
namespace Rig.C18

/-- A Python value as far as the context mechanism can tell values apart.
`required` is the `Required` sentinel of rig/utils/contexts.py (a value like any
other for Python: it can be a default, sit in a context or be passed explicitly);
`dyn` stands for "a value computed from data" in the per-method wire rules. -/
inductive Val where
  | required
  | int (i : Int)
  | none
  | bool (b : Bool)
  | other (repr : String)
  | dyn
  /-- a list / tuple of ints (boards given as an iterable to `BMPController.set_power` / `set_led`) -/
  | ints (l : List Int)
  deriving Repr, DecidableEq, Inhabited

/-- insertion-ordered `dict` with string keys: association list without duplicate keys -/
abbrev Dict := List (String × Val)

/-- What `inspect.getfullargspec(f)[:4]` and the decorator's keyword arguments say
about one `@ContextMixin.use_contextual_arguments(...)` method. -/
structure Sig where
  cls : String
  name : String
  /-- positional-or-keyword parameter names, including `self` -/
  argNames : List String
  /-- the trailing defaults (un-padded, as in the source) -/
  defaults : List Val
  hasVarargs : Bool
  hasKeywords : Bool
  /-- `**kw_only_args_defaults` of the decorator call, in source order -/
  kwOnly : Dict
  deriving Repr, DecidableEq, Inhabited

end Rig.C18
